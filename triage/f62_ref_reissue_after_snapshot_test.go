// F62 (place in tsdb): a series with m-mapped chunks is evicted (CompactSelectedSeries / CompactStaleHead), the DB is closed with a
// chunk snapshot and reopened: the next new series got the evicted series' reference and, after one more restart, its chunks.
// The tests log the references and what the head returns (B ref=2 with 241 samples before fix; B ref=3 with 1 sample after).
package tsdb

import (
	"fmt"
	"os"
	"path/filepath"
	"context"
	"math"
	"testing"

	"github.com/stretchr/testify/require"

	"github.com/prometheus/prometheus/model/labels"
	"github.com/prometheus/prometheus/model/value"
	"github.com/prometheus/prometheus/storage"
)

func exploreOpen(t *testing.T, dir string, snapshot, fast bool) *DB {
	opts := DefaultOptions()
	opts.MinBlockDuration = 100000
	opts.MaxBlockDuration = 100000
	opts.EnableMemorySnapshotOnShutdown = snapshot
	opts.EnableFastStartup = fast
	db, err := Open(dir, nil, nil, opts, nil)
	require.NoError(t, err)
	db.DisableCompactions()
	return db
}

func exploreHeadQuery(t *testing.T, db *DB) map[string][]float64 {
	q, err := NewBlockQuerier(db.Head(), math.MinInt64, math.MaxInt64)
	require.NoError(t, err)
	defer q.Close()
	ss := q.Select(context.Background(), true, nil, labels.MustNewMatcher(labels.MatchRegexp, "name", ".+"))
	res := map[string][]float64{}
	for ss.Next() {
		s := ss.At()
		it := s.Iterator(nil)
		var vs []float64
		for it.Next() != 0 {
			_, v := it.At()
			vs = append(vs, v)
		}
		res[s.Labels().String()] = vs
	}
	require.NoError(t, ss.Err())
	return res
}

func TestF62SnapshotSelectedEviction(t *testing.T) {
	for _, fast := range []bool{false, true} {
		dir := t.TempDir()
		db := exploreOpen(t, dir, true, fast)

		kept := labels.FromStrings("name", "kept")
		a := labels.FromStrings("name", "A")
		b := labels.FromStrings("name", "B")

		app := db.Appender(context.Background())
		_, err := app.Append(0, kept, 0, 1000)
		require.NoError(t, err)
		var aRef storage.SeriesRef
		for i := 0; i < 300; i++ {
			aRef, err = app.Append(aRef, a, int64(i), 1) // A's values are all 1
			require.NoError(t, err)
		}
		require.NoError(t, app.Commit())
		db.head.mmapHeadChunks()
		t.Logf("A ref=%d lastSeriesID=%d", aRef, db.head.lastSeriesID.Load())

		require.NoError(t, db.CompactSelectedSeries([]storage.SeriesRef{aRef}))
		require.Equal(t, uint64(1), db.Head().NumSeries())
		require.NoError(t, db.Close())

		db = exploreOpen(t, dir, true, fast)
		t.Logf("after restart 1: lastSeriesID=%d head=%v", db.head.lastSeriesID.Load(), exploreHeadQuery(t, db))
		app = db.Appender(context.Background())
		bRef, err := app.Append(0, b, 5000, 2) // B's values are all 2
		require.NoError(t, err)
		require.NoError(t, app.Commit())
		t.Logf("B ref=%d", bRef)
		require.NoError(t, db.Close())

		db = exploreOpen(t, dir, true, fast)
		res := exploreHeadQuery(t, db)
		t.Logf("fast=%v after restart 2: lastSeriesID=%d", fast, db.head.lastSeriesID.Load())
		for k, v := range res {
			t.Logf("  %s: %d samples, first=%v last=%v", k, len(v), v[0], v[len(v)-1])
		}
		require.NoError(t, db.Close())
	}
}

func exploreQueryAll(t *testing.T, db *DB) map[string][][2]float64 {
	q, err := db.Querier(math.MinInt64, math.MaxInt64)
	require.NoError(t, err)
	defer q.Close()
	ss := q.Select(context.Background(), true, nil, labels.MustNewMatcher(labels.MatchRegexp, "name", ".+"))
	res := map[string][][2]float64{}
	for ss.Next() {
		s := ss.At()
		it := s.Iterator(nil)
		for it.Next() != 0 {
			ts, v := it.At()
			res[s.Labels().String()] = append(res[s.Labels().String()], [2]float64{float64(ts), v})
		}
	}
	require.NoError(t, ss.Err())
	return res
}

func TestF62SnapshotStaleEviction(t *testing.T) {
	dir := t.TempDir()
	db := exploreOpen(t, dir, true, false)

	kept := labels.FromStrings("name", "kept")
	a := labels.FromStrings("name", "A")
	b := labels.FromStrings("name", "B")

	app := db.Appender(context.Background())
	_, err := app.Append(0, kept, 0, 1000)
	require.NoError(t, err)
	var aRef storage.SeriesRef
	for i := 0; i < 300; i++ {
		aRef, err = app.Append(aRef, a, int64(i), 1)
		require.NoError(t, err)
	}
	_, err = app.Append(aRef, a, 300, math.Float64frombits(value.StaleNaN))
	require.NoError(t, err)
	require.NoError(t, app.Commit())
	db.head.mmapHeadChunks()
	require.NoError(t, db.CompactStaleHead())
	require.Equal(t, uint64(1), db.Head().NumSeries())
	require.NoError(t, db.Close())

	db = exploreOpen(t, dir, true, false)
	app = db.Appender(context.Background())
	bRef, err := app.Append(0, b, 5000, 2)
	require.NoError(t, err)
	require.NoError(t, app.Commit())
	t.Logf("A ref=%d B ref=%d", aRef, bRef)
	require.NoError(t, db.Close())

	db = exploreOpen(t, dir, true, false)
	res := exploreHeadQuery(t, db)
	for k, v := range res {
		t.Logf("  %s: %d samples, first=%v last=%v", k, len(v), v[0], v[len(v)-1])
	}
	require.NoError(t, db.Close())
}
