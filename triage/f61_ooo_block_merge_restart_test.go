// F61 (place in tsdb): leveled compaction merges an out-of-order block with non-overlapping in-order blocks; the merged
// block loses the from-out-of-order hint and a clean restart discards the in-order WAL samples of its range.  The test
// logs the sample counts before and after the restart (413 / 293 before fix, 413 / 413 after).
package tsdb

import (
	"context"
	"os"
	"path/filepath"
	"testing"
	"time"

	"github.com/stretchr/testify/require"

	"github.com/prometheus/prometheus/model/labels"
	"github.com/prometheus/prometheus/tsdb/fileutil"
	"github.com/prometheus/prometheus/tsdb/wlog"
)

func exploreCount(t *testing.T, db *DB, mint, maxt int64) []int64 {
	q, err := db.Querier(mint, maxt)
	require.NoError(t, err)
	res := query(t, q, labels.MustNewMatcher(labels.MatchEqual, "a", "1"))
	var ts []int64
	for _, ss := range res {
		for _, s := range ss {
			ts = append(ts, s.T())
		}
	}
	return ts
}

func TestF61OOOBlockLeveledCompactionRestart(t *testing.T) {
	dir := t.TempDir()
	opts := DefaultOptions()
	opts.OutOfOrderTimeWindow = (3 * time.Hour).Milliseconds()
	opts.MaxBlockDuration = (36 * time.Hour).Milliseconds()
	db, err := Open(dir, nil, nil, opts, nil)
	require.NoError(t, err)
	db.DisableCompactions()
	min := time.Minute.Milliseconds()
	hour := time.Hour.Milliseconds()
	lbls := labels.FromStrings("a", "1")
	app := db.Appender(context.Background())
	for i := int64(0); i <= 6*60+50; i++ {
		_, err := app.Append(0, lbls, i*min, float64(i))
		require.NoError(t, err)
	}
	require.NoError(t, app.Commit())
	// OOO samples in [4h,6h) and [6h,8h).
	app = db.Appender(context.Background())
	_, err = app.Append(0, lbls, 5*hour+30_000, 1)
	require.NoError(t, err)
	_, err = app.Append(0, lbls, 6*hour+30*min+30_000, 2)
	require.NoError(t, err)
	require.NoError(t, app.Commit())
	t.Log("before compact [4h,6h):", exploreAll(t, db, 4*hour, 6*hour-1), "total", exploreAll(t, db, 0, 10*hour))

	require.NoError(t, db.Compact(context.Background()))
	for _, b := range db.Blocks() {
		m := b.Meta()
		t.Log("block", m.MinTime/min, m.MaxTime/min, "level", m.Compaction.Level, "ooo", m.Compaction.FromOutOfOrder())
	}
	t.Log("head min", db.Head().MinTime()/min, "max", db.Head().MaxTime()/min)
	t.Log("after compact [4h,6h):", exploreAll(t, db, 4*hour, 6*hour-1), "total", exploreAll(t, db, 0, 10*hour))
	require.NoError(t, db.Close())

	db, err = Open(dir, nil, nil, opts, nil)
	require.NoError(t, err)
	db.DisableCompactions()
	t.Log("after reopen head min", db.Head().MinTime()/min, "max", db.Head().MaxTime()/min)
	t.Log("after reopen [4h,6h):", exploreAll(t, db, 4*hour, 6*hour-1), "total", exploreAll(t, db, 0, 10*hour))
	require.NoError(t, db.Close())
}
