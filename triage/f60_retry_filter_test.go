package remote

import (
	"testing"

	"github.com/stretchr/testify/require"

	"github.com/prometheus/prometheus/prompb"
	writev2 "github.com/prometheus/prometheus/prompb/io/prometheus/write/v2"
)

// F60: sendSamplesWithBackoff builds the request from the same batch slice on every retry, each time with the age
// filter.  A second pass over a batch from which the first pass dropped a series must not produce an empty series.
func TestF60SecondFilterPassOverTheSameBatch(t *testing.T) {
	batch := []prompb.TimeSeries{
		{Labels: []prompb.Label{{Name: "__name__", Value: "a"}}, Samples: []prompb.Sample{{Timestamp: 1, Value: 1}}},
		{Labels: []prompb.Label{{Name: "__name__", Value: "b"}}, Samples: []prompb.Sample{{Timestamp: 2, Value: 1}}},
		{Labels: []prompb.Label{{Name: "__name__", Value: "c"}}, Samples: []prompb.Sample{{Timestamp: 100, Value: 1}}},
	}
	old := func(limit int64) func(prompb.TimeSeries) bool {
		return func(ts prompb.TimeSeries) bool { return len(ts.Samples) > 0 && ts.Samples[0].Timestamp < limit }
	}
	first, _ := buildTimeSeries(batch, old(2)) // drops a
	require.Len(t, first, 2)
	second, stats := buildTimeSeries(batch, old(3)) // the retry: same slice, b is too old now
	for _, ts := range second {
		require.NotEmpty(t, ts.Labels, "an entry without labels and samples would be sent: %+v", second)
	}
	require.Len(t, second, 1)
	_ = stats

	v2 := []writev2.TimeSeries{
		{LabelsRefs: []uint32{1, 2}, Samples: []writev2.Sample{{Timestamp: 1, Value: 1}}},
		{LabelsRefs: []uint32{1, 3}, Samples: []writev2.Sample{{Timestamp: 2, Value: 1}}},
		{LabelsRefs: []uint32{1, 4}, Samples: []writev2.Sample{{Timestamp: 100, Value: 1}}},
	}
	old2 := func(limit int64) func(writev2.TimeSeries) bool {
		return func(ts writev2.TimeSeries) bool { return len(ts.Samples) > 0 && ts.Samples[0].Timestamp < limit }
	}
	f2, _ := buildV2TimeSeries(v2, old2(2))
	require.Len(t, f2, 2)
	s2, st2 := buildV2TimeSeries(v2, old2(3))
	require.Len(t, s2, 1)
	_ = st2
}
