package tsdb

import (
	"context"
	"testing"
	"time"

	"github.com/stretchr/testify/require"

	"github.com/prometheus/prometheus/model/labels"
	"github.com/prometheus/prometheus/tsdb/chunks"
	"github.com/prometheus/prometheus/util/compression"
)

func f68Setup(t *testing.T) (*Head, *memSeries, *memSeries) {
	h, _ := newTestHead(t, 1000000, compression.None, false)
	app := h.Appender(context.Background())
	r1, err := app.Append(0, labels.FromStrings("s", "1"), 1, 1)
	require.NoError(t, err)
	r2, err := app.Append(0, labels.FromStrings("s", "2"), 1, 1)
	require.NoError(t, err)
	require.NoError(t, app.Commit())
	return h, h.series.getByID(chunks.HeadSeriesRef(r1)), h.series.getByID(chunks.HeadSeriesRef(r2))
}

// F68 (observation): a sample committed before the querier was created is hidden because an older transaction that
// wrote to the same series is still committing — memSeries.visibleSamples stops at the first append ID the reader
// must not see and hides everything behind it.
func TestF68CommittedHiddenBehindUncommitted(t *testing.T) {
	h, s1, s2 := f68Setup(t)

	a := h.Appender(context.Background())
	_, err := a.Append(0, labels.FromStrings("s", "1"), 10, 10)
	require.NoError(t, err)
	_, err = a.Append(0, labels.FromStrings("s", "2"), 10, 10)
	require.NoError(t, err)

	s2.Lock() // holds A's Commit between its two series
	done := make(chan error, 1)
	go func() { done <- a.Commit() }()
	require.Eventually(t, func() bool {
		s1.Lock()
		defer s1.Unlock()
		return s1.headChunks.chunk.NumSamples() >= 2
	}, 5*time.Second, time.Millisecond)

	b := h.Appender(context.Background())
	_, err = b.Append(0, labels.FromStrings("s", "1"), 20, 20)
	require.NoError(t, err)
	require.NoError(t, b.Commit())

	q, err := NewBlockQuerier(h, 0, 1000)
	require.NoError(t, err)
	res := query(t, q, labels.MustNewMatcher(labels.MatchEqual, "s", "1"))
	s2.Unlock()
	require.NoError(t, <-done)
	t.Logf("querier created after B.Commit() returned, A still committing: %v", res)
	var ts []int64
	for _, s := range res[`{s="1"}`] {
		ts = append(ts, s.T())
	}
	require.Equal(t, []int64{1, 20}, ts, "B's sample was committed before the querier was created; A's must be hidden")
}

// F69 (observation): a transaction is applied in part for good.  Both of A's samples are accepted by Append; B commits
// a later sample to the first series before A commits; A.Commit() returns nil, drops its sample for the first series
// as out of order and stores the one for the second.
func TestF69TransactionAppliedInPart(t *testing.T) {
	h, _, _ := f68Setup(t)

	a := h.Appender(context.Background())
	_, err := a.Append(0, labels.FromStrings("s", "1"), 10, 10)
	require.NoError(t, err)
	_, err = a.Append(0, labels.FromStrings("s", "2"), 10, 10)
	require.NoError(t, err)

	b := h.Appender(context.Background())
	_, err = b.Append(0, labels.FromStrings("s", "1"), 20, 20)
	require.NoError(t, err)
	require.NoError(t, b.Commit())

	errA := a.Commit()
	q, err := NewBlockQuerier(h, 0, 1000)
	require.NoError(t, err)
	res := query(t, q, labels.MustNewMatcher(labels.MatchRegexp, "s", ".*"))
	t.Logf("A.Commit() = %v; head: %v", errA, res)
	n1, n2 := len(res[`{s="1"}`]), len(res[`{s="2"}`])
	require.True(t, errA != nil || (n1 == 3) == (n2 == 2), "A's samples are visible together or not at all (s1 has %d samples, s2 has %d)", n1, n2)
}
