package textparse

import (
	"errors"
	"io"
	"testing"

	"github.com/stretchr/testify/require"

	"github.com/prometheus/prometheus/model/exemplar"
	"github.com/prometheus/prometheus/model/labels"
)

type f43Series struct {
	lset labels.Labels
	ts   *int64
	st   int64
	ex   *exemplar.Exemplar
}

func f43Parse(t *testing.T, in string, opts ...OpenMetricsOption) (out []f43Series, types map[string]string) {
	t.Helper()
	p := NewOpenMetricsParser([]byte(in), labels.NewSymbolTable(), opts...)
	types = map[string]string{}
	for {
		e, err := p.Next()
		if errors.Is(err, io.EOF) {
			return out, types
		}
		require.NoError(t, err)
		switch e {
		case EntryType:
			n, typ := p.Type()
			types[string(n)] = string(typ)
		case EntrySeries:
			var s f43Series
			_, ts, _ := p.Series()
			if ts != nil {
				v := *ts
				s.ts = &v
			}
			p.Labels(&s.lset)
			var ex exemplar.Exemplar
			if p.Exemplar(&ex) {
				s.ex = &ex
			}
			s.st = p.StartTimestamp()
			out = append(out, s)
		}
	}
}

// F43: OpenMetrics timestamps are seconds with a fraction; the encoder writes milliseconds as sec.mmm.
func TestF43TimestampsAreRoundedToMilliseconds(t *testing.T) {
	out, _ := f43Parse(t, "# TYPE g gauge\ng 1 1.001 # {a=\"x\"} 1 1.001\n# TYPE c counter\nc_total 1\nc_created 1.001\n# EOF\n", WithOMParserSTSeriesSkipped())
	require.Len(t, out, 2)
	require.Equal(t, int64(1001), *out[0].ts, "sample timestamp")
	require.Equal(t, int64(1001), out[0].ex.Ts, "exemplar timestamp")
	require.Equal(t, int64(1001), out[1].st, "start timestamp")
}

// F44: exemplar label values are escaped like series label values.
func TestF44ExemplarLabelValuesAreUnescaped(t *testing.T) {
	out, _ := f43Parse(t, "# TYPE g gauge\ng{a=\"x\\\"y\\\\z\\nq\"} 1 0.001 # {a=\"x\\\"y\\\\z\\nq\"} 1 1.0\n# EOF\n")
	require.Len(t, out, 1)
	require.Equal(t, "x\"y\\z\nq", out[0].lset.Get("a"), "series label")
	require.Equal(t, "x\"y\\z\nq", out[0].ex.Labels.Get("a"), "exemplar label")
}

// F45: the _created line of another series must not be taken for this one's.
func TestF45CreatedLineOfAnotherSeries(t *testing.T) {
	out, _ := f43Parse(t, "# TYPE foo counter\nfoo_total{a=\"bc\"} 1\nfoo_created{ab=\"c\"} 5\n# EOF\n", WithOMParserSTSeriesSkipped())
	require.Len(t, out, 1)
	require.Equal(t, int64(0), out[0].st)
}

// F46: a unit belongs to its family.
func TestF46UnitDoesNotLeakIntoTheNextFamily(t *testing.T) {
	out, _ := f43Parse(t, "# TYPE a_seconds gauge\n# UNIT a_seconds seconds\na_seconds 1\n# TYPE b gauge\nb 1\n# EOF\n", WithOMParserTypeAndUnitLabels())
	require.Len(t, out, 2)
	require.Equal(t, "seconds", out[0].lset.Get("__unit__"))
	require.Equal(t, "", out[1].lset.Get("__unit__"))
}

// F47: a quoted metric name reads the same in the metadata entries and in the labels.
func TestF47QuotedNamesInMetadata(t *testing.T) {
	out, types := f43Parse(t, "# TYPE \"a\\\\b\\\"c\" gauge\n{\"a\\\\b\\\"c\"} 1\n# EOF\n")
	require.Len(t, out, 1)
	name := out[0].lset.Get("__name__")
	require.Equal(t, "a\\b\"c", name)
	_, ok := types[name]
	require.True(t, ok, "TYPE entry names %v, series is named %q", types, name)
}
