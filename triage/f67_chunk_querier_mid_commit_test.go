package tsdb

import (
	"context"
	"testing"
	"time"

	"github.com/stretchr/testify/require"

	"github.com/prometheus/prometheus/model/labels"
	"github.com/prometheus/prometheus/storage"
	"github.com/prometheus/prometheus/tsdb/chunkenc"
	"github.com/prometheus/prometheus/tsdb/chunks"
	"github.com/prometheus/prometheus/util/compression"
)

// F67: a chunk querier created while a transaction is committing must not hand out head chunks whose bytes contain
// that transaction's samples.  Appender A appends 300 samples to {s="1"} and one to {s="2"}; its Commit is held
// between the two series (the lock of the second series is taken by the test).
func TestF67ChunkQuerierMidCommit(t *testing.T) {
	h, _ := newTestHead(t, 1000000, compression.None, false)
	app := h.Appender(context.Background())
	r1, err := app.Append(0, labels.FromStrings("s", "1"), 1, 1)
	require.NoError(t, err)
	r2, err := app.Append(0, labels.FromStrings("s", "2"), 1, 1)
	require.NoError(t, err)
	require.NoError(t, app.Commit())
	s1 := h.series.getByID(chunks.HeadSeriesRef(r1))
	s2 := h.series.getByID(chunks.HeadSeriesRef(r2))

	a := h.Appender(context.Background())
	for ts := int64(10); ts < 310; ts++ {
		_, err := a.Append(0, labels.FromStrings("s", "1"), ts, float64(ts))
		require.NoError(t, err)
	}
	_, err = a.Append(0, labels.FromStrings("s", "2"), 10, 10)
	require.NoError(t, err)

	s2.Lock()
	done := make(chan error, 1)
	go func() { done <- a.Commit() }()
	require.Eventually(t, func() bool {
		s1.Lock()
		defer s1.Unlock()
		total := 0
		for _, m := range s1.mmappedChunks {
			total += int(m.numSamples)
		}
		for c := s1.headChunks; c != nil; c = c.prev {
			total += c.chunk.NumSamples()
		}
		return total >= 301
	}, 5*time.Second, time.Millisecond)

	for i, maxt := range []int64{1000, 1 << 62, 1000} {
		var cq storage.ChunkQuerier
		cq, err := NewBlockChunkQuerier(h, 0, maxt)
		require.NoError(t, err)
		if i == 2 {
			// As DB.ChunkQuerier does when the range overlaps out-of-order data.
			cq = NewHeadAndOOOChunkQuerier(0, 0, maxt, h, h.oooIso.TrackReadAfter(0), cq)
		}
		ss := cq.Select(context.Background(), false, nil, labels.MustNewMatcher(labels.MatchEqual, "s", "1"))
		total := 0
		for ss.Next() {
			it := ss.At().Iterator(nil)
			for it.Next() {
				m := it.At()
				raw, err := chunkenc.FromData(m.Chunk.Encoding(), m.Chunk.Bytes())
				require.NoError(t, err)
				viaBytes, err := storage.ExpandSamples(raw.Iterator(nil), nil)
				require.NoError(t, err)
				t.Logf("maxt=%d meta [%d,%d] NumSamples=%d samples in Bytes()=%d", maxt, m.MinTime, m.MaxTime, m.Chunk.NumSamples(), len(viaBytes))
				total += len(viaBytes)
				require.LessOrEqual(t, m.MaxTime, int64(1), "the chunk meta advertises uncommitted data")
			}
			require.NoError(t, it.Err())
		}
		require.NoError(t, ss.Err())
		require.NoError(t, cq.Close())
		require.Equal(t, 1, total, "only the sample at t=1 was committed when the querier was created")
	}

	s2.Unlock()
	require.NoError(t, <-done)

	cq, err := NewBlockChunkQuerier(h, 0, 1000)
	require.NoError(t, err)
	ss := cq.Select(context.Background(), false, nil, labels.MustNewMatcher(labels.MatchEqual, "s", "1"))
	total := 0
	for ss.Next() {
		it := ss.At().Iterator(nil)
		for it.Next() {
			total += it.At().Chunk.NumSamples()
		}
	}
	require.NoError(t, cq.Close())
	require.Equal(t, 301, total)
}
