//go:build !slicelabels && !dedupelabels

package labels

import (
	"strings"
	"testing"

	"github.com/stretchr/testify/require"
)

// F58: the long form of a string length has three bytes, so the longest encodable string has 1<<24 - 1 bytes.
// A string of exactly 1<<24 bytes must be refused like longer ones, not encoded with length 0.
func TestF58LabelValueOfExactly16MiB(t *testing.T) {
	v := strings.Repeat("x", 1<<24)
	require.Panics(t, func() { _ = FromStrings("a", v, "b", "1") }, "a label value of 1<<24 bytes cannot be encoded")
	// one byte less works and reads back
	ls := FromStrings("a", v[1:], "b", "1")
	require.Equal(t, 2, ls.Len())
	require.Equal(t, len(v)-1, len(ls.Get("a")))
	require.Equal(t, "1", ls.Get("b"))
}
