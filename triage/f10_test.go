package tsdb // internal test: copy to /repo/tsdb/zz_f10_test.go to run (uses h.lastSeriesID)

import (
	"context"
	"math"
	"path/filepath"
	"testing"

	"github.com/stretchr/testify/require"

	"github.com/prometheus/prometheus/model/labels"
	"github.com/prometheus/prometheus/storage"
	"github.com/prometheus/prometheus/tsdb/wlog"
	"github.com/prometheus/prometheus/util/compression"
)

// F10: a stale series_state.json (fast startup disabled for one run, then re-enabled) lowers
// lastSeriesID below the value restored from the memory snapshot.
func TestF10StaleSeriesStateLowersLastSeriesID(t *testing.T) {
	dir := t.TempDir()
	open := func(fast bool) *Head {
		t.Helper()
		wal, err := wlog.NewSize(nil, nil, filepath.Join(dir, "wal"), 32768, compression.None)
		require.NoError(t, err)
		opts := DefaultHeadOptions()
		opts.ChunkRange = 1000
		opts.ChunkDirRoot = dir
		opts.EnableMemorySnapshotOnShutdown = true
		opts.EnableFastStartup = fast
		h, err := NewHead(nil, nil, wal, nil, opts, nil)
		require.NoError(t, err)
		require.NoError(t, h.Init(0))
		return h
	}
	appendOne := func(h *Head, lset labels.Labels, ts int64, v float64) storage.SeriesRef {
		t.Helper()
		app := h.Appender(context.Background())
		ref, err := app.Append(0, lset, ts, v)
		require.NoError(t, err)
		require.NoError(t, app.Commit())
		return ref
	}
	h := open(true)
	appendOne(h, labels.FromStrings("foo", "a"), 100, 1)
	require.NoError(t, h.Close())

	h = open(false) // fast startup off for one run: series_state.json is not rewritten
	refB := appendOne(h, labels.FromStrings("foo", "b"), 200, 2)
	refC := appendOne(h, labels.FromStrings("foo", "c"), 200, 3)
	require.NoError(t, h.Close())

	h = open(true)
	defer h.Close()
	t.Logf("refB=%d refC=%d lastSeriesID after Init=%d series=%d", refB, refC, h.lastSeriesID.Load(), h.NumSeries())
	refD := appendOne(h, labels.FromStrings("foo", "d"), 300, 4)
	require.NotEqual(t, refB, refD, "ref of live series b handed out again")
	require.NotEqual(t, refC, refD, "ref of live series c handed out again")
	_ = math.MaxInt64
}
