package promql_test

import (
	"context"
	"testing"
	"time"

	"github.com/stretchr/testify/require"

	"github.com/prometheus/prometheus/promql"
	"github.com/prometheus/prometheus/promql/promqltest"
)

func f41Instant(t *testing.T, q string, at int64) promql.Vector {
	t.Helper()
	st := promqltest.LoadedStorage(t, `
load 10s
  metric 0+1x100
`)
	defer st.Close()
	eng := promqltest.NewTestEngine(t, false, 0, promqltest.DefaultMaxSamplesPerQuery)
	qry, err := eng.NewInstantQuery(context.Background(), st, nil, q, time.Unix(at, 0))
	require.NoError(t, err)
	res := qry.Exec(context.Background())
	require.NoError(t, res.Err)
	v, err := res.Vector()
	require.NoError(t, err)
	return v
}

// F41: timestamp() over a selector with @ and offset: the offset moves the fixed time like everywhere else.
func TestF41TimestampAtOffset(t *testing.T) {
	for _, tc := range []struct {
		q    string
		want float64
	}{
		{`timestamp(metric @ 100 offset -30s)`, 130},
		{`timestamp(metric @ 900 offset 6m)`, 540},
		{`timestamp(metric @ 100 offset 30s)`, 70},
		{`timestamp(metric @ 100)`, 100},
		{`max_over_time(timestamp(metric @ 100 offset -30s)[1m:10s])`, 130},
	} {
		t.Run(tc.q, func(t *testing.T) {
			v := f41Instant(t, tc.q, 500)
			require.Len(t, v, 1)
			require.Equal(t, tc.want, v[0].F)
		})
	}
}

// F42: a selector with @ inside a subquery with a negative offset, when the first subquery step is the outer
// evaluation time.
func TestF42AtInsideSubqueryWithNegativeOffset(t *testing.T) {
	for _, tc := range []struct {
		q    string
		want float64
	}{
		{`sum_over_time((metric @ 100)[1m:10s] offset -65s)`, 60},
		{`sum_over_time((metric @ 100)[1m:10s] offset -55s)`, 60},
		{`sum_over_time((metric @ 100)[1m:10s] offset -54s)`, 60},
		{`sum_over_time((metric @ 100)[1m:10s] offset -45s)`, 60},
		{`sum_over_time((metric @ 100)[1m:10s])`, 60},
	} {
		t.Run(tc.q, func(t *testing.T) {
			v := f41Instant(t, tc.q, 200)
			require.Len(t, v, 1)
			require.Equal(t, tc.want, v[0].F)
		})
	}
}
