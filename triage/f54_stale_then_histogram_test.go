package tsdb

import (
	"context"
	"math"
	"testing"

	"github.com/stretchr/testify/require"

	"github.com/prometheus/prometheus/model/histogram"
	"github.com/prometheus/prometheus/model/labels"
	"github.com/prometheus/prometheus/model/value"
	"github.com/prometheus/prometheus/tsdb/chunkenc"
	"github.com/prometheus/prometheus/util/compression"
)

// F54: a float staleness marker followed by a histogram of the same series in ONE transaction must be stored
// exactly as if the two had been appended in separate transactions.
func TestF54StaleMarkerThenHistogramInOneTransaction(t *testing.T) {
	for _, float := range []bool{false, true} {
		for _, oneTx := range []bool{false, true} {
			head, _ := newTestHead(t, 1000000, compression.None, false)
			require.NoError(t, head.Init(0))
			lset := labels.FromStrings("__name__", "h")
			h := &histogram.Histogram{Schema: 0, Count: 3, Sum: 5, PositiveSpans: []histogram.Span{{Offset: 0, Length: 1}}, PositiveBuckets: []int64{3}}
			appendH := func(app interface {
				AppendHistogram(ref uint64, l labels.Labels, t int64, h *histogram.Histogram, fh *histogram.FloatHistogram) (uint64, error)
			}, ts int64) {
			}
			_ = appendH
			app := head.Appender(context.Background())
			var err error
			if float {
				_, err = app.AppendHistogram(0, lset, 1000, nil, h.ToFloat(nil))
			} else {
				_, err = app.AppendHistogram(0, lset, 1000, h.Copy(), nil)
			}
			require.NoError(t, err)
			require.NoError(t, app.Commit())

			app = head.Appender(context.Background())
			_, err = app.Append(0, lset, 2000, math.Float64frombits(value.StaleNaN))
			require.NoError(t, err)
			if !oneTx {
				require.NoError(t, app.Commit())
				app = head.Appender(context.Background())
			}
			h2 := h.Copy()
			h2.Count, h2.PositiveBuckets[0] = 4, 4
			if float {
				_, err = app.AppendHistogram(0, lset, 3000, nil, h2.ToFloat(nil))
			} else {
				_, err = app.AppendHistogram(0, lset, 3000, h2, nil)
			}
			require.NoError(t, err)
			require.NoError(t, app.Commit())

			q, err := NewBlockQuerier(head, 0, 10000)
			require.NoError(t, err)
			ss := q.Select(context.Background(), false, nil, labels.MustNewMatcher(labels.MatchEqual, "__name__", "h"))
			type rec struct {
				t     int64
				stale bool
			}
			var got []rec
			for ss.Next() {
				it := ss.At().Iterator(nil)
				for vt := it.Next(); vt != chunkenc.ValNone; vt = it.Next() {
					switch vt {
					case chunkenc.ValHistogram:
						ts, hh := it.AtHistogram(nil)
						got = append(got, rec{ts, value.IsStaleNaN(hh.Sum)})
					case chunkenc.ValFloatHistogram:
						ts, hh := it.AtFloatHistogram(nil)
						got = append(got, rec{ts, value.IsStaleNaN(hh.Sum)})
					default:
						ts, v := it.At()
						got = append(got, rec{ts, value.IsStaleNaN(v)})
					}
				}
			}
			require.NoError(t, ss.Err())
			q.Close()
			require.Equal(t, []rec{{1000, false}, {2000, true}, {3000, false}}, got, "float=%v oneTx=%v", float, oneTx)
		}
	}
}
