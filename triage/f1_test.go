package triage

import (
	"context"
	"math"
	"os"
	"path/filepath"
	"testing"

	"github.com/prometheus/prometheus/model/labels"
	"github.com/prometheus/prometheus/model/value"
	"github.com/prometheus/prometheus/tsdb"
)

func TestF1(t *testing.T) {
	dir := t.TempDir()
	opts := tsdb.DefaultOptions()
	opts.EnableMemorySnapshotOnShutdown = true
	db, err := tsdb.Open(dir, nil, nil, opts, nil)
	if err != nil {
		t.Fatal(err)
	}
	ctx := context.Background()
	lsStale := labels.FromStrings("__name__", "stale_one")
	lsLive := labels.FromStrings("__name__", "live_one")
	// Enough samples to cut several chunks so that head chunk files exist.
	for i := 0; i < 500; i++ {
		app := db.Appender(ctx)
		if _, err := app.Append(0, lsLive, int64(i)*1000, float64(i)); err != nil {
			t.Fatal(err)
		}
		if _, err := app.Append(0, lsStale, int64(i)*1000, float64(i)); err != nil {
			t.Fatal(err)
		}
		if err := app.Commit(); err != nil {
			t.Fatal(err)
		}
	}
	app := db.Appender(ctx)
	if _, err := app.Append(0, lsStale, 500*1000, math.Float64frombits(value.StaleNaN)); err != nil {
		t.Fatal(err)
	}
	if err := app.Commit(); err != nil {
		t.Fatal(err)
	}
	db.ForceHeadMMap()
	t.Logf("before close: series=%d stale=%d", db.Head().NumSeries(), db.Head().NumStaleSeries())
	if err := db.Close(); err != nil {
		t.Fatal(err)
	}
	// Damage the head chunk file (flip a byte in the middle).
	files, _ := filepath.Glob(filepath.Join(dir, "chunks_head", "*"))
	if len(files) == 0 {
		t.Fatal("no head chunk files")
	}
	b, _ := os.ReadFile(files[0])
	t.Logf("head chunk file %s size %d", files[0], len(b))
	b[40] ^= 0xff
	if err := os.WriteFile(files[0], b, 0o666); err != nil {
		t.Fatal(err)
	}
	snaps, _ := filepath.Glob(filepath.Join(dir, "chunk_snapshot.*"))
	t.Logf("snapshots: %v", snaps)

	db, err = tsdb.Open(dir, nil, nil, opts, nil)
	if err != nil {
		t.Fatal(err)
	}
	defer db.Close()
	t.Logf("after reopen: series=%d stale=%d", db.Head().NumSeries(), db.Head().NumStaleSeries())
	if got := db.Head().NumStaleSeries(); got != 1 {
		t.Errorf("NumStaleSeries = %d, want 1 (recount of head contents)", got)
	}
}
