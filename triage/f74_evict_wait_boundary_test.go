// F74: Head.truncateSeries evicts series with samples up to and including maxt but waits only for readers that
// overlap [MinTime, maxt-1] (WaitForPendingReadersInTimeRange takes an exclusive end).  A querier whose range starts
// exactly at maxt is open while the series is evicted and misses the sample at maxt.  Place in tsdb.

package tsdb

import (
	"context"
	"math"
	"testing"
	"time"

	"github.com/stretchr/testify/require"

	"github.com/prometheus/prometheus/model/labels"
	"github.com/prometheus/prometheus/model/value"
	"github.com/prometheus/prometheus/storage"
)

func TestF74StaleBoundary(t *testing.T) {
	for _, mint := range []int64{1999, 2000} {
		db := newTestDB(t)
		db.DisableCompactions()
		app := db.Appender(context.Background())
		for _, ts := range []int64{0, 1000} {
			_, err := app.Append(0, labels.FromStrings("a", "b"), ts, float64(ts))
			require.NoError(t, err)
		}
		_, err := app.Append(0, labels.FromStrings("a", "b"), 2000, math.Float64frombits(value.StaleNaN))
		require.NoError(t, err)
		require.NoError(t, app.Commit())

		q, err := db.Querier(mint, 3000)
		require.NoError(t, err)

		done := make(chan error, 1)
		go func() { done <- db.CompactStaleHead() }()
		finished := false
		select {
		case err := <-done:
			require.NoError(t, err)
			finished = true
		case <-time.After(3 * time.Second):
		}
		res := queryWithoutReplacingNaNs(t, q, labels.MustNewMatcher(labels.MatchEqual, "a", "b"))
		t.Logf("mint=%d compaction finished before query closed=%v result=%v blocks=%d headSeries=%d", mint, finished, res, len(db.Blocks()), db.head.NumSeries())
		if !finished {
			require.NoError(t, <-done)
		}
		require.False(t, finished, "the eviction has to wait for the open querier")
		require.Len(t, res[`{a="b"}`], 1, "the sample at t=2000 was committed before the query started")
	}
}

func TestF74SelectedSeriesBoundary(t *testing.T) {
	for _, mint := range []int64{1999, 2000} {
		db := newTestDB(t)
		db.DisableCompactions()
		app := db.Appender(context.Background())
		var ref storage.SeriesRef
		for _, ts := range []int64{0, 1000, 2000} {
			r, err := app.Append(0, labels.FromStrings("a", "b"), ts, float64(ts))
			require.NoError(t, err)
			ref = r
		}
		require.NoError(t, app.Commit())

		q, err := db.Querier(mint, 3000)
		require.NoError(t, err)

		done := make(chan error, 1)
		go func() { done <- db.CompactSelectedSeries([]storage.SeriesRef{ref}) }()
		finished := false
		select {
		case err := <-done:
			require.NoError(t, err)
			finished = true
		case <-time.After(3 * time.Second):
		}
		res := query(t, q, labels.MustNewMatcher(labels.MatchEqual, "a", "b"))
		t.Logf("mint=%d compaction finished before query closed=%v result=%v blocks=%d headSeries=%d", mint, finished, res, len(db.Blocks()), db.head.NumSeries())
		if !finished {
			require.NoError(t, <-done)
		}
		require.False(t, finished, "the eviction has to wait for the open querier")
		require.Len(t, res[`{a="b"}`], 1, "the sample at t=2000 was committed before the query started")
	}
}
