package prometheusremotewrite

import "testing"

// reference: re-bucket source counts into target index -> count
func refLayout(counts []uint64, offset, scaleDown int32) map[int32]int64 {
	out := map[int32]int64{}
	for i, c := range counts {
		if c != 0 {
			out[(int32(i)+offset)>>scaleDown+1] += int64(c)
		}
	}
	return out
}

func gotLayout(counts []uint64, offset, scaleDown int32) map[int32]int64 {
	spans, deltas := convertBucketsLayout(counts, offset, scaleDown, true)
	out := map[int32]int64{}
	idx := int32(0)
	di := 0
	var cur int64
	for _, s := range spans {
		idx += s.Offset
		for k := uint32(0); k < s.Length; k++ {
			cur += deltas[di]
			di++
			if cur != 0 {
				out[idx] += cur
			}
			idx++
		}
	}
	return out
}

func TestF12DownscaledLeadingZeros(t *testing.T) {
	for _, tc := range []struct {
		counts            []uint64
		offset, scaleDown int32
	}{
		{[]uint64{0, 0, 3, 4}, 0, 1},
		{[]uint64{0, 0, 3, 4}, 0, 0},
		{[]uint64{5, 0, 0, 0, 0, 0, 3, 4}, 0, 1},
		{[]uint64{0, 0, 0, 0, 1, 2, 3, 4}, 0, 2},
		{[]uint64{1, 2, 3, 4}, 1, 1},
	} {
		want, got := refLayout(tc.counts, tc.offset, tc.scaleDown), gotLayout(tc.counts, tc.offset, tc.scaleDown)
		t.Logf("counts=%v offset=%d scaleDown=%d want=%v got=%v", tc.counts, tc.offset, tc.scaleDown, want, got)
		if len(want) != len(got) {
			t.Errorf("MISMATCH")
			continue
		}
		for k, v := range want {
			if got[k] != v {
				t.Errorf("MISMATCH at %d", k)
			}
		}
	}
}

func TestF12Random(t *testing.T) {
	seed := uint64(12345)
	rnd := func(n int) int { seed = seed*6364136223846793005 + 1442695040888963407; return int((seed >> 33) % uint64(n)) }
	bad := 0
	for it := 0; it < 20000; it++ {
		n := 1 + rnd(12)
		counts := make([]uint64, n)
		for i := range counts {
			if rnd(3) != 0 {
				counts[i] = uint64(rnd(5))
			}
		}
		offset := int32(rnd(21) - 10)
		sd := int32(rnd(4))
		want, got := refLayout(counts, offset, sd), gotLayout(counts, offset, sd)
		ok := len(want) == len(got)
		for k, v := range want {
			if got[k] != v {
				ok = false
			}
		}
		if !ok {
			bad++
			if bad < 5 {
				t.Logf("counts=%v offset=%d sd=%d want=%v got=%v", counts, offset, sd, want, got)
			}
		}
	}
	if bad > 0 {
		t.Errorf("%d mismatches", bad)
	}
}
