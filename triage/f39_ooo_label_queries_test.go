package tsdb

import (
	"context"
	"testing"
	"time"

	"github.com/stretchr/testify/require"

	"github.com/prometheus/prometheus/model/labels"
)

func TestF39OOOLabelQueries(t *testing.T) {
	ctx := context.Background()
	opts := DefaultOptions()
	opts.OutOfOrderTimeWindow = (24 * time.Hour).Milliseconds()
	db, err := Open(t.TempDir(), nil, nil, opts, nil)
	require.NoError(t, err)
	defer db.Close()

	app := db.Appender(ctx)
	_, err = app.Append(0, labels.FromStrings("job", "a"), 10_000_000, 1)
	require.NoError(t, err)
	_, err = app.Append(0, labels.FromStrings("job", "a"), 10_000_100, 1)
	require.NoError(t, err)
	require.NoError(t, app.Commit())

	app = db.Appender(ctx)
	_, err = app.Append(0, labels.FromStrings("job", "b", "zone", "z1"), 1_000_000, 1)
	require.NoError(t, err)
	require.NoError(t, app.Commit())

	t.Logf("head min=%d max=%d minOOO=%d maxOOO=%d", db.head.MinTime(), db.head.MaxTime(), db.head.MinOOOTime(), db.head.MaxOOOTime())

	q, err := db.Querier(900_000, 1_100_000)
	require.NoError(t, err)
	defer q.Close()

	ss := q.Select(ctx, true, nil, labels.MustNewMatcher(labels.MatchEqual, "job", "b"))
	n := 0
	for ss.Next() {
		t.Logf("select: %s", ss.At().Labels())
		n++
	}
	require.NoError(t, ss.Err())
	require.Equal(t, 1, n, "select")

	vals, _, err := q.LabelValues(ctx, "zone", nil)
	require.NoError(t, err)
	require.Equal(t, []string{"z1"}, vals, "LabelValues(zone)")
	names, _, err := q.LabelNames(ctx, nil)
	require.NoError(t, err)
	require.Equal(t, []string{"job", "zone"}, names, "LabelNames")
	vals, _, err = q.LabelValues(ctx, "zone", nil, labels.MustNewMatcher(labels.MatchEqual, "job", "b"))
	require.NoError(t, err)
	require.Equal(t, []string{"z1"}, vals, "LabelValues(zone){job=b}")
}
