// Triage of three observations reported against property C48 (agent WAL logs every accepted sample
// after a series record for its reference and keeps samples >= mint through checkpoints).
// Place in tsdb/agent.  Each test describes what the WAL contains; t.Log lines show the state.
package agent

import (
	"context"
	"path/filepath"
	"testing"

	"github.com/prometheus/common/promslog"
	"github.com/stretchr/testify/require"

	"github.com/prometheus/prometheus/model/labels"
	"github.com/prometheus/prometheus/tsdb/chunks"
	"github.com/prometheus/prometheus/tsdb/record"
	"github.com/prometheus/prometheus/tsdb/wlog"
)

type f29rec struct {
	kind string
	ref  chunks.HeadSeriesRef
	t    int64
	v    float64
}

func f29ReadWAL(t *testing.T, dir string) []f29rec {
	t.Helper()
	var out []f29rec
	dec := record.NewDecoder(labels.NewSymbolTable(), promslog.NewNopLogger())
	read := func(r *wlog.Reader) {
		for r.Next() {
			rec := r.Record()
			switch dec.Type(rec) {
			case record.Series:
				ss, err := dec.Series(rec, nil)
				require.NoError(t, err)
				for _, s := range ss {
					out = append(out, f29rec{kind: "series", ref: s.Ref})
				}
			case record.Samples, record.SamplesV2:
				ss, err := dec.Samples(rec, nil)
				require.NoError(t, err)
				for _, s := range ss {
					out = append(out, f29rec{kind: "sample", ref: s.Ref, t: s.T, v: s.V})
				}
			}
		}
		require.NoError(t, r.Err())
	}
	wdir := filepath.Join(dir, "wal")
	cpdir, _, err := wlog.LastCheckpoint(wdir)
	if err == nil {
		sr, err := wlog.NewSegmentsReader(cpdir)
		require.NoError(t, err)
		read(wlog.NewReader(sr))
		sr.Close()
	}
	first, last, err := wlog.Segments(wdir)
	require.NoError(t, err)
	if first >= 0 {
		sr, err := wlog.NewSegmentsRangeReader(wlog.SegmentRange{Dir: wdir, First: first, Last: last})
		require.NoError(t, err)
		read(wlog.NewReader(sr))
		sr.Close()
	}
	return out
}

// orphans returns the samples that are not preceded by a series record of their ref.
func f29Orphans(recs []f29rec) []f29rec {
	known := map[chunks.HeadSeriesRef]bool{}
	var out []f29rec
	for _, r := range recs {
		if r.kind == "series" {
			known[r.ref] = true
		} else if !known[r.ref] {
			out = append(out, r)
		}
	}
	return out
}

// Observation 1: two open appenders; the second one finds the in-memory series created by the first and
// commits a sample before the creator has logged the series record.
func TestF29SampleBeforeSeriesRecord(t *testing.T) {
	dir := t.TempDir()
	db, err := Open(promslog.NewNopLogger(), nil, nil, dir, DefaultOptions())
	require.NoError(t, err)
	lset := labels.FromStrings("__name__", "x")
	a1 := db.Appender(context.Background())
	_, err = a1.Append(0, lset, 1, 1)
	require.NoError(t, err)
	a2 := db.Appender(context.Background())
	_, err = a2.Append(0, lset, 2, 2)
	require.NoError(t, err)
	require.NoError(t, a2.Commit())
	recs := f29ReadWAL(t, dir)
	t.Logf("WAL after a2.Commit: %+v", recs)
	require.Empty(t, f29Orphans(recs), "accepted, committed sample without a preceding series record")
	require.NoError(t, a1.Commit())
	require.NoError(t, db.Close())
}

// Observation 2: a series with an uncommitted append is garbage collected; the committed sample survives in
// checkpoints while its series record is eventually dropped.
func TestF29GCWithPendingAppend(t *testing.T) {
	dir := t.TempDir()
	db, err := Open(promslog.NewNopLogger(), nil, nil, dir, DefaultOptions())
	require.NoError(t, err)
	lset := labels.FromStrings("__name__", "s")
	a := db.Appender(context.Background())
	_, err = a.Append(0, lset, 100, 1)
	require.NoError(t, err)
	require.NoError(t, a.Commit())

	a = db.Appender(context.Background())
	_, err = a.Append(0, lset, 1000, 2)
	require.NoError(t, err)
	for range 3 {
		_, err := db.wal.NextSegmentSync()
		require.NoError(t, err)
	}
	require.NoError(t, db.truncate(500))
	require.NoError(t, a.Commit())
	for range 4 {
		_, err := db.wal.NextSegmentSync()
		require.NoError(t, err)
	}
	require.NoError(t, db.truncate(500))
	recs := f29ReadWAL(t, dir)
	t.Logf("WAL after second truncate: %+v", recs)
	require.NoError(t, db.Close())
	require.Empty(t, f29Orphans(recs), "accepted sample t=1000 >= mint=500 has no series record")
}

// Observation 3: opt-in CheckpointFromInMemorySeries.
func TestF29CheckpointFromInMemorySeries(t *testing.T) {
	dir := t.TempDir()
	opts := DefaultOptions()
	opts.CheckpointFromInMemorySeries = true
	db, err := Open(promslog.NewNopLogger(), nil, nil, dir, opts)
	require.NoError(t, err)
	lset := labels.FromStrings("__name__", "s")
	a := db.Appender(context.Background())
	_, err = a.Append(0, lset, 100, 7)
	require.NoError(t, err)
	_, err = a.Append(0, lset, 200, 8)
	require.NoError(t, err)
	require.NoError(t, a.Commit())
	for range 3 {
		_, err := db.wal.NextSegmentSync()
		require.NoError(t, err)
	}
	require.NoError(t, db.truncate(50))
	recs := f29ReadWAL(t, dir)
	t.Logf("WAL after truncate(50): %+v", recs)
	require.NoError(t, db.Close())
	var got []f29rec
	for _, r := range recs {
		if r.kind == "sample" {
			got = append(got, r)
		}
	}
	require.Equal(t, []f29rec{{"sample", 1, 100, 7}, {"sample", 1, 200, 8}}, got)
}
