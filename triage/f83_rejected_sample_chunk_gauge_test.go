package tsdb

import (
	"context"
	"testing"

	prom_testutil "github.com/prometheus/client_golang/prometheus/testutil"
	"github.com/stretchr/testify/require"

	"github.com/prometheus/prometheus/model/histogram"
	"github.com/prometheus/prometheus/model/labels"
	"github.com/prometheus/prometheus/tsdb/tsdbutil"
	"github.com/prometheus/prometheus/util/compression"
)

// F83: a sample rejected at commit time right after one that created a chunk (same appender: t=100 then t=50 for a
// new series, both accepted by Append) must not bump prometheus_tsdb_head_chunks and …_chunks_created_total again.
func TestF83RejectedSampleAfterChunkCreation(t *testing.T) {
	for _, typ := range []string{"float", "histogram", "floathistogram"} {
		t.Run(typ, func(t *testing.T) {
			h, _ := newTestHead(t, 1000, compression.None, false)
			app := h.Appender(context.Background())
			lbls := labels.FromStrings("foo", "bar")
			var hs []*histogram.Histogram
			var fhs []*histogram.FloatHistogram
			if typ == "histogram" {
				hs = tsdbutil.GenerateTestHistograms(2)
			}
			if typ == "floathistogram" {
				fhs = tsdbutil.GenerateTestFloatHistograms(2)
			}
			for i, ts := range []int64{100, 50} {
				var err error
				switch typ {
				case "float":
					_, err = app.Append(0, lbls, ts, float64(ts))
				case "histogram":
					_, err = app.AppendHistogram(0, lbls, ts, hs[i], nil)
				default:
					_, err = app.AppendHistogram(0, lbls, ts, nil, fhs[i])
				}
				require.NoError(t, err)
			}
			require.NoError(t, app.Commit())
			s := h.series.getByHash(lbls.Hash(), lbls)
			require.NotNil(t, s)
			chunksInHead := len(s.mmappedChunks) + int(s.headChunkCount.Load())
			require.Equal(t, 1, chunksInHead)
			require.Equal(t, float64(chunksInHead), prom_testutil.ToFloat64(h.metrics.chunks), "prometheus_tsdb_head_chunks")
			require.Equal(t, float64(chunksInHead), prom_testutil.ToFloat64(h.metrics.chunksCreated), "prometheus_tsdb_head_chunks_created_total")
		})
	}
}
