package tsdb

import (
	"context"
	"testing"

	prom_testutil "github.com/prometheus/client_golang/prometheus/testutil"
	"github.com/stretchr/testify/require"

	"github.com/prometheus/prometheus/model/labels"
	"github.com/prometheus/prometheus/tsdb/wlog"
	"github.com/prometheus/prometheus/util/compression"
)

func f92Recount(h *Head) int {
	n := 0
	for i := range h.series.series {
		h.series.locks[i].RLock()
		for _, s := range h.series.series[i] {
			s.Lock()
			n += len(s.mmappedChunks) + int(s.headChunkCount.Load())
			if s.ooo != nil {
				n += len(s.ooo.oooMmappedChunks)
				if s.ooo.oooHeadChunk != nil {
					n++
				}
			}
			s.Unlock()
		}
		h.series.locks[i].RUnlock()
	}
	return n
}

// F92: the history of TestHead_WALMultiRef — a series is truncated away and created again under a new reference;
// after a restart that replays the whole WAL, the samples of the old reference are replayed into head chunks, which
// resetSeriesWithMMappedChunks drops at the second series record.  The chunk gauge has to follow.
func TestF92MultiRefResetDropsHeadChunks(t *testing.T) {
	head, w := newTestHead(t, 1000, compression.None, false)
	require.NoError(t, head.Init(0))
	lset := labels.FromStrings("foo", "bar")
	appendF := func(ts int64, v float64) {
		app := head.Appender(context.Background())
		_, err := app.Append(0, lset, ts, v)
		require.NoError(t, err)
		require.NoError(t, app.Commit())
	}
	appendF(100, 1)
	appendF(1500, 2)
	require.NoError(t, head.Truncate(1600))
	appendF(1700, 3)
	appendF(2000, 4)
	require.Equal(t, float64(f92Recount(head)), prom_testutil.ToFloat64(head.metrics.chunks), "before restart")
	require.NoError(t, head.Close())

	w, err := wlog.New(nil, nil, w.Dir(), compression.None)
	require.NoError(t, err)
	opts := DefaultHeadOptions()
	opts.ChunkRange = 1000
	opts.ChunkDirRoot = head.opts.ChunkDirRoot
	head, err = NewHead(nil, nil, w, nil, opts, nil)
	require.NoError(t, err)
	require.NoError(t, head.Init(0))
	defer func() { require.NoError(t, head.Close()) }()
	t.Logf("after restart: gauge=%v recount=%d created=%v removed=%v", prom_testutil.ToFloat64(head.metrics.chunks), f92Recount(head), prom_testutil.ToFloat64(head.metrics.chunksCreated), prom_testutil.ToFloat64(head.metrics.chunksRemoved))
	require.Equal(t, float64(f92Recount(head)), prom_testutil.ToFloat64(head.metrics.chunks), "after restart")
	require.Equal(t, prom_testutil.ToFloat64(head.metrics.chunksCreated)-prom_testutil.ToFloat64(head.metrics.chunksRemoved), prom_testutil.ToFloat64(head.metrics.chunks), "created - removed = gauge")
}

// F93: five out-of-order samples with OutOfOrderCapMax=4: the fifth m-maps the full out-of-order head chunk and logs an
// m-map marker.  On replay the marker drops the out-of-order head chunk built from the first four samples (its
// m-mapped copy was counted when the chunk files were loaded); the gauge has to follow.
func TestF93WBLReplayMmapMarker(t *testing.T) {
	dir := t.TempDir()
	open := func() *DB {
		opts := DefaultOptions()
		opts.OutOfOrderTimeWindow = 100000
		opts.OutOfOrderCapMax = 4
		db := newTestDB(t, withOpts(opts), withDir(dir))
		db.DisableCompactions()
		return db
	}
	db := open()
	lset := labels.FromStrings("foo", "bar")
	appendF := func(ts int64, v float64) {
		app := db.Appender(context.Background())
		_, err := app.Append(0, lset, ts, v)
		require.NoError(t, err)
		require.NoError(t, app.Commit())
	}
	appendF(10000, 1)
	for i := int64(1); i <= 5; i++ {
		appendF(100*i, float64(i))
	}
	require.Equal(t, float64(f92Recount(db.Head())), prom_testutil.ToFloat64(db.Head().metrics.chunks), "before restart")
	require.NoError(t, db.Close())

	db = open()
	t.Logf("after restart: gauge=%v recount=%d", prom_testutil.ToFloat64(db.Head().metrics.chunks), f92Recount(db.Head()))
	require.Equal(t, float64(f92Recount(db.Head())), prom_testutil.ToFloat64(db.Head().metrics.chunks), "after restart")
}
