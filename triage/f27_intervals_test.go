package tombstones

import (
	"math"
	"testing"
)

func TestF14AddOpenEndedInterval(t *testing.T) {
	defer func() {
		if r := recover(); r != nil {
			t.Fatalf("panic: %v", r)
		}
	}()
	in := Intervals{{1, 2}, {200, 300}}
	out := in.Add(Interval{100, math.MaxInt64})
	t.Logf("%v", out)
	in2 := Intervals{{1, 2}, {50, 60}, {200, 300}}
	out2 := in2.Add(Interval{55, math.MaxInt64})
	t.Logf("%v", out2)
}

func TestF14Reference(t *testing.T) {
	seed := uint64(7)
	rnd := func(n int) int64 { seed = seed*6364136223846793005 + 1442695040888963407; return int64((seed >> 33) % uint64(n)) }
	for it := 0; it < 20000; it++ {
		var in Intervals
		var cover [64]bool
		add := func(a, b int64) {
			in = in.Add(Interval{a, b})
			for i := a; i <= b && i < 64; i++ {
				if i >= 0 {
					cover[i] = true
				}
			}
		}
		for k := 0; k < 1+int(rnd(5)); k++ {
			a := rnd(50)
			b := a + rnd(8)
			switch rnd(6) {
			case 0:
				add(a, math.MaxInt64)
				for i := a; i < 64; i++ {
					cover[i] = true
				}
			case 1:
				in = in.Add(Interval{math.MinInt64, b})
				for i := int64(0); i <= b; i++ {
					cover[i] = true
				}
			default:
				add(a, b)
			}
		}
		for i := int64(0); i < 64; i++ {
			got := false
			for _, iv := range in {
				if iv.Mint <= i && i <= iv.Maxt {
					got = true
				}
			}
			if got != cover[i] {
				t.Fatalf("iteration %d: %v at %d want %v", it, in, i, cover[i])
			}
		}
		for k := 1; k < len(in); k++ {
			if in[k-1].Maxt+1 >= in[k].Mint {
				t.Fatalf("not sorted/merged: %v", in)
			}
		}
	}
}
