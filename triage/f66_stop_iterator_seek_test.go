package tsdb

import (
	"testing"

	"github.com/stretchr/testify/require"

	"github.com/prometheus/prometheus/tsdb/chunkenc"
)

// F66: the iterator that hides the uncommitted tail of a head chunk from a reader (stopIterator: only the first
// stopAfter samples) must hide it from Seek as well as from Next.  Copy to tsdb/ to run.  Fails before the fix
// (Seek(15) returns the second sample although only one is visible).
func TestF66StopIteratorSeek(t *testing.T) {
	c := chunkenc.NewXORChunk()
	app, err := c.Appender()
	require.NoError(t, err)
	for i := int64(1); i <= 3; i++ {
		app.Append(0, i*10, float64(i))
	}
	// Only the first sample is visible to this reader.
	it := makeStopIterator(c, nil, 1)
	require.Equal(t, chunkenc.ValNone, it.Seek(15), "Seek must not reach samples beyond the visible ones")

	it = makeStopIterator(c, nil, 2)
	require.Equal(t, chunkenc.ValFloat, it.Seek(15))
	ts, v := it.At()
	require.Equal(t, int64(20), ts)
	require.Equal(t, 2.0, v)
	require.Equal(t, chunkenc.ValFloat, it.Seek(15))
	require.Equal(t, chunkenc.ValNone, it.Seek(25))
}
