package labels

import (
	"fmt"
	"strings"
	"testing"
	"unicode"

	"github.com/grafana/regexp"
	"github.com/stretchr/testify/require"
)

// Large case-insensitive alternations are served by equalMultiStringMapMatcher, which lower-cases and
// NFKD-normalises both sides; the reference engine uses simple case folding only.
func TestF37CaseInsensitiveMapMatcher(t *testing.T) {
	var alt, pfx []string
	for i := 0; i < 20; i++ {
		alt = append(alt, fmt.Sprintf("v%02d", i))
		pfx = append(pfx, string(rune('a'+i))+".*")
	}
	ALT, PFX := strings.Join(alt, "|"), strings.Join(pfx, "|")
	for _, tc := range []struct{ re, s string }{
		{"(?i:fi|" + ALT + ")", "\ufb01"},
		{"(?i:\u00e9|" + ALT + ")", "e\u0301"},
		{"(?i:(\u00c5|" + ALT + "))", "a\u030a"},
		{"(?i:(\u01c5|" + ALT + "))", "d\u017e"},
		{"(?i:(\u03c3|" + ALT + "))", "\u03c2"},
		{"(?i:(\u00e9.*|" + PFX + "))", "\u212ax"},
		{"(?i:(\u00e9.*|" + PFX + "))", "\u017fx"},
	} {
		t.Run(fmt.Sprintf("%q", tc.s), func(t *testing.T) {
			m, err := NewFastRegexMatcher(tc.re)
			require.NoError(t, err)
			std := regexp.MustCompile("^(?s:" + tc.re + ")$")
			require.Equal(t, std.MatchString(tc.s), m.MatchString(tc.s), "pattern %s value %q (matcher %T)", tc.re, tc.s, m.stringMatcher)
		})
	}
}

// Every rune folds to one representative per simple-folding orbit, ASCII to its lower case.
func TestF37FoldRune(t *testing.T) {
	for r := rune(0); r <= 0x1FFFF; r++ {
		rep := foldRune(r)
		require.Equal(t, rep, foldRune(rep), "idempotent %U", r)
		for f := unicode.SimpleFold(r); f != r; f = unicode.SimpleFold(f) {
			require.Equal(t, rep, foldRune(f), "orbit of %U", r)
		}
		// rep is in the orbit of r
		in := rep == r
		for f := unicode.SimpleFold(r); f != r; f = unicode.SimpleFold(f) {
			in = in || f == rep
		}
		require.True(t, in, "%U -> %U outside its orbit", r, rep)
		if r < 0x80 {
			require.Equal(t, unicode.ToLower(r), rep)
		}
	}
}
