package promql_test

import (
	"context"
	"testing"
	"time"

	"github.com/stretchr/testify/require"

	"github.com/prometheus/prometheus/promql"
	"github.com/prometheus/prometheus/promql/promqltest"
)

// A range query must equal the instant queries at each step, also when an aggregation's parameter varies with
// time while the aggregated expression is pinned with @.
func TestF40AggregationParamStepInvariance(t *testing.T) {
	st := promqltest.LoadedStorage(t, `
load 1m
  k        1 1 1 2 2 2 3 3 3 3 3
  q        0 0 0 0.5 0.5 0.5 1 1 1 1 1
  m{i="a"} 10x10
  m{i="b"} 20x10
  m{i="c"} 30x10
`)
	defer st.Close()
	eng := promqltest.NewTestEngine(t, false, 0, promqltest.DefaultMaxSamplesPerQuery)
	ctx := context.Background()
	start, end, step := time.Unix(0, 0), time.Unix(600, 0), time.Minute
	for _, q := range []string{
		`quantile(scalar(q), m @ 300)`,
		`topk(scalar(k), m @ 300)`,
	} {
		t.Run(q, func(t *testing.T) {
			rq, err := eng.NewRangeQuery(ctx, st, nil, q, start, end, step)
			require.NoError(t, err)
			res := rq.Exec(ctx)
			require.NoError(t, res.Err)
			mat, err := res.Matrix()
			require.NoError(t, err)
			got := map[int64]map[string]float64{}
			for _, s := range mat {
				for _, p := range s.Floats {
					if got[p.T] == nil {
						got[p.T] = map[string]float64{}
					}
					got[p.T][s.Metric.String()] = p.F
				}
			}
			for ts := start; !ts.After(end); ts = ts.Add(step) {
				iq, err := eng.NewInstantQuery(ctx, st, nil, q, ts)
				require.NoError(t, err)
				ires := iq.Exec(ctx)
				require.NoError(t, ires.Err)
				vec, err := ires.Vector()
				require.NoError(t, err)
				want := map[string]float64{}
				for _, s := range vec {
					want[s.Metric.String()] = s.F
				}
				g := got[ts.UnixMilli()]
				if g == nil {
					g = map[string]float64{}
				}
				require.Equal(t, want, g, "step %v", ts.Unix())
			}
			_ = promql.Vector{}
		})
	}
}
func TestF40bAtEndInsideAggregationParam(t *testing.T) {
	st := promqltest.LoadedStorage(t, `
load 1m
  q        0 0 0 0.5 0.5 0.5 1 1 1 1 1
  m{i="a"} 10x10
  m{i="b"} 20x10
  m{i="c"} 30x10
`)
	defer st.Close()
	eng := promqltest.NewTestEngine(t, false, 0, promqltest.DefaultMaxSamplesPerQuery)
	ctx := context.Background()
	rq, err := eng.NewRangeQuery(ctx, st, nil, `quantile(scalar(q @ end()), m)`, time.Unix(0, 0), time.Unix(600, 0), time.Minute)
	require.NoError(t, err)
	res := rq.Exec(ctx)
	require.NoError(t, res.Err)
	mat, err := res.Matrix()
	require.NoError(t, err)
	require.Len(t, mat, 1)
	for _, p := range mat[0].Floats {
		require.Equal(t, 30.0, p.F, "at %d: q @ end() is 1, so the 1-quantile (30) is expected at every step", p.T/1000)
	}
}
