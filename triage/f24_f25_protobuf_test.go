package textparse

import (
	"errors"
	"io"
	"testing"

	"github.com/prometheus/prometheus/model/exemplar"
	"github.com/prometheus/prometheus/model/labels"
)

func dumpPB(t *testing.T, fams []string, tag string) {
	buf := metricFamiliesToProtobuf(t, fams)
	p := NewProtobufParser(buf.Bytes(), false, false, false, false, labels.NewSymbolTable())
	for {
		e, err := p.Next()
		if errors.Is(err, io.EOF) {
			break
		}
		if err != nil {
			t.Fatal(err)
		}
		var l labels.Labels
		switch e {
		case EntrySeries:
			p.Labels(&l)
			_, _, v := p.Series()
			t.Logf("%s series %s %v", tag, l, v)
		case EntryHistogram:
			p.Labels(&l)
			_, _, h, fh := p.Histogram()
			t.Logf("%s HIST %s h=%v fh=%v", tag, l, h, fh)
		default:
			continue
		}
		var ex exemplar.Exemplar
		for p.Exemplar(&ex) {
			t.Logf("%s    exemplar %+v", tag, ex)
			ex = exemplar.Exemplar{}
		}
	}
}

func TestF24UntypedNotReset(t *testing.T) {
	dumpPB(t, []string{`name: "u"
type: UNTYPED
metric: <
  label: < name: "a" value: "1" >
  untyped: < value: 5 >
>
metric: <
  label: < name: "a" value: "2" >
  untyped: < value: 0 >
>
`}, "f24")
}

func TestF25SecondNativeHistogramExemplars(t *testing.T) {
	h := func(lv, id string) string {
		return `metric: <
  label: < name: "a" value: "` + lv + `" >
  histogram: <
    sample_count: 2
    sample_sum: 3
    schema: 0
    zero_threshold: 0.001
    positive_span: < offset: 0 length: 1 >
    positive_delta: 2
    exemplars: < label: < name: "id" value: "` + id + `" > value: 1.5 timestamp: < seconds: 100 > >
  >
>
`
	}
	dumpPB(t, []string{"name: \"nh\"\ntype: HISTOGRAM\n" + h("1", "e1") + h("2", "e2")}, "f25")
}
