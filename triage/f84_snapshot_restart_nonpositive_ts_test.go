// F84: place in tsdb.

package tsdb

import (
	"context"
	"math"
	"os"
	"path/filepath"
	"testing"

	"github.com/stretchr/testify/require"

	"github.com/prometheus/prometheus/model/labels"
	"github.com/prometheus/prometheus/tsdb/wlog"
	"github.com/prometheus/prometheus/util/compression"
)

// S6: series restored from a chunk snapshot have mmMaxTime == 0, so WAL-tail samples with
// timestamp <= 0 are skipped by processWALSamples.
func TestF84SnapshotRestartKeepsNonPositiveTimestamps(t *testing.T) {
	for _, base := range []int64{-1000, 1000} {
		dir := t.TempDir()
		wal, err := wlog.NewSize(nil, nil, filepath.Join(dir, "wal"), 32768, compression.None)
		require.NoError(t, err)
		opts := DefaultHeadOptions()
		opts.ChunkRange = 10000
		opts.ChunkDirRoot = dir
		opts.EnableMemorySnapshotOnShutdown = true
		head, err := NewHead(nil, nil, wal, nil, opts, nil)
		require.NoError(t, err)
		require.NoError(t, head.Init(math.MinInt64))
		lset := labels.FromStrings("foo", "bar")
		appendF := func(ts int64, v float64) {
			app := head.Appender(context.Background())
			_, err := app.Append(0, lset, ts, v)
			require.NoError(t, err)
			require.NoError(t, app.Commit())
		}
		appendF(base+100, 1)
		_, err = head.ChunkSnapshot()
		require.NoError(t, err)
		appendF(base+200, 2) // only in the WAL tail after the snapshot.
		// Crash: flush the WAL, copy everything, never run head.Close (which would snapshot again).
		require.NoError(t, head.wal.Sync())
		crashDir := t.TempDir()
		require.NoError(t, os.CopyFS(crashDir, os.DirFS(dir)))
		require.NoError(t, head.Close())

		wal2, err := wlog.NewSize(nil, nil, filepath.Join(crashDir, "wal"), 32768, compression.None)
		require.NoError(t, err)
		opts2 := DefaultHeadOptions()
		opts2.ChunkRange = 10000
		opts2.ChunkDirRoot = crashDir
		opts2.EnableMemorySnapshotOnShutdown = true
		head2, err := NewHead(nil, nil, wal2, nil, opts2, nil)
		require.NoError(t, err)
		require.NoError(t, head2.Init(math.MinInt64))
		q, err := NewBlockQuerier(head2, math.MinInt64, math.MaxInt64)
		require.NoError(t, err)
		res := query(t, q, labels.MustNewMatcher(labels.MatchEqual, "foo", "bar"))
		t.Logf("base=%d: after snapshot+WAL-tail restart: %v", base, res)
		require.NoError(t, head2.Close())
		if len(res[`{foo="bar"}`]) != 2 {
			t.Errorf("base=%d: expected 2 samples, got %d", base, len(res[`{foo="bar"}`]))
		}
	}
}
