// Triage of the C49.R3 candidates (omitempty fields with a non-zero default) and of C49.R4 (`$$` in external
// labels).  For each case a configuration with the explicit zero value is loaded, printed, reloaded and printed
// again.  Place in package config.  On the pinned tree 15 zero cases and the dollar case fail; cases whose zero is
// rejected by validation are skipped, cases whose zero is normalised while loading pass.  After fix 9636f38098 only
// ExternalLabels.dollar fails (open finding F34).
package config

import (
	"testing"

	"github.com/prometheus/common/promslog"
	"github.com/stretchr/testify/require"
)

func TestF33ExplicitZeroRoundTrip(t *testing.T) {
	cases := map[string]string{
		"QueueConfig.MinShards":                           "remote_write: [{url: http://x/w, queue_config: {min_shards: 0}}]",
		"QueueConfig.MaxShards":                           "remote_write: [{url: http://x/w, queue_config: {max_shards: 0}}]",
		"QueueConfig.Capacity":                            "remote_write: [{url: http://x/w, queue_config: {capacity: 0}}]",
		"QueueConfig.MaxSamplesPerSend":                   "remote_write: [{url: http://x/w, queue_config: {max_samples_per_send: 0}}]",
		"QueueConfig.BatchSendDeadline":                   "remote_write: [{url: http://x/w, queue_config: {batch_send_deadline: 0s}}]",
		"QueueConfig.MinBackoff":                          "remote_write: [{url: http://x/w, queue_config: {min_backoff: 0s}}]",
		"QueueConfig.MaxBackoff":                          "remote_write: [{url: http://x/w, queue_config: {max_backoff: 0s}}]",
		"QueueConfig.MinBackoff+MaxBackoff":               "remote_write: [{url: http://x/w, queue_config: {min_backoff: 0s, max_backoff: 0s}}]",
		"MetadataConfig.MaxSamplesPerSend":                "remote_write: [{url: http://x/w, metadata_config: {max_samples_per_send: 0}}]",
		"RemoteWriteConfig.RemoteTimeout":                 "remote_write: [{url: http://x/w, remote_timeout: 0s}]",
		"RemoteWriteConfig.ProtobufMessage":               "remote_write: [{url: http://x/w, protobuf_message: \"\"}]",
		"RemoteReadConfig.RemoteTimeout":                  "remote_read: [{url: http://x/r, remote_timeout: 0s}]",
		"RemoteReadConfig.ChunkedReadLimit":               "remote_read: [{url: http://x/r, chunked_read_limit: 0}]",
		"RemoteReadConfig.FilterExternalLabels":           "remote_read: [{url: http://x/r, filter_external_labels: false}]",
		"ScrapeConfig.Scheme":                             "scrape_configs: [{job_name: a, scheme: \"\"}]",
		"ScrapeConfig.MetricsPath":                        "scrape_configs: [{job_name: a, metrics_path: \"\"}]",
		"AlertmanagerConfig.Scheme":                       "alerting: {alertmanagers: [{scheme: \"\", static_configs: [{targets: ['a:1']}]}]}",
		"AlertmanagerConfig.Timeout":                      "alerting: {alertmanagers: [{timeout: 0s, static_configs: [{targets: ['a:1']}]}]}",
		"RuntimeConfig.GoGC":                              "runtime: {gogc: 0}",
		"GlobalConfig.ScrapeInterval":                     "global: {scrape_interval: 0s}",
		"GlobalConfig.ScrapeTimeout":                      "global: {scrape_timeout: 0s}",
		"GlobalConfig.EvaluationInterval":                 "global: {evaluation_interval: 0s}",
		"GlobalConfig.MetricNameValidationScheme":         "global: {metric_name_validation_scheme: \"\"}",
		"GlobalConfig.MetricNameEscapingScheme":           "global: {metric_name_escaping_scheme: \"\"}",
		"OTLPConfig.TranslationStrategy":                  "otlp: {translation_strategy: \"\"}",
		"OTLPConfig.LabelNameUnderscoreSanitization":      "otlp: {label_name_underscore_sanitization: false}",
		"OTLPConfig.LabelNamePreserveMultipleUnderscores": "otlp: {label_name_preserve_multiple_underscores: false}",
		"ExternalLabels.dollar":                           "global: {external_labels: {a: \"x$$y\"}}",
	}
	for name, in := range cases {
		t.Run(name, func(t *testing.T) {
			c1, err := Load(in, promslog.NewNopLogger())
			if err != nil {
				t.Skipf("INVALID (explicit zero is rejected): %v", err)
			}
			s1 := c1.String()
			c2, err := Load(s1, promslog.NewNopLogger())
			require.NoError(t, err, "printed text does not load:\n%s", s1)
			s2 := c2.String()
			require.Equal(t, s1, s2, "second print differs")
			require.Equal(t, c1, c2, "reloaded configuration differs")
		})
	}
}
