package remote

import (
	"context"
	"testing"
	"time"

	"github.com/stretchr/testify/require"

	"github.com/prometheus/prometheus/model/labels"
	"github.com/prometheus/prometheus/model/timestamp"
	"github.com/prometheus/prometheus/util/teststorage"
)

// F56: the remote write appender refuses samples too far in the future — also through the start-timestamp methods,
// which are called before Append and initialise the time range of an empty head with the sample's timestamp.
func TestF56FutureSampleWithStartTimestampLeavesHeadAlone(t *testing.T) {
	st := teststorage.New(t)
	defer st.Close()
	now := time.Now()
	app := &remoteWriteAppender{Appender: st.Appender(context.Background()), maxTime: timestamp.FromTime(now.Add(maxAheadTime))}
	far := timestamp.FromTime(now.Add(1000 * 24 * time.Hour))
	_, err := app.AppendSTZeroSample(0, labels.FromStrings("__name__", "m", "job", "a"), far, timestamp.FromTime(now.Add(-time.Second)))
	require.Error(t, err, "a start timestamp for a sample 1000 days ahead must be refused like the sample itself")
	_, err = app.Append(0, labels.FromStrings("__name__", "m", "job", "a"), far, 5)
	require.Error(t, err)
	require.NoError(t, app.Rollback())

	// A perfectly valid sample afterwards is accepted.
	app2 := &remoteWriteAppender{Appender: st.Appender(context.Background()), maxTime: timestamp.FromTime(now.Add(maxAheadTime))}
	_, err = app2.Append(0, labels.FromStrings("__name__", "m", "job", "b"), timestamp.FromTime(now), 1)
	require.NoError(t, err)
	require.NoError(t, app2.Commit())
}
