// place at: tsdb/f50_f53_triage_test.go  (F50 negative timestamps in OOO compaction, F51 Delete of OOO samples,
// F52 tombstones in OOO compaction: fixed; F53 TestSideC01cDeleteAfterPartialHeadCompaction: still failing, observation)
//
// Side observations for C01 on the UNMODIFIED code. Each test states the
// behaviour the property C01 requires; a failing test is an observation.

package tsdb

import (
	"context"
	"math"
	"testing"

	"github.com/stretchr/testify/require"

	"github.com/prometheus/prometheus/model/labels"
	"github.com/prometheus/prometheus/model/value"
	"github.com/prometheus/prometheus/tsdb/chunkenc"
)

func sideC01cOpen(t *testing.T, blockRange, oooWindow int64) *DB {
	opts := DefaultOptions()
	opts.MinBlockDuration = blockRange
	opts.MaxBlockDuration = blockRange
	opts.OutOfOrderTimeWindow = oooWindow
	db, err := Open(t.TempDir(), nil, nil, opts, nil)
	require.NoError(t, err)
	t.Cleanup(func() { _ = db.Close() })
	db.DisableCompactions()
	return db
}

func sideC01cTimes(ss []seedC01cSample) []int64 {
	res := []int64{}
	for _, s := range ss {
		res = append(res, s.t)
	}
	return res
}

// S1: out-of-order compaction with negative timestamps. compactOOO aligns the
// first block with blockSize*(mint/blockSize); Go division truncates towards
// zero, so for a negative mint that is not a multiple of the block size the
// first block starts after mint.
func TestSideC01cOOOCompactionNegativeTimestamps(t *testing.T) {
	db := sideC01cOpen(t, 1000, 100000)
	lbls := labels.FromStrings("__name__", "side1")
	m := labels.MustNewMatcher(labels.MatchEqual, "__name__", "side1")

	seedC01cAppend(t, db, lbls, seedC01cSample{5000, 1})                            // in-order
	seedC01cAppend(t, db, lbls, seedC01cSample{-1500, 2}, seedC01cSample{-1200, 3}) // out-of-order, negative

	require.Equal(t, []int64{-1500, -1200, 5000}, sideC01cTimes(seedC01cQuerySamples(t, db, math.MinInt64, math.MaxInt64, m)), "before OOO compaction")
	require.NoError(t, db.CompactOOOHead(context.Background()))
	for _, b := range db.Blocks() {
		t.Logf("block %s [%d, %d) samples=%d", b.Meta().ULID, b.Meta().MinTime, b.Meta().MaxTime, b.Meta().Stats.NumSamples)
	}
	require.Equal(t, []int64{-1500, -1200, 5000}, sideC01cTimes(seedC01cQuerySamples(t, db, math.MinInt64, math.MaxInt64, m)), "after OOO compaction")
}

// S2: Delete on out-of-order samples that lie before the in-order head range.
func TestSideC01cDeleteOOOBeforeInOrderRange(t *testing.T) {
	db := sideC01cOpen(t, 7200000, 100000)
	lbls := labels.FromStrings("__name__", "side2")
	m := labels.MustNewMatcher(labels.MatchEqual, "__name__", "side2")

	seedC01cAppend(t, db, lbls, seedC01cSample{5000, 1}, seedC01cSample{6000, 1})
	seedC01cAppend(t, db, lbls, seedC01cSample{1000, 2}, seedC01cSample{2000, 3})
	require.Equal(t, []int64{1000, 2000, 5000, 6000}, sideC01cTimes(seedC01cQuerySamples(t, db, 0, 10000, m)))

	require.NoError(t, db.Delete(context.Background(), 500, 1500, m))
	require.Equal(t, []int64{2000, 5000, 6000}, sideC01cTimes(seedC01cQuerySamples(t, db, 0, 10000, m)), "after Delete(500,1500)")
}

// S3: Delete on out-of-order samples inside the in-order head range, then
// out-of-order compaction (OOOCompactionHead.Tombstones() is always empty).
func TestSideC01cDeleteOOOThenOOOCompaction(t *testing.T) {
	db := sideC01cOpen(t, 7200000, 100000)
	lbls := labels.FromStrings("__name__", "side3")
	m := labels.MustNewMatcher(labels.MatchEqual, "__name__", "side3")

	seedC01cAppend(t, db, lbls, seedC01cSample{1000, 1}, seedC01cSample{6000, 1})
	seedC01cAppend(t, db, lbls, seedC01cSample{2000, 2}, seedC01cSample{3000, 3})
	require.Equal(t, []int64{1000, 2000, 3000, 6000}, sideC01cTimes(seedC01cQuerySamples(t, db, 0, 10000, m)))

	require.NoError(t, db.Delete(context.Background(), 1500, 2500, m))
	require.Equal(t, []int64{1000, 3000, 6000}, sideC01cTimes(seedC01cQuerySamples(t, db, 0, 10000, m)), "after Delete(1500,2500)")

	require.NoError(t, db.CompactOOOHead(context.Background()))
	require.Equal(t, []int64{1000, 3000, 6000}, sideC01cTimes(seedC01cQuerySamples(t, db, 0, 10000, m)), "after Delete(1500,2500) and OOO compaction")
}

// S4: head compaction of a range that ends inside a head chunk, then a delete
// that only reaches the block. The head still holds the samples before
// Head.MinTime() in the straddling chunk and the head querier returns them.
func TestSideC01cDeleteAfterPartialHeadCompaction(t *testing.T) {
	db := sideC01cOpen(t, 7200000, 0)
	lbls := labels.FromStrings("__name__", "side4")
	m := labels.MustNewMatcher(labels.MatchEqual, "__name__", "side4")

	seedC01cAppend(t, db, lbls, seedC01cSample{0, 1}, seedC01cSample{100, 1}, seedC01cSample{200, 1}, seedC01cSample{300, 1})
	require.NoError(t, db.CompactHead(NewRangeHead(db.Head(), 0, 150)))
	require.Len(t, db.Blocks(), 1)
	t.Logf("block [%d, %d), head [%d, %d]", db.Blocks()[0].Meta().MinTime, db.Blocks()[0].Meta().MaxTime, db.Head().MinTime(), db.Head().MaxTime())
	require.Equal(t, []int64{0, 100, 200, 300}, sideC01cTimes(seedC01cQuerySamples(t, db, 0, 1000, m)))

	require.NoError(t, db.Delete(context.Background(), 0, 50, m))
	require.Equal(t, []int64{100, 200, 300}, sideC01cTimes(seedC01cQuerySamples(t, db, 0, 1000, m)), "after Delete(0,50)")
}

// S5: a sample at math.MinInt64 (chainSampleIterator.lastT starts at MinInt64).
func TestSideC01cMinInt64Timestamp(t *testing.T) {
	db := sideC01cOpen(t, 7200000, 0)
	lbls := labels.FromStrings("__name__", "side5")
	m := labels.MustNewMatcher(labels.MatchEqual, "__name__", "side5")

	app := db.Appender(context.Background())
	_, err := app.Append(0, lbls, math.MinInt64, 1)
	if err != nil {
		t.Skipf("append at MinInt64 rejected: %v", err)
	}
	require.NoError(t, app.Commit())
	require.Equal(t, []int64{math.MinInt64}, sideC01cTimes(seedC01cQuerySamples(t, db, math.MinInt64, math.MaxInt64, m)))
}

type seedC01cSample struct {
	t int64
	v float64
}

func seedC01cAppend(t *testing.T, db *DB, lbls labels.Labels, samples ...seedC01cSample) {
	t.Helper()
	app := db.Appender(context.Background())
	for _, s := range samples {
		_, err := app.Append(0, lbls, s.t, s.v)
		require.NoError(t, err, "append t=%d", s.t)
	}
	require.NoError(t, app.Commit())
}

// seedC01cQuerySamples returns what storage.Querier.Select yields for the series.
func seedC01cQuerySamples(t *testing.T, db *DB, mint, maxt int64, m *labels.Matcher) []seedC01cSample {
	t.Helper()
	q, err := db.Querier(mint, maxt)
	require.NoError(t, err)
	defer func() { require.NoError(t, q.Close()) }()

	var res []seedC01cSample
	ss := q.Select(context.Background(), true, nil, m)
	var it chunkenc.Iterator
	for ss.Next() {
		it = ss.At().Iterator(it)
		for it.Next() == chunkenc.ValFloat {
			ts, v := it.At()
			res = append(res, seedC01cSample{ts, v})
		}
		require.NoError(t, it.Err())
	}
	require.NoError(t, ss.Err())
	return res
}

// seedC01cQueryChunkSamples returns what storage.ChunkQuerier.Select yields for
// the series, with all returned chunks decoded in the order they are returned.
func seedC01cQueryChunkSamples(t *testing.T, db *DB, mint, maxt int64, m *labels.Matcher) []seedC01cSample {
	t.Helper()
	q, err := db.ChunkQuerier(mint, maxt)
	require.NoError(t, err)
	defer func() { require.NoError(t, q.Close()) }()

	var res []seedC01cSample
	ss := q.Select(context.Background(), true, nil, m)
	for ss.Next() {
		cit := ss.At().Iterator(nil)
		for cit.Next() {
			it := cit.At().Chunk.Iterator(nil)
			for it.Next() == chunkenc.ValFloat {
				ts, v := it.At()
				res = append(res, seedC01cSample{ts, v})
			}
			require.NoError(t, it.Err())
		}
		require.NoError(t, cit.Err())
	}
	require.NoError(t, ss.Err())
	return res
}

// F50 (second site): stale-series compaction of a head whose oldest samples have negative timestamps that are not a
// multiple of the chunk range.
func TestF50StaleSeriesCompactionNegativeTimestamps(t *testing.T) {
	opts := DefaultOptions()
	opts.MinBlockDuration = 1000
	opts.MaxBlockDuration = 1000
	db, err := Open(t.TempDir(), nil, nil, opts, nil)
	require.NoError(t, err)
	defer db.Close()
	db.DisableCompactions()
	lset := labels.FromStrings("__name__", "stale_one")
	app := db.Appender(context.Background())
	for _, s := range []struct {
		t int64
		v float64
	}{{-1500, 1}, {-1200, 2}, {-800, 3}} {
		_, err := app.Append(0, lset, s.t, s.v)
		require.NoError(t, err)
	}
	_, err = app.Append(0, lset, -700, math.Float64frombits(value.StaleNaN))
	require.NoError(t, err)
	_, err = app.Append(0, labels.FromStrings("__name__", "live"), 5000, 1)
	require.NoError(t, err)
	require.NoError(t, app.Commit())

	require.NoError(t, db.CompactStaleHead())

	q, err := db.Querier(-10000, 10000)
	require.NoError(t, err)
	defer q.Close()
	ss := q.Select(context.Background(), false, nil, labels.MustNewMatcher(labels.MatchEqual, "__name__", "stale_one"))
	var got []int64
	for ss.Next() {
		it := ss.At().Iterator(nil)
		for it.Next() != chunkenc.ValNone {
			ts, _ := it.At()
			got = append(got, ts)
		}
	}
	require.NoError(t, ss.Err())
	require.Equal(t, []int64{-1500, -1200, -800, -700}, got)
}
