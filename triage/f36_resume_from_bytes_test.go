package chunkenc

import (
	"testing"

	"github.com/prometheus/prometheus/model/histogram"

	"github.com/stretchr/testify/require"
)

// Appending to a chunk that was reloaded from its bytes (what the head does after restoring a chunk snapshot).
func TestF36AppendAfterFromData(t *testing.T) {
	for _, enc := range []Encoding{EncXOR, EncXOR2} {
		t.Run(enc.String(), func(t *testing.T) {
			c, err := NewEmptyChunk(enc)
			require.NoError(t, err)
			app, err := c.Appender()
			require.NoError(t, err)
			type s struct {
				t int64
				v float64
			}
			var want []s
			for i := int64(1); i <= 3; i++ {
				app.Append(0, i*1000, float64(i))
				want = append(want, s{i * 1000, float64(i)})
			}
			b := append([]byte(nil), c.Bytes()...)
			c2, err := FromData(enc, b)
			require.NoError(t, err)
			app2, err := c2.Appender()
			require.NoError(t, err)
			for i := int64(4); i <= 5; i++ {
				app2.Append(0, i*1000, float64(i))
				want = append(want, s{i * 1000, float64(i)})
			}
			var got []s
			it := c2.Iterator(nil)
			for it.Next() != ValNone {
				ts, v := it.At()
				got = append(got, s{ts, v})
			}
			require.NoError(t, it.Err())
			require.Equal(t, want, got)
		})
	}
}

func TestF36HistogramAppendAfterFromData(t *testing.T) {
	for _, enc := range []Encoding{EncHistogram, EncFloatHistogram, EncHistogramST, EncFloatHistogramST} {
		t.Run(enc.String(), func(t *testing.T) {
			c, err := NewEmptyChunk(enc)
			require.NoError(t, err)
			app, err := c.Appender()
			require.NoError(t, err)
			hs := tsdbutilGen(6)
			appendOne := func(a Appender, i int) Appender {
				ts := int64(i+1) * 1000
				if enc == EncHistogram || enc == EncHistogramST {
					_, _, na, err := a.AppendHistogram(nil, 0, ts, hs[i], false)
					require.NoError(t, err)
					return na
				}
				_, _, na, err := a.AppendFloatHistogram(nil, 0, ts, hs[i].ToFloat(nil), false)
				require.NoError(t, err)
				return na
			}
			for i := 0; i < 3; i++ {
				app = appendOne(app, i)
			}
			b := append([]byte(nil), c.Bytes()...)
			c2, err := FromData(enc, b)
			require.NoError(t, err)
			app2, err := c2.Appender()
			require.NoError(t, err)
			for i := 3; i < 6; i++ {
				app2 = appendOne(app2, i)
			}
			it := c2.Iterator(nil)
			i := 0
			for vt := it.Next(); vt != ValNone; vt = it.Next() {
				if vt == ValHistogram {
					ts, h := it.AtHistogram(nil)
					require.Equal(t, int64(i+1)*1000, ts)
					require.Equal(t, hs[i].Count, h.Count, "sample %d", i)
					require.Equal(t, hs[i].Sum, h.Sum, "sample %d", i)
					require.Equal(t, hs[i].PositiveBuckets, h.PositiveBuckets, "sample %d", i)
				} else {
					ts, h := it.AtFloatHistogram(nil)
					require.Equal(t, int64(i+1)*1000, ts)
					require.Equal(t, float64(hs[i].Count), h.Count, "sample %d", i)
					require.Equal(t, hs[i].Sum, h.Sum, "sample %d", i)
				}
				i++
			}
			require.NoError(t, it.Err())
			require.Equal(t, 6, i)
		})
	}
}

func tsdbutilGen(n int) []*histogram.Histogram {
	var out []*histogram.Histogram
	for i := 0; i < n; i++ {
		out = append(out, &histogram.Histogram{
			Schema: 1, ZeroThreshold: 0.001, ZeroCount: uint64(2 + i), Count: uint64(20 + 7*i), Sum: 18.4 * float64(i+1),
			PositiveSpans:   []histogram.Span{{Offset: 0, Length: 2}, {Offset: 1, Length: 2}},
			PositiveBuckets: []int64{int64(i + 1), 1, -1, int64(i)},
			NegativeSpans:   []histogram.Span{{Offset: 0, Length: 1}},
			NegativeBuckets: []int64{int64(3 + i)},
		})
	}
	return out
}
