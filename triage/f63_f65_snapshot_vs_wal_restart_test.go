// Side observations on the UNMODIFIED code: all three tests FAIL at the pinned commit
// (without the seed patch). place at: tsdb/seed_C23_c_sideobs_test.go

package tsdb

import (
	"context"
	"math"
	"os"
	"path/filepath"
	"strings"
	"testing"

	"github.com/stretchr/testify/require"

	"github.com/prometheus/prometheus/model/labels"
	"github.com/prometheus/prometheus/model/value"
	"github.com/prometheus/prometheus/tsdb/chunkenc"
	"github.com/prometheus/prometheus/tsdb/fileutil"
	"github.com/prometheus/prometheus/tsdb/wlog"
)

var sideObsC23cOOOWindow int64

func sideObsC23cOpts() *Options {
	opts := DefaultOptions()
	opts.OutOfOrderTimeWindow = sideObsC23cOOOWindow
	opts.MinBlockDuration = 1000
	opts.MaxBlockDuration = 1000
	opts.RetentionDuration = 0
	opts.EnableMemorySnapshotOnShutdown = true
	return opts
}

func sideObsC23cOpen(t *testing.T, dir string) *DB {
	db, err := Open(dir, nil, nil, sideObsC23cOpts(), nil)
	require.NoError(t, err)
	db.DisableCompactions()
	return db
}

// Timestamps of all samples (stale markers included) per series.
func sideObsC23cQuery(t *testing.T, db *DB) map[string][]int64 {
	q, err := db.Querier(math.MinInt64, math.MaxInt64)
	require.NoError(t, err)
	defer q.Close()
	res := map[string][]int64{}
	ss := q.Select(context.Background(), true, nil, labels.MustNewMatcher(labels.MatchRegexp, "__name__", ".+"))
	for ss.Next() {
		it := ss.At().Iterator(nil)
		for it.Next() != chunkenc.ValNone {
			res[ss.At().Labels().String()] = append(res[ss.At().Labels().String()], it.AtT())
		}
		require.NoError(t, it.Err())
	}
	require.NoError(t, ss.Err())
	return res
}

func sideObsC23cAdd(t *testing.T, db *DB, l labels.Labels, ts int64, v float64) {
	app := db.Appender(context.Background())
	_, err := app.Append(0, l, ts, v)
	require.NoError(t, err)
	require.NoError(t, app.Commit())
}

// Copies dirSnap to dirWAL without the snapshot, reopens both, returns (walResult, snapResult).
func sideObsC23cReopenBoth(t *testing.T, dirSnap, dirWAL string) (map[string][]int64, map[string][]int64) {
	_, _, _, err := LastChunkSnapshot(dirSnap)
	require.NoError(t, err, "no snapshot after clean shutdown")
	require.NoError(t, fileutil.CopyDirs(dirSnap, dirWAL))
	entries, err := os.ReadDir(dirWAL)
	require.NoError(t, err)
	for _, e := range entries {
		if strings.HasPrefix(e.Name(), chunkSnapshotPrefix) {
			require.NoError(t, os.RemoveAll(filepath.Join(dirWAL, e.Name())))
		}
	}
	dbW := sideObsC23cOpen(t, dirWAL)
	gotWAL := sideObsC23cQuery(t, dbW)
	require.NoError(t, dbW.Close())

	dbS := sideObsC23cOpen(t, dirSnap)
	gotSnap := sideObsC23cQuery(t, dbS)
	require.NoError(t, dbS.Close())
	return gotWAL, gotSnap
}

// Side observation 1: a deleted sample whose chunk was m-mapped comes back after a restart
// from the memory snapshot, but not after a restart from the WAL.
//
//	append s0 t=3093; Delete [532,3706]; append s0 t=5616 (cuts a new head chunk);
//	m-map the completed chunk; head compaction (range [3000,4000) holds only deleted data,
//	so no block is written, the head is truncated to 5000 and the tombstone is dropped
//	from memory, but the m-mapped chunk file stays on disk); clean shutdown with snapshot.
func TestSideObsC23cDeletedMmappedSampleResurrectedBySnapshot(t *testing.T) {
	ctx := context.Background()
	root := t.TempDir()
	dirSnap, dirWAL := filepath.Join(root, "snap"), filepath.Join(root, "wal")
	require.NoError(t, os.MkdirAll(dirSnap, 0o777))
	lbls := labels.FromStrings("__name__", "m", "s", "s0")

	db := sideObsC23cOpen(t, dirSnap)
	sideObsC23cAdd(t, db, lbls, 3093, 1)
	require.NoError(t, db.Delete(ctx, 532, 3706, labels.MustNewMatcher(labels.MatchEqual, "s", "s0")))
	sideObsC23cAdd(t, db, lbls, 5616, 2)
	db.Head().mmapHeadChunks()
	require.NoError(t, db.Compact(ctx))
	require.Empty(t, db.Blocks(), "all data of the compacted range was deleted, no block expected")

	want := map[string][]int64{lbls.String(): {5616}}
	require.Equal(t, want, sideObsC23cQuery(t, db), "before shutdown")
	require.NoError(t, db.Close())

	gotWAL, gotSnap := sideObsC23cReopenBoth(t, dirSnap, dirWAL)
	t.Logf("before=%v wal=%v snapshot=%v", want, gotWAL, gotSnap)
	require.Equal(t, want, gotWAL, "restart from WAL")
	require.Equal(t, gotWAL, gotSnap, "restart from snapshot differs from restart from WAL")
}

// Side observation 2: a restart from the snapshot lowers the series ID counter below the ref of a
// series evicted by stale-series compaction; the ref is reissued, and a later replay of the
// whole WAL applies the old "series fully deleted" tombstone to the new series.
//
//	append stale marker for s1 (ref 1); CompactStaleHead (evicts ref 1, logs the full-range
//	tombstone for ref 1); clean shutdown (snapshot without series); reopen (lastSeriesID = 0);
//	append s0 t=3339 -> gets ref 1 again; two more clean restarts (so that the WAL has enough
//	segments for a checkpoint); append s0 t=4889; head compaction (checkpoint now holds
//	series(1,s1), tombstone(1,[MinInt64,MaxInt64]), series(1,s0) next to each other); clean shutdown.
func TestSideObsC23cSeriesRefReusedAfterSnapshotRestart(t *testing.T) {
	root := t.TempDir()
	dirSnap, dirWAL := filepath.Join(root, "snap"), filepath.Join(root, "wal")
	require.NoError(t, os.MkdirAll(dirSnap, 0o777))
	s0 := labels.FromStrings("__name__", "m", "s", "s0")
	s1 := labels.FromStrings("__name__", "m", "s", "s1")

	db := sideObsC23cOpen(t, dirSnap)
	sideObsC23cAdd(t, db, s1, 3247, math.Float64frombits(value.StaleNaN))
	evictedRef := db.Head().series.getByHash(s1.Hash(), s1).ref
	require.NoError(t, db.CompactStaleHead())
	require.Equal(t, uint64(0), db.Head().NumSeries(), "stale series must have been evicted")
	require.NoError(t, db.Close())

	db = sideObsC23cOpen(t, dirSnap)
	sideObsC23cAdd(t, db, s0, 3339, 1)
	newRef := db.Head().series.getByHash(s0.Hash(), s0).ref
	t.Logf("ref of evicted series: %d, ref of the series created after the restart: %d", evictedRef, newRef)
	require.NoError(t, db.Close())
	db = sideObsC23cOpen(t, dirSnap)
	require.NoError(t, db.Close())
	db = sideObsC23cOpen(t, dirSnap)
	sideObsC23cAdd(t, db, s0, 4889, 2)
	require.NoError(t, db.Compact(context.Background()))
	_, _, err := wlogLastCheckpointForSideObs(filepath.Join(dirSnap, "wal"))
	require.NoError(t, err, "expected a WAL checkpoint")

	want := map[string][]int64{s0.String(): {3339, 4889}, s1.String(): {3247}}
	require.Equal(t, want, sideObsC23cQuery(t, db), "before shutdown")
	require.NoError(t, db.Close())

	gotWAL, gotSnap := sideObsC23cReopenBoth(t, dirSnap, dirWAL)
	t.Logf("before=%v wal=%v snapshot=%v", want, gotWAL, gotSnap)
	require.Equal(t, want, gotSnap, "restart from snapshot")
	require.Equal(t, gotSnap, gotWAL, "restart from WAL differs from restart from snapshot")
}

func wlogLastCheckpointForSideObs(dir string) (string, int, error) {
	return wlog.LastCheckpoint(dir)
}

// Side observation 3 (same root as 1, other direction): an out-of-order sample appended AFTER a
// Delete is hidden by the restart from the WAL, but not by the restart from the snapshot.
//
//	append s0 t=7197, t=8740; Delete [8,7903] (tombstone [7197,7903]); head compaction (range
//	[7000,8000) holds only deleted data: no block, head truncated to 8000, tombstone dropped from
//	memory, its record stays in the WAL); append s0 t=7280 (accepted as out-of-order sample);
//	clean shutdown.
func TestSideObsC23cOOOSampleAfterDeleteHiddenByWALReplay(t *testing.T) {
	sideObsC23cOOOWindow = 2500
	defer func() { sideObsC23cOOOWindow = 0 }()
	ctx := context.Background()
	root := t.TempDir()
	dirSnap, dirWAL := filepath.Join(root, "snap"), filepath.Join(root, "wal")
	require.NoError(t, os.MkdirAll(dirSnap, 0o777))
	lbls := labels.FromStrings("__name__", "m", "s", "s0")

	db := sideObsC23cOpen(t, dirSnap)
	sideObsC23cAdd(t, db, lbls, 7197, 1)
	sideObsC23cAdd(t, db, lbls, 8740, 2)
	require.NoError(t, db.Delete(ctx, 8, 7903, labels.MustNewMatcher(labels.MatchRegexp, "s", ".+")))
	require.NoError(t, db.Compact(ctx))
	require.Empty(t, db.Blocks(), "all data of the compacted range was deleted, no block expected")
	sideObsC23cAdd(t, db, lbls, 7280, 3)

	want := map[string][]int64{lbls.String(): {7280, 8740}}
	require.Equal(t, want, sideObsC23cQuery(t, db), "before shutdown")
	require.NoError(t, db.Close())

	gotWAL, gotSnap := sideObsC23cReopenBoth(t, dirSnap, dirWAL)
	t.Logf("before=%v wal=%v snapshot=%v", want, gotWAL, gotSnap)
	require.Equal(t, want, gotSnap, "restart from snapshot")
	require.Equal(t, gotSnap, gotWAL, "restart from WAL differs from restart from snapshot")
}
