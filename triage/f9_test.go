package triage

import (
	"context"
	"os"
	"os/exec"
	"path/filepath"
	"testing"

	"github.com/prometheus/client_golang/prometheus"

	"github.com/prometheus/prometheus/model/labels"
	"github.com/prometheus/prometheus/tsdb"
)

func g(t *testing.T, r *prometheus.Registry, name string) float64 {
	mfs, err := r.Gather()
	if err != nil {
		t.Fatal(err)
	}
	for _, mf := range mfs {
		if mf.GetName() == name {
			m := mf.Metric[0]
			if m.Gauge != nil {
				return m.Gauge.GetValue()
			}
			return m.Counter.GetValue()
		}
	}
	t.Fatalf("metric %s not found", name)
	return 0
}

func TestF9SnapshotChunksGauge(t *testing.T) {
	dir := t.TempDir()
	opts := tsdb.DefaultOptions()
	opts.EnableMemorySnapshotOnShutdown = true
	r0 := prometheus.NewRegistry()
	db, err := tsdb.Open(dir, nil, r0, opts, nil)
	if err != nil {
		t.Fatal(err)
	}
	ctx := context.Background()
	for i := 0; i < 500; i++ {
		app := db.Appender(ctx)
		for _, n := range []string{"a", "b", "c"} {
			app.Append(0, labels.FromStrings("__name__", n), int64(i)*1000, float64(i))
		}
		if err := app.Commit(); err != nil {
			t.Fatal(err)
		}
	}
	db.ForceHeadMMap()
	t.Logf("live before close: head_chunks=%v series=%d", g(t, r0, "prometheus_tsdb_head_chunks"), db.Head().NumSeries())
	if err := db.Close(); err != nil {
		t.Fatal(err)
	}
	ref := t.TempDir()
	if out, err := exec.Command("cp", "-r", dir+"/.", ref).CombinedOutput(); err != nil {
		t.Fatal(string(out), err)
	}
	snaps, _ := filepath.Glob(filepath.Join(ref, "chunk_snapshot.*"))
	for _, s := range snaps {
		os.RemoveAll(s)
	}
	r1 := prometheus.NewRegistry()
	dbRef, err := tsdb.Open(ref, nil, r1, opts, nil)
	if err != nil {
		t.Fatal(err)
	}
	refChunks := g(t, r1, "prometheus_tsdb_head_chunks")
	dbRef.Close()

	r2 := prometheus.NewRegistry()
	db2, err := tsdb.Open(dir, nil, r2, opts, nil)
	if err != nil {
		t.Fatal(err)
	}
	defer db2.Close()
	snapChunks := g(t, r2, "prometheus_tsdb_head_chunks")
	t.Logf("restart from WAL only:  head_chunks=%v", refChunks)
	t.Logf("restart from snapshot:  head_chunks=%v", snapChunks)
	if refChunks != snapChunks {
		t.Errorf("head_chunks gauge differs: WAL restart %v, snapshot restart %v", refChunks, snapChunks)
	}
}
