package remote

import (
	"context"
	"testing"

	"github.com/stretchr/testify/require"

	"github.com/prometheus/prometheus/model/labels"
	"github.com/prometheus/prometheus/tsdb/chunkenc"
	"github.com/prometheus/prometheus/util/teststorage"
)

// F59: what the remote write receiver counts as written (one per Append that returned nil) against what the
// storage holds after Commit, for two samples of one new series sent in the wrong order in one request.
func TestF59WrittenCountVersusStored(t *testing.T) {
	st := teststorage.New(t)
	defer st.Close()
	lset := labels.FromStrings("__name__", "m")
	app := st.Appender(context.Background())
	written := 0
	for _, s := range []struct {
		t int64
		v float64
	}{{20, 1}, {10, 2}} {
		if _, err := app.Append(0, lset, s.t, s.v); err == nil {
			written++ // what writeHandler.appendV2 does with rs.Samples
		}
	}
	require.NoError(t, app.Commit())
	q, err := st.Querier(0, 100)
	require.NoError(t, err)
	defer q.Close()
	ss := q.Select(context.Background(), false, nil, labels.MustNewMatcher(labels.MatchEqual, "__name__", "m"))
	stored := 0
	for ss.Next() {
		it := ss.At().Iterator(nil)
		for it.Next() != chunkenc.ValNone {
			stored++
		}
	}
	require.NoError(t, ss.Err())
	require.Equal(t, written, stored, "reported as written vs stored")
}
