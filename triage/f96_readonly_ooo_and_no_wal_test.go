// F96 (bounded read-only query and OOO head data; directory without wal/) and the observation F97 (FlushWAL drops
// out-of-order head data; still fails).  Place in tsdb.
package tsdb

import (
	"context"
	"math"
	"testing"
	"time"

	"github.com/stretchr/testify/require"

	"github.com/prometheus/prometheus/model/labels"
	"github.com/prometheus/prometheus/tsdb/fileutil"
)

func f96OOOHistory(t *testing.T) (dir string, opts *Options, oooT int64) {
	ctx := context.Background()
	opts = DefaultOptions()
	opts.OutOfOrderTimeWindow = 10 * time.Hour.Milliseconds()
	db := newTestDB(t, withOpts(opts))
	db.DisableCompactions()
	app := db.Appender(ctx)
	for ts := int64(0); ts <= 5*time.Hour.Milliseconds(); ts += time.Minute.Milliseconds() {
		_, err := app.Append(0, labels.FromStrings("foo", "bar"), ts, 1)
		require.NoError(t, err)
	}
	require.NoError(t, app.Commit())
	db.EnableCompactions()
	require.NoError(t, db.Compact(ctx))
	db.DisableCompactions()
	require.NotEmpty(t, db.Blocks())
	for _, b := range db.Blocks() {
		t.Logf("block %s mint=%d maxt=%d", b.Meta().ULID, b.Meta().MinTime, b.Meta().MaxTime)
	}
	oooT = 30*time.Minute.Milliseconds() + 7000
	app = db.Appender(ctx)
	_, err := app.Append(0, labels.FromStrings("foo", "bar"), oooT, 42)
	require.NoError(t, err)
	require.NoError(t, app.Commit())
	require.NoError(t, db.Close())
	return db.Dir(), opts, oooT
}

// S1: bounded maxt below the last in-order block: the RO open skips WAL and WBL replay.
func TestF96BoundedQuerySkipsOOOHead(t *testing.T) {
	src, opts, _ := f96OOOHistory(t)
	matchAll := labels.MustNewMatcher(labels.MatchEqual, "", "")
	roDir, rwDir := t.TempDir(), t.TempDir()
	require.NoError(t, fileutil.CopyDirs(src, roDir))
	require.NoError(t, fileutil.CopyDirs(src, rwDir))

	qmaxt := time.Hour.Milliseconds()

	ro, err := OpenDBReadOnly(roDir, "", nil)
	require.NoError(t, err)
	q, err := ro.Querier(0, qmaxt)
	require.NoError(t, err)
	roSeries := query(t, q, matchAll)
	require.NoError(t, ro.Close())

	rw := newTestDB(t, withDir(rwDir), withOpts(opts))
	rw.DisableCompactions()
	q, err = rw.Querier(0, qmaxt)
	require.NoError(t, err)
	rwSeries := query(t, q, matchAll)
	require.NoError(t, rw.Close())

	t.Logf("rw samples=%d ro samples=%d", len(rwSeries[`{foo="bar"}`]), len(roSeries[`{foo="bar"}`]))
	require.Equal(t, rwSeries, roSeries)
}

// S1b: same with an unbounded query, as a control.
func TestF96UnboundedQueryOOOHead(t *testing.T) {
	src, opts, _ := f96OOOHistory(t)
	matchAll := labels.MustNewMatcher(labels.MatchEqual, "", "")
	roDir, rwDir := t.TempDir(), t.TempDir()
	require.NoError(t, fileutil.CopyDirs(src, roDir))
	require.NoError(t, fileutil.CopyDirs(src, rwDir))

	ro, err := OpenDBReadOnly(roDir, "", nil)
	require.NoError(t, err)
	q, err := ro.Querier(math.MinInt64, math.MaxInt64)
	require.NoError(t, err)
	roSeries := query(t, q, matchAll)
	require.NoError(t, ro.Close())

	rw := newTestDB(t, withDir(rwDir), withOpts(opts))
	rw.DisableCompactions()
	q, err = rw.Querier(math.MinInt64, math.MaxInt64)
	require.NoError(t, err)
	rwSeries := query(t, q, matchAll)
	require.NoError(t, rw.Close())

	t.Logf("rw samples=%d ro samples=%d", len(rwSeries[`{foo="bar"}`]), len(roSeries[`{foo="bar"}`]))
	require.Equal(t, rwSeries, roSeries)
}

// S2: FlushWAL drops the out-of-order head data.
func TestF96FlushWALOOO(t *testing.T) {
	src, opts, oooT := f96OOOHistory(t)
	matchAll := labels.MustNewMatcher(labels.MatchEqual, "", "")

	// Head data as a read-write open sees it.
	rwDir := t.TempDir()
	require.NoError(t, fileutil.CopyDirs(src, rwDir))
	rw := newTestDB(t, withDir(rwDir), withOpts(opts))
	rw.DisableCompactions()
	hq, err := NewBlockQuerier(NewRangeHead(rw.Head(), math.MinInt64, math.MaxInt64), math.MinInt64, math.MaxInt64)
	require.NoError(t, err)
	inOrderHead := query(t, hq, matchAll)
	t.Logf("rw head: in-order samples=%d, MinOOOTime=%d MaxOOOTime=%d", len(inOrderHead[`{foo="bar"}`]), rw.Head().MinOOOTime(), rw.Head().MaxOOOTime())
	require.NoError(t, rw.Close())

	roDir := t.TempDir()
	require.NoError(t, fileutil.CopyDirs(src, roDir))
	ro, err := OpenDBReadOnly(roDir, "", nil)
	require.NoError(t, err)
	flush := t.TempDir()
	require.NoError(t, ro.FlushWAL(flush))
	require.NoError(t, ro.Close())

	fdb, err := OpenDBReadOnly(flush, "", nil)
	require.NoError(t, err)
	blocks, err := fdb.Blocks()
	require.NoError(t, err)
	require.Len(t, blocks, 1)
	t.Logf("flushed block mint=%d maxt=%d samples=%d", blocks[0].Meta().MinTime, blocks[0].Meta().MaxTime, blocks[0].Meta().Stats.NumSamples)
	bq, err := NewBlockQuerier(blocks[0], math.MinInt64, math.MaxInt64)
	require.NoError(t, err)
	flushed := query(t, bq, matchAll)
	require.NoError(t, fdb.Close())
	found := false
	for _, s := range flushed[`{foo="bar"}`] {
		if s.T() == oooT {
			found = true
		}
	}
	require.True(t, found, "out-of-order head sample t=%d is not in the flushed block (flushed %d samples)", oooT, len(flushed[`{foo="bar"}`]))
}

// S3: directory with blocks only (no wal directory).
func TestF96NoWALDir(t *testing.T) {
	matchAll := labels.MustNewMatcher(labels.MatchEqual, "", "")
	dir := t.TempDir()
	createBlock(t, dir, genSeries(1, 1, 0, 10))
	rwDir := t.TempDir()
	require.NoError(t, fileutil.CopyDirs(dir, rwDir))

	ro, err := OpenDBReadOnly(dir, "", nil)
	require.NoError(t, err)
	defer ro.Close()
	q, err := ro.Querier(math.MinInt64, math.MaxInt64)
	if err != nil {
		t.Logf("read-only Querier error: %v", err)
	}

	rw := newTestDB(t, withDir(rwDir))
	rw.DisableCompactions()
	rq, err2 := rw.Querier(math.MinInt64, math.MaxInt64)
	require.NoError(t, err2)
	rwSeries := query(t, rq, matchAll)
	t.Logf("rw series=%d", len(rwSeries))
	require.NoError(t, err)
	roSeries := query(t, q, matchAll)
	require.Equal(t, rwSeries, roSeries)
}
