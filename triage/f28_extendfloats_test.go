package promql_test

import (
	"context"
	"testing"
	"time"

	"github.com/prometheus/prometheus/promql/promqltest"
)

func TestF15ExtendFloatsEmpty(t *testing.T) {
	engine := promqltest.NewTestEngine(t, false, 0, promqltest.DefaultMaxSamplesPerQuery)
	storage := promqltest.LoadedStorage(t, `
load 1000s
  metric 1 stale 2
`)
	t.Cleanup(func() { storage.Close() })
	for _, q := range []string{"metric[20s] anchored", "metric[20s] smoothed", "increase(metric[20s] anchored)", "rate(metric[20s] smoothed)"} {
		qry, err := engine.NewInstantQuery(context.Background(), storage, nil, q, time.Unix(1000, 0))
		if err != nil {
			t.Fatalf("%s: %v", q, err)
		}
		res := qry.Exec(context.Background())
		t.Logf("%s: value=%v err=%v", q, res.Value, res.Err)
		if res.Err != nil {
			t.Errorf("%s: %v", q, res.Err)
		}
	}
}
