package triage

import (
	"context"
	"math"
	"os"
	"os/exec"
	"path/filepath"
	"testing"

	"github.com/prometheus/client_golang/prometheus"
	dto "github.com/prometheus/client_model/go"

	"github.com/prometheus/prometheus/model/labels"
	"github.com/prometheus/prometheus/model/value"
	"github.com/prometheus/prometheus/tsdb"
)

func gauge(t *testing.T, r *prometheus.Registry, name string) float64 {
	mfs, err := r.Gather()
	if err != nil {
		t.Fatal(err)
	}
	for _, mf := range mfs {
		if mf.GetName() == name {
			var m *dto.Metric = mf.Metric[0]
			if m.Gauge != nil {
				return m.Gauge.GetValue()
			}
			return m.Counter.GetValue()
		}
	}
	t.Fatalf("metric %s not found", name)
	return 0
}

func TestF1Chunks(t *testing.T) {
	dir := t.TempDir()
	opts := tsdb.DefaultOptions()
	opts.EnableMemorySnapshotOnShutdown = true
	db, err := tsdb.Open(dir, nil, nil, opts, nil)
	if err != nil {
		t.Fatal(err)
	}
	ctx := context.Background()
	lsStale := labels.FromStrings("__name__", "stale_one")
	lsLive := labels.FromStrings("__name__", "live_one")
	for i := 0; i < 500; i++ {
		app := db.Appender(ctx)
		app.Append(0, lsLive, int64(i)*1000, float64(i))
		app.Append(0, lsStale, int64(i)*1000, float64(i))
		if err := app.Commit(); err != nil {
			t.Fatal(err)
		}
	}
	app := db.Appender(ctx)
	app.Append(0, lsStale, 500*1000, math.Float64frombits(value.StaleNaN))
	app.Commit()
	db.ForceHeadMMap()
	if err := db.Close(); err != nil {
		t.Fatal(err)
	}
	ref := t.TempDir()
	if out, err := exec.Command("cp", "-r", dir+"/.", ref).CombinedOutput(); err != nil {
		t.Fatal(string(out), err)
	}
	// Reference: same data, snapshot removed, nothing damaged => plain WAL replay.
	snaps, _ := filepath.Glob(filepath.Join(ref, "chunk_snapshot.*"))
	for _, s := range snaps {
		os.RemoveAll(s)
	}
	r1 := prometheus.NewRegistry()
	dbRef, err := tsdb.Open(ref, nil, r1, opts, nil)
	if err != nil {
		t.Fatal(err)
	}
	refChunks := gauge(t, r1, "prometheus_tsdb_head_chunks")
	refStale := dbRef.Head().NumStaleSeries()
	dbRef.Close()

	files, _ := filepath.Glob(filepath.Join(dir, "chunks_head", "*"))
	b, _ := os.ReadFile(files[0])
	b[40] ^= 0xff
	os.WriteFile(files[0], b, 0o666)
	r2 := prometheus.NewRegistry()
	db2, err := tsdb.Open(dir, nil, r2, opts, nil)
	if err != nil {
		t.Fatal(err)
	}
	defer db2.Close()
	t.Logf("reference (WAL only, undamaged): head_chunks=%v stale=%d", refChunks, refStale)
	t.Logf("damaged head chunks + snapshot:  head_chunks=%v stale=%d series=%d", gauge(t, r2, "prometheus_tsdb_head_chunks"), db2.Head().NumStaleSeries(), db2.Head().NumSeries())
}
