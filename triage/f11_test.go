package triage

import (
	"context"
	"math"
	"testing"

	"github.com/prometheus/prometheus/model/histogram"
	"github.com/prometheus/prometheus/model/labels"
	"github.com/prometheus/prometheus/tsdb"
	"github.com/prometheus/prometheus/tsdb/chunkenc"
)

func hist(c uint64) *histogram.Histogram {
	return &histogram.Histogram{Schema: 0, Count: c, Sum: float64(c), ZeroThreshold: 0.001, ZeroCount: 0,
		PositiveSpans: []histogram.Span{{Offset: 0, Length: 1}}, PositiveBuckets: []int64{int64(c)}}
}

// F11: a counter histogram series 100,110 | (reset) 5,7,9.  The reset sample (5) is deleted with a
// tombstone.  The querier then returns 100,110,7,9 and 7 must not be marked NotCounterReset, because
// its predecessor in the result (110) is larger.
func TestF11DeletedResetSampleKeepsNotCounterResetHint(t *testing.T) {
	dir := t.TempDir()
	opts := tsdb.DefaultOptions()
	db, err := tsdb.Open(dir, nil, nil, opts, nil)
	if err != nil {
		t.Fatal(err)
	}
	defer db.Close()
	ctx := context.Background()
	lbl := labels.FromStrings("__name__", "h")
	vals := []uint64{100, 110, 5, 7, 9}
	for i, v := range vals {
		app := db.Appender(ctx)
		if _, err := app.AppendHistogram(0, lbl, int64(i+1)*1000, hist(v), nil); err != nil {
			t.Fatal(err)
		}
		if err := app.Commit(); err != nil {
			t.Fatal(err)
		}
	}
	m := labels.MustNewMatcher(labels.MatchEqual, "__name__", "h")
	if err := db.Delete(ctx, 3000, 3000, m); err != nil {
		t.Fatal(err)
	}
	q, err := db.Querier(math.MinInt64, math.MaxInt64)
	if err != nil {
		t.Fatal(err)
	}
	defer q.Close()
	ss := q.Select(ctx, false, nil, m)
	for ss.Next() {
		it := ss.At().Iterator(nil)
		var prev *histogram.Histogram
		for it.Next() == chunkenc.ValHistogram {
			ts, h := it.AtHistogram(nil)
			t.Logf("t=%d count=%d hint=%v", ts, h.Count, h.CounterResetHint)
			if h.CounterResetHint == histogram.NotCounterReset {
				if prev == nil {
					t.Errorf("t=%d: NotCounterReset without a preceding sample", ts)
				} else if h.Count < prev.Count {
					t.Errorf("t=%d: marked NotCounterReset but count %d < preceding %d", ts, h.Count, prev.Count)
				}
			}
			prev = h.Copy()
		}
	}
}
