package promql_test

import (
	"math"
	"testing"

	"github.com/stretchr/testify/require"

	"github.com/prometheus/prometheus/promql"
	"github.com/prometheus/prometheus/promql/promqltest"
)

// F48: histogram_quantiles evaluates several quantiles over the same classic buckets; every one of them must
// equal histogram_quantile for that quantile, whatever its position in the argument list.
func TestF48HistogramQuantilesWithDuplicateBounds(t *testing.T) {
	promqltest.RunTest(t, `
load 1m
  d_bucket{le="1"} 5
  d_bucket{le="1.0"} 5
  d_bucket{le="2"} 12
  d_bucket{le="+Inf"} 20

eval instant at 0 histogram_quantile(0.5, d_bucket)
  {} 1

eval instant at 0 histogram_quantile(0.4, d_bucket)
  {} 0.8

eval instant at 0 histogram_quantile(0.3, d_bucket)
  {} 0.6

eval instant at 0 histogram_quantiles(d_bucket, "q", 0.5, 0.4, 0.3)
  {q="0.5"} 1
  {q="0.4"} 0.8
  {q="0.3"} 0.6

eval instant at 0 histogram_quantiles(d_bucket, "q", 0.3, 0.4, 0.5)
  {q="0.3"} 0.6
  {q="0.4"} 0.8
  {q="0.5"} 1
`, promqltest.NewTestEngine(t, false, 0, promqltest.DefaultMaxSamplesPerQuery))
}

func TestF48BucketQuantileIsRepeatable(t *testing.T) {
	b := promql.Buckets{{UpperBound: 1, Count: 5}, {UpperBound: 1, Count: 5}, {UpperBound: 2, Count: 12}, {UpperBound: math.Inf(1), Count: 20}}
	first, _, _, _, _, _ := promql.BucketQuantile(0.4, b)
	second, _, _, _, _, _ := promql.BucketQuantile(0.4, b)
	require.Equal(t, first, second)
}
