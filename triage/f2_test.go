package triage

import (
	"context"
	"math"
	"os/exec"
	"testing"

	"github.com/prometheus/prometheus/model/labels"
	"github.com/prometheus/prometheus/model/value"
	"github.com/prometheus/prometheus/storage"
	"github.com/prometheus/prometheus/tsdb"
)

func count(t *testing.T, q storage.Querier) map[string]int {
	res := map[string]int{}
	ss := q.Select(context.Background(), true, nil, labels.MustNewMatcher(labels.MatchRegexp, "__name__", ".+"))
	for ss.Next() {
		s := ss.At()
		it := s.Iterator(nil)
		n := 0
		for it.Next() != 0 {
			n++
		}
		res[s.Labels().String()] = n
	}
	if ss.Err() != nil {
		t.Fatal(ss.Err())
	}
	return res
}

func TestF2(t *testing.T) {
	dir := t.TempDir()
	opts := tsdb.DefaultOptions()
	db, err := tsdb.Open(dir, nil, nil, opts, nil)
	if err != nil {
		t.Fatal(err)
	}
	ctx := context.Background()
	lsStale := labels.FromStrings("__name__", "stale_one")
	lsLive := labels.FromStrings("__name__", "live_one")
	for i := 0; i < 100; i++ {
		app := db.Appender(ctx)
		app.Append(0, lsLive, int64(i)*1000, float64(i))
		if i < 50 {
			app.Append(0, lsStale, int64(i)*1000, float64(i))
		}
		if i == 50 {
			app.Append(0, lsStale, int64(i)*1000, math.Float64frombits(value.StaleNaN))
		}
		if err := app.Commit(); err != nil {
			t.Fatal(err)
		}
	}
	if err := db.CompactStaleHead(); err != nil {
		t.Fatal(err)
	}
	for _, b := range db.Blocks() {
		m := b.Meta()
		t.Logf("block %s [%d,%d) stale=%v series=%d", m.ULID, m.MinTime, m.MaxTime, m.Compaction.FromStaleSeries(), m.Stats.NumSeries)
	}
	if err := db.Close(); err != nil {
		t.Fatal(err)
	}
	rwDir, roDir := t.TempDir(), t.TempDir()
	for _, d := range []string{rwDir, roDir} {
		if out, err := exec.Command("cp", "-r", dir+"/.", d).CombinedOutput(); err != nil {
			t.Fatal(string(out), err)
		}
	}
	rw, err := tsdb.Open(rwDir, nil, nil, opts, nil)
	if err != nil {
		t.Fatal(err)
	}
	q, _ := rw.Querier(math.MinInt64, math.MaxInt64)
	rwRes := count(t, q)
	q.Close()
	rw.Close()

	ro, err := tsdb.OpenDBReadOnly(roDir, "", nil)
	if err != nil {
		t.Fatal(err)
	}
	q2, err := ro.Querier(math.MinInt64, math.MaxInt64)
	if err != nil {
		t.Fatal(err)
	}
	roRes := count(t, q2)
	q2.Close()
	ro.Close()
	t.Logf("read-write open: %v", rwRes)
	t.Logf("read-only  open: %v", roRes)
	for k, v := range rwRes {
		if roRes[k] != v {
			t.Errorf("series %s: read-write %d samples, read-only %d", k, v, roRes[k])
		}
	}
}
