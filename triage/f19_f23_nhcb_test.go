package textparse

import (
	"errors"
	"io"
	"testing"

	"github.com/prometheus/prometheus/model/exemplar"
	"github.com/prometheus/prometheus/model/labels"
)

func dump(t *testing.T, p Parser, tag string) {
	for {
		e, err := p.Next()
		if errors.Is(err, io.EOF) {
			break
		}
		if err != nil {
			t.Fatal(err)
		}
		var l labels.Labels
		switch e {
		case EntrySeries:
			p.Labels(&l)
			_, ts, v := p.Series()
			tsv := int64(-1)
			if ts != nil {
				tsv = *ts
			}
			t.Logf("%s series %s %v ts=%d", tag, l, v, tsv)
		case EntryHistogram:
			p.Labels(&l)
			_, ts, h, fh := p.Histogram()
			tsv := int64(-1)
			if ts != nil {
				tsv = *ts
			}
			t.Logf("%s HIST %s ts=%d h=%v fh=%v", tag, l, tsv, h, fh)
		default:
			continue
		}
		var ex exemplar.Exemplar
		for p.Exemplar(&ex) {
			t.Logf("%s    exemplar %+v", tag, ex)
			ex = exemplar.Exemplar{}
		}
	}
}

func TestF19Timestamp(t *testing.T) {
	input := `# TYPE a histogram
a_bucket{le="1"} 1 1000
a_bucket{le="+Inf"} 2 1000
a_count 2 1000
a_sum 1 1000
# TYPE b gauge
b 5 2000
`
	p := NewPromParser([]byte(input), labels.NewSymbolTable(), false)
	dump(t, NewNHCBParser(p, labels.NewSymbolTable(), false, false), "prom")
	input2 := `# TYPE a histogram
a_bucket{x="1",le="1"} 1 1000
a_bucket{x="1",le="+Inf"} 2 1000
a_count{x="1"} 2 1000
a_sum{x="1"} 1 1000
a_bucket{x="2",le="1"} 1 2000
a_bucket{x="2",le="+Inf"} 2 2000
a_count{x="2"} 2 2000
a_sum{x="2"} 1 2000
`
	p = NewPromParser([]byte(input2), labels.NewSymbolTable(), false)
	dump(t, NewNHCBParser(p, labels.NewSymbolTable(), false, false), "prom2")
}

func TestF20Exemplars(t *testing.T) {
	input := `# TYPE a histogram
a_bucket{le="1"} 1 # {id="e1"} 0.5 123.0
a_bucket{le="+Inf"} 2 # {id="e2"} 2.0 124.0
a_count 2
a_sum 1
# TYPE b histogram
b_bucket{le="1"} 1 # {id="e3"} 0.7
b_bucket{le="+Inf"} 2
b_count 2
b_sum 1
# EOF
`
	for _, keep := range []bool{false, true} {
		p := NewOpenMetricsParser([]byte(input), labels.NewSymbolTable())
		tag := "om"
		if keep {
			tag = "om-keep"
		}
		dump(t, NewNHCBParser(p, labels.NewSymbolTable(), keep, false), tag)
	}
	p := NewOpenMetricsParser([]byte(input), labels.NewSymbolTable())
	dump(t, p, "plain")
}

func TestF22ValidateFailure(t *testing.T) {
	input := `# TYPE bad histogram
bad_bucket{le="1.0"} 10
bad_count 5
# TYPE good histogram
good_bucket{le="2.0"} 1
good_bucket{le="+Inf"} 2
good_count 2
good_sum 3
# EOF
`
	p := NewOpenMetricsParser([]byte(input), labels.NewSymbolTable())
	dump(t, NewNHCBParser(p, labels.NewSymbolTable(), false, false), "f22")
}

func TestF23StaleExemplarAfterFailure(t *testing.T) {
	input := `# TYPE bad histogram
bad_bucket{le="1.0"} 1 # {id="bad1"} 0.5
bad_bucket{le="+Inf"} 4 # {id="bad2"} 2.0
bad_count 5
# TYPE good histogram
good_bucket{le="1.0"} 1 # {id="good1"} 0.5
good_bucket{le="+Inf"} 2
good_count 2
# EOF
`
	p := NewOpenMetricsParser([]byte(input), labels.NewSymbolTable())
	dump(t, NewNHCBParser(p, labels.NewSymbolTable(), false, false), "f23")
}
