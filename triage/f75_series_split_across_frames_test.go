package remote

import (
	"bytes"
	"sync"
	"testing"

	"github.com/stretchr/testify/require"

	"github.com/prometheus/prometheus/config"
	"github.com/prometheus/prometheus/model/labels"
	"github.com/prometheus/prometheus/prompb"
)

// F75: the server splits a series that does not fit into one frame over several frames (StreamChunkedReadResponses);
// the client's series set (NewChunkedSeriesSet) returns one series per frame, so the query sees several consecutive
// series with identical labels where a local query returns one.
func TestF75SeriesSplitAcrossFramesIsOneSeries(t *testing.T) {
	lbs1 := prompb.FromLabels(labels.FromStrings("instance", "localhost1", "job", "demo1"), nil)
	lbs2 := prompb.FromLabels(labels.FromStrings("instance", "localhost2", "job", "demo2"), nil)
	chks := buildTestChunks(t) // three chunks
	lbSize := 0
	for _, lb := range lbs1 {
		lbSize += lb.Size()
	}
	maxBytesInFrame := lbSize + chks[0].Size()+1
	css := newMockChunkSeriesSet([]*prompb.ChunkedSeries{{Labels: lbs1, Chunks: chks}, {Labels: lbs2, Chunks: chks}})

	buf := &bytes.Buffer{}
	w := NewChunkedWriter(buf, &mockFlusher{})
	_, err := StreamChunkedReadResponses(w, 0, css, nil, maxBytesInFrame, &sync.Pool{})
	require.NoError(t, err)

	body := newOneShotCloser(buf)
	ss := NewChunkedSeriesSet(NewChunkedReader(body, config.DefaultChunkedReadLimit, nil), body, 0, 1<<62, func(error) {})
	var got []string
	for ss.Next() {
		got = append(got, ss.At().Labels().String())
	}
	require.NoError(t, ss.Err())
	require.Equal(t, []string{`{instance="localhost1", job="demo1"}`, `{instance="localhost2", job="demo2"}`}, got)
}
