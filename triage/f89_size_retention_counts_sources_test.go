// F89 (and the observations F90, F91): place in tsdb.
// place at: tsdb/seed_C09_c_sideobs_test.go
//
// Side observations on the UNMODIFIED code (not part of the seed demonstration).

package tsdb

import (
	"context"
	"math"
	"path/filepath"
	"testing"
	"time"

	"github.com/oklog/ulid/v2"
	"github.com/prometheus/common/promslog"
	"github.com/stretchr/testify/require"

	"github.com/prometheus/prometheus/model/labels"
	"github.com/prometheus/prometheus/tsdb/fileutil"
)

// Size retention counts the sources of a compaction that has just completed together with the
// compacted block. The limit is the disk usage before the compaction plus 10%, so nothing is beyond
// retention before the compaction, and nothing would be after it (the compacted block is smaller
// than its three sources) -- but the reload that follows the compaction sees sources and result at
// the same time, finds the sum over the limit and deletes the compacted block (and its sources as
// superseded parents): all data older than the newest block is lost.
func TestF89SizeRetentionCountsCompactionSourcesAndResult(t *testing.T) {
	dir := t.TempDir()
	p1 := createBlock(t, dir, genSeries(10, 2, 0, 1000))
	p2 := createBlock(t, dir, genSeries(10, 2, 1000, 2000))
	p3 := createBlock(t, dir, genSeries(10, 2, 2000, 3000))
	n := createBlock(t, dir, genSeries(10, 2, 3000, 4000))

	var total int64
	sizes := map[string]int64{}
	for _, d := range []string{p1, p2, p3, n} {
		s, err := fileutil.DirSize(d)
		require.NoError(t, err)
		sizes[filepath.Base(d)] = s
		total += s
	}

	opts := DefaultOptions()
	opts.RetentionDuration = 0
	db := newTestDB(t, withDir(dir), withOpts(opts), withRngs(1000, 3000))
	db.DisableCompactions()
	require.Len(t, db.Blocks(), 4)

	var loadedTotal int64
	for _, b := range db.Blocks() {
		loadedTotal += b.Size()
	}
	headSize := db.Head().Size()
	t.Logf("dir sizes=%v total=%d; loaded block sizes total=%d; head size=%d", sizes, total, loadedTotal, headSize)

	// The limit is what is on disk right now plus 10% headroom: nothing is beyond retention.
	limit := loadedTotal + headSize + 30000
	db.retentionMtx.Lock()
	db.opts.MaxBytes = limit
	db.retentionMtx.Unlock()
	db.cmtx.Lock()
	require.NoError(t, db.reloadBlocks())
	db.cmtx.Unlock()
	require.Len(t, db.Blocks(), 4, "nothing is beyond the size limit before the compaction")

	db.EnableCompactions()
	require.NoError(t, db.Compact(context.Background()))

	var after int64
	for _, b := range db.Blocks() {
		m := b.Meta()
		t.Logf("after compaction: block %s [%d,%d) level=%d size=%d", m.ULID, m.MinTime, m.MaxTime, m.Compaction.Level, b.Size())
		after += b.Size()
	}
	t.Logf("limit=%d, usage before compaction=%d, usage after compaction=%d", limit, loadedTotal+headSize, after)

	require.Len(t, db.Blocks(), 2, "expected the newest block and the compacted block [0,3000)")
	require.Equal(t, int64(0), db.Blocks()[0].Meta().MinTime)
}

// Blocks written by the out-of-order compaction record a parent with the all-zero ULID in their
// meta.json (compactOOO passes an otherwise empty *BlockMeta as "base" to LeveledCompactor.Write,
// which turns any non-nil base into a parent entry). reloadBlocks then treats
// <db dir>/00000000000000000000000000 as a superseded block on every reload. Harmless in practice,
// but a checker that interprets Compaction.Parents will see a parent that never existed.
func TestF89OOOBlockHasZeroULIDParent(t *testing.T) {
	opts := DefaultOptions()
	opts.OutOfOrderTimeWindow = 10 * time.Hour.Milliseconds()
	db := newTestDB(t, withOpts(opts))
	db.DisableCompactions()

	lbls := labels.FromStrings("a", "b")
	app := db.Appender(context.Background())
	_, err := app.Append(0, lbls, 5*time.Hour.Milliseconds(), 1)
	require.NoError(t, err)
	require.NoError(t, app.Commit())
	app = db.Appender(context.Background())
	_, err = app.Append(0, lbls, 1*time.Hour.Milliseconds(), 2)
	require.NoError(t, err)
	require.NoError(t, app.Commit())

	require.NoError(t, db.CompactOOOHead(context.Background()))
	require.Len(t, db.Blocks(), 1)
	m := db.Blocks()[0].Meta()
	t.Logf("ooo block %s parents=%v", m.ULID, m.Compaction.Parents)
	for _, p := range m.Compaction.Parents {
		require.NotEqual(t, ulid.ULID{}, p.ULID, "block lists a parent with the zero ULID")
	}
}

// BeyondTimeRetention computes blocks[0].MaxTime - block.MaxTime in int64 without an overflow guard.
// With a newest block far in the future and a block with a negative (pre-1970) max time the
// difference wraps around to a negative number and the old block is kept, although it is far more
// than the retention duration older than the newest block.
func TestF89TimeRetentionOverflow(t *testing.T) {
	opts := DefaultOptions()
	opts.RetentionDuration = 1000
	db := newTestDB(t, withOpts(opts))

	newest := &Block{meta: BlockMeta{ULID: ulid.Make(), MinTime: math.MaxInt64 - 10, MaxTime: math.MaxInt64}}
	old := &Block{meta: BlockMeta{ULID: ulid.Make(), MinTime: -10, MaxTime: -5}}
	deletable := BeyondTimeRetention(db, []*Block{newest, old})
	t.Logf("deletable=%v", deletable)
	require.Contains(t, deletable, old.meta.ULID)
}

// Crash variant of the first observation: the process died after a compaction completed but before
// its sources were deleted. The size limit admits the newest block plus the compacted block, but on
// restart the (superseded) source p2 is counted before the compacted block c, because both have the
// same max time; c then crosses the limit and is deleted by size retention, p1 and p2 are deleted
// as superseded parents: only the newest block survives.
func TestF89SizeRetentionAfterInterruptedCompaction(t *testing.T) {
	dir := t.TempDir()
	p1 := createBlock(t, dir, genSeries(10, 2, 0, 1000))
	p2 := createBlock(t, dir, genSeries(10, 2, 1000, 2000))
	n := createBlock(t, dir, genSeries(10, 2, 2000, 3000))

	compactor, err := NewLeveledCompactor(context.Background(), nil, promslog.NewNopLogger(), []int64{1000000}, nil, nil)
	require.NoError(t, err)
	ids, err := compactor.Compact(dir, []string{p1, p2}, nil)
	require.NoError(t, err)
	require.Len(t, ids, 1)
	c := filepath.Join(dir, ids[0].String())

	sizeN, err := fileutil.DirSize(n)
	require.NoError(t, err)
	sizeC, err := fileutil.DirSize(c)
	require.NoError(t, err)

	opts := DefaultOptions()
	opts.RetentionDuration = 0
	opts.MaxBytes = sizeN + sizeC + 1000
	db := newTestDB(t, withDir(dir), withOpts(opts))

	for _, b := range db.Blocks() {
		m := b.Meta()
		t.Logf("after restart: block %s [%d,%d) level=%d size=%d", m.ULID, m.MinTime, m.MaxTime, m.Compaction.Level, b.Size())
	}
	t.Logf("limit=%d size(n)=%d size(c)=%d head=%d", opts.MaxBytes, sizeN, sizeC, db.Head().Size())
	require.Len(t, db.Blocks(), 2, "expected the newest block and the compacted block [0,2000)")
}
