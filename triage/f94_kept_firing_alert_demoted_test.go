package rules_test

import (
	"context"
	"testing"
	"time"

	"github.com/prometheus/common/promslog"
	"github.com/stretchr/testify/require"

	"github.com/prometheus/prometheus/model/labels"
	"github.com/prometheus/prometheus/promql"
	"github.com/prometheus/prometheus/promql/parser"
	"github.com/prometheus/prometheus/promql/promqltest"
	"github.com/prometheus/prometheus/rules"
)

// F94: a firing alert whose expression no longer returns it is kept firing for keep_firing_for and then resolved.
// Raising `for` at a reload while the alert is only kept by keep_firing_for must not turn it into a pending alert
// (pending means: the expression returns it and `for` has not elapsed), which is then dropped without ever being
// resolved.  Rule for: 2m, keep_firing_for: 10m; {i="0"} returned at 0m..4m; reload with for: 20m after 6m.
func TestF94KeptFiringAlertIsNotDemotedAtReload(t *testing.T) {
	at := func(min int) time.Time { return time.Unix(0, 0).UTC().Add(time.Duration(min) * time.Minute) }
	st := promqltest.LoadedStorage(t, "load 1m\n\tunused 1\n")
	expr, err := parser.NewParser(parser.Options{}).ParseExpr(`m > 0`)
	require.NoError(t, err)
	opts := &rules.ManagerOptions{
		QueryFunc: func(_ context.Context, _ string, ts time.Time) (promql.Vector, error) {
			if ts.Before(at(5)) {
				return promql.Vector{{Metric: labels.FromStrings("__name__", "m", "i", "0"), F: 1}}, nil
			}
			return nil, nil
		},
		Appendable: st,
		Queryable:  st,
		Context:    context.Background(),
		Logger:     promslog.NewNopLogger(),
		NotifyFunc: func(context.Context, string, ...*rules.Alert) {},
	}
	r1 := rules.NewAlertingRule("A", expr, 2*time.Minute, 10*time.Minute, labels.EmptyLabels(), labels.EmptyLabels(), labels.EmptyLabels(), "", true, promslog.NewNopLogger())
	g1 := rules.NewGroup(rules.GroupOptions{Name: "g", Interval: time.Minute, Rules: []rules.Rule{r1}, Opts: opts})
	for m := 0; m <= 6; m++ {
		g1.Eval(context.Background(), at(m))
	}
	require.Equal(t, rules.StateFiring, r1.State(), "kept firing at 6m")

	r2 := rules.NewAlertingRule("A", expr, 20*time.Minute, 10*time.Minute, labels.EmptyLabels(), labels.EmptyLabels(), labels.EmptyLabels(), "", true, promslog.NewNopLogger())
	g2 := rules.NewGroup(rules.GroupOptions{Name: "g", Interval: time.Minute, Rules: []rules.Rule{r2}, Opts: opts})
	g2.CopyState(g1)
	resolved := false
	for m := 7; m <= 16; m++ {
		g2.Eval(context.Background(), at(m))
		for _, a := range r2.ActiveAlerts() {
			require.NotEqual(t, rules.StatePending, a.State, "at %dm the expression has returned nothing since 5m", m)
		}
		r2.ForEachActiveAlert(func(a *rules.Alert) {
			if a.State == rules.StateInactive && !a.ResolvedAt.IsZero() {
				resolved = true
			}
		})
	}
	require.True(t, resolved, "the alert that had been firing is resolved once keep_firing_for is over")
}
