package rules_test

import (
	"context"
	"testing"
	"time"

	"github.com/prometheus/common/promslog"
	"github.com/stretchr/testify/require"

	"github.com/prometheus/prometheus/model/labels"
	"github.com/prometheus/prometheus/promql"
	"github.com/prometheus/prometheus/promql/parser"
	"github.com/prometheus/prometheus/rules"
)

// F95: a templated rule label that expands to the empty string is dropped from the alert's labels, but the ALERTS and
// ALERTS_FOR_STATE samples were built from the rule's unexpanded labels overlaid with the alert's, so they carried the
// template text — and the 'for' state restore, which looks the series up by the alert's labels, missed that alert.
func TestF95EmptyTemplatedLabelInAlertSeries(t *testing.T) {
	expr, err := parser.NewParser(parser.Options{}).ParseExpr(`m > 0`)
	require.NoError(t, err)
	r := rules.NewAlertingRule("A", expr, time.Minute, 0, labels.FromStrings("owner", "{{ $labels.team }}"), labels.EmptyLabels(), labels.EmptyLabels(), "", true, promslog.NewNopLogger())
	q := func(context.Context, string, time.Time) (promql.Vector, error) {
		return promql.Vector{
			{Metric: labels.FromStrings("__name__", "m", "i", "0"), F: 1},
			{Metric: labels.FromStrings("__name__", "m", "i", "1", "team", "x"), F: 1},
		}, nil
	}
	vec, err := r.Eval(context.Background(), 0, time.Unix(0, 0), q, nil, 0)
	require.NoError(t, err)
	require.Len(t, vec, 4)
	for _, s := range vec {
		switch s.Metric.Get("i") {
		case "0":
			require.False(t, s.Metric.Has("owner"), "%s", s.Metric)
		case "1":
			require.Equal(t, "x", s.Metric.Get("owner"), "%s", s.Metric)
		}
	}
	for _, a := range r.ActiveAlerts() {
		for _, s := range vec {
			if s.Metric.Get("i") == a.Labels.Get("i") && s.Metric.Get("__name__") == "ALERTS_FOR_STATE" {
				require.Equal(t, a.Labels.String(), s.Metric.DropReserved(func(n string) bool { return n == "__name__" }).String(), "the restore looks the series up by the alert's labels")
			}
		}
	}
}
