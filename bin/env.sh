# Offline Go environment for building the checker and loading /repo.
# (GOSUMDB=off and GOTOOLCHAIN=local are deliberately not set: /repo/go.mod needs the cached
# go1.25.10 toolchain switch.)
export GOFLAGS=-mod=mod GOPROXY=off GOWORK=off
unset GOSUMDB GOTOOLCHAIN 2>/dev/null || true
