package main

import (
	"go/ast"
	"strings"

	"promverif/eng"
)

// C53.R4 (finding F96): a read-only query has to see what a read-write open of the same directory would serve.
// loadDataAsQueryable skips the replay of the logs when the blocks already cover the requested range
// (maxBlockTime > maxt) — sound for in-order data, which is newer than every block, but out-of-order samples in the
// head (kept in the WBL) can be older than the newest block.  So the condition under which the logs are replayed must
// be satisfiable independently of the time comparison when a WBL exists: one of its disjuncts does not mention the
// requested range and tests the WBL directory.  A directory without a wal/ (blocks only) is still queryable: the
// replay is also conditional on the WAL directory existing.
func runC53Replay(c *eng.Ctx) {
	p := c.P
	f := c.Fn("tsdb:DBReadOnly.loadDataAsQueryable")
	var replay *ast.IfStmt
	ast.Inspect(f.Body, func(x ast.Node) bool {
		if is, ok := x.(*ast.IfStmt); ok && replay == nil {
			t := nodeText(is.Body)
			if strings.Contains(t, "wlog.Open(") && strings.Contains(t, "head.Init(") {
				replay = is
			}
		}
		return true
	})
	if replay == nil {
		c.Fail("R4", f.Where(), "the conditional replay of the logs found", p.Pos(f.Body.Pos()), "")
		return
	}
	// variables assigned from os.Stat of a directory: name -> directory expression text
	statOf := map[string]string{}
	ast.Inspect(f.Body, func(x ast.Node) bool {
		if as, ok := x.(*ast.AssignStmt); ok && len(as.Rhs) == 1 && len(as.Lhs) == 2 {
			if call, ok := as.Rhs[0].(*ast.CallExpr); ok && nodeText(call.Fun) == "os.Stat" && len(call.Args) == 1 {
				statOf[nodeText(as.Lhs[1])] = nodeText(call.Args[0])
			}
		}
		return true
	})
	dirOf := map[string]string{} // variable -> what it is built from
	ast.Inspect(f.Body, func(x ast.Node) bool {
		if as, ok := x.(*ast.AssignStmt); ok && len(as.Rhs) == 1 && len(as.Lhs) == 1 && strings.HasPrefix(nodeText(as.Rhs[0]), "filepath.Join(") {
			dirOf[nodeText(as.Lhs[0])] = nodeText(as.Rhs[0])
		}
		return true
	})
	about := func(e ast.Expr, what string) bool { // does e test the existence of the WBL / WAL directory?
		found := false
		ast.Inspect(e, func(x ast.Node) bool {
			if call, ok := x.(*ast.CallExpr); ok && nodeText(call.Fun) == "os.IsNotExist" && len(call.Args) == 1 {
				dir := statOf[nodeText(call.Args[0])]
				if d, ok := dirOf[dir]; ok {
					dir = d
				}
				if strings.Contains(dir, what) {
					found = true
				}
			}
			return true
		})
		return found
	}
	var disj func(e ast.Expr) []ast.Expr
	disj = func(e ast.Expr) []ast.Expr {
		e = ast.Unparen(e)
		if be, ok := e.(*ast.BinaryExpr); ok && be.Op.String() == "||" {
			return append(disj(be.X), disj(be.Y)...)
		}
		return []ast.Expr{e}
	}
	var conj func(e ast.Expr) []ast.Expr
	conj = func(e ast.Expr) []ast.Expr {
		e = ast.Unparen(e)
		if be, ok := e.(*ast.BinaryExpr); ok && be.Op.String() == "&&" {
			return append(conj(be.X), conj(be.Y)...)
		}
		return []ast.Expr{e}
	}
	oooDisjunct, walConjunct := false, false
	for _, cj := range conj(replay.Cond) {
		if about(cj, `"wal"`) && len(disj(cj)) == 1 {
			walConjunct = true
		}
		for _, d := range disj(cj) {
			if !strings.Contains(nodeText(d), "maxt") && about(d, "WblDirName") {
				oooDisjunct = true
			}
		}
	}
	c.Check("R4", f.Where(), "the logs are replayed whenever a WBL exists, whatever the requested range (out-of-order head samples can be older than the newest block)", oooDisjunct, p.Pos(replay.Pos()),
		nodeText(replay.Cond)+" — a bounded read-only query misses out-of-order samples that a read-write open serves from the head")
	c.Check("R4", f.Where(), "the replay is conditional on the WAL directory existing (a directory with blocks only stays queryable)", walConjunct, p.Pos(replay.Pos()), nodeText(replay.Cond))
	_ = eng.SortedKeys[bool]
}
