package main

import (
	"fmt"
	"go/types"
	"sort"
	"strings"

	"promverif/eng"
)

// scanWrappers (exploratory, `promverif scanwrappers`): struct types that embed an interface or a struct with methods
// and declare some but not all of the embedded type's methods — the shape behind F39, F56, F66 and F67 (a wrapper that
// restricts or transforms one method while its siblings are promoted unrestricted).  Output is a candidate list to
// read, not a verdict.
func scanWrappers(p *eng.Prog) {
	seenPkg := map[*types.Package]bool{}
	for _, fs := range p.AllFuncs() {
		pkg := fs.Pkg.Types
		if seenPkg[pkg] || !strings.HasPrefix(pkg.Path(), eng.ModPath) {
			continue
		}
		seenPkg[pkg] = true
		scope := pkg.Scope()
		for _, name := range scope.Names() {
			tn, ok := scope.Lookup(name).(*types.TypeName)
			if !ok {
				continue
			}
			named, ok := tn.Type().(*types.Named)
			if !ok {
				continue
			}
			st, ok := named.Underlying().(*types.Struct)
			if !ok || strings.Contains(p.Pos(tn.Pos()), "_test.go:") {
				continue
			}
			own := map[string]bool{}
			for i := 0; i < named.NumMethods(); i++ {
				own[named.Method(i).Name()] = true
			}
			if len(own) == 0 {
				continue
			}
			for i := 0; i < st.NumFields(); i++ {
				f := st.Field(i)
				if !f.Embedded() {
					continue
				}
				ms := types.NewMethodSet(f.Type())
				if _, isPtr := f.Type().(*types.Pointer); !isPtr {
					if _, isIface := f.Type().Underlying().(*types.Interface); !isIface {
						ms = types.NewMethodSet(types.NewPointer(f.Type()))
					}
				}
				var over, prom []string
				for j := 0; j < ms.Len(); j++ {
					m := ms.At(j).Obj().Name()
					if !ms.At(j).Obj().Exported() && ms.At(j).Obj().Pkg() != pkg {
						continue
					}
					if own[m] {
						over = append(over, m)
					} else {
						prom = append(prom, m)
					}
				}
				if len(over) == 0 || len(prom) == 0 {
					continue
				}
				sort.Strings(over)
				sort.Strings(prom)
				fmt.Printf("%s %s.%s embeds %s: overrides [%s] promotes [%s]\n", p.Pos(tn.Pos()), pkg.Name(), name, types.TypeString(f.Type(), types.RelativeTo(pkg)), strings.Join(over, " "), strings.Join(prom, " "))
			}
		}
	}
}
