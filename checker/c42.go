package main

import (
	"fmt"
	"go/ast"
	"strings"

	"promverif/eng"
)

func init() {
	register(&Property{
		ID:        "C42",
		Title:     "Remote read returns the same data as a local query",
		Technique: "field-transfer maps (E11) composed over encoder/decoder pairs (histogram ↔ prompb.Histogram, Span ↔ BucketSpan, SelectHints ↔ ReadHints, chunks.Meta → prompb.Chunk); inverse enum tables for matcher types; enum-switch exhaustiveness over sample value types; go/cfg ordering, all-paths and error-propagation rules for the frame writer/reader, the sampled encoder and the streamed-chunk encoder/decoder; linear normal form of the time-range filter",
		DesignRef: "DESIGN.md §5 C42",
		Level: "Decides structural necessary conditions only: every sample type the storage iterator can return has an arm in the sampled encoder and lands in the slice that is sent; every field of an integer/float histogram is written to a wire field and read back from that same wire field (identity on field names, both wire encodings); " +
			"matcher types, select hints and the query time range reach the remote querier unchanged by name; every chunk cut into a streamed frame is written before the frame buffer is reused and before a success return; iterator and series-set errors are propagated on both sides; " +
			"the frame writer and reader agree on size, checksum, data order and the reader rejects a checksum mismatch; the chunked client iterator decodes each chunk with its own encoding byte and keeps exactly the samples with mint ≤ t ≤ maxt.",
		Note:           "Trusted: go/packages, go/types, go/cfg; rule tables in checker/c42.go.",
		Covers:         "storage/remote: ToQuery, ToQueryResult, FromQueryResult, To/FromLabelMatchers, StreamChunkedReadResponses, concreteSeriesIterator, chunkedSeriesSet/chunkedSeriesIterator, ChunkedWriter/ChunkedReader, readHandler, querier.Select; prompb: histogram conversions.",
		NotCover:       "sample values and timestamps themselves (equality of the returned data is a runtime property: the merge of float and histogram cursors in concreteSeriesIterator, protobuf marshalling, snappy, HTTP); external-label handling beyond the call shape.",
		Run:            runC42,
		MinObligations: 60,
	})
}

func runC42(c *eng.Ctx) {
	defer runC42Frames(c)
	p := c.P
	R := "storage/remote:"
	const (
		H   = "model/histogram:Histogram"
		FH  = "model/histogram:FloatHistogram"
		PBH = "prompb:Histogram"
	)
	// ---- R1 sampled response: every sample type is encoded ----
	{
		f := c.Fn(R + "ToQueryResult")
		f.SwitchCovers("R1", "tsdb/chunkenc:ValueType", 1, map[string]string{"ValNone": "the sample loop ends on ValNone"})
		sws := f.EnumSwitches("tsdb/chunkenc:ValueType")
		arm := func(name string, wants ...string) {
			what := "the " + name + " arm of the sampled encoder " + strings.Join(wants, " and ")
			if len(sws) != 1 || sws[0].Clauses[name] == nil {
				c.Fail("R1", f.Where(), what, "", "no such arm")
				return
			}
			var t []string
			for _, s := range sws[0].Clauses[name].Body {
				t = append(t, nodeText(s))
			}
			txt := strings.Join(t, "\n")
			for _, w := range wants {
				if !strings.Contains(txt, w) {
					c.Fail("R1", f.Where(), what, p.Pos(sws[0].Clauses[name].Pos()), "arm body is: "+txt)
					return
				}
			}
			c.Pass("R1", f.Where(), what, "")
		}
		arm("ValFloat", "iter.At()", "samples = append(samples, prompb.Sample{")
		arm("ValHistogram", "iter.AtHistogram(nil)", "histograms = append(histograms, prompb.FromIntHistogram(ts, h))")
		arm("ValFloatHistogram", "iter.AtFloatHistogram(nil)", "histograms = append(histograms, prompb.FromFloatHistogram(ts, fh))")
		f.LitIs("R1", "prompb:Sample", 1, map[string]string{"Timestamp": "ts", "Value": "val"})
		f.LitIs("R1", "prompb:TimeSeries", 1, map[string]string{"Labels": "prompb.FromLabels(series.Labels(), nil)", "Samples": "samples", "Histograms": "histograms"})
		f.ErrPropagates("R1", eng.OnVar("iter", "Err"), 1)
		f.Only("R1", eng.Return("success return", func(g *eng.Graph, rs *ast.ReturnStmt) bool {
			return len(rs.Results) == 3 && eng.ExprString(rs.Results[0]) == "resp"
		}), "returns ss.Err() as its error", func(l eng.Loc) bool {
			return eng.ExprString(l.Node.(*ast.ReturnStmt).Results[2]) == "ss.Err()"
		})
		// each series gets fresh slices: a series does not inherit the samples of the one before
		f.AstEvery("R1", "series loop", func(n ast.Node) bool {
			fs, ok := n.(*ast.ForStmt)
			return ok && fs.Cond != nil && eng.ExprString(fs.Cond) == "ss.Next()"
		}, "declares samples and histograms inside the loop body and appends one TimeSeries per series", func(n ast.Node) bool {
			t := nodeText(n.(*ast.ForStmt).Body)
			return strings.Contains(t, "samples    []prompb.Sample") || (strings.Contains(t, "samples []prompb.Sample") && strings.Contains(t, "histograms []prompb.Histogram")) &&
				strings.Contains(t, "resp.Timeseries = append(resp.Timeseries, &prompb.TimeSeries{")
		}, 1)
	}
	// ---- R2 histograms through the wire type: identity on field names ----
	{
		c.TransfersAll("R2", "prompb:FromIntHistogram", PBH, H, 1, nil)
		c.TransfersAll("R2", "prompb:FromFloatHistogram", PBH, FH, 1, nil)
		c.RoundTripFields("R2", "prompb:FromIntHistogram", PBH+".ToIntHistogram", H, PBH, 0, nil)
		c.RoundTripFields("R2", "prompb:FromFloatHistogram", PBH+".ToFloatHistogram", FH, PBH, 0, nil)
		c.RoundTripFieldsX("R2", "prompb:FromIntHistogram", H, PBH+".ToFloatHistogram", FH, PBH, 1, nil) // an integer wire histogram read as float: same field names
		c.RoundTripFields("R2", "prompb:spansToSpansProto", "prompb:spansProtoToSpans", "model/histogram:Span", "prompb:BucketSpan", 0, nil)
		for _, fn := range []string{"prompb:FromIntHistogram", "prompb:FromFloatHistogram"} {
			f := c.Fn(fn)
			what := "the wire timestamp of " + f.Name + " is its timestamp parameter"
			fms := f.FieldMaps(PBH, H)
			if len(fms) == 1 && strings.Join(fms[0].Reads["Timestamp"], ",") == "$timestamp" {
				c.Pass("R2", fn, what, "")
			} else {
				c.Fail("R2", fn, what, p.Pos(f.Body.Pos()), "Timestamp is not filled from the parameter alone")
			}
		}
		// the float/int wire encodings are told apart by the same test on both decoder paths
		tf := c.Fn(PBH + ".ToFloatHistogram")
		tf.Only("R2", eng.Return("return of the float-count literal", func(g *eng.Graph, rs *ast.ReturnStmt) bool {
			return strings.Contains(nodeText(rs), "h.GetZeroCountFloat()")
		}), "lies under h.IsFloatHistogram()", func(l eng.Loc) bool { return tf.UnderCond(l, "h.IsFloatHistogram()") })
		ti := c.Fn(PBH + ".ToIntHistogram")
		ti.GivenBranch("h.IsFloatHistogram()", true).Unreachable("R2", eng.Return("return of a histogram", func(g *eng.Graph, rs *ast.ReturnStmt) bool {
			return strings.Contains(nodeText(rs), "histogram.Histogram{")
		}))
		// client side: the model histogram handed out is the one converted from the current wire histogram
		sc := c.Fn(R + "concreteSeriesIterator.setCurrentHistogram")
		sc.Only("R2", p.Call(PBH+".ToFloatHistogram"), "is chosen only for float wire histograms", func(l eng.Loc) bool { return sc.UnderCond(l, "pbH.IsFloatHistogram()") })
		sc.Only("R2", p.Call(PBH+".ToIntHistogram"), "is chosen only for integer wire histograms", func(l eng.Loc) bool { return sc.UnderCondFalse(l, "pbH.IsFloatHistogram()") })
		sc.Only("R2", eng.AssignVar("pbH"), "reads the histogram under the cursor", func(l eng.Loc) bool {
			return nodeText(l.Node) == "pbH := c.series.histograms[c.histogramsCur]"
		})
		sc.Dom("R2", p.Call(PBH+".ToFloatHistogram"), p.Store(R+"concreteSeriesIterator.curFH"))
		sc.Dom("R2", p.Call(PBH+".ToIntHistogram"), p.Store(R+"concreteSeriesIterator.curH"))
		sc.Only("R2", p.Store(R+"concreteSeriesIterator.curFH"), "stores the converted float histogram", func(l eng.Loc) bool { return nodeText(l.Node) == "c.curFH = mFH" })
		sc.Only("R2", p.Store(R+"concreteSeriesIterator.curH"), "stores the converted integer histogram", func(l eng.Loc) bool { return nodeText(l.Node) == "c.curH = mH" })
		for _, m := range []string{"Next", "Seek"} {
			f := c.Fn(R + "concreteSeriesIterator." + m)
			setH := eng.Node("c.curValType = chunkenc.ValHistogram", func(g *eng.Graph, n ast.Node) bool {
				return nodeText(n) == "c.curValType = chunkenc.ValHistogram"
			})
			f.AllPaths("R2", setH, eng.CondTest("c.curValType == chunkenc.ValHistogram"), eng.AnyExit)
			f.GivenBranch("c.curValType == chunkenc.ValHistogram", true).Reachable("R2", p.Call(R+"concreteSeriesIterator.setCurrentHistogram"))
			f.NoPath("R2", p.Call(R+"concreteSeriesIterator.setCurrentHistogram"), setH) // the conversion sees the final cursor
		}
		retText := func(fn string, want ...string) {
			f := c.Fn(fn)
			f.Only("R2", eng.Return("return", func(g *eng.Graph, rs *ast.ReturnStmt) bool { return true }), "returns one of {"+strings.Join(want, " | ")+"}", func(l eng.Loc) bool {
				t := strings.TrimPrefix(nodeText(l.Node), "return ")
				for _, w := range want {
					if t == w {
						return true
					}
				}
				return false
			})
		}
		retText(R+"concreteSeriesIterator.At", "s.Timestamp, s.Value")
		retText(R+"concreteSeriesIterator.AtHistogram", "c.series.histograms[c.histogramsCur].Timestamp, c.curH")
		retText(R+"concreteSeriesIterator.AtFloatHistogram", "c.series.histograms[c.histogramsCur].Timestamp, c.curFH", "c.series.histograms[c.histogramsCur].Timestamp, c.curH.ToFloat(nil)")
		c.Fn(R+"concreteSeriesIterator.At").Only("R2", eng.AssignVar("s"), "reads the float sample under the cursor", func(l eng.Loc) bool {
			return nodeText(l.Node) == "s := c.series.floats[c.floatsCur]"
		})
		c.AssignsAllFields("R2", R+"concreteSeriesIterator.reset", R+"concreteSeriesIterator", map[string]string{
			"curH":  "pre-filled by setCurrentHistogram whenever curValType is ValHistogram; never read otherwise",
			"curFH": "pre-filled by setCurrentHistogram whenever curValType is ValFloatHistogram; never read otherwise",
		})
	}
	// ---- R3 the query reaches the remote querier unchanged ----
	{
		c.InverseSwitches("R3", R+"ToLabelMatchers", "model/labels:MatchType", R+"FromLabelMatchers", "prompb:LabelMatcher_Type", nil)
		c.Fn(R+"ToLabelMatchers").LitIs("R3", "prompb:LabelMatcher", 1, map[string]string{"Type": "mType", "Name": "m.Name", "Value": "m.Value"})
		fl := c.Fn(R + "FromLabelMatchers")
		fl.Only("R3", p.Call("model/labels:NewMatcher"), "is built from the translated type and the wire name and value", func(l eng.Loc) bool {
			a := eng.CallArgsText(l)
			return len(a) == 3 && a[0] == "mtype" && a[1] == "matcher.Name" && a[2] == "matcher.Value"
		})
		fl.ErrPropagates("R3", p.Call("model/labels:NewMatcher"), 1)
		hintsExcept := map[string]string{
			"Limit":             "not part of the remote-read protocol (prompb.ReadHints has no such field)",
			"ShardCount":        "not part of the remote-read protocol",
			"ShardIndex":        "not part of the remote-read protocol",
			"DisableTrimming":   "not part of the remote-read protocol",
			"ProjectionLabels":  "not part of the remote-read protocol",
			"ProjectionInclude": "not part of the remote-read protocol",
		}
		c.TransfersAll("R3", R+"ToQuery", "prompb:ReadHints", "storage:SelectHints", 1, hintsExcept)
		c.SetsAll("R3", R+"ToQuery", "prompb:ReadHints", "storage:SelectHints", 1, nil)
		for _, h := range []string{"remoteReadSamples", "remoteReadStreamedXORChunks"} {
			c.RoundTripFields("R3", R+"ToQuery", R+"readHandler."+h, "storage:SelectHints", "prompb:ReadHints", 0, hintsExcept)
		}
		c.Fn(R+"ToQuery").LitIs("R3", "prompb:Query", 1, map[string]string{"StartTimestampMs": "from", "EndTimestampMs": "to", "Matchers": "ms", "Hints": "rp"})
		sel := c.Fn(R + "querier.Select")
		sel.Only("R3", p.Call(R+"ToQuery"), "passes the querier's range, the matchers with external labels added and the caller's hints", func(l eng.Loc) bool {
			a := eng.CallArgsText(l)
			return len(a) == 4 && a[0] == "q.mint" && a[1] == "q.maxt" && a[2] == "m" && a[3] == "hints"
		})
		errSet := eng.Return("return storage.ErrSeriesSet(…)", func(g *eng.Graph, rs *ast.ReturnStmt) bool {
			return len(rs.Results) == 1 && strings.HasPrefix(eng.ExprString(rs.Results[0]), "storage.ErrSeriesSet(")
		})
		sel.FailLeadsTo("R3", p.Call(R+"ToQuery"), errSet, nil)
		sel.FailLeadsTo("R3", eng.Node("q.client.Read(…)", func(g *eng.Graph, n ast.Node) bool {
			call, ok := n.(*ast.CallExpr)
			return ok && eng.ExprString(call.Fun) == "q.client.Read"
		}), errSet, nil)
		sel.Only("R3", eng.Node("q.client.Read(…)", func(g *eng.Graph, n ast.Node) bool {
			call, ok := n.(*ast.CallExpr)
			return ok && eng.ExprString(call.Fun) == "q.client.Read"
		}), "sends the built query and the caller's sort request", func(l eng.Loc) bool {
			a := eng.CallArgsText(l)
			return len(a) == 3 && a[1] == "query" && a[2] == "sortSeries"
		})
		sel.Only("R3", p.Call(R+"newSeriesSetFilter"), "removes exactly the labels whose matchers were added", func(l eng.Loc) bool {
			a := eng.CallArgsText(l)
			return len(a) == 2 && a[0] == "res" && a[1] == "added"
		})
		sel.Only("R3", eng.AssignVar("added"), "is the second result of addExternalLabels(matchers)", func(l eng.Loc) bool {
			return nodeText(l.Node) == "m, added := q.addExternalLabels(matchers)"
		})
		for _, q := range [][2]string{{"Querier", "storage/remote:querier"}, {"ChunkQuerier", "storage/remote:querier"}} {
			f := c.Fn(R + "sampleAndChunkQueryableClient." + q[0])
			ls := f.LitTexts(q[1])
			what := q[0] + " builds its querier with mint: mint, maxt: maxt"
			if len(ls) == 1 && ls[0]["mint"] == "mint" && ls[0]["maxt"] == "maxt" && ls[0]["client"] == "c.client" && ls[0]["externalLabels"] == "c.externalLabels" && ls[0]["requiredMatchers"] == "c.requiredMatchers" {
				c.Pass("R3", f.Where(), what, "")
			} else {
				c.Fail("R3", f.Where(), what, p.Pos(f.Body.Pos()), "querier literal differs")
			}
		}
		// server side: the handler queries the requested range with the decoded matchers and hints
		for _, h := range [][3]string{{"remoteReadSamples", "Querier", "false"}, {"remoteReadStreamedXORChunks", "ChunkQuerier", "true"}} {
			f := c.Fn(R+"readHandler."+h[0]).Closure("perQuery", eng.CallNamed("filterExtLabelsFromMatchers"))
			open := eng.Node("h.queryable."+h[1]+"(…)", func(g *eng.Graph, n ast.Node) bool {
				call, ok := n.(*ast.CallExpr)
				return ok && eng.ExprString(call.Fun) == "h.queryable."+h[1]
			})
			f.Has("R3", open, 1)
			f.Only("R3", open, "opens the querier over [query.StartTimestampMs, query.EndTimestampMs]", func(l eng.Loc) bool {
				a := eng.CallArgsText(l)
				return len(a) == 2 && a[0] == "query.StartTimestampMs" && a[1] == "query.EndTimestampMs"
			})
			f.ErrPropagates("R3", open, 1)
			f.ErrPropagates("R3", eng.CallNamed("filterExtLabelsFromMatchers"), 1)
			selCall := eng.OnVar("querier", "Select")
			f.Has("R3", selCall, 1)
			f.Only("R3", selCall, "selects with sorted="+h[2]+", the decoded hints and the filtered matchers", func(l eng.Loc) bool {
				a := eng.CallArgsText(l)
				return len(a) == 4 && a[0] == "ctx" && a[1] == h[2] && a[2] == "hints" && a[3] == "filteredMatchers"
			})
			f.Only("R3", eng.CallNamed("filterExtLabelsFromMatchers"), "decodes the matchers of this query", func(l eng.Loc) bool {
				a := eng.CallArgsText(l)
				return len(a) == 2 && a[0] == "query.Matchers" && a[1] == "externalLabels"
			})
		}
		rs := c.Fn(R+"readHandler.remoteReadSamples").Closure("perQuery", eng.CallNamed("filterExtLabelsFromMatchers"))
		rs.ErrPropagates("R3", p.Call(R+"ToQueryResult"), 1)
		rs.Only("R3", eng.Node("resp.Results[…] = …", func(g *eng.Graph, n ast.Node) bool {
			as, ok := n.(*ast.AssignStmt)
			return ok && strings.HasPrefix(eng.ExprString(as.Lhs[0]), "resp.Results[")
		}), "stores the result of query i at index i", func(l eng.Loc) bool {
			return eng.ExprString(l.Node.(*ast.AssignStmt).Lhs[0]) == "resp.Results[i]"
		})
		rx := c.Fn(R+"readHandler.remoteReadStreamedXORChunks").Closure("perQuery", eng.CallNamed("filterExtLabelsFromMatchers"))
		rx.ErrPropagates("R3", p.Call(R+"StreamChunkedReadResponses"), 1)
		rx.Only("R3", p.Call(R+"StreamChunkedReadResponses"), "streams to the chunked writer with the query's index", func(l eng.Loc) bool {
			a := eng.CallArgsText(l)
			return len(a) == 6 && a[0] == "cw" && a[1] == "int64(i)"
		})
		// filterExtLabelsFromMatchers keeps every matcher (replacing only exact external-label equalities)
		fe := c.Fn(R + "filterExtLabelsFromMatchers")
		fe.ErrPropagates("R3", p.Call(R+"FromLabelMatchers"), 1)
		app := eng.Node("filteredMatchers = append(…)", func(g *eng.Graph, n ast.Node) bool {
			return strings.HasPrefix(nodeText(n), "filteredMatchers = append(filteredMatchers, ")
		})
		fe.Has("R3", app, 2)
		fe.Only("R3", app, "keeps m, or replaces it by an empty-value equality only when m is an equality on an external label's exact value", func(l eng.Loc) bool {
			if nodeText(l.Node) == "filteredMatchers = append(filteredMatchers, m)" {
				return true
			}
			return nodeText(l.Node) == "filteredMatchers = append(filteredMatchers, matcher)" && fe.UnderCond(l, "m.Type == labels.MatchEqual && value == m.Value")
		})
		fe.AstEvery("R3", "matcher loop", func(n ast.Node) bool {
			rs, ok := n.(*ast.RangeStmt)
			return ok && eng.ExprString(rs.X) == "matchers"
		}, "appends on both arms", func(n ast.Node) bool {
			return strings.Count(nodeText(n), "filteredMatchers = append(filteredMatchers, ") == 2
		}, 1)
	}
	// ---- R4 streamed chunks: every cut chunk is sent ----
	{
		f := c.Fn(R + "StreamChunkedReadResponses")
		c.TransfersAll("R4", R+"StreamChunkedReadResponses", "prompb:Chunk", "tsdb/chunks:Meta", 1, map[string]string{"Ref": "storage-internal reference, not part of the data"})
		c.SetsAll("R4", R+"StreamChunkedReadResponses", "prompb:Chunk", "tsdb/chunks:Meta", 1, nil)
		f.LitIs("R4", "prompb:Chunk", 1, map[string]string{"MinTimeMs": "chk.MinTime", "MaxTimeMs": "chk.MaxTime", "Type": "prompb.Chunk_Encoding(chk.Chunk.Encoding())", "Data": "chk.Chunk.Bytes()"})
		f.LitIs("R4", "prompb:ChunkedSeries", 1, map[string]string{"Labels": "lbls", "Chunks": "chks"})
		cut := eng.Node("chks = append(chks, …)", func(g *eng.Graph, n ast.Node) bool { return strings.HasPrefix(nodeText(n), "chks = append(chks, ") })
		reset := eng.Node("chks = chks[:0]", func(g *eng.Graph, n ast.Node) bool { return nodeText(n) == "chks = chks[:0]" })
		write := eng.OnVar("stream", "Write")
		marshal := eng.OnVar("resp", "PooledMarshal")
		f.Has("R4", cut, 1)
		f.Has("R4", reset, 1)
		// within one iteration a cut chunk is either sent, or the loop is re-entered through the `&& isNext` operand
		// of the hold-back test (more chunks of this series follow, so the loop cannot end before the next send)
		var holdBack, loopCond ast.Node
		ast.Inspect(f.Body, func(n ast.Node) bool {
			switch x := n.(type) {
			case *ast.IfStmt:
				if be, ok := x.Cond.(*ast.BinaryExpr); ok && eng.ExprString(be) == "frameBytesLeft > 0 && isNext" {
					holdBack = be.Y
				}
			case *ast.ForStmt:
				if x.Cond != nil && eng.ExprString(x.Cond) == "isNext" {
					loopCond = x.Cond
				}
			}
			return true
		})
		more := eng.Node("the `isNext` operand of the hold-back test", func(g *eng.Graph, n ast.Node) bool { return holdBack != nil && n == holdBack })
		head := eng.Node("the chunk loop's condition `isNext`", func(g *eng.Graph, n ast.Node) bool { return loopCond != nil && n == loopCond })
		f.Has("R4", more, 1)
		f.Has("R4", head, 1)
		f.PassesBetween("R4", cut, eng.Or(write, more), head)
		f.Only("R4", eng.AssignVar("isNext"), "is iter.Next()", func(l eng.Loc) bool {
			t := nodeText(l.Node)
			return t == "isNext := iter.Next()" || t == "isNext = iter.Next()"
		})
		f.NoPathAvoid("R4", more, eng.AssignVar("isNext"), "the chunk loop's condition", f.Find(head)) // the loop condition reads the value the hold-back test saw
		f.PassesBetween("R4", cut, write, reset)
		f.PassesBetween("R4", cut, marshal, write)
		f.PassesBetween("R4", write, reset, cut) // a sent chunk is not sent again in the next frame
		f.ErrPropagates("R4", write, 1)
		f.ErrPropagates("R4", marshal, 1)
		f.ErrPropagates("R4", eng.OnVar("iter", "Err"), 1)
		f.Only("R4", eng.Return("success return", func(g *eng.Graph, rs *ast.ReturnStmt) bool {
			return len(rs.Results) == 2 && !strings.Contains(nodeText(rs), "fmt.Errorf") && eng.ExprString(rs.Results[1]) != "err"
		}), "returns ss.Err() as its error", func(l eng.Loc) bool {
			return eng.ExprString(l.Node.(*ast.ReturnStmt).Results[1]) == "ss.Err()"
		})
		f.Only("R4", eng.AssignVar("chk"), "is the chunk under the iterator", func(l eng.Loc) bool { return nodeText(l.Node) == "chk := iter.At()" })
		f.Only("R4", eng.AssignVar("lbls"), "is the series' labels merged with the external labels", func(l eng.Loc) bool {
			if _, ok := l.Node.(*ast.AssignStmt); !ok {
				return true // the declaration
			}
			return nodeText(l.Node) == "lbls = MergeLabels(prompb.FromLabels(series.Labels(), lbls), sortedExternalLabels)"
		})
	}
	// ---- R5 frames: writer and reader agree; reader rejects a mismatch ----
	{
		w := c.Fn(R + "ChunkedWriter.Write")
		size := eng.CallNamed("PutUvarint")
		wSize := eng.Node("w.writer.Write(buf[:v])", func(g *eng.Graph, n ast.Node) bool {
			call, ok := n.(*ast.CallExpr)
			return ok && nodeText(call) == "w.writer.Write(buf[:v])"
		})
		wCrc := eng.Node("binary.Write(w.writer, binary.BigEndian, w.crc32.Sum32())", func(g *eng.Graph, n ast.Node) bool {
			call, ok := n.(*ast.CallExpr)
			return ok && nodeText(call) == "binary.Write(w.writer, binary.BigEndian, w.crc32.Sum32())"
		})
		wData := eng.Node("w.writer.Write(b)", func(g *eng.Graph, n ast.Node) bool {
			call, ok := n.(*ast.CallExpr)
			return ok && nodeText(call) == "w.writer.Write(b)"
		})
		crcReset := eng.Node("w.crc32.Reset()", func(g *eng.Graph, n ast.Node) bool {
			call, ok := n.(*ast.CallExpr)
			return ok && nodeText(call) == "w.crc32.Reset()"
		})
		crcFeed := eng.Node("w.crc32.Write(b)", func(g *eng.Graph, n ast.Node) bool {
			call, ok := n.(*ast.CallExpr)
			return ok && nodeText(call) == "w.crc32.Write(b)"
		})
		w.Chain("R5", size, wSize, crcReset, crcFeed, wCrc, wData)
		w.Only("R5", size, "encodes len(b)", func(l eng.Loc) bool {
			a := eng.CallArgsText(l)
			return len(a) == 2 && a[1] == "uint64(len(b))"
		})
		w.ErrPropagates("R5", wSize, 1)
		w.ErrPropagates("R5", wCrc, 1)
		r := c.Fn(R + "ChunkedReader.Next")
		rSize := eng.CallNamed("ReadUvarint")
		rCrc := eng.Node("binary.Read(r.b, binary.BigEndian, &crc32)", func(g *eng.Graph, n ast.Node) bool {
			call, ok := n.(*ast.CallExpr)
			return ok && nodeText(call) == "binary.Read(r.b, binary.BigEndian, &crc32)"
		})
		rData := eng.Node("io.ReadFull(io.TeeReader(r.b, r.crc32), r.data)", func(g *eng.Graph, n ast.Node) bool {
			call, ok := n.(*ast.CallExpr)
			return ok && nodeText(call) == "io.ReadFull(io.TeeReader(r.b, r.crc32), r.data)"
		})
		rReset := eng.Node("r.crc32.Reset()", func(g *eng.Graph, n ast.Node) bool {
			call, ok := n.(*ast.CallExpr)
			return ok && nodeText(call) == "r.crc32.Reset()"
		})
		r.Chain("R5", rSize, rCrc, rReset, rData)
		r.ErrPropagates("R5", rSize, 1)
		r.ErrPropagates("R5", rCrc, 1)
		r.ErrPropagates("R5", rData, 1)
		r.DomOK("R5", rData)
		r.GivenBranch("r.crc32.Sum32() != crc32", true).Unreachable("R5", eng.Return("success return", func(g *eng.Graph, rs *ast.ReturnStmt) bool {
			return len(rs.Results) == 2 && eng.ExprString(rs.Results[1]) == "nil"
		}))
		r.Only("R5", eng.Return("success return", func(g *eng.Graph, rs *ast.ReturnStmt) bool {
			return len(rs.Results) == 2 && eng.ExprString(rs.Results[1]) == "nil"
		}), "returns the frame data", func(l eng.Loc) bool { return eng.ExprString(l.Node.(*ast.ReturnStmt).Results[0]) == "r.data" })
		// data is sized by the decoded length on both arms
		r.Only("R5", p.Store(R+"ChunkedReader.data"), "sizes the buffer to the decoded frame length", func(l eng.Loc) bool {
			t := nodeText(l.Node)
			return t == "r.data = make([]byte, size)" || t == "r.data = r.data[:size]"
		})
		// same polynomial on both sides
		for _, fn := range []string{"NewChunkedWriter", "NewChunkedReader"} {
			f := c.Fn(R + fn)
			f.Has("R5", eng.Node("crc32.New(castagnoliTable)", func(g *eng.Graph, n ast.Node) bool {
				call, ok := n.(*ast.CallExpr)
				return ok && nodeText(call) == "crc32.New(castagnoliTable)"
			}).InClosures(), 1)
		}
		np := c.Fn(R + "ChunkedReader.NextProto")
		np.ErrPropagates("R5", p.Call(R+"ChunkedReader.Next"), 1)
	}
	// ---- R6 streamed chunks, client side ----
	{
		sn := c.Fn(R + "chunkedSeriesSet.Next")
		sn.LitIs("R6", "prompb:ChunkedSeries", 1, map[string]string{"Labels": "res.ChunkedSeries[0].Labels", "Chunks": "res.ChunkedSeries[0].Chunks"})
		ls := sn.LitTexts(R + "chunkedSeries")
		if len(ls) == 1 && ls[0]["mint"] == "s.mint" && ls[0]["maxt"] == "s.maxt" {
			c.Pass("R6", sn.Where(), "each streamed series is limited to the set's [mint, maxt]", "")
		} else {
			c.Fail("R6", sn.Where(), "each streamed series is limited to the set's [mint, maxt]", p.Pos(sn.Body.Pos()), "chunkedSeries literal differs")
		}
		nextAlt := eng.Node("s.chunkedReader.NextProto(res)", func(g *eng.Graph, n ast.Node) bool {
			call, ok := n.(*ast.CallExpr)
			return ok && nodeText(call) == "s.chunkedReader.NextProto(res)"
		})
		sn.Has("R6", nextAlt, 1)
		sn.Dom("R6", nextAlt, p.Store(R+"chunkedSeriesSet.current"))
		sn.FailStops("R6", nextAlt, p.Store(R+"chunkedSeriesSet.current"))
		errStore := p.Store(R + "chunkedSeriesSet.err")
		sn.Has("R6", errStore, 1)
		sn.Only("R6", errStore, "records every reader error other than io.EOF", func(l eng.Loc) bool {
			return nodeText(l.Node) == "s.err = err" && sn.UnderCond(l, "!errors.Is(err, io.EOF)")
		})
		nc := c.Fn(R + "NewChunkedSeriesSet")
		nl := nc.LitTexts(R + "chunkedSeriesSet")
		if len(nl) == 1 && nl[0]["mint"] == "mint" && nl[0]["maxt"] == "maxt" && nl[0]["chunkedReader"] == "chunkedReader" {
			c.Pass("R6", nc.Where(), "the set keeps the reader and the time range it was given", "")
		} else {
			c.Fail("R6", nc.Where(), "the set keeps the reader and the time range it was given", p.Pos(nc.Body.Pos()), "chunkedSeriesSet literal differs")
		}
		hc := c.Fn(R + "Client.handleChunkedResponseImpl")
		hc.Only("R6", p.Call(R+"NewChunkedSeriesSet"), "limits the set to the union of the queries' ranges", func(l eng.Loc) bool {
			a := eng.CallArgsText(l)
			return len(a) == 5 && a[0] == "s" && a[2] == "minStartTs" && a[3] == "maxEndTs"
		})
		hc.Only("R6", eng.AssignVar("minStartTs"), "is the minimum start over the queries", func(l eng.Loc) bool {
			t := nodeText(l.Node)
			return t == "minStartTs = min(minStartTs, query.StartTimestampMs)" || strings.Contains(t, "minStartTs, maxEndTs int64 = math.MaxInt64, math.MinInt64")
		})
		hc.Only("R6", eng.AssignVar("maxEndTs"), "is the maximum end over the queries", func(l eng.Loc) bool {
			t := nodeText(l.Node)
			return t == "maxEndTs = max(maxEndTs, query.EndTimestampMs)" || strings.Contains(t, "minStartTs, maxEndTs int64 = math.MaxInt64, math.MinInt64")
		})
		cs := c.Fn(R + "chunkedSeries.Iterator")
		for _, call := range []eng.Matcher{p.Call(R + "chunkedSeriesIterator.reset"), p.Call(R + "newChunkedSeriesIterator")} {
			cs.Only("R6", call, "iterates the series' chunks within its [mint, maxt]", func(l eng.Loc) bool {
				a := eng.CallArgsText(l)
				return len(a) == 3 && a[0] == "s.Chunks" && a[1] == "s.mint" && a[2] == "s.maxt"
			})
		}
		ri := c.Fn(R + "chunkedSeriesIterator.resetIterator")
		fromData := p.Call("tsdb/chunkenc:FromData")
		ri.Has("R6", fromData, 1)
		ri.Only("R6", fromData, "decodes the chunk under the cursor with its own encoding byte", func(l eng.Loc) bool {
			a := eng.CallArgsText(l)
			return len(a) == 2 && a[0] == "chunkenc.Encoding(chunk.Type)" && a[1] == "chunk.Data"
		})
		ri.Only("R6", eng.AssignVar("chunk"), "is the chunk at the cursor", func(l eng.Loc) bool { return nodeText(l.Node) == "chunk := it.chunks[it.idx]" })
		ri.FailLeadsTo("R6", fromData, p.Store(R+"chunkedSeriesIterator.err"), nil)
		ri.FailStops("R6", fromData, p.Store(R+"chunkedSeriesIterator.cur"))
		rs := c.Fn(R + "chunkedSeriesIterator.reset")
		rs.DomOK("R6", p.Store(R+"chunkedSeriesIterator.chunks"))
		rs.DomOK("R6", p.Store(R+"chunkedSeriesIterator.mint"))
		rs.DomOK("R6", p.Store(R+"chunkedSeriesIterator.maxt"))
		rs.DomOK("R6", p.Store(R+"chunkedSeriesIterator.idx"))
		rs.GivenBranch("len(chunks) > 0", true).DomOK("R6", p.Call(R+"chunkedSeriesIterator.resetIterator"))
		rs.Dom("R6", p.Store(R+"chunkedSeriesIterator.idx"), p.Call(R+"chunkedSeriesIterator.resetIterator"))
		rs.Dom("R6", p.Store(R+"chunkedSeriesIterator.chunks"), p.Call(R+"chunkedSeriesIterator.resetIterator"))
		// the time filter, in normal form
		nx := c.Fn(R + "chunkedSeriesIterator.Next")
		retVal := eng.Return("return it.valType inside the sample loop", func(g *eng.Graph, rs *ast.ReturnStmt) bool {
			return len(rs.Results) == 1 && eng.ExprString(rs.Results[0]) == "it.valType"
		})
		guardsOK := func(f *eng.Fn, l eng.Loc, want ...string) bool {
			gs := f.GuardsOf(l)
			have := map[string]bool{}
			for _, g := range gs {
				have[g] = true
			}
			for _, w := range want {
				if !have[w] {
					return false
				}
			}
			return true
		}
		var inLoop, afterLoop int
		for _, l := range nx.Find(retVal) {
			var gs []string
			for _, g := range nx.GuardsOf(l) {
				if strings.Contains(g, "atT") {
					gs = append(gs, g)
				}
			}
			switch {
			case len(gs) == 0:
				afterLoop++
			case len(gs) == 1 && gs[0] == "-1*atT +1*it.mint -1 < 0":
				inLoop++
			default:
				c.Fail("R6", nx.Where(), "a sample is returned from the loop exactly when mint ≤ t", nx.At(l), "guards: "+strings.Join(gs, " ; "))
			}
		}
		if inLoop == 1 {
			c.Pass("R6", nx.Where(), "a sample is returned from the loop exactly when mint ≤ t", "")
		} else {
			c.Fail("R6", nx.Where(), "a sample is returned from the loop exactly when mint ≤ t", p.Pos(nx.Body.Pos()), "no return guarded by atT >= it.mint")
		}
		exhaust := eng.Node("it.chunks = nil", func(g *eng.Graph, n ast.Node) bool { return nodeText(n) == "it.chunks = nil" })
		for _, fn := range []*eng.Fn{nx, c.Fn(R + "chunkedSeriesIterator.Seek")} {
			fn := fn
			tvar := "atT"
			if fn != nx {
				tvar = "ts"
			}
			fn.Has("R6", exhaust, 1)
			fn.Only("R6", exhaust, "ends the iteration only for t > maxt", func(l eng.Loc) bool {
				n := 0
				for _, g := range fn.GuardsOf(l) {
					if strings.Contains(g, "maxt") || strings.Contains(g, tvar) {
						if g != "-1*"+tvar+" +1*it.maxt < 0" && g != "+1*it.maxt -1*"+tvar+" < 0" {
							return false
						}
						n++
					}
				}
				return n == 1
			})
			fn.NoPath("R6", exhaust, eng.Return("return of a sample", func(g *eng.Graph, rs *ast.ReturnStmt) bool {
				return len(rs.Results) == 1 && eng.ExprString(rs.Results[0]) == "it.valType"
			}))
		}
		// (added for seed C42-c) the requested range is closed: [mint, maxt].  Whatever a method of the iterator compares
		// with the range's ends — a sample's timestamp or a chunk's time range — "beyond the end" is > maxt and
		// "before the start" is < mint; a comparison that puts the end itself outside (>= maxt, < maxt, <= mint, > mint)
		// loses the samples at exactly mint or maxt.
		{
			named := p.Named(R + "chunkedSeriesIterator")
			cmps := 0
			for i := 0; i < named.NumMethods(); i++ {
				m := c.Fn(R + "chunkedSeriesIterator." + named.Method(i).Name())
				ast.Inspect(m.Body, func(x ast.Node) bool {
					be, ok := x.(*ast.BinaryExpr)
					if !ok {
						return true
					}
					op := be.Op.String()
					if op != "<" && op != "<=" && op != ">" && op != ">=" && op != "==" && op != "!=" {
						return true
					}
					l, r := nodeText(be.X), nodeText(be.Y)
					end := func(t string) string {
						switch {
						case t == "it.maxt" || t == "maxt":
							return "maxt"
						case t == "it.mint" || t == "mint":
							return "mint"
						}
						return ""
					}
					le, re := end(l), end(r)
					if le == "" && re == "" || le != "" && re != "" {
						return true
					}
					// normalise to "x OP end"
					e := re
					if le != "" {
						e = le
						op = map[string]string{"<": ">", "<=": ">=", ">": "<", ">=": "<=", "==": "==", "!=": "!="}[op]
					}
					cmps++
					ok = e == "maxt" && (op == ">" || op == "<=") || e == "mint" && (op == "<" || op == ">=")
					c.Check("R6", m.Where(), "comparisons with the ends of the requested range treat it as closed (x > maxt, x <= maxt, x < mint, x >= mint)", ok, p.Pos(be.Pos()),
						nodeText(be)+" — the value equal to "+e+" falls on the wrong side: samples at exactly "+e+" are lost or samples outside the range returned")
					return true
				})
			}
			c.Check("R6", R+"chunkedSeriesIterator", "comparisons with the range's ends found in the iterator's methods", cmps >= 4, "", fmt.Sprint(cmps))
		}
		sk := c.Fn(R + "chunkedSeriesIterator.Seek")
		scan := 0
		for _, l := range sk.Find(retVal) {
			var gs []string
			for _, g := range sk.GuardsOf(l) {
				if strings.Contains(g, "ts") {
					gs = append(gs, g)
				}
			}
			switch {
			case len(gs) == 0: // exhausted: it.valType was just set to ValNone
			case len(gs) == 1 && gs[0] == "+1*t -1*ts -1 < 0": // no-op seek: the current (already filtered) sample is at or after t
			case len(gs) == 2 && guardsOK(sk, l, "+1*it.mint -1*ts -1 < 0", "+1*t -1*ts -1 < 0"):
				scan++
			default:
				c.Fail("R6", sk.Where(), "Seek returns a scanned sample exactly when t ≤ ts and mint ≤ ts", sk.At(l), "guards: "+strings.Join(gs, " ; "))
			}
		}
		if scan == 1 {
			c.Pass("R6", sk.Where(), "Seek returns a scanned sample exactly when t ≤ ts and mint ≤ ts", "")
		} else {
			c.Fail("R6", sk.Where(), "Seek returns a scanned sample exactly when t ≤ ts and mint ≤ ts", p.Pos(sk.Body.Pos()), "no return guarded by ts >= t && ts >= it.mint")
		}
		// chunks are skipped wholesale only when they end before the wanted time: Seek's binary search keeps the first chunk
		// with MaxTimeMs ≥ t, and a (hypothetical) trimming of the list in reset must keep every chunk with MaxTimeMs ≥ mint
		if ps := sk.SearchPreds(); len(ps) == 1 && ps[0] == "-1*it.chunks[startIdx + i].MaxTimeMs +1*t -1 < 0" {
			c.Pass("R6", sk.Where(), "Seek skips exactly the chunks with MaxTimeMs < t", "")
		} else {
			c.Fail("R6", sk.Where(), "Seek skips exactly the chunks with MaxTimeMs < t", p.Pos(sk.Body.Pos()), "sort.Search predicates: "+strings.Join(ps, " ; "))
		}
		for _, fn := range []*eng.Fn{rs, ri, nx, sk} {
			for _, target := range []string{"chunks", "it.chunks"} {
				for _, nw := range fn.Narrowings(target) {
					what := "a re-slicing of the chunk list drops only chunks that end before mint"
					okLoop := nw.Search == "" && len(nw.Guards) > 0 && strings.HasSuffix(nw.Text, "[1:]")
					for _, g := range nw.Guards {
						if strings.Contains(g, "MaxTimeMs") && g != "+1*chunks[0].MaxTimeMs -1*mint < 0" && g != "+1*it.chunks[0].MaxTimeMs -1*it.mint < 0" {
							okLoop = false
						}
					}
					hasTimeGuard := false
					for _, g := range nw.Guards {
						if strings.Contains(g, "MaxTimeMs") {
							hasTimeGuard = true
						}
					}
					okSearch := nw.Search == "-1*chunks[i].MaxTimeMs +1*mint -1 < 0" || nw.Search == "-1*it.chunks[i].MaxTimeMs +1*it.mint -1 < 0"
					if (okLoop && hasTimeGuard) || okSearch {
						c.Pass("R6", fn.Where(), what, nw.Pos)
					} else {
						c.Fail("R6", fn.Where(), what, nw.Pos, nw.Text+" under {"+strings.Join(nw.Guards, " ; ")+"} search {"+nw.Search+"}")
					}
				}
			}
		}
		rs.Only("R6", p.Store(R+"chunkedSeriesIterator.chunks"), "stores the chunk list it was given", func(l eng.Loc) bool { return nodeText(l.Node) == "it.chunks = chunks" })
		c.Pass("R6", rs.Where(), "narrowing scan ran over reset, resetIterator, Next, Seek", fmt.Sprintf("%d site(s) today", len(rs.Narrowings("chunks"))+len(sk.Narrowings("it.chunks"))))
		// advancing to the next chunk re-creates the chunk iterator before reading from it
		nx.Dom("R6", eng.Node("it.idx++", func(g *eng.Graph, n ast.Node) bool { return nodeText(n) == "it.idx++" }), p.Call(R+"chunkedSeriesIterator.resetIterator"))
		for _, m := range []string{"At", "AtHistogram", "AtFloatHistogram", "AtT"} {
			f := c.Fn(R + "chunkedSeriesIterator." + m)
			f.Only("R6", eng.Return("return", func(g *eng.Graph, rs *ast.ReturnStmt) bool { return true }), "delegates to the current chunk's iterator", func(l eng.Loc) bool {
				return strings.HasPrefix(nodeText(l.Node), "return it.cur."+m+"(")
			})
		}
	}
	// ---- R7 sampled response, client side ----
	{
		fq := c.Fn(R + "FromQueryResult")
		ls := fq.LitTexts(R + "concreteSeries")
		what := "each wire series becomes a series with its labels, float samples and histograms"
		if len(ls) == 1 && ls[0]["labels"] == "lbls" && ls[0]["floats"] == "ts.Samples" && ls[0]["histograms"] == "ts.Histograms" {
			c.Pass("R7", fq.Where(), what, "")
		} else {
			c.Fail("R7", fq.Where(), what, p.Pos(fq.Body.Pos()), "concreteSeries literal differs")
		}
		fq.Only("R7", eng.AssignVar("lbls"), "are the labels of the same wire series", func(l eng.Loc) bool { return nodeText(l.Node) == "lbls := ts.ToLabels(&b, nil)" })
		fq.AstEvery("R7", "series loop", func(n ast.Node) bool {
			rs, ok := n.(*ast.RangeStmt)
			return ok && eng.ExprString(rs.X) == "res.Timeseries"
		}, "appends one series per wire series", func(n ast.Node) bool {
			return strings.Contains(nodeText(n), "series = append(series, &concreteSeries{")
		}, 1)
		sortCall := eng.Node("slices.SortFunc(series, …)", func(g *eng.Graph, n ast.Node) bool {
			call, ok := n.(*ast.CallExpr)
			return ok && eng.ExprString(call.Fun) == "slices.SortFunc" && len(call.Args) == 2 && eng.ExprString(call.Args[0]) == "series"
		})
		fq.GivenBranch("sortSeries", true).Dom("R7", sortCall, eng.Return("return of the series set", func(g *eng.Graph, rs *ast.ReturnStmt) bool {
			return strings.Contains(nodeText(rs), "concreteSeriesSet{")
		}))
		fq.Only("R7", sortCall, "compares by labels", func(l eng.Loc) bool {
			return strings.Contains(nodeText(l.Node), "return labels.Compare(a.Labels(), b.Labels())")
		})
		hs := c.Fn(R + "Client.handleSampledResponse")
		hs.ErrPropagates("R7", eng.CallNamed("Decode"), 1)
		hs.ErrPropagates("R7", eng.CallNamed("Unmarshal"), 1)
		hs.Only("R7", p.Call(R+"combineQueryResults"), "combines the decoded results with the caller's sort request", func(l eng.Loc) bool {
			a := eng.CallArgsText(l)
			return len(a) == 2 && a[0] == "resp.Results" && a[1] == "sortSeries"
		})
		cq := c.Fn(R + "combineQueryResults")
		cq.Only("R7", p.Call(R+"FromQueryResult"), "decodes each result with the caller's sort request", func(l eng.Loc) bool {
			a := eng.CallArgsText(l)
			return len(a) == 2 && a[0] == "sortSeries" && (a[1] == "results[0]" || a[1] == "result")
		})
		// Seek's binary searches keep the first sample at or after t, on both cursors
		csk := c.Fn(R + "concreteSeriesIterator.Seek")
		if ps := csk.SearchPreds(); len(ps) == 2 && ps[0] == "-1*c.series.floats[n + c.floatsCur].Timestamp +1*t -1 < 0" && ps[1] == "-1*c.series.histograms[n + c.histogramsCur].Timestamp +1*t -1 < 0" {
			c.Pass("R7", csk.Where(), "Seek skips exactly the samples with timestamp < t on both cursors", "")
		} else {
			c.Fail("R7", csk.Where(), "Seek skips exactly the samples with timestamp < t on both cursors", p.Pos(csk.Body.Pos()), "sort.Search predicates: "+strings.Join(ps, " ; "))
		}
		// series-set cursor
		csn := c.Fn(R + "concreteSeriesSet.At")
		csn.Only("R7", eng.Return("return", func(g *eng.Graph, rs *ast.ReturnStmt) bool { return true }), "returns the series before the cursor", func(l eng.Loc) bool {
			return nodeText(l.Node) == "return c.series[c.cur-1]"
		})
	}
}
