package main

import (
	"go/ast"
	"strings"

	"promverif/eng"
)

func init() {
	register(&Property{
		ID:        "C37",
		Title:     "Scraping stores what was exposed, and staleness markers for what stopped being exposed",
		Technique: "go/cfg order, branch-arm and all-paths rules for the appender life cycle in scrapeAndReport / endOfRunStaleness; sibling obligations over the two near-copies scrapeLoopAppender.append / scrapeLoopAppenderV2.append (same obligations checked in both); enum exhaustiveness of the entry switch; def-use rules for the scrape body and the parsed timestamp",
		DesignRef: "DESIGN.md §5 C37",
		Level: "Decides that every scrape's appender is committed or rolled back exactly through the first-registered defer (so the report samples are part of the transaction), that a failed append is rolled back, replaced by a fresh appender and followed by an empty-body append (stale markers as for a failed scrape), " +
			"that the body handed to the appender is taken from the read buffer only after the read's error was tested, that a forced error and the end-of-run path emit stale markers the same way, " +
			"and that both append implementations honour the same obligations: empty body ⇒ stale markers and cache swap without flush; cache flush only on success; dropped-series cache consulted first; " +
			"a timestamp discarded by honor_timestamps=false is discarded before anything else looks at it; every staleness-tracking site depends on the absence of an explicit timestamp; limit errors are collected by checkAddError, reported after the loop with the sample limit first; stale markers for vanished series only if the body was ingested without error; every parser entry kind is handled.",
		Note:           "Trusted: go/packages, go/types, go/cfg; rule tables in checker/c37.go.  The two appenders legitimately differ in where they track staleness; the rule is must-depend-on, not same-guard.",
		Covers:         "scrapeLoop.scrapeAndReport, endOfRunStaleness, scrapeLoopAppender.append, scrapeLoopAppenderV2.append, updateStaleMarkers{,V2}.",
		NotCover:       "the scrape cache's bookkeeping values, report sample values, relabeling results, timing of end-of-run staleness.",
		Run:            runC37,
		MinObligations: 70,
	})
}

func runC37(c *eng.Ctx) {
	defer runC37Ref(c)
	p := c.P
	commit, rollback := eng.OnVar("app", "Commit"), eng.OnVar("app", "Rollback")
	appendAny := eng.OnVar("app", "append")
	emptyAppend := appendAny.WithArg(0, "[]byte{}", eng.ExprText("[]byte{}")).Named("app.append([]byte{}, …)")
	bodyAppend := appendAny.WithArg(0, "b", eng.ExprText("b")).Named("app.append(b, …)")
	newApp := eng.AssignVarVal("app", "sl.appender()", eng.ExprText("sl.appender()"))
	// ---- R1/R2/R3: appender life cycle in scrapeAndReport ----
	{
		f := c.Fn("scrape:scrapeLoop.scrapeAndReport")
		f.Has("R1", newApp, 4)
		// the commit/rollback defer: rollback iff err != nil, else commit
		cd := f.Closure("commitDefer", commit)
		cd.GivenBranch("err != nil", true).Unreachable("R1", commit)
		cd.Only("R1", rollback, "is under err != nil", func(l eng.Loc) bool { return cd.UnderCond(l, "err != nil") })
		cd.Has("R1", rollback, 1)
		cd.AllPaths("R1", rollback, eng.Return("", nil), eng.AnyExit) // … and returns without committing
		f.Has("R1", eng.Deferred(commit), 1)
		// every later appender replaces one that was rolled back first
		f.PassesBetween("R1", appendAny, rollback, newApp)
		f.Only("R1", rollback, "is directly followed by a fresh appender", func(l eng.Loc) bool {
			for _, n := range f.Find(newApp) {
				if n.Blk == l.Blk && n.Idx == l.Idx+1 {
					return true
				}
			}
			return false
		})
		// R2: the commit defer is registered before the report defer (runs after it), both before any return
		report := p.Call("scrape:scrapeLoop.report")
		f.DeferOrder("R2", commit, report)
		f.Dom("R2", eng.Deferred(report), eng.Return("", nil))
		f.Dom("R2", eng.Deferred(commit), appendAny)
		f.Only("R2", report.InClosures().Any(), "reports through the current appender `app`", func(l eng.Loc) bool { a := eng.CallArgsText(l); return len(a) > 0 && a[0] == "app" })
		// R3: a failed append of the body is rolled back and followed by an empty-body append
		fa := f.Given("appErr != nil", true)
		fa.AllPaths("R3", bodyAppend, emptyAppend, eng.AnyExit)
		fa.PassesBetween("R3", bodyAppend, rollback, emptyAppend)
		fa.PassesBetween("R3", bodyAppend, newApp, emptyAppend)
		f.Given("appErr != nil", false).NoPath("R3", bodyAppend, rollback)
		f.Only("R3", eng.AssignVar("appErr"), "is the result of app.append(b, …)", func(l eng.Loc) bool {
			if vs, isDecl := l.Node.(*ast.ValueSpec); isDecl {
				return len(vs.Values) == 0
			}
			as, ok := l.Node.(*ast.AssignStmt)
			return ok && len(as.Rhs) == 1 && f.Contains(as.Rhs[0], bodyAppend)
		})
		// a forced error emits stale markers and does not scrape
		ff := f.GivenBranch("forcedErr != nil", true)
		ff.DomOK("R3", emptyAppend)
		ff.Unreachable("R3", eng.CallNamed("scrape"))
		ff.Unreachable("R3", bodyAppend)
		// the scrape error decides: response read only after a successful request; the body is taken
		// from the buffer only after the read's error was tested; a failed scrape still appends (empty)
		scrape := p.MethodOn("scrape:scrapeLoop.scraper", "scrape")
		read := p.MethodOn("scrape:scrapeLoop.scraper", "readResponse")
		f.Gate("R3", scrape, read)
		takeBody := eng.AssignVarVal("b", "buf.Bytes()", eng.ExprText("buf.Bytes()"))
		f.PassesBetween("R3", read, eng.CondTest("scrapeErr == nil"), takeBody)
		f.Only("R3", takeBody, "is under scrapeErr == nil", func(l eng.Loc) bool { return f.UnderCond(l, "scrapeErr == nil") })
		f.Only("R3", eng.AssignVar("b"), "is the pooled buffer or the read body", func(l eng.Loc) bool {
			switch x := l.Node.(type) {
			case *ast.AssignStmt:
				t := eng.ExprString(x.Rhs[0])
				return t == "buf.Bytes()" || strings.HasPrefix(t, "sl.buffers.Get(")
			case *ast.ValueSpec:
				return len(x.Values) == 0
			}
			return false
		})
		f.GivenBranch("forcedErr != nil", false).DomOK("R3", bodyAppend)
		f.Only("R3", eng.AssignVarVal("scrapeErr", "appErr", eng.ExprText("appErr")), "only replaces a nil scrape error", func(l eng.Loc) bool { return f.UnderCond(l, "scrapeErr == nil") })
	}
	{
		// end-of-run staleness: same protocol
		f := c.Fn("scrape:scrapeLoop.endOfRunStaleness")
		f.Has("R3", eng.Deferred(commit), 1)
		cd := f.Closure("commitDefer", commit)
		cd.GivenBranch("err != nil", true).Unreachable("R3", commit)
		f.Dom("R3", emptyAppend, p.Call("scrape:scrapeLoop.reportStale"))
		f.PassesBetween("R3", appendAny, rollback, newApp)
		f.Dom("R3", eng.CondTest("sl.disabledEndOfRunStalenessMarkers.Load()"), emptyAppend)
	}
	// ---- R4 sibling obligations of the two append implementations ----
	entry := "model/textparse:Entry"
	for _, s := range []struct{ fn, stale, field string }{
		{"scrape:scrapeLoopAppender.append", "scrape:scrapeLoop.updateStaleMarkers", "scrape:scrapeLoopAppender.Appender"},
		{"scrape:scrapeLoopAppenderV2.append", "scrape:scrapeLoop.updateStaleMarkersV2", "scrape:scrapeLoopAppenderV2.AppenderV2"},
	} {
		f := c.Fn(s.fn)
		iterDone := p.MethodOn("scrape:scrapeLoop.cache", "iterDone")
		staleCall := p.Call(s.stale)
		// empty body: stale markers, swap without flush, nothing parsed
		fe := f.GivenBranch("len(b) == 0", true)
		fe.DomOK("R4", staleCall)
		fe.DomOK("R4", iterDone.WithArg(0, "false", eng.IsIdent("false")))
		fe.Unreachable("R4", p.Call("model/textparse:New"))
		f.Only("R4", iterDone, "is iterDone(false) on the empty-body path", func(l eng.Loc) bool {
			a := eng.CallArgsText(l)
			return len(a) == 1 && a[0] == "false" && f.UnderCond(l, "len(b) == 0")
		})
		// non-empty body: flush only on success (deferred, guarded by err)
		fn := f.GivenBranch("len(b) == 0", false)
		f.Has("R4", eng.Deferred(iterDone.WithArg(0, "true", eng.IsIdent("true"))), 1)
		dc := f.Closure("iterDoneDefer", iterDone)
		dc.GivenBranch("err != nil", true).Unreachable("R4", iterDone)
		f.Dom("R4", eng.Deferred(iterDone), eng.CallNamed("Next"))
		// stale markers for vanished series only when the body went in without error
		f.Only("R4", staleCall, "is on the empty-body path or under err == nil", func(l eng.Loc) bool { return f.UnderCond(l, "len(b) == 0") || f.UnderCond(l, "err == nil") })
		f.Has("R4", staleCall, 2)
		// the dropped-series cache is consulted before the series cache; a relabel-dropped series is remembered
		f.Dom("R4", p.Call("scrape:scrapeCache.getDropped"), p.Call("scrape:scrapeCache.get"))
		f.Only("R4", p.Call("scrape:scrapeCache.addDropped"), "is under lset.IsEmpty()", func(l eng.Loc) bool { return f.UnderCond(l, "lset.IsEmpty()") })
		f.Has("R4", p.Call("scrape:scrapeCache.addDropped"), 1)
		// honor_timestamps=false: the parsed timestamp is discarded before anything reads it
		fh := f.GivenBranch("sl.honorTimestamps", false)
		drop := eng.AssignVarVal("parsedTimestamp", "nil", eng.IsIdent("nil"))
		fh.Dom("R4", drop, eng.ReadVar("parsedTimestamp"))
		f.Only("R4", eng.AssignVarVal("t", "*parsedTimestamp", eng.ExprText("*parsedTimestamp")), "is under parsedTimestamp != nil", func(l eng.Loc) bool { return f.UnderCond(l, "parsedTimestamp != nil") })
		// a series seen twice in one body without explicit timestamps is a duplicate
		f.Only("R4", eng.AssignVarVal("err", "ErrDuplicateSampleForTimestamp", eng.ExprText("storage.ErrDuplicateSampleForTimestamp")), "is under seriesAlreadyScraped && parsedTimestamp == nil",
			func(l eng.Loc) bool { return f.UnderCond(l, "seriesAlreadyScraped && parsedTimestamp == nil") })
		// staleness tracking depends on the absence of an explicit timestamp at every site
		track := p.Call("scrape:scrapeCache.trackStaleness")
		f.Has("R4", track, 2)
		f.Only("R4", track, "depends on parsedTimestamp == nil (directly or through shouldTrackStaleness)", func(l eng.Loc) bool {
			if f.UnderCond(l, "parsedTimestamp == nil") {
				return true
			}
			if !f.UnderCond(l, "shouldTrackStaleness") {
				return false
			}
			ok := false
			for _, d := range f.Find(eng.AssignVar("shouldTrackStaleness")) {
				if as, isAs := d.Node.(*ast.AssignStmt); isAs && strings.Contains(eng.ExprString(as.Rhs[0]), "parsedTimestamp == nil") {
					ok = true
				}
			}
			return ok
		})
		f.Only("R4", track, "requires a cache entry with a storage reference", func(l eng.Loc) bool { return f.UnderCond(l, "ce != nil", "ce.ref != 0") })
		// one tracking site must be reachable for a series new to the cache (after addRef) and one for a cached one
		addRef := p.Call("scrape:scrapeCache.addRef")
		f.PathExists("R4", &addRef, track)
		f.Only("R4", addRef, "is under !seriesCached && sampleAdded", func(l eng.Loc) bool { return f.UnderCond(l, "!seriesCached && sampleAdded") })
		f.PathExists("R4", nil, track, addRef)
		// errors of the append go through checkAddError with both limit out-parameters; its error ends the loop
		chk := p.Call("scrape:scrapeLoop.checkAddError")
		f.Only("R4", chk, "passes &sampleLimitErr and &bucketLimitErr", func(l eng.Loc) bool {
			t := strings.Join(eng.CallArgsText(l), ",")
			return strings.Contains(t, "&sampleLimitErr") && strings.Contains(t, "&bucketLimitErr")
		})
		f.Dom("R4", chk, addRef)
		f.AllPaths("R4", eng.CallNamed("Append"), chk, eng.AnyExit)
		// after the loop: limit errors are returned, the sample limit first
		se := eng.AssignVarVal("err", "sampleLimitErr", eng.ExprText("sampleLimitErr"))
		be := eng.AssignVarVal("err", "bucketLimitErr", eng.ExprText("bucketLimitErr"))
		f.Dom("R4", eng.CondTest("sampleLimitErr != nil"), eng.CondTest("bucketLimitErr != nil"))
		f.Has("R4", se, 1)
		f.Has("R4", be, 1)
		for _, m := range []eng.Matcher{se, be} {
			f.Only("R4", m, "only replaces a nil error", func(l eng.Loc) bool { return f.UnderCond(l, "err == nil") })
		}
		fn.Dom("R4", eng.CondTest("sampleLimitErr != nil"), staleCall)
		fn.Dom("R4", eng.CondTest("bucketLimitErr != nil"), staleCall)
		// label problems fail the scrape
		for _, cond := range []string{"!lset.Has(model.MetricNameLabel)", "!lset.IsValid(sl.validationScheme)"} {
			cond := cond
			setErr := eng.Node("err = … under "+cond, func(g *eng.Graph, n ast.Node) bool {
				as, ok := n.(*ast.AssignStmt)
				return ok && len(as.Lhs) == 1 && eng.ExprString(as.Lhs[0]) == "err"
			})
			var arm []eng.Loc
			for _, l := range f.Find(setErr) {
				if f.UnderCond(l, cond) {
					arm = append(arm, l)
				}
			}
			c.Check("R4", f.Where(), "an error is set under "+cond, len(arm) == 1, p.Pos(f.Body.Pos()), "no `err = …` in the arm of "+cond)
			if len(arm) == 1 {
				at := arm[0]
				f.NoPath("R4", eng.Node("err = … under "+cond, func(g *eng.Graph, n ast.Node) bool { return n == at.Node }), eng.CallNamed("Append"))
			}
		}
		f.GivenBranch("seriesCached", false).Dom("R4", p.Call("scrape:verifyLabelLimits"), eng.CallNamed("Append"))
		f.FailStops("R4", p.Call("scrape:verifyLabelLimits"), eng.CallNamed("Append"))
		// every parser entry kind is handled
		f.SwitchCovers("R4", entry, 1, map[string]string{"EntrySeries": "handled by the default arm (float series)", "EntryInvalid": "never returned with a nil error"})
		// the limit-enforcing wrapper is what samples are appended through
		f.Only("R4", eng.AssignVar("app"), "is the appender with limits", func(l eng.Loc) bool {
			as, ok := l.Node.(*ast.AssignStmt)
			return ok && strings.HasPrefix(eng.ExprString(as.Rhs[0]), "appender") && strings.Contains(eng.ExprString(as.Rhs[0]), "WithLimits(")
		})
	}
	for _, fn := range []string{"scrape:scrapeLoop.updateStaleMarkers", "scrape:scrapeLoop.updateStaleMarkersV2"} {
		f := c.Fn(fn)
		f.DomOK("R4", p.Call("scrape:scrapeCache.forEachStale"))
		f.Has("R4", eng.CallNamed("Append").InClosures(), 1)
	}
}
