package main

import (
	"fmt"
	"go/ast"
	"go/types"
	"sort"
	"strings"

	"promverif/eng"
)

// traversalComplete: in function fnRef, a type switch over PromQL syntax-tree nodes, every case for a single
// struct type T must hand every field of T that holds a sub-expression (type parser.Expr or parser.Expressions)
// to `visit` — a call named visitName whose argument mentions n.<Field>, or a range over n.<Field>.  A field
// that is not visited is not pre-processed / not reported as a child: `@ start()` inside it is never resolved and
// its step-variance is not seen.
func traversalComplete(c *eng.Ctx, rule, fnRef string, visitNames ...string) int {
	p := c.P
	f := c.Fn(fnRef)
	exprT := p.Named("promql/parser:Expr")
	exprsT := p.Named("promql/parser:Expressions")
	n := 0
	ast.Inspect(f.Body, func(x ast.Node) bool {
		ts, ok := x.(*ast.TypeSwitchStmt)
		if !ok {
			return true
		}
		var bind string
		if as, ok := ts.Assign.(*ast.AssignStmt); ok && len(as.Lhs) == 1 {
			bind = eng.ExprString(as.Lhs[0])
		}
		if bind == "" {
			return true
		}
		for _, st := range ts.Body.List {
			cc := st.(*ast.CaseClause)
			if len(cc.List) != 1 {
				continue
			}
			t := f.Info.TypeOf(cc.List[0])
			if t == nil {
				continue
			}
			pt, ok := t.(*types.Pointer)
			if !ok {
				continue
			}
			named, ok := pt.Elem().(*types.Named)
			if !ok {
				continue
			}
			stt, ok := named.Underlying().(*types.Struct)
			if !ok {
				continue
			}
			body := nodeText(&ast.BlockStmt{List: cc.Body})
			var missing, fields []string
			for i := 0; i < stt.NumFields(); i++ {
				fld := stt.Field(i)
				if !types.Identical(fld.Type(), exprT) && !types.Identical(fld.Type(), exprsT) {
					continue
				}
				fields = append(fields, fld.Name())
				sel := bind + "." + fld.Name()
				visited := false
				for _, vn := range visitNames {
					// visit(n.F …), visit(&n.F), visit(n.F[i] …), or a loop over n.F whose body visits the element
					if strings.Contains(body, vn+"("+sel) || strings.Contains(body, vn+"(&"+sel) {
						visited = true
					}
				}
				if strings.Contains(body, "range "+sel) {
					visited = true
				}
				if !visited {
					missing = append(missing, fld.Name())
				}
			}
			if len(fields) == 0 {
				continue
			}
			n++
			sort.Strings(missing)
			c.Check(rule, f.Where(), fmt.Sprintf("the case for *%s visits every sub-expression field (%s)", named.Obj().Name(), strings.Join(fields, ", ")), len(missing) == 0, p.Pos(cc.Pos()),
				"not visited: "+strings.Join(missing, ", "))
		}
		return true
	})
	return n
}

func runC27Visit(c *eng.Ctx) {
	p := c.P
	defer runC27Scratch(c)
	// ---- R5 traversal completeness ----
	n := traversalComplete(c, "R5", "promql:preprocessExprHelper", "preprocessExprHelper")
	c.Check("R5", "promql:preprocessExprHelper", "cases with sub-expression fields examined (≥ 7)", n >= 7, "", fmt.Sprint(n))
	n = traversalComplete(c, "R5", "promql/parser:ChildrenIter", "yield")
	c.Check("R5", "promql/parser:ChildrenIter", "cases with sub-expression fields examined (≥ 8)", n >= 8, "", fmt.Sprint(n))
	n = traversalComplete(c, "R5", "promql/parser:parser.checkAST", "p.checkAST", "p.expectType", "p.checkAST(")
	c.Check("R5", "promql/parser:parser.checkAST", "cases with sub-expression fields examined (≥ 6)", n >= 6, "", fmt.Sprint(n))
	// ---- R6 state kept in the EvalNodeHelper across the steps of a range query ----
	// The classic-bucket cache keeps its entries from step to step with the bucket list truncated: an entry is
	// evidence of classic buckets at this step only if its list is non-empty.
	fld := "promql:EvalNodeHelper.signatureToMetricWithBuckets"
	nReaders := 0
	for _, o := range p.FindAll(p.FieldUse(fld)) {
		f := c.Fn(o.In)
		// find the statement that contains the use
		var stmt ast.Node
		ast.Inspect(f.Body, func(x ast.Node) bool {
			switch s := x.(type) {
			case *ast.RangeStmt:
				if s.X == o.Node || containsNode(s.X, o.Node) {
					stmt = s
				}
			case *ast.IfStmt:
				if s.Init != nil && containsNode(s.Init, o.Node) {
					stmt = s
				}
			}
			return true
		})
		switch s := stmt.(type) {
		case *ast.RangeStmt:
			if s.Value == nil {
				continue
			}
			v := eng.ExprString(s.Value)
			body := nodeText(s.Body)
			if strings.Contains(body, v+".buckets = "+v+".buckets[:0]") {
				continue // the per-step reset itself
			}
			nReaders++
			ok := len(s.Body.List) > 0
			if ok {
				is, isIf := s.Body.List[0].(*ast.IfStmt)
				ok = isIf && (nodeText(is.Cond) == "len("+v+".buckets) == 0" && strings.HasSuffix(nodeText(is.Body), "continue }") || nodeText(is.Cond) == "len("+v+".buckets) > 0" && len(s.Body.List) == 1)
			}
			c.Check("R6", f.Where(), "a loop over the classic-bucket cache skips the entries left empty by the per-step reset", ok, p.Pos(s.Pos()),
				"entries survive from earlier steps with their bucket list truncated; using one as if it held this step's buckets makes a range query differ from the instant query at that step")
		case *ast.IfStmt:
			as, ok := s.Init.(*ast.AssignStmt)
			if !ok || len(as.Lhs) != 2 {
				continue
			}
			nReaders++
			v := eng.ExprString(as.Lhs[0])
			cond := nodeText(s.Cond)
			good := v != "_" && strings.Contains(cond, eng.ExprString(as.Lhs[1])) && strings.Contains(cond, "&& len("+v+".buckets) > 0")
			c.Check("R6", f.Where(), "a lookup in the classic-bucket cache counts as a hit only if the entry has buckets at this step", good, p.Pos(s.Pos()), "condition: "+cond)
		}
	}
	c.Check("R6", "promql", "readers of the classic-bucket cache examined (≥ 4)", nReaders >= 4, "", fmt.Sprint(nReaders))
}

func containsNode(root, target ast.Node) bool {
	found := false
	ast.Inspect(root, func(x ast.Node) bool {
		if x == target {
			found = true
		}
		return !found
	})
	return found
}

// C27.R7: scratch state of the EvalNodeHelper that is only meaningful within one step is reached through the
// helper that resets it, so nothing computed at an earlier step leaks into this one.
func runC27Scratch(c *eng.Ctx) {
	p := c.P
	H := "promql:EvalNodeHelper."
	for fld, helper := range map[string]string{
		"rightSigs": "resetRightSigs", "sigsPresent": "resetSigsPresent", "matchedSigs": "resetMatchedSigs", "matchedSigsPresent": "resetMatchedSigsPresent",
	} {
		var outside []string
		n := 0
		for _, o := range p.FindAll(p.FieldUse(H + fld)) {
			n++
			if eng.Short(o.In) != "EvalNodeHelper."+helper {
				outside = append(outside, o.In+" at "+p.Pos(o.Node.Pos()))
			}
		}
		for _, o := range p.FindAll(p.Store(H + fld)) {
			if eng.Short(o.In) != "EvalNodeHelper."+helper {
				outside = append(outside, o.In+" at "+p.Pos(o.Node.Pos()))
			}
		}
		c.Check("R7", H+fld, "is touched only inside "+helper+", which clears it for the step", len(outside) == 0 && n >= 2, "", strings.Join(outside, "; "))
	}
	// the shared label builder: every function that builds labels with enh.lb resets it first
	nFn := 0
	seen := map[string]bool{}
	for _, o := range p.FindAll(p.FieldUse(H + "lb")) {
		if seen[o.In] || eng.Short(o.In) == "EvalNodeHelper.resetBuilder" {
			continue
		}
		seen[o.In] = true
		nFn++
		f := c.Fn(o.In)
		use := eng.Node("use of enh.lb", func(g *eng.Graph, n ast.Node) bool {
			call, ok := n.(*ast.CallExpr)
			if !ok {
				return false
			}
			se, ok := call.Fun.(*ast.SelectorExpr)
			return ok && nodeText(se.X) == "enh.lb"
		})
		f.Dom("R7", p.Call(H+"resetBuilder"), use)
	}
	c.Check("R7", "promql", "functions building labels with the shared builder (≥ 3)", nFn >= 3, "", fmt.Sprint(nFn))
}
