package main

import (
	"go/ast"
	"strings"

	"promverif/eng"
)

func init() {
	register(&Property{
		ID:        "C09",
		Title:     "Retention removes only whole expired blocks, oldest first",
		Technique: "AST/CFG rules for the sort that precedes both retention passes (comparator key = MaxTime, descending) and for the 'this block and everything after it' suffix loops; module-internal no-reach rule from the retention code to head truncation and WAL truncation; go/cfg order rules for reloadBlocks (parents of loaded blocks become deletable, blocks are swapped out before they are deleted)",
		DesignRef: "DESIGN.md §5 C09",
		Level: "Decides that deletableBlocks sorts the blocks newest-first by their maximum time before either retention pass looks at them, that both passes mark a block only as part of a suffix blocks[i:] of that order (so no block newer than a retained one is marked), that the size pass starts its sum from the head's on-disk size, " +
			"that retention code cannot reach head truncation, head garbage collection or WAL truncation, that reloadBlocks marks every parent of every loadable block deletable (also when the parent no longer loads), never loads a deletable block, swaps the block list before deleting anything, and hands to the retention computation only the opened blocks that no other opened block has replaced.",
		Note:           "Trusted: go/packages, go/types, go/cfg, module-internal call graph; rule tables in checker/c09.go.",
		Covers:         "deletableBlocks, BeyondTimeRetention, BeyondSizeRetention, DB.blocksToDelete wiring, DB.reloadBlocks, DB.deleteBlocks.",
		NotCover:       "the threshold arithmetic (time difference, cumulative size, percentage), equality ties.",
		Run:            runC09,
		MinObligations: 25,
	})
}

func runC09(c *eng.Ctx) {
	defer runC09Retain(c)
	p := c.P
	// ---- R1 order and suffix shape ----
	{
		f := c.Fn("tsdb:deletableBlocks")
		sortCall := p.Call("slices:SortFunc")
		bt, bs := p.Call("tsdb:BeyondTimeRetention"), p.Call("tsdb:BeyondSizeRetention")
		f.Dom("R1", sortCall, bt)
		f.Dom("R1", sortCall, bs)
		f.Only("R1", sortCall, "sorts the slice that both passes receive", func(l eng.Loc) bool { a := eng.CallArgsText(l); return len(a) == 2 && a[0] == "blocks" })
		for _, m := range []eng.Matcher{bt, bs} {
			f.Only("R1", m, "receives the sorted slice", func(l eng.Loc) bool { a := eng.CallArgsText(l); return len(a) == 2 && a[1] == "blocks" })
			f.DomOK("R1", m)
		}
		// comparator: compares Meta().MaxTime of both, newest first, nothing else
		cmp := f.Closure("cmp", eng.Return("-1", func(g *eng.Graph, rs *ast.ReturnStmt) bool { return len(rs.Results) == 1 }))
		keys := map[string]bool{}
		ast.Inspect(cmp.Body, func(x ast.Node) bool {
			if se, ok := x.(*ast.SelectorExpr); ok {
				if call, ok := se.X.(*ast.CallExpr); ok && strings.HasSuffix(eng.ExprString(call.Fun), ".Meta") {
					keys[se.Sel.Name] = true
				}
			}
			return true
		})
		c.Check("R1", cmp.Where(), "the comparator's only key is Meta().MaxTime", len(keys) == 1 && keys["MaxTime"], p.Pos(cmp.Body.Pos()), "keys used: "+strings.Join(eng.SortedKeys(keys), ","))
		cmp.AstEvery("R1", "case returning -1 (a sorts first)", func(n ast.Node) bool {
			cc, ok := n.(*ast.CaseClause)
			return ok && len(cc.Body) == 1 && nodeText(cc.Body[0]) == "return -1"
		}, "is the case where a's max time is the larger one", func(n ast.Node) bool {
			t := eng.ExprString(n.(*ast.CaseClause).List[0])
			return t == "b.Meta().MaxTime < a.Meta().MaxTime" || t == "a.Meta().MaxTime > b.Meta().MaxTime"
		}, 1)
		// deletable-by-compaction blocks are collected from the same slice
		f.Has("R1", p.FieldUse("tsdb:BlockMetaCompaction.Deletable"), 1)
	}
	for _, fn := range []string{"tsdb:BeyondTimeRetention", "tsdb:BeyondSizeRetention"} {
		f := c.Fn(fn)
		mark := eng.Node("deletable[…] = struct{}{}", func(g *eng.Graph, n ast.Node) bool {
			as, ok := n.(*ast.AssignStmt)
			if !ok || len(as.Lhs) != 1 {
				return false
			}
			ix, ok := as.Lhs[0].(*ast.IndexExpr)
			return ok && eng.ExprString(ix.X) == "deletable"
		})
		f.Has("R1", mark, 1)
		f.AstEvery("R1", "loop marking blocks deletable", f.RangeLoopWith(mark), "is either the scan `range blocks` or the suffix `range blocks[i:]` of it", func(n ast.Node) bool {
			t := eng.ExprString(n.(*ast.RangeStmt).X)
			return t == "blocks" || t == "blocks[i:]"
		}, 2)
		f.AstEvery("R1", "innermost loop marking blocks deletable", func(n ast.Node) bool {
			rs, ok := n.(*ast.RangeStmt)
			if !ok || !f.Contains(rs.Body, mark) {
				return false
			}
			inner := false
			ast.Inspect(rs.Body, func(x ast.Node) bool {
				if _, isR := x.(*ast.RangeStmt); isR {
					inner = true
				}
				return true
			})
			return !inner
		}, "ranges over the suffix blocks[i:] and marks its own element", func(n ast.Node) bool {
			rs := n.(*ast.RangeStmt)
			if eng.ExprString(rs.X) != "blocks[i:]" || rs.Value == nil {
				return false
			}
			return strings.Contains(nodeText(rs.Body), "deletable["+eng.ExprString(rs.Value)+".meta.ULID]")
		}, 1)
		// the index i of the suffix is the index of the scan over the same slice
		f.AstEvery("R1", "scan loop", func(n ast.Node) bool {
			rs, ok := n.(*ast.RangeStmt)
			return ok && eng.ExprString(rs.X) == "blocks"
		}, "binds i as its index and stops after the first suffix", func(n ast.Node) bool {
			rs := n.(*ast.RangeStmt)
			return rs.Key != nil && eng.ExprString(rs.Key) == "i" && strings.Contains(nodeText(rs.Body), "break")
		}, 1)
	}
	c.Fn("tsdb:BeyondSizeRetention").Only("R1", eng.AssignVar("blocksSize"), "starts from the head's size and adds each block's size", func(l eng.Loc) bool {
		as, ok := l.Node.(*ast.AssignStmt)
		if !ok {
			return false
		}
		t := eng.ExprString(as.Rhs[0])
		return t == "db.Head().Size()" || (as.Tok.String() == "+=" && t == "block.Size()")
	})
	// what "the head's size" is: WAL, out-of-order WAL and head chunk files, each counted whenever it exists
	{
		hs := c.Fn("tsdb:Head.Size")
		for _, s := range []struct{ field, cond string }{{"wal", "h.wal != nil"}, {"wbl", "h.wbl != nil"}} {
			s := s
			m := p.MethodOn("tsdb:Head."+s.field, "Size")
			hs.Has("R1", m, 1)
			hs.Only("R1", m, "is skipped only when there is no such log (`"+s.cond+"`)", func(l eng.Loc) bool {
				for _, e := range hs.CondExprs() {
					t := eng.ExprString(e)
					if strings.Contains(t, "h."+s.field) && t != s.cond {
						return false
					}
				}
				return hs.UnderCond(l, s.cond)
			})
		}
		hs.DomOK("R1", p.MethodOn("tsdb:Head.chunkDiskMapper", "Size"))
		hs.Only("R1", eng.Return("", nil), "returns the sum of the three sizes", func(l eng.Loc) bool {
			lf, ok := eng.Linear(hs.Info, l.Node.(*ast.ReturnStmt).Results[0])
			return ok && lf.String() == "+1*cdmSize +1*walSize +1*wblSize"
		})
	}
	c.Fn("tsdb:BeyondTimeRetention").AstEvery("R1", "retention test", func(n ast.Node) bool {
		is, ok := n.(*ast.IfStmt)
		return ok && strings.Contains(eng.ExprString(is.Cond), "retentionDuration") && strings.Contains(eng.ExprString(is.Cond), "MaxTime")
	}, "compares the newest block's max time with this block's max time", func(n ast.Node) bool {
		t := eng.ExprString(n.(*ast.IfStmt).Cond)
		return strings.Contains(t, "blocks[0].Meta().MaxTime") && strings.Contains(t, "block.Meta().MaxTime") && !strings.Contains(t, "MinTime")
	}, 1)
	// ---- R2 retention never touches head data ----
	for _, from := range []string{"tsdb:deletableBlocks", "tsdb:DB.deleteBlocks"} {
		c.NoReach("R2", from, []string{"tsdb:Head.truncateMemory", "tsdb:Head.Truncate", "tsdb:Head.gc", "tsdb:Head.truncateWAL", "tsdb/wlog:WL.Truncate", "tsdb/chunks:ChunkDiskMapper.Truncate"})
	}
	c.CallersSubset("R2", "tsdb:deletableBlocks", 1, "tsdb:DefaultBlocksToDelete")
	// ---- R3 superseded parents; swap before delete ----
	{
		f := c.Fn("tsdb:DB.reloadBlocks")
		parent := eng.Node("deletable[b.ULID] = nil", func(g *eng.Graph, n ast.Node) bool {
			return nodeText(n) == "deletable[b.ULID] = nil"
		})
		f.Has("R3", parent, 1)
		f.AstEvery("R3", "loop marking parents deletable", f.RangeLoopWith(parent), "ranges over loadable, then over each block's Compaction.Parents, unconditionally", func(n ast.Node) bool {
			t := eng.ExprString(n.(*ast.RangeStmt).X)
			return t == "loadable" || t == "block.Meta().Compaction.Parents"
		}, 2)
		f.Only("R3", parent, "is not conditional on anything but the loops", func(l eng.Loc) bool { return !f.UnderAnyArm(l, "ok") })
		// a deletable block is never loaded
		load := eng.Node("toLoad = append(toLoad, block)", func(g *eng.Graph, n ast.Node) bool { return nodeText(n) == "toLoad = append(toLoad, block)" })
		f.Has("R3", load, 1)
		f.Only("R3", load, "is skipped for blocks in `deletable`", func(l eng.Loc) bool { return f.UnderCondFalse(l, "ok") })
		f.Dom("R3", eng.LoopOver(parent), eng.LoopOver(load))
		// swap first, delete after, under the lock
		swap := p.StoreVal("tsdb:DB.blocks", "toLoad", eng.IsIdent("toLoad"))
		f.Between("R3", p.MethodOn("tsdb:DB.mtx", "Lock"), swap, p.MethodOn("tsdb:DB.mtx", "Unlock"))
		f.Dom("R3", swap, p.Call("tsdb:DB.deleteBlocks"))
		f.ErrPropagates("R3", p.Call("tsdb:DB.deleteBlocks"), 1)
		f.Only("R3", p.Call("tsdb:DB.deleteBlocks"), "deletes exactly the deletable set", func(l eng.Loc) bool { a := eng.CallArgsText(l); return len(a) == 1 && a[0] == "deletable" })
		f.Only("R3", eng.Node("db.blocksToDelete(…)", func(g *eng.Graph, n ast.Node) bool {
			call, ok := n.(*ast.CallExpr)
			return ok && eng.ExprIsField(g.Info, call.Fun, p.Field("tsdb:DB.blocksToDelete"))
		}), "decides over one list of blocks (which list: R5)", func(l eng.Loc) bool { return len(eng.CallArgsText(l)) == 1 })
		c.WritersSubset("R3", "tsdb:DB.blocksToDelete", 2, "tsdb:open")
	}
}
