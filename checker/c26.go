package main

import (
	"fmt"
	"go/ast"
	"go/constant"
	"go/token"
	"go/types"
	"sort"
	"strings"

	"promverif/eng"
)

func init() {
	register(&Property{
		ID:             "C26",
		Title:          "PromQL expressions print and re-parse to the same tree",
		Technique:      "field-set agreement (engine E9) between the parser side (which fields of each AST node the grammar actions and constructors write) and the printer side (which fields String/Pretty and their helpers read), minus a frozen table of derived fields; sibling rule for the modifier fields a range selector prints itself and must blank on the inner selector's copy; enum tables for item types and node kinds; entry-point rule for the panic-to-error recovery",
		DesignRef:      "DESIGN.md §5 C26",
		Level:          "Decides that every field of an AST node that parsing can set is consulted by the printer (or is in the declared table of derived / positional fields), that the range selector blanks on its copy of the inner selector exactly the modifier fields it prints itself, that every operator/aggregator/keyword item type has a spelling, that every concrete node type is handled by the child iterator and the pretty printer, and that every parse entry point converts parser panics into errors.",
		Note:           "Trusted: go/packages, go/types; rule tables in checker/c26.go.",
		Covers:         "promql/parser: ast.go node structs, generated_parser.y.go / parse.go writers, printer.go / prettier.go readers, MatrixSelector.String vs atOffset, ItemTypeStr/key tables, ChildrenIter, Prettify, ParseExpr/ParseMetric/ParseMetricSelector/ParseSeriesDesc recovery.",
		NotCover:       "that the printed text re-parses to an equal tree (operator precedence, quoting, number formatting), totality of the parser.",
		Run:            runC26,
		MinObligations: 40,
	})
}

func runC26(c *eng.Ctx) {
	p := c.P
	pk := p.Pkg("promql/parser")
	ix := p.Index()
	fileOf := func(n ast.Node) string {
		f := p.Fset.Position(n.Pos()).Filename
		return f[strings.LastIndex(f, "/")+1:]
	}
	printerFiles := map[string]bool{"printer.go": true, "prettier.go": true}
	parserFiles := map[string]bool{"generated_parser.y.go": true, "parse.go": true}
	// derived / non-syntactic fields: not part of the printed form by design
	derived := map[string]string{
		"PosRange": "position in the input", "Offset": "computed from OriginalOffset at preparation time", "UnexpandedSeriesSet": "evaluation state", "Series": "evaluation state",
		"SkipHistogramBuckets": "set by the engine's preprocessing", "BypassEmptyMatcherCheck": "set for info()'s second argument, not syntax", "EndPos": "position", "StartPos": "position",
		"Func": "printed through Func.Name", "ReturnBool": "", "Wrapped": "duration-expression evaluation aid", "Val": "", "LHS": "", "RHS": "", "Op": "",
		"OpPos": "position", "LBrace": "position", "RBrace": "position", "StartOrEnd": "", "Timestamp": "", "Start": "evaluation range of EvalStmt, not an expression", "End": "evaluation range of EvalStmt", "Interval": "evaluation range of EvalStmt", "LookbackDelta": "EvalStmt option",
	}
	// ---- R1 every field the parser sets is read by the printer ----
	scope := pk.Types.Scope()
	nodeIface := p.Named("promql/parser:Node").Underlying().(*types.Interface)
	var structs []*types.Named
	for _, name := range scope.Names() {
		tn, ok := scope.Lookup(name).(*types.TypeName)
		if !ok {
			continue
		}
		n, ok := types.Unalias(tn.Type()).(*types.Named)
		if !ok {
			continue
		}
		if _, isStruct := n.Underlying().(*types.Struct); !isStruct {
			continue
		}
		if name == "Item" {
			continue // lexer token (implements Node for error positions), not part of the expression tree
		}
		if types.Implements(types.NewPointer(n), nodeIface) || name == "VectorMatching" {
			structs = append(structs, n)
		}
	}
	nChecked := 0
	for _, n := range structs {
		st := n.Underlying().(*types.Struct)
		for i := 0; i < st.NumFields(); i++ {
			fld := st.Field(i)
			if fld.Embedded() {
				continue
			}
			written := false
			for _, s := range ix.FieldSites(fld, eng.WriteKinds...) {
				if parserFiles[fileOf(s.Node)] {
					written = true
				}
			}
			if !written {
				continue
			}
			if reason, ok := derived[fld.Name()]; ok && reason != "" {
				continue
			}
			nChecked++
			read := false
			for _, s := range ix.FieldSites(fld, "read") {
				if printerFiles[fileOf(s.Node)] {
					read = true
				}
			}
			c.Check("R1", "promql/parser:"+n.Obj().Name()+"."+fld.Name(), "set by the parser ⇒ read by the printer", read, p.Pos(fld.Pos()),
				"the parser writes "+n.Obj().Name()+"."+fld.Name()+" but neither printer.go nor prettier.go reads it: the printed expression cannot carry it")
		}
	}
	c.Check("R1", "promql/parser", "node fields examined (≥25)", nChecked >= 25, "", fmt.Sprint(nChecked))
	// ---- R2 the range selector blanks what it prints itself ----
	{
		ms := c.Fn("promql/parser:MatrixSelector.String")
		at := c.Fn("promql/parser:MatrixSelector.atOffset")
		vs := p.Named("promql/parser:VectorSelector").Underlying().(*types.Struct)
		readBy := func(f *eng.Fn) map[string]bool {
			m := map[string]bool{}
			ast.Inspect(f.Body, func(x ast.Node) bool {
				se, ok := x.(*ast.SelectorExpr)
				if !ok || eng.ExprString(se.X) != "vecSelector" {
					return true
				}
				for i := 0; i < vs.NumFields(); i++ {
					if vs.Field(i).Name() == se.Sel.Name {
						m[se.Sel.Name] = true
					}
				}
				return true
			})
			return m
		}
		need := readBy(at)
		// attribute fields captured into locals before the reset
		for _, l := range ms.Find(eng.Node("capture", func(g *eng.Graph, n ast.Node) bool {
			as, ok := n.(*ast.AssignStmt)
			return ok && as.Tok.String() == ":=" && strings.Contains(nodeText(as), "vecSelector.") && !strings.Contains(nodeText(as), "node.VectorSelector")
		})) {
			for _, r := range l.Node.(*ast.AssignStmt).Rhs {
				if se, ok := r.(*ast.SelectorExpr); ok && eng.ExprString(se.X) == "vecSelector" {
					need[se.Sel.Name] = true
				}
			}
		}
		reset := map[string]bool{}
		for _, l := range ms.Find(eng.Node("vecSelector.f = zero", func(g *eng.Graph, n ast.Node) bool {
			as, ok := n.(*ast.AssignStmt)
			return ok && as.Tok.String() == "="
		})) {
			as := l.Node.(*ast.AssignStmt)
			for i, lh := range as.Lhs {
				se, ok := lh.(*ast.SelectorExpr)
				if !ok || eng.ExprString(se.X) != "vecSelector" || i >= len(as.Rhs) {
					continue
				}
				switch eng.ExprString(as.Rhs[i]) {
				case "0", "nil", "false":
					reset[se.Sel.Name] = true
				}
			}
		}
		var missing []string
		for f := range need {
			if !reset[f] {
				missing = append(missing, f)
			}
		}
		sort.Strings(missing)
		c.Check("R2", ms.Where(), "every modifier field the range selector prints itself (offset, @, anchored/smoothed) is blanked on the inner selector's copy", len(missing) == 0 && len(need) >= 6, p.Pos(ms.Body.Pos()),
			fmt.Sprintf("printed by the range selector: %v; blanked on the copy: %v; not blanked (would be printed twice): %v", eng.SortedKeys(need), eng.SortedKeys(reset), missing))
		ms.Only("R2", eng.AssignVar("vecSelector"), "is a copy of the inner selector (the AST is not modified)", func(l eng.Loc) bool {
			as, ok := l.Node.(*ast.AssignStmt)
			return ok && strings.HasPrefix(eng.ExprString(as.Rhs[0]), "*node.VectorSelector.(")
		})
	}
	// ---- R3 tables ----
	{
		keys, _ := p.MapLitKeys("promql/parser:ItemTypeStr")
		have := map[string]bool{}
		for _, k := range keys {
			have[k] = true
		}
		kkeys, _ := p.MapLitKeys("promql/parser:key")
		kvals := map[string]bool{}
		_ = kkeys
		// values of `key` (keyword → item type) are constants too
		for _, pkf := range pk.Syntax {
			ast.Inspect(pkf, func(x ast.Node) bool {
				vs, ok := x.(*ast.ValueSpec)
				if !ok || len(vs.Names) != 1 || vs.Names[0].Name != "key" || len(vs.Values) != 1 {
					return true
				}
				if cl, ok := vs.Values[0].(*ast.CompositeLit); ok {
					for _, el := range cl.Elts {
						if kv, ok := el.(*ast.KeyValueExpr); ok {
							kvals[eng.ExprString(kv.Value)] = true
						}
					}
				}
				return true
			})
		}
		// the item types are untyped constants of the generated parser: select by value range
		val := func(name string) int64 {
			k, ok := scope.Lookup(name).(*types.Const)
			if !ok {
				return -1
			}
			v, _ := constant.Int64Val(k.Val())
			return v
		}
		ranges := [][2]int64{{val("operatorsStart"), val("operatorsEnd")}, {val("aggregatorsStart"), val("aggregatorsEnd")}, {val("keywordsStart"), val("keywordsEnd")}, {val("preprocessorStart"), val("preprocessorEnd")}}
		var missing []string
		n := 0
		for _, name := range scope.Names() {
			k, ok := scope.Lookup(name).(*types.Const)
			if !ok || k.Val().Kind() != constant.Int {
				continue
			}
			v, _ := constant.Int64Val(k.Val())
			for _, r := range ranges {
				if r[0] > 0 && v > r[0] && v < r[1] {
					n++
					if !have[name] && !kvals[name] {
						missing = append(missing, name)
					}
				}
			}
		}
		c.Check("R3", "promql/parser:ItemTypeStr/key", "every operator, aggregator, keyword and preprocessor item type has a spelling", len(missing) == 0 && n >= 40, "", fmt.Sprintf("%d item types in the ranges; without spelling: %v", n, missing))
	}
	{
		// every concrete Node type appears in ChildrenIter's and Prettify-side type switches
		var nodeTypes []string
		for _, n := range structs {
			if n.Obj().Name() != "VectorMatching" && types.Implements(types.NewPointer(n), nodeIface) {
				nodeTypes = append(nodeTypes, "*"+n.Obj().Name())
			}
		}
		caseTypes := func(f *eng.Fn) map[string]bool {
			m := map[string]bool{}
			ast.Inspect(f.Body, func(x ast.Node) bool {
				if ts, ok := x.(*ast.TypeSwitchStmt); ok {
					for _, cl := range ts.Body.List {
						for _, e := range cl.(*ast.CaseClause).List {
							m[eng.ExprString(e)] = true
						}
					}
				}
				return true
			})
			return m
		}
		ci := c.Fn("promql/parser:ChildrenIter")
		got := caseTypes(ci)
		var missing []string
		leaf := map[string]string{"*DurationExpr": "never a child: only held in typed modifier fields", "*TestStmt": "not a struct"}
		for _, t := range nodeTypes {
			if !got[t] {
				if _, ok := leaf[t]; !ok {
					missing = append(missing, t)
				}
			}
		}
		c.Check("R3", ci.Where(), "every concrete node type has a case in ChildrenIter", len(missing) == 0 && len(nodeTypes) >= 12, p.Pos(ci.Body.Pos()), fmt.Sprintf("node types %v; missing %v", nodeTypes, missing))
	}
	// ---- R4 parser panics become errors at every entry point ----
	// every function that drives the generated parser registers the recovery first
	gen := p.Call("promql/parser:parser.parseGenerated")
	rec := p.Call("promql/parser:parser.recover")
	n := 0
	for _, s := range ix.CallersOf(p.Func("promql/parser:parser.parseGenerated")) {
		if s.In == nil {
			continue
		}
		n++
		f := c.FnOfSrc(p.SrcOf(s.In))
		f.Dom("R4", eng.Deferred(rec), gen)
		f.Only("R4", eng.Deferred(rec), "recovers into the function's named error result", func(l eng.Loc) bool {
			return strings.Contains(nodeText(l.Node), ".recover(&err)")
		})
	}
	c.Check("R4", "promql/parser", "entry points driving the generated parser (≥4)", n >= 4, "", fmt.Sprint(n))
	// ---- R5 the @ timestamp (milliseconds, may be negative) is printed sign-safely ----
	// Go's integer / and % truncate toward zero, so splitting a negative value into seconds and
	// milliseconds with them prints e.g. -1500 as "-1.-500", which parses as a different expression.
	// Accepted: a floating-point division; an integer split only in a function that tests the sign.
	sites := 0
	for _, fnRef := range []string{"promql/parser:MatrixSelector.atOffset", "promql/parser:SubqueryExpr.getSubqueryTimeSuffix", "promql/parser:VectorSelector.String"} {
		f := c.Fn(fnRef)
		// the expressions that mention the timestamp value, plus the bodies of package functions it is handed to
		type scanItem struct {
			n    ast.Node
			info *types.Info
		}
		var scan []scanItem
		var helpers []string
		ast.Inspect(f.Body, func(x ast.Node) bool {
			call, ok := x.(*ast.CallExpr)
			if !ok {
				return true
			}
			mentions := false
			for _, a := range call.Args {
				if strings.Contains(nodeText(a), ".Timestamp") {
					mentions = true
				}
			}
			if !mentions {
				return true
			}
			scan = append(scan, scanItem{call, f.Info})
			if id, ok := call.Fun.(*ast.Ident); ok {
				if fo, ok := f.Info.Uses[id].(*types.Func); ok && fo.Pkg() != nil && fo.Pkg().Path() == "github.com/prometheus/prometheus/promql/parser" {
					helpers = append(helpers, "promql/parser:"+fo.Name())
				}
			}
			return true
		})
		for _, h := range helpers {
			hf := c.Fn(h)
			scan = append(scan, scanItem{hf.Body, hf.Info})
		}
		if len(scan) > 0 {
			sites++
		}
		var bad []string
		for _, it := range scan {
			signTest := strings.Contains(nodeText(it.n), "< 0") || strings.Contains(nodeText(it.n), ">= 0")
			ast.Inspect(it.n, func(x ast.Node) bool {
				be, ok := x.(*ast.BinaryExpr)
				if !ok || (be.Op != token.REM && be.Op != token.QUO) {
					return true
				}
				if t := it.info.TypeOf(be.X); t != nil && isIntegerType(t) && !signTest {
					bad = append(bad, nodeText(be))
				}
				return true
			})
		}
		c.Check("R5", f.Where(), "the @ timestamp is not split with integer / or % without a sign test", len(bad) == 0, p.Pos(f.Body.Pos()), strings.Join(bad, "; "))
	}
	c.Check("R5", "promql/parser", "three printers format an @ timestamp", sites == 3, "", fmt.Sprint(sites))
}

func isIntegerType(t types.Type) bool {
	b, ok := t.Underlying().(*types.Basic)
	return ok && b.Info()&types.IsInteger != 0
}
