package main

import (
	"go/ast"

	"promverif/eng"
)

func init() {
	register(&Property{
		ID:        "C06",
		Title:     "Queries racing with compaction see each sample exactly once",
		Technique: "go/cfg dominance + who-may-call/who-may-write over the typed module (truncation / block-swap protocol order)",
		DesignRef: "DESIGN.md §5 C06",
		Level: "Decides the ordering and ownership clauses of the head-truncation, OOO garbage-collection and block-swap protocols on every CFG path: " +
			"truncation time published before the in-process flag, readers waited for before data is dropped, blocks swapped in before old ones are deleted, " +
			"querier creation ordered against the collision test, close propagation of every reader a truncation waits on.",
		Note:           "Trusted: go/packages type-checking, go/cfg; the rule instances frozen in checker/c06.go. Schedules themselves are not explored.",
		Covers:         "protocol order in Head.truncateMemory/truncateOOO/truncateSeries, DB.Querier/blockChunkQuerierForRange, DB.compactOOOHead, DB.reloadBlocks/deleteBlocks, Block.Close/startRead, reader Close propagation; owners of Head.gc and truncateSeriesAndChunkDiskMapper; writers of DB.blocks and DB.lastGarbageCollectedMmapRef.",
		NotCover:       "liveness under the 500 ms polling, the arithmetic of IsQuerierCollidingWithTruncation, sample-level exactly-once.",
		Run:            runC06,
		MinObligations: 40,
	})
}

func runC06(c *eng.Ctx) {
	defer runC06Wait(c)
	p := c.P
	// R1 truncateMemory protocol
	{
		f := c.Fn("tsdb:Head.truncateMemory")
		lastStore := p.MethodOn("tsdb:Head.lastMemoryTruncationTime", "Store")
		inProcTrue := p.MethodOn("tsdb:Head.memTruncationInProcess", "Store").WithArg(0, "true", eng.IsIdent("true"))
		wait := p.Call("tsdb:Head.WaitForPendingReadersInTimeRange")
		minStore := p.MethodOn("tsdb:Head.minTime", "Store")
		gc := p.Call("tsdb:Head.truncateSeriesAndChunkDiskMapper")
		f.Seq("R1", lastStore, inProcTrue, minStore, gc)
		f.Dom("R1", inProcTrue, wait)
		fi := f.Given("initialized", true)
		fi.Dom("R1", wait, gc)
		fi.Dom("R1", wait, minStore)
		f.Has("R1", eng.Deferred(p.MethodOn("tsdb:Head.memTruncationInProcess", "Store").WithArg(0, "false", eng.IsIdent("false"))), 1)
		// the in-process flag is never cleared except by that defer
		f.Hasnt("R1", p.MethodOn("tsdb:Head.memTruncationInProcess", "Store").WithArg(0, "false", eng.IsIdent("false")))
		c.WritersSubset("R1", "tsdb:Head.memTruncationInProcess", 2, "tsdb:Head.truncateMemory")
		// resetInMemoryState re-initialises the head before any reader exists (Head.Init / NewHead)
		c.WritersSubset("R1", "tsdb:Head.lastMemoryTruncationTime", 1, "tsdb:Head.truncateMemory", "tsdb:Head.resetInMemoryState")
	}
	// R2 Querier / blockChunkQuerierForRange siblings
	for _, s := range []struct{ fn, mk, wrap string }{
		{"tsdb:DB.Querier", "tsdb:DB.blockQuerierFunc", "tsdb:NewHeadAndOOOQuerier"},
		{"tsdb:DB.blockChunkQuerierForRange", "tsdb:DB.blockChunkQuerierFunc", "tsdb:NewHeadAndOOOChunkQuerier"},
	} {
		f := c.Fn(s.fn)
		rlock := p.MethodOn("tsdb:DB.mtx", "RLock")
		f.Dom("R2", rlock, p.FieldUse("tsdb:DB.blocks"))
		f.Dom("R2", rlock, p.FieldUse("tsdb:DB.lastGarbageCollectedMmapRef"))
		f.Has("R2", eng.Deferred(p.MethodOn("tsdb:DB.mtx", "RUnlock")), 1)
		f.Hasnt("R2", p.MethodOn("tsdb:DB.mtx", "RUnlock"))
		headQ := eng.Node("call db."+eng.Short(s.mk)+"(rh,…)", func(g *eng.Graph, n ast.Node) bool {
			call, ok := n.(*ast.CallExpr)
			return ok && len(call.Args) > 0 && eng.ExprIsField(g.Info, call.Fun, p.Field(s.mk)) && eng.IsIdent("rh")(g, call.Args[0])
		})
		collide := p.Call("tsdb:Head.IsQuerierCollidingWithTruncation")
		f.Dom("R2", headQ, collide)
		// on shouldClose the first querier is closed before a replacement is created
		closeQ := eng.MethodOnVar("headQuerier", "Close")
		f.Dom("R2", collide, closeQ)
		f.Dom("R2", closeQ, eng.AssignVarVal("headQuerier", "nil", eng.IsIdent("nil")))
		// the OOO wrapper is fed by TrackReadAfter(db.lastGarbageCollectedMmapRef)
		track := p.Call("tsdb:oooIsolation.TrackReadAfter").WithArg(0, "db.lastGarbageCollectedMmapRef", p.IsFieldExpr("tsdb:DB.lastGarbageCollectedMmapRef"))
		f.Dom("R2", track, p.Call(s.wrap))
		f.Given("overlapsOOO", true).Dom("R2", collide, p.Call(s.wrap))
	}
	// R3 OOO garbage collection
	{
		f := c.Fn("tsdb:DB.compactOOOHead")
		reload := p.Call("tsdb:DB.reloadBlocks")
		storeRef := p.Store("tsdb:DB.lastGarbageCollectedMmapRef")
		trunc := p.Call("tsdb:Head.truncateOOO")
		f.Gate("R3", p.Call("tsdb:DB.compactOOO"), reload)
		f.Gate("R3", reload, trunc)
		f.Dom("R3", reload, storeRef)
		f.Dom("R3", p.MethodOn("tsdb:DB.mtx", "Lock"), storeRef)
		f.AllPaths("R3", storeRef, p.MethodOn("tsdb:DB.mtx", "Unlock"), eng.AnyExit)
		f.NoPath("R3", trunc, storeRef)
		c.WritersSubset("R3", "tsdb:DB.lastGarbageCollectedMmapRef", 1, "tsdb:DB.compactOOOHead")
		g := c.Fn("tsdb:Head.truncateOOO")
		g.Seq("R3", p.Call("tsdb:Head.WaitForPendingReadersForOOOChunksAtOrBefore"), p.MethodOn("tsdb:Head.minOOOMmapRef", "Store"), p.Call("tsdb:Head.truncateSeriesAndChunkDiskMapper"))
		g.FailStops("R3", p.Call("tsdb:Head.truncateSeriesAndChunkDiskMapper"), p.MethodOn("tsdb:Head.wbl", "Truncate"))
	}
	// R4 block swap, delete after close
	{
		f := c.Fn("tsdb:DB.reloadBlocks")
		swap := p.Store("tsdb:DB.blocks")
		f.Dom("R4", p.MethodOn("tsdb:DB.mtx", "Lock"), swap)
		f.AllPaths("R4", swap, p.MethodOn("tsdb:DB.mtx", "Unlock"), eng.AnyExit)
		f.Dom("R4", swap, p.Call("tsdb:DB.deleteBlocks"))
		// loadDataAsQueryable builds a private, never-reloaded DB value for the read-only path
		c.WritersSubset("R4", "tsdb:DB.blocks", 1, "tsdb:DB.reloadBlocks", "tsdb:DBReadOnly.loadDataAsQueryable")
		c.CallersSubset("R4", "tsdb:DB.deleteBlocks", 1, "tsdb:DB.reloadBlocks")
		d := c.Fn("tsdb:DB.deleteBlocks")
		dn := d.Given("block != nil", true) // a nil entry is a block that was never loaded
		dn.Dom("R4", p.Call("tsdb:Block.Close"), p.Call("tsdb/fileutil:Replace"))
		dn.Dom("R4", p.Call("tsdb:Block.Close"), p.Call("os:RemoveAll"))
		b := c.Fn("tsdb:Block.Close")
		b.Seq("R4", p.StoreVal("tsdb:Block.closing", "true", eng.IsIdent("true")), p.MethodOn("tsdb:Block.pendingReaders", "Wait"),
			p.MethodOn("tsdb:Block.chunkr", "Close"))
		b.Dom("R4", p.MethodOn("tsdb:Block.pendingReaders", "Wait"), p.MethodOn("tsdb:Block.indexr", "Close"))
		b.Dom("R4", p.MethodOn("tsdb:Block.pendingReaders", "Wait"), p.MethodOn("tsdb:Block.tombstones", "Close"))
		b.Dom("R4", p.MethodOn("tsdb:Block.mtx", "Lock"), p.Store("tsdb:Block.closing"))
		sr := c.Fn("tsdb:Block.startRead")
		sr.Dom("R4", p.MethodOn("tsdb:Block.mtx", "RLock"), p.FieldUse("tsdb:Block.closing"))
		sr.Dom("R4", p.FieldUse("tsdb:Block.closing"), p.MethodOn("tsdb:Block.pendingReaders", "Add"))
		c.WritersSubset("R4", "tsdb:Block.closing", 1, "tsdb:Block.Close")
		c.CallersSubsetOfFieldMethod("R4", "tsdb:Block.pendingReaders", "Add", 1, "tsdb:Block.startRead")
		for _, m := range []string{"tsdb:Block.Index", "tsdb:Block.Chunks", "tsdb:Block.Tombstones"} {
			g := c.Fn(m)
			g.Gate("R4", p.Call("tsdb:Block.startRead"), eng.Return("reader", func(g *eng.Graph, rs *ast.ReturnStmt) bool {
				return len(rs.Results) == 2 && !eng.IsIdent("nil")(g, rs.Results[0])
			}))
		}
		for _, m := range []string{"tsdb:blockIndexReader.Close", "tsdb:blockTombstoneReader.Close", "tsdb:blockChunkReader.Close"} {
			g := c.Fn(m)
			g.DomOK("R4", p.MethodOn("tsdb:Block.pendingReaders", "Done"))
		}
	}
	// R6 series eviction and compaction waits
	{
		f := c.Fn("tsdb:Head.truncateSeries")
		f.Seq("R6", p.Call("tsdb:Head.WaitForPendingReadersInTimeRange"), p.Call("tsdb:Head.gcSeries"), p.MethodOn("tsdb:Head.wal", "Log"))
		f.Dom("R6", p.MethodOn("tsdb:Head.chunkSnapshotMtx", "Lock"), p.Call("tsdb:Head.gcSeries"))
		g := c.Fn("tsdb:DB.Compact")
		g.Dom("R6", p.Call("tsdb:Head.WaitForAppendersOverlapping"), p.Call("tsdb:DB.compactHead"))
		h := c.Fn("tsdb:DB.compactHeadViewLocked")
		h.Dom("R6", p.Call("tsdb:isolation.committedAppendID"), p.Call("tsdb:Compactor.Write"))
		h.NoPath("R6", eng.CallNamed("evict"), p.Call("tsdb:Compactor.Write"))
		h.FailStops("R6", p.Call("tsdb:Compactor.Write"), eng.CallNamed("evict"))
		h.FailStops("R6", p.Call("tsdb:DB.reloadBlocks"), eng.CallNamed("evict"))
	}
	// R7 ownership of garbage collection
	c.CallersSubset("R7", "tsdb:Head.gc", 2, "tsdb:Head.truncateSeriesAndChunkDiskMapper", "tsdb:Head.Init")
	c.CallersSubset("R7", "tsdb:Head.truncateSeriesAndChunkDiskMapper", 2, "tsdb:Head.truncateMemory", "tsdb:Head.truncateOOO")
	c.CallersSubset("R7", "tsdb:Head.truncateMemory", 2, "tsdb:Head.Truncate", "tsdb:DB.compactHead")
	c.CallersSubset("R7", "tsdb:Head.truncateOOO", 1, "tsdb:DB.compactOOOHead")
	c.CallersSubset("R7", "tsdb:Head.gcSeries", 1, "tsdb:Head.truncateSeries")
}
