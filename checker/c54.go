package main

import (
	"fmt"
	"go/ast"
	"go/types"
	"strings"

	"promverif/eng"
)

func init() {
	register(&Property{
		ID:        "C54",
		Title:     "Fanout storage: primary decides, secondaries are best effort",
		Technique: "go/cfg order and branch-arm rules for the fanout appenders' Commit/Rollback (v1/v2 siblings); per-interface-method forwarding rule generated from go/types method sets; who-wraps-what rule for primary/secondary queriers in the merge constructors; error-to-warning rules for secondaryQuerier",
		DesignRef: "DESIGN.md §5 C54",
		Level: "Decides that both fanout appenders commit the primary first and a secondary only in the arm where no error occurred so far (otherwise roll it back), that Rollback reaches the primary and every secondary, " +
			"that every method of storage.Appender / AppenderV2 is forwarded to the primary and, in a loop, to every secondary, that fanout.Querier/ChunkQuerier fail on a primary error, close what they opened on a secondary error and " +
			"hand the primary in the first and the secondaries in the second argument of the merge constructors, that inside these constructors every element of `secondaries` (and none of `primaries`) is wrapped by the secondary querier, " +
			"and that the secondary querier turns label-query errors into warnings and, on a failed first Next, blanks every set it handed out.",
		Note:           "Trusted: go/packages, go/types, go/cfg; rule tables in checker/c54.go.",
		Covers:         "fanoutAppender{,V2}.Commit/Rollback and all forwarded methods; fanout.Querier/ChunkQuerier; NewMergeQuerier/NewMergeChunkQuerier wrapping; secondaryQuerier.LabelValues/LabelNames/Select.",
		NotCover:       "the merged content; behaviour of concrete secondaries; failures after the first Next (documented as unsupported by the code).",
		Run:            runC54,
		MinObligations: 60,
	})
}

func runC54(c *eng.Ctx) {
	defer runC54Alias(c)
	p := c.P
	// ---- R1 Commit / Rollback protocol (v1 and v2 siblings) ----
	for _, s := range []struct{ typ, iface string }{{"fanoutAppender", "Appender"}, {"fanoutAppenderV2", "AppenderV2"}} {
		T := "storage:" + s.typ
		I := "storage:" + s.iface
		priCommit := p.Call(I+".Commit").WithRecv("f.primary", p.IsFieldExpr(T+".primary")).Named("primary.Commit()")
		secCommit := eng.OnVar("appender", "Commit").Named("secondary.Commit()")
		secRollback := eng.OnVar("appender", "Rollback").Named("secondary.Rollback()")
		f := c.Fn(T + ".Commit")
		f.Dom("R1", priCommit, secCommit)
		f.NoPath("R1", secCommit, priCommit)
		f.Dom("R1", eng.AssignVarVal("err", "primary.Commit()", func(g *eng.Graph, e ast.Expr) bool { return g.Contains(e, priCommit) }), secCommit)
		f.GivenBranch("err == nil", false).Unreachable("R1", secCommit)
		f.GivenBranch("err == nil", true).Unreachable("R1", secRollback)
		f.GivenBranch("err == nil", false).Reachable("R1", secRollback)
		f.AstEvery("R1", "loop containing secondary.Commit()", f.RangeLoopWith(secCommit), "ranges over f.secondaries", func(n ast.Node) bool {
			return eng.ExprIsField(f.Info, n.(*ast.RangeStmt).X, p.Field(T+".secondaries"))
		}, 1)
		rangeSec := func(m eng.Matcher) eng.Matcher {
			return eng.Node("range f.secondaries{"+m.Desc+"}", func(g *eng.Graph, n ast.Node) bool {
				e, ok := n.(ast.Expr)
				if !ok || !eng.ExprIsField(g.Info, e, p.Field(T+".secondaries")) {
					return false
				}
				return eng.LoopOver(m).F(g, n, eng.Plain)
			})
		}
		f.DomOK("R1", rangeSec(secCommit))
		r := c.Fn(T + ".Rollback")
		r.DomOK("R1", p.Call(I+".Rollback").WithRecv("f.primary", p.IsFieldExpr(T+".primary")).Named("primary.Rollback()"))
		r.DomOK("R1", rangeSec(secRollback))
		r.Only("R1", secRollback, "is unconditional inside the loop", func(l eng.Loc) bool { return !r.UnderAnyArm(l, "err") })

		// ---- R2 every interface method is forwarded to the primary and to every secondary ----
		it := p.Named(I).Underlying().(*types.Interface)
		n := 0
		for i := 0; i < it.NumMethods(); i++ {
			m := it.Method(i).Name()
			if m == "Commit" || m == "Rollback" {
				continue
			}
			n++
			fm := c.Fn(T + "." + m)
			pri := eng.Node("f.primary."+m+"()", func(g *eng.Graph, x ast.Node) bool {
				call, ok := x.(*ast.CallExpr)
				if !ok {
					return false
				}
				sel, ok := ast.Unparen(call.Fun).(*ast.SelectorExpr)
				return ok && sel.Sel.Name == m && eng.ExprIsField(g.Info, sel.X, p.Field(T+".primary"))
			})
			sec := eng.OnVar("appender", m).Named("secondary." + m + "()")
			sig := it.Method(i).Type().(*types.Signature)
			if sig.Results().Len() == 0 {
				// SetOptions: the primary may be nil here (guarded), no error to propagate
				fm.Given("f.primary != nil", true).DomOK("R2", pri)
				fm.DomOK("R2", rangeSec(sec))
				continue
			}
			fm.DomOK("R2", pri)
			fm.DomOK("R2", rangeSec(sec))
			fm.Dom("R2", pri, sec)
			// a failing primary append is returned, and so is a failing secondary append
			if s.typ == "fanoutAppenderV2" {
				// v2 filters partial errors through AppendPartialError.Handle before the test
				h := eng.OnVar("partialErr", "Handle")
				fm.ErrPropagates("R2", h, 2)
				fm.Dom("R2", pri, h)
				fm.AllPaths("R2", pri, h, eng.AnyExit)
				fm.AllPaths("R2", sec, h, eng.AnyExit)
				fm.Only("R2", h, "handles the error of the preceding Append", func(l eng.Loc) bool {
					a := eng.CallArgsText(l)
					return len(a) == 1 && (a[0] == "err" || a[0] == "serr")
				})
				continue
			}
			fm.ErrPropagates("R2", pri, 1)
			fm.ErrPropagates("R2", sec, 1)
		}
		c.Check("R2", T, fmt.Sprintf("%s has ≥1 forwarded method besides Commit/Rollback", s.iface), n >= 1, "", fmt.Sprint(n))
	}
	c.SiblingsEqual("R1", "storage:fanoutAppender.Commit", "storage:fanoutAppenderV2.Commit", nil, nil)
	c.SiblingsEqual("R1", "storage:fanoutAppender.Rollback", "storage:fanoutAppenderV2.Rollback", nil, nil)
	// ---- R3 queriers ----
	for _, s := range []struct{ fn, method, ctor, iface string }{
		{"storage:fanout.Querier", "Querier", "storage:NewMergeQuerier", "storage:Querier"},
		{"storage:fanout.ChunkQuerier", "ChunkQuerier", "storage:NewMergeChunkQuerier", "storage:ChunkQuerier"},
	} {
		f := c.Fn(s.fn)
		mk := func(recvField string) eng.Matcher {
			return eng.Node(recvField+"."+s.method+"()", func(g *eng.Graph, x ast.Node) bool {
				call, ok := x.(*ast.CallExpr)
				if !ok {
					return false
				}
				sel, ok := ast.Unparen(call.Fun).(*ast.SelectorExpr)
				if !ok || sel.Sel.Name != s.method {
					return false
				}
				if recvField == "f.primary" {
					return eng.ExprIsField(g.Info, sel.X, p.Field("storage:fanout.primary"))
				}
				id, ok := sel.X.(*ast.Ident)
				return ok && id.Name == "storage"
			})
		}
		pri, sec := mk("f.primary"), mk("storage")
		f.ErrPropagates("R3", pri, 1)
		f.ErrPropagates("R3", sec, 1)
		f.Dom("R3", pri, sec)
		f.FailLeadsTo("R3", sec, eng.OnVar("primary", "Close"), nil)
		f.FailLeadsTo("R3", sec, eng.LoopOver(eng.OnVar("q", "Close")), nil)
		ctor := p.Call(s.ctor)
		f.DomOK("R3", ctor)
		f.Only("R3", ctor, "passes []T{primary} first and `secondaries` second", func(l eng.Loc) bool {
			call := l.Node.(*ast.CallExpr)
			cl, ok := ast.Unparen(call.Args[0]).(*ast.CompositeLit)
			if !ok || len(cl.Elts) != 1 || eng.ExprString(cl.Elts[0]) != "primary" {
				return false
			}
			return eng.ExprString(call.Args[1]) == "secondaries"
		})
		// `primary` is what f.primary returned, `secondaries` only ever receives what a secondary storage returned
		f.Only("R3", eng.AssignVar("primary"), "is assigned from f.primary."+s.method+"()", func(l eng.Loc) bool {
			as, ok := l.Node.(*ast.AssignStmt)
			return ok && len(as.Rhs) == 1 && f.Contains(as.Rhs[0], pri)
		})
		f.Only("R3", eng.AssignVar("secondaries"), "is make(...) or append(secondaries, querier)", func(l eng.Loc) bool {
			as, ok := l.Node.(*ast.AssignStmt)
			if !ok || len(as.Rhs) != 1 {
				return false
			}
			t := eng.ExprString(as.Rhs[0])
			return strings.HasPrefix(t, "make(") || t == "append(secondaries, querier)"
		})
		f.Only("R3", eng.AssignVar("querier"), "is assigned from storage."+s.method+"()", func(l eng.Loc) bool {
			as, ok := l.Node.(*ast.AssignStmt)
			return ok && len(as.Rhs) == 1 && f.Contains(as.Rhs[0], sec)
		})
		f.AstEvery("R3", "loop containing storage."+s.method+"()", f.RangeLoopWith(sec), "ranges over f.secondaries", func(n ast.Node) bool {
			return eng.ExprIsField(f.Info, n.(*ast.RangeStmt).X, p.Field("storage:fanout.secondaries"))
		}, 1)
	}
	// inside the merge constructors: who gets wrapped by what
	for _, s := range []struct{ fn, generic, secondary string }{
		{"storage:NewMergeQuerier", "storage:newGenericQuerierFrom", "storage:newSecondaryQuerierFrom"},
		{"storage:NewMergeChunkQuerier", "storage:newGenericQuerierFromChunk", "storage:newSecondaryQuerierFromChunk"},
	} {
		f := c.Fn(s.fn)
		// root(expr): the parameter an element expression comes from
		rangeOf := map[types.Object]ast.Expr{}
		ast.Inspect(f.Body, func(x ast.Node) bool {
			if rs, ok := x.(*ast.RangeStmt); ok && rs.Value != nil {
				if id, ok := rs.Value.(*ast.Ident); ok {
					rangeOf[f.Info.ObjectOf(id)] = rs.X
				}
			}
			return true
		})
		var root func(e ast.Expr) string
		root = func(e ast.Expr) string {
			switch x := ast.Unparen(e).(type) {
			case *ast.Ident:
				if r, ok := rangeOf[f.Info.ObjectOf(x)]; ok {
					return root(r)
				}
				return x.Name
			case *ast.IndexExpr:
				return root(x.X)
			case *ast.SliceExpr:
				return root(x.X)
			}
			return "?"
		}
		gen, sec := p.Call(s.generic), p.Call(s.secondary)
		f.Only("R3", sec, "wraps an element of `secondaries`", func(l eng.Loc) bool { return root(l.Node.(*ast.CallExpr).Args[0]) == "secondaries" })
		f.Only("R3", gen, "wraps an element of `primaries`", func(l eng.Loc) bool { return root(l.Node.(*ast.CallExpr).Args[0]) == "primaries" })
		f.Has("R3", sec, 2) // the single-secondary arm and the loop
		// every element use of `secondaries` is an argument of the secondary wrapper
		bad := ""
		nUse := 0
		var stack []ast.Node
		ast.Inspect(f.Body, func(x ast.Node) bool {
			if x == nil {
				stack = stack[:len(stack)-1]
				return true
			}
			stack = append(stack, x)
			var elem ast.Expr
			switch e := x.(type) {
			case *ast.IndexExpr:
				if root(e.X) == "secondaries" {
					elem = e
				}
			case *ast.Ident:
				if r, ok := rangeOf[f.Info.Uses[e]]; ok && root(r) == "secondaries" {
					elem = e
				}
			}
			if elem != nil {
				nUse++
				par := stack[len(stack)-2]
				call, ok := par.(*ast.CallExpr)
				if !ok || !sec.F(f.Graph, call, eng.Plain) {
					bad = p.Pos(elem.Pos())
				}
			}
			return true
		})
		c.Check("R3", f.Where(), "every element of `secondaries` is used only as the argument of "+eng.Short(s.secondary), bad == "" && nUse >= 2, bad,
			fmt.Sprintf("%d element uses; an element of the secondaries reaches the result without the secondary wrapper (its errors would fail the query)", nUse))
		c.CallersSubset("R3", s.secondary, 2, s.fn)
	}
	// secondaryQuerier: errors become warnings
	for _, m := range []string{"LabelValues", "LabelNames"} {
		f := c.Fn("storage:secondaryQuerier." + m)
		f.Only("R3", eng.Return("", nil), "returns the nil literal as error", func(l eng.Loc) bool {
			rs := l.Node.(*ast.ReturnStmt)
			return len(rs.Results) == 3 && eng.ExprString(rs.Results[2]) == "nil"
		})
		f.Only("R3", eng.Return("", nil), "returns no values on the error path", func(l eng.Loc) bool {
			rs := l.Node.(*ast.ReturnStmt)
			if !f.UnderCond(l, "err != nil") {
				return true
			}
			return eng.ExprString(rs.Results[0]) == "nil" && strings.Contains(eng.ExprString(rs.Results[1]), "Add(err)")
		})
	}
	{
		// all-or-nothing: on a failed first Next the set being initialised becomes warnings-only and EVERY
		// other set handed out by this secondary becomes empty
		f := c.Fn("storage:secondaryQuerier.Select").InnerClosure("once", eng.Node("noopGenericSeriesSet{}", func(g *eng.Graph, n ast.Node) bool {
			cl, ok := n.(*ast.CompositeLit)
			return ok && eng.ExprString(cl.Type) == "noopGenericSeriesSet"
		}))
		sets := p.Field("storage:secondaryQuerier.asyncSets")
		storeNoop := eng.Node("asyncSets[·] = noopGenericSeriesSet{}", func(g *eng.Graph, n ast.Node) bool {
			as, ok := n.(*ast.AssignStmt)
			if !ok || len(as.Lhs) != 1 || len(as.Rhs) != 1 {
				return false
			}
			ix, ok := as.Lhs[0].(*ast.IndexExpr)
			return ok && eng.ExprIsField(g.Info, ix.X, sets) && eng.ExprString(as.Rhs[0]) == "noopGenericSeriesSet{}"
		})
		storeWarn := eng.Node("asyncSets[curr] = warningsOnlySeriesSet(…err)", func(g *eng.Graph, n ast.Node) bool {
			as, ok := n.(*ast.AssignStmt)
			if !ok || len(as.Lhs) != 1 || len(as.Rhs) != 1 {
				return false
			}
			ix, ok := as.Lhs[0].(*ast.IndexExpr)
			return ok && eng.ExprIsField(g.Info, ix.X, sets) && eng.ExprString(ix.Index) == "curr" && strings.HasPrefix(eng.ExprString(as.Rhs[0]), "warningsOnlySeriesSet(") && strings.Contains(eng.ExprString(as.Rhs[0]), "err")
		})
		f.Has("R3", storeWarn, 1)
		f.Only("R3", storeWarn, "lies in the `err != nil` arm of set.Err()", func(l eng.Loc) bool { return f.UnderCond(l, "err != nil") })
		f.Only("R3", storeNoop, "lies in the `err != nil` arm of set.Err()", func(l eng.Loc) bool { return f.UnderCond(l, "err != nil") })
		// the blanking loop visits all sets: a range over s.asyncSets (or a counted loop from 0 to len) indexed by its own variable
		ok, pos, why := false, "", "no loop containing the blanking store"
		ast.Inspect(f.Body, func(x ast.Node) bool {
			switch lp := x.(type) {
			case *ast.RangeStmt:
				if f.Contains(lp.Body, storeNoop) && !f.Contains(lp.Body, storeWarn) {
					pos = p.Pos(lp.Pos())
					if eng.ExprIsField(f.Info, lp.X, sets) && lp.Key != nil {
						ok = blankIndexIs(f, lp.Body, storeNoop, eng.ExprString(lp.Key))
						why = "range over asyncSets"
					} else {
						why = "the loop does not range over s.asyncSets"
					}
				}
			case *ast.ForStmt:
				if f.Contains(lp.Body, storeNoop) {
					pos = p.Pos(lp.Pos())
					why = "counted loop does not start at 0 or does not run to len(s.asyncSets)"
					if as, isAs := lp.Init.(*ast.AssignStmt); isAs && len(as.Rhs) == 1 && eng.ExprString(as.Rhs[0]) == "0" && lp.Cond != nil &&
						strings.HasSuffix(eng.ExprString(lp.Cond), "< len(s.asyncSets)") {
						ok = blankIndexIs(f, lp.Body, storeNoop, eng.ExprString(as.Lhs[0]))
					}
				}
			}
			return true
		})
		c.Check("R3", f.Where(), "the blanking loop visits every set handed out by this secondary", ok, pos, why)
		// only `curr` is skipped
		f.AstEvery("R3", "`if …curr… { continue }` in the blanking loop", func(n ast.Node) bool {
			is, isIf := n.(*ast.IfStmt)
			if !isIf || len(is.Body.List) != 1 {
				return false
			}
			br, isBr := is.Body.List[0].(*ast.BranchStmt)
			return isBr && br.Tok.String() == "continue" && strings.Contains(eng.ExprString(is.Cond), "curr")
		}, "skips exactly the current set", func(n ast.Node) bool {
			t := eng.ExprString(n.(*ast.IfStmt).Cond)
			return t == "curr == i" || t == "i == curr"
		}, 1)
		// downgrade sites
		conv := func(name string) eng.Matcher {
			return eng.Node(name+" value", func(g *eng.Graph, n ast.Node) bool {
				switch x := n.(type) {
				case *ast.CallExpr:
					return eng.ExprString(x.Fun) == name && name == "warningsOnlySeriesSet"
				case *ast.CompositeLit:
					return eng.ExprString(x.Type) == name
				}
				return false
			})
		}
		c.OnlyIn("R3", conv("warningsOnlySeriesSet"), 2, "storage:secondaryQuerier.Select")
		c.OnlyIn("R3", conv("noopGenericSeriesSet"), 1, "storage:secondaryQuerier.Select", "storage:mergeGenericQuerier.Select")
	}
}

// blankIndexIs: every blanking store in body indexes with the loop's own variable.
func blankIndexIs(f *eng.Fn, body *ast.BlockStmt, store eng.Matcher, idx string) bool {
	ok, n := true, 0
	ast.Inspect(body, func(x ast.Node) bool {
		if as, isAs := x.(*ast.AssignStmt); isAs && store.F(f.Graph, as, eng.Plain) {
			n++
			if eng.ExprString(as.Lhs[0].(*ast.IndexExpr).Index) != idx {
				ok = false
			}
		}
		return true
	})
	return ok && n > 0
}
