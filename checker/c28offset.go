package main

import (
	"fmt"
	"go/ast"
	"strings"

	"promverif/eng"
)

// C28.R6 / R7 (findings F41, F42): offset and @ move the window to (T − offset) for a fixed time T.
// The engine realises `@ T` by rewriting the selector's Offset field relative to the evaluation time; the user's
// offset lives in OriginalOffset.
func runC28Offset(c *eng.Ctx) {
	p := c.P
	// ---- R6 every rewrite of an Offset field starts from the user's offset ----
	n := 0
	for _, typ := range []string{"VectorSelector", "SubqueryExpr", "MatrixSelector"} {
		if p.TryFunc("promql/parser:"+typ+".String") == nil {
			continue
		}
		fr := "promql/parser:" + typ + ".Offset"
		func() {
			defer func() { _ = recover() }() // a node type without an Offset field
			for _, o := range p.FindAll(p.Store(fr)) {
				if !strings.HasPrefix(o.In, "promql:") {
					continue
				}
				as, ok := o.Node.(*ast.AssignStmt)
				if !ok {
					continue
				}
				n++
				rhs := nodeText(as.Rhs[0])
				c.Check("R6", o.In, fmt.Sprintf("the Offset of a %s is rewritten from its OriginalOffset (%s)", typ, nodeText(as.Lhs[0])), strings.Contains(rhs, "OriginalOffset"), p.Pos(as.Pos()),
					"right-hand side "+rhs+": the user's offset is dropped, `sel @ T offset O` is evaluated at T instead of T − O")
			}
		}()
	}
	c.Check("R6", "promql", "rewrites of selector offsets examined (≥ 4)", n >= 4, "", fmt.Sprint(n))
	// ---- R7 the inner expression of a subquery is re-based to the subquery's own start on every path ----
	rs := c.Fn("promql:evaluator.runSubquery")
	rebase := p.Call("promql:setOffsetForAtModifier")
	inner := eng.Node("newEv.eval(ctx, e.Expr)", func(g *eng.Graph, n ast.Node) bool {
		call, ok := n.(*ast.CallExpr)
		return ok && nodeText(call.Fun) == "newEv.eval"
	})
	rs.Has("R7", rebase, 1)
	rs.Only("R7", rebase, "re-bases the subquery's inner expression to the subquery's first step", func(l eng.Loc) bool {
		a := eng.CallArgsText(l)
		return len(a) == 2 && a[0] == "subqStart" && a[1] == "e.Expr"
	})
	rs.Dom("R7", rebase, inner) // on every path, also when the first step coincides with the outer evaluation time
}
