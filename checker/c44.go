package main

import (
	"go/ast"
	"sort"
	"strings"

	"promverif/eng"
)

func init() {
	register(&Property{
		ID:        "C44",
		Title:     "Alert state machine: pending, firing, resolved",
		Technique: "who-may-write rule for Alert.State and extraction of the transition relation from the stores' controlling comparisons (values touched only through comparisons with constants: a finite relation compared with the stated one); go/cfg branch-arm and order rules for AlertingRule.Eval; must-hold lockset for the active-alert table; restore-flag rules for Group.RestoreForState; enum table for AlertState",
		DesignRef: "DESIGN.md §5 C44",
		Level: "Decides the shape of the state machine: the only writers of an alert's state are the constructor literal (pending) and three assignments in AlertingRule.Eval, each controlled by a comparison of the same alert's state with a constant, which yields exactly the relation {new→pending, pending→firing, firing→pending (hold duration raised), pending|firing→inactive}; " +
			"an inactive alert is never revived but replaced by a new pending one; an absent pending alert is deleted, an absent firing one is resolved (with its resolution time) unless kept firing, which requires the firing state and a positive keep_firing_for; " +
			"resolved alerts are deleted only through the retention comparison; the ALERTS/ALERTS_FOR_STATE samples are produced only once the for-state restore has run, and every path of RestoreForState through a rule marks it restored; the active table is only touched under its mutex.",
		Note:           "Trusted: go/packages, go/types, go/cfg; rule tables in checker/c44.go.",
		Covers:         "AlertingRule.Eval, Alert.State writers module-wide, AlertingRule.active lockset, Group.RestoreForState restore flag, AlertState.String.",
		NotCover:       "the time arithmetic (for, keep_firing_for, retention, outage tolerance, grace period) and the values of the emitted samples.",
		Run:            runC44,
		MinObligations: 30,
	})
}

func runC44(c *eng.Ctx) {
	defer runC44Restore(c)
	defer runC44Pending(c)
	defer runC44Labels(c)
	p := c.P
	A := "rules:AlertingRule"
	f := c.Fn(A + ".Eval")
	// ---- R1 table and lockset ----
	c.Fn("rules:AlertState.String").SwitchCovers("R1", "rules:AlertState", 1, nil)
	c.GuardedBy("R1", A+".active", A+".activeMtx", eng.GuardOpts{Min: 10, Unlocked: map[string]string{"rules:NewAlertingRule": "constructor",
		"rules:Group.CopyState": "runs while the old group is stopped and the new one not yet started (manager.Update holds the manager lock)"}})
	f.Dom("R1", p.MethodOn(A+".activeMtx", "Lock"), p.FieldUse(A+".active"))
	f.Has("R1", eng.Deferred(p.MethodOn(A+".activeMtx", "Unlock")), 1)
	// ---- R2 transition relation ----
	c.WritersSubset("R2", "rules:Alert.State", 4, A+".Eval")
	store := func(val string) eng.Matcher {
		return p.StoreVal("rules:Alert.State", val, eng.IsIdent(val))
	}
	type edge struct{ to, guard string }
	var got []string
	for _, e := range []edge{{"StateInactive", "a.State != StateInactive"}, {"StateFiring", "a.State == StatePending"}, {"StatePending", "a.State == StateFiring"}} {
		e := e
		f.Has("R2", store(e.to), 1)
		f.Only("R2", store(e.to), "is controlled by `"+e.guard+"` on the same alert", func(l eng.Loc) bool {
			as := l.Node.(*ast.AssignStmt)
			recv := strings.TrimSuffix(eng.ExprString(as.Lhs[0]), ".State")
			return recv == "a" && f.UnderCond(l, e.guard)
		})
		for range f.Find(store(e.to)) {
			got = append(got, e.guard+" → "+e.to)
		}
	}
	sort.Strings(got)
	c.Check("R2", f.Where(), "stores to Alert.State form exactly the three guarded transitions", len(f.Find(p.Store("rules:Alert.State"))) == 3 && len(got) == 3, p.Pos(f.Body.Pos()), strings.Join(got, "; "))
	// the constructor literal is pending
	f.AstEvery("R2", "Alert literal", func(n ast.Node) bool {
		cl, ok := n.(*ast.CompositeLit)
		return ok && eng.ExprString(cl.Type) == "Alert"
	}, "starts in StatePending, active at the evaluation time", func(n ast.Node) bool {
		t := nodeText(n)
		return strings.Contains(t, "State: StatePending") && strings.Contains(t, "ActiveAt: ts")
	}, 1)
	// an inactive (resolved) alert is not revived: it is replaced by the new pending alert
	replace := p.StoreElem(A + ".active")
	f.Has("R2", replace, 1)
	f.Only("R2", replace, "is skipped only for an existing alert that is not inactive", func(l eng.Loc) bool {
		return f.UnderCondFalse(l, "ok && alert.State != StateInactive") || !f.UnderCond(l, "alert.State")
	})
	f.AstEvery("R2", "test for an existing alert", func(n ast.Node) bool {
		is, ok := n.(*ast.IfStmt)
		return ok && is.Init != nil && strings.Contains(nodeText(is.Init), "r.active[h]")
	}, "keeps the old alert only if it is not inactive, and then only refreshes value and annotations", func(n ast.Node) bool {
		is := n.(*ast.IfStmt)
		if eng.ExprString(is.Cond) != "ok && alert.State != StateInactive" {
			return false
		}
		t := nodeText(is.Body)
		return !strings.Contains(t, "State =") && !strings.Contains(t, "ActiveAt") && strings.HasSuffix(strings.TrimSuffix(strings.TrimSpace(t), "}"), "continue ")
	}, 1)
	// absent alerts: pending → deleted; firing → resolved unless kept firing
	del := p.DeleteElem(A + ".active")
	f.Has("R2", del, 1)
	f.Only("R2", del, "is controlled by the alert being pending or past the resolved retention, in the absent arm", func(l eng.Loc) bool {
		return f.UnderCond(l, "a.State == StatePending || (!a.ResolvedAt.IsZero() && ts.Sub(a.ResolvedAt) > resolvedRetention)") && f.UnderCond(l, "!ok")
	})
	f.Only("R2", store("StateInactive"), "happens in the absent arm, not when kept firing, and records the resolution time", func(l eng.Loc) bool {
		if !f.UnderCond(l, "!ok") || !f.UnderCond(l, "!keepFiring") {
			return false
		}
		for _, r := range f.Find(p.StoreVal("rules:Alert.ResolvedAt", "ts", eng.IsIdent("ts"))) {
			if r.Blk == l.Blk {
				return true
			}
		}
		return false
	})
	f.Only("R2", eng.AssignVarVal("keepFiring", "true", eng.IsIdent("true")), "requires the firing state and a positive keep_firing_for", func(l eng.Loc) bool {
		return f.UnderCond(l, "a.State == StateFiring && r.keepFiringFor > 0")
	})
	f.Has("R2", eng.AssignVarVal("keepFiring", "true", eng.IsIdent("true")), 1)
	// an absent alert that is not kept firing takes no further transition in this evaluation
	f.GivenBranch("!keepFiring", true).NoPathAvoid("R2", store("StateInactive"), eng.Or(store("StateFiring"), store("StatePending")), "iteration of `range r.active`", f.LoopHeads("r.active"))
	// present alerts reset the keep-firing clock
	f.Only("R2", p.StoreVal("rules:Alert.KeepFiringSince", "zero", eng.ExprText("time.Time{}")), "is in the present arm or part of the firing→pending reset", func(l eng.Loc) bool {
		return f.UnderCondFalse(l, "!ok") || f.UnderCond(l, "a.State == StateFiring")
	})
	// firing records its time; the pending→firing test precedes the firing→pending (hold duration raised) test
	f.Only("R2", store("StateFiring"), "records FiredAt", func(l eng.Loc) bool {
		for _, r := range f.Find(p.StoreVal("rules:Alert.FiredAt", "ts", eng.IsIdent("ts"))) {
			if r.Blk == l.Blk {
				return true
			}
		}
		return false
	})
	f.Dom("R2", eng.CondTest("a.State == StatePending", "r.holdDuration"), eng.CondTest("a.State == StateFiring", "r.holdDuration"))
	// ---- R3 output series only once the for-state restore has run ----
	for _, m := range []string{"sample", "forStateSample"} {
		m := m
		call := p.Call(A + "." + m)
		f.Has("R3", call, 1)
		f.Only("R3", call, "is under r.restored.Load()", func(l eng.Loc) bool { return f.UnderCond(l, "r.restored.Load()") })
	}
	{
		g := c.Fn("rules:Group.RestoreForState")
		set := eng.OnVar("alertRule", "SetRestored")
		// from the point a rule is recognised as an alerting rule, every way to the next rule passes SetRestored(true)
		g.AstEvery("R3", "block ending in `continue` after the alerting-rule test", func(n ast.Node) bool {
			b, ok := n.(*ast.BlockStmt)
			if !ok || len(b.List) < 2 {
				return false
			}
			br, ok := b.List[len(b.List)-1].(*ast.BranchStmt)
			return ok && br.Tok.String() == "continue"
		}, "marks the rule restored first", func(n ast.Node) bool {
			return strings.Contains(nodeText(n), "alertRule.SetRestored(true)")
		}, 3)
		g.Has("R3", set, 4)
		g.AstEvery("R3", "loop over the group's rules", func(n ast.Node) bool {
			rs, ok := n.(*ast.RangeStmt)
			return ok && eng.ExprString(rs.X) == "g.Rules()"
		}, "ends by marking the rule restored", func(n ast.Node) bool {
			b := n.(*ast.RangeStmt).Body.List
			return nodeText(b[len(b)-1]) == "alertRule.SetRestored(true)"
		}, 1)
		c.WritersSubset("R3", A+".restored", 1, A+".SetRestored", "rules:NewAlertingRule")
	}
}
