package main

import (
	"go/ast"
	"go/types"
	"strings"

	"promverif/eng"
)

// C42.R8 (finding F75, open): the server splits a series over several frames — in StreamChunkedReadResponses the frame
// is written inside the loop over the series' chunks whenever the size limit is reached — and every frame repeats the
// labels.  For the client to return the same series as a local query, its series set has to join consecutive frames
// with equal labels: Next reads frames in a loop, or the set keeps a look-ahead frame.  Today it returns one series
// per frame.
func runC42Frames(c *eng.Ctx) {
	p := c.P
	const R = "storage/remote:"
	w := c.Fn(R + "StreamChunkedReadResponses")
	splits := false
	ast.Inspect(w.Body, func(x ast.Node) bool {
		fs, ok := x.(*ast.ForStmt)
		if !ok || fs.Cond == nil || strings.Contains(nodeText(fs.Cond), "ss.Next()") || !strings.Contains(nodeText(fs.Body), "iter.At()") {
			return true // the loop over one series' chunks
		}
		ast.Inspect(fs.Body, func(y ast.Node) bool {
			if call, ok := y.(*ast.CallExpr); ok && strings.HasSuffix(nodeText(call.Fun), "stream.Write") {
				splits = true
			}
			return true
		})
		return true
	})
	c.Check("R8", w.Where(), "the writer can emit several frames for one series (the frame is written inside the loop over the series' chunks)", splits, p.Pos(w.Body.Pos()), "")
	if !splits {
		return
	}
	n := c.Fn(R + "chunkedSeriesSet.Next")
	loopRead := false
	ast.Inspect(n.Body, func(x ast.Node) bool {
		var body *ast.BlockStmt
		switch l := x.(type) {
		case *ast.ForStmt:
			body = l.Body
		case *ast.RangeStmt:
			body = l.Body
		}
		if body != nil && strings.Contains(nodeText(body), "NextProto(") {
			loopRead = true
		}
		return true
	})
	lookAhead := false
	if st, ok := p.Named(R + "chunkedSeriesSet").Underlying().(*types.Struct); ok {
		for i := 0; i < st.NumFields(); i++ {
			if strings.HasSuffix(st.Field(i).Type().String(), "prompb.ChunkedReadResponse") {
				lookAhead = true
			}
		}
	}
	c.Check("R8", n.Where(), "the client joins the frames of one series (frames read in a loop, or a look-ahead frame kept in the set)", loopRead || lookAhead, p.Pos(n.Body.Pos()),
		"Next reads exactly one frame and returns it as a series: a series split by the server arrives as several consecutive series with identical labels")
	_ = eng.SortedKeys[bool]
}
