package main

import (
	"go/ast"
	"go/token"
	"go/types"
	"strings"

	"promverif/eng"
)

// C38.R4: what each arm of relabel()'s action switch does, clause by clause: which value is tested with which
// polarity, which label is written from which value.  The operands are compared as expressions (either order
// for == / !=), the callees are resolved through go/types.
func runC38Arms(c *eng.Ctx) {
	p := c.P
	r := c.Fn("model/relabel:relabel")
	where := r.Where()
	var sw *ast.SwitchStmt
	ast.Inspect(r.Body, func(n ast.Node) bool {
		if s, ok := n.(*ast.SwitchStmt); ok && s.Tag != nil && eng.ExprString(s.Tag) == "cfg.Action" && sw == nil {
			sw = s
		}
		return true
	})
	if sw == nil {
		c.Fail("R4", where, "switch over cfg.Action found", p.Pos(r.Body.Pos()), "")
		return
	}
	arms := map[string][]ast.Stmt{}
	for _, st := range sw.Body.List {
		cc := st.(*ast.CaseClause)
		for _, e := range cc.List {
			arms[eng.ExprString(e)] = cc.Body
		}
	}
	calleeIs := func(call *ast.CallExpr, pkg, recv, name string) bool {
		f := r.Callee(call)
		if f == nil || f.Name() != name {
			return false
		}
		if pkg != "" && (f.Pkg() == nil || !strings.HasSuffix(f.Pkg().Path(), pkg)) {
			return false
		}
		if recv != "" {
			sig, _ := f.Type().(*types.Signature)
			if sig == nil || sig.Recv() == nil || !strings.HasSuffix(strings.TrimPrefix(sig.Recv().Type().String(), "*"), recv) {
				return false
			}
		}
		return true
	}
	// matchCond: (negated?, argument) of a condition (!)cfg.Regex.MatchString(arg)
	matchCond := func(e ast.Expr) (neg bool, arg string, ok bool) {
		e = ast.Unparen(e)
		if u, isU := e.(*ast.UnaryExpr); isU && u.Op == token.NOT {
			neg, e = true, ast.Unparen(u.X)
		}
		call, isC := e.(*ast.CallExpr)
		if !isC || len(call.Args) != 1 || !calleeIs(call, "model/relabel", "Regexp", "MatchString") && !calleeIs(call, "regexp", "Regexp", "MatchString") {
			return false, "", false
		}
		if sel, isS := call.Fun.(*ast.SelectorExpr); !isS || eng.ExprString(sel.X) != "cfg.Regex" {
			return false, "", false
		}
		return neg, eng.ExprString(call.Args[0]), true
	}
	soleIf := func(body []ast.Stmt) *ast.IfStmt {
		if len(body) != 1 {
			return nil
		}
		is, _ := body[0].(*ast.IfStmt)
		if is == nil || is.Else != nil || is.Init != nil {
			return nil
		}
		return is
	}
	returnsFalse := func(b *ast.BlockStmt) bool { return len(b.List) == 1 && nodeText(b.List[0]) == "return false" }
	check := func(action, what string, ok bool, at ast.Node, why string) {
		pos := p.Pos(sw.Pos())
		if at != nil {
			pos = p.Pos(at.Pos())
		}
		c.Check("R4", where, "action "+action+": "+what, ok, pos, why)
	}
	// ---- the joined source value ----
	joined := false
	ast.Inspect(r.Body, func(n ast.Node) bool {
		as, ok := n.(*ast.AssignStmt)
		if ok && len(as.Lhs) == 1 && eng.ExprString(as.Lhs[0]) == "val" {
			if call, ok := as.Rhs[0].(*ast.CallExpr); ok && calleeIs(call, "strings", "", "Join") && len(call.Args) == 2 && eng.ExprString(call.Args[1]) == "cfg.Separator" {
				joined = true
			}
		}
		return true
	})
	check("*", "val is the source label values joined by cfg.Separator", joined, nil, "")
	srcLoop := false
	ast.Inspect(r.Body, func(n ast.Node) bool {
		rs, ok := n.(*ast.RangeStmt)
		if ok && eng.ExprString(rs.X) == "cfg.SourceLabels" && rs.Value != nil {
			t := nodeText(rs.Body)
			srcLoop = strings.Contains(t, "append(values, lb.Get(string("+eng.ExprString(rs.Value)+")))")
		}
		return true
	})
	check("*", "every source label contributes its current value from the builder, in the configured order", srcLoop, nil, "")
	// ---- filters ----
	for _, a := range []struct {
		name string
		neg  bool
	}{{"Drop", false}, {"Keep", true}} {
		is := soleIf(arms[a.name])
		ok := false
		if is != nil {
			neg, arg, m := matchCond(is.Cond)
			ok = m && neg == a.neg && arg == "val" && returnsFalse(is.Body)
		}
		pol := "matches"
		if a.neg {
			pol = "does not match"
		}
		check(a.name, "the set is dropped exactly when the regex "+pol+" the joined source value", ok, nil, "")
	}
	for _, a := range []struct {
		name string
		op   token.Token
	}{{"DropEqual", token.EQL}, {"KeepEqual", token.NEQ}} {
		is := soleIf(arms[a.name])
		ok := false
		if is != nil {
			if be, isB := ast.Unparen(is.Cond).(*ast.BinaryExpr); isB && be.Op == a.op {
				x, y := eng.ExprString(be.X), eng.ExprString(be.Y)
				ok = (x == "lb.Get(cfg.TargetLabel)" && y == "val" || y == "lb.Get(cfg.TargetLabel)" && x == "val") && returnsFalse(is.Body)
			}
		}
		check(a.name, "the set is dropped exactly when the target label's value "+a.op.String()+" the joined source value", ok, nil, "")
	}
	// ---- case conversion ----
	for _, a := range []struct{ name, fn string }{{"Lowercase", "ToLower"}, {"Uppercase", "ToUpper"}} {
		ok := false
		if b := arms[a.name]; len(b) == 1 {
			if es, isE := b[0].(*ast.ExprStmt); isE {
				if call, isC := es.X.(*ast.CallExpr); isC && calleeIs(call, "model/labels", "Builder", "Set") && len(call.Args) == 2 && eng.ExprString(call.Args[0]) == "cfg.TargetLabel" {
					if in, isI := call.Args[1].(*ast.CallExpr); isI && calleeIs(in, "strings", "", a.fn) && len(in.Args) == 1 && eng.ExprString(in.Args[0]) == "val" {
						ok = true
					}
				}
			}
		}
		check(a.name, "sets the target label to strings."+a.fn+" of the joined source value", ok, nil, "")
	}
	// ---- hashmod ----
	{
		t := nodeText(&ast.BlockStmt{List: arms["HashMod"]})
		var setOK, modOK, sumOK bool
		ast.Inspect(&ast.BlockStmt{List: arms["HashMod"]}, func(n ast.Node) bool {
			switch x := n.(type) {
			case *ast.CallExpr:
				if calleeIs(x, "model/labels", "Builder", "Set") && len(x.Args) == 2 && eng.ExprString(x.Args[0]) == "cfg.TargetLabel" && nodeText(x.Args[1]) == "strconv.FormatUint(mod, 10)" {
					setOK = true
				}
				if calleeIs(x, "crypto/md5", "", "Sum") && len(x.Args) == 1 && nodeText(x.Args[0]) == "[]byte(val)" {
					sumOK = true
				}
			case *ast.BinaryExpr:
				if x.Op == token.REM && eng.ExprString(x.Y) == "cfg.Modulus" && strings.Contains(nodeText(x.X), "Uint64(hash[8:])") {
					modOK = true
				}
			}
			return true
		})
		check("HashMod", "sets the target label to the decimal of (last 8 bytes of md5(joined value), big endian) modulo cfg.Modulus", setOK && modOK && sumOK, nil, t)
	}
	// ---- label name actions ----
	for _, a := range []struct {
		name string
		neg  bool
		del  bool
	}{{"LabelDrop", false, true}, {"LabelKeep", true, true}, {"LabelMap", false, false}} {
		ok := false
		var lit *ast.FuncLit
		if b := arms[a.name]; len(b) == 1 {
			if es, isE := b[0].(*ast.ExprStmt); isE {
				if call, isC := es.X.(*ast.CallExpr); isC && calleeIs(call, "model/labels", "Builder", "Range") && len(call.Args) == 1 {
					lit, _ = call.Args[0].(*ast.FuncLit)
				}
			}
		}
		if lit != nil && len(lit.Type.Params.List) == 1 && len(lit.Type.Params.List[0].Names) == 1 {
			lv := lit.Type.Params.List[0].Names[0].Name
			if is := soleIf(lit.Body.List); is != nil {
				neg, arg, m := matchCond(is.Cond)
				if m && neg == a.neg && arg == lv+".Name" {
					bt := nodeText(is.Body)
					if a.del {
						ok = bt == "{ lb.Del("+lv+".Name) }"
					} else {
						st := is.Body.List
						ok = len(st) == 2 && nodeText(st[0]) == "res := cfg.Regex.ReplaceAllString("+lv+".Name, cfg.Replacement)" && nodeText(st[1]) == "lb.Set(res, "+lv+".Value)" ||
							len(st) == 1 && nodeText(st[0]) == "lb.Set(cfg.Regex.ReplaceAllString("+lv+".Name, cfg.Replacement), "+lv+".Value)"
						_ = bt
					}
				}
			}
		}
		desc := map[string]string{
			"LabelDrop": "deletes exactly the labels whose name matches",
			"LabelKeep": "deletes exactly the labels whose name does not match",
			"LabelMap":  "for every label whose name matches, sets the label named by the replacement of the name to that label's value",
		}[a.name]
		check(a.name, desc, ok, nil, "")
	}
	// ---- replace ----
	{
		body := arms["Replace"]
		blk := &ast.BlockStmt{List: body, Lbrace: body[0].Pos()}
		idx := func(pred func(ast.Stmt) bool) int {
			for i, s := range body {
				if pred(s) {
					return i
				}
			}
			return -1
		}
		ifWith := func(cond string, then func(*ast.BlockStmt) bool) func(ast.Stmt) bool {
			return func(s ast.Stmt) bool {
				is, ok := s.(*ast.IfStmt)
				return ok && is.Else == nil && nodeText(is.Cond) == cond && then(is.Body)
			}
		}
		endsBreak := func(b *ast.BlockStmt) bool {
			return len(b.List) > 0 && nodeText(b.List[len(b.List)-1]) == "break"
		}
		assign := func(lhs string, pred func(*ast.CallExpr) bool) func(ast.Stmt) bool {
			return func(s ast.Stmt) bool {
				as, ok := s.(*ast.AssignStmt)
				if !ok || len(as.Lhs) != 1 || eng.ExprString(as.Lhs[0]) != lhs {
					return false
				}
				e := ast.Unparen(as.Rhs[0])
				if cv, ok := e.(*ast.CallExpr); ok && len(cv.Args) == 1 && eng.ExprString(cv.Fun) == "string" {
					e = ast.Unparen(cv.Args[0])
				}
				call, ok := e.(*ast.CallExpr)
				return ok && pred(call)
			}
		}
		expand := func(tmpl string) func(*ast.CallExpr) bool {
			return func(call *ast.CallExpr) bool {
				return calleeIs(call, "", "Regexp", "ExpandString") && len(call.Args) == 4 && eng.ExprString(call.Args[1]) == tmpl && eng.ExprString(call.Args[2]) == "val" && eng.ExprString(call.Args[3]) == "indexes"
			}
		}
		iIdx := idx(assign("indexes", func(call *ast.CallExpr) bool {
			return calleeIs(call, "", "Regexp", "FindStringSubmatchIndex") && len(call.Args) == 1 && eng.ExprString(call.Args[0]) == "val"
		}))
		iNil := idx(ifWith("indexes == nil", func(b *ast.BlockStmt) bool { return len(b.List) == 1 && endsBreak(b) }))
		iTarget := idx(assign("target", expand("cfg.TargetLabel")))
		iValid := idx(ifWith("!cfg.NameValidationScheme.IsValidLabelName(target)", func(b *ast.BlockStmt) bool { return len(b.List) == 1 && endsBreak(b) }))
		iRes := idx(assign("res", expand("cfg.Replacement")))
		iDel := idx(ifWith("len(res) == 0", func(b *ast.BlockStmt) bool {
			return len(b.List) == 2 && nodeText(b.List[0]) == "lb.Del(target)" && endsBreak(b)
		}))
		iSet := idx(func(s ast.Stmt) bool { return nodeText(s) == "lb.Set(target, string(res))" })
		check("Replace", "the match indexes are those of the regex on the joined source value", iIdx >= 0, blk, "")
		check("Replace", "no match (indexes == nil) ends the rule before anything is expanded or written", iNil > iIdx && iIdx >= 0 && iNil < iTarget && iNil < iRes && iNil < iSet, blk, "")
		check("Replace", "the target name is the target-label template expanded with the match", iTarget > iNil && iNil >= 0, blk, "")
		check("Replace", "an invalid target name ends the rule before anything is written", iValid > iTarget && iTarget >= 0 && (iDel < 0 || iValid < iDel) && iValid < iSet, blk, "")
		check("Replace", "the new value is the replacement template expanded with the match", iRes > iNil && iNil >= 0, blk, "")
		// Builder.Set with an empty value deletes (C38.R3), so the explicit Del arm is optional; if present it must be well placed
		hasLenTest := idx(func(s ast.Stmt) bool {
			is, ok := s.(*ast.IfStmt)
			return ok && strings.Contains(nodeText(is.Cond), "len(res)")
		}) >= 0
		check("Replace", "an empty new value deletes the target label (explicit Del before the Set, or left to Builder.Set)", iRes >= 0 && (!hasLenTest || iDel > iRes && iDel < iSet), blk, "")
		check("Replace", "otherwise the target label is set to the new value (last statement of the arm)", iSet == len(body)-1 && iSet >= 0, blk, "")
		// fast path
		fp := idx(func(s ast.Stmt) bool {
			is, ok := s.(*ast.IfStmt)
			return ok && strings.Contains(nodeText(is.Body), "lb.Set(cfg.TargetLabel, cfg.Replacement)")
		})
		fpOK := false
		if fp >= 0 {
			is := body[fp].(*ast.IfStmt)
			conj := map[string]bool{}
			for _, cj := range strings.Split(nodeText(is.Cond), " && ") {
				conj[strings.TrimSpace(cj)] = true
			}
			fpOK = len(conj) == 4 && conj[`val == ""`] && conj["cfg.Regex == DefaultRelabelConfig.Regex"] && conj["!varInRegexTemplate(cfg.TargetLabel)"] && conj["!varInRegexTemplate(cfg.Replacement)"] &&
				len(is.Body.List) == 2 && endsBreak(is.Body) && fp < iIdx
		}
		check("Replace", "the fast path (set target to the literal replacement) is taken only for an empty source value, the default regex and templates without `$`", fpOK, blk, "each conjunct is needed: with a non-empty value or another regex the match decides; with `$` in a template the expansion differs from the literal")
	}
}
