package main

import (
	"fmt"
	"go/ast"
	"strings"

	"promverif/eng"
)

// C54.R4 (added for seed C54-c): genericMergeSeriesSet reports a failed source through Err() and Warnings(), which
// walk c.sets.  Next() rebuilds c.currentSets on every step, so currentSets must own its backing array: initialised
// as nil / by make, re-sliced from itself, or appended to — never a slice of another field or of a parameter (a
// shared array lets Next overwrite the entries of c.sets, and the failed primary is forgotten).
func runC54Alias(c *eng.Ctx) {
	p := c.P
	fld := "storage:genericMergeSeriesSet.currentSets"
	n := 0
	okRHS := func(t string) bool {
		return t == "nil" || strings.HasPrefix(t, "make(") || strings.HasSuffix(t, ".currentSets[:0]") || strings.HasPrefix(t, "append(c.currentSets") || strings.Contains(t, ".currentSets, ")
	}
	for _, o := range p.FindAll(p.Store(fld)) {
		as, ok := o.Node.(*ast.AssignStmt)
		if !ok {
			continue
		}
		for i, l := range as.Lhs {
			if strings.HasSuffix(nodeText(l), ".currentSets") && i < len(as.Rhs) {
				n++
				t := nodeText(as.Rhs[i])
				c.Check("R4", o.In, "currentSets keeps its own backing array ("+nodeText(as)+")", okRHS(t), p.Pos(as.Pos()), "")
			}
		}
	}
	// composite literals of the struct
	for _, fs := range p.AllFuncs() {
		if fs.Decl.Body == nil || !strings.HasSuffix(fs.Pkg.PkgPath, "/storage") {
			continue
		}
		ast.Inspect(fs.Decl.Body, func(x ast.Node) bool {
			cl, ok := x.(*ast.CompositeLit)
			if !ok || !strings.HasSuffix(nodeText(cl.Type), "genericMergeSeriesSet") {
				return true
			}
			n++
			val := "nil"
			for _, e := range cl.Elts {
				if kv, ok := e.(*ast.KeyValueExpr); ok && nodeText(kv.Key) == "currentSets" {
					val = nodeText(kv.Value)
				}
			}
			c.Check("R4", eng.FuncName(fs.Obj), "a new merge set starts with a currentSets slice of its own", okRHS(val), p.Pos(cl.Pos()),
				"currentSets: "+val+" shares its array with another slice: Next() overwrites the sources that Err() and Warnings() walk, so a primary that failed on a later step is forgotten and the query succeeds truncated")
			return true
		})
	}
	c.Check("R4", "storage", "initialisations and assignments of currentSets examined (≥ 2)", n >= 2, "", fmt.Sprint(n))
}
