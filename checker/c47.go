package main

import (
	"go/ast"
	"strings"

	"promverif/eng"
)

func init() {
	register(&Property{
		ID:        "C47",
		Title:     "Service discovery delivers the latest target state to its consumer",
		Technique: "must-hold lockset for the target table and acyclic lock order (manager → provider → targets); channel-protocol rules on the AST/CFG of sender and updater: what is sent on the sync channel is a snapshot taken in the send statement itself, a failed delivery re-arms the one-slot trigger, every applied update and every config reload raises the trigger without blocking",
		DesignRef: "DESIGN.md §5 C47",
		Level: "Decides that the target table is only accessed under its mutex and that the three mutexes are always taken in the order manager, provider, targets; that every provider update is applied to all subscriptions and followed by a non-blocking raise of the send trigger, that a config reload raises it too; " +
			"that the sender sends, in the very statement that offers to the consumer, a snapshot computed at that moment (never a value kept from an earlier attempt), that when the consumer is busy it re-arms the trigger so that the next cycle sends a newer snapshot, and that an empty target group removes its source while empty subscriptions are still reported.",
		Note:           "Trusted: go/packages, go/types, go/cfg; receiver-insensitive lock identification; rule tables in checker/c47.go.",
		Covers:         "Manager.sender, updater, ApplyConfig (trigger), updateGroup, allGroups, cleaner; lockset of Manager.targets; lock order mtx/Provider.mu/targetsMtx.",
		NotCover:       "timing (back-off), convergence under continuous updates, what the providers report.",
		Run:            runC47,
		MinObligations: 24,
	})
}

func runC47(c *eng.Ctx) {
	p := c.P
	M := "discovery:Manager"
	// ---- R1 locks ----
	c.GuardedBy("R1", M+".targets", M+".targetsMtx", eng.GuardOpts{Min: 10, Unlocked: map[string]string{"discovery:NewManager": "constructor"}})
	c.LockOrder("R1", M+".mtx", "discovery:Provider.mu")
	c.LockOrder("R1", M+".mtx", M+".targetsMtx")
	c.LockOrder("R1", "discovery:Provider.mu", M+".targetsMtx")
	// ---- R2 sender ----
	s := c.Fn(M + ".sender")
	isCh := func(field string) func(g *eng.Graph, ch ast.Expr) bool {
		return func(g *eng.Graph, ch ast.Expr) bool { return eng.ExprIsField(g.Info, ch, p.Field(M+"."+field)) }
	}
	sendSync := eng.Send("m.syncCh <- …", isCh("syncCh"))
	trig := eng.Send("m.triggerSend <- struct{}{}", isCh("triggerSend"))
	s.Has("R2", sendSync, 1)
	s.Only("R2", sendSync, "offers a snapshot taken in this very statement (m.allGroups())", func(l eng.Loc) bool {
		ss := l.Node.(*ast.SendStmt)
		call, ok := ss.Value.(*ast.CallExpr)
		return ok && p.Call(M+".allGroups").F(s.Graph, call, eng.Plain)
	})
	c.CallersSubset("R2", M+".allGroups", 1, M+".sender")
	// a failed offer re-arms the trigger
	s.AstEvery("R2", "select offering the snapshot", func(n ast.Node) bool {
		sel, ok := n.(*ast.SelectStmt)
		if !ok {
			return false
		}
		for _, cl := range sel.Body.List {
			if cc := cl.(*ast.CommClause); cc.Comm != nil && strings.HasPrefix(nodeText(cc.Comm), "m.syncCh <- ") {
				return true
			}
		}
		return false
	}, "has a default arm that puts the trigger back without blocking", func(n ast.Node) bool {
		for _, cl := range n.(*ast.SelectStmt).Body.List {
			cc := cl.(*ast.CommClause)
			if cc.Comm == nil {
				t := nodeText(&ast.BlockStmt{List: cc.Body})
				return strings.Contains(t, "select { case m.triggerSend <- struct{}{}: default: }")
			}
		}
		return false
	}, 1)
	s.Dom("R2", eng.Node("<-m.triggerSend", func(g *eng.Graph, n ast.Node) bool { return nodeText(n) == "<-m.triggerSend" }), sendSync)
	s.Has("R2", eng.Deferred(eng.Node("close(m.syncCh)", func(g *eng.Graph, n ast.Node) bool { return nodeText(n) == "close(m.syncCh)" })), 1)
	// ---- R2b updater / reload raise the trigger ----
	u := c.Fn(M + ".updater")
	upd := p.Call(M + ".updateGroup")
	u.Has("R2", upd, 1)
	u.AstEvery("R2", "loop applying an update", u.RangeLoopWith(upd), "covers every subscription of the provider", func(n ast.Node) bool {
		return eng.ExprString(n.(*ast.RangeStmt).X) == "p.subs"
	}, 1)
	u.NoPathAvoid("R2", eng.LoopOver(upd), eng.Node("<-updates", func(g *eng.Graph, n ast.Node) bool { return nodeText(n) == "<-updates" }), "raise of the trigger", u.Find(trig))
	u.AstEvery("R2", "select raising the trigger", func(n ast.Node) bool {
		sel, ok := n.(*ast.SelectStmt)
		if !ok {
			return false
		}
		for _, cl := range sel.Body.List {
			if cc := cl.(*ast.CommClause); cc.Comm != nil && nodeText(cc.Comm) == "m.triggerSend <- struct{}{}" {
				return true
			}
		}
		return false
	}, "does not block (has an empty default arm)", func(n ast.Node) bool {
		return nodeText(n) == "select { case m.triggerSend <- struct{}{}: default: }"
	}, 1)
	a := c.Fn(M + ".ApplyConfig")
	a.Has("R2", trig, 1)
	a.Only("R2", trig, "is skipped only when there are no providers", func(l eng.Loc) bool { return a.UnderCond(l, "len(m.providers) > 0") })
	a.AllPaths("R2", eng.CallNamed("startProvider"), eng.CondTest("len(m.providers) > 0"), eng.OKExit)
	// ---- R3 table content ----
	ug := c.Fn(M + ".updateGroup")
	ug.AstEvery("R3", "handling of one target group", func(n ast.Node) bool {
		is, ok := n.(*ast.IfStmt)
		return ok && eng.ExprString(is.Cond) == "len(tg.Targets) > 0"
	}, "stores a non-empty group under its source and deletes the source otherwise", func(n ast.Node) bool {
		is := n.(*ast.IfStmt)
		return nodeText(is.Body) == "{ m.targets[poolKey][tg.Source] = tg }" && is.Else != nil && strings.Contains(nodeText(is.Else), "delete(m.targets[poolKey], tg.Source)")
	}, 1)
	ag := c.Fn(M + ".allGroups")
	ag.AstEvery("R3", "per-subscription loop of the snapshot", func(n ast.Node) bool {
		rs, ok := n.(*ast.RangeStmt)
		return ok && eng.ExprString(rs.X) == "p.subs"
	}, "reports every subscription, also one without targets (empty list)", func(n ast.Node) bool {
		return strings.Contains(nodeText(n.(*ast.RangeStmt).Body), "tSets[s] = []*targetgroup.Group{}")
	}, 1)
	ag.AstEvery("R3", "provider loop of the snapshot", func(n ast.Node) bool {
		rs, ok := n.(*ast.RangeStmt)
		return ok && eng.ExprString(rs.X) == "m.providers"
	}, "exists", func(ast.Node) bool { return true }, 1)
	// ---- R4 reload: a job newly served by a running provider starts from that provider's current groups ----
	// (a static or slow provider may never send again, so without the copy the new job would stay empty)
	var refFrom, copied, keyed bool
	var subsSwap, subsReset, provKept, provInstalled int
	ast.Inspect(a.Body, func(n ast.Node) bool {
		switch x := n.(type) {
		case *ast.RangeStmt:
			switch eng.ExprString(x.X) {
			case "prov.subs":
				if x.Key != nil && strings.Contains(nodeText(x.Body), "refTargets = m.targets[poolKey{"+eng.ExprString(x.Key)+", prov.name}]") {
					refFrom = true
				}
			case "prov.newSubs":
				if x.Key != nil {
					k := "m.targets[poolKey{" + eng.ExprString(x.Key) + ", prov.name}]"
					t := nodeText(x.Body)
					keyed = strings.Contains(t, k+" = ")
					copied = strings.Contains(t, "maps.Copy("+k+", refTargets)") || strings.Contains(t, k+" = maps.Clone(refTargets)") || strings.Contains(t, k+" = refTargets")
				}
			}
		case *ast.AssignStmt:
			switch nodeText(x) {
			case "prov.subs = prov.newSubs":
				subsSwap = int(x.Pos())
			case "prov.newSubs = map[string]struct{}{}":
				subsReset = int(x.Pos())
			case "newProviders = append(newProviders, prov)":
				provKept = int(x.Pos())
			case "m.providers = newProviders":
				provInstalled = int(x.Pos())
			}
		}
		return true
	})
	c.Check("R4", a.Where(), "the reference groups for new subscriptions are read from an existing subscription of the same provider", refFrom, p.Pos(a.Body.Pos()), "")
	c.Check("R4", a.Where(), "every new subscription of a kept provider receives the provider's current groups under its own pool key", keyed && copied, p.Pos(a.Body.Pos()),
		"a job added to a provider that is already running (same SD config as another job) would otherwise have no targets until the provider sends again — never, for static configs")
	c.Check("R4", a.Where(), "the provider's subscriptions are replaced by the new ones before the new set is reset", subsSwap > 0 && subsReset > subsSwap, p.Pos(a.Body.Pos()), "")
	c.Check("R4", a.Where(), "kept providers are collected and installed as the provider list", provKept > 0 && provInstalled > provKept, p.Pos(a.Body.Pos()), "")
	a.DomOK("R4", eng.Node("m.providers = newProviders", func(g *eng.Graph, n ast.Node) bool { return nodeText(n) == "m.providers = newProviders" }))
}
