package main

import (
	"go/ast"
	"strings"

	"promverif/eng"
)

// C21.R4 (added for seed C21-c): the exemplar ring keeps acceptance order by position: the oldest entry is at
// nextIndex, the newest just before it.  Growing the ring has to lay the entries out in that order from slot 0 —
// copy [nextIndex, oldSize) and then [0, nextIndex) — and continue writing right behind them; a position-preserving
// copy puts the free slots into the middle of the sequence, so the next evictions hit the newest old entries.
func runC21Grow(c *eng.Ctx) {
	p := c.P
	g := c.Fn("tsdb:CircularExemplarStorage.grow")
	var ranges []string
	ast.Inspect(g.Body, func(n ast.Node) bool {
		cl, ok := n.(*ast.CompositeLit)
		if !ok || nodeText(cl.Type) != "[]intRange" {
			return true
		}
		for _, e := range cl.Elts {
			ranges = append(ranges, nodeText(e))
		}
		return true
	})
	c.Check("R4", g.Where(), "the old entries are copied in ring order: [nextIndex, oldSize) first, then [0, nextIndex)", len(ranges) == 2 && ranges[0] == "{from: ce.nextIndex, to: oldSize}" && ranges[1] == "{from: 0, to: ce.nextIndex}", p.Pos(g.Body.Pos()), strings.Join(ranges, " ; "))
	g.Has("R4", p.Call("tsdb:copyExemplarRanges"), 1)
	g.Only("R4", eng.AssignVar("totalCopied"), "is the number of entries laid out by copyExemplarRanges", func(l eng.Loc) bool {
		return strings.HasPrefix(nodeText(l.Node), "totalCopied, migrated := copyExemplarRanges(") || strings.HasPrefix(nodeText(l.Node), "totalCopied, migrated = copyExemplarRanges(")
	})
	g.Only("R4", p.Store("tsdb:CircularExemplarStorage.nextIndex"), "continues writing right behind the copied entries", func(l eng.Loc) bool {
		return nodeText(l.Node) == "ce.nextIndex = totalCopied"
	})
	g.Dom("R4", p.Call("tsdb:copyExemplarRanges"), p.Store("tsdb:CircularExemplarStorage.exemplars"))
}
