package main

import (
	"go/ast"
	"strings"

	"promverif/eng"
)

// C32.R6 (finding F48): BucketQuantile normalises the caller's bucket slice in place (sort, coalesce equal bounds,
// force monotonic counts) and histogram_quantiles calls it once per quantile with the same slice, so the
// normalisation has to be repeatable: coalesceBuckets returns a shorter slice, and what it leaves behind that
// length in the caller's slice must not be counted again.
func runC32Repeatable(c *eng.Ctx) {
	p := c.P
	cb := c.Fn("promql:coalesceBuckets")
	param := cb.Decl.Type.Params.List[0].Names[0].Name
	shortens := false
	ast.Inspect(cb.Body, func(n ast.Node) bool {
		if rs, ok := n.(*ast.ReturnStmt); ok && len(rs.Results) == 1 {
			if se, ok := rs.Results[0].(*ast.SliceExpr); ok && nodeText(se.X) == param && se.High != nil {
				shortens = true
			}
		}
		return true
	})
	writes := len(cb.Find(eng.Node("write into the argument", func(g *eng.Graph, n ast.Node) bool {
		as, ok := n.(*ast.AssignStmt)
		return ok && len(as.Lhs) == 1 && strings.HasPrefix(nodeText(as.Lhs[0]), param+"[")
	}))) > 0
	// the tail is neutralised: a loop from the kept length to len(argument) that overwrites every element
	tail := false
	ast.Inspect(cb.Body, func(n ast.Node) bool {
		fs, ok := n.(*ast.ForStmt)
		if !ok || fs.Cond == nil {
			return true
		}
		if strings.HasSuffix(nodeText(fs.Cond), "< len("+param+")") && strings.Contains(nodeText(fs.Body), param+"[") && strings.Contains(nodeText(fs.Body), "Bucket{UpperBound: ") && !strings.Contains(nodeText(fs.Body), "Count:") {
			tail = true
		}
		return true
	})
	c.Check("R6", cb.Where(), "compacts the caller's slice in place and returns it shorter (the shape the rule is about)", shortens && writes, p.Pos(cb.Body.Pos()), "")
	c.Check("R6", cb.Where(), "the elements behind the returned length are overwritten with empty buckets (a second normalisation of the same slice counts nothing twice)", tail, p.Pos(cb.Body.Pos()),
		"the stale tail still holds a copy of the +Inf bucket; the next BucketQuantile call on the same slice sorts it next to the real one and adds it (total 20 → 40 → 60)")
	// who re-applies it: calls of BucketQuantile inside a loop over quantiles with a slice that outlives the iteration
	hq := c.Fn("promql:funcHistogramQuantiles")
	hq.Has("R6", p.Call("promql:BucketQuantile"), 1)
}
