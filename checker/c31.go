package main

import (
	"go/ast"

	"promverif/eng"
)

func init() {
	register(&Property{
		ID:             "C31",
		Title:          "Native histogram arithmetic preserves bucket semantics",
		Technique:      "structural sibling equality (E6) of the near-copies that must stay in step (Add/Sub, integer/float CopyTo, Copy, Compact, ReduceResolution), with the sign and the delta-encoding flag as the only declared differences; out-parameter completeness (every field of a re-used destination histogram is assigned on every path) and polarity agreement (positive from positive, negative from negative) for ToFloat and CopyTo",
		DesignRef:      "DESIGN.md §5 C31",
		Level:          "Decides only that the copies stay in step and lose no field: FloatHistogram.Sub is FloatHistogram.Add with -= for += and the `negative` flag set in every bucket-combining call; the integer and float variants of CopyTo, Copy, Compact and ReduceResolution are equal up to the delta-buckets flag; Histogram.ToFloat and both CopyTo assign every field of the (possibly re-used) destination on every path, the positive side from the positive side and the negative from the negative.",
		Note:           "Trusted: go/packages, go/types, go/cfg; difference tables in checker/c31.go.",
		Covers:         "model/histogram: FloatHistogram.{Add,Sub,CopyTo,Copy,Compact,ReduceResolution}, Histogram.{ToFloat,CopyTo,Copy,Compact,ReduceResolution}.",
		NotCover:       "the arithmetic itself: addBuckets/kahanAddBuckets, zero-bucket reconciliation, resolution reduction, compaction, counter-reset detection (all value-level).",
		Run:            runC31,
		MinObligations: 12,
	})
}

func runC31(c *eng.Ctx) {
	defer runC31Skip(c)
	p := c.P
	H := "model/histogram:"
	// ---- R1 Add / Sub ----
	flag := func(a string, ar, br string) eng.SiblingDiff {
		return eng.SiblingDiff{A: a, B: replaceOnce(a, ar, br), Why: "subtraction sets the `negative` flag"}
	}
	_ = flag
	c.SiblingsEqual("R1", H+"FloatHistogram.Add", H+"FloatHistogram.Sub", nil, []eng.SiblingDiff{
		{A: "h.ZeroCount += otherZeroCount", B: "h.ZeroCount -= otherZeroCount", Why: "sign", Must: true},
		{A: "h.Count += other.Count", B: "h.Count -= other.Count", Why: "sign", Must: true},
		{A: "h.Sum += other.Sum", B: "h.Sum -= other.Sum", Why: "sign", Must: true},
		{A: "h.PositiveSpans, h.PositiveBuckets = addBuckets(h.Schema, h.ZeroThreshold, false, hPositiveSpans, hPositiveBuckets, otherPositiveSpans, otherPositiveBuckets)",
			B: "h.PositiveSpans, h.PositiveBuckets = addBuckets(h.Schema, h.ZeroThreshold, true, hPositiveSpans, hPositiveBuckets, otherPositiveSpans, otherPositiveBuckets)", Why: "`negative` flag", Must: true},
		{A: "h.PositiveSpans, h.PositiveBuckets = addBuckets(h.Schema, h.ZeroThreshold, false, hPositiveSpans, hPositiveBuckets, otherPositiveSpans, otherPositiveBuckets)",
			B: "h.PositiveSpans, h.PositiveBuckets = addBuckets(h.Schema, h.ZeroThreshold, true, hPositiveSpans, hPositiveBuckets, otherPositiveSpans, otherPositiveBuckets)", Why: "`negative` flag (second call site: mismatched custom bounds reconciled)", Must: true},
		{A: "h.NegativeSpans, h.NegativeBuckets = addBuckets(h.Schema, h.ZeroThreshold, false, hNegativeSpans, hNegativeBuckets, otherNegativeSpans, otherNegativeBuckets)",
			B: "h.NegativeSpans, h.NegativeBuckets = addBuckets(h.Schema, h.ZeroThreshold, true, hNegativeSpans, hNegativeBuckets, otherNegativeSpans, otherNegativeBuckets)", Why: "`negative` flag", Must: true},
		{A: "h.PositiveSpans, h.PositiveBuckets, _ = addCustomBucketsWithMismatches(false, hPositiveSpans, hPositiveBuckets, h.CustomValues, otherPositiveSpans, otherPositiveBuckets, other.CustomValues, nil, intersectedBounds)",
			B: "h.PositiveSpans, h.PositiveBuckets, _ = addCustomBucketsWithMismatches(true, hPositiveSpans, hPositiveBuckets, h.CustomValues, otherPositiveSpans, otherPositiveBuckets, other.CustomValues, nil, intersectedBounds)", Why: "`negative` flag", Must: true},
	})
	for _, fn := range []string{"FloatHistogram.Add", "FloatHistogram.Sub", "FloatHistogram.KahanAdd"} {
		c.PolarityAgree("R1", H+fn, []string{"Positive", "Negative"}, 4)
	}
	// ---- R2 integer / float copies ----
	c.SiblingsEqual("R2", H+"Histogram.CopyTo", H+"FloatHistogram.CopyTo", histRenames, nil)
	c.SiblingsEqual("R2", H+"Histogram.Copy", H+"FloatHistogram.Copy", histRenames, nil)
	deltaFlag := func(fn, neg string) []eng.SiblingDiff {
		return []eng.SiblingDiff{
			{A: replaceAll(fn, "$S", "Positive", "$F", "true"), B: replaceAll(fn, "$S", "Positive", "$F", "false"), Why: "integer buckets are deltas"},
			{A: replaceAll(fn, "$S", "Negative", "$F", "true"), B: replaceAll(fn, "$S", "Negative", "$F", "false"), Why: "integer buckets are deltas"},
		}
	}
	for _, k := range [][2]string{{"Histogram.Compact", "true"}, {"FloatHistogram.Compact", "false"}} {
		f := c.Fn(H + k[0])
		for _, side := range []string{"Positive", "Negative"} {
			txt := "h." + side + "Buckets, _, h." + side + "Spans = compactBuckets(h." + side + "Buckets, nil, h." + side + "Spans, maxEmptyBuckets, " + k[1] + ")"
			f.DomOK("R2", eng.Node(txt, func(g *eng.Graph, n ast.Node) bool { return nodeText(n) == txt }))
		}
	}
	c.SiblingsEqual("R2", H+"Histogram.ReduceResolution", H+"FloatHistogram.ReduceResolution", histRenames, deltaFlag("if h.$SSpans, h.$SBuckets, err = reduceResolution(h.$SSpans, h.$SBuckets, h.Schema, targetSchema, $F, true); err != nil {", ""))
	// ---- R3 every field of a re-used destination is assigned; positive from positive ----
	for _, k := range [][3]string{{"Histogram.ToFloat", "FloatHistogram", "fh"}, {"Histogram.CopyTo", "Histogram", "to"}, {"FloatHistogram.CopyTo", "FloatHistogram", "to"}} {
		f := c.Fn(H + k[0])
		for _, fld := range eng.StructFields(p.Named(H + k[1])) {
			st := p.Store(H + k[1] + "." + fld)
			f.DomOK("R3", st.Named(k[2]+"."+fld+" assigned"))
		}
		c.PolarityAgree("R3", H+k[0], []string{"Positive", "Negative"}, 8)
	}
	tf := c.Fn(H + "Histogram.ToFloat")
	tf.Only("R3", p.Store(H+"FloatHistogram.Count"), "converts the integer count", func(l eng.Loc) bool { return nodeText(l.Node) == "fh.Count = float64(h.Count)" })
	tf.Only("R3", p.Store(H+"FloatHistogram.Sum"), "copies the sum", func(l eng.Loc) bool { return nodeText(l.Node) == "fh.Sum = h.Sum" })
	tf.AstEvery("R3", "bucket loop", func(n ast.Node) bool { _, ok := n.(*ast.RangeStmt); return ok }, "accumulates the deltas into absolute counts", func(n ast.Node) bool {
		t := nodeText(n.(*ast.RangeStmt).Body)
		return t == "{ currentNegative += float64(b) fh.NegativeBuckets[i] = currentNegative }" || t == "{ currentPositive += float64(b) fh.PositiveBuckets[i] = currentPositive }"
	}, 2)
	// ---- R4 a wider zero bucket swallows a bucket boundary only when the bucket it cuts is populated ----
	{
		z := c.Fn(H + "FloatHistogram.zeroCountForLargerThreshold")
		widen := eng.AssignVar("largerThreshold")
		z.Has("R4", widen, 2)
		z.Only("R4", widen, "moves the threshold to the bucket's outer boundary only for a populated bucket that the threshold cuts", func(l eng.Loc) bool {
			cs := z.CondsOf(l.Node)
			if len(cs) < 2 || cs[len(cs)-1] != "b.Count != 0=T" {
				return false
			}
			t := nodeText(l.Node)
			outer := cs[len(cs)-2]
			return (t == "largerThreshold = b.Upper" && outer == "b.Upper > largerThreshold=T") || (t == "largerThreshold = -b.Lower" && outer == "b.Lower < -largerThreshold=T")
		})
		// after widening on the negative side the positive side is redone
		conts := z.Branches("continue")
		c.Check("R4", z.Where(), "widening on the negative side restarts the whole computation", len(conts) == 1 && len(conts[0].Conds) > 0 && conts[0].Conds[len(conts[0].Conds)-1] == "b.Count != 0=T", p.Pos(z.Body.Pos()), "")
	}
}

func replaceOnce(s, a, b string) string { return replaceAll(s, a, b) }

func replaceAll(s string, kv ...string) string {
	for i := 0; i+1 < len(kv); i += 2 {
		for {
			j := indexOf(s, kv[i])
			if j < 0 {
				break
			}
			s = s[:j] + kv[i+1] + s[j+len(kv[i]):]
		}
	}
	return s
}

func indexOf(s, sub string) int {
	for i := 0; i+len(sub) <= len(s); i++ {
		if s[i:i+len(sub)] == sub {
			return i
		}
	}
	return -1
}
