package main

import (
	"fmt"
	"go/ast"
	"strings"

	"promverif/eng"
)

// C30.R6 (added for seed C30-b): the start timestamps handed to rate/increase/irate/resets travel in slices
// parallel to the float and histogram windows (startTimestamps.Floats[i] belongs to floats[i]).  matrixIterSlice
// reuses the window of the previous step; every change of a window's length has its twin on the parallel slice, in
// the same arm, under `startTimestamps != nil`:
//   - the overlap arm drops the same prefix (copy + reslice by the same `drop`),
//   - the no-overlap arm clears both,
//   - every append of a point is followed, in the same case arm, by one append of its start timestamp.
func runC30Align(c *eng.Ctx) {
	p := c.P
	f := c.Fn("promql:evaluator.matrixIterSlice")
	where := f.Where()
	for _, pr := range [][2]string{{"floats", "startTimestamps.Floats"}, {"histograms", "startTimestamps.Histograms"}} {
		X, S := pr[0], pr[1]
		// the reuse decision
		var reuse *ast.IfStmt
		for _, st := range f.Body.List {
			if is, ok := st.(*ast.IfStmt); ok && strings.HasPrefix(nodeText(is.Cond), "len("+X+") > 0 && "+X+"[len("+X+")-1].T > mint") {
				reuse = is
			}
		}
		if reuse == nil || reuse.Else == nil {
			c.Fail("R6", where, "window reuse decision for "+X+" found", p.Pos(f.Body.Pos()), "")
			continue
		}
		guarded := func(blk ast.Node, wants ...string) bool {
			ok := false
			ast.Inspect(blk, func(n ast.Node) bool {
				is, isIf := n.(*ast.IfStmt)
				if !isIf || nodeText(is.Cond) != "startTimestamps != nil" {
					return true
				}
				t := nodeText(is.Body)
				all := true
				for _, w := range wants {
					all = all && strings.Contains(t, w)
				}
				ok = ok || all
				return true
			})
			return ok
		}
		thenT := nodeText(reuse.Body)
		dropsX := strings.Contains(thenT, "copy("+X+", "+X+"[drop:])") && strings.Contains(thenT, X+" = "+X+"[:len("+X+")-drop]")
		c.Check("R6", where, "overlap arm of "+X+": the parallel start-timestamp slice drops the same prefix", dropsX && guarded(reuse.Body, "copy("+S+", "+S+"[drop:])", S+" = "+S+"[:len("+S+")-drop]"), p.Pos(reuse.Pos()), "")
		elseT := nodeText(reuse.Else)
		c.Check("R6", where, "no-overlap arm of "+X+": the parallel start-timestamp slice is cleared with the window", strings.Contains(elseT, X+" = "+X+"[:0]") && guarded(reuse.Else, S+" = "+S+"[:0]"), p.Pos(reuse.Else.Pos()),
			"the window restarts empty while old start timestamps stay in front: index i of the parallel slice no longer belongs to point i")
		// appends: per case arm
		nGrow, nPaired := 0, 0
		ast.Inspect(f.Body, func(n ast.Node) bool {
			cc, ok := n.(*ast.CaseClause)
			if !ok {
				return true
			}
			t := nodeText(&ast.BlockStmt{List: cc.Body})
			g := strings.Count(t, X+" = append("+X+", ")
			if g == 0 {
				return true
			}
			nGrow += g
			s := strings.Count(t, S+" = append("+S+", ")
			if s == g && strings.Index(t, S+" = append(") > strings.Index(t, X+" = append(") && guarded(&ast.BlockStmt{List: cc.Body}, S+" = append("+S+", ") {
				nPaired += g
			}
			return true
		})
		c.Check("R6", where, fmt.Sprintf("every append to %s is followed in its case arm by one append of the point's start timestamp (%d arms)", X, nGrow), nGrow >= 2 && nPaired == nGrow, p.Pos(f.Body.Pos()), fmt.Sprintf("%d of %d paired", nPaired, nGrow))
	}
}
