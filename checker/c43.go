package main

import (
	"fmt"
	"go/ast"
	"strings"

	"promverif/eng"
)

func init() {
	register(&Property{
		ID:        "C43",
		Title:     "OTLP metrics are converted as documented",
		Technique: "enum exhaustiveness of pmetric.MetricType in the two dispatch switches (go/types constants of the imported package vs case lists); family rule that every data-point converter consults the no-recorded-value flag and both native-histogram converters branch on delta temporality; sibling-consistency rule inside convertBucketsLayout (the merged bucket index is computed with the same arithmetic-shift down-scaling at every site)",
		DesignRef: "DESIGN.md §5 C43",
		Level: "Decides that every OTLP metric type other than Empty is dispatched to a converter (and an unknown type is reported as an error, not dropped), that every data-point converter turns the no-recorded-value flag into a staleness marker path, that the two native-histogram converters distinguish delta temporality, " +
			"that aggregationTemporality covers the three metric types that carry a temporality, and that all places in convertBucketsLayout that down-scale a bucket index do it by arithmetic right shift (rounding toward −∞), so the loop and the final flush agree.",
		Note:           "Trusted: go/packages, go/types (export data of go.opentelemetry.io/collector/pdata), go/cfg; rule tables in checker/c43.go.",
		Covers:         "PrometheusConverter.FromMetrics dispatch, TranslatorMetricFromOtelMetric, addGaugeNumberDataPoints, addSumNumberDataPoints, addHistogramDataPoints, addSummaryDataPoints, exponentialToNativeHistogram, explicitHistogramToCustomBucketsHistogram, aggregationTemporality, convertBucketsLayout.",
		NotCover:       "bucket re-scaling results, sums and counts, timestamps, label translation.",
		Run:            runC43,
		MinObligations: 16,
	})
}

func runC43(c *eng.Ctx) {
	defer runC43Stale(c)
	p := c.P
	P := "storage/remote/otlptranslator/prometheusremotewrite:"
	MT := "go.opentelemetry.io/collector/pdata/pmetric:MetricType"
	empty := map[string]string{"MetricTypeEmpty": "a metric without data; nothing to convert"}
	// ---- R1 dispatch ----
	fm := c.Fn(P + "PrometheusConverter.FromMetrics")
	fm.SwitchCovers("R1", MT, 1, empty)
	for _, sw := range fm.EnumSwitches(MT) {
		ok := sw.Default != nil && strings.Contains(nodeText(&ast.BlockStmt{List: sw.Default.Body}), "errs = errors.Join(errs,")
		c.Check("R1", fm.Where(), "an unsupported metric type is reported as an error", ok, p.Pos(sw.Stmt.Pos()), "")
	}
	c.Fn(P+"TranslatorMetricFromOtelMetric").SwitchCovers("R1", MT, 1, empty)
	conv := map[string]string{"MetricTypeGauge": "addGaugeNumberDataPoints", "MetricTypeSum": "addSumNumberDataPoints", "MetricTypeHistogram": "addHistogramDataPoints",
		"MetricTypeExponentialHistogram": "addExponentialHistogramDataPoints", "MetricTypeSummary": "addSummaryDataPoints"}
	for _, sw := range fm.EnumSwitches(MT) {
		for k, fn := range conv {
			cl := sw.Clauses[k]
			ok := cl != nil && strings.Contains(nodeText(&ast.BlockStmt{List: cl.Body}), "c."+fn+"(")
			pos := p.Pos(sw.Stmt.Pos())
			c.Check("R1", fm.Where(), "case "+k+" calls "+fn, ok, pos, "")
		}
	}
	at := c.Fn(P + "aggregationTemporality")
	at.SwitchCovers("R1", MT, 1, map[string]string{"MetricTypeEmpty": "", "MetricTypeGauge": "no temporality", "MetricTypeSummary": "no temporality"})
	// ---- R2 family obligations of the data-point converters ----
	flag := eng.CallNamed("NoRecordedValue")
	for _, fn := range []string{"PrometheusConverter.addGaugeNumberDataPoints", "PrometheusConverter.addSumNumberDataPoints", "PrometheusConverter.addHistogramDataPoints",
		"PrometheusConverter.addSummaryDataPoints", "exponentialToNativeHistogram", "explicitHistogramToCustomBucketsHistogram"} {
		f := c.Fn(P + fn)
		f.Has("R2", flag, 1)
		f.AstEvery("R2", "test of the no-recorded-value flag", func(n ast.Node) bool {
			is, ok := n.(*ast.IfStmt)
			return ok && strings.Contains(eng.ExprString(is.Cond), "Flags().NoRecordedValue()")
		}, "writes a staleness marker", func(n ast.Node) bool {
			return strings.Contains(nodeText(n.(*ast.IfStmt).Body), "StaleNaN")
		}, 1)
	}
	for _, fn := range []string{"exponentialToNativeHistogram", "explicitHistogramToCustomBucketsHistogram"} {
		f := c.Fn(P + fn)
		f.Has("R2", eng.CondTest("temporality == pmetric.AggregationTemporalityDelta"), 1)
	}
	// ---- R3 one way of down-scaling an index ----
	cb := c.Fn(P + "convertBucketsLayout")
	var stack []ast.Node
	n, bad := 0, ""
	ast.Inspect(cb.Body, func(x ast.Node) bool {
		if x == nil {
			stack = stack[:len(stack)-1]
			return true
		}
		stack = append(stack, x)
		if id, ok := x.(*ast.Ident); ok && id.Name == "scaleDown" && len(stack) >= 2 {
			n++
			be, isBin := stack[len(stack)-2].(*ast.BinaryExpr)
			if !isBin || be.Op.String() != ">>" || be.Y != x {
				bad = p.Pos(id.Pos())
			}
		}
		return true
	})
	c.Check("R3", cb.Where(), "every use of scaleDown is the count of an arithmetic right shift of a bucket index (same rounding in the loop, the first offset and the final flush)", bad == "" && n >= 3, bad, "")
	c.CallersSubset("R3", P+"convertBucketsLayout", 3, P+"exponentialToNativeHistogram", P+"explicitHistogramToCustomBucketsHistogram")
	// ---- R4 merging of source buckets into one target bucket: the merge test follows the running count ----
	// `count` accumulates the source buckets of one target bucket; the test "does the next source bucket fall into the
	// same target bucket" must compare with the index count is accumulating for.  Whenever count is restarted for a new
	// target bucket, that index is updated in the same block (finding F12/F26).
	{
		var loop *ast.RangeStmt
		ast.Inspect(cb.Body, func(n ast.Node) bool {
			if rs, ok := n.(*ast.RangeStmt); ok && strings.Contains(nodeText(rs.Body), "nextBucketIdx :=") && loop == nil {
				loop = rs
			}
			return true
		})
		mergeVar := ""
		if loop != nil {
			for _, st := range loop.Body.List {
				if is, ok := st.(*ast.IfStmt); ok {
					if be, ok := is.Cond.(*ast.BinaryExpr); ok && be.Op.String() == "==" && nodeText(be.Y) == "nextBucketIdx" && strings.Contains(nodeText(is.Body), "count += int64(bucketCounts[i])") {
						mergeVar = nodeText(be.X)
					}
					break
				}
			}
		}
		c.Check("R4", cb.Where(), "the loop merges a source bucket into the running count when its target index equals a tracked index", mergeVar != "", p.Pos(cb.Body.Pos()), mergeVar)
		restart := eng.Node("count = int64(bucketCounts[i])", func(g *eng.Graph, n ast.Node) bool { return nodeText(n) == "count = int64(bucketCounts[i])" })
		cb.Has("R4", restart, 2)
		cb.Only("R4", restart, "restarts the count for a new target bucket together with the index the merge test reads", func(l eng.Loc) bool {
			for _, u := range cb.Find(eng.Node(mergeVar+" = nextBucketIdx", func(g *eng.Graph, n ast.Node) bool { return nodeText(n) == mergeVar+" = nextBucketIdx" })) {
				if u.Blk == l.Blk {
					return true
				}
			}
			return false
		})
	}
	// ---- R5 (added for seed C43-b) a span's offset is fixed when the span is created ----
	{
		overwritten := 0
		pos := ""
		ast.Inspect(cb.Body, func(n ast.Node) bool {
			as, ok := n.(*ast.AssignStmt)
			if !ok || as.Tok.String() != "=" {
				return true
			}
			for _, l := range as.Lhs {
				if se, ok := l.(*ast.SelectorExpr); ok && se.Sel.Name == "Offset" {
					overwritten++
					pos = p.Pos(as.Pos())
				}
			}
			return true
		})
		c.Check("R5", cb.Where(), "no statement overwrites the Offset of an existing span (offsets are given in the literal that creates the span; the first span carries the absolute start index)", overwritten == 0, pos, "")
		ls := cb.LitTexts("model/histogram:Span")
		okl := len(ls) >= 3
		for _, m := range ls {
			if m["Offset"] != "gap" && m["Offset"] != "initialOffset" {
				okl = false
			}
		}
		c.Check("R5", cb.Where(), "every span is created with the gap to the previous bucket (or the initial offset) as its offset", okl, p.Pos(cb.Body.Pos()), fmt.Sprint(len(ls)))
	}
}
