package main

import (
	"fmt"
	"go/ast"
	"go/types"
	"strings"

	"promverif/eng"
)

// scanVisits (exploratory): type switches over PromQL node types in which a case never mentions a
// sub-expression field of its node type.
func scanVisits(p *eng.Prog) {
	exprT := p.Named("promql/parser:Expr")
	exprsT := p.Named("promql/parser:Expressions")
	for _, fs := range p.AllFuncs() {
		if fs.Decl.Body == nil {
			continue
		}
		info := fs.Pkg.TypesInfo
		ast.Inspect(fs.Decl.Body, func(x ast.Node) bool {
			ts, ok := x.(*ast.TypeSwitchStmt)
			if !ok {
				return true
			}
			bind := ""
			if as, ok := ts.Assign.(*ast.AssignStmt); ok && len(as.Lhs) == 1 {
				bind = eng.ExprString(as.Lhs[0])
			}
			nCases := 0
			var out []string
			for _, st := range ts.Body.List {
				cc := st.(*ast.CaseClause)
				if len(cc.List) != 1 {
					continue
				}
				pt, ok := info.TypeOf(cc.List[0]).(*types.Pointer)
				if !ok {
					continue
				}
				named, ok := pt.Elem().(*types.Named)
				if !ok || named.Obj().Pkg() == nil || !strings.HasSuffix(named.Obj().Pkg().Path(), "promql/parser") {
					continue
				}
				stt, ok := named.Underlying().(*types.Struct)
				if !ok {
					continue
				}
				nCases++
				body := nodeText(&ast.BlockStmt{List: cc.Body})
				for i := 0; i < stt.NumFields(); i++ {
					fld := stt.Field(i)
					if !types.Identical(fld.Type(), exprT) && !types.Identical(fld.Type(), exprsT) {
						continue
					}
					if bind == "" || !strings.Contains(body, bind+"."+fld.Name()) {
						out = append(out, named.Obj().Name()+"."+fld.Name())
					}
				}
			}
			if nCases >= 3 && len(out) > 0 {
				fmt.Printf("%s %s: cases=%d unmentioned=%v\n", p.Pos(ts.Pos()), eng.FuncName(fs.Obj), nCases, out)
			}
			return true
		})
	}
}
