package main

import (
	"fmt"
	"go/ast"
	"strings"

	"promverif/eng"
)

// C45.R4 (added for seed C45-c): a rule group writes at evaluation time minus its query offset — results, the
// staleness markers of series that vanished from a rule's result, and the markers for rules removed at reload.  Every
// staleness marker appended in rules/group.go carries `ts.Add(-offset)` with the offset taken from the group.
func runC45Offset(c *eng.Ctx) {
	p := c.P
	n := 0
	for _, fs := range p.AllFuncs() {
		if fs.Decl.Body == nil || !strings.HasSuffix(fs.Pkg.PkgPath, "/rules") {
			continue
		}
		name := eng.FuncName(fs.Obj)
		ast.Inspect(fs.Decl.Body, func(x ast.Node) bool {
			call, ok := x.(*ast.CallExpr)
			if !ok || len(call.Args) != 4 || !strings.HasSuffix(nodeText(call.Fun), ".Append") || !strings.Contains(nodeText(call.Args[3]), "value.StaleNaN") {
				return true
			}
			n++
			tsArg := nodeText(call.Args[2])
			ok2 := strings.HasPrefix(tsArg, "timestamp.FromTime(ts.Add(-") && strings.HasSuffix(tsArg, "))")
			off := strings.TrimSuffix(strings.TrimPrefix(tsArg, "timestamp.FromTime(ts.Add(-"), "))")
			fromGroup := false
			if ok2 {
				if strings.HasSuffix(off, "QueryOffset()") {
					fromGroup = true
				}
				ast.Inspect(fs.Decl.Body, func(y ast.Node) bool {
					if as, isAs := y.(*ast.AssignStmt); isAs && len(as.Lhs) == 1 && nodeText(as.Lhs[0]) == off && strings.HasSuffix(nodeText(as.Rhs[0]), ".QueryOffset()") {
						fromGroup = true
					}
					if vs, isVS := y.(*ast.ValueSpec); isVS {
						for i, nm := range vs.Names {
							if nm.Name == off && i < len(vs.Values) && strings.HasSuffix(nodeText(vs.Values[i]), ".QueryOffset()") {
								fromGroup = true
							}
						}
					}
					return true
				})
			}
			c.Check("R4", name, fmt.Sprintf("the staleness marker appended at %s is written at the evaluation time minus the group's query offset", p.Pos(call.Pos())), ok2 && fromGroup, p.Pos(call.Pos()),
				"timestamp argument "+tsArg+": results are written at ts − offset; a marker at ts lands offset late, and in the future of a series that a moved rule keeps producing, whose following results are then rejected as out of order")
			return true
		})
	}
	c.Check("R4", "rules", "staleness-marker appends examined (≥ 2)", n >= 2, "", fmt.Sprint(n))
}
