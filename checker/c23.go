package main

import (
	"strings"

	"promverif/eng"
)

func init() {
	register(&Property{
		ID:        "C23",
		Title:     "Restart from a memory snapshot equals restart from the WAL",
		Technique: "table agreement between the snapshot record encoder and decoder (go/types constants); go/cfg order and failure-arm rules for snapshot use and discard in Head.Init and ChunkSnapshot; family rule for the m-map-ready counter",
		DesignRef: "DESIGN.md §5 C23",
		Level: "Decides that the snapshot series record encoder and decoder switch over the same chunk encodings and cover all of them, that a snapshot is only used when the WAL reaches it, " +
			"that a failed or partially applied snapshot is discarded together with the replay position taken from it before the WAL is replayed, that a new snapshot is complete before older ones " +
			"are deleted, and that every adjustment of the per-stripe m-map-ready counter is tied to the head-chunk count crossing two (the snapshot loader included).",
		Note:           "Trusted: go/packages, go/types, go/cfg; exception tables in checker/c23.go.  The wire grammar of the snapshot records is not compared (see DESIGN §7).",
		Covers:         "encoding switches of memSeries.encodeToSnapshotRecord / decodeSeriesFromChunkSnapshot; Head.Init snapshot gating and discard; Head.ChunkSnapshot publish/delete order; inc/decMmapReady sites; state restored per series by loadChunkSnapshot (last values, nextAt, appender).",
		NotCover:       "byte-level round trip of the snapshot records; equality of the restored head with a WAL-replayed head.",
		Run:            runC23,
		MinObligations: 25,
	})
}

func runC23(c *eng.Ctx) {
	defer runC23Sentinel(c)
	defer runC23Tombstones(c)
	p := c.P
	E := "tsdb/chunkenc:Encoding"
	none := map[string]string{"EncNone": "not a chunk encoding"}
	// ---- R1 encoder and decoder agree on the encodings ----
	enc := c.Fn("tsdb:memSeries.encodeToSnapshotRecord")
	dec := c.Fn("tsdb:decodeSeriesFromChunkSnapshot")
	enc.SwitchCovers("R1", E, 1, none)
	dec.SwitchCovers("R1", E, 1, none)
	{
		es, ds := enc.EnumSwitches(E), dec.EnumSwitches(E)
		if len(es) == 1 && len(ds) == 1 {
			group := func(si eng.SwitchInfo) []string {
				// constants grouped by the clause that handles them
				m := map[string][]string{}
				for name, cl := range si.Clauses {
					k := p.Pos(cl.Pos())
					m[k] = append(m[k], name)
				}
				var out []string
				for _, v := range m {
					s := append([]string{}, v...)
					sortStrings(s)
					out = append(out, strings.Join(s, "+"))
				}
				sortStrings(out)
				return out
			}
			a, b := strings.Join(group(es[0]), " | "), strings.Join(group(ds[0]), " | ")
			c.Check("R1", "tsdb:snapshot series record", "encoder and decoder group the chunk encodings into the same cases", a == b, p.Pos(ds[0].Stmt.Pos()), "encoder: "+a+" ; decoder: "+b)
		}
		pk := []string{"tsdb", "tsdb/record", "tsdb/tombstones"}
		c.Codec("R1", "tsdb:memSeries.encodeToSnapshotRecord", "tsdb:decodeSeriesFromChunkSnapshot", pk)
		c.Codec("R1", "tsdb:encodeTombstonesToSnapshotRecord", "tsdb:decodeTombstonesSnapshotRecord", pk)
		c.CallersSubset("R1", "tsdb:memSeries.encodeToSnapshotRecord", 1, "tsdb:Head.ChunkSnapshot")
		c.CallersSubset("R1", "tsdb:decodeSeriesFromChunkSnapshot", 1, "tsdb:Head.loadChunkSnapshot")
	}
	// ---- R2 when a snapshot is used and how it is discarded ----
	{
		f := c.Fn("tsdb:Head.Init")
		load := p.Call("tsdb:Head.loadChunkSnapshot")
		f.GivenBranch("h.opts.EnableMemorySnapshotOnShutdown", false).Unreachable("R2", load)
		f.GivenBranch("loadSnapshot", false).Unreachable("R2", load)
		// WAL behind the snapshot ⇒ not loaded and deleted
		behind := f.GivenBranch("err == nil && endAt < idx", true)
		behind.Reachable("R2", p.Call("tsdb:DeleteChunkSnapshots"))
		behind.Reachable("R2", eng.AssignVarVal("loadSnapshot", "false", eng.IsIdent("false")))
		f.Given("h.wal != nil", true).Dom("R2", p.Call("tsdb:LastChunkSnapshot"), load)
		replay := p.Call("tsdb:Head.loadWAL")
		f.FailLeadsTo("R2", load, p.Call("tsdb:Head.resetInMemoryState"), &replay)
		f.FailLeadsTo("R2", load, eng.AssignVarVal("refSeries", "fresh map", func(g *eng.Graph, e astExpr) bool { return strings.HasPrefix(eng.ExprString(e), "make(map[") }), &replay)
		f.FailLeadsTo("R2", load, eng.AssignVar("snapIdx"), &replay)
		// WAL replay starts where the snapshot says
		f.Dom("R2", eng.AssignVar("snapIdx"), replay)
	}
	// ---- R3 a new snapshot is complete before older ones go ----
	{
		f := c.Fn("tsdb:Head.ChunkSnapshot")
		f.Chain("R3", eng.OnVar("cp", "Close"), p.Call("tsdb/fileutil:Replace"), p.Call("tsdb:DeleteChunkSnapshots"))
		f.ErrPropagates("R3", p.Call("tsdb/fileutil:Replace"), 1)
		f.Dom("R3", p.MethodOn("tsdb:Head.chunkSnapshotMtx", "Lock"), p.Call("tsdb:memSeries.encodeToSnapshotRecord").InClosures())
	}
	// ---- R4 m-map-ready counter: adjusted exactly when the head-chunk count crosses two ----
	{
		type site struct{ fn, closure string }
		guard := func(f *eng.Fn, l eng.Loc) bool {
			for _, g := range []string{">= 2", "wasMmapReady", "== 2"} {
				if f.UnderCond(l, g) {
					return true
				}
			}
			return false
		}
		decm, incm := p.Call("tsdb:stripeSeries.decMmapReady"), p.Call("tsdb:stripeSeries.incMmapReady")
		for _, s := range []site{
			{"tsdb:Head.loadMmappedChunks", "iterate"}, {"tsdb:stripeSeries.gc", "check"}, {"tsdb:Head.deleteSeriesByID", ""},
			{"tsdb:stripeSeries.gcSeries", "check"}, {"tsdb:Head.resetSeriesWithMMappedChunks", ""}, {"tsdb:Head.appendChunkAndMmap", ""},
		} {
			f := c.Fn(s.fn)
			if s.closure != "" {
				f = f.InnerClosure(s.closure, decm)
			}
			f.Only("R4", decm, "is guarded by a test that the series had ≥ 2 head chunks", func(l eng.Loc) bool { return guard(f, l) })
		}
		// mmapHeadChunksInStripe: only series with ≥ 2 head chunks are visited (`< 2 ⇒ continue`) and the decrement follows an actual m-map
		ms := c.Fn("tsdb:Head.mmapHeadChunksInStripe")
		ms.Only("R4", decm, "follows n > 0 chunks m-mapped", func(l eng.Loc) bool { return ms.UnderCond(l, "n > 0") })
		ms.GivenBranch("series.headChunkCount.Load() < 2", true).Unreachable("R4", decm)
		oc := c.Fn("tsdb:Head.onChunkCreated")
		oc.Only("R4", incm, "is guarded by the count reaching 2", func(l eng.Loc) bool { return guard(oc, l) })
		ls := c.Fn("tsdb:Head.loadChunkSnapshot").InnerClosure("restore", incm)
		ls.Only("R4", incm, "is guarded by chunkCount >= 2", func(l eng.Loc) bool { return guard(ls, l) })
		c.CallersSubset("R4", "tsdb:stripeSeries.decMmapReady", 7, "tsdb:Head.loadMmappedChunks", "tsdb:stripeSeries.gc", "tsdb:Head.deleteSeriesByID", "tsdb:stripeSeries.gcSeries",
			"tsdb:Head.resetSeriesWithMMappedChunks", "tsdb:Head.appendChunkAndMmap", "tsdb:Head.mmapHeadChunksInStripe")
		c.CallersSubset("R4", "tsdb:stripeSeries.incMmapReady", 2, "tsdb:Head.onChunkCreated", "tsdb:Head.loadChunkSnapshot")
	}
	// ---- R5 per-series state restored from the snapshot (what WAL replay would have rebuilt) ----
	{
		f := c.Fn("tsdb:Head.loadChunkSnapshot").InnerClosure("restore", p.Call("tsdb:memSeries.setHeadChunks"))
		for _, fld := range []string{"nextAt", "lastValue", "lastHistogramValue", "lastFloatHistogramValue", "app"} {
			f.Has("R5", p.Store("tsdb:memSeries."+fld), 1)
		}
		f.Has("R5", p.Call("tsdb:Head.updateMinMaxTime"), 1)
	}
}
