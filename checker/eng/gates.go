package eng

import (
	"fmt"
	"go/ast"

	"golang.org/x/tools/go/cfg"
)

// CheckGate: an inline integrity comparison guards b.  There is a boolean branch whose block
// contains a match of `check` (e.g. the crc32.Checksum call, possibly in the if-init), that
// branch dominates every b, and one of its arms is a reject arm: from it neither b nor a
// non-error exit is reachable (without re-entering the branch block).
func (f *Fn) CheckGate(rule string, check, b Matcher) bool {
	what := "comparison on " + check.Desc + " gates " + b.Desc + " (mismatch only leads to error returns)"
	bs := f.need(rule, b, what)
	cs := f.need(rule, check, what)
	if len(bs) == 0 || len(cs) == 0 {
		return false
	}
	var okExits []Loc
	for _, e := range f.Exits() {
		if e.Class != ExitErr {
			okExits = append(okExits, e.Loc)
		}
	}
	found := false
	for _, cl := range cs {
		blk := cl.Blk
		c := condOf(blk)
		if c == nil {
			continue
		}
		if tv, ok := f.Info.Types[c]; !ok || !isBool(tv.Type) {
			continue
		}
		// the check must feed the condition: it is inside the condition expression, or it defines a
		// variable that the condition uses
		feeds := c.Pos() <= cl.Node.Pos() && cl.Node.End() <= c.End()
		if !feeds && cl.Idx < len(blk.Nodes) {
			if as, ok := blk.Nodes[cl.Idx].(*ast.AssignStmt); ok {
				for _, l := range as.Lhs {
					if id, ok := l.(*ast.Ident); ok {
						obj := f.Info.ObjectOf(id)
						ast.Inspect(c, func(x ast.Node) bool {
							if u, ok := x.(*ast.Ident); ok && f.Info.ObjectOf(u) == obj && obj != nil {
								feeds = true
							}
							return true
						})
					}
				}
			}
		}
		if !feeds {
			continue
		}
		condLoc := Loc{Blk: blk, Idx: len(blk.Nodes) - 1, Seq: 1 << 29, Node: c}
		dominatesAll := true
		for _, bl := range bs {
			bl := bl
			if p, _ := f.search(nil, []Loc{bl}, []Loc{condLoc}); p != nil {
				dominatesAll = false
			}
		}
		if !dominatesAll {
			continue
		}
		for _, arm := range blk.Succs {
			start := Loc{Blk: arm, Idx: -1, Seq: -1}
			targets := append(append([]Loc{}, bs...), okExits...)
			if p, _ := f.search(&start, targets, []Loc{condLoc}); p == nil {
				found = true
			}
		}
		if found {
			break
		}
	}
	if !found {
		f.C.Fail(rule, f.Where(), what, f.At(bs[0]), "no branch on "+check.Desc+" both dominates "+b.Desc+" and has an arm that only leads to error returns: the integrity check is missing, not compared, or its mismatch arm continues")
		return false
	}
	f.C.Pass(rule, f.Where(), what, fmt.Sprintf("%d×check, %d×guarded", len(cs), len(bs)))
	return true
}

// FailLeadsTo: after a failing a (its error-check's failing arm), every path to `until` (or,
// if until is nil, to any exit) passes b.
func (f *Fn) FailLeadsTo(rule string, a, b Matcher, until *Matcher) bool {
	what := "after a failing " + a.Desc + ", " + b.Desc + " happens"
	if until != nil {
		what += " before " + until.Desc
	}
	as := f.need(rule, a, what)
	bs := f.need(rule, b, what)
	if len(as) == 0 || len(bs) == 0 {
		return false
	}
	var targets []Loc
	if until != nil {
		targets = f.need(rule, *until, what)
		if len(targets) == 0 {
			return false
		}
	} else {
		for _, e := range f.Exits() {
			targets = append(targets, e.Loc)
		}
	}
	for _, al := range as {
		arms, why := f.failArms(al)
		if arms == nil {
			f.C.Fail(rule, f.Where(), what, f.At(al), "error of "+a.Desc+" is not checked: "+why)
			return false
		}
		for _, arm := range arms {
			start := Loc{Blk: arm, Idx: -1, Seq: -1}
			if p, t := f.search(&start, targets, bs); p != nil {
				f.C.Fail(rule, f.Where(), what, f.At(*t), fmt.Sprintf("from the failing arm of %s at %s, %s is reached without %s: %s", a.Desc, f.At(al), f.At(*t), b.Desc, f.pathString(p)))
				return false
			}
		}
	}
	f.C.Pass(rule, f.Where(), what, fmt.Sprintf("%d×A", len(as)))
	return true
}

var _ = cfg.KindBody
