package eng

import (
	"fmt"
	"go/ast"
	"go/parser"
	"go/types"
	"sort"
	"strings"

	"golang.org/x/tools/go/packages"
)

// applyOverlay replaces the content of some source files (self-test mutants) without asking
// the go command to recompile export data of every dependant (about a minute per variant):
// the module packages that contain an overlaid file, and every module package that imports one
// of them transitively, are re-parsed and re-type-checked from source in dependency order;
// everything else (non-module dependencies, unaffected module packages) keeps the types of the
// plain load.  Build constraints and file lists are taken from the plain load, so an overlay
// must not change them.
func (p *Prog) applyOverlay(ov map[string][]byte) error {
	affected := map[*packages.Package]bool{}
	used := map[string]bool{}
	for _, pk := range p.Pkgs {
		for _, f := range pk.CompiledGoFiles {
			if _, ok := ov[f]; ok {
				affected[pk] = true
				used[f] = true
			}
		}
	}
	for f := range ov {
		if !used[f] {
			return fmt.Errorf("overlay file %s is not a compiled file of any loaded module package", f)
		}
	}
	// close under reverse imports
	for changed := true; changed; {
		changed = false
		for _, pk := range p.Pkgs {
			if affected[pk] {
				continue
			}
			for _, imp := range pk.Imports {
				if affected[imp] {
					affected[pk] = true
					changed = true
					break
				}
			}
		}
	}
	// topological order among affected packages
	var order []*packages.Package
	state := map[*packages.Package]int{}
	var visit func(pk *packages.Package)
	visit = func(pk *packages.Package) {
		if state[pk] != 0 {
			return
		}
		state[pk] = 1
		var imps []string
		for path := range pk.Imports {
			imps = append(imps, path)
		}
		sort.Strings(imps)
		for _, path := range imps {
			if imp := pk.Imports[path]; affected[imp] {
				visit(imp)
			}
		}
		state[pk] = 2
		order = append(order, pk)
	}
	for _, pk := range p.Pkgs {
		if affected[pk] {
			visit(pk)
		}
	}
	newTypes := map[string]*types.Package{}
	for _, pk := range order {
		var files []*ast.File
		for i, fn := range pk.CompiledGoFiles {
			if src, ok := ov[fn]; ok {
				f, err := parser.ParseFile(p.Fset, fn, src, parser.ParseComments|parser.SkipObjectResolution)
				if err != nil {
					return fmt.Errorf("overlay parse: %v", err)
				}
				files = append(files, f)
			} else {
				files = append(files, pk.Syntax[i])
			}
		}
		info := &types.Info{
			Types:        map[ast.Expr]types.TypeAndValue{},
			Defs:         map[*ast.Ident]types.Object{},
			Uses:         map[*ast.Ident]types.Object{},
			Implicits:    map[ast.Node]types.Object{},
			Instances:    map[*ast.Ident]types.Instance{},
			Scopes:       map[ast.Node]*types.Scope{},
			Selections:   map[*ast.SelectorExpr]*types.Selection{},
			FileVersions: map[*ast.File]string{},
		}
		pkk := pk
		var terrs []string
		conf := types.Config{
			Importer: importerFunc(func(path string) (*types.Package, error) {
				if path == "unsafe" {
					return types.Unsafe, nil
				}
				imp := pkk.Imports[path]
				if imp == nil {
					return nil, fmt.Errorf("no import %q in %s", path, pkk.PkgPath)
				}
				if t := newTypes[imp.PkgPath]; t != nil {
					return t, nil
				}
				return imp.Types, nil
			}),
			Sizes: pk.TypesSizes,
			Error: func(err error) { terrs = append(terrs, err.Error()) },
		}
		if pk.Module != nil && pk.Module.GoVersion != "" {
			conf.GoVersion = "go" + pk.Module.GoVersion
		}
		tp, _ := conf.Check(pk.PkgPath, p.Fset, files, info)
		if len(terrs) > 0 {
			if len(terrs) > 5 {
				terrs = terrs[:5]
			}
			return fmt.Errorf("load/type errors: %s", strings.Join(terrs, "; "))
		}
		newTypes[pk.PkgPath] = tp
		pk.Types, pk.TypesInfo, pk.Syntax = tp, info, files
	}
	// rebuild the derived tables
	p.allTypes = map[string]*types.Package{}
	var walk func(tp *types.Package)
	walk = func(tp *types.Package) {
		if tp == nil || p.allTypes[tp.Path()] != nil {
			return
		}
		p.allTypes[tp.Path()] = tp
		for _, im := range tp.Imports() {
			walk(im)
		}
	}
	for _, pk := range p.Pkgs {
		walk(pk.Types)
	}
	p.fns = map[*types.Func]*FuncSrc{}
	for _, pk := range p.Pkgs {
		for _, f := range pk.Syntax {
			for _, d := range f.Decls {
				if fd, ok := d.(*ast.FuncDecl); ok {
					if obj, ok := pk.TypesInfo.Defs[fd.Name].(*types.Func); ok {
						p.fns[obj] = &FuncSrc{Obj: obj, Decl: fd, Pkg: pk}
					}
				}
			}
		}
	}
	return nil
}

type importerFunc func(path string) (*types.Package, error)

func (f importerFunc) Import(path string) (*types.Package, error) { return f(path) }
