package eng

import (
	"fmt"
	"go/token"
	"go/types"
	"sort"
	"strings"

	"golang.org/x/tools/go/callgraph"
	"golang.org/x/tools/go/callgraph/cha"
	"golang.org/x/tools/go/callgraph/vta"
	"golang.org/x/tools/go/ssa"
	"golang.org/x/tools/go/ssa/ssautil"
)

// SSAProg is the SSA form of the module packages (dependencies are declarations only)
// with a VTA call graph restricted to module functions.
type SSAProg struct {
	p     *Prog
	Prog  *ssa.Program
	Funcs map[*ssa.Function]bool
	succ  map[*ssa.Function][]ssaEdge
	byObj map[*types.Func]*ssa.Function
	Edges int
}

type ssaEdge struct {
	to   *ssa.Function
	pos  token.Pos
	kind string
}

var ssaCache = map[*Prog]*SSAProg{}

func inModule(f *ssa.Function) bool {
	if f == nil {
		return false
	}
	if f.Pkg != nil {
		return strings.HasPrefix(f.Pkg.Pkg.Path(), ModPath)
	}
	if o := f.Origin(); o != nil && o.Pkg != nil {
		return strings.HasPrefix(o.Pkg.Pkg.Path(), ModPath)
	}
	if f.Parent() != nil {
		return inModule(f.Parent())
	}
	if obj := f.Object(); obj != nil && obj.Pkg() != nil {
		return strings.HasPrefix(obj.Pkg().Path(), ModPath)
	}
	return false
}

// SSA builds (once per Prog) the SSA program and the module-internal call graph:
// VTA edges, plus F→closure for every closure created in F, plus F→f for every function
// value referenced in F, plus F→T.m for every conversion in F of a module type T to a
// non-module interface type with method m (callbacks from outside the module).
func (p *Prog) SSA() *SSAProg {
	if s := ssaCache[p]; s != nil {
		return s
	}
	prog := ssa.NewProgram(p.Fset, ssa.InstantiateGenerics)
	modTypes := map[*types.Package]bool{}
	for _, pk := range p.Pkgs {
		modTypes[pk.Types] = true
	}
	for _, path := range SortedKeys(p.allTypes) {
		if tp := p.allTypes[path]; !modTypes[tp] {
			prog.CreatePackage(tp, nil, nil, true) // declarations only
		}
	}
	for _, pk := range p.Pkgs {
		prog.CreatePackage(pk.Types, pk.Syntax, pk.TypesInfo, true)
	}
	prog.Build()
	all := ssautil.AllFunctions(prog)
	s := &SSAProg{p: p, Prog: prog, Funcs: map[*ssa.Function]bool{}, succ: map[*ssa.Function][]ssaEdge{}, byObj: map[*types.Func]*ssa.Function{}}
	for f := range all {
		if inModule(f) && f.Blocks != nil {
			s.Funcs[f] = true
			if obj, ok := f.Object().(*types.Func); ok && f.Origin() == nil {
				s.byObj[obj.Origin()] = f
			}
		}
	}
	cg := vta.CallGraph(all, cha.CallGraph(prog))
	add := func(from, to *ssa.Function, pos token.Pos, kind string) {
		if !s.Funcs[from] || !s.Funcs[to] {
			return
		}
		s.succ[from] = append(s.succ[from], ssaEdge{to, pos, kind})
		s.Edges++
	}
	_ = callgraph.GraphVisitEdges(cg, func(e *callgraph.Edge) error {
		var pos token.Pos
		if e.Site != nil {
			pos = e.Site.Pos()
		}
		add(e.Caller.Func, e.Callee.Func, pos, "vta")
		return nil
	})
	for f := range s.Funcs {
		for _, b := range f.Blocks {
			for _, ins := range b.Instrs {
				switch x := ins.(type) {
				case *ssa.MakeClosure:
					if fn, ok := x.Fn.(*ssa.Function); ok {
						add(f, fn, x.Pos(), "closure")
					}
				case *ssa.MakeInterface:
					it, ok := x.Type().Underlying().(*types.Interface)
					if !ok || it.NumMethods() == 0 {
						continue
					}
					if n, ok := types.Unalias(x.Type()).(*types.Named); ok && n.Obj().Pkg() != nil && strings.HasPrefix(n.Obj().Pkg().Path(), ModPath) {
						continue // module interface: VTA sees its call sites
					}
					ms := prog.MethodSets.MethodSet(x.X.Type())
					for i := 0; i < it.NumMethods(); i++ {
						if sel := ms.Lookup(it.Method(i).Pkg(), it.Method(i).Name()); sel != nil {
							if fn := prog.MethodValue(sel); fn != nil {
								add(f, fn, x.Pos(), "to-external-iface")
							}
						}
					}
				}
				for _, op := range ins.Operands(nil) {
					if op == nil || *op == nil {
						continue
					}
					if fn, ok := (*op).(*ssa.Function); ok {
						if c, isCall := ins.(ssa.CallInstruction); isCall && c.Common().Value == fn {
							continue
						}
						add(f, fn, ins.Pos(), "funcvalue")
					}
				}
			}
		}
	}
	ssaCache[p] = s
	return s
}

func (s *SSAProg) FuncOf(obj *types.Func) *ssa.Function {
	f := s.byObj[obj.Origin()]
	if f == nil {
		undecided("no SSA function for %s", FuncName(obj))
	}
	return f
}

func ssaName(f *ssa.Function) string {
	if obj, ok := f.Object().(*types.Func); ok {
		return FuncName(obj)
	}
	return f.String()
}

// Path: BFS over the module-internal graph.
func (s *SSAProg) Path(from *ssa.Function, targets map[*ssa.Function]bool, cut map[*ssa.Function]bool) ([]string, int) {
	type item struct {
		f    *ssa.Function
		prev *item
		pos  token.Pos
		kind string
	}
	seen := map[*ssa.Function]bool{from: true}
	q := []*item{{f: from}}
	for len(q) > 0 {
		it := q[0]
		q = q[1:]
		es := s.succ[it.f]
		sort.Slice(es, func(i, j int) bool {
			if es[i].pos != es[j].pos {
				return es[i].pos < es[j].pos
			}
			return es[i].to.String() < es[j].to.String()
		})
		for _, e := range es {
			if seen[e.to] || cut[e.to] {
				continue
			}
			seen[e.to] = true
			ni := &item{f: e.to, prev: it, pos: e.pos, kind: e.kind}
			if targets[e.to] {
				var chain []string
				for x := ni; x != nil; x = x.prev {
					str := ssaName(x.f)
					if x.pos.IsValid() {
						str += fmt.Sprintf(" [%s at %s]", x.kind, s.p.Pos(x.pos))
					}
					chain = append([]string{str}, chain...)
				}
				return chain, len(seen)
			}
			q = append(q, ni)
		}
	}
	return nil, len(seen)
}

// NoReachSSA: no module-internal path in the VTA graph from fn to any target.
func (c *Ctx) NoReachSSA(rule, fromRef string, targetRefs []string, cutRefs ...string) bool {
	s := c.P.SSA()
	targets := map[*ssa.Function]bool{}
	for _, t := range targetRefs {
		targets[s.FuncOf(c.P.Func(t))] = true
	}
	cut := map[*ssa.Function]bool{}
	for _, t := range cutRefs {
		cut[s.FuncOf(c.P.Func(t))] = true
	}
	what := "noreach(" + short(fromRef) + " ⇒ {" + strings.Join(shorts(targetRefs), ", ") + "})"
	if len(cutRefs) > 0 {
		what += " cutting {" + strings.Join(shorts(cutRefs), ", ") + "}"
	}
	chain, n := s.Path(s.FuncOf(c.P.Func(fromRef)), targets, cut)
	if chain != nil {
		c.Fail(rule, fromRef, what, "", "call path: "+strings.Join(chain, " → "))
		return false
	}
	if n < 2 {
		c.Fail(rule, fromRef, what, "", "frontier is empty: the function calls nothing in the module")
		return false
	}
	c.Pass(rule, fromRef, what, fmt.Sprintf("frontier exhausted after %d module functions", n))
	return true
}
