package eng

import (
	"fmt"
	"strings"

	"golang.org/x/tools/go/ssa"
)

// MustReachSSA is the positive control of the no-reach rules: a path that is known to exist
// (confirmed by reading) must be found in the same graph, otherwise the graph is too sparse to
// support any no-reach answer.
func (c *Ctx) MustReachSSA(rule, fromRef, targetRef string) bool {
	s := c.P.SSA()
	targets := map[*ssa.Function]bool{s.FuncOf(c.P.Func(targetRef)): true}
	what := "control: reach(" + short(fromRef) + " ⇒ " + short(targetRef) + ")"
	chain, n := s.Path(s.FuncOf(c.P.Func(fromRef)), targets, nil)
	if chain == nil {
		c.Fail(rule, fromRef, what, "", fmt.Sprintf("the known call path was not found (%d functions explored): the call graph is incomplete", n))
		return false
	}
	c.Pass(rule, fromRef, what, strings.Join(chain, " → "))
	return true
}
