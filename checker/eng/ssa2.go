package eng

import (
	"fmt"
	"go/types"
	"strings"

	"golang.org/x/tools/go/ssa"
)

// MustReachSSA is the positive control of the no-reach rules: a path that is known to exist
// (confirmed by reading) must be found in the same graph, otherwise the graph is too sparse to
// support any no-reach answer.
func (c *Ctx) MustReachSSA(rule, fromRef, targetRef string) bool {
	s := c.P.SSA()
	targets := map[*ssa.Function]bool{s.FuncOf(c.P.Func(targetRef)): true}
	what := "control: reach(" + short(fromRef) + " ⇒ " + short(targetRef) + ")"
	chain, n := s.Path(s.FuncOf(c.P.Func(fromRef)), targets, nil)
	if chain == nil {
		c.Fail(rule, fromRef, what, "", fmt.Sprintf("the known call path was not found (%d functions explored): the call graph is incomplete", n))
		return false
	}
	c.Pass(rule, fromRef, what, strings.Join(chain, " → "))
	return true
}

// ReachableDecls returns the declared module functions reachable from fromRef in the
// module-internal graph (closures are attributed to the declaration that contains them).
func (c *Ctx) ReachableDecls(fromRef string, cutRefs ...string) map[*types.Func]bool {
	s := c.P.SSA()
	cut := map[*ssa.Function]bool{}
	for _, t := range cutRefs {
		cut[s.FuncOf(c.P.Func(t))] = true
	}
	start := s.FuncOf(c.P.Func(fromRef))
	seen := map[*ssa.Function]bool{start: true}
	work := []*ssa.Function{start}
	for len(work) > 0 {
		f := work[len(work)-1]
		work = work[:len(work)-1]
		for _, e := range s.succ[f] {
			if !seen[e.to] && !cut[e.to] {
				seen[e.to] = true
				work = append(work, e.to)
			}
		}
	}
	out := map[*types.Func]bool{}
	for f := range seen {
		d := f
		for d.Parent() != nil {
			d = d.Parent()
		}
		if o := d.Origin(); o != nil {
			d = o
		}
		if obj, ok := d.Object().(*types.Func); ok {
			out[obj.Origin()] = true
		}
	}
	return out
}

// WitnessPath renders a module-internal call path from fromRef to the declared function target.
func (c *Ctx) WitnessPath(fromRef string, target *types.Func, cutRefs ...string) string {
	s := c.P.SSA()
	cut := map[*ssa.Function]bool{}
	for _, t := range cutRefs {
		cut[s.FuncOf(c.P.Func(t))] = true
	}
	tf := s.byObj[target.Origin()]
	if tf == nil {
		return "(no SSA function)"
	}
	chain, _ := s.Path(s.FuncOf(c.P.Func(fromRef)), map[*ssa.Function]bool{tf: true}, cut)
	if chain == nil {
		return "(reached through a closure or from another entry point)"
	}
	return strings.Join(chain, " → ")
}
