package eng

import (
	"fmt"
	"go/ast"
	"go/token"
	"go/types"
	"sort"
	"strings"

	"golang.org/x/tools/go/cfg"
)

// Engine E5: wire-grammar inclusion.  For an encoder and its decoder the sequence of primitive
// wire tokens (u8, be32, be64, uvar, svar, ustr, bytes) each can produce / accept is described by
// a finite automaton built from the function's syntax: statements in sequence, if/switch as
// alternatives, loops (for, range, callbacks handed to Range/Iter-style functions) as iteration,
// calls to module functions that themselves touch an encoding buffer inlined (bounded depth).
// Branch conditions are abstracted to a non-deterministic choice, except
//   - first-iteration flags: a local bool or pointer that is only ever set from false/nil to
//     true/non-nil and only tested as `f`, `!f`, `f == nil`, `f != nil` is tracked exactly;
//   - a byte that is read and immediately dispatched on (`switch x := dec.Byte(); T(x) {case C:`,
//     `if v := d.Byte(); v != C {error}`) yields the token `u8=C` per case, and PutByte(byte(C)) /
//     PutByte(C) with a named constant yields `u8=C`, so tag bytes are matched by name.
// The check is L(encoder) ⊆ L(decoder): every token string the encoder can emit is accepted by
// the decoder (reaches a return whose error result is nil).  Abstraction only enlarges both
// languages; enlarging the decoder's can hide a mismatch (weaker check), never invent one;
// the encoder side is where precision matters, hence the flag tracking.

type cEdge struct {
	from, to int
	tok      string // "" = ε
	gFlag    int    // guard: flag index or -1
	gVal     bool
	sFlag    int // action: set flag (index) or -1
	sVal     bool
}

type cAuto struct {
	n      int
	edges  []cEdge
	accept map[int]bool
	resets []int // nodes right after a Reset() of the buffer
	nflags int
	notes  []string
}

func (a *cAuto) node() int { a.n++; return a.n - 1 }
func (a *cAuto) eps(f, t int) {
	a.edges = append(a.edges, cEdge{from: f, to: t, gFlag: -1, sFlag: -1})
}
func (a *cAuto) tokEdge(f, t int, tok string) {
	a.edges = append(a.edges, cEdge{from: f, to: t, tok: tok, gFlag: -1, sFlag: -1})
}

var encTok = map[string]string{
	"PutByte": "u8", "PutBE32": "be32", "PutBE32int": "be32", "PutBE64": "be64", "PutBE64int64": "be64", "PutBEFloat64": "be64",
	"PutUvarint": "uvar", "PutUvarint32": "uvar", "PutUvarint64": "uvar", "PutVarint64": "svar",
	"PutUvarintStr": "ustr", "PutUvarintBytes": "ustr", "PutBytes": "bytes", "PutString": "bytes", "PutHash": "be32", "PutHashSum": "bytes",
}

var decTok = map[string]string{
	"Byte": "u8", "Be32": "be32", "Be32int": "be32", "Be64": "be64", "Be64int64": "be64", "Be64Float64": "be64",
	"Uvarint": "uvar", "Uvarint32": "uvar", "Uvarint64": "uvar", "Varint64": "svar",
	"UvarintStr": "ustr", "UvarintBytes": "ustr",
}

// CodecOpts restricts what counts as the stream.
type CodecOpts struct {
	EncRecv string   // only encoder buffer operations whose receiver expression ends in this text (several buffers in one function)
	Ignore  []string // buffer methods that do not belong to the compared content (e.g. a trailing PutHash)
	Opaque  []string // function names not looked into (they write other sections before the buffer is reset)
}

type codecCtx struct {
	opts   CodecOpts
	p      *Prog
	a      *cAuto
	side   string // "enc" | "dec"
	pkgs   map[*types.Package]bool
	depth  int
	maxDep int
}

type fnCtx struct {
	*codecCtx
	info     *types.Info
	flags    map[types.Object]int
	ret      int
	acceptR  bool // top-level: returns are accepting (subject to error classification)
	sig      *types.Signature
	labels   map[string][2]int     // label → (break target, continue target)
	defByte  map[ast.Stmt]bool     // `v := buf.Byte()` statements whose token is emitted by the dispatching switch/if
	errKnown map[types.Object]bool // error variables known non-nil in the arm being compiled
}

func isBufType(t types.Type, side string) bool {
	if t == nil {
		return false
	}
	if p, ok := t.(*types.Pointer); ok {
		t = p.Elem()
	}
	n, ok := types.Unalias(t).(*types.Named)
	if !ok || n.Obj().Pkg() == nil || !strings.HasSuffix(n.Obj().Pkg().Path(), "/tsdb/encoding") {
		return false
	}
	if side == "enc" {
		return n.Obj().Name() == "Encbuf"
	}
	return n.Obj().Name() == "Decbuf"
}

// hasBufOps reports whether the body of fs (transitively, bounded) touches a buffer of this side.
func (c *codecCtx) hasBufOps(fs *FuncSrc, seen map[*FuncSrc]bool, depth int) bool {
	if fs == nil || fs.Decl.Body == nil || seen[fs] || depth > c.maxDep {
		return false
	}
	seen[fs] = true
	found := false
	info := fs.Pkg.TypesInfo
	ast.Inspect(fs.Decl.Body, func(n ast.Node) bool {
		if found {
			return false
		}
		call, ok := n.(*ast.CallExpr)
		if !ok {
			return true
		}
		if s, ok := ast.Unparen(call.Fun).(*ast.SelectorExpr); ok && isBufType(info.TypeOf(s.X), c.side) {
			tbl := encTok
			if c.side == "dec" {
				tbl = decTok
			}
			if _, ok := tbl[s.Sel.Name]; ok {
				skip := c.side == "enc" && c.opts.EncRecv != "" && !strings.HasSuffix(types.ExprString(s.X), c.opts.EncRecv)
				for _, ig := range c.opts.Ignore {
					if ig == s.Sel.Name {
						skip = true
					}
				}
				if !skip {
					found = true
					return false
				}
			}
		}
		if callee := calleeOf(info, call); callee != nil && c.pkgs[callee.Pkg()] {
			if c.hasBufOps(c.p.SrcOf(callee), seen, depth+1) {
				found = true
			}
		}
		return true
	})
	return found
}

func calleeOf(info *types.Info, call *ast.CallExpr) *types.Func {
	switch f := ast.Unparen(call.Fun).(type) {
	case *ast.Ident:
		fn, _ := info.Uses[f].(*types.Func)
		return fn
	case *ast.SelectorExpr:
		if sel := info.Selections[f]; sel != nil {
			fn, _ := sel.Obj().(*types.Func)
			return fn
		}
		fn, _ := info.Uses[f.Sel].(*types.Func)
		return fn
	}
	return nil
}

// constName returns the name of the named constant e denotes (through byte(...)/T(...) conversions).
func constName(info *types.Info, e ast.Expr) string {
	e = ast.Unparen(e)
	for {
		call, ok := e.(*ast.CallExpr)
		if !ok || len(call.Args) != 1 {
			break
		}
		if tv, ok := info.Types[call.Fun]; !ok || !tv.IsType() {
			break
		}
		e = ast.Unparen(call.Args[0])
	}
	switch x := e.(type) {
	case *ast.Ident:
		if c, ok := info.Uses[x].(*types.Const); ok {
			return c.Name()
		}
	case *ast.SelectorExpr:
		if c, ok := info.Uses[x.Sel].(*types.Const); ok {
			return c.Name()
		}
	}
	return ""
}

// compileFunc builds the fragment of a declared function; returns (start, end) where end is the
// state after the call returns normally.
func (c *codecCtx) compileFunc(fs *FuncSrc, top bool) (int, int) {
	f := &fnCtx{codecCtx: c, info: fs.Pkg.TypesInfo, flags: map[types.Object]int{}, sig: fs.Obj.Type().(*types.Signature), labels: map[string][2]int{}, defByte: map[ast.Stmt]bool{}, acceptR: top}
	f.findFlags(fs.Decl.Body)
	start := c.a.node()
	f.ret = c.a.node()
	in := start
	// flags start cleared on every entry
	for _, ix := range f.flags {
		n := c.a.node()
		c.a.edges = append(c.a.edges, cEdge{from: in, to: n, gFlag: -1, sFlag: ix, sVal: false})
		in = n
	}
	out := f.block(fs.Decl.Body.List, in, -1, -1)
	if out >= 0 {
		c.a.eps(out, f.ret)
		if top && !f.lastResultIsErr() {
			// falling off the end / plain return of a function without error result
		}
	}
	return start, f.ret
}

func (f *fnCtx) lastResultIsErr() bool {
	r := f.sig.Results()
	return r.Len() > 0 && isErrorType(r.At(r.Len()-1).Type())
}

// findFlags detects first-iteration flags (see the engine comment).
func (f *fnCtx) findFlags(body *ast.BlockStmt) {
	type st struct{ bad, setTrue bool }
	cand := map[types.Object]*st{}
	get := func(o types.Object) *st {
		if cand[o] == nil {
			cand[o] = &st{}
		}
		return cand[o]
	}
	isFlagType := func(t types.Type) bool {
		if t == nil {
			return false
		}
		if _, ok := t.Underlying().(*types.Pointer); ok {
			return true
		}
		b, ok := t.Underlying().(*types.Basic)
		return ok && b.Info()&types.IsBoolean != 0
	}
	falsy := func(e ast.Expr) bool {
		id, ok := ast.Unparen(e).(*ast.Ident)
		return ok && (id.Name == "nil" || id.Name == "false")
	}
	truthy := func(e ast.Expr) bool {
		e = ast.Unparen(e)
		if id, ok := e.(*ast.Ident); ok && id.Name == "true" {
			return true
		}
		if u, ok := e.(*ast.UnaryExpr); ok && u.Op == token.AND {
			return true
		}
		return false
	}
	locals := map[types.Object]bool{}
	ast.Inspect(body, func(n ast.Node) bool {
		switch x := n.(type) {
		case *ast.FuncLit:
			return false
		case *ast.ValueSpec:
			for i, id := range x.Names {
				o := f.info.Defs[id]
				if o == nil || !isFlagType(o.Type()) {
					continue
				}
				locals[o] = true
				if i < len(x.Values) && !falsy(x.Values[i]) {
					get(o).bad = true
				}
			}
		case *ast.AssignStmt:
			for i, l := range x.Lhs {
				id, ok := l.(*ast.Ident)
				if !ok {
					continue
				}
				o := f.info.ObjectOf(id)
				if o == nil || !isFlagType(o.Type()) {
					continue
				}
				if x.Tok == token.DEFINE && f.info.Defs[id] != nil {
					locals[o] = true
				}
				if len(x.Rhs) != len(x.Lhs) {
					get(o).bad = true
					continue
				}
				switch {
				case falsy(x.Rhs[i]) && x.Tok == token.DEFINE:
				case truthy(x.Rhs[i]):
					get(o).setTrue = true
				default:
					// `prev = first` style copies of another flag are not tracked
					get(o).bad = true
				}
			}
		case *ast.UnaryExpr:
			if x.Op == token.AND {
				if id, ok := x.X.(*ast.Ident); ok {
					if o := f.info.ObjectOf(id); o != nil && isFlagType(o.Type()) {
						get(o).bad = true
					}
				}
			}
		}
		return true
	})
	var objs []types.Object
	for o, s := range cand {
		if locals[o] && !s.bad && s.setTrue {
			objs = append(objs, o)
		}
	}
	sort.Slice(objs, func(i, j int) bool { return objs[i].Pos() < objs[j].Pos() })
	for _, o := range objs {
		f.flags[o] = f.a.nflags
		f.a.nflags++
		f.a.notes = append(f.a.notes, fmt.Sprintf("flag %s tracked exactly", o.Name()))
	}
}

// flagCond: is e a test of a tracked flag?  Returns (flag, value the flag has when e is true).
func (f *fnCtx) flagCond(e ast.Expr) (int, bool, bool) {
	e = ast.Unparen(e)
	switch x := e.(type) {
	case *ast.Ident:
		if ix, ok := f.flags[f.info.ObjectOf(x)]; ok {
			return ix, true, true
		}
	case *ast.UnaryExpr:
		if x.Op == token.NOT {
			if ix, v, ok := f.flagCond(x.X); ok {
				return ix, !v, true
			}
		}
	case *ast.BinaryExpr:
		if x.Op == token.EQL || x.Op == token.NEQ {
			var id *ast.Ident
			if y, ok := ast.Unparen(x.Y).(*ast.Ident); ok && y.Name == "nil" {
				id, _ = ast.Unparen(x.X).(*ast.Ident)
			}
			if id != nil {
				if ix, ok := f.flags[f.info.ObjectOf(id)]; ok {
					return ix, x.Op == token.NEQ, true
				}
			}
		}
	}
	return 0, false, false
}

// expr compiles the buffer operations performed while evaluating e (evaluation order: operands
// before the call); returns the out state.
func (f *fnCtx) expr(e ast.Node, in int) int {
	if e == nil {
		return in
	}
	cur := in
	var walk func(n ast.Node)
	walk = func(n ast.Node) {
		if n == nil {
			return
		}
		switch x := n.(type) {
		case *ast.FuncLit:
			return // handled at the call that receives it
		case *ast.CallExpr:
			// operands first
			if s, ok := ast.Unparen(x.Fun).(*ast.SelectorExpr); ok {
				walk(s.X)
			}
			var lits []*ast.FuncLit
			for _, a := range x.Args {
				if fl, ok := ast.Unparen(a).(*ast.FuncLit); ok {
					lits = append(lits, fl)
					continue
				}
				walk(a)
			}
			cur = f.call(x, lits, cur)
			return
		}
		// generic: children in source order
		first := true
		ast.Inspect(n, func(ch ast.Node) bool {
			if first {
				first = false
				return true
			}
			if ch != nil {
				walk(ch)
			}
			return false
		})
	}
	walk(e)
	return cur
}

func (f *fnCtx) call(call *ast.CallExpr, lits []*ast.FuncLit, in int) int {
	a := f.a
	if s, ok := ast.Unparen(call.Fun).(*ast.SelectorExpr); ok && isBufType(f.info.TypeOf(s.X), f.side) {
		tbl := encTok
		if f.side == "dec" {
			tbl = decTok
		}
		if f.side == "enc" && f.opts.EncRecv != "" && !strings.HasSuffix(types.ExprString(s.X), f.opts.EncRecv) {
			return in
		}
		for _, ig := range f.opts.Ignore {
			if ig == s.Sel.Name {
				return in
			}
		}
		if t, ok := tbl[s.Sel.Name]; ok {
			if t == "u8" && f.side == "enc" && len(call.Args) == 1 {
				if cn := constName(f.info, call.Args[0]); cn != "" {
					t = "u8=" + cn
				}
			}
			out := a.node()
			a.tokEdge(in, out, t)
			return out
		}
		if s.Sel.Name == "Reset" && f.side == "enc" {
			out := a.node()
			a.eps(in, out)
			a.resets = append(a.resets, out)
			return out
		}
		return in
	}
	if id, ok := ast.Unparen(call.Fun).(*ast.Ident); ok && id.Name == "panic" {
		if _, isB := f.info.Uses[id].(*types.Builtin); isB {
			return -1
		}
	}
	// callbacks: a function literal handed to a call runs zero or more times there
	cur := in
	for _, fl := range lits {
		if !f.litHasOps(fl) {
			continue
		}
		head := a.node()
		a.eps(cur, head)
		sub := &fnCtx{codecCtx: f.codecCtx, info: f.info, flags: f.flags, labels: map[string][2]int{}, defByte: f.defByte}
		sub.ret = a.node()
		if sig, ok := f.info.TypeOf(fl).(*types.Signature); ok {
			sub.sig = sig
		}
		out := sub.block(fl.Body.List, head, -1, -1)
		if out >= 0 {
			a.eps(out, sub.ret)
		}
		a.eps(sub.ret, head)
		exit := a.node()
		a.eps(head, exit)
		cur = exit
	}
	// module function that touches a buffer: inline
	if callee := calleeOf(f.info, call); callee != nil && f.pkgs[callee.Pkg()] {
		fs := f.p.SrcOf(callee)
		for _, o := range f.opts.Opaque {
			if o == callee.Name() {
				fs = nil
			}
		}
		if fs != nil && f.hasBufOps(fs, map[*FuncSrc]bool{}, 0) && f.sameStream(call, fs) {
			if f.depth >= f.maxDep {
				undecided("codec: inlining deeper than %d at %s", f.maxDep, f.p.Pos(call.Pos()))
			}
			f.codecCtx.depth++
			s, e := f.compileFunc(fs, false)
			f.codecCtx.depth--
			a.eps(cur, s)
			return e
		}
	}
	return cur
}

// sameStream: does the callee continue the caller's byte stream?  Yes if it is handed the buffer,
// or (encoder side) if it wraps a byte slice parameter in its own buffer (`Encbuf{B: b}`) and the
// call passes a byte slice.  A callee that builds a fresh buffer (`Encbuf{}`), or decodes a
// sub-slice (`Decode(dec.UvarintBytes())`), works on a nested stream, which appears in the outer
// one as a single length-prefixed token.
func (f *fnCtx) sameStream(call *ast.CallExpr, fs *FuncSrc) bool {
	for _, a := range call.Args {
		if isBufType(f.info.TypeOf(a), f.side) {
			return true
		}
	}
	if s, ok := ast.Unparen(call.Fun).(*ast.SelectorExpr); ok && isBufType(f.info.TypeOf(s.X), f.side) {
		return true
	}
	if f.side != "enc" {
		return false
	}
	wraps := false
	info := fs.Pkg.TypesInfo
	params := map[types.Object]bool{}
	sig := fs.Obj.Type().(*types.Signature)
	for i := 0; i < sig.Params().Len(); i++ {
		params[sig.Params().At(i)] = true
	}
	ast.Inspect(fs.Decl.Body, func(n ast.Node) bool {
		cl, ok := n.(*ast.CompositeLit)
		if !ok || !isBufType(info.TypeOf(cl), "enc") {
			return true
		}
		for _, el := range cl.Elts {
			if kv, ok := el.(*ast.KeyValueExpr); ok {
				if id, ok := ast.Unparen(kv.Value).(*ast.Ident); ok && params[info.ObjectOf(id)] {
					wraps = true
				}
			}
		}
		return true
	})
	if wraps {
		return true
	}
	// a dispatcher without its own buffer (Encoder.Samples → samplesV1/V2): look through
	dispatch := true
	ast.Inspect(fs.Decl.Body, func(n ast.Node) bool {
		if cl, ok := n.(*ast.CompositeLit); ok && isBufType(info.TypeOf(cl), "enc") {
			dispatch = false
		}
		return true
	})
	return dispatch
}

func (f *fnCtx) litHasOps(fl *ast.FuncLit) bool {
	found := false
	ast.Inspect(fl.Body, func(n ast.Node) bool {
		if call, ok := n.(*ast.CallExpr); ok {
			if s, ok := ast.Unparen(call.Fun).(*ast.SelectorExpr); ok && isBufType(f.info.TypeOf(s.X), f.side) {
				found = true
			}
			if callee := calleeOf(f.info, call); callee != nil && f.pkgs[callee.Pkg()] {
				if f.hasBufOps(f.p.SrcOf(callee), map[*FuncSrc]bool{}, 0) {
					found = true
				}
			}
		}
		return !found
	})
	return found
}

// byteDef: stmt is `v := <buf>.Byte()` (decoder side); returns v's object.
func (f *fnCtx) byteDef(s ast.Stmt) types.Object {
	as, ok := s.(*ast.AssignStmt)
	if !ok || len(as.Lhs) != 1 || len(as.Rhs) != 1 || f.side != "dec" {
		return nil
	}
	if !f.isByteCall(as.Rhs[0]) {
		return nil
	}
	id, ok := as.Lhs[0].(*ast.Ident)
	if !ok {
		return nil
	}
	return f.info.ObjectOf(id)
}

// isByteCall: e is `<buf>.Byte()` possibly wrapped in type conversions.
func (f *fnCtx) isByteCall(e ast.Expr) bool {
	e = ast.Unparen(e)
	for {
		call, ok := e.(*ast.CallExpr)
		if !ok {
			return false
		}
		if tv, ok := f.info.Types[call.Fun]; ok && tv.IsType() && len(call.Args) == 1 {
			e = ast.Unparen(call.Args[0])
			continue
		}
		sel, ok := ast.Unparen(call.Fun).(*ast.SelectorExpr)
		return ok && sel.Sel.Name == "Byte" && isBufType(f.info.TypeOf(sel.X), f.side)
	}
}

func (f *fnCtx) tagVar(e ast.Expr) types.Object {
	e = ast.Unparen(e)
	for {
		call, ok := e.(*ast.CallExpr)
		if !ok || len(call.Args) != 1 {
			break
		}
		if tv, ok := f.info.Types[call.Fun]; !ok || !tv.IsType() {
			break
		}
		e = ast.Unparen(call.Args[0])
	}
	if id, ok := e.(*ast.Ident); ok {
		return f.info.ObjectOf(id)
	}
	return nil
}

// block compiles a statement list; returns the out state or -1 if control never falls through.
func (f *fnCtx) block(list []ast.Stmt, in, brk, cont int) int {
	cur := in
	for i, s := range list {
		if cur < 0 {
			return -1
		}
		// a byte read that the next statement dispatches on
		if o := f.byteDef(s); o != nil && i+1 < len(list) {
			if sw, ok := list[i+1].(*ast.SwitchStmt); ok && sw.Init == nil && sw.Tag != nil && f.tagVar(sw.Tag) == o {
				f.defByte[s] = true
				cur = f.switchOnByte(sw, cur, brk, cont)
				list = append(append([]ast.Stmt{}, list[:i+1]...), list[i+2:]...)
				return f.block(list[i+1:], cur, brk, cont)
			}
		}
		cur = f.stmt(s, cur, brk, cont)
	}
	return cur
}

// switchOnByte compiles `switch T(v) { case C1: … default: … }` where v was just read with Byte():
// one `u8=Ci` token per case constant, a generic `u8` for the default arm.
func (f *fnCtx) switchOnByte(sw *ast.SwitchStmt, in, brk, cont int) int {
	a := f.a
	done := a.node()
	hasDefault := false
	for _, cl := range sw.Body.List {
		cc := cl.(*ast.CaseClause)
		start := a.node()
		if cc.List == nil {
			hasDefault = true
			a.tokEdge(in, start, "u8")
		}
		for _, e := range cc.List {
			if cn := constName(f.info, e); cn != "" {
				a.tokEdge(in, start, "u8="+cn)
			} else {
				a.tokEdge(in, start, "u8")
			}
		}
		out := f.block(cc.Body, start, done, cont)
		if out >= 0 {
			a.eps(out, done)
		}
	}
	if !hasDefault {
		a.tokEdge(in, done, "u8")
	}
	return done
}

func (f *fnCtx) stmt(s ast.Stmt, in, brk, cont int) int {
	a := f.a
	switch x := s.(type) {
	case nil:
		return in
	case *ast.BlockStmt:
		return f.block(x.List, in, brk, cont)
	case *ast.ExprStmt:
		return f.expr(x.X, in)
	case *ast.DeclStmt:
		return f.expr(x.Decl, in)
	case *ast.IncDecStmt, *ast.SendStmt, *ast.EmptyStmt:
		return in
	case *ast.GoStmt, *ast.DeferStmt:
		return in
	case *ast.AssignStmt:
		cur := in
		for _, r := range x.Rhs {
			cur = f.expr(r, cur)
			if cur < 0 {
				return -1
			}
		}
		for _, l := range x.Lhs {
			if _, isId := l.(*ast.Ident); !isId {
				cur = f.expr(l, cur)
			}
		}
		// flag updates
		if len(x.Lhs) == len(x.Rhs) {
			for i, l := range x.Lhs {
				if id, ok := l.(*ast.Ident); ok {
					if ix, ok := f.flags[f.info.ObjectOf(id)]; ok {
						r := ast.Unparen(x.Rhs[i])
						val := true
						if rid, ok := r.(*ast.Ident); ok && (rid.Name == "nil" || rid.Name == "false") {
							val = false
						}
						n := a.node()
						a.edges = append(a.edges, cEdge{from: cur, to: n, gFlag: -1, sFlag: ix, sVal: val})
						cur = n
					}
				}
			}
		}
		return cur
	case *ast.ReturnStmt:
		cur := in
		for _, r := range x.Results {
			cur = f.expr(r, cur)
			if cur < 0 {
				return -1
			}
		}
		if f.sig != nil && f.lastResultIsErr() && len(x.Results) > 0 {
			last := ast.Unparen(x.Results[len(x.Results)-1])
			isNil := false
			if id, ok := last.(*ast.Ident); ok && id.Name == "nil" {
				isNil = true
			}
			call, isCall := last.(*ast.CallExpr)
			passThrough := isCall && len(x.Results) == 1 // `return d.samplesV1(...)`: decided inside the callee
			if isCall {
				switch types.ExprString(call.Fun) {
				case "fmt.Errorf", "errors.New", "errors.Join", "errors.Wrap", "errors.Wrapf":
					passThrough = false
				}
			}
			if isCall && !passThrough {
				// `return nil, dec.Err()` is an error return; other calls (wrapping helpers) too
				_ = call
			}
			if id, ok := last.(*ast.Ident); ok && !isNil {
				// a returned error variable: rejected only where it is known non-nil (`if err != nil { return …, err }`)
				if !f.errKnown[f.info.ObjectOf(id)] {
					isNil = true
				}
			}
			if !isNil && !passThrough {
				return -1 // error return: the record is rejected, not an accepting end
			}
		}
		a.eps(cur, f.ret)
		return -1
	case *ast.LabeledStmt:
		brkL, contL := a.node(), a.node()
		f.labels[x.Label.Name] = [2]int{brkL, contL}
		out := f.loopOrStmt(x.Stmt, in, brk, cont, brkL, contL)
		if out >= 0 {
			a.eps(out, brkL)
		}
		return brkL
	case *ast.BranchStmt:
		switch x.Tok {
		case token.BREAK:
			t := brk
			if x.Label != nil {
				t = f.labels[x.Label.Name][0]
			}
			if t >= 0 {
				a.eps(in, t)
			}
		case token.CONTINUE:
			t := cont
			if x.Label != nil {
				t = f.labels[x.Label.Name][1]
			}
			if t >= 0 {
				a.eps(in, t)
			}
		case token.GOTO, token.FALLTHROUGH:
			undecided("codec: goto/fallthrough at %s", f.p.Pos(x.Pos()))
		}
		return -1
	case *ast.IfStmt:
		cur := in
		// `if v := buf.Byte(); v != C { reject }` / `== C`
		if x.Init != nil {
			if o := f.byteDef(x.Init); o != nil {
				if be, ok := ast.Unparen(x.Cond).(*ast.BinaryExpr); ok && (be.Op == token.NEQ || be.Op == token.EQL) && f.tagVar(be.X) == o {
					if cn := constName(f.info, be.Y); cn != "" {
						eq, ne := a.node(), a.node()
						a.tokEdge(cur, eq, "u8="+cn)
						a.tokEdge(cur, ne, "u8")
						thenIn, elseIn := ne, eq
						if be.Op == token.EQL {
							thenIn, elseIn = eq, ne
						}
						done := a.node()
						if out := f.block(x.Body.List, thenIn, brk, cont); out >= 0 {
							a.eps(out, done)
						}
						if x.Else != nil {
							if out := f.stmt(x.Else, elseIn, brk, cont); out >= 0 {
								a.eps(out, done)
							}
						} else {
							a.eps(elseIn, done)
						}
						return done
					}
				}
			}
			cur = f.stmt(x.Init, cur, brk, cont)
			if cur < 0 {
				return -1
			}
		}
		// `if T(buf.Byte()) != C { reject }`
		if be, ok := ast.Unparen(x.Cond).(*ast.BinaryExpr); ok && f.side == "dec" && (be.Op == token.NEQ || be.Op == token.EQL) && f.isByteCall(be.X) {
			if cn := constName(f.info, be.Y); cn != "" {
				eq, ne := a.node(), a.node()
				a.tokEdge(cur, eq, "u8="+cn)
				a.tokEdge(cur, ne, "u8")
				thenIn, elseIn := ne, eq
				if be.Op == token.EQL {
					thenIn, elseIn = eq, ne
				}
				done := a.node()
				if out := f.block(x.Body.List, thenIn, brk, cont); out >= 0 {
					a.eps(out, done)
				}
				if x.Else != nil {
					if out := f.stmt(x.Else, elseIn, brk, cont); out >= 0 {
						a.eps(out, done)
					}
				} else {
					a.eps(elseIn, done)
				}
				return done
			}
		}
		cur = f.expr(x.Cond, cur)
		if cur < 0 {
			return -1
		}
		thenIn, elseIn := a.node(), a.node()
		if ix, v, ok := f.flagCond(x.Cond); ok {
			a.edges = append(a.edges, cEdge{from: cur, to: thenIn, gFlag: ix, gVal: v, sFlag: -1}, cEdge{from: cur, to: elseIn, gFlag: ix, gVal: !v, sFlag: -1})
		} else {
			a.eps(cur, thenIn)
			a.eps(cur, elseIn)
		}
		done := a.node()
		var known types.Object
		if be, ok := ast.Unparen(x.Cond).(*ast.BinaryExpr); ok && be.Op == token.NEQ {
			if y, ok := ast.Unparen(be.Y).(*ast.Ident); ok && y.Name == "nil" {
				if id, ok := ast.Unparen(be.X).(*ast.Ident); ok {
					if o := f.info.ObjectOf(id); o != nil && isErrorType(o.Type()) {
						known = o
					}
				}
			}
		}
		if known != nil {
			if f.errKnown == nil {
				f.errKnown = map[types.Object]bool{}
			}
			f.errKnown[known] = true
		}
		out := f.block(x.Body.List, thenIn, brk, cont)
		if known != nil {
			delete(f.errKnown, known)
		}
		if out >= 0 {
			a.eps(out, done)
		}
		if x.Else != nil {
			if out := f.stmt(x.Else, elseIn, brk, cont); out >= 0 {
				a.eps(out, done)
			}
		} else {
			a.eps(elseIn, done)
		}
		return done
	case *ast.ForStmt, *ast.RangeStmt:
		brkL, contL := a.node(), a.node()
		out := f.loopOrStmt(s, in, brk, cont, brkL, contL)
		if out >= 0 {
			a.eps(out, brkL)
		}
		return brkL
	case *ast.SwitchStmt:
		cur := in
		if x.Init != nil {
			if o := f.byteDef(x.Init); o != nil && x.Tag != nil && f.tagVar(x.Tag) == o {
				return f.switchOnByte(x, cur, brk, cont)
			}
			cur = f.stmt(x.Init, cur, brk, cont)
		}
		cur = f.expr(x.Tag, cur)
		if cur < 0 {
			return -1
		}
		done := a.node()
		hasDefault := false
		for _, cl := range x.Body.List {
			cc := cl.(*ast.CaseClause)
			start := a.node()
			if cc.List == nil {
				hasDefault = true
			}
			// tagless switch over a flag condition
			guarded := false
			if x.Tag == nil && len(cc.List) == 1 {
				if ix, v, ok := f.flagCond(cc.List[0]); ok {
					a.edges = append(a.edges, cEdge{from: cur, to: start, gFlag: ix, gVal: v, sFlag: -1})
					guarded = true
				}
			}
			if !guarded {
				a.eps(cur, start)
			}
			if out := f.block(cc.Body, start, done, cont); out >= 0 {
				a.eps(out, done)
			}
		}
		if !hasDefault {
			a.eps(cur, done)
		}
		return done
	case *ast.TypeSwitchStmt:
		cur := in
		if x.Init != nil {
			cur = f.stmt(x.Init, cur, brk, cont)
		}
		done := a.node()
		hasDefault := false
		for _, cl := range x.Body.List {
			cc := cl.(*ast.CaseClause)
			if cc.List == nil {
				hasDefault = true
			}
			start := a.node()
			a.eps(cur, start)
			if out := f.block(cc.Body, start, done, cont); out >= 0 {
				a.eps(out, done)
			}
		}
		if !hasDefault {
			a.eps(cur, done)
		}
		return done
	case *ast.SelectStmt:
		done := a.node()
		for _, cl := range x.Body.List {
			cc := cl.(*ast.CommClause)
			start := a.node()
			a.eps(in, start)
			cur := start
			if cc.Comm != nil {
				cur = f.stmt(cc.Comm, cur, brk, cont)
			}
			if cur >= 0 {
				if out := f.block(cc.Body, cur, done, cont); out >= 0 {
					a.eps(out, done)
				}
			}
		}
		return done
	}
	return in
}

func (f *fnCtx) loopOrStmt(s ast.Stmt, in, brk, cont, brkL, contL int) int {
	a := f.a
	switch x := s.(type) {
	case *ast.ForStmt:
		cur := in
		if x.Init != nil {
			cur = f.stmt(x.Init, cur, brk, cont)
		}
		head := a.node()
		a.eps(cur, head)
		c2 := f.expr(x.Cond, head)
		if c2 < 0 {
			return -1
		}
		bodyIn := a.node()
		if x.Cond != nil {
			if ix, v, ok := f.flagCond(x.Cond); ok {
				a.edges = append(a.edges, cEdge{from: c2, to: bodyIn, gFlag: ix, gVal: v, sFlag: -1}, cEdge{from: c2, to: brkL, gFlag: ix, gVal: !v, sFlag: -1})
			} else {
				a.eps(c2, bodyIn)
				a.eps(c2, brkL)
			}
		} else {
			a.eps(c2, bodyIn)
		}
		if out := f.block(x.Body.List, bodyIn, brkL, contL); out >= 0 {
			a.eps(out, contL)
		}
		post := contL
		if x.Post != nil {
			post = f.stmt(x.Post, contL, brk, cont)
		}
		if post >= 0 {
			a.eps(post, head)
		}
		return -1 // exits only through brkL
	case *ast.RangeStmt:
		cur := f.expr(x.X, in)
		if cur < 0 {
			return -1
		}
		head := a.node()
		a.eps(cur, head)
		a.eps(head, brkL)
		bodyIn := a.node()
		a.eps(head, bodyIn)
		if out := f.block(x.Body.List, bodyIn, brkL, contL); out >= 0 {
			a.eps(out, contL)
		}
		a.eps(contL, head)
		return -1
	}
	return f.stmt(s, in, brk, cont)
}

// ---- product with flag valuations, ε-closure, inclusion ----

type pNFA struct {
	n      int
	eps    [][]int
	tr     []map[string][]int
	accept []bool
	starts []int
}

func (a *cAuto) product(start int, accepts map[int]bool) *pNFA {
	type ps struct{ node, val int }
	id := map[ps]int{}
	var states []ps
	get := func(s ps) int {
		if i, ok := id[s]; ok {
			return i
		}
		id[s] = len(states)
		states = append(states, s)
		return len(states) - 1
	}
	out := map[int][]cEdge{}
	for _, e := range a.edges {
		out[e.from] = append(out[e.from], e)
	}
	p := &pNFA{}
	get(ps{start, 0})
	p.starts = []int{0}
	for i := 0; i < len(states); i++ {
		s := states[i]
		for len(p.eps) <= i {
			p.eps = append(p.eps, nil)
			p.tr = append(p.tr, map[string][]int{})
			p.accept = append(p.accept, false)
		}
		p.accept[i] = accepts[s.node]
		for _, e := range out[s.node] {
			if e.gFlag >= 0 && ((s.val>>e.gFlag)&1 == 1) != e.gVal {
				continue
			}
			nv := s.val
			if e.sFlag >= 0 {
				if e.sVal {
					nv |= 1 << e.sFlag
				} else {
					nv &^= 1 << e.sFlag
				}
			}
			t := get(ps{e.to, nv})
			if e.tok == "" {
				p.eps[i] = append(p.eps[i], t)
			} else {
				p.tr[i][e.tok] = append(p.tr[i][e.tok], t)
			}
		}
	}
	for len(p.eps) < len(states) {
		p.eps = append(p.eps, nil)
		p.tr = append(p.tr, map[string][]int{})
		p.accept = append(p.accept, false)
	}
	p.n = len(states)
	// states right after a buffer Reset are additional starts (what was written before is discarded)
	isReset := map[int]bool{}
	for _, r := range a.resets {
		isReset[r] = true
	}
	for i, s := range states {
		if isReset[s.node] {
			p.starts = append(p.starts, i)
		}
	}
	return p
}

func (p *pNFA) closure(set []int) []int {
	seen := map[int]bool{}
	st := append([]int{}, set...)
	for _, s := range st {
		seen[s] = true
	}
	for len(st) > 0 {
		s := st[len(st)-1]
		st = st[:len(st)-1]
		for _, t := range p.eps[s] {
			if !seen[t] {
				seen[t] = true
				st = append(st, t)
			}
		}
	}
	out := make([]int, 0, len(seen))
	for s := range seen {
		out = append(out, s)
	}
	sort.Ints(out)
	return out
}

// step: decoder states after consuming encoder token t (a decoder edge `u8` accepts any `u8=C`).
func (p *pNFA) step(set []int, t string) []int {
	var next []int
	for _, s := range set {
		next = append(next, p.tr[s][t]...)
		if strings.HasPrefix(t, "u8=") {
			next = append(next, p.tr[s]["u8"]...)
		}
	}
	return p.closure(next)
}

// CodecResult describes one inclusion check.
type CodecResult struct {
	OK             bool
	Witness        string // token string the encoder can emit and the decoder rejects
	EncStates      int
	DecStates      int
	Explored       int
	EncTokens      []string
	DecTokens      []string
	Notes          []string
	EmptyExcluded  bool
	AcceptsNothing bool
}

// CodecIncluded checks L(enc) ⊆ L(dec) for two module functions.  pkgs lists the packages whose
// functions are inlined when they touch an encoding buffer.
func (p *Prog) CodecIncluded(encRef, decRef string, pkgRels []string, maxDepth int, opts ...CodecOpts) CodecResult {
	var o CodecOpts
	if len(opts) > 0 {
		o = opts[0]
	}
	pk := map[*types.Package]bool{}
	for _, r := range pkgRels {
		pk[p.Pkg(r).Types] = true
	}
	build := func(ref, side string) (*pNFA, *cAuto) {
		c := &codecCtx{opts: o, p: p, a: &cAuto{accept: map[int]bool{}}, side: side, pkgs: pk, maxDep: maxDepth}
		s, e := c.compileFunc(p.Src(ref), true)
		return c.a.product(s, map[int]bool{e: true}), c.a
	}
	E, ea := build(encRef, "enc")
	D, da := build(decRef, "dec")
	res := CodecResult{EncStates: E.n, DecStates: D.n, EmptyExcluded: true}
	res.Notes = append(append(res.Notes, ea.notes...), da.notes...)
	tokset := func(n *pNFA) []string {
		m := map[string]bool{}
		for _, tr := range n.tr {
			for t := range tr {
				m[t] = true
			}
		}
		return SortedKeys(m)
	}
	res.EncTokens, res.DecTokens = tokset(E), tokset(D)
	anyAcc := false
	for _, a := range D.accept {
		anyAcc = anyAcc || a
	}
	res.AcceptsNothing = !anyAcc
	type pair struct {
		e    int
		d    string
		path string
		n    int
	}
	key := func(set []int) string { return fmt.Sprint(set) }
	dsets := map[string][]int{}
	d0 := D.closure(D.starts[:1])
	dsets[key(d0)] = d0
	seen := map[[2]string]bool{}
	var queue []pair
	for _, s := range E.starts {
		for _, e := range E.closure([]int{s}) {
			k := [2]string{fmt.Sprint(e), key(d0)}
			if !seen[k] {
				seen[k] = true
				queue = append(queue, pair{e, key(d0), "", 0})
			}
		}
	}
	for len(queue) > 0 {
		it := queue[0]
		queue = queue[1:]
		res.Explored++
		dset := dsets[it.d]
		if E.accept[it.e] && it.n > 0 {
			acc := false
			for _, d := range dset {
				if D.accept[d] {
					acc = true
				}
			}
			if !acc {
				res.Witness = strings.TrimSpace(it.path) + "  (encoder ends here; the decoder does not accept the record at this point)"
				return res
			}
		}
		for t, tos := range E.tr[it.e] {
			nd := D.step(dset, t)
			if len(nd) == 0 {
				res.Witness = strings.TrimSpace(it.path+" "+t) + "  (the decoder cannot read a " + t + " here)"
				return res
			}
			dk := key(nd)
			dsets[dk] = nd
			for _, to := range tos {
				for _, e := range E.closure([]int{to}) {
					k := [2]string{fmt.Sprint(e), dk}
					if !seen[k] {
						seen[k] = true
						p := it.path
						if it.n < 40 {
							p += " " + t
						}
						queue = append(queue, pair{e, dk, p, it.n + 1})
					}
				}
			}
		}
	}
	res.OK = true
	return res
}

// Codec records the inclusion obligation for one encoder/decoder pair.
func (c *Ctx) Codec(rule, encRef, decRef string, pkgRels []string, opts ...CodecOpts) bool {
	res := c.P.CodecIncluded(encRef, decRef, pkgRels, 4, opts...)
	what := "L(" + short(encRef) + ") ⊆ L(" + short(decRef) + ") over wire tokens"
	c.FnsAnalysed[FuncName(c.P.Func(encRef))] = true
	c.FnsAnalysed[FuncName(c.P.Func(decRef))] = true
	detail := fmt.Sprintf("encoder automaton %d states {%s}; decoder automaton %d states {%s}; %d product states explored; %s",
		res.EncStates, strings.Join(res.EncTokens, ","), res.DecStates, strings.Join(res.DecTokens, ","), res.Explored, strings.Join(res.Notes, "; "))
	if len(res.EncTokens) == 0 || len(res.DecTokens) == 0 || res.AcceptsNothing {
		c.Fail(rule, encRef+" / "+decRef, what, c.P.Pos(c.P.Src(encRef).Decl.Pos()), "an automaton is empty (no buffer operation found / decoder never succeeds): rule instance vanished; "+detail)
		return false
	}
	if !res.OK {
		c.Fail(rule, encRef+" / "+decRef, what, c.P.Pos(c.P.Src(decRef).Decl.Pos()), "the encoder can emit the token string [ "+res.Witness+" ]; "+detail)
		return false
	}
	c.Pass(rule, encRef+" / "+decRef, what, detail)
	return true
}

// ---- loop-carried "previous element" state ----

// BufOp matches an operation on an encoding buffer of the given side: a token method call on it,
// or a call that is handed the buffer.
func BufOp(side string) Matcher {
	return Matcher{Desc: side + " buffer operation", F: func(g *Graph, n ast.Node, _ Mode) bool {
		call, ok := n.(*ast.CallExpr)
		if !ok {
			return false
		}
		if s, ok := ast.Unparen(call.Fun).(*ast.SelectorExpr); ok && isBufType(g.Info.TypeOf(s.X), side) {
			tbl := encTok
			if side == "dec" {
				tbl = decTok
			}
			_, isTok := tbl[s.Sel.Name]
			return isTok
		}
		for _, a := range call.Args {
			if isBufType(g.Info.TypeOf(a), side) {
				return true
			}
		}
		return false
	}}
}

// PrevStateUpdated: in function fnRef, every variable whose name starts with "prev" (the code
// base's convention for "value of the previous element", the base of delta encodings), that is
// declared outside a loop and assigned inside it, is assigned on every path through the loop body
// that performs a buffer operation — otherwise the next element is encoded/decoded relative to a
// stale base.  Returns the number of variables examined.
func (c *Ctx) PrevStateUpdated(rule, fnRef, side string) int {
	f := c.Fn(fnRef)
	type loop struct {
		head Loc
		body ast.Node
	}
	var loops []loop
	for _, b := range f.live {
		if b.Kind != cfg.KindRangeLoop && b.Kind != cfg.KindForLoop {
			continue
		}
		var body ast.Node
		switch s := b.Stmt.(type) {
		case *ast.RangeStmt:
			body = s.Body
		case *ast.ForStmt:
			body = s.Body
		}
		if body != nil {
			loops = append(loops, loop{Loc{Blk: b, Idx: -1, Seq: -1, Node: b.Stmt}, body})
		}
	}
	// for loops without a KindForLoop header block (no condition) fall back to the ForBody's predecessor: skipped
	ops := f.Find(BufOp(side))
	n := 0
	seenVar := map[types.Object]bool{}
	ast.Inspect(f.Body, func(x ast.Node) bool {
		as, ok := x.(*ast.AssignStmt)
		if !ok {
			return true
		}
		for _, l := range as.Lhs {
			id, ok := l.(*ast.Ident)
			if !ok || !strings.HasPrefix(strings.ToLower(id.Name), "prev") {
				continue
			}
			obj := f.Info.ObjectOf(id)
			if obj == nil || seenVar[obj] {
				continue
			}
			// innermost loop containing this assignment whose body does not contain the declaration
			for _, lp := range loops {
				if !(lp.body.Pos() <= as.Pos() && as.End() <= lp.body.End()) {
					continue
				}
				if lp.body.Pos() <= obj.Pos() && obj.Pos() <= lp.body.End() {
					continue // declared inside this loop: not carried
				}
				seenVar[obj] = true
				n++
				assigns := f.Find(AssignVar(id.Name))
				what := "loop-carried `" + id.Name + "` is updated on every iteration path that touches the buffer"
				bad := ""
				for _, op := range ops {
					if !(lp.body.Pos() <= op.Node.Pos() && op.Node.End() <= lp.body.End()) {
						continue
					}
					op := op
					// entry of an iteration → op without an update, and op → next iteration without an update
					p1, _ := f.search(&lp.head, []Loc{op}, assigns)
					p2, _ := f.search(&op, []Loc{lp.head}, assigns)
					if p1 != nil && p2 != nil {
						bad = fmt.Sprintf("an iteration can perform the buffer operation at %s and reach the next iteration without assigning %s: %s … %s", f.At(op), id.Name, f.pathString(p1), f.pathString(p2))
						break
					}
				}
				c.Check(rule, f.Where(), what, bad == "", f.P.Pos(as.Pos()), bad)
				break
			}
		}
		return true
	})
	return n
}
