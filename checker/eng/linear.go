package eng

import (
	"fmt"
	"go/ast"
	"go/constant"
	"go/token"
	"go/types"
	"sort"
	"strings"
)

// Linear normal form of integer comparisons.  An expression built from +, -, parentheses,
// integer literals, numeric conversions and multiplication by a literal is turned into a
// map term → coefficient (terms are the printed atomic sub-expressions: identifiers, selectors,
// calls, index expressions; named constants stay symbolic).  A comparison `A op B` is normalised
// to `A-B op' 0` with op' ∈ {<, <=, ==, !=} (`>`/`>=` swap the sides).  Two comparisons with the
// same normal form are equivalent over the integers; a behaviour-preserving restyling
// (`a-b < c`  vs  `a < b+c`  vs  `c+b > a`) keeps the normal form, an off-by-one does not.

type LinForm struct {
	Terms map[string]int
	Const int64
}

func (l LinForm) add(o LinForm, k int) LinForm {
	out := LinForm{Terms: map[string]int{}, Const: l.Const + int64(k)*o.Const}
	for t, c := range l.Terms {
		out.Terms[t] += c
	}
	for t, c := range o.Terms {
		out.Terms[t] += k * c
	}
	for t, c := range out.Terms {
		if c == 0 {
			delete(out.Terms, t)
		}
	}
	return out
}

func (l LinForm) scale(k int) LinForm { return LinForm{Terms: map[string]int{}}.add(l, k) }

func (l LinForm) String() string {
	var ts []string
	for t := range l.Terms {
		ts = append(ts, t)
	}
	sort.Strings(ts)
	var sb strings.Builder
	for _, t := range ts {
		fmt.Fprintf(&sb, "%+d*%s ", l.Terms[t], t)
	}
	if l.Const != 0 || len(ts) == 0 {
		fmt.Fprintf(&sb, "%+d ", l.Const)
	}
	return strings.TrimSpace(sb.String())
}

func isNumericConv(info *types.Info, call *ast.CallExpr) bool {
	if len(call.Args) != 1 {
		return false
	}
	tv, ok := info.Types[call.Fun]
	if !ok || !tv.IsType() {
		return false
	}
	b, ok := tv.Type.Underlying().(*types.Basic)
	return ok && b.Info()&types.IsInteger != 0
}

// Linear returns the linear form of e, ok=false if e has a non-linear operator.
func Linear(info *types.Info, e ast.Expr) (LinForm, bool) {
	e = ast.Unparen(e)
	atom := func() (LinForm, bool) { return LinForm{Terms: map[string]int{types.ExprString(e): 1}}, true }
	switch x := e.(type) {
	case *ast.BasicLit:
		if tv, ok := info.Types[x]; ok && tv.Value != nil && constant.ToInt(tv.Value).Kind() == constant.Int {
			if v, exact := constant.Int64Val(constant.ToInt(tv.Value)); exact {
				return LinForm{Terms: map[string]int{}, Const: v}, true
			}
		}
		return LinForm{}, false
	case *ast.BinaryExpr:
		switch x.Op {
		case token.ADD, token.SUB:
			a, ok1 := Linear(info, x.X)
			b, ok2 := Linear(info, x.Y)
			if !ok1 || !ok2 {
				return LinForm{}, false
			}
			k := 1
			if x.Op == token.SUB {
				k = -1
			}
			return a.add(b, k), true
		case token.MUL:
			a, ok1 := Linear(info, x.X)
			b, ok2 := Linear(info, x.Y)
			if ok1 && ok2 {
				if len(a.Terms) == 0 {
					return b.scale(int(a.Const)), true
				}
				if len(b.Terms) == 0 {
					return a.scale(int(b.Const)), true
				}
			}
			return atom()
		default:
			// a constant expression built from literals only (1<<24): its value
			if tv, ok := info.Types[x]; ok && tv.Value != nil && constant.ToInt(tv.Value).Kind() == constant.Int && onlyLiterals(x) {
				if v, exact := constant.Int64Val(constant.ToInt(tv.Value)); exact {
					return LinForm{Terms: map[string]int{}, Const: v}, true
				}
			}
			return atom()
		}
	case *ast.UnaryExpr:
		if x.Op == token.SUB {
			a, ok := Linear(info, x.X)
			if !ok {
				return LinForm{}, false
			}
			return a.scale(-1), true
		}
		return atom()
	case *ast.CallExpr:
		if isNumericConv(info, x) {
			return Linear(info, x.Args[0])
		}
		return atom()
	}
	return atom()
}

// LinearCmp normalises a comparison; ok=false if e is not an integer comparison of linear sides.
func LinearCmp(info *types.Info, e ast.Expr) (string, bool) {
	be, ok := ast.Unparen(e).(*ast.BinaryExpr)
	if !ok {
		return "", false
	}
	a, ok1 := Linear(info, be.X)
	b, ok2 := Linear(info, be.Y)
	if !ok1 || !ok2 {
		return "", false
	}
	var d LinForm
	var op string
	switch be.Op {
	case token.LSS:
		d, op = a.add(b, -1), "<"
	case token.LEQ:
		d, op = a.add(b, -1), "<="
	case token.GTR:
		d, op = b.add(a, -1), "<"
	case token.GEQ:
		d, op = b.add(a, -1), "<="
	case token.EQL, token.NEQ:
		d, op = a.add(b, -1), be.Op.String()
		// canonical sign: first term positive
		var ts []string
		for t := range d.Terms {
			ts = append(ts, t)
		}
		sort.Strings(ts)
		if len(ts) > 0 && d.Terms[ts[0]] < 0 {
			d = d.scale(-1)
		}
	default:
		return "", false
	}
	// x <= c  ≡  x < c+1 over the integers: use strict form only
	if op == "<=" {
		d.Const--
		op = "<"
	}
	return d.String() + " " + op + " 0", true
}

// GuardsOf returns the normal forms of the comparisons in the branch conditions under whose
// true arm location l lies (innermost conditions only, conjunctions split).
func (f *Fn) GuardsOf(l Loc) []string {
	var out []string
	for _, b := range f.live {
		c := condOf(b)
		if c == nil || len(b.Succs) != 2 {
			continue
		}
		if !(len(f.predsOf(b.Succs[0])) == 1 && f.BlockDom(b.Succs[0], l.Blk)) {
			continue
		}
		var split func(e ast.Expr)
		split = func(e ast.Expr) {
			e = ast.Unparen(e)
			if be, ok := e.(*ast.BinaryExpr); ok && be.Op == token.LAND {
				split(be.X)
				split(be.Y)
				return
			}
			if s, ok := LinearCmp(f.Info, e); ok {
				out = append(out, s)
			} else {
				out = append(out, "?"+types.ExprString(e))
			}
		}
		split(c)
	}
	sort.Strings(out)
	return out
}

// SearchPreds returns, for every call sort.Search(n, func(i int) bool { return cmp }) in the
// function, the linear normal form of cmp ("?text" when cmp is not a linear comparison).
func (f *Fn) SearchPreds() []string {
	var out []string
	ast.Inspect(f.Body, func(n ast.Node) bool {
		call, ok := n.(*ast.CallExpr)
		if !ok || types.ExprString(call.Fun) != "sort.Search" || len(call.Args) != 2 {
			return true
		}
		out = append(out, f.searchPred(call))
		return true
	})
	return out
}

func (f *Fn) searchPred(call *ast.CallExpr) string {
	fl, ok := call.Args[1].(*ast.FuncLit)
	if !ok || len(fl.Body.List) != 1 {
		return "?" + types.ExprString(call.Args[1])
	}
	rs, ok := fl.Body.List[0].(*ast.ReturnStmt)
	if !ok || len(rs.Results) != 1 {
		return "?" + types.ExprString(call.Args[1])
	}
	if s, ok := LinearCmp(f.Info, rs.Results[0]); ok {
		return s
	}
	return "?" + types.ExprString(rs.Results[0])
}

// Narrowing is one statement that re-slices the named slice (a variable or a field path such as
// "it.chunks"): target = target[a:b].
type Narrowing struct {
	Pos    string
	Text   string
	Guards []string // linear forms of the conjuncts of enclosing for/if conditions (true arms)
	Search string   // linear form of the sort.Search predicate used as the low bound, if any
}

// Narrowings lists the re-slicing assignments of target in the function.
func (f *Fn) Narrowings(target string) []Narrowing {
	var out []Narrowing
	var stack []ast.Node
	ast.Inspect(f.Body, func(n ast.Node) bool {
		if n == nil {
			stack = stack[:len(stack)-1]
			return true
		}
		stack = append(stack, n)
		as, ok := n.(*ast.AssignStmt)
		if !ok || len(as.Lhs) != 1 || len(as.Rhs) != 1 || types.ExprString(as.Lhs[0]) != target {
			return true
		}
		se, ok := ast.Unparen(as.Rhs[0]).(*ast.SliceExpr)
		if !ok {
			return true
		}
		nw := Narrowing{Pos: f.P.Pos(as.Pos()), Text: types.ExprString(as.Lhs[0]) + " = " + types.ExprString(as.Rhs[0])}
		if call, ok := se.Low.(*ast.CallExpr); ok && types.ExprString(call.Fun) == "sort.Search" && len(call.Args) == 2 {
			nw.Search = f.searchPred(call)
		}
		var conj func(e ast.Expr)
		conj = func(e ast.Expr) {
			e = ast.Unparen(e)
			if be, ok := e.(*ast.BinaryExpr); ok && be.Op == token.LAND {
				conj(be.X)
				conj(be.Y)
				return
			}
			if s, ok := LinearCmp(f.Info, e); ok {
				nw.Guards = append(nw.Guards, s)
			} else {
				nw.Guards = append(nw.Guards, "?"+types.ExprString(e))
			}
		}
		for i := len(stack) - 2; i >= 0; i-- {
			switch s := stack[i].(type) {
			case *ast.ForStmt:
				if s.Cond != nil && stack[i+1] == ast.Node(s.Body) {
					conj(s.Cond)
				}
			case *ast.IfStmt:
				if stack[i+1] == ast.Node(s.Body) {
					conj(s.Cond)
				}
			}
		}
		sort.Strings(nw.Guards)
		out = append(out, nw)
		return true
	})
	return out
}

// LinearCmpReal normalises a comparison over the reals: `A op B` becomes `form op' 0` with
// op' ∈ {<, <=} and no integer folding of <= into < (for floating-point operands).  The result is
// the form and the operator separately, so that complements can be compared:
// ¬(F < 0) ≡ (-F <= 0).
func LinearCmpReal(info *types.Info, e ast.Expr) (LinForm, string, bool) {
	be, ok := ast.Unparen(e).(*ast.BinaryExpr)
	if !ok {
		return LinForm{}, "", false
	}
	a, ok1 := Linear(info, be.X)
	b, ok2 := Linear(info, be.Y)
	if !ok1 || !ok2 {
		return LinForm{}, "", false
	}
	switch be.Op {
	case token.LSS:
		return a.add(b, -1), "<", true
	case token.LEQ:
		return a.add(b, -1), "<=", true
	case token.GTR:
		return b.add(a, -1), "<", true
	case token.GEQ:
		return b.add(a, -1), "<=", true
	}
	return LinForm{}, "", false
}

// Negate returns the complement of `form op 0` over the reals.
func NegateReal(f LinForm, op string) (LinForm, string) {
	if op == "<" {
		return f.scale(-1), "<="
	}
	return f.scale(-1), "<"
}

// Subst replaces term by (term + k) in the form.
func (l LinForm) Subst(term string, k int64) LinForm {
	out := l.scale(1)
	out.Const += int64(l.Terms[term]) * k
	return out
}

// CmpAtom normalises an integer order comparison `A op B` (op ∈ <, <=, >, >=) to the form d < 0.
func CmpAtom(info *types.Info, e ast.Expr) (LinForm, bool) {
	be, ok := ast.Unparen(e).(*ast.BinaryExpr)
	if !ok {
		return LinForm{}, false
	}
	a, ok1 := Linear(info, be.X)
	b, ok2 := Linear(info, be.Y)
	if !ok1 || !ok2 {
		return LinForm{}, false
	}
	switch be.Op {
	case token.LSS:
		return a.add(b, -1), true
	case token.LEQ:
		d := a.add(b, -1)
		d.Const--
		return d, true
	case token.GTR:
		return b.add(a, -1), true
	case token.GEQ:
		d := b.add(a, -1)
		d.Const--
		return d, true
	}
	return LinForm{}, false
}

// NegAtom: ¬(d < 0) over the integers is -d-1 < 0.
func NegAtom(d LinForm) LinForm {
	n := d.scale(-1)
	n.Const--
	return n
}

// DNF turns a boolean combination (&&, ||, !, parentheses) of integer order comparisons into a disjunction of
// conjunctions of atoms d < 0 (printed LinForms).  inline may replace a sub-expression (e.g. a call of a
// one-line boolean helper) by the expression it stands for.  ok=false if a leaf is not an order comparison.
func DNF(info *types.Info, e ast.Expr, inline func(ast.Expr) (ast.Expr, *types.Info)) ([][]string, bool) {
	var rec func(e ast.Expr, info *types.Info, neg bool) ([][]string, bool)
	cross := func(a, b [][]string) [][]string {
		var out [][]string
		for _, x := range a {
			for _, y := range b {
				out = append(out, append(append([]string{}, x...), y...))
			}
		}
		return out
	}
	rec = func(e ast.Expr, info *types.Info, neg bool) ([][]string, bool) {
		e = ast.Unparen(e)
		if inline != nil {
			if r, ri := inline(e); r != nil {
				return rec(r, ri, neg)
			}
		}
		switch x := e.(type) {
		case *ast.UnaryExpr:
			if x.Op == token.NOT {
				return rec(x.X, info, !neg)
			}
		case *ast.BinaryExpr:
			if x.Op == token.LAND || x.Op == token.LOR {
				l, ok1 := rec(x.X, info, neg)
				r, ok2 := rec(x.Y, info, neg)
				if !ok1 || !ok2 {
					return nil, false
				}
				and := x.Op == token.LAND
				if neg {
					and = !and
				}
				if and {
					return cross(l, r), true
				}
				return append(l, r...), true
			}
			if d, ok := CmpAtom(info, x); ok {
				if neg {
					d = NegAtom(d)
				}
				return [][]string{{d.String()}}, true
			}
		}
		return nil, false
	}
	return rec(e, info, false)
}

// onlyLiterals reports whether e contains no identifiers (named constants stay symbolic in linear forms).
func onlyLiterals(e ast.Expr) bool {
	ok := true
	ast.Inspect(e, func(n ast.Node) bool {
		if _, isID := n.(*ast.Ident); isID {
			ok = false
		}
		return ok
	})
	return ok
}

// Minus returns l − o.
func (l LinForm) Minus(o LinForm) LinForm { return l.add(o, -1) }
