package eng

import (
	"fmt"
	"go/ast"
	"go/types"
	"sort"
	"strings"

	"golang.org/x/tools/go/cfg"
)

// Obligation is one decided rule instance.
type Obligation struct {
	Rule   string `json:"rule"`  // e.g. C03.R1
	Where  string `json:"where"` // function / table / field the instance is about
	What   string `json:"what"`  // the clause, in the notation of DESIGN.md
	OK     bool   `json:"ok"`
	Pos    string `json:"pos,omitempty"`    // file:line of the offending (or witnessing) construct
	Detail string `json:"detail,omitempty"` // witness path / explanation
}

func (o Obligation) Key() string { return o.Rule + "|" + o.Where + "|" + o.What }

// Ctx collects the obligations of one property run.
type Ctx struct {
	P           *Prog
	Prop        string
	Tier        string
	Obls        []Obligation
	FnsAnalysed map[string]bool
	CallSites   int
	curRule     string
}

func NewCtx(p *Prog, prop, tier string) *Ctx {
	return &Ctx{P: p, Prop: prop, Tier: tier, FnsAnalysed: map[string]bool{}}
}

func (c *Ctx) add(o Obligation) { c.Obls = append(c.Obls, o) }

func (c *Ctx) Pass(rule, where, what, detail string) {
	c.add(Obligation{Rule: c.Prop + "." + rule, Where: where, What: what, OK: true, Detail: detail})
}

func (c *Ctx) Fail(rule, where, what, pos, detail string) {
	c.add(Obligation{Rule: c.Prop + "." + rule, Where: where, What: what, OK: false, Pos: pos, Detail: detail})
}

// Check records an obligation decided by the caller.
func (c *Ctx) Check(rule, where, what string, ok bool, pos, detail string) {
	if ok {
		c.Pass(rule, where, what, detail)
	} else {
		c.Fail(rule, where, what, pos, detail)
	}
}

// Fn is a function under analysis.
type Fn struct {
	*Graph
	C       *Ctx
	blocked map[[2]*cfg.Block]bool // CFG edges that are infeasible under the assumptions made by Given
	disp    string                 // display name including assumptions
	assumps []assump
}

type assump struct {
	text string
	val  bool
}

// Where is the name under which obligations of this function are recorded.
func (f *Fn) Where() string {
	if f.disp != "" {
		return f.disp
	}
	return f.Name
}

func (f *Fn) search(from *Loc, targets, avoid []Loc) ([]*cfg.Block, *Loc) {
	return f.Graph.search(from, targets, avoid, f.blocked)
}

func (c *Ctx) Fn(ref string) *Fn {
	g := c.P.GraphOf(ref)
	c.FnsAnalysed[g.Name] = true
	return &Fn{Graph: g, C: c}
}

// Closure selects the (outermost) function literal in f whose body contains a match of m.
func (f *Fn) Closure(tag string, m Matcher) *Fn {
	m.Deep = true
	var pick *ast.FuncLit
	var visit func(n ast.Node) bool
	visit = func(n ast.Node) bool {
		if pick != nil {
			return false
		}
		if fl, ok := n.(*ast.FuncLit); ok {
			if f.Graph.Contains(fl.Body, m) {
				pick = fl
			}
			return false
		}
		return true
	}
	ast.Inspect(f.Body, visit)
	if pick == nil {
		undecided("%s: no function literal containing %s", f.Name, m.Desc)
	}
	g := f.Graph.ClosureGraph(pick, tag)
	f.C.FnsAnalysed[g.Name] = true
	return &Fn{Graph: g, C: f.C}
}

// InnerClosure is like Closure but picks the innermost literal containing m.
func (f *Fn) InnerClosure(tag string, m Matcher) *Fn {
	m.Deep = true
	var pick *ast.FuncLit
	ast.Inspect(f.Body, func(n ast.Node) bool {
		if fl, ok := n.(*ast.FuncLit); ok {
			if f.Graph.Contains(fl.Body, m) {
				pick = fl
			}
		}
		return true
	})
	if pick == nil {
		undecided("%s: no function literal containing %s", f.Name, m.Desc)
	}
	g := f.Graph.ClosureGraph(pick, tag)
	f.C.FnsAnalysed[g.Name] = true
	return &Fn{Graph: g, C: f.C}
}

func locLess(a, b Loc) bool {
	if a.Idx != b.Idx {
		return a.Idx < b.Idx
	}
	return a.Seq < b.Seq
}

// path search ---------------------------------------------------------------

type pathQuery struct {
	g      *Graph
	avoid  map[*cfg.Block][]Loc
	target map[*cfg.Block][]Loc
}

// search looks for a path from `from` (nil: function entry) to any target location
// that does not pass an avoid location.  It returns the blocks of a witness path.
func (g *Graph) search(from *Loc, targets, avoid []Loc, blocked map[[2]*cfg.Block]bool) ([]*cfg.Block, *Loc) {
	q := pathQuery{g: g, avoid: map[*cfg.Block][]Loc{}, target: map[*cfg.Block][]Loc{}}
	for _, a := range avoid {
		q.avoid[a.Blk] = append(q.avoid[a.Blk], a)
	}
	for _, t := range targets {
		q.target[t.Blk] = append(q.target[t.Blk], t)
	}
	type item struct {
		b    *cfg.Block
		prev *item
	}
	// scan returns (hit target, blocked)
	scan := func(b *cfg.Block, after *Loc) (*Loc, bool) {
		var firstAvoid, firstTarget *Loc
		for i := range q.avoid[b] {
			a := q.avoid[b][i]
			if after != nil && !locLess(*after, a) {
				continue
			}
			if firstAvoid == nil || locLess(a, *firstAvoid) {
				firstAvoid = &q.avoid[b][i]
			}
		}
		for i := range q.target[b] {
			t := q.target[b][i]
			if after != nil && !locLess(*after, t) {
				continue
			}
			if firstTarget == nil || locLess(t, *firstTarget) {
				firstTarget = &q.target[b][i]
			}
		}
		if firstTarget != nil && (firstAvoid == nil || locLess(*firstTarget, *firstAvoid)) {
			return firstTarget, false
		}
		return nil, firstAvoid != nil
	}
	mkPath := func(it *item) []*cfg.Block {
		var p []*cfg.Block
		for ; it != nil; it = it.prev {
			p = append([]*cfg.Block{it.b}, p...)
		}
		return p
	}
	var queue []*item
	seen := map[*cfg.Block]bool{}
	if from == nil {
		e := g.CFG.Blocks[0]
		it := &item{b: e}
		if t, blocked := scan(e, nil); t != nil {
			return mkPath(it), t
		} else if blocked {
			return nil, nil
		}
		seen[e] = true
		queue = append(queue, it)
	} else {
		it := &item{b: from.Blk}
		if t, blocked := scan(from.Blk, from); t != nil {
			return mkPath(it), t
		} else if blocked {
			return nil, nil
		}
		// note: from.Blk not marked seen: it may be re-entered from the top through a loop.
		queue = append(queue, it)
	}
	for len(queue) > 0 {
		it := queue[0]
		queue = queue[1:]
		for _, s := range it.b.Succs {
			if seen[s] || blocked[[2]*cfg.Block{it.b, s}] {
				continue
			}
			seen[s] = true
			ni := &item{b: s, prev: it}
			if t, blocked := scan(s, nil); t != nil {
				return mkPath(ni), t
			} else if blocked {
				continue
			}
			queue = append(queue, ni)
		}
	}
	return nil, nil
}

func (g *Graph) pathString(p []*cfg.Block) string {
	var s []string
	for _, b := range p {
		line := 0
		if len(b.Nodes) > 0 {
			line = g.lineOf(b.Nodes[0])
		} else if b.Stmt != nil {
			line = g.lineOf(b.Stmt)
		}
		s = append(s, fmt.Sprintf("b%d@L%d", b.Index, line))
	}
	if len(s) > 14 {
		s = append(append(s[:6:6], "…"), s[len(s)-6:]...)
	}
	return strings.Join(s, "→")
}

// need finds matches and records a failure (unresolved instance) if there are none.
func (f *Fn) need(rule string, m Matcher, what string) []Loc {
	ls := f.Find(m)
	if len(ls) == 0 {
		f.C.Fail(rule, f.Where(), what, f.P.Pos(f.Body.Pos()), "no occurrence of "+m.Desc+" in "+f.Name+" (rule instance vanished)")
	}
	return ls
}

// Dom: every occurrence of b is preceded, on every path from entry, by an occurrence of a.
func (f *Fn) Dom(rule string, a, b Matcher) bool {
	what := a.Desc + " ≺ " + b.Desc
	as := f.need(rule, a, what)
	bs := f.need(rule, b, what)
	if len(as) == 0 || len(bs) == 0 {
		return false
	}
	for _, bl := range bs {
		bl := bl
		if p, _ := f.search(nil, []Loc{bl}, as); p != nil {
			f.C.Fail(rule, f.Where(), what, f.At(bl), "path from entry reaches "+b.Desc+" at "+f.At(bl)+" without "+a.Desc+": "+f.pathString(p))
			return false
		}
	}
	f.C.Pass(rule, f.Where(), what, fmt.Sprintf("%d×A at %s; %d×B at %s", len(as), f.Describe(as), len(bs), f.Describe(bs)))
	return true
}

// Seq: chain of Dom obligations.
func (f *Fn) Seq(rule string, ms ...Matcher) {
	for i := 0; i+1 < len(ms); i++ {
		f.Dom(rule, ms[i], ms[i+1])
	}
}

// DomOK: a precedes every exit that may be a success return.
func (f *Fn) DomOK(rule string, a Matcher) bool {
	what := a.Desc + " ≺ ok(" + short(f.Name) + ")"
	as := f.need(rule, a, what)
	if len(as) == 0 {
		return false
	}
	n := 0
	for _, e := range f.Exits() {
		if e.Class == ExitErr {
			continue
		}
		n++
		if p, _ := f.search(nil, []Loc{e.Loc}, as); p != nil {
			f.C.Fail(rule, f.Where(), what, f.At(e.Loc), fmt.Sprintf("non-error exit at %s (%s) reachable without %s: %s", f.At(e.Loc), e.Why, a.Desc, f.pathString(p)))
			return false
		}
	}
	if n == 0 {
		f.C.Fail(rule, f.Where(), what, f.P.Pos(f.Body.Pos()), "function has no non-error exit")
		return false
	}
	f.C.Pass(rule, f.Where(), what, fmt.Sprintf("%d non-error exits, all dominated", n))
	return true
}

// NoPath: no execution path on which b runs after a.
func (f *Fn) NoPath(rule string, a, b Matcher) bool {
	what := "no path " + a.Desc + " ⇝ " + b.Desc
	as := f.need(rule, a, what)
	bs := f.need(rule, b, what)
	if len(as) == 0 || len(bs) == 0 {
		return false
	}
	for _, al := range as {
		al := al
		if p, t := f.search(&al, bs, nil); p != nil {
			f.C.Fail(rule, f.Where(), what, f.At(*t), fmt.Sprintf("%s at %s can be followed by %s at %s: %s", a.Desc, f.At(al), b.Desc, f.At(*t), f.pathString(p)))
			return false
		}
	}
	f.C.Pass(rule, f.Where(), what, fmt.Sprintf("%d×%d pairs", len(as), len(bs)))
	return true
}

// ExitKind selects which exits AllPaths considers.
type ExitKind int

const (
	AnyExit ExitKind = iota
	OKExit           // exits not classified as error returns
)

// AllPaths: every path from each occurrence of a to a function exit passes an occurrence of b
// (a deferred b registered before a, or after a on the path, counts).
func (f *Fn) AllPaths(rule string, a, b Matcher, kind ExitKind) bool {
	what := "after " + a.Desc + " every path to exit passes " + b.Desc
	as := f.need(rule, a, what)
	if len(as) == 0 {
		return false
	}
	bs := f.Find(b)
	ds := f.Find(Deferred(b))
	if len(bs)+len(ds) == 0 {
		f.C.Fail(rule, f.Where(), what, f.P.Pos(f.Body.Pos()), "no occurrence of "+b.Desc)
		return false
	}
	var exits []Loc
	for _, e := range f.Exits() {
		if kind == OKExit && e.Class == ExitErr {
			continue
		}
		exits = append(exits, e.Loc)
	}
	for _, al := range as {
		al := al
		if len(ds) > 0 {
			if p, _ := f.search(nil, []Loc{al}, ds); p == nil {
				continue // a deferred b is registered on every path to a
			}
		}
		if p, t := f.search(&al, exits, append(append([]Loc{}, bs...), ds...)); p != nil {
			f.C.Fail(rule, f.Where(), what, f.At(al), fmt.Sprintf("from %s at %s the exit at %s is reachable without %s: %s", a.Desc, f.At(al), f.At(*t), b.Desc, f.pathString(p)))
			return false
		}
	}
	f.C.Pass(rule, f.Where(), what, fmt.Sprintf("%d×A, %d×B, %d deferred B, %d exits", len(as), len(bs), len(ds), len(exits)))
	return true
}

// errVarOf finds the error variable that receives the result of the call at l, and the
// location of that assignment.
func (f *Fn) errVarOf(l Loc) *types.Var {
	if l.Idx >= len(l.Blk.Nodes) {
		return nil
	}
	top := l.Blk.Nodes[l.Idx]
	as, ok := top.(*ast.AssignStmt)
	if !ok || len(as.Rhs) != 1 || ast.Unparen(as.Rhs[0]) != l.Node {
		return nil
	}
	for i := len(as.Lhs) - 1; i >= 0; i-- {
		id, ok := as.Lhs[i].(*ast.Ident)
		if !ok || id.Name == "_" {
			continue
		}
		if v, ok := f.Info.ObjectOf(id).(*types.Var); ok && isErrorType(v.Type()) {
			return v
		}
	}
	return nil
}

// failArms returns the blocks entered when the error of the call at l is non-nil: the
// check must be the condition ending l's block (or a directly following block without an
// intervening assignment to the variable).
func (f *Fn) failArms(l Loc) ([]*cfg.Block, string) {
	v := f.errVarOf(l)
	if v == nil {
		return nil, "result of call not assigned to an error variable"
	}
	b := l.Blk
	startIdx := l.Idx + 1
	for hops := 0; hops < 3; hops++ {
		// a later assignment to v before the check invalidates the gate
		for i := startIdx; i < len(b.Nodes); i++ {
			if as, ok := b.Nodes[i].(*ast.AssignStmt); ok {
				for _, lh := range as.Lhs {
					if id, ok := lh.(*ast.Ident); ok && f.Info.ObjectOf(id) == v {
						return nil, "error variable reassigned before it is checked"
					}
				}
			}
		}
		if c := condOf(b); c != nil {
			t, fl := f.condFacts(c)
			var arms []*cfg.Block
			for _, x := range t {
				if x == v {
					arms = append(arms, b.Succs[0])
				}
			}
			for _, x := range fl {
				if x == v {
					arms = append(arms, b.Succs[1])
				}
			}
			if len(arms) > 0 {
				return arms, ""
			}
			return nil, "next branch does not test the error variable"
		}
		if len(b.Succs) != 1 {
			break
		}
		b = b.Succs[0]
		startIdx = 0
	}
	return nil, "no check of the error variable follows the call"
}

// errCheckLoc returns the location of the branch condition that tests the error of the call at l
// (same search as failArms).
func (f *Fn) errCheckLoc(l Loc) *Loc {
	v := f.errVarOf(l)
	if v == nil {
		return nil
	}
	b := l.Blk
	for hops := 0; hops < 3; hops++ {
		if c := condOf(b); c != nil {
			return &Loc{Blk: b, Idx: len(b.Nodes) - 1, Seq: 0, Node: c}
		}
		if len(b.Succs) != 1 {
			return nil
		}
		b = b.Succs[0]
	}
	return nil
}

// Gate: b is only executed after a returned a nil error: a ≺ b, a's error is tested right
// after the call, and b is not reachable from the failing arm without running a again.
func (f *Fn) Gate(rule string, a, b Matcher) bool {
	what := b.Desc + " only after " + a.Desc + " returned nil error"
	as := f.need(rule, a, what)
	bs := f.need(rule, b, what)
	if len(as) == 0 || len(bs) == 0 {
		return false
	}
	for _, bl := range bs {
		bl := bl
		if p, _ := f.search(nil, []Loc{bl}, as); p != nil {
			f.C.Fail(rule, f.Where(), what, f.At(bl), "path from entry reaches "+b.Desc+" at "+f.At(bl)+" without "+a.Desc+": "+f.pathString(p))
			return false
		}
	}
	for _, al := range as {
		arms, why := f.failArms(al)
		if arms == nil {
			// a not followed by b at all is fine (e.g. a second occurrence after b)
			if p, _ := f.search(&al, bs, as); p == nil {
				continue
			}
			f.C.Fail(rule, f.Where(), what, f.At(al), "error of "+a.Desc+" at "+f.At(al)+" is not gated: "+why)
			return false
		}
		for _, arm := range arms {
			start := Loc{Blk: arm, Idx: -1, Seq: -1}
			if p, t := f.search(&start, bs, as); p != nil {
				f.C.Fail(rule, f.Where(), what, f.At(*t), fmt.Sprintf("%s at %s reachable from the failing arm of %s at %s: %s", b.Desc, f.At(*t), a.Desc, f.At(al), f.pathString(p)))
				return false
			}
		}
		// b must not run between the call and the test of its error
		if ck := f.errCheckLoc(al); ck != nil {
			al := al
			if p, t := f.search(&al, bs, []Loc{*ck}); p != nil {
				f.C.Fail(rule, f.Where(), what, f.At(*t), fmt.Sprintf("%s at %s runs after %s at %s but before its error is tested: %s", b.Desc, f.At(*t), a.Desc, f.At(al), f.pathString(p)))
				return false
			}
		}
	}
	f.C.Pass(rule, f.Where(), what, fmt.Sprintf("%d×A, %d×B", len(as), len(bs)))
	return true
}

// Has: at least min occurrences of m.
func (f *Fn) Has(rule string, m Matcher, min int) bool {
	ls := f.Find(m)
	what := fmt.Sprintf("≥%d × %s", min, m.Desc)
	if len(ls) < min {
		f.C.Fail(rule, f.Where(), what, f.P.Pos(f.Body.Pos()), fmt.Sprintf("found %d occurrence(s) of %s in %s, want ≥ %d", len(ls), m.Desc, f.Name, min))
		return false
	}
	f.C.Pass(rule, f.Where(), what, f.Describe(ls))
	return true
}

// Hasnt: no occurrence of m.
func (f *Fn) Hasnt(rule string, m Matcher) bool {
	ls := f.Find(m)
	what := "no " + m.Desc
	if len(ls) > 0 {
		f.C.Fail(rule, f.Where(), what, f.At(ls[0]), fmt.Sprintf("%s occurs at %s", m.Desc, f.Describe(ls)))
		return false
	}
	f.C.Pass(rule, f.Where(), what, "")
	return true
}

// Only: every occurrence of m satisfies pred (described by desc).
func (f *Fn) Only(rule string, m Matcher, desc string, pred func(l Loc) bool) bool {
	what := "every " + m.Desc + " " + desc
	ls := f.need(rule, m, what)
	if len(ls) == 0 {
		return false
	}
	for _, l := range ls {
		if !pred(l) {
			f.C.Fail(rule, f.Where(), what, f.At(l), fmt.Sprintf("%s at %s is not %s", m.Desc, f.At(l), desc))
			return false
		}
	}
	f.C.Pass(rule, f.Where(), what, f.Describe(ls))
	return true
}

// DeferOrder: the defer matching first is registered before the defer matching second
// (so it runs after it).
func (f *Fn) DeferOrder(rule string, first, second Matcher) bool {
	return f.Dom(rule, Deferred(first), Deferred(second))
}

// Summary helpers -----------------------------------------------------------

func (c *Ctx) Failed() []Obligation {
	var out []Obligation
	for _, o := range c.Obls {
		if !o.OK {
			out = append(out, o)
		}
	}
	return out
}

func (c *Ctx) RuleCounts() map[string]int {
	m := map[string]int{}
	for _, o := range c.Obls {
		m[o.Rule]++
	}
	return m
}

func SortedKeys[V any](m map[string]V) []string {
	var ks []string
	for k := range m {
		ks = append(ks, k)
	}
	sort.Strings(ks)
	return ks
}

// ---- assumptions (single-condition path sensitivity) ----

type tri int

const (
	triU tri = iota
	triT
	triF
)

func triNot(t tri) tri {
	switch t {
	case triT:
		return triF
	case triF:
		return triT
	}
	return triU
}

// evalCond evaluates a branch condition under the assumption that the expression printed
// as `text` has value val; unknown sub-conditions are U.
func evalCond(e ast.Expr, as []assump) tri {
	e = ast.Unparen(e)
	b2t := func(b bool) tri {
		if b {
			return triT
		}
		return triF
	}
	for _, a := range as {
		if types.ExprString(e) == a.text {
			return b2t(a.val)
		}
	}
	switch x := e.(type) {
	case *ast.UnaryExpr:
		if x.Op.String() == "!" {
			return triNot(evalCond(x.X, as))
		}
	case *ast.BinaryExpr:
		switch x.Op.String() {
		case "&&":
			a, b := evalCond(x.X, as), evalCond(x.Y, as)
			if a == triF || b == triF {
				return triF
			}
			if a == triT && b == triT {
				return triT
			}
		case "||":
			a, b := evalCond(x.X, as), evalCond(x.Y, as)
			if a == triT || b == triT {
				return triT
			}
			if a == triF && b == triF {
				return triF
			}
		case "==", "!=":
			// X == nil is the negation of X != nil (and generally a == b of a != b)
			flip := "!="
			if x.Op.String() == "!=" {
				flip = "=="
			}
			alt := types.ExprString(x.X) + " " + flip + " " + types.ExprString(x.Y)
			for _, a := range as {
				if alt == a.text {
					return b2t(!a.val)
				}
			}
		}
	}
	return triU
}

// Given returns a view of f in which every branch whose condition is decided by the assumption
// `text == val` only follows the feasible arm.  Every identifier in text must be a variable that
// is assigned at most once in the function (so the assumption is stable along a path); otherwise
// the query is undecided.
func (f *Fn) Given(text string, val bool) *Fn { return f.given(text, val, true) }

// GivenBranch is Given for a condition that is itself the event of interest (e.g. the result of
// an errors.As call): the branch arms are selected, no claim about later re-evaluation is made.
func (f *Fn) GivenBranch(text string, val bool) *Fn { return f.given(text, val, false) }

func (f *Fn) given(text string, val bool, checkStable bool) *Fn {
	nf := &Fn{Graph: f.Graph, C: f.C, blocked: map[[2]*cfg.Block]bool{}}
	nf.assumps = append(append([]assump{}, f.assumps...), assump{text, val})
	n := 0
	var vars []*types.Var
	for _, b := range f.live {
		c := condOf(b)
		if c == nil {
			continue
		}
		if tv, ok := f.Info.Types[c]; !ok || !isBool(tv.Type) {
			continue
		}
		switch evalCond(c, nf.assumps) {
		case triT:
			nf.blocked[[2]*cfg.Block{b, b.Succs[1]}] = true
		case triF:
			nf.blocked[[2]*cfg.Block{b, b.Succs[0]}] = true
		default:
			if !strings.Contains(types.ExprString(c), text) {
				continue
			}
		}
		if strings.Contains(types.ExprString(c), text) {
			n++
		}
		ast.Inspect(c, func(x ast.Node) bool {
			if id, ok := x.(*ast.Ident); ok {
				if v, ok := f.Info.Uses[id].(*types.Var); ok && !v.IsField() && v.Pkg() == f.Pkg.Types && v.Parent() != f.Pkg.Types.Scope() {
					if strings.Contains(" "+text+" ", id.Name) {
						vars = append(vars, v)
					}
				}
			}
			return true
		})
	}
	if n == 0 {
		// The guard the rule instance was confirmed against is gone: like a vanished event this is
		// a change of the protocol's shape, reported as a failed obligation (the rules that follow
		// run without the assumption).
		f.C.Fail("guard", f.Where(), "branch on `"+text+"` exists", f.P.Pos(f.Body.Pos()),
			"no branch condition of "+f.Name+" mentions `"+text+"` any more: the guarded structure the rules were confirmed against has changed")
	}
	// stability: each assumed variable has at most one assignment (its definition)
	for _, v := range vars {
		if !checkStable {
			break
		}
		defs := 0
		ast.Inspect(f.Body, func(x ast.Node) bool {
			switch s := x.(type) {
			case *ast.AssignStmt:
				for _, l := range s.Lhs {
					if id, ok := l.(*ast.Ident); ok && f.Info.ObjectOf(id) == v {
						defs++
					}
				}
			case *ast.IncDecStmt:
				if id, ok := s.X.(*ast.Ident); ok && f.Info.ObjectOf(id) == v {
					defs += 2
				}
			case *ast.UnaryExpr:
				if s.Op.String() == "&" {
					if id, ok := s.X.(*ast.Ident); ok && f.Info.ObjectOf(id) == v {
						defs += 2
					}
				}
			}
			return true
		})
		if defs > 1 {
			undecided("%s: assumption %q is about variable %s, which is assigned %d times", f.Name, text, v.Name(), defs)
		}
	}
	neg := ""
	if !val {
		neg = "not "
	}
	nf.disp = f.Where() + " [given " + neg + text + "]"
	return nf
}

// FailStops: b is not reachable from the failing arm of a's error check (without running a again).
// Unlike Gate it does not require a to dominate b.
func (f *Fn) FailStops(rule string, a, b Matcher) bool {
	what := "a failing " + a.Desc + " never reaches " + b.Desc
	as := f.need(rule, a, what)
	bs := f.need(rule, b, what)
	if len(as) == 0 || len(bs) == 0 {
		return false
	}
	for _, al := range as {
		al := al
		arms, why := f.failArms(al)
		if arms == nil {
			if p, _ := f.search(&al, bs, as); p == nil {
				continue
			}
			f.C.Fail(rule, f.Where(), what, f.At(al), "error of "+a.Desc+" at "+f.At(al)+" is not gated: "+why)
			return false
		}
		for _, arm := range arms {
			start := Loc{Blk: arm, Idx: -1, Seq: -1}
			if p, t := f.search(&start, bs, as); p != nil {
				f.C.Fail(rule, f.Where(), what, f.At(*t), fmt.Sprintf("%s at %s reachable from the failing arm of %s at %s: %s", b.Desc, f.At(*t), a.Desc, f.At(al), f.pathString(p)))
				return false
			}
		}
	}
	f.C.Pass(rule, f.Where(), what, fmt.Sprintf("%d×A, %d×B", len(as), len(bs)))
	return true
}
