// Package eng holds the analysis engines of promverif: loading and resolving the
// type-checked program of /repo, per-function control-flow graphs with dominators,
// event matchers, module-wide call/field-use indexes, table and lockset analyses.
// Nothing in here executes code of /repo.
package eng

import (
	"fmt"
	"go/ast"
	"go/token"
	"go/types"
	"os"
	"sort"
	"strings"

	"golang.org/x/tools/go/packages"
)

const ModPath = "github.com/prometheus/prometheus"

// Undecided is panicked with when an anchor cannot be resolved or a query has no
// answer.  It is never turned into a pass.
type Undecided struct{ Reason string }

func undecided(format string, a ...any) { panic(Undecided{fmt.Sprintf(format, a...)}) }

// Prog is the loaded, type-checked main module.
type Prog struct {
	Fset     *token.FileSet
	Pkgs     []*packages.Package // module packages, sorted by path
	byPath   map[string]*packages.Package
	allTypes map[string]*types.Package // every package reachable through imports, by path
	RepoDir  string
	Tags     string
	Overlay  map[string][]byte // source overlay this program was loaded with (selftest mutants)

	idx *Index // lazily built
	fns map[*types.Func]*FuncSrc
}

// FuncSrc is a function or method declared in the module, with its syntax.
type FuncSrc struct {
	Obj  *types.Func
	Decl *ast.FuncDecl
	Pkg  *packages.Package
}

type LoadOpts struct {
	RepoDir  string
	Patterns []string
	Tags     string
	Overlay  map[string][]byte
	// AllowUnusedOverlay: overlay entries for files that are not compiled in this build variant are ignored.
	AllowUnusedOverlay bool
}

// loadViaExportData is the plain go/packages loader (module packages type-checked by
// go/packages, every import from export data).  It is kept for cross-checking the in-process
// loader (PROMVERIF_LOADER=packages): after an edit of /repo it makes the go command recompile
// the edited package and all its dependants (about a minute), which Load avoids.
func loadViaExportData(o LoadOpts) (*Prog, error) {
	if o.RepoDir == "" {
		o.RepoDir = "/repo"
	}
	if len(o.Patterns) == 0 {
		o.Patterns = []string{"./..."}
	}
	env := []string{}
	for _, e := range os.Environ() {
		if strings.HasPrefix(e, "GOFLAGS=") || strings.HasPrefix(e, "GOWORK=") || strings.HasPrefix(e, "GOPROXY=") ||
			strings.HasPrefix(e, "GOSUMDB=") || strings.HasPrefix(e, "GOTOOLCHAIN=") {
			continue
		}
		env = append(env, e)
	}
	env = append(env, "GOFLAGS=-mod=mod", "GOPROXY=off", "GOWORK=off")
	cfg := &packages.Config{
		Mode: packages.NeedName | packages.NeedFiles | packages.NeedCompiledGoFiles | packages.NeedImports |
			packages.NeedTypes | packages.NeedSyntax | packages.NeedTypesInfo | packages.NeedTypesSizes | packages.NeedModule,
		Dir: o.RepoDir,
		Env: env,
	}
	if o.Tags != "" {
		cfg.BuildFlags = []string{"-tags=" + o.Tags}
	}
	if os.Getenv("PROMVERIF_FROM_SOURCE") != "" {
		// Type-check every dependency from source in-process: needs no compiler run / build cache.
		cfg.Mode |= packages.NeedDeps
	}
	pkgs, err := packages.Load(cfg, o.Patterns...)
	if err != nil {
		return nil, err
	}
	p := &Prog{byPath: map[string]*packages.Package{}, allTypes: map[string]*types.Package{}, RepoDir: o.RepoDir, Tags: o.Tags,
		fns: map[*types.Func]*FuncSrc{}}
	var errs []string
	for _, pk := range pkgs {
		for _, e := range pk.Errors {
			errs = append(errs, e.Error())
		}
		if pk.Types == nil || !strings.HasPrefix(pk.PkgPath, ModPath) {
			continue
		}
		p.Pkgs = append(p.Pkgs, pk)
		p.byPath[pk.PkgPath] = pk
		p.Fset = pk.Fset
	}
	if len(errs) > 0 {
		if len(errs) > 8 {
			errs = errs[:8]
		}
		return nil, fmt.Errorf("load/type errors: %s", strings.Join(errs, "; "))
	}
	if len(p.Pkgs) == 0 {
		return nil, fmt.Errorf("no module packages loaded for %v", o.Patterns)
	}
	sort.Slice(p.Pkgs, func(i, j int) bool { return p.Pkgs[i].PkgPath < p.Pkgs[j].PkgPath })
	if len(o.Overlay) > 0 {
		if err := p.applyOverlay(o.Overlay); err != nil {
			return nil, err
		}
	}
	var walk func(tp *types.Package)
	walk = func(tp *types.Package) {
		if tp == nil || p.allTypes[tp.Path()] != nil {
			return
		}
		p.allTypes[tp.Path()] = tp
		for _, im := range tp.Imports() {
			walk(im)
		}
	}
	for _, pk := range p.Pkgs {
		walk(pk.Types)
	}
	for _, pk := range p.Pkgs {
		for _, f := range pk.Syntax {
			for _, d := range f.Decls {
				if fd, ok := d.(*ast.FuncDecl); ok {
					if obj, ok := pk.TypesInfo.Defs[fd.Name].(*types.Func); ok {
						p.fns[obj] = &FuncSrc{Obj: obj, Decl: fd, Pkg: pk}
					}
				}
			}
		}
	}
	return p, nil
}

// Pkg returns the module package with the given module-relative path ("tsdb/wlog").
func (p *Prog) Pkg(rel string) *packages.Package {
	pk := p.byPath[ModPath+"/"+rel]
	if rel == "" || rel == "." {
		pk = p.byPath[ModPath]
	}
	if pk == nil {
		undecided("package %q not loaded", rel)
	}
	return pk
}

func (p *Prog) HasPkg(rel string) bool { return p.byPath[ModPath+"/"+rel] != nil }

func (p *Prog) typesPkg(path string) *types.Package {
	if tp := p.allTypes[ModPath+"/"+path]; tp != nil {
		return tp
	}
	if tp := p.allTypes[path]; tp != nil {
		return tp
	}
	undecided("package %q not found among loaded packages or their imports", path)
	return nil
}

// splitRef splits "pkg/path:Recv.Name" or "pkg/path:Name".
func splitRef(ref string) (pkg, recv, name string) {
	i := strings.LastIndex(ref, ":")
	if i < 0 {
		undecided("bad reference %q (want pkg:Name or pkg:Recv.Name)", ref)
	}
	pkg, rest := ref[:i], ref[i+1:]
	if j := strings.Index(rest, "."); j >= 0 {
		return pkg, rest[:j], rest[j+1:]
	}
	return pkg, "", rest
}

// Named resolves "pkg:Type" to the named type.
func (p *Prog) Named(ref string) *types.Named {
	pkg, recv, name := splitRef(ref)
	if recv != "" {
		undecided("Named(%q): not a type reference", ref)
	}
	o := p.typesPkg(pkg).Scope().Lookup(name)
	tn, ok := o.(*types.TypeName)
	if !ok {
		undecided("type %q not found", ref)
	}
	n, ok := types.Unalias(tn.Type()).(*types.Named)
	if !ok {
		undecided("%q is not a named type", ref)
	}
	return n
}

// Func resolves "pkg:Func" or "pkg:Recv.Method" (methods of interfaces included).
func (p *Prog) Func(ref string) *types.Func {
	f := p.TryFunc(ref)
	if f == nil {
		undecided("function %q not found (unresolved anchor)", ref)
	}
	return f
}

func (p *Prog) TryFunc(ref string) *types.Func {
	pkg, recv, name := splitRef(ref)
	tp := p.typesPkg(pkg)
	if recv == "" {
		f, _ := tp.Scope().Lookup(name).(*types.Func)
		return f
	}
	tn, ok := tp.Scope().Lookup(recv).(*types.TypeName)
	if !ok {
		return nil
	}
	t := types.Unalias(tn.Type())
	if n, ok := t.(*types.Named); ok {
		for i := 0; i < n.NumMethods(); i++ {
			if n.Method(i).Name() == name {
				return n.Method(i)
			}
		}
		if it, ok := n.Underlying().(*types.Interface); ok {
			for i := 0; i < it.NumMethods(); i++ {
				if it.Method(i).Name() == name {
					return it.Method(i)
				}
			}
		}
	}
	// promoted through embedding
	obj, _, _ := types.LookupFieldOrMethod(types.NewPointer(t), true, tp, name)
	f, _ := obj.(*types.Func)
	return f
}

// Field resolves "pkg:Struct.field".
func (p *Prog) Field(ref string) *types.Var {
	pkg, recv, name := splitRef(ref)
	tp := p.typesPkg(pkg)
	tn, ok := tp.Scope().Lookup(recv).(*types.TypeName)
	if !ok {
		undecided("struct %q not found (unresolved anchor %q)", recv, ref)
	}
	st, ok := tn.Type().Underlying().(*types.Struct)
	if !ok {
		undecided("%q is not a struct (anchor %q)", recv, ref)
	}
	for i := 0; i < st.NumFields(); i++ {
		if st.Field(i).Name() == name {
			return st.Field(i)
		}
	}
	undecided("field %q not found (unresolved anchor)", ref)
	return nil
}

// Global resolves a package-level variable or constant.
func (p *Prog) Global(ref string) types.Object {
	pkg, _, name := splitRef(ref)
	o := p.typesPkg(pkg).Scope().Lookup(name)
	if o == nil {
		undecided("object %q not found (unresolved anchor)", ref)
	}
	return o
}

// Src returns the declaration of a module function.
func (p *Prog) Src(ref string) *FuncSrc {
	f := p.Func(ref)
	s := p.fns[f.Origin()]
	if s == nil || s.Decl.Body == nil {
		undecided("function %q has no source body in the loaded module", ref)
	}
	return s
}

func (p *Prog) SrcOf(f *types.Func) *FuncSrc {
	if f == nil {
		return nil
	}
	return p.fns[f.Origin()]
}

// Pos renders a position relative to the repository root.
func (p *Prog) Pos(pos token.Pos) string {
	if !pos.IsValid() {
		return "?"
	}
	ps := p.Fset.Position(pos)
	fn := strings.TrimPrefix(ps.Filename, p.RepoDir+"/")
	return fmt.Sprintf("%s:%d", fn, ps.Line)
}

// FuncName renders a function as pkg:Recv.Name.
func FuncName(f *types.Func) string {
	if f == nil {
		return "<nil>"
	}
	pk := ""
	if f.Pkg() != nil {
		pk = strings.TrimPrefix(strings.TrimPrefix(f.Pkg().Path(), ModPath), "/")
	}
	sig, _ := f.Type().(*types.Signature)
	if sig != nil && sig.Recv() != nil {
		t := sig.Recv().Type()
		if pt, ok := t.(*types.Pointer); ok {
			t = pt.Elem()
		}
		t = types.Unalias(t)
		if n, ok := t.(*types.Named); ok {
			return pk + ":" + n.Obj().Name() + "." + f.Name()
		}
		return pk + ":?." + f.Name()
	}
	return pk + ":" + f.Name()
}

func FieldName(v *types.Var, owner string) string { return owner + "." + v.Name() }

// AllFuncs returns all module functions with bodies, deterministic order.
func (p *Prog) AllFuncs() []*FuncSrc {
	out := make([]*FuncSrc, 0, len(p.fns))
	for _, f := range p.fns {
		if f.Decl.Body != nil {
			out = append(out, f)
		}
	}
	sort.Slice(out, func(i, j int) bool { return out[i].Decl.Pos() < out[j].Decl.Pos() })
	return out
}
