package eng

import (
	"fmt"
	"go/ast"
	"go/token"
	"go/types"
	"sort"
	"strings"

	"golang.org/x/tools/go/cfg"
	"golang.org/x/tools/go/packages"
	"golang.org/x/tools/go/types/typeutil"
)

// Graph is the control-flow graph of one function body (a FuncDecl or a FuncLit)
// with its dominator relation.
type Graph struct {
	P     *Prog
	Pkg   *packages.Package
	Info  *types.Info
	Name  string // pkg:Recv.Name or pkg:Recv.Name$closure
	Body  *ast.BlockStmt
	Type  *ast.FuncType
	Sig   *types.Signature
	CFG   *cfg.CFG
	Decl  *ast.FuncDecl // enclosing declaration
	live  []*cfg.Block
	idom  map[*cfg.Block]*cfg.Block
	order map[*cfg.Block]int // reverse post-order number
}

// Loc is a position in a Graph: node Idx of block Blk; Seq orders sub-expressions
// of one node by evaluation (post-order).
type Loc struct {
	Blk  *cfg.Block
	Idx  int
	Seq  int
	Node ast.Node
	Mode Mode
}

// Mode tells in which way the node is executed relative to its statement.
type Mode int

const (
	Plain    Mode = iota
	DeferReg      // inside a defer statement: registered here, runs at function exit
	GoReg         // inside a go statement
)

func mayReturn(info *types.Info) func(*ast.CallExpr) bool {
	return func(call *ast.CallExpr) bool {
		switch fn := typeutil.Callee(info, call).(type) {
		case *types.Builtin:
			return fn.Name() != "panic"
		case *types.Func:
			if fn.Pkg() == nil {
				return true
			}
			full := fn.Pkg().Path() + "." + fn.Name()
			switch full {
			case "os.Exit", "log.Fatal", "log.Fatalf", "log.Fatalln", "log.Panic", "log.Panicf", "runtime.Goexit":
				return false
			}
		}
		return true
	}
}

// GraphOf builds the graph of a declared function.
func (p *Prog) GraphOf(ref string) *Graph {
	s := p.Src(ref)
	return p.graphOfSrc(s)
}

func (p *Prog) graphOfSrc(s *FuncSrc) *Graph {
	g := &Graph{P: p, Pkg: s.Pkg, Info: s.Pkg.TypesInfo, Name: FuncName(s.Obj), Body: s.Decl.Body, Type: s.Decl.Type,
		Sig: s.Obj.Type().(*types.Signature), Decl: s.Decl}
	g.build()
	return g
}

// ClosureGraph builds the graph of a function literal nested in g.
func (g *Graph) ClosureGraph(lit *ast.FuncLit, tag string) *Graph {
	sig, _ := g.Info.TypeOf(lit).(*types.Signature)
	if sig == nil {
		undecided("closure in %s has no signature", g.Name)
	}
	c := &Graph{P: g.P, Pkg: g.Pkg, Info: g.Info, Name: g.Name + "$" + tag, Body: lit.Body, Type: lit.Type, Sig: sig, Decl: g.Decl}
	c.build()
	return c
}

func (g *Graph) build() {
	g.CFG = cfg.New(g.Body, mayReturn(g.Info))
	// reverse post-order over reachable blocks from entry
	seen := map[*cfg.Block]bool{}
	var post []*cfg.Block
	var dfs func(b *cfg.Block)
	dfs = func(b *cfg.Block) {
		seen[b] = true
		for _, s := range b.Succs {
			if !seen[s] {
				dfs(s)
			}
		}
		post = append(post, b)
	}
	if len(g.CFG.Blocks) == 0 {
		undecided("%s: empty CFG", g.Name)
	}
	entry := g.CFG.Blocks[0]
	dfs(entry)
	g.order = map[*cfg.Block]int{}
	for i := len(post) - 1; i >= 0; i-- {
		g.order[post[i]] = len(g.live)
		g.live = append(g.live, post[i])
	}
	preds := map[*cfg.Block][]*cfg.Block{}
	for _, b := range g.live {
		for _, s := range b.Succs {
			preds[s] = append(preds[s], b)
		}
	}
	// Cooper-Harvey-Kennedy
	g.idom = map[*cfg.Block]*cfg.Block{entry: entry}
	changed := true
	for changed {
		changed = false
		for _, b := range g.live[1:] {
			var nd *cfg.Block
			for _, pr := range preds[b] {
				if g.idom[pr] == nil {
					continue
				}
				if nd == nil {
					nd = pr
				} else {
					nd = g.intersect(pr, nd)
				}
			}
			if nd != nil && g.idom[b] != nd {
				g.idom[b] = nd
				changed = true
			}
		}
	}
}

func (g *Graph) intersect(a, b *cfg.Block) *cfg.Block {
	for a != b {
		for g.order[a] > g.order[b] {
			a = g.idom[a]
		}
		for g.order[b] > g.order[a] {
			b = g.idom[b]
		}
	}
	return a
}

// BlockDom reports whether block a dominates block b (reflexive).
func (g *Graph) BlockDom(a, b *cfg.Block) bool {
	if _, ok := g.order[b]; !ok {
		return false
	}
	for {
		if a == b {
			return true
		}
		n := g.idom[b]
		if n == nil || n == b {
			return false
		}
		b = n
	}
}

// Dom reports whether location a strictly precedes b on every path from entry to b.
func (g *Graph) Dom(a, b Loc) bool {
	if a.Blk == b.Blk {
		return a.Idx < b.Idx || (a.Idx == b.Idx && a.Seq < b.Seq)
	}
	return g.BlockDom(a.Blk, b.Blk)
}

func (g *Graph) Live(b *cfg.Block) bool { _, ok := g.order[b]; return ok }

// walkNode visits the sub-nodes of one CFG node in evaluation (post) order.
// Function literals are not entered unless deep is set.
func walkNode(n ast.Node, deep bool, visit func(n ast.Node, mode Mode, seq int)) {
	seq := 0
	var rec func(n ast.Node, mode Mode)
	rec = func(n ast.Node, mode Mode) {
		if n == nil {
			return
		}
		m := mode
		switch x := n.(type) {
		case *ast.FuncLit:
			if deep {
				rec(x.Body, mode)
			}
			seq++
			visit(n, mode, seq)
			return
		case *ast.DeferStmt:
			m = DeferReg
		case *ast.GoStmt:
			m = GoReg
		}
		// children in source order, then the node itself
		var kids []ast.Node
		first := true
		ast.Inspect(n, func(c ast.Node) bool {
			if first {
				first = false
				return true
			}
			if c != nil {
				kids = append(kids, c)
			}
			return false
		})
		for _, k := range kids {
			rec(k, m)
		}
		seq++
		visit(n, mode, seq)
	}
	rec(n, Plain)
}

// Matcher selects AST nodes.
type Matcher struct {
	Desc string
	F    func(g *Graph, n ast.Node, mode Mode) bool
	Deep bool // also look inside function literals (treated as executed where they appear)
	// AnyMode lets the matcher see nodes under defer/go registrations; otherwise only Plain nodes match.
	AnyMode bool
}

func (m Matcher) String() string { return m.Desc }

// Find returns all locations in live blocks that match m, in block order.
func (g *Graph) Find(m Matcher) []Loc {
	var out []Loc
	for _, b := range g.live {
		for i, n := range b.Nodes {
			walkNode(n, m.Deep, func(sub ast.Node, mode Mode, seq int) {
				if mode != Plain && !m.AnyMode {
					return
				}
				if m.F(g, sub, mode) {
					out = append(out, Loc{Blk: b, Idx: i, Seq: seq, Node: sub, Mode: mode})
				}
			})
		}
	}
	return out
}

// FindLits returns function literals in the body (not nested in other literals' bodies unless deep).
func (g *Graph) FuncLits() []*ast.FuncLit {
	var out []*ast.FuncLit
	ast.Inspect(g.Body, func(n ast.Node) bool {
		if fl, ok := n.(*ast.FuncLit); ok {
			out = append(out, fl)
		}
		return true
	})
	return out
}

func (g *Graph) At(l Loc) string { return g.P.Pos(l.Node.Pos()) }

// Callee resolves the static callee (method values of concrete and interface types included).
func (g *Graph) Callee(call *ast.CallExpr) *types.Func {
	f, _ := typeutil.Callee(g.Info, call).(*types.Func)
	if f != nil {
		return f.Origin()
	}
	return nil
}

// ---- exits ----

type ExitClass int

const (
	ExitOK ExitClass = iota
	ExitMaybe
	ExitErr
)

type Exit struct {
	Loc   Loc
	Class ExitClass
	Why   string
}

func isErrorType(t types.Type) bool {
	return t != nil && types.Identical(t, types.Universe.Lookup("error").Type())
}

// lastResultIsError reports whether the function's last result has type error.
func (g *Graph) lastResultIsError() bool {
	r := g.Sig.Results()
	return r.Len() > 0 && isErrorType(r.At(r.Len()-1).Type())
}

// Exits lists the return points of the function: every return statement and every
// live block that falls off the end of the body.
func (g *Graph) Exits() []Exit {
	var out []Exit
	for _, b := range g.live {
		isRet := false
		for i, n := range b.Nodes {
			if rs, ok := n.(*ast.ReturnStmt); ok {
				isRet = true
				l := Loc{Blk: b, Idx: i, Seq: 1 << 30, Node: rs}
				cl, why := g.classifyReturn(rs, b)
				out = append(out, Exit{l, cl, why})
			}
		}
		if !isRet && len(b.Succs) == 0 {
			if b.Kind == cfg.KindSelectAfterCase {
				continue // "no case was chosen" after the last case of a select without default: not a path
			}
			// falls off the end, or ends in a no-return call (panic): the latter is not an exit.
			if len(b.Nodes) > 0 {
				if es, ok := b.Nodes[len(b.Nodes)-1].(*ast.ExprStmt); ok {
					if call, ok := es.X.(*ast.CallExpr); ok && !mayReturn(g.Info)(call) {
						continue
					}
				}
			}
			var node ast.Node = g.Body
			if len(b.Nodes) > 0 {
				node = b.Nodes[len(b.Nodes)-1]
			}
			out = append(out, Exit{Loc{Blk: b, Idx: len(b.Nodes), Seq: 1 << 30, Node: node}, ExitOK, "end of body"})
		}
	}
	return out
}

func (g *Graph) classifyReturn(rs *ast.ReturnStmt, b *cfg.Block) (ExitClass, string) {
	if !g.lastResultIsError() {
		return ExitOK, "no error result"
	}
	var last ast.Expr
	if len(rs.Results) == 0 {
		// bare return with named results
		r := g.Sig.Results()
		v := r.At(r.Len() - 1)
		if g.inErrBranch(v, b) {
			return ExitErr, "bare return under " + v.Name() + " != nil"
		}
		return ExitMaybe, "bare return"
	}
	last = rs.Results[len(rs.Results)-1]
	if len(rs.Results) == 1 && g.Sig.Results().Len() > 1 {
		return ExitMaybe, "return of multi-value call"
	}
	return g.classifyErrExpr(last, b)
}

func (g *Graph) classifyErrExpr(e ast.Expr, b *cfg.Block) (ExitClass, string) {
	e = ast.Unparen(e)
	switch x := e.(type) {
	case *ast.Ident:
		if x.Name == "nil" {
			if _, ok := g.Info.Uses[x].(*types.Nil); ok {
				return ExitOK, "returns nil"
			}
		}
		if v, ok := g.Info.Uses[x].(*types.Var); ok {
			if v.Parent() != nil && v.Parent().Parent() == types.Universe {
				return ExitErr, "returns package-level error " + v.Name()
			}
			if g.inErrBranch(v, b) {
				return ExitErr, "returns " + v.Name() + " under " + v.Name() + " != nil"
			}
			return ExitMaybe, "returns variable " + v.Name()
		}
	case *ast.SelectorExpr:
		if v, ok := g.Info.Uses[x.Sel].(*types.Var); ok && !v.IsField() {
			return ExitErr, "returns package-level error " + v.Name()
		}
	case *ast.CallExpr:
		if f := g.Callee(x); f != nil && f.Pkg() != nil {
			full := f.Pkg().Path() + "." + f.Name()
			switch full {
			case "errors.New", "fmt.Errorf", "github.com/pkg/errors.New", "github.com/pkg/errors.Errorf":
				return ExitErr, "returns new error"
			}
			// ctx.Err() is returned only after ctx.Done() fired in this code base (select case / explicit check)
			if f.Name() == "Err" && len(x.Args) == 0 {
				if r := recvExpr(x); r != nil {
					if n, ok := types.Unalias(g.Info.TypeOf(r)).(*types.Named); ok && n.Obj().Pkg() != nil && n.Obj().Pkg().Path() == "context" && n.Obj().Name() == "Context" {
						if b.Kind == cfg.KindSelectCaseBody {
							return ExitErr, "returns ctx.Err() in a <-ctx.Done() case"
						}
					}
				}
			}
		}
		if g.inAnyErrArm(b, types.ExprString(e)) {
			return ExitErr, "returns a non-nil-literal inside an error-handling arm"
		}
		return ExitMaybe, "returns call result"
	case *ast.UnaryExpr:
		if x.Op == token.AND {
			return ExitErr, "returns &composite"
		}
	case *ast.CompositeLit:
		return ExitErr, "returns composite"
	}
	return ExitMaybe, "unclassified"
}

// condFacts returns, for a condition expression, the variables known to be non-nil
// when it is true and when it is false.
func (g *Graph) condFacts(e ast.Expr) (whenTrue, whenFalse []*types.Var) {
	e = ast.Unparen(e)
	switch x := e.(type) {
	case *ast.BinaryExpr:
		switch x.Op {
		case token.LAND:
			a, _ := g.condFacts(x.X)
			b, _ := g.condFacts(x.Y)
			return append(a, b...), nil
		case token.LOR:
			_, a := g.condFacts(x.X)
			_, b := g.condFacts(x.Y)
			return nil, append(a, b...)
		case token.NEQ, token.EQL:
			var id *ast.Ident
			if isNilIdent(g.Info, x.Y) {
				id, _ = ast.Unparen(x.X).(*ast.Ident)
			} else if isNilIdent(g.Info, x.X) {
				id, _ = ast.Unparen(x.Y).(*ast.Ident)
			}
			if id != nil {
				if v, ok := g.Info.Uses[id].(*types.Var); ok {
					if x.Op == token.NEQ {
						return []*types.Var{v}, nil
					}
					return nil, []*types.Var{v}
				}
			}
		}
	case *ast.UnaryExpr:
		if x.Op == token.NOT {
			t, f := g.condFacts(x.X)
			return f, t
		}
	case *ast.CallExpr:
		// errors.Is(err, X) / errors.As(err, &X) true => err != nil
		if f := g.Callee(x); f != nil && f.Pkg() != nil && f.Pkg().Path() == "errors" && (f.Name() == "Is" || f.Name() == "As") && len(x.Args) > 0 {
			if id, ok := ast.Unparen(x.Args[0]).(*ast.Ident); ok {
				if v, ok := g.Info.Uses[id].(*types.Var); ok {
					return []*types.Var{v}, nil
				}
			}
		}
	}
	return nil, nil
}

func isNilIdent(info *types.Info, e ast.Expr) bool {
	id, ok := ast.Unparen(e).(*ast.Ident)
	if !ok || id.Name != "nil" {
		return false
	}
	_, isNil := info.Uses[id].(*types.Nil)
	return isNil
}

// condOf returns the branching condition that ends block b, if any.
func condOf(b *cfg.Block) ast.Expr {
	if len(b.Succs) != 2 || len(b.Nodes) == 0 {
		return nil
	}
	e, _ := b.Nodes[len(b.Nodes)-1].(ast.Expr)
	return e
}

// nonNilArms returns the blocks that are entered exactly when v is known non-nil
// because of a condition testing v.
func (g *Graph) nonNilArms(v *types.Var) []*cfg.Block {
	var out []*cfg.Block
	for _, b := range g.live {
		c := condOf(b)
		if c == nil {
			continue
		}
		// range/for/select headers also have two successors; only boolean conditions count.
		if tv, ok := g.Info.Types[c]; !ok || !isBool(tv.Type) {
			continue
		}
		t, f := g.condFacts(c)
		for _, x := range t {
			if x == v {
				out = append(out, b.Succs[0])
			}
		}
		for _, x := range f {
			if x == v {
				out = append(out, b.Succs[1])
			}
		}
	}
	return out
}

func isBool(t types.Type) bool {
	b, ok := t.Underlying().(*types.Basic)
	return ok && b.Info()&types.IsBoolean != 0
}

// inErrBranch: block b is dominated by an arm in which v is known to be non-nil and
// v is not assigned inside that arm before b... (assignments inside the arm are ignored:
// `if err != nil { err = wrap(err); return err }` still returns an error).
func (g *Graph) inErrBranch(v *types.Var, b *cfg.Block) bool {
	for _, arm := range g.nonNilArms(v) {
		if len(g.predsOf(arm)) == 1 && g.BlockDom(arm, b) {
			return true
		}
	}
	return false
}

// inAnyErrArm: block b lies in an arm that is entered only when some error-typed variable is
// non-nil, or when an expression printing as exprText was compared != nil.
func (g *Graph) inAnyErrArm(b *cfg.Block, exprText string) bool {
	for _, cb := range g.live {
		c := condOf(cb)
		if c == nil {
			continue
		}
		if tv, ok := g.Info.Types[c]; !ok || !isBool(tv.Type) {
			continue
		}
		check := func(arm *cfg.Block) bool {
			return len(g.predsOf(arm)) == 1 && g.BlockDom(arm, b)
		}
		t, f := g.condFacts(c)
		for _, v := range t {
			if isErrorType(v.Type()) && check(cb.Succs[0]) {
				return true
			}
		}
		for _, v := range f {
			if isErrorType(v.Type()) && check(cb.Succs[1]) {
				return true
			}
		}
		// `X != nil` / `X == nil` on an arbitrary expression X
		if be, ok := ast.Unparen(c).(*ast.BinaryExpr); ok && (be.Op == token.NEQ || be.Op == token.EQL) && isNilIdent(g.Info, be.Y) {
			if types.ExprString(be.X) == exprText && isErrorType(g.Info.TypeOf(be.X)) {
				arm := cb.Succs[0]
				if be.Op == token.EQL {
					arm = cb.Succs[1]
				}
				if check(arm) {
					return true
				}
			}
		}
	}
	return false
}

func (g *Graph) predsOf(b *cfg.Block) []*cfg.Block {
	var out []*cfg.Block
	for _, x := range g.live {
		for _, s := range x.Succs {
			if s == b {
				out = append(out, x)
			}
		}
	}
	return out
}

// Reach returns the set of blocks reachable from the given start blocks, not passing
// through blocks in stop (stop blocks themselves are not entered).
func (g *Graph) Reach(start []*cfg.Block, stop map[*cfg.Block]bool) map[*cfg.Block]bool {
	seen := map[*cfg.Block]bool{}
	var st []*cfg.Block
	for _, s := range start {
		if !stop[s] && !seen[s] {
			seen[s] = true
			st = append(st, s)
		}
	}
	for len(st) > 0 {
		b := st[len(st)-1]
		st = st[:len(st)-1]
		for _, s := range b.Succs {
			if !seen[s] && !stop[s] {
				seen[s] = true
				st = append(st, s)
			}
		}
	}
	return seen
}

// CanFollow reports whether there is a CFG path on which location b executes after
// location a (a and b distinct events).
func (g *Graph) CanFollow(a, b Loc) bool {
	if a.Blk == b.Blk && (a.Idx < b.Idx || (a.Idx == b.Idx && a.Seq < b.Seq)) {
		return true
	}
	r := g.Reach(a.Blk.Succs, nil)
	return r[b.Blk]
}

// ---- helpers for messages ----

func (g *Graph) Describe(ls []Loc) string {
	var s []string
	for _, l := range ls {
		s = append(s, g.At(l))
	}
	sort.Strings(s)
	return strings.Join(s, ",")
}

func (g *Graph) lineOf(n ast.Node) int { return g.P.Fset.Position(n.Pos()).Line }

func (g *Graph) String() string { return fmt.Sprintf("%s (%d blocks)", g.Name, len(g.live)) }

func (g *Graph) NumBlocks() int { return len(g.live) }
