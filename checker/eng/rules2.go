package eng

import (
	"fmt"
	"go/ast"
	"go/types"
	"strings"
)

// Between: a ≺ b, and every path from an occurrence of a to an occurrence of b passes mid.
func (f *Fn) Between(rule string, a, mid, b Matcher) bool {
	what := a.Desc + " ≺ " + mid.Desc + " ≺ " + b.Desc + " (on every path to " + b.Desc + ")"
	as := f.need(rule, a, what)
	ms := f.need(rule, mid, what)
	bs := f.need(rule, b, what)
	if len(as) == 0 || len(ms) == 0 || len(bs) == 0 {
		return false
	}
	for _, bl := range bs {
		bl := bl
		if p, _ := f.search(nil, []Loc{bl}, as); p != nil {
			f.C.Fail(rule, f.Where(), what, f.At(bl), "path from entry reaches "+b.Desc+" at "+f.At(bl)+" without "+a.Desc+": "+f.pathString(p))
			return false
		}
	}
	for _, al := range as {
		al := al
		if p, t := f.search(&al, bs, ms); p != nil {
			f.C.Fail(rule, f.Where(), what, f.At(*t), fmt.Sprintf("from %s at %s, %s at %s is reachable without %s: %s", a.Desc, f.At(al), b.Desc, f.At(*t), mid.Desc, f.pathString(p)))
			return false
		}
	}
	f.C.Pass(rule, f.Where(), what, fmt.Sprintf("%d×A %d×M %d×B", len(as), len(ms), len(bs)))
	return true
}

// Chain: consecutive Between obligations m0 ≺ m1 ≺ … ≺ mn, each mi on every path from m(i-1) to m(i+1).
// The last matcher is the anchor: every path from entry to the anchor passes m0, then m1, … in
// this order (occurrences of the mi on paths that never reach the anchor — error arms — are
// irrelevant).  Decided as: mi ≺ anchor for every i, and from every occurrence of mi the anchor
// is not reachable without passing m(i+1).
func (f *Fn) Chain(rule string, ms ...Matcher) bool {
	n := len(ms)
	anchor := ms[n-1]
	var descs []string
	for _, m := range ms {
		descs = append(descs, m.Desc)
	}
	what := strings.Join(descs, " ≺ ")
	var locs [][]Loc
	for _, m := range ms {
		l := f.need(rule, m, what)
		if len(l) == 0 {
			return false
		}
		locs = append(locs, l)
	}
	bs := locs[n-1]
	for i := 0; i < n-1; i++ {
		for _, bl := range bs {
			bl := bl
			if p, _ := f.search(nil, []Loc{bl}, locs[i]); p != nil {
				f.C.Fail(rule, f.Where(), what, f.At(bl), "path from entry reaches "+anchor.Desc+" at "+f.At(bl)+" without "+ms[i].Desc+": "+f.pathString(p))
				return false
			}
		}
	}
	for i := 0; i < n-2; i++ {
		for _, al := range locs[i] {
			al := al
			if p, t := f.search(&al, bs, locs[i+1]); p != nil {
				f.C.Fail(rule, f.Where(), what, f.At(*t), fmt.Sprintf("from %s at %s, %s at %s is reachable without %s in between: %s", ms[i].Desc, f.At(al), anchor.Desc, f.At(*t), ms[i+1].Desc, f.pathString(p)))
				return false
			}
		}
	}
	f.C.Pass(rule, f.Where(), what, fmt.Sprintf("anchor %s at %s", anchor.Desc, f.Describe(bs)))
	return true
}

// ErrPropagates: the error result of every occurrence of a is either returned directly or
// checked, and from the failing arm only error returns are reachable (the error is not dropped).
func (f *Fn) ErrPropagates(rule string, a Matcher, min int) bool {
	what := "error of every " + a.Desc + " is propagated"
	as := f.need(rule, a, what)
	if len(as) == 0 {
		return false
	}
	if len(as) < min {
		f.C.Fail(rule, f.Where(), what, f.P.Pos(f.Body.Pos()), fmt.Sprintf("%d occurrence(s) of %s, %d confirmed by reading", len(as), a.Desc, min))
		return false
	}
	var okExits []Loc
	for _, e := range f.Exits() {
		if e.Class != ExitErr {
			okExits = append(okExits, e.Loc)
		}
	}
	for _, al := range as {
		al := al
		// returned directly?
		if al.Idx < len(al.Blk.Nodes) {
			if rs, ok := al.Blk.Nodes[al.Idx].(*ast.ReturnStmt); ok && len(rs.Results) > 0 && ast.Unparen(rs.Results[len(rs.Results)-1]) == al.Node {
				continue
			}
		}
		arms, why := f.failArms(al)
		if arms == nil {
			f.C.Fail(rule, f.Where(), what, f.At(al), "error of "+a.Desc+" at "+f.At(al)+" is dropped or not checked: "+why)
			return false
		}
		for _, arm := range arms {
			start := Loc{Blk: arm, Idx: -1, Seq: -1}
			if p, t := f.search(&start, okExits, nil); p != nil {
				f.C.Fail(rule, f.Where(), what, f.At(al), fmt.Sprintf("after a failing %s at %s a non-error exit at %s is reachable: %s", a.Desc, f.At(al), f.At(*t), f.pathString(p)))
				return false
			}
		}
	}
	f.C.Pass(rule, f.Where(), what, fmt.Sprintf("%d call(s)", len(as)))
	return true
}

// LoopOver matches the range expression of a `for … range X` statement whose body contains
// a match of m: "the loop that applies m to every element" seen as one event at loop entry.
func LoopOver(m Matcher) Matcher {
	cache := map[*Graph]map[ast.Expr]*ast.RangeStmt{}
	return Matcher{Desc: "loop{" + m.Desc + "}", F: func(g *Graph, n ast.Node, _ Mode) bool {
		e, ok := n.(ast.Expr)
		if !ok {
			return false
		}
		mm := cache[g]
		if mm == nil {
			mm = map[ast.Expr]*ast.RangeStmt{}
			ast.Inspect(g.Body, func(x ast.Node) bool {
				if rs, ok := x.(*ast.RangeStmt); ok {
					mm[rs.X] = rs
				}
				return true
			})
			cache[g] = mm
		}
		rs := mm[e]
		return rs != nil && g.Contains(rs.Body, m)
	}}
}

// MethodOnVarT matches v.<method>() where v is a local variable named varName.
// (Alias kept short for rule tables.)
func OnVar(varName string, methods ...string) Matcher { return MethodOnVar(varName, methods...) }

// CallWithArgText matches a call to fn whose i-th argument prints as text.
func (p *Prog) CallArgText(ref string, i int, text string) Matcher {
	return p.Call(ref).WithArg(i, text, ExprText(text))
}

// ExprString prints an expression.
func ExprString(e ast.Expr) string { return types.ExprString(e) }
