package eng

import (
	"go/ast"
	"go/token"
	"go/types"
	"strings"
)

// ---- matchers over resolved constructs ----

func short(ref string) string {
	if i := strings.LastIndex(ref, ":"); i >= 0 {
		return ref[i+1:]
	}
	return ref
}

// Call matches a call whose statically resolved callee is one of the given functions.
func (p *Prog) Call(refs ...string) Matcher {
	var fs []*types.Func
	var names []string
	for _, r := range refs {
		fs = append(fs, p.Func(r).Origin())
		names = append(names, short(r))
	}
	return Matcher{Desc: "call " + strings.Join(names, "|"), F: func(g *Graph, n ast.Node, _ Mode) bool {
		call, ok := n.(*ast.CallExpr)
		if !ok {
			return false
		}
		c := g.Callee(call)
		for _, f := range fs {
			if c == f {
				return true
			}
		}
		return false
	}}
}

// CallNamed matches a call to any function or method with the given name (used for
// interface or function-valued callees where the receiver is constrained separately).
func CallNamed(name string) Matcher {
	return Matcher{Desc: "call ." + name, F: func(g *Graph, n ast.Node, _ Mode) bool {
		call, ok := n.(*ast.CallExpr)
		if !ok {
			return false
		}
		switch f := ast.Unparen(call.Fun).(type) {
		case *ast.SelectorExpr:
			return f.Sel.Name == name
		case *ast.Ident:
			return f.Name == name
		}
		return false
	}}
}

// recvExpr returns the receiver expression of a method call.
func recvExpr(call *ast.CallExpr) ast.Expr {
	if s, ok := ast.Unparen(call.Fun).(*ast.SelectorExpr); ok {
		return s.X
	}
	return nil
}

// exprIsField reports whether e is a selector (or chain ending in a selector) of field v.
func exprIsField(info *types.Info, e ast.Expr, v *types.Var) bool {
	e = ast.Unparen(e)
	for {
		switch x := e.(type) {
		case *ast.StarExpr:
			e = ast.Unparen(x.X)
			continue
		case *ast.UnaryExpr:
			if x.Op == token.AND {
				e = ast.Unparen(x.X)
				continue
			}
		}
		break
	}
	s, ok := e.(*ast.SelectorExpr)
	if !ok {
		return false
	}
	if sel := info.Selections[s]; sel != nil {
		if fv, ok := sel.Obj().(*types.Var); ok && fv.Origin() == v.Origin() {
			return true
		}
	}
	return false
}

// exprIsVar reports whether e is an identifier bound to a local variable/parameter with that name.
func exprIsVarNamed(info *types.Info, e ast.Expr, name string) bool {
	id, ok := ast.Unparen(e).(*ast.Ident)
	if !ok || id.Name != name {
		return false
	}
	_, isVar := info.ObjectOf(id).(*types.Var)
	return isVar
}

// MethodOn matches x.<field>.<method>(...) : a method call whose receiver expression is field `fieldRef`.
func (p *Prog) MethodOn(fieldRef string, methods ...string) Matcher {
	v := p.Field(fieldRef)
	return Matcher{Desc: short(fieldRef) + "." + strings.Join(methods, "|") + "()", F: func(g *Graph, n ast.Node, _ Mode) bool {
		call, ok := n.(*ast.CallExpr)
		if !ok {
			return false
		}
		s, ok := ast.Unparen(call.Fun).(*ast.SelectorExpr)
		if !ok {
			return false
		}
		okName := false
		for _, m := range methods {
			if s.Sel.Name == m {
				okName = true
			}
		}
		return okName && exprIsField(g.Info, s.X, v)
	}}
}

// MethodOnVar matches <var>.<method>(...) where var is a local variable/parameter of that name.
func MethodOnVar(varName string, methods ...string) Matcher {
	return Matcher{Desc: varName + "." + strings.Join(methods, "|") + "()", F: func(g *Graph, n ast.Node, _ Mode) bool {
		call, ok := n.(*ast.CallExpr)
		if !ok {
			return false
		}
		s, ok := ast.Unparen(call.Fun).(*ast.SelectorExpr)
		if !ok {
			return false
		}
		for _, m := range methods {
			if s.Sel.Name == m && exprIsVarNamed(g.Info, s.X, varName) {
				return true
			}
		}
		return false
	}}
}

// WithArg restricts a call matcher: argument i must satisfy pred.
func (m Matcher) WithArg(i int, desc string, pred func(g *Graph, e ast.Expr) bool) Matcher {
	inner := m.F
	return Matcher{Desc: m.Desc + "[arg" + string(rune('0'+i)) + " " + desc + "]", Deep: m.Deep, AnyMode: m.AnyMode, F: func(g *Graph, n ast.Node, mode Mode) bool {
		if !inner(g, n, mode) {
			return false
		}
		call, ok := n.(*ast.CallExpr)
		if !ok || i >= len(call.Args) {
			return false
		}
		return pred(g, call.Args[i])
	}}
}

// WithRecv restricts a method-call matcher: the receiver expression must satisfy pred.
func (m Matcher) WithRecv(desc string, pred func(g *Graph, e ast.Expr) bool) Matcher {
	inner := m.F
	return Matcher{Desc: m.Desc + "[recv " + desc + "]", Deep: m.Deep, AnyMode: m.AnyMode, F: func(g *Graph, n ast.Node, mode Mode) bool {
		if !inner(g, n, mode) {
			return false
		}
		call, ok := n.(*ast.CallExpr)
		if !ok {
			return false
		}
		r := recvExpr(call)
		return r != nil && pred(g, r)
	}}
}

func (m Matcher) InClosures() Matcher { m.Deep = true; m.Desc += "(incl. closures)"; return m }
func (m Matcher) Any() Matcher        { m.AnyMode = true; return m }
func (m Matcher) Named(d string) Matcher {
	m.Desc = d
	return m
}

// IsIdent: expression is the identifier with that name (true/false/nil or a variable).
func IsIdent(name string) func(*Graph, ast.Expr) bool {
	return func(g *Graph, e ast.Expr) bool {
		id, ok := ast.Unparen(e).(*ast.Ident)
		return ok && id.Name == name
	}
}

// IsFieldExpr: expression selects the given field.
func (p *Prog) IsFieldExpr(fieldRef string) func(*Graph, ast.Expr) bool {
	v := p.Field(fieldRef)
	return func(g *Graph, e ast.Expr) bool { return exprIsField(g.Info, e, v) }
}

// ExprText: the printed expression equals text.
func ExprText(text string) func(*Graph, ast.Expr) bool {
	return func(g *Graph, e ast.Expr) bool { return types.ExprString(e) == text }
}

// Store matches an assignment, op-assignment or ++/-- whose target is the given field.
func (p *Prog) Store(fieldRef string) Matcher {
	v := p.Field(fieldRef)
	return Matcher{Desc: "store " + short(fieldRef), F: func(g *Graph, n ast.Node, _ Mode) bool {
		switch s := n.(type) {
		case *ast.AssignStmt:
			for _, l := range s.Lhs {
				if exprIsField(g.Info, l, v) {
					return true
				}
			}
		case *ast.IncDecStmt:
			return exprIsField(g.Info, s.X, v)
		}
		return false
	}}
}

// StoreVal matches an assignment `x.field = <rhs>` where rhs satisfies pred.
func (p *Prog) StoreVal(fieldRef, desc string, pred func(g *Graph, e ast.Expr) bool) Matcher {
	v := p.Field(fieldRef)
	return Matcher{Desc: "store " + short(fieldRef) + "=" + desc, F: func(g *Graph, n ast.Node, _ Mode) bool {
		s, ok := n.(*ast.AssignStmt)
		if !ok || len(s.Lhs) != len(s.Rhs) {
			return false
		}
		for i, l := range s.Lhs {
			if exprIsField(g.Info, l, v) && pred(g, s.Rhs[i]) {
				return true
			}
		}
		return false
	}}
}

// AssignVar matches an assignment or definition whose target is the local variable with that name.
func AssignVar(name string) Matcher {
	return Matcher{Desc: "assign " + name, F: func(g *Graph, n ast.Node, _ Mode) bool {
		switch s := n.(type) {
		case *ast.AssignStmt:
			for _, l := range s.Lhs {
				if exprIsVarNamed(g.Info, l, name) {
					return true
				}
			}
		case *ast.IncDecStmt:
			return exprIsVarNamed(g.Info, s.X, name)
		case *ast.ValueSpec:
			for _, id := range s.Names {
				if id.Name == name {
					return true
				}
			}
		}
		return false
	}}
}

// AssignVarVal matches `name = <rhs>` / `name := <rhs>` where the rhs satisfies pred.
func AssignVarVal(name, desc string, pred func(g *Graph, e ast.Expr) bool) Matcher {
	return Matcher{Desc: "assign " + name + "=" + desc, F: func(g *Graph, n ast.Node, _ Mode) bool {
		s, ok := n.(*ast.AssignStmt)
		if !ok || len(s.Lhs) != len(s.Rhs) {
			return false
		}
		for i, l := range s.Lhs {
			if exprIsVarNamed(g.Info, l, name) && pred(g, s.Rhs[i]) {
				return true
			}
		}
		return false
	}}
}

// Read matches a read (non-store) use of a field.
func (p *Prog) FieldUse(fieldRef string) Matcher {
	v := p.Field(fieldRef)
	return Matcher{Desc: "use " + short(fieldRef), F: func(g *Graph, n ast.Node, _ Mode) bool {
		s, ok := n.(*ast.SelectorExpr)
		if !ok {
			return false
		}
		sel := g.Info.Selections[s]
		if sel == nil {
			return false
		}
		fv, ok := sel.Obj().(*types.Var)
		return ok && fv.Origin() == v.Origin()
	}}
}

// Deferred matches a defer statement whose deferred call matches m, or whose deferred
// function literal contains a node matching m.
func Deferred(m Matcher) Matcher {
	return Matcher{Desc: "defer{" + m.Desc + "}", AnyMode: true, F: func(g *Graph, n ast.Node, _ Mode) bool {
		d, ok := n.(*ast.DeferStmt)
		if !ok {
			return false
		}
		found := false
		walkNode(d.Call, true, func(sub ast.Node, _ Mode, _ int) {
			if !found && m.F(g, sub, Plain) {
				found = true
			}
		})
		return found
	}}
}

// GoStmt matches a go statement whose call (or literal body) contains a match of m.
func GoStarted(m Matcher) Matcher {
	return Matcher{Desc: "go{" + m.Desc + "}", AnyMode: true, F: func(g *Graph, n ast.Node, _ Mode) bool {
		d, ok := n.(*ast.GoStmt)
		if !ok {
			return false
		}
		found := false
		walkNode(d.Call, true, func(sub ast.Node, _ Mode, _ int) {
			if !found && m.F(g, sub, Plain) {
				found = true
			}
		})
		return found
	}}
}

func Or(ms ...Matcher) Matcher {
	var d []string
	deep, anym := false, false
	for _, m := range ms {
		d = append(d, m.Desc)
		deep = deep || m.Deep
		anym = anym || m.AnyMode
	}
	return Matcher{Desc: "(" + strings.Join(d, " or ") + ")", Deep: deep, AnyMode: anym, F: func(g *Graph, n ast.Node, mode Mode) bool {
		for _, m := range ms {
			if (mode == Plain || m.AnyMode) && m.F(g, n, mode) {
				return true
			}
		}
		return false
	}}
}

// Return matches return statements; with a predicate on the result list.
func Return(desc string, pred func(g *Graph, rs *ast.ReturnStmt) bool) Matcher {
	return Matcher{Desc: "return " + desc, F: func(g *Graph, n ast.Node, _ Mode) bool {
		rs, ok := n.(*ast.ReturnStmt)
		return ok && (pred == nil || pred(g, rs))
	}}
}

// ReturnResultText: result i prints as text.
func ReturnResultText(i int, text string) Matcher {
	return Return(text, func(g *Graph, rs *ast.ReturnStmt) bool {
		return i < len(rs.Results) && types.ExprString(rs.Results[i]) == text
	})
}

// Send matches a channel send whose channel expression satisfies pred.
func Send(desc string, pred func(g *Graph, ch ast.Expr) bool) Matcher {
	return Matcher{Desc: "send " + desc, F: func(g *Graph, n ast.Node, _ Mode) bool {
		s, ok := n.(*ast.SendStmt)
		return ok && pred(g, s.Chan)
	}}
}

// Node matches by arbitrary predicate.
func Node(desc string, pred func(g *Graph, n ast.Node) bool) Matcher {
	return Matcher{Desc: desc, F: func(g *Graph, n ast.Node, _ Mode) bool { return pred(g, n) }}
}

// Contains reports whether expression/statement n contains a node matching m.
func (g *Graph) Contains(n ast.Node, m Matcher) bool {
	found := false
	walkNode(n, true, func(sub ast.Node, _ Mode, _ int) {
		if !found && m.F(g, sub, Plain) {
			found = true
		}
	})
	return found
}
