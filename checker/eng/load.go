package eng

import (
	"fmt"
	"go/ast"
	"go/parser"
	"go/token"
	"go/types"
	"os"
	"sort"
	"strings"
	"sync"

	"golang.org/x/tools/go/packages"
)

func goEnv() []string {
	env := []string{}
	for _, e := range os.Environ() {
		if strings.HasPrefix(e, "GOFLAGS=") || strings.HasPrefix(e, "GOWORK=") || strings.HasPrefix(e, "GOPROXY=") ||
			strings.HasPrefix(e, "GOSUMDB=") || strings.HasPrefix(e, "GOTOOLCHAIN=") {
			continue
		}
		env = append(env, e)
	}
	return append(env, "GOFLAGS=-mod=mod", "GOPROXY=off", "GOWORK=off")
}

// Load lists the packages of the main module with the go command (no compilation), loads the
// types of their non-module dependencies from export data (these never change when /repo is
// edited, so the build cache always has them after bin/setup), and parses and type-checks every
// module package from source, in dependency order, in this process.  A change anywhere in /repo
// therefore costs the same few seconds; nothing of /repo is compiled or run.
func Load(o LoadOpts) (*Prog, error) {
	if os.Getenv("PROMVERIF_LOADER") == "packages" {
		return loadViaExportData(o)
	}
	if o.RepoDir == "" {
		o.RepoDir = "/repo"
	}
	if len(o.Patterns) == 0 {
		o.Patterns = []string{"./..."}
	}
	var flags []string
	if o.Tags != "" {
		flags = []string{"-tags=" + o.Tags}
	}
	listCfg := &packages.Config{
		Mode: packages.NeedName | packages.NeedFiles | packages.NeedCompiledGoFiles | packages.NeedImports | packages.NeedModule,
		Dir:  o.RepoDir, Env: goEnv(), BuildFlags: flags,
	}
	listed, err := packages.Load(listCfg, o.Patterns...)
	if err != nil {
		return nil, err
	}
	var errs []string
	var mods []*packages.Package
	ext := map[string]bool{}
	for _, pk := range listed {
		for _, e := range pk.Errors {
			errs = append(errs, e.Error())
		}
		if !strings.HasPrefix(pk.PkgPath, ModPath) {
			continue
		}
		mods = append(mods, pk)
	}
	if len(errs) > 0 {
		if len(errs) > 8 {
			errs = errs[:8]
		}
		return nil, fmt.Errorf("load errors: %s", strings.Join(errs, "; "))
	}
	if len(mods) == 0 {
		return nil, fmt.Errorf("no module packages listed for %v", o.Patterns)
	}
	byPath := map[string]*packages.Package{}
	for _, pk := range mods {
		byPath[pk.PkgPath] = pk
	}
	for _, pk := range mods {
		for path, imp := range pk.Imports {
			if byPath[imp.PkgPath] == nil && path != "unsafe" && path != "C" {
				ext[imp.PkgPath] = true
			}
		}
	}
	extPaths := SortedKeys(ext)
	extCfg := &packages.Config{
		Mode: packages.NeedName | packages.NeedTypes | packages.NeedTypesSizes,
		Dir:  o.RepoDir, Env: goEnv(), BuildFlags: flags,
	}
	extPkgs, err := packages.Load(extCfg, extPaths...)
	if err != nil {
		return nil, err
	}
	extTypes := map[string]*types.Package{}
	var sizes types.Sizes
	for _, pk := range extPkgs {
		for _, e := range pk.Errors {
			errs = append(errs, e.Error())
		}
		if pk.Types != nil {
			extTypes[pk.PkgPath] = pk.Types
		}
		if sizes == nil {
			sizes = pk.TypesSizes
		}
	}
	if len(errs) > 0 {
		if len(errs) > 8 {
			errs = errs[:8]
		}
		return nil, fmt.Errorf("load errors (dependencies): %s", strings.Join(errs, "; "))
	}
	if sizes == nil {
		sizes = types.SizesFor("gc", "amd64")
	}
	// parse
	fset := token.NewFileSet()
	type parsed struct {
		files []*ast.File
		err   error
	}
	res := make([]parsed, len(mods))
	var wg sync.WaitGroup
	sem := make(chan struct{}, 16)
	for i, pk := range mods {
		wg.Add(1)
		go func(i int, pk *packages.Package) {
			defer wg.Done()
			sem <- struct{}{}
			defer func() { <-sem }()
			for _, fn := range pk.CompiledGoFiles {
				if !strings.HasSuffix(fn, ".go") {
					continue
				}
				var src any
				if b, ok := o.Overlay[fn]; ok {
					src = b
				}
				f, err := parser.ParseFile(fset, fn, src, parser.ParseComments|parser.SkipObjectResolution)
				if err != nil {
					res[i].err = err
					return
				}
				res[i].files = append(res[i].files, f)
			}
		}(i, pk)
	}
	wg.Wait()
	used := map[string]bool{}
	for i, pk := range mods {
		if res[i].err != nil {
			return nil, fmt.Errorf("load/type errors: parse: %v", res[i].err)
		}
		pk.Syntax = res[i].files
		pk.Fset = fset
		for _, fn := range pk.CompiledGoFiles {
			if _, ok := o.Overlay[fn]; ok {
				used[fn] = true
			}
		}
	}
	for fn := range o.Overlay {
		if !used[fn] && !o.AllowUnusedOverlay {
			return nil, fmt.Errorf("overlay file %s is not a compiled file of any listed module package", fn)
		}
	}
	// type-check in dependency order
	checked := map[string]*types.Package{}
	state := map[*packages.Package]int{}
	var order []*packages.Package
	var visit func(pk *packages.Package) error
	visit = func(pk *packages.Package) error {
		switch state[pk] {
		case 1:
			return fmt.Errorf("import cycle through %s", pk.PkgPath)
		case 2:
			return nil
		}
		state[pk] = 1
		var imps []string
		for path := range pk.Imports {
			imps = append(imps, path)
		}
		sort.Strings(imps)
		for _, path := range imps {
			if m := byPath[pk.Imports[path].PkgPath]; m != nil {
				if err := visit(m); err != nil {
					return err
				}
			}
		}
		state[pk] = 2
		order = append(order, pk)
		return nil
	}
	sort.Slice(mods, func(i, j int) bool { return mods[i].PkgPath < mods[j].PkgPath })
	for _, pk := range mods {
		if err := visit(pk); err != nil {
			return nil, err
		}
	}
	for _, pk := range order {
		info := &types.Info{
			Types:        map[ast.Expr]types.TypeAndValue{},
			Defs:         map[*ast.Ident]types.Object{},
			Uses:         map[*ast.Ident]types.Object{},
			Implicits:    map[ast.Node]types.Object{},
			Instances:    map[*ast.Ident]types.Instance{},
			Scopes:       map[ast.Node]*types.Scope{},
			Selections:   map[*ast.SelectorExpr]*types.Selection{},
			FileVersions: map[*ast.File]string{},
		}
		pkk := pk
		var terrs []string
		conf := types.Config{
			Importer: importerFunc(func(path string) (*types.Package, error) {
				if path == "unsafe" {
					return types.Unsafe, nil
				}
				imp := pkk.Imports[path]
				if imp == nil {
					return nil, fmt.Errorf("no import %q in %s", path, pkk.PkgPath)
				}
				if t := checked[imp.PkgPath]; t != nil {
					return t, nil
				}
				if t := extTypes[imp.PkgPath]; t != nil {
					return t, nil
				}
				return nil, fmt.Errorf("types of %q not loaded", imp.PkgPath)
			}),
			Sizes: sizes,
			Error: func(err error) { terrs = append(terrs, err.Error()) },
		}
		if pk.Module != nil && pk.Module.GoVersion != "" {
			conf.GoVersion = "go" + pk.Module.GoVersion
		}
		tp, _ := conf.Check(pk.PkgPath, fset, pk.Syntax, info)
		if len(terrs) > 0 {
			if len(terrs) > 5 {
				terrs = terrs[:5]
			}
			return nil, fmt.Errorf("load/type errors: %s", strings.Join(terrs, "; "))
		}
		checked[pk.PkgPath] = tp
		pk.Types, pk.TypesInfo, pk.TypesSizes = tp, info, sizes
	}
	p := &Prog{Overlay: o.Overlay, Fset: fset, Pkgs: mods, byPath: byPath, allTypes: map[string]*types.Package{}, RepoDir: o.RepoDir, Tags: o.Tags,
		fns: map[*types.Func]*FuncSrc{}}
	var walk func(tp *types.Package)
	walk = func(tp *types.Package) {
		if tp == nil || p.allTypes[tp.Path()] != nil {
			return
		}
		p.allTypes[tp.Path()] = tp
		for _, im := range tp.Imports() {
			walk(im)
		}
	}
	for _, pk := range p.Pkgs {
		walk(pk.Types)
	}
	for _, pk := range p.Pkgs {
		for _, f := range pk.Syntax {
			for _, d := range f.Decls {
				if fd, ok := d.(*ast.FuncDecl); ok {
					if obj, ok := pk.TypesInfo.Defs[fd.Name].(*types.Func); ok {
						p.fns[obj] = &FuncSrc{Obj: obj, Decl: fd, Pkg: pk}
					}
				}
			}
		}
	}
	return p, nil
}
