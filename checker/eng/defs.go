package eng

import (
	"fmt"
	"go/ast"
	"go/types"
)

// defsOf returns the right-hand sides of every assignment / definition of local variable v in the
// function body (closures included).  For `a, b := f()` the call f() is the definition of both.
// `unknown` is set when v is modified in a way that has no right-hand side (++, range, &v).
func (g *Graph) defsOf(v *types.Var) (rhs []ast.Expr, unknown bool) {
	ast.Inspect(g.Body, func(n ast.Node) bool {
		switch s := n.(type) {
		case *ast.AssignStmt:
			for i, l := range s.Lhs {
				id, ok := l.(*ast.Ident)
				if !ok || g.Info.ObjectOf(id) != v {
					continue
				}
				if s.Tok.String() != "=" && s.Tok.String() != ":=" {
					unknown = true
					continue
				}
				if len(s.Rhs) == len(s.Lhs) {
					rhs = append(rhs, s.Rhs[i])
				} else if len(s.Rhs) == 1 {
					rhs = append(rhs, s.Rhs[0])
				}
			}
		case *ast.ValueSpec:
			for i, id := range s.Names {
				if g.Info.ObjectOf(id) != v {
					continue
				}
				if len(s.Values) == len(s.Names) {
					rhs = append(rhs, s.Values[i])
				} else if len(s.Values) == 1 {
					rhs = append(rhs, s.Values[0])
				} else {
					unknown = true // zero value
				}
			}
		case *ast.IncDecStmt:
			if id, ok := s.X.(*ast.Ident); ok && g.Info.ObjectOf(id) == v {
				unknown = true
			}
		case *ast.RangeStmt:
			for _, e := range []ast.Expr{s.Key, s.Value} {
				if id, ok := e.(*ast.Ident); ok && g.Info.ObjectOf(id) == v {
					unknown = true
				}
			}
		case *ast.UnaryExpr:
			if s.Op.String() == "&" {
				if id, ok := s.X.(*ast.Ident); ok && g.Info.ObjectOf(id) == v {
					unknown = true
				}
			}
		}
		return true
	})
	return
}

// ValueDerivesOnlyFrom: every value that can flow (through local variable assignments, up to
// depth 4) into expression e satisfies allowed.  It returns the first offending expression.
func (g *Graph) ValueDerivesOnlyFrom(e ast.Expr, allowed func(g *Graph, e ast.Expr) bool) (bool, ast.Expr, string) {
	seen := map[*types.Var]bool{}
	var rec func(e ast.Expr, depth int) (bool, ast.Expr, string)
	rec = func(e ast.Expr, depth int) (bool, ast.Expr, string) {
		e = ast.Unparen(e)
		if allowed(g, e) {
			return true, nil, ""
		}
		id, ok := e.(*ast.Ident)
		if !ok {
			return false, e, "expression " + types.ExprString(e) + " is not an allowed source"
		}
		v, ok := g.Info.ObjectOf(id).(*types.Var)
		if !ok || v.IsField() {
			return false, e, id.Name + " is not a local variable"
		}
		if seen[v] {
			return true, nil, ""
		}
		seen[v] = true
		if depth > 4 {
			return false, e, "definition chain deeper than 4"
		}
		rhs, unknown := g.defsOf(v)
		if unknown {
			return false, e, id.Name + " is modified without a right-hand side (++, range or address taken)"
		}
		if len(rhs) == 0 {
			// a parameter of a declared function: follow every module call site (one level per step)
			if idx := g.paramIndex(v); idx >= 0 && depth <= 3 {
				fobj, _ := g.Info.Defs[g.Decl.Name].(*types.Func)
				sites := g.P.Index().CallersOf(fobj)
				if len(sites) == 0 {
					return false, e, id.Name + " is a parameter of " + g.Name + ", which has no module call site"
				}
				for _, s := range sites {
					call, ok := s.Node.(*ast.CallExpr)
					if !ok || s.In == nil || idx >= len(call.Args) {
						return false, e, id.Name + " is a parameter of " + g.Name + ", whose value escapes as a function value in " + s.InName
					}
					cg := g.P.graphCached(g.P.SrcOf(s.In))
					if ok, bad, why := cg.ValueDerivesOnlyFrom(call.Args[idx], allowed); !ok {
						return false, bad, "through parameter " + id.Name + " of " + g.Name + " at " + g.P.Pos(call.Pos()) + ": " + why
					}
				}
				return true, nil, ""
			}
			return false, e, id.Name + " has no definition in this function (parameter or captured variable)"
		}
		for _, r := range rhs {
			if ok, bad, why := rec(r, depth+1); !ok {
				return false, bad, why
			}
		}
		return true, nil, ""
	}
	return rec(e, 0)
}

// ArgDerivesOnlyFrom: for every occurrence of call m, argument i only carries values from allowed sources.
func (f *Fn) ArgDerivesOnlyFrom(rule string, m Matcher, i int, desc string, allowed func(g *Graph, e ast.Expr) bool) bool {
	what := fmt.Sprintf("arg %d of %s derives only from %s", i, m.Desc, desc)
	ls := f.need(rule, m, what)
	if len(ls) == 0 {
		return false
	}
	for _, l := range ls {
		call, ok := l.Node.(*ast.CallExpr)
		if !ok || i >= len(call.Args) {
			f.C.Fail(rule, f.Where(), what, f.At(l), "not a call with that many arguments")
			return false
		}
		if ok, bad, why := f.ValueDerivesOnlyFrom(call.Args[i], allowed); !ok {
			f.C.Fail(rule, f.Where(), what, f.P.Pos(bad.Pos()), "argument "+types.ExprString(call.Args[i])+" at "+f.At(l)+": "+why)
			return false
		}
	}
	f.C.Pass(rule, f.Where(), what, f.Describe(ls))
	return true
}

// IsCallTo: expression is a call to one of the functions.
func (p *Prog) IsCallTo(refs ...string) func(*Graph, ast.Expr) bool {
	m := p.Call(refs...)
	return func(g *Graph, e ast.Expr) bool {
		c, ok := ast.Unparen(e).(*ast.CallExpr)
		return ok && m.F(g, c, Plain)
	}
}

// AnyOf combines expression predicates.
func AnyOf(ps ...func(*Graph, ast.Expr) bool) func(*Graph, ast.Expr) bool {
	return func(g *Graph, e ast.Expr) bool {
		for _, p := range ps {
			if p(g, e) {
				return true
			}
		}
		return false
	}
}
