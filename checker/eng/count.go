package eng

import (
	"fmt"
	"go/ast"
	"sort"
	"strings"

	"golang.org/x/tools/go/cfg"
)

// CountOnPaths (engine E7, pairing): on every path from entry to an exit of the selected kind the
// number of executed events is exactly want.  Events are: plain occurrences of any matcher in
// `events` (+1 each), and defer statements whose deferred call matches one of them (+1, paid at
// exit).  Counts are abstracted to {0,1,2,≥3}; loops that contain an event therefore show up as
// {…,≥3} and fail, which is the right answer for a pairing rule.
func (f *Fn) CountOnPaths(rule string, desc string, events []Matcher, want int, kind ExitKind) bool {
	what := fmt.Sprintf("exactly %d × %s on every path to exit", want, desc)
	const capN = 3
	type set [capN + 1]bool
	// per-block transfer: number of events in the block (in order; all nodes execute)
	blockCount := map[*cfg.Block]int{}
	total := 0
	for _, b := range f.live {
		n := 0
		for _, node := range b.Nodes {
			walkNode(node, false, func(sub ast.Node, mode Mode, _ int) {
				for _, m := range events {
					if mode == Plain && m.F(f.Graph, sub, mode) {
						n++
						return
					}
				}
				if d, ok := sub.(*ast.DeferStmt); ok && mode == Plain {
					for _, m := range events {
						if Deferred(m).F(f.Graph, d, DeferReg) {
							n++
							return
						}
					}
				}
			})
		}
		blockCount[b] = n
		total += n
	}
	if total == 0 {
		f.C.Fail(rule, f.Where(), what, f.P.Pos(f.Body.Pos()), "no occurrence of "+desc+" (rule instance vanished)")
		return false
	}
	in := map[*cfg.Block]*set{}
	entry := f.CFG.Blocks[0]
	in[entry] = &set{}
	in[entry][0] = true
	work := []*cfg.Block{entry}
	from := map[*cfg.Block]map[int]*cfg.Block{} // witness predecessor per (block,count)
	for len(work) > 0 {
		b := work[len(work)-1]
		work = work[:len(work)-1]
		var out set
		for c := 0; c <= capN; c++ {
			if in[b][c] {
				n := c + blockCount[b]
				if n > capN {
					n = capN
				}
				out[n] = true
			}
		}
		for _, s := range b.Succs {
			if f.blocked[[2]*cfg.Block{b, s}] {
				continue
			}
			if in[s] == nil {
				in[s] = &set{}
			}
			changed := false
			for c := 0; c <= capN; c++ {
				if out[c] && !in[s][c] {
					in[s][c] = true
					changed = true
					if from[s] == nil {
						from[s] = map[int]*cfg.Block{}
					}
					from[s][c] = b
				}
			}
			if changed {
				work = append(work, s)
			}
		}
	}
	nExits := 0
	for _, e := range f.Exits() {
		if kind == OKExit && e.Class == ExitErr {
			continue
		}
		b := e.Loc.Blk
		if in[b] == nil {
			continue // unreachable under the assumptions
		}
		nExits++
		var got []string
		bad := false
		for c := 0; c <= capN; c++ {
			if in[b][c] {
				n := c + blockCount[b]
				if n > capN {
					n = capN
				}
				if n != want {
					bad = true
				}
				s := fmt.Sprint(n)
				if n == capN {
					s = "≥3"
				}
				got = append(got, s)
			}
		}
		if bad {
			sort.Strings(got)
			f.C.Fail(rule, f.Where(), what, f.At(e.Loc), fmt.Sprintf("exit at %s (%s) is reached with {%s} × %s", f.At(e.Loc), e.Why, strings.Join(got, ","), desc))
			return false
		}
	}
	if nExits == 0 {
		f.C.Fail(rule, f.Where(), what, f.P.Pos(f.Body.Pos()), "no reachable exit")
		return false
	}
	f.C.Pass(rule, f.Where(), what, fmt.Sprintf("%d exits, %d event sites", nExits, total))
	return true
}
