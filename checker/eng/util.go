package eng

import (
	"go/ast"
	"go/token"
	"go/types"
	"strings"
)

// IsCondOperand reports whether n lies inside the branch condition that ends some live block.
func (g *Graph) IsCondOperand(n ast.Node) bool {
	for _, b := range g.live {
		c := condOf(b)
		if c == nil {
			continue
		}
		if c.Pos() <= n.Pos() && n.End() <= c.End() {
			return true
		}
	}
	return false
}

// StoreElem matches `x.field[k] = v` (and op-assignments / ++ on an element) of the given field.
func (p *Prog) StoreElem(fieldRef string) Matcher {
	v := p.Field(fieldRef)
	return Matcher{Desc: "store " + short(fieldRef) + "[…]", F: func(g *Graph, n ast.Node, _ Mode) bool {
		var lhs []ast.Expr
		switch s := n.(type) {
		case *ast.AssignStmt:
			lhs = s.Lhs
		case *ast.IncDecStmt:
			lhs = []ast.Expr{s.X}
		}
		for _, l := range lhs {
			if ix, ok := ast.Unparen(l).(*ast.IndexExpr); ok && exprIsField(g.Info, ix.X, v) {
				return true
			}
		}
		return false
	}}
}

// DeleteElem matches `delete(x.field, k)`.
func (p *Prog) DeleteElem(fieldRef string) Matcher {
	v := p.Field(fieldRef)
	return Matcher{Desc: "delete(" + short(fieldRef) + ", …)", F: func(g *Graph, n ast.Node, _ Mode) bool {
		call, ok := n.(*ast.CallExpr)
		if !ok || len(call.Args) != 2 {
			return false
		}
		id, ok := call.Fun.(*ast.Ident)
		return ok && id.Name == "delete" && exprIsField(g.Info, call.Args[0], v)
	}}
}

// paramIndex returns the position of v among the parameters of the declared function of g
// (not of a closure), or -1.
func (g *Graph) paramIndex(v *types.Var) int {
	if g.Decl == nil || g.Body != g.Decl.Body {
		return -1
	}
	params := g.Sig.Params()
	for i := 0; i < params.Len(); i++ {
		if params.At(i) == v {
			return i
		}
	}
	return -1
}

var litGraphCache = map[*ast.FuncLit]*Graph{}

// CondExprs lists the branch conditions of the function.
func (g *Graph) CondExprs() []ast.Expr {
	var out []ast.Expr
	for _, b := range g.live {
		if c := condOf(b); c != nil {
			out = append(out, c)
		}
	}
	return out
}

// InNonNilArmOf reports whether location l lies in an arm that is entered only when the local
// variable named varName was found non-nil by a branch condition.
func (f *Fn) InNonNilArmOf(varName string, l Loc) bool {
	for _, b := range f.live {
		c := condOf(b)
		if c == nil {
			continue
		}
		t, fl := f.condFacts(c)
		for _, v := range t {
			if v.Name() == varName && len(f.predsOf(b.Succs[0])) == 1 && f.BlockDom(b.Succs[0], l.Blk) {
				return true
			}
		}
		for _, v := range fl {
			if v.Name() == varName && len(f.predsOf(b.Succs[1])) == 1 && f.BlockDom(b.Succs[1], l.Blk) {
				return true
			}
		}
	}
	return false
}

// UnderCond reports whether l lies in the true arm (single predecessor) of a branch whose
// condition text contains all the given substrings.
func (f *Fn) UnderCond(l Loc, substrs ...string) bool {
	for _, b := range f.live {
		c := condOf(b)
		if c == nil {
			continue
		}
		txt := types.ExprString(c)
		all := true
		for _, s := range substrs {
			if !containsPositive(txt, s) {
				all = false
			}
		}
		if all && len(f.predsOf(b.Succs[0])) == 1 && f.BlockDom(b.Succs[0], l.Blk) {
			return true
		}
	}
	return false
}

// CallMethodName returns the selector name of the call at l ("" if none).
func CallMethodName(l Loc) string {
	call, ok := l.Node.(*ast.CallExpr)
	if !ok {
		return ""
	}
	if s, ok := ast.Unparen(call.Fun).(*ast.SelectorExpr); ok {
		return s.Sel.Name
	}
	return ""
}

// ReturnText prints the result list of a return location.
func ReturnText(l Loc) string {
	rs, ok := l.Node.(*ast.ReturnStmt)
	if !ok {
		return ""
	}
	var s []string
	for _, r := range rs.Results {
		s = append(s, types.ExprString(r))
	}
	return strings.Join(s, ", ")
}

// UnderAnyArm reports whether l is control-dependent (either arm, single-predecessor arm that
// dominates l) on a branch whose condition text contains substr.
func (f *Fn) UnderAnyArm(l Loc, substr string) bool {
	for _, b := range f.live {
		c := condOf(b)
		if c == nil || !strings.Contains(types.ExprString(c), substr) {
			continue
		}
		for _, arm := range b.Succs {
			if len(f.predsOf(arm)) == 1 && f.BlockDom(arm, l.Blk) {
				return true
			}
		}
	}
	return false
}

// UnderCondFalse reports whether l lies in the false arm (single predecessor) of a branch whose
// condition text contains all the given substrings.
func (f *Fn) UnderCondFalse(l Loc, substrs ...string) bool {
	for _, b := range f.live {
		c := condOf(b)
		if c == nil || len(b.Succs) != 2 {
			continue
		}
		txt := types.ExprString(c)
		all := true
		for _, s := range substrs {
			if !containsPositive(txt, s) {
				all = false
			}
		}
		if all && len(f.predsOf(b.Succs[1])) == 1 && f.BlockDom(b.Succs[1], l.Blk) {
			return true
		}
	}
	return false
}

// UnderCondArmAfter is UnderCond / UnderCondFalse restricted to branches that are themselves
// dominated by an occurrence of `after` (the test of a value produced by that event).
func (f *Fn) UnderCondArmAfter(l Loc, arm bool, after Matcher, substrs ...string) bool {
	as := f.Find(after)
	for _, b := range f.live {
		c := condOf(b)
		if c == nil || len(b.Succs) != 2 {
			continue
		}
		txt := types.ExprString(c)
		all := true
		for _, s := range substrs {
			if !containsPositive(txt, s) {
				all = false
			}
		}
		if !all {
			continue
		}
		// the set of `after` events dominates the test: no path from entry reaches it avoiding all of them
		condLoc := Loc{Blk: b, Idx: len(b.Nodes) - 1, Seq: 1 << 29, Node: c}
		if len(as) == 0 {
			continue
		}
		if pth, _ := f.search(nil, []Loc{condLoc}, as); pth != nil {
			continue
		}
		s := b.Succs[0]
		if !arm {
			s = b.Succs[1]
		}
		if len(f.predsOf(s)) == 1 && f.BlockDom(s, l.Blk) {
			return true
		}
	}
	return false
}

// BranchSite is one break/continue statement with the if-conditions it is nested in (innermost
// last), each as "cond=T" / "cond=F" for the arm it lies in, up to the statement it leaves.
type BranchSite struct {
	Stmt  *ast.BranchStmt
	Pos   string
	Conds []string
	Lin   []string // linear normal forms of the conjuncts of true-arm conditions ("" when not linear)
}

// Branches lists the break (tok "break") or continue statements of the function body (closures
// excluded) with their enclosing conditions inside the innermost loop/switch/select.
func (f *Fn) Branches(tok string) []BranchSite {
	var out []BranchSite
	var stack []ast.Node
	ast.Inspect(f.Body, func(n ast.Node) bool {
		if n == nil {
			stack = stack[:len(stack)-1]
			return true
		}
		if _, ok := n.(*ast.FuncLit); ok {
			return false
		}
		stack = append(stack, n)
		b, ok := n.(*ast.BranchStmt)
		if !ok || b.Tok.String() != tok {
			return true
		}
		bs := BranchSite{Stmt: b, Pos: f.P.Pos(b.Pos())}
		for i := len(stack) - 2; i >= 0; i-- {
			stop := false
			switch s := stack[i].(type) {
			case *ast.ForStmt, *ast.RangeStmt:
				stop = true
			case *ast.SwitchStmt, *ast.TypeSwitchStmt, *ast.SelectStmt:
				stop = tok == "break"
			case *ast.IfStmt:
				child := stack[i+1]
				arm := ""
				if child == ast.Node(s.Body) {
					arm = "=T"
				} else if s.Else != nil && child == ast.Node(s.Else) {
					arm = "=F"
				}
				if arm != "" {
					bs.Conds = append([]string{types.ExprString(s.Cond) + arm}, bs.Conds...)
					if arm == "=T" {
						var split func(e ast.Expr)
						split = func(e ast.Expr) {
							e = ast.Unparen(e)
							if be, ok := e.(*ast.BinaryExpr); ok && be.Op == token.LAND {
								split(be.X)
								split(be.Y)
								return
							}
							if l, ok := LinearCmp(f.Info, e); ok {
								bs.Lin = append(bs.Lin, l)
							}
						}
						split(s.Cond)
					}
				}
			}
			if stop {
				break
			}
		}
		out = append(out, bs)
		return true
	})
	return out
}

// CondsOf returns the if-conditions (outermost first, "cond=T"/"cond=F") whose arm encloses node n
// in the function body, ignoring loops and switches in between.
func (f *Fn) CondsOf(n ast.Node) []string {
	var out []string
	var stack []ast.Node
	done := false
	ast.Inspect(f.Body, func(x ast.Node) bool {
		if done {
			return false
		}
		if x == nil {
			stack = stack[:len(stack)-1]
			return true
		}
		stack = append(stack, x)
		if x != n {
			return true
		}
		for i := 0; i < len(stack)-1; i++ {
			if s, ok := stack[i].(*ast.IfStmt); ok {
				if stack[i+1] == ast.Node(s.Body) {
					out = append(out, types.ExprString(s.Cond)+"=T")
				} else if s.Else != nil && stack[i+1] == ast.Node(s.Else) {
					out = append(out, types.ExprString(s.Cond)+"=F")
				}
			}
		}
		done = true
		return false
	})
	return out
}

// containsPositive reports whether s occurs in the condition text txt at a position where it is
// not directly negated: an occurrence preceded by "!" or "!(" does not count (so that a rule asking
// for the arm of `x` is not satisfied by the arm of `!x`), unless s itself starts with "!".
func containsPositive(txt, s string) bool {
	if s == "" {
		return true
	}
	for from := 0; ; {
		i := strings.Index(txt[from:], s)
		if i < 0 {
			return false
		}
		i += from
		pre := strings.TrimRight(txt[:i], " ")
		neg := strings.HasSuffix(pre, "!") || strings.HasSuffix(pre, "!(")
		// an identifier boundary on the left: "isNHCB" must not match inside "xisNHCB"
		if len(pre) == len(txt[:i]) && i > 0 {
			if c := txt[i-1]; c == '_' || c == '.' && false || (c >= 'a' && c <= 'z') || (c >= 'A' && c <= 'Z') || (c >= '0' && c <= '9') {
				if s[0] != '.' && s[0] != '(' && s[0] != '[' && s[0] != ' ' {
					neg = true
				}
			}
		}
		if !neg {
			return true
		}
		from = i + 1
	}
}

// ParamIndex is the index of v among the parameters of the graph's function (-1 if none).
func (g *Graph) ParamIndex(v *types.Var) int { return g.paramIndex(v) }
