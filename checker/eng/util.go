package eng

import "go/ast"

// IsCondOperand reports whether n lies inside the branch condition that ends some live block.
func (g *Graph) IsCondOperand(n ast.Node) bool {
	for _, b := range g.live {
		c := condOf(b)
		if c == nil {
			continue
		}
		if c.Pos() <= n.Pos() && n.End() <= c.End() {
			return true
		}
	}
	return false
}
