package eng

import (
	"fmt"
	"go/ast"
	"go/types"
	"sort"
	"strings"

	"golang.org/x/tools/go/cfg"
)

// Engine E3: must-hold lockset.  A lock is identified by the mutex *field* (types.Var); the
// receiver expression is not tracked (the rules concern one object per function).  The analysis
// is a forward dataflow over the CFG with intersection at joins: Lock/RLock add the lock,
// Unlock/RUnlock remove it, a deferred unlock keeps it held until the function exits.

type lockState map[*types.Var]byte // 'W' write-locked, 'R' read-locked

func (s lockState) clone() lockState {
	n := lockState{}
	for k, v := range s {
		n[k] = v
	}
	return n
}

func meet(a, b lockState) lockState {
	out := lockState{}
	for k, v := range a {
		if w, ok := b[k]; ok {
			if v == 'R' || w == 'R' {
				out[k] = 'R'
			} else {
				out[k] = 'W'
			}
		}
	}
	return out
}

func sameState(a, b lockState) bool {
	if len(a) != len(b) {
		return false
	}
	for k, v := range a {
		if b[k] != v {
			return false
		}
	}
	return true
}

// lockOp classifies a call as a lock operation on a mutex-typed struct field.
func lockOp(info *types.Info, call *ast.CallExpr) (fld *types.Var, op string) {
	s, ok := ast.Unparen(call.Fun).(*ast.SelectorExpr)
	if !ok {
		return nil, ""
	}
	switch s.Sel.Name {
	case "Lock", "RLock", "Unlock", "RUnlock":
	default:
		return nil, ""
	}
	// embedded mutex: x.Lock() where x is (a pointer to) a struct embedding sync.Mutex — the
	// method is promoted through the embedded field
	if sel := info.Selections[s]; sel != nil && len(sel.Index()) > 1 {
		t := derefT(sel.Recv())
		if st, ok := t.Underlying().(*types.Struct); ok {
			f := st.Field(sel.Index()[0])
			if isMutexType(f.Type()) {
				return f.Origin(), s.Sel.Name
			}
		}
	}
	rs, ok := ast.Unparen(s.X).(*ast.SelectorExpr)
	if !ok {
		return nil, ""
	}
	sel := info.Selections[rs]
	if sel == nil {
		return nil, ""
	}
	v, ok := sel.Obj().(*types.Var)
	if !ok || !isMutexType(v.Type()) {
		return nil, ""
	}
	return v.Origin(), s.Sel.Name
}

func isMutexType(t types.Type) bool {
	t = derefT(t)
	n, ok := types.Unalias(t).(*types.Named)
	if !ok || n.Obj().Pkg() == nil {
		return false
	}
	return n.Obj().Pkg().Path() == "sync" && (n.Obj().Name() == "Mutex" || n.Obj().Name() == "RWMutex")
}

func applyNode(info *types.Info, st lockState, n ast.Node, upTo ast.Node) (done bool) {
	// apply lock operations of n in evaluation order; stop before upTo if it is inside n
	stop := false
	walkNode(n, false, func(sub ast.Node, mode Mode, _ int) {
		if stop {
			return
		}
		if upTo != nil && sub == upTo {
			stop = true
			return
		}
		call, ok := sub.(*ast.CallExpr)
		if !ok || mode != Plain {
			return
		}
		if f, op := lockOp(info, call); f != nil {
			switch op {
			case "Lock":
				st[f] = 'W'
			case "RLock":
				if st[f] != 'W' {
					st[f] = 'R'
				}
			case "Unlock", "RUnlock":
				delete(st, f)
			}
		}
	})
	return stop
}

// lockIn computes the lock state at the entry of every live block, given the state at function entry.
var lockInCache = map[*Graph]map[*cfg.Block]lockState{}

func (g *Graph) lockIn(entry lockState) map[*cfg.Block]lockState {
	if len(entry) == 0 {
		if c := lockInCache[g]; c != nil {
			return c
		}
		c := g.lockInCompute(entry)
		lockInCache[g] = c
		return c
	}
	return g.lockInCompute(entry)
}

func (g *Graph) lockInCompute(entry lockState) map[*cfg.Block]lockState {
	in := map[*cfg.Block]lockState{g.CFG.Blocks[0]: entry.clone()}
	work := []*cfg.Block{g.CFG.Blocks[0]}
	for len(work) > 0 {
		b := work[len(work)-1]
		work = work[:len(work)-1]
		st := in[b].clone()
		for _, n := range b.Nodes {
			applyNode(g.Info, st, n, nil)
		}
		for _, s := range b.Succs {
			old, seen := in[s]
			var nw lockState
			if !seen {
				nw = st.clone()
			} else {
				nw = meet(old, st)
			}
			if !seen || !sameState(old, nw) {
				in[s] = nw
				work = append(work, s)
			}
		}
	}
	return in
}

// heldAt returns the locks certainly held when node target (inside g's body, not inside a nested
// function literal) starts executing.
func (g *Graph) heldAt(target ast.Node, entry lockState) (lockState, bool) {
	in := g.lockIn(entry)
	for _, b := range g.live {
		for i, n := range b.Nodes {
			if n.Pos() <= target.Pos() && target.End() <= n.End() {
				st := in[b].clone()
				for _, m := range b.Nodes[:i] {
					applyNode(g.Info, st, m, nil)
				}
				applyNode(g.Info, st, n, target)
				return st, true
			}
		}
	}
	return nil, false
}

// enclosingLits returns the chain of function literals (outermost first) that contain pos inside decl.
func enclosingLits(body *ast.BlockStmt, target ast.Node) []*ast.FuncLit {
	var chain []*ast.FuncLit
	ast.Inspect(body, func(n ast.Node) bool {
		if n == nil {
			return false
		}
		if n.Pos() > target.Pos() || target.End() > n.End() {
			return false
		}
		if fl, ok := n.(*ast.FuncLit); ok && fl != target {
			chain = append(chain, fl)
		}
		return true
	})
	return chain
}

// litContext tells how a function literal is used where it appears: "call-arg" (passed directly
// to a call: assumed to run synchronously inside it), "invoked" (called immediately),
// "defer", "go" or "other" (stored).
func litContext(body ast.Node, lit *ast.FuncLit) string {
	ctx := "other"
	var stack []ast.Node
	ast.Inspect(body, func(n ast.Node) bool {
		if n == nil {
			stack = stack[:len(stack)-1]
			return false
		}
		if n == lit {
			// walk parents
			for i := len(stack) - 1; i >= 0; i-- {
				switch p := stack[i].(type) {
				case *ast.ParenExpr:
					continue
				case *ast.CallExpr:
					if ast.Unparen(p.Fun) == lit {
						if i > 0 {
							switch stack[i-1].(type) {
							case *ast.DeferStmt:
								ctx = "defer"
								return false
							case *ast.GoStmt:
								ctx = "go"
								return false
							}
						}
						ctx = "invoked"
						return false
					}
					if i > 0 {
						switch stack[i-1].(type) {
						case *ast.GoStmt:
							ctx = "go"
							return false
						case *ast.DeferStmt:
							ctx = "defer"
							return false
						}
					}
					ctx = "call-arg"
					return false
				default:
					return false
				}
			}
			return false
		}
		stack = append(stack, n)
		return true
	})
	return ctx
}

// HeldAtSite computes the locks held at an arbitrary node of a declared function, descending
// through synchronously executed function literals.
func (p *Prog) HeldAtSite(fs *FuncSrc, target ast.Node, entry lockState) (lockState, string) {
	g := p.graphCached(fs)
	chain := enclosingLits(fs.Decl.Body, target)
	cur := g
	st := entry
	var body ast.Node = fs.Decl.Body
	for _, lit := range chain {
		held, ok := cur.heldAt(lit, st)
		if !ok {
			return nil, "function literal not found in CFG (unreachable code?)"
		}
		switch litContext(body, lit) {
		case "call-arg", "invoked":
			st = held
		case "defer":
			// runs at exit: only locks released by an earlier-registered defer (i.e. never
			// unlocked explicitly) are still held; approximate with the state at registration
			// minus nothing — sound only if unlocks are deferred.  Be conservative: empty.
			st = lockState{}
		default:
			st = lockState{}
		}
		cg := litGraphCache[lit]
		if cg == nil {
			cg = cur.ClosureGraph(lit, "lit")
			litGraphCache[lit] = cg
		}
		cur = cg
		body = lit.Body
	}
	held, ok := cur.heldAt(target, st)
	if !ok {
		return nil, "node not found in CFG (unreachable code?)"
	}
	return held, ""
}

var graphCache = map[*FuncSrc]*Graph{}

func (p *Prog) graphCached(fs *FuncSrc) *Graph {
	if g := graphCache[fs]; g != nil {
		return g
	}
	g := p.graphOfSrc(fs)
	graphCache[fs] = g
	return g
}

// GuardOpts configures GuardedBy.
type GuardOpts struct {
	// Unlocked lists functions that may touch the field without the lock, each with a reason
	// (constructors, single-threaded start-up, ...).
	Unlocked map[string]string
	// CallerHolds lists functions that rely on their callers holding the lock: every module call
	// site of such a function must hold it (checked, transitively through this table).
	CallerHolds []string
	// ReadsNeedLock: reads must hold at least a read lock (default true); writes always need the write lock.
	WritesOnly bool
	Min        int
}

// GuardedBy: every access to field (module-wide) happens with mutex held.
func (c *Ctx) GuardedBy(rule, fieldRef, mutexRef string, o GuardOpts) bool {
	p := c.P
	fld := p.Field(fieldRef)
	mtx := p.Field(mutexRef)
	what := short(fieldRef) + " is only accessed with " + short(mutexRef) + " held"
	callerHolds := map[string]bool{}
	for _, r := range o.CallerHolds {
		callerHolds[FuncName(p.Func(r))] = true
	}
	unlocked := map[string]bool{}
	for r := range o.Unlocked {
		unlocked[FuncName(p.Func(r))] = true
	}
	ix := p.Index()
	sites := ix.FieldSites(fld)
	c.CallSites += len(sites)
	ok := true
	n := 0
	need := func(kind string) byte {
		switch kind {
		case "read":
			return 'R'
		}
		return 'W'
	}
	var checkFn func(name string, depth int) bool
	checked := map[string]bool{}
	checkFn = func(name string, depth int) bool {
		// every call site of function `name` holds the lock
		if checked[name] {
			return true
		}
		checked[name] = true
		var fobj *types.Func
		for f := range p.fns {
			if FuncName(f) == name {
				fobj = f
			}
		}
		if fobj == nil {
			return false
		}
		callers := ix.CallersOf(fobj)
		if len(callers) == 0 {
			c.Fail(rule, fieldRef, what, "", name+" is declared to rely on its callers holding "+short(mutexRef)+" but has no module call site")
			return false
		}
		res := true
		for _, s := range callers {
			if s.In == nil {
				continue
			}
			if unlocked[s.InName] {
				continue
			}
			fs := p.SrcOf(s.In)
			held, why := p.HeldAtSite(fs, s.Node, lockState{})
			if why == "" && held[mtx.Origin()] != 0 {
				continue
			}
			if callerHolds[s.InName] {
				if depth >= 4 {
					undecided("caller-holds chain for %s deeper than 4", short(fieldRef))
				}
				if !checkFn(s.InName, depth+1) {
					res = false
				}
				continue
			}
			c.Fail(rule, fieldRef, what, p.Pos(s.Node.Pos()), fmt.Sprintf("%s relies on its callers holding %s, but %s calls it without the lock %s", name, short(mutexRef), s.InName, why))
			res = false
		}
		return res
	}
	for _, s := range sites {
		if s.Kind == "lit-key" {
			continue // construction of the object
		}
		if s.In == nil || unlocked[s.InName] {
			continue
		}
		if o.WritesOnly && s.Kind == "read" {
			continue
		}
		n++
		fs := p.SrcOf(s.In)
		held, why := p.HeldAtSite(fs, s.Node, lockState{})
		c.FnsAnalysed[s.InName] = true
		h := byte(0)
		if why == "" {
			h = held[mtx.Origin()]
		}
		nd := need(s.Kind)
		if h == 'W' || (h == 'R' && nd == 'R') {
			continue
		}
		if callerHolds[s.InName] {
			if !checkFn(s.InName, 0) {
				ok = false
			}
			continue
		}
		msg := fmt.Sprintf("%s of %s in %s without %s", s.Kind, short(fieldRef), s.InName, short(mutexRef))
		if h == 'R' {
			msg = fmt.Sprintf("%s of %s in %s with only the read lock of %s", s.Kind, short(fieldRef), s.InName, short(mutexRef))
		}
		c.Fail(rule, fieldRef, what, p.Pos(s.Node.Pos()), msg+" "+why)
		ok = false
	}
	if n < o.Min {
		c.Fail(rule, fieldRef, what, "", fmt.Sprintf("only %d access site(s) examined, %d confirmed by reading", n, o.Min))
		ok = false
	}
	if ok {
		var ex []string
		for r := range o.Unlocked {
			ex = append(ex, short(r))
		}
		sort.Strings(ex)
		c.Pass(rule, fieldRef, what, fmt.Sprintf("%d access site(s) in %s; unlocked by declaration: {%s}; caller-holds: {%s}", n, strings.Join(siteFuncs(sites), ", "), strings.Join(ex, ", "), strings.Join(shorts(o.CallerHolds), ", ")))
	}
	return ok
}

// LockOrder: in no function of the listed packages is `second` acquired while ... `first` is
// acquired while `second` is already held (i.e. the order first → second is never inverted).
func (c *Ctx) LockOrder(rule, firstRef, secondRef string) bool {
	p := c.P
	first, second := p.Field(firstRef).Origin(), p.Field(secondRef).Origin()
	what := "never acquire " + short(firstRef) + " while holding " + short(secondRef)
	n := 0
	for _, fs := range p.AllFuncs() {
		if fs.Pkg.Types != first.Pkg() {
			continue
		}
		var hits []*ast.CallExpr
		ast.Inspect(fs.Decl.Body, func(x ast.Node) bool {
			if call, ok := x.(*ast.CallExpr); ok {
				if f, op := lockOp(fs.Pkg.TypesInfo, call); f == first && (op == "Lock" || op == "RLock") {
					hits = append(hits, call)
				}
			}
			return true
		})
		for _, call := range hits {
			n++
			held, why := p.HeldAtSite(fs, call, lockState{})
			if why != "" {
				continue
			}
			if held[second] != 0 {
				c.Fail(rule, FuncName(fs.Obj), what, p.Pos(call.Pos()), fmt.Sprintf("%s acquires %s while holding %s", FuncName(fs.Obj), short(firstRef), short(secondRef)))
				return false
			}
		}
	}
	if n == 0 {
		c.Fail(rule, firstRef, what, "", "no acquisition of "+short(firstRef)+" found")
		return false
	}
	c.Pass(rule, firstRef, what, fmt.Sprintf("%d acquisition site(s) of %s examined", n, short(firstRef)))
	return true
}
