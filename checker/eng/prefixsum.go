package eng

import (
	"go/ast"
	"go/token"
	"go/types"
	"sort"
)

// PrefixSum describes a local accumulator that is advanced inside a loop (`v += e`) and whose running value is
// stored into an indexed destination in that loop (`dst[i] = f(v)`): the decoding of a delta-encoded array.
type PrefixSum struct {
	Var   *types.Var
	Loops []ast.Stmt // the loops (outermost not nested in one another) that use Var this way, in source order
	// ResetBefore[i] reports whether, between Loops[i-1] and Loops[i], Var is assigned a value that does not
	// depend on Var (a reset).  ResetBefore[0] is always true.
	ResetBefore []bool
}

// PrefixSums finds the prefix-sum accumulators of a function body.
func PrefixSums(info *types.Info, body *ast.BlockStmt) []PrefixSum {
	type use struct {
		loop ast.Stmt
	}
	uses := map[*types.Var][]ast.Stmt{}
	var loops []ast.Stmt
	var walk func(n ast.Node)
	mentions := func(e ast.Node, v *types.Var) bool {
		found := false
		ast.Inspect(e, func(x ast.Node) bool {
			if id, ok := x.(*ast.Ident); ok && info.Uses[id] == v {
				found = true
			}
			return !found
		})
		return found
	}
	walk = func(n ast.Node) {
		ast.Inspect(n, func(x ast.Node) bool {
			switch s := x.(type) {
			case *ast.FuncLit:
				return false
			case *ast.ForStmt, *ast.RangeStmt:
				loops = append(loops, s.(ast.Stmt))
				var b *ast.BlockStmt
				if fs, ok := s.(*ast.ForStmt); ok {
					b = fs.Body
				} else {
					b = s.(*ast.RangeStmt).Body
				}
				walk(b)
				loops = loops[:len(loops)-1]
				return false
			case *ast.AssignStmt:
				if len(loops) == 0 || len(s.Lhs) != 1 {
					return true
				}
				id, ok := s.Lhs[0].(*ast.Ident)
				if !ok {
					return true
				}
				v, _ := info.Uses[id].(*types.Var)
				if v == nil || v.IsField() {
					return true
				}
				adv := s.Tok == token.ADD_ASSIGN || s.Tok == token.ASSIGN && mentions(s.Rhs[0], v)
				if !adv {
					return true
				}
				// the outermost loop that starts after the declaration of v
				var L ast.Stmt
				for _, l := range loops {
					if v.Pos() < l.Pos() {
						L = l
						break
					}
				}
				if L == nil {
					return true
				}
				// prefix sum: the loop stores something that mentions v into an indexed destination
				stored := false
				ast.Inspect(L, func(y ast.Node) bool {
					as, ok := y.(*ast.AssignStmt)
					if !ok || as.Tok != token.ASSIGN && as.Tok != token.DEFINE {
						return true
					}
					for i, l := range as.Lhs {
						if _, isIdx := ast.Unparen(l).(*ast.IndexExpr); isIdx && i < len(as.Rhs) && mentions(as.Rhs[i], v) {
							stored = true
						}
					}
					return true
				})
				if stored {
					dup := false
					for _, u := range uses[v] {
						dup = dup || u == L
					}
					if !dup {
						uses[v] = append(uses[v], L)
					}
				}
			}
			return true
		})
	}
	walk(body)
	var out []PrefixSum
	for v, ls := range uses {
		sort.Slice(ls, func(i, j int) bool { return ls[i].Pos() < ls[j].Pos() })
		ps := PrefixSum{Var: v, Loops: ls, ResetBefore: make([]bool, len(ls))}
		ps.ResetBefore[0] = true
		for i := 1; i < len(ls); i++ {
			lo, hi := ls[i-1].End(), ls[i].Pos()
			ast.Inspect(body, func(x ast.Node) bool {
				as, ok := x.(*ast.AssignStmt)
				if !ok || as.Pos() < lo || as.End() > hi || len(as.Lhs) != 1 || as.Tok != token.ASSIGN {
					return true
				}
				if id, ok := as.Lhs[0].(*ast.Ident); ok && info.Uses[id] == v && !mentions(as.Rhs[0], v) {
					ps.ResetBefore[i] = true
				}
				return true
			})
		}
		out = append(out, ps)
	}
	sort.Slice(out, func(i, j int) bool { return out[i].Var.Pos() < out[j].Var.Pos() })
	return out
}
