package eng

import (
	"fmt"
	"go/ast"
	"go/types"
	"sort"

	"golang.org/x/tools/go/cfg"
)

// LockLeaks is an exploratory may-analysis: for every function it reports the mutex fields that may still be
// held (taken in this function, no deferred unlock) when a return is reached.  Union at joins, so correlated
// conditional lock/unlock pairs are reported too; the output is a candidate list for reading, not a rule.
func (p *Prog) LockLeaks() []string {
	var out []string
	for _, fs := range p.AllFuncs() {
		if fs.Decl.Body == nil {
			continue
		}
		g := p.graphOfSrc(fs)
		if g == nil || g.CFG == nil {
			continue
		}
		deferred := map[*types.Var]bool{}
		any := false
		ast.Inspect(fs.Decl.Body, func(n ast.Node) bool {
			switch x := n.(type) {
			case *ast.FuncLit:
				return false
			case *ast.DeferStmt:
				if f, op := lockOp(g.Info, x.Call); f != nil && (op == "Unlock" || op == "RUnlock") {
					deferred[f] = true
				}
				// defer func() { x.Unlock() }()
				if fl, ok := x.Call.Fun.(*ast.FuncLit); ok {
					ast.Inspect(fl.Body, func(m ast.Node) bool {
						if c, ok := m.(*ast.CallExpr); ok {
							if f, op := lockOp(g.Info, c); f != nil && (op == "Unlock" || op == "RUnlock") {
								deferred[f] = true
							}
						}
						return true
					})
				}
			case *ast.CallExpr:
				if f, _ := lockOp(g.Info, x); f != nil {
					any = true
				}
			}
			return true
		})
		if !any {
			continue
		}
		in := map[*cfg.Block]map[*types.Var]bool{}
		work := []*cfg.Block{g.CFG.Blocks[0]}
		in[g.CFG.Blocks[0]] = map[*types.Var]bool{}
		transfer := func(b *cfg.Block, st map[*types.Var]bool) map[*types.Var]bool {
			o := map[*types.Var]bool{}
			for k := range st {
				o[k] = true
			}
			for _, n := range b.Nodes {
				if _, isDefer := n.(*ast.DeferStmt); isDefer {
					continue
				}
				walkNode(n, false, func(sub ast.Node, mode Mode, _ int) {
					call, ok := sub.(*ast.CallExpr)
					if !ok || mode != Plain {
						return
					}
					if f, op := lockOp(g.Info, call); f != nil {
						switch op {
						case "Lock", "RLock":
							o[f] = true
						default:
							delete(o, f)
						}
					}
				})
			}
			return o
		}
		outSt := map[*cfg.Block]map[*types.Var]bool{}
		for len(work) > 0 {
			b := work[0]
			work = work[1:]
			o := transfer(b, in[b])
			outSt[b] = o
			for _, s := range b.Succs {
				cur, seen := in[s]
				if !seen {
					cur = map[*types.Var]bool{}
					in[s] = cur
				}
				changed := !seen
				for k := range o {
					if !cur[k] {
						cur[k] = true
						changed = true
					}
				}
				if changed {
					work = append(work, s)
				}
			}
		}
		for b, o := range outSt {
			if len(b.Succs) != 0 || !g.Live(b) {
				continue
			}
			// a block ending in panic is not a return
			if len(b.Nodes) > 0 {
				if es, ok := b.Nodes[len(b.Nodes)-1].(*ast.ExprStmt); ok {
					if c, ok := es.X.(*ast.CallExpr); ok {
						if id, ok := c.Fun.(*ast.Ident); ok && id.Name == "panic" {
							continue
						}
					}
				}
			}
			var held []string
			for f := range o {
				if !deferred[f] {
					held = append(held, f.Name())
				}
			}
			if len(held) == 0 {
				continue
			}
			sort.Strings(held)
			pos := p.Pos(fs.Decl.End())
			if len(b.Nodes) > 0 {
				pos = p.Pos(b.Nodes[len(b.Nodes)-1].Pos())
			}
			out = append(out, fmt.Sprintf("%s: %s may return at %s holding %v", p.Pos(fs.Decl.Pos()), FuncName(fs.Obj), pos, held))
		}
	}
	sort.Strings(out)
	return out
}
