package eng

import (
	"fmt"
	"go/ast"
	"go/token"
	"go/types"
	"sort"
	"strings"
)

// E11 — field-transfer maps.
//
// A conversion function that builds a value of struct type D from a value of struct type S is
// summarised as a map  D-field → set of S-names read by the expression stored in that field.
// S-names are the fields of S selected on any expression of type S / *S (h.Sum, s[i].Offset) and
// its protobuf-style getters (h.GetCountInt() → CountInt).  Keys of composite literals nested in
// the stored expression are recorded as keys too (oneof wrappers: ZeroCount: &X{ZeroCountInt: …}
// gives both ZeroCount and ZeroCountInt), so that the decoder's getter names find them.
//
// What the map can decide is information flow by name, which is a necessary condition of every
// "the converted value describes the same thing" property: a source field that reaches no
// destination field is lost; an encoder/decoder pair whose composition is not the identity on
// field names returns a different value than went in.  It does not decide what the functions
// applied on the way (float64(), spansToSpansProto, deltasToCounts) compute.

// FieldMap is one construction site of the destination struct.
type FieldMap struct {
	Pos   string
	Lit   *ast.CompositeLit   // nil when built from field assignments
	Reads map[string][]string // destination key → sorted source names
	Keys  []string            // top-level destination fields that are set
}

func isNamedOrPtr(t types.Type, n *types.Named) bool {
	if t == nil {
		return false
	}
	if p, ok := t.(*types.Pointer); ok {
		t = p.Elem()
	}
	return types.Identical(t, n)
}

// srcReads lists the names of src read inside e (fields and Get-prefixed getters), plus "$param"
// for every parameter of the function that is read directly.
func (f *Fn) srcReads(e ast.Expr, src *types.Named) []string {
	set := map[string]bool{}
	ast.Inspect(e, func(x ast.Node) bool {
		switch s := x.(type) {
		case *ast.CallExpr:
			if se, ok := ast.Unparen(s.Fun).(*ast.SelectorExpr); ok {
				if sel := f.Info.Selections[se]; sel != nil && sel.Kind() == types.MethodVal && isNamedOrPtr(sel.Recv(), src) {
					if name := se.Sel.Name; strings.HasPrefix(name, "Get") && len(name) > 3 {
						set[name[3:]] = true
					} else {
						set[name+"()"] = true
					}
				}
			}
		case *ast.SelectorExpr:
			if sel := f.Info.Selections[s]; sel != nil && sel.Kind() == types.FieldVal && isNamedOrPtr(sel.Recv(), src) {
				set[s.Sel.Name] = true
			}
		case *ast.Ident:
			if v, ok := f.Info.Uses[s].(*types.Var); ok && f.paramIndex(v) >= 0 && !isNamedOrPtr(v.Type(), src) {
				set["$"+v.Name()] = true
			}
		}
		return true
	})
	return SortedKeys(set)
}

func (f *Fn) litMap(cl *ast.CompositeLit, src *types.Named, fm *FieldMap, top bool) {
	for _, el := range cl.Elts {
		kv, ok := el.(*ast.KeyValueExpr)
		if !ok {
			continue
		}
		k, ok := kv.Key.(*ast.Ident)
		if !ok {
			continue
		}
		fm.Reads[k.Name] = append(fm.Reads[k.Name], f.srcReads(kv.Value, src)...)
		if top {
			fm.Keys = append(fm.Keys, k.Name)
		}
		// nested literals (oneof wrappers, embedded messages): their keys are destinations too
		ast.Inspect(kv.Value, func(x ast.Node) bool {
			if in, ok := x.(*ast.CompositeLit); ok {
				f.litMap(in, src, fm, false)
				return false
			}
			return true
		})
	}
}

// FieldMaps returns one map per composite literal of type dstRef in the function, in source order,
// and — when the function instead fills a destination variable field by field — one map built
// from the assignments `d.F = expr` to variables of type dstRef.
func (f *Fn) FieldMaps(dstRef, srcRef string) []FieldMap {
	dst, src := f.P.Named(dstRef), f.P.Named(srcRef)
	var out []FieldMap
	asg := FieldMap{Reads: map[string][]string{}}
	ast.Inspect(f.Body, func(x ast.Node) bool {
		switch s := x.(type) {
		case *ast.CompositeLit:
			if t := f.Info.TypeOf(s); t != nil && isNamedOrPtr(t, dst) {
				fm := FieldMap{Pos: f.P.Pos(s.Pos()), Lit: s, Reads: map[string][]string{}}
				f.litMap(s, src, &fm, true)
				out = append(out, fm)
				return false
			}
		case *ast.AssignStmt:
			for i, l := range s.Lhs {
				se, ok := ast.Unparen(l).(*ast.SelectorExpr)
				if !ok {
					continue
				}
				sel := f.Info.Selections[se]
				if sel == nil || sel.Kind() != types.FieldVal || !isNamedOrPtr(sel.Recv(), dst) {
					continue
				}
				var rhs ast.Expr
				if len(s.Rhs) == len(s.Lhs) {
					rhs = s.Rhs[i]
				} else {
					rhs = s.Rhs[0]
				}
				if asg.Pos == "" {
					asg.Pos = f.P.Pos(s.Pos())
				}
				asg.Reads[se.Sel.Name] = append(asg.Reads[se.Sel.Name], f.srcReads(rhs, src)...)
				asg.Keys = append(asg.Keys, se.Sel.Name)
				ast.Inspect(rhs, func(y ast.Node) bool {
					if in, ok := y.(*ast.CompositeLit); ok {
						f.litMap(in, src, &asg, false)
						return false
					}
					return true
				})
			}
		}
		return true
	})
	if len(asg.Keys) > 0 {
		out = append(out, asg)
	}
	for i := range out {
		for k, v := range out[i].Reads {
			out[i].Reads[k] = uniqSorted(v)
		}
	}
	return out
}

func uniqSorted(v []string) []string {
	m := map[string]bool{}
	for _, s := range v {
		m[s] = true
	}
	return SortedKeys(m)
}

func structFields(n *types.Named) []string {
	st, ok := n.Underlying().(*types.Struct)
	if !ok {
		undecided("%s is not a struct", n.Obj().Name())
	}
	var out []string
	for i := 0; i < st.NumFields(); i++ {
		if fn := st.Field(i).Name(); !strings.HasPrefix(fn, "XXX_") {
			out = append(out, fn)
		}
	}
	return out
}

// TransfersAll: every construction of dstRef in fnRef (at least min of them) reads every field of
// srcRef into some destination field, except the listed source fields (name → reason).  A source
// field that is read nowhere cannot influence the converted value.
func (c *Ctx) TransfersAll(rule, fnRef, dstRef, srcRef string, min int, except map[string]string) bool {
	f := c.Fn(fnRef)
	what := fmt.Sprintf("every %s built in %s carries every field of %s", short(dstRef), short(fnRef), short(srcRef))
	if len(except) > 0 {
		what += " except {" + strings.Join(SortedKeys(except), ", ") + "}"
	}
	fms := f.FieldMaps(dstRef, srcRef)
	if len(fms) < min {
		c.Fail(rule, fnRef, what, c.P.Pos(f.Body.Pos()), fmt.Sprintf("%d construction site(s) of %s found, %d confirmed by reading (rule instance vanished)", len(fms), dstRef, min))
		return false
	}
	ok := true
	for _, fm := range fms {
		read := map[string]bool{}
		for _, v := range fm.Reads {
			for _, s := range v {
				read[s] = true
			}
		}
		var missing []string
		for _, sf := range structFields(c.P.Named(srcRef)) {
			if _, ex := except[sf]; !ex && !read[sf] {
				missing = append(missing, sf)
			}
		}
		if len(missing) > 0 {
			c.Fail(rule, fnRef, what, fm.Pos, "the value built at "+fm.Pos+" does not depend on "+strings.Join(missing, ", ")+" of the source")
			ok = false
		}
	}
	if ok {
		c.Pass(rule, fnRef, what, fmt.Sprintf("%d site(s)", len(fms)))
	}
	return ok
}

// SetsAll: every construction of dstRef in fnRef sets every field of dstRef, except the listed
// destination fields.
func (c *Ctx) SetsAll(rule, fnRef, dstRef, srcRef string, min int, except map[string]string) bool {
	f := c.Fn(fnRef)
	what := fmt.Sprintf("every %s built in %s has every field set", short(dstRef), short(fnRef))
	if len(except) > 0 {
		what += " except {" + strings.Join(SortedKeys(except), ", ") + "}"
	}
	fms := f.FieldMaps(dstRef, srcRef)
	if len(fms) < min {
		c.Fail(rule, fnRef, what, c.P.Pos(f.Body.Pos()), fmt.Sprintf("%d construction site(s) of %s found, %d confirmed by reading (rule instance vanished)", len(fms), dstRef, min))
		return false
	}
	ok := true
	for _, fm := range fms {
		set := map[string]bool{}
		for _, k := range fm.Keys {
			set[k] = true
		}
		var missing []string
		for _, df := range structFields(c.P.Named(dstRef)) {
			if _, ex := except[df]; !ex && !set[df] {
				missing = append(missing, df)
			}
		}
		if len(missing) > 0 {
			c.Fail(rule, fnRef, what, fm.Pos, "the value built at "+fm.Pos+" leaves "+strings.Join(missing, ", ")+" at the zero value")
			ok = false
		}
	}
	if ok {
		c.Pass(rule, fnRef, what, fmt.Sprintf("%d site(s)", len(fms)))
	}
	return ok
}

// RoundTripFields: encRef builds the wire struct from the model struct, decRef builds the model
// struct from the wire struct.  For every model field F (except the listed ones), construction
// site decSite of the decoder (0-based, in source order) fills F from wire names W…, and the
// encoder fills each such W from exactly the model field F — so decoder∘encoder is the identity
// on field names.  A swapped, dropped or doubled field breaks it.
func (c *Ctx) RoundTripFields(rule, encRef, decRef, modelRef, wireRef string, decSite int, except map[string]string) bool {
	return c.RoundTripFieldsX(rule, encRef, modelRef, decRef, modelRef, wireRef, decSite, except)
}

// RoundTripFieldsX is RoundTripFields for an encoder whose model struct (encModelRef) is a sibling
// of the decoder's with the same field names (integer histogram written, float histogram read).
func (c *Ctx) RoundTripFieldsX(rule, encRef, encModelRef, decRef, modelRef, wireRef string, decSite int, except map[string]string) bool {
	enc, dec := c.Fn(encRef), c.Fn(decRef)
	what := fmt.Sprintf("%s (site %d) after %s returns every field of %s from the wire field that field was written to", short(decRef), decSite, short(encRef), short(modelRef))
	if len(except) > 0 {
		what += " except {" + strings.Join(SortedKeys(except), ", ") + "}"
	}
	ems := enc.FieldMaps(wireRef, encModelRef)
	dms := dec.FieldMaps(modelRef, wireRef)
	if len(ems) != 1 {
		c.Fail(rule, encRef, what, c.P.Pos(enc.Body.Pos()), fmt.Sprintf("%d construction sites of %s in the encoder, exactly 1 confirmed by reading", len(ems), wireRef))
		return false
	}
	if decSite >= len(dms) {
		c.Fail(rule, decRef, what, c.P.Pos(dec.Body.Pos()), fmt.Sprintf("%d construction sites of %s in the decoder, site %d confirmed by reading (rule instance vanished)", len(dms), modelRef, decSite))
		return false
	}
	em, dm := ems[0], dms[decSite]
	var bad []string
	for _, mf := range structFields(c.P.Named(modelRef)) {
		if _, ex := except[mf]; ex {
			continue
		}
		ws := dm.Reads[mf]
		var wire []string
		for _, w := range ws {
			if !strings.HasPrefix(w, "$") {
				wire = append(wire, w)
			}
		}
		if len(wire) == 0 {
			bad = append(bad, fmt.Sprintf("%s is not filled from the wire (decoder site %s)", mf, dm.Pos))
			continue
		}
		for _, w := range wire {
			var from []string
			for _, s := range em.Reads[w] {
				if !strings.HasPrefix(s, "$") {
					from = append(from, s)
				}
			}
			if len(from) != 1 || from[0] != mf {
				bad = append(bad, fmt.Sprintf("%s is decoded from wire field %s, which the encoder fills from {%s}", mf, w, strings.Join(from, ", ")))
			}
		}
	}
	if len(bad) > 0 {
		sort.Strings(bad)
		c.Fail(rule, decRef, what, dm.Pos, strings.Join(bad, "; "))
		return false
	}
	c.Pass(rule, decRef, what, fmt.Sprintf("%d model fields", len(structFields(c.P.Named(modelRef)))))
	return true
}

// LitTexts returns, for every composite literal of type typeRef (or pointer to it) in the
// function (closures included), the printed value of each keyed field.
func (f *Fn) LitTexts(typeRef string) []map[string]string {
	n := f.P.Named(typeRef)
	var out []map[string]string
	ast.Inspect(f.Body, func(x ast.Node) bool {
		cl, ok := x.(*ast.CompositeLit)
		if !ok {
			return true
		}
		if t := f.Info.TypeOf(cl); t == nil || !isNamedOrPtr(t, n) {
			return true
		}
		m := map[string]string{"@pos": f.P.Pos(cl.Pos())}
		for _, el := range cl.Elts {
			if kv, ok := el.(*ast.KeyValueExpr); ok {
				if k, ok := kv.Key.(*ast.Ident); ok {
					m[k.Name] = types.ExprString(kv.Value)
				}
			}
		}
		out = append(out, m)
		return true
	})
	return out
}

// LitIs: the function has exactly n literals of typeRef and each has exactly the given keyed
// field values (printed form).
func (f *Fn) LitIs(rule, typeRef string, n int, want map[string]string) bool {
	what := fmt.Sprintf("%s builds %s as {%s}", f.Name, short(typeRef), kvString(want))
	ls := f.LitTexts(typeRef)
	if len(ls) != n {
		f.C.Fail(rule, f.Where(), what, f.P.Pos(f.Body.Pos()), fmt.Sprintf("%d literal(s) of %s found, %d confirmed by reading", len(ls), typeRef, n))
		return false
	}
	ok := true
	for _, m := range ls {
		pos := m["@pos"]
		delete(m, "@pos")
		if kvString(m) != kvString(want) {
			f.C.Fail(rule, f.Where(), what, pos, "literal at "+pos+" is {"+kvString(m)+"}")
			ok = false
		}
	}
	if ok {
		f.C.Pass(rule, f.Where(), what, fmt.Sprintf("%d literal(s)", n))
	}
	return ok
}

func kvString(m map[string]string) string {
	var parts []string
	for _, k := range SortedKeys(m) {
		parts = append(parts, k+": "+m[k])
	}
	return strings.Join(parts, ", ")
}

// ResumeState: fnRef rebuilds the state of a writer (struct appRef) from the state a reader
// (struct itRef) has after reading everything written so far.  In the construction site with
// the most fields (the resume site; an "empty" site with fewer fields may precede it):
//   - every writer field filled from the reader is filled from exactly one reader field, the one
//     with the same name or the one declared in pairs (writer field → reader field, with the
//     reason the two play the same role in the codec);
//   - every writer field that a method of the writer assigns (loop-carried codec state) is set,
//     except the listed ones.
//
// A writer that resumes from a different state than the reader reached encodes the next sample
// against a base the reader does not have.
func (c *Ctx) ResumeState(rule, fnRef, appRef, itRef string, pairs map[string]string, except map[string]string) bool {
	f := c.Fn(fnRef)
	what := fmt.Sprintf("%s resumes every state field of %s from the matching field of %s", short(fnRef), short(appRef), short(itRef))
	fms := f.FieldMaps(appRef, itRef)
	if len(fms) == 0 {
		c.Fail(rule, fnRef, what, c.P.Pos(f.Body.Pos()), "no construction site of "+appRef+" (rule instance vanished)")
		return false
	}
	fm := fms[0]
	for _, m := range fms[1:] {
		if len(m.Keys) > len(fm.Keys) {
			fm = m
		}
	}
	var bad []string
	set := map[string]bool{}
	for _, k := range fm.Keys {
		set[k] = true
		var from []string
		for _, s := range fm.Reads[k] {
			if !strings.HasPrefix(s, "$") {
				from = append(from, s)
			}
		}
		if len(from) == 0 {
			continue
		}
		want := k
		if p, ok := pairs[k]; ok {
			want = p
		}
		if len(from) != 1 || from[0] != want {
			bad = append(bad, fmt.Sprintf("%s is resumed from {%s}, its counterpart in the reader is %s", k, strings.Join(from, ", "), want))
		}
	}
	app := c.P.Named(appRef)
	st, _ := app.Underlying().(*types.Struct)
	if st == nil {
		undecided("%s is not a struct", appRef)
	}
	ix := c.P.Index()
	for i := 0; i < st.NumFields(); i++ {
		fv := st.Field(i)
		if _, ex := except[fv.Name()]; ex || set[fv.Name()] {
			continue
		}
		mutated := false
		for _, s := range ix.FieldSites(fv, "store", "incdec", "addr", "store-elem", "incdec-elem") {
			if s.In == nil {
				continue
			}
			if sig, ok := s.In.Type().(*types.Signature); ok && sig.Recv() != nil && isNamedOrPtr(sig.Recv().Type(), app) {
				mutated = true
			}
		}
		if mutated {
			bad = append(bad, fmt.Sprintf("%s is codec state (assigned in a method of %s) but is not resumed", fv.Name(), short(appRef)))
		}
	}
	if len(bad) > 0 {
		sort.Strings(bad)
		c.Fail(rule, fnRef, what, fm.Pos, strings.Join(bad, "; "))
		return false
	}
	c.Pass(rule, fnRef, what, fmt.Sprintf("%d fields at %s", len(fm.Keys), fm.Pos))
	return true
}

// MethodsOf returns the declared methods (with bodies) of the named type.
func (c *Ctx) MethodsOf(typeRef string) []*Fn {
	n := c.P.Named(typeRef)
	var out []*Fn
	for i := 0; i < n.NumMethods(); i++ {
		out = append(out, c.Fn(typeRef+"."+n.Method(i).Name()))
	}
	return out
}

// KV prints a string map as "k: v, …" in key order.
func KV(m map[string]string) string { return kvString(m) }

// PolarityAgree: inside fnRef, wherever a destination name (assignment target, composite-literal
// key, or — for a range loop — the targets assigned in its body) contains one of the words, every
// name on the source side (right-hand side, value, ranged expression) that contains any of the
// words contains the same one.  Catches positive/negative (first/last, min/max …) swaps in
// field-by-field conversions.  min is the number of word-carrying sites confirmed by reading.
func (c *Ctx) PolarityAgree(rule, fnRef string, words []string, min int) bool {
	f := c.Fn(fnRef)
	what := fmt.Sprintf("in %s every %s destination is filled from a source of the same kind", short(fnRef), strings.Join(words, "/"))
	wordsIn := func(n ast.Node) map[string]bool {
		out := map[string]bool{}
		if n == nil {
			return out
		}
		ast.Inspect(n, func(x ast.Node) bool {
			if id, ok := x.(*ast.Ident); ok {
				for _, w := range words {
					if strings.Contains(id.Name, w) {
						out[w] = true
					}
				}
			}
			return true
		})
		return out
	}
	sites := 0
	var bad []string
	check := func(dst, src ast.Node, pos token.Pos) {
		d, s := wordsIn(dst), wordsIn(src)
		if len(d) == 0 {
			return
		}
		sites++
		if len(d) > 1 {
			return // a destination naming several kinds (e.g. a pair assignment) is not a single-kind site
		}
		for w := range s {
			if !d[w] {
				bad = append(bad, fmt.Sprintf("%s: destination %s filled from a %s source (%s)", c.P.Pos(pos), SortedKeys(d)[0], w, types.ExprString(src.(ast.Expr))))
			}
		}
	}
	ast.Inspect(f.Body, func(x ast.Node) bool {
		switch s := x.(type) {
		case *ast.AssignStmt:
			if len(s.Lhs) == len(s.Rhs) {
				for i := range s.Lhs {
					check(s.Lhs[i], s.Rhs[i], s.Pos())
				}
			} else if len(s.Rhs) == 1 {
				// a, b = f(…): all targets against the one source expression
				check(&ast.CompositeLit{Elts: s.Lhs}, s.Rhs[0], s.Pos())
			}
		case *ast.KeyValueExpr:
			if _, ok := s.Key.(*ast.Ident); ok {
				check(s.Key, s.Value, s.Pos())
			}
		case *ast.CallExpr:
			if id, ok := s.Fun.(*ast.Ident); ok && id.Name == "copy" && len(s.Args) == 2 {
				check(s.Args[0], s.Args[1], s.Pos())
			}
		case *ast.RangeStmt:
			ast.Inspect(s.Body, func(y ast.Node) bool {
				if as, ok := y.(*ast.AssignStmt); ok {
					for _, l := range as.Lhs {
						check(l, s.X, as.Pos())
					}
				}
				return true
			})
		}
		return true
	})
	if sites < min {
		c.Fail(rule, fnRef, what, c.P.Pos(f.Body.Pos()), fmt.Sprintf("%d site(s) found, %d confirmed by reading (rule instance vanished)", sites, min))
		return false
	}
	if len(bad) > 0 {
		sort.Strings(bad)
		c.Fail(rule, fnRef, what, c.P.Pos(f.Body.Pos()), strings.Join(bad, "; "))
		return false
	}
	c.Pass(rule, fnRef, what, fmt.Sprintf("%d sites", sites))
	return true
}

// StructFields lists the field names of a named struct type (protobuf XXX_ fields excluded).
func StructFields(n *types.Named) []string { return structFields(n) }
