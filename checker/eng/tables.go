package eng

import (
	"fmt"
	"go/ast"
	"go/constant"
	"go/token"
	"go/types"
	"sort"
	"strings"

	"golang.org/x/tools/go/packages"
)

// EnumConsts lists the package-level constants of the named type (declared in the type's package).
func (p *Prog) EnumConsts(typeRef string) []*types.Const {
	n := p.Named(typeRef)
	sc := n.Obj().Pkg().Scope()
	var out []*types.Const
	for _, name := range sc.Names() {
		if c, ok := sc.Lookup(name).(*types.Const); ok && types.Identical(c.Type(), n) {
			out = append(out, c)
		}
	}
	sort.Slice(out, func(i, j int) bool {
		a, b := out[i].Val(), out[j].Val()
		if a.Kind() == constant.Int && b.Kind() == constant.Int && !constant.Compare(a, token.EQL, b) {
			return constant.Compare(a, token.LSS, b)
		}
		return out[i].Name() < out[j].Name()
	})
	return out
}

// SwitchInfo is one switch statement over an enum.
type SwitchInfo struct {
	Stmt       *ast.SwitchStmt
	Cases      map[string]bool // constant names appearing in case clauses
	HasDefault bool
	Default    *ast.CaseClause
	Clauses    map[string]*ast.CaseClause
}

// EnumSwitches finds the switch statements in f (closures included) whose tag has the named type.
func (f *Fn) EnumSwitches(typeRef string) []SwitchInfo {
	n := f.P.Named(typeRef)
	var out []SwitchInfo
	ast.Inspect(f.Body, func(x ast.Node) bool {
		sw, ok := x.(*ast.SwitchStmt)
		if !ok || sw.Tag == nil {
			return true
		}
		t := f.Info.TypeOf(sw.Tag)
		if t == nil || !types.Identical(t, n) {
			return true
		}
		si := SwitchInfo{Stmt: sw, Cases: map[string]bool{}, Clauses: map[string]*ast.CaseClause{}}
		for _, cl := range sw.Body.List {
			cc := cl.(*ast.CaseClause)
			if cc.List == nil {
				si.HasDefault = true
				si.Default = cc
				continue
			}
			for _, e := range cc.List {
				if c := constOf(f.Info, e); c != nil {
					si.Cases[c.Name()] = true
					si.Clauses[c.Name()] = cc
				}
			}
		}
		out = append(out, si)
		return true
	})
	return out
}

func constOf(info *types.Info, e ast.Expr) *types.Const {
	switch x := ast.Unparen(e).(type) {
	case *ast.Ident:
		c, _ := info.Uses[x].(*types.Const)
		return c
	case *ast.SelectorExpr:
		c, _ := info.Uses[x.Sel].(*types.Const)
		return c
	}
	return nil
}

// SwitchCovers: every switch over the enum in f handles every constant of the type, except
// the listed ones (name → reason).  min is the number of such switches confirmed by reading.
func (f *Fn) SwitchCovers(rule, typeRef string, min int, except map[string]string) bool {
	consts := f.P.EnumConsts(typeRef)
	sws := f.EnumSwitches(typeRef)
	what := "every switch over " + short(typeRef) + " handles every constant of the type"
	if len(except) > 0 {
		what += " except {" + strings.Join(SortedKeys(except), ", ") + "}"
	}
	if len(sws) < min {
		f.C.Fail(rule, f.Where(), what, f.P.Pos(f.Body.Pos()), fmt.Sprintf("%d switch(es) over %s found, %d confirmed by reading", len(sws), typeRef, min))
		return false
	}
	if len(consts) == 0 {
		f.C.Fail(rule, f.Where(), what, "", "no constants of type "+typeRef)
		return false
	}
	ok := true
	for _, sw := range sws {
		var missing []string
		for _, c := range consts {
			if !sw.Cases[c.Name()] {
				if _, ex := except[c.Name()]; !ex {
					missing = append(missing, c.Name())
				}
			}
		}
		if len(missing) > 0 {
			f.C.Fail(rule, f.Where(), what, f.P.Pos(sw.Stmt.Pos()), "switch at "+f.P.Pos(sw.Stmt.Pos())+" has no case for "+strings.Join(missing, ", ")+" (falls into default / is skipped)")
			ok = false
		}
	}
	if ok {
		f.C.Pass(rule, f.Where(), what, fmt.Sprintf("%d switch(es), %d constants", len(sws), len(consts)))
	}
	return ok
}

// ConstNames lists names.
func ConstNames(cs []*types.Const) []string {
	var out []string
	for _, c := range cs {
		out = append(out, c.Name())
	}
	return out
}

// MapLitKeys returns the constant/string keys of the composite literal that initialises the
// package-level variable ref (a map).
func (p *Prog) MapLitKeys(ref string) (keys []string, pos string) {
	obj := p.Global(ref)
	for _, pk := range p.Pkgs {
		if pk.Types != obj.Pkg() {
			continue
		}
		for _, file := range pk.Syntax {
			for _, d := range file.Decls {
				gd, ok := d.(*ast.GenDecl)
				if !ok {
					continue
				}
				for _, sp := range gd.Specs {
					vs, ok := sp.(*ast.ValueSpec)
					if !ok {
						continue
					}
					for i, id := range vs.Names {
						if pk.TypesInfo.Defs[id] != obj || i >= len(vs.Values) {
							continue
						}
						cl, ok := ast.Unparen(vs.Values[i]).(*ast.CompositeLit)
						if !ok {
							undecided("%s is not initialised by a composite literal", ref)
						}
						for _, el := range cl.Elts {
							kv, ok := el.(*ast.KeyValueExpr)
							if !ok {
								continue
							}
							if c := constOf(pk.TypesInfo, kv.Key); c != nil {
								keys = append(keys, c.Name())
							} else if tv, ok := pk.TypesInfo.Types[kv.Key]; ok && tv.Value != nil {
								keys = append(keys, strings.Trim(tv.Value.ExactString(), `"`))
							} else {
								keys = append(keys, types.ExprString(kv.Key))
							}
						}
						return keys, p.Pos(cl.Pos())
					}
				}
			}
		}
	}
	undecided("initialiser of %s not found", ref)
	return nil, ""
}

// SetDiff returns a \ b.
func SetDiff(a, b []string) []string {
	in := map[string]bool{}
	for _, x := range b {
		in[x] = true
	}
	var out []string
	for _, x := range a {
		if !in[x] {
			out = append(out, x)
		}
	}
	sort.Strings(out)
	return out
}

// SwitchMap: the (single) switch over the enum in f, as a map from each case constant to the one
// constant the clause assigns or returns.  A clause that produces no constant or more than one
// maps to "".
func (f *Fn) SwitchMap(typeRef string) (map[string]string, string) {
	sws := f.EnumSwitches(typeRef)
	if len(sws) != 1 {
		return nil, fmt.Sprintf("%d switches over %s in %s, exactly 1 confirmed by reading", len(sws), typeRef, f.Name)
	}
	out := map[string]string{}
	for name, cl := range sws[0].Clauses {
		found := map[string]bool{}
		for _, st := range cl.Body {
			ast.Inspect(st, func(x ast.Node) bool {
				var rhs []ast.Expr
				switch s := x.(type) {
				case *ast.AssignStmt:
					rhs = s.Rhs
				case *ast.ReturnStmt:
					rhs = s.Results
				}
				for _, r := range rhs {
					if c := constOf(f.Info, r); c != nil {
						found[c.Name()] = true
					}
				}
				return true
			})
		}
		if len(found) == 1 {
			out[name] = SortedKeys(found)[0]
		} else {
			out[name] = ""
		}
	}
	return out, ""
}

// InverseSwitches: aRef translates enum aType to enum bType with a switch, bRef translates back;
// both cover every constant of their input type (except the listed ones) and bRef∘aRef is the
// identity on constant names.
func (c *Ctx) InverseSwitches(rule, aRef, aType, bRef, bType string, except map[string]string) bool {
	a, b := c.Fn(aRef), c.Fn(bRef)
	what := fmt.Sprintf("the %s→%s table of %s and the %s→%s table of %s are inverse bijections", short(aType), short(bType), short(aRef), short(bType), short(aType), short(bRef))
	am, why := a.SwitchMap(aType)
	if am == nil {
		c.Fail(rule, aRef, what, c.P.Pos(a.Body.Pos()), why)
		return false
	}
	bm, why := b.SwitchMap(bType)
	if bm == nil {
		c.Fail(rule, bRef, what, c.P.Pos(b.Body.Pos()), why)
		return false
	}
	var bad []string
	for _, k := range c.P.EnumConsts(aType) {
		if _, ex := except[k.Name()]; ex {
			continue
		}
		v, ok := am[k.Name()]
		switch {
		case !ok:
			bad = append(bad, short(aRef)+" has no case for "+k.Name())
		case v == "":
			bad = append(bad, short(aRef)+" maps "+k.Name()+" to no single constant")
		case bm[v] != k.Name():
			bad = append(bad, fmt.Sprintf("%s maps %s to %s, %s maps %s to %q", short(aRef), k.Name(), v, short(bRef), v, bm[v]))
		}
	}
	for _, k := range c.P.EnumConsts(bType) {
		if _, ex := except[k.Name()]; ex {
			continue
		}
		v, ok := bm[k.Name()]
		switch {
		case !ok:
			bad = append(bad, short(bRef)+" has no case for "+k.Name())
		case v == "":
			bad = append(bad, short(bRef)+" maps "+k.Name()+" to no single constant")
		case am[v] != k.Name():
			bad = append(bad, fmt.Sprintf("%s maps %s to %s, %s maps %s to %q", short(bRef), k.Name(), v, short(aRef), v, am[v]))
		}
	}
	if len(bad) > 0 {
		sort.Strings(bad)
		c.Fail(rule, aRef, what, c.P.Pos(a.Body.Pos()), strings.Join(bad, "; "))
		return false
	}
	c.Pass(rule, aRef, what, fmt.Sprintf("%d↔%d constants", len(am), len(bm)))
	return true
}

// MapLitEntries returns, for the composite literal that initialises the package-level map variable ref,
// the value expression per constant/string key, together with the package that holds the literal.
func (p *Prog) MapLitEntries(ref string) (map[string]ast.Expr, *packages.Package) {
	obj := p.Global(ref)
	for _, pk := range p.Pkgs {
		if pk.Types != obj.Pkg() {
			continue
		}
		for _, file := range pk.Syntax {
			for _, d := range file.Decls {
				gd, ok := d.(*ast.GenDecl)
				if !ok {
					continue
				}
				for _, sp := range gd.Specs {
					vs, ok := sp.(*ast.ValueSpec)
					if !ok {
						continue
					}
					for i, id := range vs.Names {
						if pk.TypesInfo.Defs[id] != obj || i >= len(vs.Values) {
							continue
						}
						cl, ok := ast.Unparen(vs.Values[i]).(*ast.CompositeLit)
						if !ok {
							undecided("%s is not initialised by a composite literal", ref)
						}
						out := map[string]ast.Expr{}
						for _, el := range cl.Elts {
							kv, ok := el.(*ast.KeyValueExpr)
							if !ok {
								continue
							}
							key := types.ExprString(kv.Key)
							if c := constOf(pk.TypesInfo, kv.Key); c != nil {
								key = c.Name()
							} else if tv, ok := pk.TypesInfo.Types[kv.Key]; ok && tv.Value != nil {
								key = strings.Trim(tv.Value.ExactString(), `"`)
							}
							out[key] = kv.Value
						}
						return out, pk
					}
				}
			}
		}
	}
	undecided("%s: initialiser not found", ref)
	return nil, nil
}
