package eng

import "fmt"

// Unreachable: under the assumptions of f, no occurrence of m can be reached from entry.
func (f *Fn) Unreachable(rule string, m Matcher) bool {
	what := "no path from entry reaches " + m.Desc
	ls := f.Find(m)
	if len(ls) == 0 {
		f.C.Pass(rule, f.Where(), what, "no occurrence at all")
		return true
	}
	if p, t := f.search(nil, ls, nil); p != nil {
		f.C.Fail(rule, f.Where(), what, f.At(*t), fmt.Sprintf("%s at %s is reachable: %s", m.Desc, f.At(*t), f.pathString(p)))
		return false
	}
	f.C.Pass(rule, f.Where(), what, fmt.Sprintf("%d occurrence(s), none reachable", len(ls)))
	return true
}

// Reachable: under the assumptions of f, some occurrence of m can be reached from entry.
func (f *Fn) Reachable(rule string, m Matcher) bool {
	what := "a path from entry reaches " + m.Desc
	ls := f.need(rule, m, what)
	if len(ls) == 0 {
		return false
	}
	if p, _ := f.search(nil, ls, nil); p != nil {
		f.C.Pass(rule, f.Where(), what, f.pathString(p))
		return true
	}
	f.C.Fail(rule, f.Where(), what, f.At(ls[0]), m.Desc+" is not reachable under the assumptions")
	return false
}
