package eng

import (
	"fmt"
	"go/ast"
	"go/types"

	"golang.org/x/tools/go/cfg"
	"sort"
	"strings"
)

// PathExists: there is a CFG path on which an occurrence of b executes after an occurrence of a
// without passing any occurrence of the avoid matchers (a == nil: from function entry).
// Used for independence rules ("the two updates are not mutually exclusive").
func (f *Fn) PathExists(rule string, a *Matcher, b Matcher, avoid ...Matcher) bool {
	from := "entry"
	if a != nil {
		from = a.Desc
	}
	what := "a path " + from + " ⇝ " + b.Desc + " exists"
	var av []Loc
	var avd []string
	for _, m := range avoid {
		av = append(av, f.Find(m)...)
		avd = append(avd, m.Desc)
	}
	if len(avd) > 0 {
		what += " avoiding " + strings.Join(avd, ",")
	}
	bs := f.need(rule, b, what)
	if len(bs) == 0 {
		return false
	}
	if a == nil {
		if p, _ := f.search(nil, bs, av); p != nil {
			f.C.Pass(rule, f.Where(), what, f.pathString(p))
			return true
		}
		f.C.Fail(rule, f.Where(), what, f.At(bs[0]), "no such path from entry")
		return false
	}
	as := f.need(rule, *a, what)
	if len(as) == 0 {
		return false
	}
	for _, al := range as {
		al := al
		if p, _ := f.search(&al, bs, av); p != nil {
			f.C.Pass(rule, f.Where(), what, f.pathString(p))
			return true
		}
	}
	f.C.Fail(rule, f.Where(), what, f.At(as[0]), fmt.Sprintf("%s and %s are mutually exclusive or wrongly ordered: no path from the former to the latter", a.Desc, b.Desc))
	return false
}

// FnOf wraps the graph of a closure or function chosen by the caller.
func (c *Ctx) FnOfSrc(s *FuncSrc) *Fn {
	g := c.P.graphOfSrc(s)
	c.FnsAnalysed[g.Name] = true
	return &Fn{Graph: g, C: c}
}

// AtomicFieldsWrittenIn lists the fields of struct `structRef` with an atomic type that are
// written (Store/Add/Inc/CompareAndSwap…) inside any of the given functions.
func (c *Ctx) AtomicFieldsWrittenIn(structRef string, fnRefs ...string) map[string][]Site {
	named := c.P.Named(structRef)
	st, ok := named.Underlying().(*types.Struct)
	if !ok {
		undecided("%s is not a struct", structRef)
	}
	in := map[string]bool{}
	for _, r := range fnRefs {
		in[FuncName(c.P.Func(r))] = true
	}
	out := map[string][]Site{}
	ix := c.P.Index()
	for i := 0; i < st.NumFields(); i++ {
		fld := st.Field(i)
		for _, s := range ix.FieldSites(fld, "atomic-write") {
			if in[s.InName] {
				out[fld.Name()] = append(out[fld.Name()], s)
			}
		}
	}
	return out
}

// SortedSiteFuncs lists the functions of sites.
func SortedSiteFuncs(sites []Site) []string {
	m := map[string]bool{}
	for _, s := range sites {
		m[s.InName] = true
	}
	ks := SortedKeys(m)
	sort.Strings(ks)
	return ks
}

// IncVar matches `name++`, `name += …` on a local variable.
func IncVar(name string) Matcher {
	return Matcher{Desc: name + "++/+=", F: func(g *Graph, n ast.Node, _ Mode) bool {
		switch s := n.(type) {
		case *ast.IncDecStmt:
			return exprIsVarNamed(g.Info, s.X, name)
		case *ast.AssignStmt:
			if s.Tok.String() == "+=" && len(s.Lhs) == 1 {
				return exprIsVarNamed(g.Info, s.Lhs[0], name)
			}
		}
		return false
	}}
}

// ArgTextEq: predicate for WithArg.
func ArgTextEq(text string) func(*Graph, ast.Expr) bool { return ExprText(text) }

// CallArgsText returns the printed arguments of a call location.
func CallArgsText(l Loc) []string {
	call, ok := l.Node.(*ast.CallExpr)
	if !ok {
		return nil
	}
	var out []string
	for _, a := range call.Args {
		out = append(out, types.ExprString(a))
	}
	return out
}

// AstEvery: every AST node of the function body (closures included) selected by sel satisfies
// pred; at least min nodes must be selected.  For constructs that are not CFG nodes (range and
// if statements, composite literals inside larger expressions).
func (f *Fn) AstEvery(rule, selDesc string, sel func(n ast.Node) bool, predDesc string, pred func(n ast.Node) bool, min int) bool {
	what := "every " + selDesc + " " + predDesc
	n := 0
	ok := true
	ast.Inspect(f.Body, func(x ast.Node) bool {
		if x == nil || !ok {
			return ok
		}
		if sel(x) {
			n++
			if !pred(x) {
				f.C.Fail(rule, f.Where(), what, f.P.Pos(x.Pos()), selDesc+" at "+f.P.Pos(x.Pos())+" is not one that "+predDesc)
				ok = false
			}
		}
		return true
	})
	if !ok {
		return false
	}
	if n < min {
		f.C.Fail(rule, f.Where(), what, f.P.Pos(f.Body.Pos()), fmt.Sprintf("%d occurrence(s) of %s in %s, %d confirmed by reading (rule instance vanished)", n, selDesc, f.Name, min))
		return false
	}
	f.C.Pass(rule, f.Where(), what, fmt.Sprintf("%d occurrence(s)", n))
	return true
}

// RangeLoopWith selects range statements whose body contains a match of m.
func (f *Fn) RangeLoopWith(m Matcher) func(ast.Node) bool {
	return func(n ast.Node) bool {
		rs, ok := n.(*ast.RangeStmt)
		return ok && f.Graph.Contains(rs.Body, m)
	}
}

// PassesBetween: every CFG path from an occurrence of a to an occurrence of b passes an
// occurrence of mid (no requirement that a dominates b).
func (f *Fn) PassesBetween(rule string, a, mid, b Matcher) bool {
	what := "every path " + a.Desc + " ⇝ " + b.Desc + " passes " + mid.Desc
	as := f.need(rule, a, what)
	ms := f.need(rule, mid, what)
	bs := f.need(rule, b, what)
	if len(as) == 0 || len(ms) == 0 || len(bs) == 0 {
		return false
	}
	for _, al := range as {
		al := al
		if p, t := f.search(&al, bs, ms); p != nil {
			f.C.Fail(rule, f.Where(), what, f.At(*t), fmt.Sprintf("from %s at %s, %s at %s is reachable without %s: %s", a.Desc, f.At(al), b.Desc, f.At(*t), mid.Desc, f.pathString(p)))
			return false
		}
	}
	f.C.Pass(rule, f.Where(), what, fmt.Sprintf("%d×A %d×M %d×B", len(as), len(ms), len(bs)))
	return true
}

// ReadVar matches a read of the local variable / parameter with that name (an identifier use
// that is not the target of an assignment, definition, ++/-- or &x).
func ReadVar(name string) Matcher {
	writes := map[*Graph]map[*ast.Ident]bool{}
	return Matcher{Desc: "read " + name, F: func(g *Graph, n ast.Node, _ Mode) bool {
		id, ok := n.(*ast.Ident)
		if !ok || id.Name != name {
			return false
		}
		if _, isVar := g.Info.Uses[id].(*types.Var); !isVar {
			return false
		}
		w := writes[g]
		if w == nil {
			w = map[*ast.Ident]bool{}
			ast.Inspect(g.Body, func(x ast.Node) bool {
				switch s := x.(type) {
				case *ast.AssignStmt:
					for _, l := range s.Lhs {
						if li, ok := l.(*ast.Ident); ok {
							w[li] = true
						}
					}
				case *ast.IncDecStmt:
					if li, ok := s.X.(*ast.Ident); ok {
						w[li] = true
					}
				}
				return true
			})
			writes[g] = w
		}
		return !w[id]
	}}
}

// CondTest matches a branch condition (the expression ending a CFG block with two successors)
// whose printed text contains every given substring.
func CondTest(substrs ...string) Matcher {
	return Matcher{Desc: "test of `" + strings.Join(substrs, "`,`") + "`", F: func(g *Graph, n ast.Node, _ Mode) bool {
		e, ok := n.(ast.Expr)
		if !ok {
			return false
		}
		isCond := false
		for _, b := range g.live {
			if condOf(b) == e {
				isCond = true
				break
			}
		}
		if !isCond {
			return false
		}
		t := types.ExprString(e)
		for _, s := range substrs {
			if !strings.Contains(t, s) {
				return false
			}
		}
		return true
	}}
}

// LoopHeads returns the loop-header blocks (as locations) of `for … range X` statements whose X
// prints as text: every new iteration passes through one of them.
func (f *Fn) LoopHeads(text string) []Loc {
	var out []Loc
	for _, b := range f.live {
		if b.Kind != cfg.KindRangeLoop {
			continue
		}
		if rs, ok := b.Stmt.(*ast.RangeStmt); ok && types.ExprString(rs.X) == text {
			out = append(out, Loc{Blk: b, Idx: -1, Seq: -1, Node: rs})
		}
	}
	return out
}

// NoPathAvoid: no CFG path on which b runs after a without passing one of the avoid locations in
// between (used to confine a no-path rule to one loop iteration: avoid = the loop head).
func (f *Fn) NoPathAvoid(rule string, a, b Matcher, avoidDesc string, av []Loc) bool {
	what := "no path " + a.Desc + " ⇝ " + b.Desc + " within one " + avoidDesc
	as := f.need(rule, a, what)
	bs := f.need(rule, b, what)
	if len(as) == 0 || len(bs) == 0 {
		return false
	}
	if len(av) == 0 {
		f.C.Fail(rule, f.Where(), what, f.P.Pos(f.Body.Pos()), "no "+avoidDesc+" found (rule instance vanished)")
		return false
	}
	for _, al := range as {
		al := al
		if p, t := f.search(&al, bs, av); p != nil {
			f.C.Fail(rule, f.Where(), what, f.At(*t), fmt.Sprintf("%s at %s can be followed by %s at %s: %s", a.Desc, f.At(al), b.Desc, f.At(*t), f.pathString(p)))
			return false
		}
	}
	f.C.Pass(rule, f.Where(), what, fmt.Sprintf("%d×%d pairs", len(as), len(bs)))
	return true
}

// AssignsAllFields: function fnRef (a reset / re-initialisation method) assigns every field of
// struct structRef through its receiver, except the listed ones (name → reason).  A field that is
// left out keeps the value of the previous use.
func (c *Ctx) AssignsAllFields(rule, fnRef, structRef string, except map[string]string) bool {
	f := c.Fn(fnRef)
	st, ok := c.P.Named(structRef).Underlying().(*types.Struct)
	if !ok {
		undecided("%s is not a struct", structRef)
	}
	assigned := map[string]bool{}
	ast.Inspect(f.Body, func(x ast.Node) bool {
		as, ok := x.(*ast.AssignStmt)
		if !ok {
			return true
		}
		for _, l := range as.Lhs {
			if se, ok := ast.Unparen(l).(*ast.SelectorExpr); ok {
				if sel := f.Info.Selections[se]; sel != nil {
					if v, ok := sel.Obj().(*types.Var); ok && v.IsField() {
						assigned[v.Name()] = true
					}
				}
			}
		}
		return true
	})
	var missing []string
	for i := 0; i < st.NumFields(); i++ {
		n := st.Field(i).Name()
		if _, ex := except[n]; !ex && !assigned[n] {
			missing = append(missing, n)
		}
	}
	what := short(fnRef) + " assigns every field of " + short(structRef)
	if len(missing) > 0 {
		c.Fail(rule, fnRef, what, c.P.Pos(f.Body.Pos()), "not re-initialised (keeps the value of the previous use): "+strings.Join(missing, ", "))
		return false
	}
	c.Pass(rule, fnRef, what, fmt.Sprintf("%d fields", st.NumFields()))
	return true
}

// ConsumedBefore: after every occurrence of a, an occurrence of b happens before the next
// occurrence of stop and before the function exits ("what a produced is consumed before it is
// overwritten or dropped").
func (f *Fn) ConsumedBefore(rule string, a, b, stop Matcher) bool {
	what := "after " + a.Desc + ", " + b.Desc + " happens before the next " + stop.Desc + " and before exit"
	as := f.need(rule, a, what)
	bs := f.need(rule, b, what)
	if len(as) == 0 || len(bs) == 0 {
		return false
	}
	targets := append([]Loc{}, f.Find(stop)...)
	for _, e := range f.Exits() {
		targets = append(targets, e.Loc)
	}
	for _, al := range as {
		al := al
		if p, t := f.search(&al, targets, bs); p != nil {
			f.C.Fail(rule, f.Where(), what, f.At(al), fmt.Sprintf("from %s at %s, %s is reached without %s: %s", a.Desc, f.At(al), f.At(*t), b.Desc, f.pathString(p)))
			return false
		}
	}
	f.C.Pass(rule, f.Where(), what, fmt.Sprintf("%d×A %d×B", len(as), len(bs)))
	return true
}

// FnByName returns the analysed function whose FuncName is name (nil if it is not a declared module function).
func (c *Ctx) FnByName(name string) *Fn {
	for _, fs := range c.P.AllFuncs() {
		if FuncName(fs.Obj) == name {
			return c.FnOfSrc(fs)
		}
	}
	return nil
}

// MustPassBefore: every path from the function entry to an occurrence of target passes an occurrence of via
// first ("what target hands out was produced on the way").  One obligation per target occurrence.
func (f *Fn) MustPassBefore(rule string, target, via Matcher) bool {
	ts := f.need(rule, target, "every path to "+target.Desc+" passes "+via.Desc)
	if len(ts) == 0 {
		return false
	}
	vs := f.Find(via)
	ok := true
	for i, t := range ts {
		what := fmt.Sprintf("every path from entry to %s #%d passes %s", target.Desc, i+1, via.Desc)
		if p, _ := f.search(nil, []Loc{t}, vs); p != nil {
			f.C.Fail(rule, f.Where(), what, f.At(t), "reached without it: "+f.pathString(p))
			ok = false
		} else {
			f.C.Pass(rule, f.Where(), what, fmt.Sprintf("%d producing sites", len(vs)))
		}
	}
	return ok
}
