package eng

import (
	"fmt"
	"go/ast"
	"go/printer"
	"go/token"
	"regexp"
	"strings"
)

// Engine E6 (structural form): two sibling functions — near-copies that implement the same
// step for two sample types / API versions — have the same body after a declared renaming, except
// for a declared set of differing lines.  The bodies are printed from the syntax tree (formatting
// and comments do not matter), the renaming is applied to both, and the two line sequences are
// aligned with a longest-common-subsequence diff; every unmatched line must be covered by an
// allowed difference.  A control-flow change made to one sibling only (a dropped re-check, a
// moved update, a new early exit) shows up as unmatched lines.

// SiblingDiff is an allowed difference: a line of the first and/or the second function (after
// renaming); an empty side means the line exists only on the other side.
type SiblingDiff struct {
	A, B, Why string
	Must      bool // the difference is essential: its absence (both siblings agree there) is a failure
}

func printBody(n ast.Node) []string {
	var sb strings.Builder
	_ = printer.Fprint(&sb, token.NewFileSet(), n)
	var out []string
	for _, l := range strings.Split(sb.String(), "\n") {
		l = strings.TrimSpace(l)
		if l != "" {
			out = append(out, l)
		}
	}
	return out
}

// SiblingsEqual records the obligation for one pair.  renames are regular expressions applied to
// every printed line of both functions (pattern → replacement), in order.
func (c *Ctx) SiblingsEqual(rule, aRef, bRef string, renames [][2]string, allowed []SiblingDiff) bool {
	fa, fb := c.P.Src(aRef), c.P.Src(bRef)
	c.FnsAnalysed[FuncName(fa.Obj)] = true
	c.FnsAnalysed[FuncName(fb.Obj)] = true
	norm := func(ls []string) []string {
		out := make([]string, len(ls))
		for i, l := range ls {
			for _, r := range renames {
				l = regexp.MustCompile(r[0]).ReplaceAllString(l, r[1])
			}
			out[i] = l
		}
		return out
	}
	a, b := norm(printBody(fa.Decl.Body)), norm(printBody(fb.Decl.Body))
	// LCS
	n, m := len(a), len(b)
	dp := make([][]int, n+1)
	for i := range dp {
		dp[i] = make([]int, m+1)
	}
	for i := n - 1; i >= 0; i-- {
		for j := m - 1; j >= 0; j-- {
			if a[i] == b[j] {
				dp[i][j] = dp[i+1][j+1] + 1
			} else if dp[i+1][j] >= dp[i][j+1] {
				dp[i][j] = dp[i+1][j]
			} else {
				dp[i][j] = dp[i][j+1]
			}
		}
	}
	var onlyA, onlyB []string
	i, j := 0, 0
	for i < n && j < m {
		switch {
		case a[i] == b[j]:
			i++
			j++
		case dp[i+1][j] >= dp[i][j+1]:
			onlyA = append(onlyA, a[i])
			i++
		default:
			onlyB = append(onlyB, b[j])
			j++
		}
	}
	onlyA = append(onlyA, a[i:]...)
	onlyB = append(onlyB, b[j:]...)
	// consume allowed differences
	useA, useB := map[int]bool{}, map[int]bool{}
	var missingMust []string
	for _, d := range allowed {
		ia, ib := -1, -1
		for k, l := range onlyA {
			if !useA[k] && l == d.A {
				ia = k
				break
			}
		}
		for k, l := range onlyB {
			if !useB[k] && l == d.B {
				ib = k
				break
			}
		}
		if (d.A == "" || ia >= 0) && (d.B == "" || ib >= 0) {
			if ia >= 0 {
				useA[ia] = true
			}
			if ib >= 0 {
				useB[ib] = true
			}
		} else if d.Must {
			missingMust = append(missingMust, "the siblings no longer differ as they must (`"+d.A+"` vs `"+d.B+"`: "+d.Why+")")
		}
	}
	var bad []string
	bad = append(bad, missingMust...)
	for k, l := range onlyA {
		if !useA[k] {
			bad = append(bad, "only in "+short(aRef)+": `"+l+"`")
		}
	}
	for k, l := range onlyB {
		if !useB[k] {
			bad = append(bad, "only in "+short(bRef)+": `"+l+"`")
		}
	}
	what := short(aRef) + " and " + short(bRef) + " have the same body after renaming, up to the declared differences"
	if len(bad) > 0 {
		c.Fail(rule, aRef+" ~ "+bRef, what, c.P.Pos(fa.Decl.Pos()), strings.Join(bad, "; "))
		return false
	}
	if dp[0][0] < 5 {
		c.Fail(rule, aRef+" ~ "+bRef, what, c.P.Pos(fa.Decl.Pos()), "fewer than 5 common lines: not siblings any more")
		return false
	}
	c.Pass(rule, aRef+" ~ "+bRef, what, fmt.Sprintf("%d/%d lines, %d common, %d declared differences", n, m, dp[0][0], len(allowed)))
	return true
}

// SiblingDelta prints the unmatched lines of a pair (development aid).
func (c *Ctx) SiblingDelta(aRef, bRef string, renames [][2]string) string {
	cc := NewCtx(c.P, c.Prop, c.Tier)
	cc.SiblingsEqual("x", aRef, bRef, renames, nil)
	for _, o := range cc.Obls {
		return o.Detail
	}
	return ""
}
