package eng

import (
	"fmt"
	"go/ast"
	"go/token"
	"go/types"
	"sort"
	"strings"

	"golang.org/x/tools/go/packages"
	"golang.org/x/tools/go/types/typeutil"
)

// Site is a reference to a function or field from inside a module function.
type Site struct {
	In     *types.Func // enclosing declared function (nil: package-level initialiser)
	InName string
	Pkg    *packages.Package
	Node   ast.Node
	Kind   string // call | methodvalue | funcvalue | iface-call | store | incdec | addr | atomic-write | lit-key | read
}

// Index is a module-wide index of call sites and field uses, built from typed syntax.
type Index struct {
	p        *Prog
	calls    map[*types.Func][]Site // static calls and value references, keyed by Origin()
	ifaceUse map[string][]Site      // interface method calls keyed by method name
	fields   map[*types.Var][]Site  // field uses keyed by Origin()
	NumCalls int
}

func (p *Prog) Index() *Index {
	if p.idx != nil {
		return p.idx
	}
	ix := &Index{p: p, calls: map[*types.Func][]Site{}, ifaceUse: map[string][]Site{}, fields: map[*types.Var][]Site{}}
	for _, pk := range p.Pkgs {
		for _, file := range pk.Syntax {
			for _, d := range file.Decls {
				switch d := d.(type) {
				case *ast.FuncDecl:
					if d.Body == nil {
						continue
					}
					obj, _ := pk.TypesInfo.Defs[d.Name].(*types.Func)
					ix.scan(pk, obj, d.Body)
				case *ast.GenDecl:
					ix.scan(pk, nil, d)
				}
			}
		}
	}
	p.idx = ix
	return ix
}

var atomicWriteMethods = map[string]bool{"Store": true, "Add": true, "Inc": true, "Dec": true, "Sub": true, "Swap": true, "CompareAndSwap": true, "CAS": true, "Toggle": true, "And": true, "Or": true}

func (ix *Index) scan(pk *packages.Package, in *types.Func, root ast.Node) {
	info := pk.TypesInfo
	name := "<init " + strings.TrimPrefix(pk.PkgPath, ModPath+"/") + ">"
	if in != nil {
		name = FuncName(in)
	}
	mk := func(n ast.Node, kind string) Site { return Site{In: in, InName: name, Pkg: pk, Node: n, Kind: kind} }
	written := map[ast.Expr]string{} // selector exprs that are store targets
	callFun := map[ast.Expr]bool{}
	markStore := func(e ast.Expr, kind string) {
		e = ast.Unparen(e)
		// a store to x.f[i] or x.f.g writes through f as well: record the innermost selectors
		for {
			switch x := e.(type) {
			case *ast.IndexExpr:
				e = ast.Unparen(x.X)
				if s, ok := e.(*ast.SelectorExpr); ok {
					written[s] = kind + "-elem"
				}
				continue
			case *ast.StarExpr:
				e = ast.Unparen(x.X)
				continue
			}
			break
		}
		if s, ok := e.(*ast.SelectorExpr); ok {
			if _, dup := written[s]; !dup || !strings.HasSuffix(kind, "-elem") {
				if written[s] == "" || !strings.HasSuffix(written[s], "-elem") {
					written[s] = kind
				}
			}
		}
	}
	ast.Inspect(root, func(n ast.Node) bool {
		switch x := n.(type) {
		case *ast.AssignStmt:
			for _, l := range x.Lhs {
				markStore(l, "store")
			}
		case *ast.IncDecStmt:
			markStore(x.X, "incdec")
		case *ast.UnaryExpr:
			if x.Op == token.AND {
				if s, ok := ast.Unparen(x.X).(*ast.SelectorExpr); ok {
					written[s] = "addr"
				}
			}
		case *ast.RangeStmt:
			if x.Key != nil {
				markStore(x.Key, "store")
			}
			if x.Value != nil {
				markStore(x.Value, "store")
			}
		case *ast.CallExpr:
			ix.NumCalls++
			callFun[ast.Unparen(x.Fun)] = true
			obj := typeutil.Callee(info, x)
			if f, ok := obj.(*types.Func); ok {
				f = f.Origin()
				kind := "call"
				if sig, ok := f.Type().(*types.Signature); ok && sig.Recv() != nil {
					if types.IsInterface(sig.Recv().Type()) {
						kind = "iface-call"
						ix.ifaceUse[f.Name()] = append(ix.ifaceUse[f.Name()], mk(x, kind))
					}
				}
				ix.calls[f] = append(ix.calls[f], mk(x, kind))
				// atomic write through a field: x.f.Store(..)
				if s, ok := ast.Unparen(x.Fun).(*ast.SelectorExpr); ok && atomicWriteMethods[s.Sel.Name] {
					if rs, ok := ast.Unparen(s.X).(*ast.SelectorExpr); ok && isAtomicType(info.TypeOf(rs)) {
						written[rs] = "atomic-write"
					}
				}
				// builtin append/delete/clear/copy on a field are handled below
			}
			if b, ok := obj.(*types.Builtin); ok && len(x.Args) > 0 {
				switch b.Name() {
				case "delete", "clear", "copy":
					if s, ok := ast.Unparen(x.Args[0]).(*ast.SelectorExpr); ok {
						written[s] = "store-elem"
					}
				}
			}
		case *ast.CompositeLit:
			for _, el := range x.Elts {
				if kv, ok := el.(*ast.KeyValueExpr); ok {
					if id, ok := kv.Key.(*ast.Ident); ok {
						if v, ok := info.Uses[id].(*types.Var); ok && v.IsField() {
							ix.fields[v.Origin()] = append(ix.fields[v.Origin()], mk(kv, "lit-key"))
						}
					}
				}
			}
		}
		return true
	})
	ast.Inspect(root, func(n ast.Node) bool {
		switch x := n.(type) {
		case *ast.SelectorExpr:
			if sel := info.Selections[x]; sel != nil {
				switch o := sel.Obj().(type) {
				case *types.Var:
					kind := "read"
					if k, ok := written[x]; ok {
						kind = k
					}
					ix.fields[o.Origin()] = append(ix.fields[o.Origin()], mk(x, kind))
				case *types.Func:
					if !callFun[x] {
						ix.calls[o.Origin()] = append(ix.calls[o.Origin()], mk(x, "methodvalue"))
					}
				}
			} else if f, ok := info.Uses[x.Sel].(*types.Func); ok && !callFun[x] {
				ix.calls[f.Origin()] = append(ix.calls[f.Origin()], mk(x, "funcvalue"))
			}
		case *ast.Ident:
			if f, ok := info.Uses[x].(*types.Func); ok && !callFun[x] {
				// plain identifier used as a value (not the Sel of a selector: handled above)
				ix.calls[f.Origin()] = append(ix.calls[f.Origin()], mk(x, "funcvalue"))
			}
		}
		return true
	})
}

func isAtomicType(t types.Type) bool {
	if t == nil {
		return false
	}
	if p, ok := t.(*types.Pointer); ok {
		t = p.Elem()
	}
	n, ok := types.Unalias(t).(*types.Named)
	if !ok || n.Obj().Pkg() == nil {
		return false
	}
	pp := n.Obj().Pkg().Path()
	return pp == "sync/atomic" || pp == "go.uber.org/atomic"
}

// CallersOf lists the sites that call or take the value of f, including calls through
// an interface method that f's receiver type implements.
func (ix *Index) CallersOf(f *types.Func) []Site {
	f = f.Origin()
	out := append([]Site{}, dedupSelIdent(ix.calls[f])...)
	sig := f.Type().(*types.Signature)
	if sig.Recv() != nil && !types.IsInterface(sig.Recv().Type()) {
		rt := sig.Recv().Type()
		for _, s := range ix.ifaceUse[f.Name()] {
			call := s.Node.(*ast.CallExpr)
			im, _ := typeutil.Callee(s.Pkg.TypesInfo, call).(*types.Func)
			if im == nil {
				continue
			}
			it, _ := im.Type().(*types.Signature).Recv().Type().Underlying().(*types.Interface)
			if it == nil {
				continue
			}
			if types.Implements(rt, it) || types.Implements(types.NewPointer(derefT(rt)), it) {
				s.Kind = "iface-call"
				out = append(out, s)
			}
		}
	}
	return out
}

func derefT(t types.Type) types.Type {
	if p, ok := t.(*types.Pointer); ok {
		return p.Elem()
	}
	return t
}

// dedupSelIdent removes the duplicate "funcvalue" record produced for the Sel identifier
// of a selector that was already recorded.
func dedupSelIdent(in []Site) []Site {
	var out []Site
	ends := map[token.Pos]bool{}
	for _, s := range in {
		if se, ok := s.Node.(*ast.SelectorExpr); ok {
			ends[se.Sel.Pos()] = true
		}
		if c, ok := s.Node.(*ast.CallExpr); ok {
			switch f := ast.Unparen(c.Fun).(type) {
			case *ast.SelectorExpr:
				ends[f.Sel.Pos()] = true
			case *ast.Ident:
				ends[f.Pos()] = true
			}
		}
	}
	for _, s := range in {
		if id, ok := s.Node.(*ast.Ident); ok && ends[id.Pos()] {
			continue
		}
		out = append(out, s)
	}
	return out
}

// FieldSites lists uses of a field; kinds filters (nil = all).
func (ix *Index) FieldSites(v *types.Var, kinds ...string) []Site {
	var out []Site
	for _, s := range ix.fields[v.Origin()] {
		if len(kinds) == 0 {
			out = append(out, s)
			continue
		}
		for _, k := range kinds {
			if s.Kind == k {
				out = append(out, s)
			}
		}
	}
	return out
}

var WriteKinds = []string{"store", "incdec", "addr", "atomic-write", "store-elem", "incdec-elem", "lit-key"}

// ---- rules ----

func siteFuncs(sites []Site) []string {
	m := map[string]bool{}
	for _, s := range sites {
		m[s.InName] = true
	}
	return SortedKeys(m)
}

// CallersSubset: every site calling (or taking the value of) fn lies in one of the allowed functions.
// min is the number of call sites confirmed by reading; fewer is a vanished instance.
func (c *Ctx) CallersSubset(rule, fnRef string, min int, allowed ...string) bool {
	f := c.P.Func(fnRef)
	allow := map[string]bool{}
	for _, a := range allowed {
		allow[FuncName(c.P.Func(a))] = true
	}
	sites := c.P.Index().CallersOf(f)
	c.CallSites += len(sites)
	what := "callers(" + short(fnRef) + ") ⊆ {" + strings.Join(shorts(allowed), ", ") + "}"
	ok := true
	for _, s := range sites {
		if !allow[s.InName] {
			c.Fail(rule, fnRef, what, c.P.Pos(s.Node.Pos()), fmt.Sprintf("%s of %s from %s, which is not in the allow-list", s.Kind, fnRef, s.InName))
			ok = false
		}
	}
	if len(sites) < min {
		c.Fail(rule, fnRef, what, "", fmt.Sprintf("only %d call site(s) found, %d confirmed by reading: instance vanished", len(sites), min))
		ok = false
	}
	if ok {
		c.Pass(rule, fnRef, what, fmt.Sprintf("%d site(s) in %s", len(sites), strings.Join(siteFuncs(sites), ", ")))
	}
	return ok
}

func shorts(refs []string) []string {
	var out []string
	for _, r := range refs {
		out = append(out, short(r))
	}
	return out
}

// WritersSubset: every write to the field (store, ++/--, address-taken, atomic write,
// element store, composite-literal key) lies in one of the allowed functions.
func (c *Ctx) WritersSubset(rule, fieldRef string, min int, allowed ...string) bool {
	v := c.P.Field(fieldRef)
	allow := map[string]bool{}
	for _, a := range allowed {
		allow[FuncName(c.P.Func(a))] = true
	}
	sites := c.P.Index().FieldSites(v, WriteKinds...)
	c.CallSites += len(sites)
	what := "writers(" + short(fieldRef) + ") ⊆ {" + strings.Join(shorts(allowed), ", ") + "}"
	ok := true
	for _, s := range sites {
		if !allow[s.InName] {
			c.Fail(rule, fieldRef, what, c.P.Pos(s.Node.Pos()), fmt.Sprintf("%s of %s in %s, which is not in the allow-list", s.Kind, fieldRef, s.InName))
			ok = false
		}
	}
	if len(sites) < min {
		c.Fail(rule, fieldRef, what, "", fmt.Sprintf("only %d write site(s) found, %d confirmed by reading: instance vanished", len(sites), min))
		ok = false
	}
	if ok {
		c.Pass(rule, fieldRef, what, fmt.Sprintf("%d write site(s) in %s", len(sites), strings.Join(siteFuncs(sites), ", ")))
	}
	return ok
}

// ---- module-internal call graph on typed syntax (CHA for interfaces, restricted to module types) ----

type CallGraph struct {
	p     *Prog
	edges map[*types.Func][]cgEdge
}

type cgEdge struct {
	to   *types.Func
	pos  token.Pos
	kind string
}

// CallGraph builds edges F→G for: static calls in F (closures of F belong to F), values of
// functions/methods taken in F (they may be called later by whoever receives them: attributed
// to F), and interface method calls resolved to every module type that implements the interface.
func (p *Prog) CallGraph() *CallGraph {
	ix := p.Index()
	cg := &CallGraph{p: p, edges: map[*types.Func][]cgEdge{}}
	// concrete module methods by name for interface resolution
	byName := map[string][]*types.Func{}
	for f := range p.fns {
		if sig := f.Type().(*types.Signature); sig.Recv() != nil {
			byName[f.Name()] = append(byName[f.Name()], f)
		}
	}
	for callee, sites := range ix.calls {
		for _, s := range dedupSelIdent(sites) {
			if s.In == nil {
				continue
			}
			from := s.In.Origin()
			sig := callee.Type().(*types.Signature)
			if sig.Recv() != nil && types.IsInterface(sig.Recv().Type()) {
				it := sig.Recv().Type().Underlying().(*types.Interface)
				for _, m := range byName[callee.Name()] {
					rt := m.Type().(*types.Signature).Recv().Type()
					if types.Implements(rt, it) || types.Implements(types.NewPointer(derefT(rt)), it) {
						cg.edges[from] = append(cg.edges[from], cgEdge{m, s.Node.Pos(), "iface"})
					}
				}
				continue
			}
			cg.edges[from] = append(cg.edges[from], cgEdge{callee, s.Node.Pos(), s.Kind})
		}
	}
	return cg
}

// Path finds a module-internal call path from `from` to any of `targets`, not entering
// functions in `cut`.  It returns the chain of function names, or nil.
func (cg *CallGraph) Path(from *types.Func, targets map[*types.Func]bool, cut map[*types.Func]bool) ([]string, int) {
	type item struct {
		f    *types.Func
		prev *item
		pos  token.Pos
	}
	seen := map[*types.Func]bool{from.Origin(): true}
	q := []*item{{f: from.Origin()}}
	for len(q) > 0 {
		it := q[0]
		q = q[1:]
		es := cg.edges[it.f]
		sort.Slice(es, func(i, j int) bool { return es[i].pos < es[j].pos })
		for _, e := range es {
			if seen[e.to] || cut[e.to] {
				continue
			}
			seen[e.to] = true
			ni := &item{f: e.to, prev: it, pos: e.pos}
			if targets[e.to] {
				var chain []string
				for x := ni; x != nil; x = x.prev {
					s := FuncName(x.f)
					if x.pos.IsValid() {
						s += "@" + cg.p.Pos(x.pos)
					}
					chain = append([]string{s}, chain...)
				}
				return chain, len(seen)
			}
			q = append(q, ni)
		}
	}
	return nil, len(seen)
}

// NoReach: no module-internal call path from fn to any target (cut: functions not entered,
// each with a reason recorded by the caller).
func (c *Ctx) NoReach(rule, fromRef string, targetRefs []string, cutRefs ...string) bool {
	cg := c.P.cgCached()
	targets := map[*types.Func]bool{}
	for _, t := range targetRefs {
		targets[c.P.Func(t).Origin()] = true
	}
	cut := map[*types.Func]bool{}
	for _, t := range cutRefs {
		cut[c.P.Func(t).Origin()] = true
	}
	what := "noreach(" + short(fromRef) + " ⇒ {" + strings.Join(shorts(targetRefs), ", ") + "})"
	chain, n := cg.Path(c.P.Func(fromRef), targets, cut)
	if chain != nil {
		c.Fail(rule, fromRef, what, "", "call path: "+strings.Join(chain, " → "))
		return false
	}
	if n < 2 {
		c.Fail(rule, fromRef, what, "", "frontier is empty: the function calls nothing in the module (graph broken?)")
		return false
	}
	c.Pass(rule, fromRef, what, fmt.Sprintf("frontier exhausted after %d module functions", n))
	return true
}

var cgCache = map[*Prog]*CallGraph{}

func (p *Prog) cgCached() *CallGraph {
	if cg := cgCache[p]; cg != nil {
		return cg
	}
	cg := p.CallGraph()
	cgCache[p] = cg
	return cg
}

// Short is the exported form of short().
func Short(ref string) string { return short(ref) }

// ExprIsField reports whether e selects field v.
func ExprIsField(info *types.Info, e ast.Expr, v *types.Var) bool { return exprIsField(info, e, v) }

// Occurrence is a module-wide match of a matcher.
type Occurrence struct {
	In   string
	Node ast.Node
	G    *Graph
}

// FindAll evaluates m over the syntax of every module function (closures included, any mode).
func (p *Prog) FindAll(m Matcher) []Occurrence {
	var out []Occurrence
	for _, fs := range p.AllFuncs() {
		g := &Graph{P: p, Pkg: fs.Pkg, Info: fs.Pkg.TypesInfo, Name: FuncName(fs.Obj), Body: fs.Decl.Body, Decl: fs.Decl}
		ast.Inspect(fs.Decl.Body, func(n ast.Node) bool {
			if n != nil && m.F(g, n, Plain) {
				out = append(out, Occurrence{In: g.Name, Node: n, G: g})
			}
			return true
		})
	}
	return out
}

// OnlyIn: every module-wide occurrence of m lies in one of the allowed functions.
func (c *Ctx) OnlyIn(rule string, m Matcher, min int, allowed ...string) bool {
	allow := map[string]bool{}
	for _, a := range allowed {
		allow[FuncName(c.P.Func(a))] = true
	}
	occ := c.P.FindAll(m)
	c.CallSites += len(occ)
	what := "sites(" + m.Desc + ") ⊆ {" + strings.Join(shorts(allowed), ", ") + "}"
	ok := true
	ins := map[string]bool{}
	for _, o := range occ {
		ins[o.In] = true
		if !allow[o.In] {
			c.Fail(rule, m.Desc, what, c.P.Pos(o.Node.Pos()), fmt.Sprintf("%s occurs in %s, which is not in the allow-list", m.Desc, o.In))
			ok = false
		}
	}
	if len(occ) < min {
		c.Fail(rule, m.Desc, what, "", fmt.Sprintf("only %d site(s) found, %d confirmed by reading: instance vanished", len(occ), min))
		ok = false
	}
	if ok {
		c.Pass(rule, m.Desc, what, fmt.Sprintf("%d site(s) in %s", len(occ), strings.Join(SortedKeys(ins), ", ")))
	}
	return ok
}

// CallersSubsetOfFieldMethod: x.<field>.<method>() occurs only in the allowed functions.
func (c *Ctx) CallersSubsetOfFieldMethod(rule, fieldRef, method string, min int, allowed ...string) bool {
	return c.OnlyIn(rule, c.P.MethodOn(fieldRef, method), min, allowed...)
}
