package eng

import (
	"go/ast"
	"go/types"
	"sort"
	"strings"

	"golang.org/x/tools/go/cfg"
)

// DecisionRow is one path of a loop-free decision function: the branch outcomes on the path and
// the returned expressions.
type DecisionRow struct {
	Conds  []string // "cond=T" / "cond=F" in path order
	Return string
	Pos    string
}

// DecisionTable enumerates every entry→return path of a loop-free function.  normCond maps a
// condition text to its normalised form ("" drops it: a declared sibling-specific leaf);
// normRet normalises the printed return list.  A loop makes the query undecided.
func (f *Fn) DecisionTable(normCond func(string) string, normRet func(string) string) []DecisionRow {
	var rows []DecisionRow
	var walk func(b *cfg.Block, conds []string, onPath map[*cfg.Block]bool)
	walk = func(b *cfg.Block, conds []string, onPath map[*cfg.Block]bool) {
		if onPath[b] {
			undecided("%s: not loop-free, no decision table", f.Name)
		}
		if len(rows) > 512 {
			undecided("%s: more than 512 paths", f.Name)
		}
		onPath[b] = true
		defer delete(onPath, b)
		for _, n := range b.Nodes {
			if rs, ok := n.(*ast.ReturnStmt); ok {
				var parts []string
				for _, r := range rs.Results {
					parts = append(parts, types.ExprString(r))
				}
				rows = append(rows, DecisionRow{Conds: append([]string{}, conds...), Return: normRet(strings.Join(parts, ", ")), Pos: f.P.Pos(rs.Pos())})
				return
			}
		}
		c := condOf(b)
		if c != nil && len(b.Succs) == 2 {
			txt := normCond(types.ExprString(c))
			for i, s := range b.Succs {
				nc := conds
				if txt != "" {
					v := "=T"
					if i == 1 {
						v = "=F"
					}
					nc = append(append([]string{}, conds...), txt+v)
				}
				walk(s, nc, onPath)
			}
			return
		}
		for _, s := range b.Succs {
			walk(s, conds, onPath)
		}
	}
	walk(f.CFG.Blocks[0], nil, map[*cfg.Block]bool{})
	return rows
}

// TableKey renders a table as a sorted, de-duplicated list of "conds → return" lines.
func TableKey(rows []DecisionRow) []string {
	set := map[string]bool{}
	for _, r := range rows {
		set[strings.Join(r.Conds, " ∧ ")+" → "+r.Return] = true
	}
	out := SortedKeys(set)
	sort.Strings(out)
	return out
}
