package main

import (
	"go/ast"
	"strings"

	"promverif/eng"
)

// C06.R9 (finding F74): "maintenance finishes once overlapping queries close" — the range a truncation waits on has
// to cover what it then removes.  WaitForPendingReadersInTimeRange(mint, maxt) takes an exclusive end (it decrements
// maxt before testing for overlap); stripeSeries.gcSeries keeps a series only if series.maxTime() > maxt, i.e. it
// evicts series with samples up to and including maxt.  So in truncateSeries the end passed to the wait is the bound
// passed to gcSeries plus one; in truncateMemory, which removes what lies before the new minimum time, the end
// passed to the wait is that new minimum itself.
func runC06Wait(c *eng.Ctx) {
	p := c.P
	lin := func(f *eng.Fn, e ast.Expr) string {
		l, ok := eng.Linear(f.Info, e)
		if !ok {
			return "?" + nodeText(e)
		}
		return l.String()
	}
	argsOf := func(f *eng.Fn, name string) []ast.Expr {
		var out []ast.Expr
		ast.Inspect(f.Body, func(x ast.Node) bool {
			if call, ok := x.(*ast.CallExpr); ok {
				if sel, ok := call.Fun.(*ast.SelectorExpr); ok && sel.Sel.Name == name && out == nil {
					out = call.Args
				}
			}
			return true
		})
		return out
	}
	// the wait's end is exclusive
	w := c.Fn("tsdb:Head.WaitForPendingReadersInTimeRange")
	excl := false
	if len(w.Body.List) > 0 {
		if id, ok := w.Body.List[0].(*ast.IncDecStmt); ok && nodeText(id.X) == "maxt" && id.Tok.String() == "--" {
			excl = true
		}
	}
	ov := 0
	ast.Inspect(w.Body, func(x ast.Node) bool {
		if be, ok := x.(*ast.BinaryExpr); ok && nodeText(be) == "s.mint <= maxt && mint <= s.maxt" {
			ov++
		}
		return true
	})
	c.Check("R9", w.Where(), "the wait's end is exclusive: maxt is decremented first, then readers with s.mint <= maxt && mint <= s.maxt are waited for", excl && ov == 1, p.Pos(w.Body.Pos()), "")
	// gcSeries evicts up to and including its bound
	gs := c.Fn("tsdb:stripeSeries.gcSeries")
	keep := 0
	ast.Inspect(gs.Body, func(x ast.Node) bool {
		is, ok := x.(*ast.IfStmt)
		if !ok {
			return true
		}
		if s, ok := eng.LinearCmp(gs.Info, is.Cond); ok && strings.Contains(nodeText(is.Cond), "maxTime()") {
			if s == "-1*series.maxTime() +1*maxt < 0" || s == "+1*maxt -1*series.maxTime() < 0" {
				keep++
			} else {
				keep = -100
			}
		}
		return true
	})
	c.Check("R9", gs.Where(), "a series is kept exactly when series.maxTime() > maxt: the eviction bound is inclusive", keep == 1, p.Pos(gs.Body.Pos()), "")
	// truncateSeries: wait end = eviction bound + 1
	ts := c.Fn("tsdb:Head.truncateSeries")
	wa, ga := argsOf(ts, "WaitForPendingReadersInTimeRange"), argsOf(ts, "gcSeries")
	if len(wa) == 2 && len(ga) == 3 {
		we, ge := lin(ts, wa[1]), lin(ts, ga[1])
		c.Check("R9", ts.Where(), "the readers waited for cover what is evicted: the (exclusive) end of the wait is the (inclusive) eviction bound + 1", we == ge+" +1", p.Pos(wa[1].Pos()),
			"wait end "+we+", eviction bound "+ge+" — a querier whose range starts exactly at the bound is still open while its series is evicted and misses the sample at the bound")
		c.Check("R9", ts.Where(), "the wait starts at the head's minimum time", nodeText(wa[0]) == "h.MinTime()", p.Pos(wa[0].Pos()), nodeText(wa[0]))
	} else {
		c.Fail("R9", ts.Where(), "wait and eviction calls found", p.Pos(ts.Body.Pos()), "")
	}
	// truncateMemory: wait end = the new minimum time
	tm := c.Fn("tsdb:Head.truncateMemory")
	wa = argsOf(tm, "WaitForPendingReadersInTimeRange")
	var stored ast.Expr
	ast.Inspect(tm.Body, func(x ast.Node) bool {
		if call, ok := x.(*ast.CallExpr); ok && nodeText(call.Fun) == "h.minTime.Store" && len(call.Args) == 1 {
			stored = call.Args[0]
		}
		return true
	})
	if len(wa) == 2 && stored != nil {
		c.Check("R9", tm.Where(), "the (exclusive) end of the wait is the new minimum time, below which the head's data is removed", lin(tm, wa[1]) == lin(tm, stored), p.Pos(wa[1].Pos()), lin(tm, wa[1])+" vs "+lin(tm, stored))
	} else {
		c.Fail("R9", tm.Where(), "wait and minTime store found", p.Pos(tm.Body.Pos()), "")
	}
}
