package main

import (
	"fmt"
	"go/ast"
	"go/types"
	"strings"

	"promverif/eng"
)

func init() {
	register(&Property{
		ID:        "C41",
		Title:     "The remote-write receiver stores what is valid and reports what it stored",
		Technique: "acquire/release pairing (path counting) and branch-arm rules for the appender in writeHandler.write / writeV2; AST and go/cfg rules for the per-sample loops of appendV2 (a rejected sample neither ends the series nor is counted; counters are incremented only next to a successful append); order rules for label validation before any append (v1/v2 siblings)",
		DesignRef: "DESIGN.md §5 C41",
		Level: "Decides that both protocol handlers commit or roll back their appender exactly once on every path (v1: rollback iff an error is returned; v2: rollback on 5xx, commit otherwise), that the v2 statistics are returned only after a nil-error commit, that in appendV2 a sample, histogram or exemplar rejected with a 4xx-class error is recorded and skipped without ending its series' loop, " +
			"that the written counters are incremented only in the arm where the corresponding append returned nil, that any other append error aborts with 500, and that series with invalid or duplicate label names are rejected before anything of them is appended.",
		Note:           "Trusted: go/packages, go/types, go/cfg; rule tables in checker/c41.go.",
		Covers:         "writeHandler.write, appendV1Samples, appendV1Histograms, writeV2, appendV2.",
		NotCover:       "decoding of the protobuf messages and the symbol table (value-level), which errors the storage returns.",
		Run:            runC41,
		MinObligations: 25,
	})
}

func runC41(c *eng.Ctx) {
	defer runC41Wrapper(c)
	p := c.P
	H := "storage/remote:writeHandler"
	commit, rollback := eng.OnVar("app", "Commit"), eng.OnVar("app", "Rollback")
	// ---- R1 transaction outcome ----
	{
		f := c.Fn(H + ".writeV2")
		f.CountOnPaths("R1", "app.Commit()/app.Rollback()", []eng.Matcher{commit, rollback}, 1, eng.AnyExit)
		f.Only("R1", rollback, "is taken for 5xx errors only", func(l eng.Loc) bool {
			return f.UnderCond(l, "errHTTPCode/5 == 100") || f.UnderCond(l, "errHTTPCode / 5 == 100")
		})
		retStats := eng.Return("s, …", func(g *eng.Graph, rs *ast.ReturnStmt) bool {
			return len(rs.Results) == 3 && eng.ExprString(rs.Results[0]) == "s"
		})
		f.Has("R1", retStats, 2)
		f.Dom("R1", commit, retStats)
		for _, v := range []string{"commitErr != nil", "err != nil"} {
			_ = v
		}
		f.Only("R1", retStats, "follows a commit whose error was tested and found nil", func(l eng.Loc) bool {
			return f.UnderCondArmAfter(l, false, commit, "commitErr != nil") || f.UnderCondArmAfter(l, false, commit, "err != nil")
		})
		f.Only("R1", eng.Return("empty stats", func(g *eng.Graph, rs *ast.ReturnStmt) bool {
			return len(rs.Results) == 3 && strings.HasPrefix(nodeText(rs.Results[0]), "remoteapi.WriteResponseStats{}")
		}), "reports an error", func(l eng.Loc) bool {
			rs := l.Node.(*ast.ReturnStmt)
			return eng.ExprString(rs.Results[2]) != "nil"
		})
		f.Dom("R1", p.Call(H+".appendV2"), commit)

		w := c.Fn(H + ".write")
		w.Has("R1", eng.Deferred(commit), 1)
		cd := w.Closure("commitDefer", commit)
		cd.GivenBranch("err != nil", true).Unreachable("R1", commit)
		cd.GivenBranch("err != nil", false).Unreachable("R1", rollback)
		cd.CountOnPaths("R1", "app.Commit()/app.Rollback()", []eng.Matcher{commit, rollback}, 1, eng.AnyExit)
		w.Dom("R1", eng.Deferred(commit), eng.Or(p.Call(H+".appendV1Samples"), p.Call(H+".appendV1Histograms")))
		w.ErrPropagates("R1", p.Call(H+".appendV1Samples"), 1)
		w.ErrPropagates("R1", p.Call(H+".appendV1Histograms"), 1)
		for _, fn := range []string{".appendV1Samples", ".appendV1Histograms"} {
			g := c.Fn(H + fn)
			g.ErrPropagates("R1", eng.Or(eng.OnVar("app", "Append"), eng.OnVar("app", "AppendHistogram")), 1)
		}
	}
	// ---- R2 appendV2: per-sample outcome ----
	{
		f := c.Fn(H + ".appendV2")
		f.AstEvery("R2", "`break`", func(n ast.Node) bool {
			br, ok := n.(*ast.BranchStmt)
			return ok && br.Tok.String() == "break"
		}, "exists (none may: a rejected sample does not end its series)", func(ast.Node) bool { return false }, 0)
		f.AstEvery("R2", "arm recording a bad-request error", func(n ast.Node) bool {
			b, ok := n.(*ast.BlockStmt)
			if !ok || len(b.List) == 0 {
				return false
			}
			for _, s := range b.List {
				if strings.HasPrefix(nodeText(s), "badRequestErrs = append(badRequestErrs,") {
					return true
				}
			}
			return false
		}, "ends with `continue` (the rest of the request is still processed)", func(n ast.Node) bool {
			b := n.(*ast.BlockStmt).List
			return nodeText(b[len(b)-1]) == "continue"
		}, 8)
		for _, s := range []struct{ counter, call string }{{"Samples", "Append"}, {"Histograms", "AppendHistogram"}, {"Exemplars", "AppendExemplar"}} {
			s := s
			inc := eng.Node("rs."+s.counter+"++", func(g *eng.Graph, n ast.Node) bool { return nodeText(n) == "rs."+s.counter+"++" })
			app := eng.OnVar("app", s.call)
			f.Has("R2", inc, 1)
			f.Only("R2", inc, "lies in the arm where the preceding app."+s.call+" returned nil", func(l eng.Loc) bool {
				return f.UnderCondArmAfter(l, true, app, "err == nil")
			})
			// after a successful append the counter is incremented before the next element
			f.Only("R2", app, "assigns its error to err", func(l eng.Loc) bool {
				as, ok := l.Blk.Nodes[l.Idx].(*ast.AssignStmt)
				return ok && eng.ExprString(as.Lhs[len(as.Lhs)-1]) == "err"
			})
		}
		internal := eng.Return("500", func(g *eng.Graph, rs *ast.ReturnStmt) bool {
			return len(rs.Results) == 3 && eng.ExprString(rs.Results[1]) == "http.StatusInternalServerError"
		})
		f.Has("R2", internal, 2)
		f.Only("R2", internal, "returns the append error", func(l eng.Loc) bool { return eng.ExprString(l.Node.(*ast.ReturnStmt).Results[2]) == "err" })
		// after an append of a sample / histogram, the next element is reached only through the success arm, a recorded 4xx, or not at all (500)
		for _, call := range []string{"Append", "AppendHistogram"} {
			app := eng.OnVar("app", call)
			f.AllPaths("R2", app, eng.Or(eng.CondTest("err == nil")), eng.AnyExit)
		}
	}
	// ---- R3 label validation precedes every append (v1 / v2 siblings) ----
	for _, s := range []struct {
		fn      string
		appends eng.Matcher
	}{
		{H + ".write", eng.Or(p.Call(H+".appendV1Samples"), p.Call(H+".appendV1Histograms"), eng.OnVar("app", "AppendExemplar"))},
		{H + ".appendV2", eng.Or(eng.OnVar("app", "Append"), eng.OnVar("app", "AppendHistogram"), eng.OnVar("app", "AppendExemplar"), eng.OnVar("app", "AppendSTZeroSample"))},
	} {
		f := c.Fn(s.fn)
		valid := eng.CondTest("!ls.Has(labels.MetricName) || !ls.IsValid(model.UTF8Validation)")
		dup := eng.CondTest("hasDuplicate")
		f.Dom("R3", valid, s.appends)
		f.Dom("R3", dup, s.appends)
		f.GivenBranch("!ls.Has(labels.MetricName) || !ls.IsValid(model.UTF8Validation)", true).NoPathAvoid("R3", valid, s.appends, "iteration of `range req.Timeseries`", f.LoopHeads("req.Timeseries"))
		f.GivenBranch("hasDuplicate", true).NoPathAvoid("R3", dup, s.appends, "iteration of `range req.Timeseries`", f.LoopHeads("req.Timeseries"))
	}
	// ---- R4 scratch-builder discipline: a function that assembles a label set in a caller-supplied ScratchBuilder
	// (it calls Add and also Labels or Reset on that parameter) resets the builder before the first Add on every path ----
	{
		type site struct {
			fn  string
			par string
		}
		seen := map[site]bool{}
		for _, o := range p.FindAll(eng.Node("b.Add(…) on a *labels.ScratchBuilder parameter", func(g *eng.Graph, n ast.Node) bool {
			call, ok := n.(*ast.CallExpr)
			if !ok {
				return false
			}
			se, ok := call.Fun.(*ast.SelectorExpr)
			if !ok || se.Sel.Name != "Add" {
				return false
			}
			id, ok := se.X.(*ast.Ident)
			if !ok {
				return false
			}
			v, ok := g.Info.Uses[id].(*types.Var)
			if !ok || g.Decl == nil || g.Decl.Type.Params == nil {
				return false
			}
			isParam := false
			for _, fl := range g.Decl.Type.Params.List {
				for _, nm := range fl.Names {
					if g.Info.Defs[nm] == v {
						isParam = true
					}
				}
			}
			if !isParam {
				return false
			}
			return strings.HasSuffix(v.Type().String(), "model/labels.ScratchBuilder")
		})) {
			id := o.Node.(*ast.CallExpr).Fun.(*ast.SelectorExpr).X.(*ast.Ident)
			seen[site{o.In, id.Name}] = true
		}
		n := 0
		for s := range seen {
			f := c.FnByName(s.fn)
			if f == nil {
				continue
			}
			if len(f.Find(eng.OnVar(s.par, "Labels"))) == 0 && len(f.Find(eng.OnVar(s.par, "Reset"))) == 0 {
				continue // an adder (contributes to a set its caller assembles), not an assembler
			}
			n++
			f.Dom("R4", eng.OnVar(s.par, "Reset"), eng.OnVar(s.par, "Add"))
			f.NoPath("R4", eng.OnVar(s.par, "Add"), eng.OnVar(s.par, "Reset")) // and not again between the adds and Labels()
		}
		c.Check("R4", "module", "label assemblers over a caller-supplied ScratchBuilder found (≥ 3: prompb v1, write v2, index decoder)", n >= 3, "", fmt.Sprint(n))
	}
}
