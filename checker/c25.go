package main

import (
	"promverif/eng"
)

func init() {
	register(&Property{
		ID:        "C25",
		Title:     "Head chunks on disk are readable at once and after restart",
		Technique: "go/cfg order rules for the chunk write path (ref allocation, write, CRC, publication in the read-side buffers); must-hold lockset for the mapper's shared tables; integrity gates shared with C04",
		DesignRef: "DESIGN.md §5 C25",
		Level: "Decides that a head chunk is visible to readers from the moment its reference is handed out: the reference is allocated and the write (direct or queued) is issued in one critical section, " +
			"a queued chunk is registered in the queue's lookup table before the job is pushed and removed only after it was written, a directly written chunk enters the read-side buffer only after its " +
			"bytes and CRC are in the write buffer (and a flush empties both together), Chunk() consults queue, buffer and m-mapped file in that order, and truncation only removes files below the requested sequence.",
		Note:           "Trusted: go/packages, go/cfg; receiver-insensitive lock identification; rule tables in checker/c25.go.",
		Covers:         "ChunkDiskMapper.WriteChunk/writeChunk/writeChunkViaQueue/flushBuffer/Chunk/Truncate/cut; chunkWriteQueue.addJob/processJob/get; lockset of mmappedChunkFiles, closers, chunkRefMap; CRC gate of Chunk and IterateAllChunks.",
		NotCover:       "schedules; byte layout of the chunk record; behaviour at actual crash points.",
		Run:            runC25,
		MinObligations: 25,
	})
}

func runC25(c *eng.Ctx) {
	defer runC25Bounds(c)
	p := c.P
	// ---- R1 allocation and write are one critical section; publication order ----
	{
		f := c.Fn("tsdb/chunks:ChunkDiskMapper.WriteChunk")
		lock := p.MethodOn("tsdb/chunks:ChunkDiskMapper.evtlPosMtx", "Lock")
		f.Dom("R1", lock, p.Call("tsdb/chunks:chunkPos.getNextChunkRef"))
		f.Has("R1", eng.Deferred(p.MethodOn("tsdb/chunks:ChunkDiskMapper.evtlPosMtx", "Unlock")), 1)
		f.Hasnt("R1", p.MethodOn("tsdb/chunks:ChunkDiskMapper.evtlPosMtx", "Unlock")) // held until the write / enqueue is done
		f.Dom("R1", p.Call("tsdb/chunks:chunkPos.getNextChunkRef"), eng.Or(p.Call("tsdb/chunks:ChunkDiskMapper.writeChunkViaQueue"), p.Call("tsdb/chunks:ChunkDiskMapper.writeChunk")))
		f.GivenBranch("cdm.writeQueue != nil", true).Reachable("R1", p.Call("tsdb/chunks:ChunkDiskMapper.writeChunkViaQueue"))
		f.GivenBranch("cdm.writeQueue != nil", false).Reachable("R1", p.Call("tsdb/chunks:ChunkDiskMapper.writeChunk"))
		c.CallersSubset("R1", "tsdb/chunks:chunkPos.getNextChunkRef", 1, "tsdb/chunks:ChunkDiskMapper.WriteChunk")

		w := c.Fn("tsdb/chunks:ChunkDiskMapper.writeChunk")
		put := p.MethodOn("tsdb/chunks:ChunkDiskMapper.chunkBuffer", "put")
		w.Chain("R1", p.Call("tsdb/chunks:ChunkDiskMapper.writeAndAppendToCRC32"), p.Call("tsdb/chunks:ChunkDiskMapper.writeCRC32"), put)
		w.NoPath("R1", put, p.Call("tsdb/chunks:ChunkDiskMapper.writeAndAppendToCRC32")) // nothing of the chunk is written after it was published
		w.NoPath("R1", put, p.Call("tsdb/chunks:ChunkDiskMapper.cutAndExpectRef"))
		w.ErrPropagates("R1", p.Call("tsdb/chunks:ChunkDiskMapper.writeCRC32"), 1)
		w.ErrPropagates("R1", p.Call("tsdb/chunks:ChunkDiskMapper.writeAndAppendToCRC32"), 2)
		w.Dom("R1", p.MethodOn("tsdb/chunks:ChunkDiskMapper.writePathMtx", "Lock"), put)
		fl := c.Fn("tsdb/chunks:ChunkDiskMapper.flushBuffer")
		fl.Gate("R1", p.MethodOn("tsdb/chunks:ChunkDiskMapper.chkWriter", "Flush"), p.MethodOn("tsdb/chunks:ChunkDiskMapper.chunkBuffer", "clear"))
		c.OnlyIn("R1", p.MethodOn("tsdb/chunks:ChunkDiskMapper.chunkBuffer", "clear"), 1, "tsdb/chunks:ChunkDiskMapper.flushBuffer")
		c.OnlyIn("R1", put, 1, "tsdb/chunks:ChunkDiskMapper.writeChunk")

		a := c.Fn("tsdb/chunks:chunkWriteQueue.addJob")
		reg := p.StoreElem("tsdb/chunks:chunkWriteQueue.chunkRefMap")
		a.Dom("R1", reg, p.MethodOn("tsdb/chunks:chunkWriteQueue.jobs", "push"))
		a.DomOK("R1", reg)
		pj := c.Fn("tsdb/chunks:chunkWriteQueue.processJob")
		pj.Dom("R1", eng.CallNamed("writeChunk"), p.DeleteElem("tsdb/chunks:chunkWriteQueue.chunkRefMap"))
		c.GuardedBy("R1", "tsdb/chunks:chunkWriteQueue.chunkRefMap", "tsdb/chunks:chunkWriteQueue.chunkRefMapMtx", eng.GuardOpts{Min: 5,
			Unlocked:    map[string]string{"tsdb/chunks:newChunkWriteQueue": "constructor"},
			CallerHolds: []string{"tsdb/chunks:chunkWriteQueue.shrinkChunkRefMap"}})

		ck := c.Fn("tsdb/chunks:ChunkDiskMapper.Chunk")
		ck.Dom("R1", p.MethodOn("tsdb/chunks:ChunkDiskMapper.readPathMtx", "RLock"), p.FieldUse("tsdb/chunks:ChunkDiskMapper.mmappedChunkFiles"))
		ck.Given("cdm.writeQueue != nil", true).Dom("R1", p.MethodOn("tsdb/chunks:ChunkDiskMapper.writeQueue", "get"), p.FieldUse("tsdb/chunks:ChunkDiskMapper.mmappedChunkFiles"))
		ck.GivenBranch("sgmIndex == cdm.curFileSequence", true).Dom("R1", p.MethodOn("tsdb/chunks:ChunkDiskMapper.chunkBuffer", "get"), p.FieldUse("tsdb/chunks:ChunkDiskMapper.mmappedChunkFiles"))
		ck.Gate("R1", p.Call("tsdb/chunks:checkCRC32"), p.Call("tsdb/chunkenc:Pool.Get"))
	}
	// ---- R2 truncation and the shared file tables ----
	{
		t := c.Fn("tsdb/chunks:ChunkDiskMapper.Truncate")
		rm := eng.Node("removedFiles = append(removedFiles, seq)", func(g *eng.Graph, n astNode) bool {
			return nodeText(n) == "removedFiles = append(removedFiles, seq)"
		})
		t.Has("R2", rm, 1)
		t.GivenBranch("seq == cdm.curFileSequence || uint32(seq) >= fileNo", true).Unreachable("R2", rm)
		t.Only("R2", p.Call("tsdb/chunks:ChunkDiskMapper.deleteFiles"), "deletes exactly removedFiles", func(l eng.Loc) bool { return eng.CallArgsText(l)[0] == "removedFiles" })
		t.Dom("R2", p.Call("slices:Sort"), rm)
		unl := map[string]string{"tsdb/chunks:ChunkDiskMapper.openMMapFiles": "called from the constructor before the mapper is shared",
			"tsdb/chunks:ChunkDiskMapper.IterateAllChunks": "start-up only (Head.Init, before the head is shared): callers checked below"}
		c.CallersSubset("R2", "tsdb/chunks:ChunkDiskMapper.IterateAllChunks", 1, "tsdb:Head.loadMmappedChunks")
		c.CallersSubset("R2", "tsdb:Head.loadMmappedChunks", 2, "tsdb:Head.Init", "tsdb:Head.removeCorruptedMmappedChunks")
		c.GuardedBy("R2", "tsdb/chunks:ChunkDiskMapper.mmappedChunkFiles", "tsdb/chunks:ChunkDiskMapper.readPathMtx", eng.GuardOpts{Min: 8, Unlocked: unl})
		c.GuardedBy("R2", "tsdb/chunks:ChunkDiskMapper.closers", "tsdb/chunks:ChunkDiskMapper.readPathMtx", eng.GuardOpts{Min: 4, Unlocked: unl})
		// a freshly cut file is m-mapped and registered before writes continue into it
		cut := c.Fn("tsdb/chunks:ChunkDiskMapper.cut")
		cut.Dom("R2", p.Call("tsdb/chunks:ChunkDiskMapper.finalizeCurFile"), p.Call("tsdb/chunks:cutSegmentFile"))
		cut.DomOK("R2", p.StoreElem("tsdb/chunks:ChunkDiskMapper.mmappedChunkFiles"))
	}
}
