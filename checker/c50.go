package main

import (
	"go/ast"
	"strings"

	"promverif/eng"
)

func init() {
	register(&Property{
		ID:        "C50",
		Title:     "Backfilled blocks contain exactly the input samples",
		Technique: "go/cfg gate rules (a sample without timestamp rejects the whole input before anything is appended; commit before flush, previous appender committed before a new one is taken); linear normal form of the comparisons that select a block range and keep the running minimum of the next sample time; rule that the first block range is rounded down for negative times (finding F13, fixed)",
		DesignRef: "DESIGN.md §5 C50",
		Level: "Decides that both passes over the input reject a series without timestamp with an error before the timestamp is used, that within a block range every sample with t ≤ ts < t+blockDuration is appended and nothing else, that the shortcut which skips empty block ranges keeps the minimum timestamp seen beyond the current range (so no populated range is skipped), " +
			"that an appender is committed without error before it is replaced and before the block is flushed, and that the first range starts at or below the smallest timestamp also when that is negative and unaligned.",
		Note:           "Trusted: go/packages, go/types, go/cfg; linear normaliser; rule tables in checker/c50.go.",
		Covers:         "cmd/promtool: getMinAndMaxTimestamps, createBlocks (range loop, per-range closure), backfill.",
		NotCover:       "block alignment beyond the first range, label handling, what BlockWriter.Flush writes.",
		Run:            runC50,
		MinObligations: 14,
	})
}

func runC50(c *eng.Ctx) {
	p := c.P
	P := "cmd/promtool:"
	// ---- R1 timestamps are mandatory ----
	g := c.Fn(P + "getMinAndMaxTimestamps")
	g.Dom("R1", eng.CondTest("ts == nil"), eng.Node("*ts", func(gr *eng.Graph, n ast.Node) bool {
		st, ok := n.(*ast.StarExpr)
		return ok && eng.ExprString(st.X) == "ts"
	}))
	g.GivenBranch("ts == nil", true).Unreachable("R1", eng.AssignVarVal("maxt", "*ts", eng.ExprText("*ts")))
	cb := c.Fn(P + "createBlocks")
	cl := cb.InnerClosure("perRange", eng.OnVar("app", "Append"))
	appendS := eng.OnVar("app", "Append")
	cl.Dom("R1", eng.CondTest("ts == nil"), appendS)
	cl.AstEvery("R1", "arm for a series without timestamp", func(n ast.Node) bool {
		is, ok := n.(*ast.IfStmt)
		return ok && eng.ExprString(is.Cond) == "ts == nil"
	}, "returns an error", func(n ast.Node) bool {
		b := n.(*ast.IfStmt).Body.List
		return strings.HasPrefix(nodeText(b[len(b)-1]), "return fmt.Errorf(")
	}, 1)
	// ---- R2 which samples go into a range; running minimum of what lies beyond ----
	guardSet := func(l eng.Loc) string { return strings.Join(cl.GuardsOf(l), " ; ") }
	cl.Only("R2", eng.AssignVarVal("nextSampleTs", "*ts", eng.ExprText("*ts")), "keeps the smallest timestamp at or beyond the end of the current range", func(l eng.Loc) bool {
		gs := guardSet(l)
		return strings.Contains(gs, "+1*nextSampleTs") == false && strings.Contains(gs, "+1**ts -1*nextSampleTs < 0") && strings.Contains(gs, "-1**ts +1*tsUpper -1 < 0")
	})
	cl.Has("R2", eng.AssignVarVal("nextSampleTs", "*ts", eng.ExprText("*ts")), 1)
	// the append is reached exactly for t <= ts < tsUpper: both skip tests precede it
	cl.Dom("R2", eng.CondTest("*ts < t"), appendS)
	cl.Dom("R2", eng.CondTest("*ts >= tsUpper"), appendS)
	cl.GivenBranch("*ts < t", true).NoPathAvoid("R2", eng.CondTest("*ts < t"), appendS, "parser step", cl.Find(eng.OnVar("p", "Next")))
	cl.GivenBranch("*ts >= tsUpper", true).NoPathAvoid("R2", eng.CondTest("*ts >= tsUpper"), appendS, "parser step", cl.Find(eng.OnVar("p", "Next")))
	cl.Only("R2", appendS, "appends the sample's own timestamp and value", func(l eng.Loc) bool {
		a := eng.CallArgsText(l)
		return len(a) == 4 && a[2] == "*ts" && a[3] == "v"
	})
	// the skip shortcut of the range loop
	cb.AstEvery("R2", "shortcut skipping a block range", func(n ast.Node) bool {
		is, ok := n.(*ast.IfStmt)
		return ok && strings.Contains(eng.ExprString(is.Cond), "nextSampleTs >= tsUpper")
	}, "is taken only when the next sample is known and lies at or beyond the end of the range", func(n ast.Node) bool {
		return eng.ExprString(n.(*ast.IfStmt).Cond) == "nextSampleTs != math.MaxInt64 && nextSampleTs >= tsUpper"
	}, 1)
	cb.Only("R2", eng.AssignVarVal("nextSampleTs", "math.MaxInt64", eng.ExprText("math.MaxInt64")).InClosures(), "resets the running minimum before a range is scanned", func(l eng.Loc) bool { return true })
	// ---- R3 commits ----
	commit := eng.OnVar("app", "Commit")
	newApp := eng.AssignVarVal("app", "w.Appender(ctx)", eng.ExprText("w.Appender(ctx)"))
	cl.ErrPropagates("R3", commit, 2)
	cl.Gate("R3", commit, eng.OnVar("w", "Flush"))
	cl.PassesBetween("R3", appendS, commit, eng.OnVar("w", "Flush"))
	cl.PassesBetween("R3", appendS, commit, eng.Node("app = w.Appender(ctx)", func(gr *eng.Graph, n ast.Node) bool { return nodeText(n) == "app = w.Appender(ctx)" }))
	_ = newApp
	// ---- R4 first range rounded down (F13) ----
	align := eng.Node("alignedMint -= blockDuration", func(gr *eng.Graph, n ast.Node) bool { return nodeText(n) == "alignedMint -= blockDuration" })
	ok := false
	for _, l := range cb.Find(align) {
		gs := cb.GuardsOf(l)
		if len(gs) == 1 && gs[0] == "-1*alignedMint +1*mint < 0" {
			ok = true
		}
	}
	c.Check("R4", cb.Where(), "the first block range starts at or below the smallest timestamp (integer division rounds toward zero: a negative, unaligned minimum is rounded down explicitly)", ok, p.Pos(cb.Body.Pos()),
		"createBlocks aligns the minimum timestamp with blockDuration*(mint/blockDuration) and never corrects the result when it lies above mint: a sample with a negative, unaligned timestamp falls before the first range and is dropped (triage/f13)")
	cb.AstEvery("R4", "range loop", func(n ast.Node) bool {
		fs, ok := n.(*ast.ForStmt)
		return ok && fs.Cond != nil && strings.Contains(eng.ExprString(fs.Cond), "maxt")
	}, "runs from the aligned minimum to the maximum timestamp in steps of the block duration", func(n ast.Node) bool {
		fs := n.(*ast.ForStmt)
		return nodeText(fs.Init) == "t := mint" && eng.ExprString(fs.Cond) == "t <= maxt" && nodeText(fs.Post) == "t += blockDuration"
	}, 1)
}
