package main

import (
	"go/ast"
	"go/token"
	"strings"

	"promverif/eng"
)

// C31.R5 (added for seed C31-b): the bucket iterator that compares two histograms for a counter reset starts after
// the other histogram's zero threshold.  A bucket (lower, upper] lies inside the zero bucket iff upper ≤ threshold,
// so a bucket is skipped exactly under `bound ≤ start` and accepted exactly under `bound > start`; with `≥` a
// bucket ending precisely at the threshold is compared although its observations moved into the zero bucket, and
// DetectReset reports a reset that did not happen.
func runC31Skip(c *eng.Ctx) {
	p := c.P
	n := 0
	for _, f := range c.MethodsOf("model/histogram:floatBucketIterator") {
		f := f
		ast.Inspect(f.Body, func(x ast.Node) bool {
			is, ok := x.(*ast.IfStmt)
			if !ok {
				return true
			}
			var cmp *ast.BinaryExpr
			ast.Inspect(is.Cond, func(y ast.Node) bool {
				if be, ok := y.(*ast.BinaryExpr); ok {
					l, r := nodeText(be.X), nodeText(be.Y)
					if strings.HasPrefix(l, "getBoundExponential(") && r == "i.absoluteStartValue" || strings.HasPrefix(r, "getBoundExponential(") && l == "i.absoluteStartValue" {
						cmp = be
					}
				}
				return true
			})
			if cmp == nil {
				return true
			}
			n++
			op := cmp.Op
			if nodeText(cmp.Y) != "i.absoluteStartValue" { // start OP bound  ->  bound OP' start
				op = map[token.Token]token.Token{token.LSS: token.GTR, token.LEQ: token.GEQ, token.GTR: token.LSS, token.GEQ: token.LEQ}[op]
			}
			// is the comparison negated?  (only plain conjunction/disjunction contexts are understood)
			body := nodeText(is.Body)
			accept := strings.Contains(body, "return true")
			want := token.LEQ
			kind := "skipped"
			if accept {
				want, kind = token.GTR, "accepted"
			}
			c.Check("R5", f.Where(), "a bucket is "+kind+" under `bound "+want.String()+" start` (a bucket ending exactly at the zero threshold lies inside the zero bucket)", op == want, p.Pos(cmp.Pos()),
				"the comparison is `bound "+op.String()+" start`")
			return true
		})
	}
	c.Check("R5", "model/histogram:floatBucketIterator", "start-value comparisons found (≥ 1)", n >= 1, "", "")
}
