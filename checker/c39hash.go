package main

import (
	"fmt"
	"go/ast"
	"strings"

	"promverif/eng"
)

// C39.R3 (added for seed C39-b): StableHash of the default label implementation hashes short label sets from a
// 1 KB buffer and switches to the streaming digest when the next label does not fit.  Every label has to reach
// exactly one of the two: once the digest exists (it is assigned once and never reset), no label may be appended
// to the buffer any more — the buffer was already copied into the digest, so that label would not be hashed and
// the result would differ from the other two implementations.
func runC39Hash(c *eng.Ctx) {
	p := c.P
	defer runC39Sizes(c)
	if p.Tags != "" {
		return
	}
	f := c.Fn("model/labels:StableHash")
	newDigest := eng.AssignVarVal("h", "a new digest", func(g *eng.Graph, e ast.Expr) bool { return strings.HasPrefix(nodeText(e), "xxhash.New(") })
	bufAppend := eng.AssignVarVal("b", "the buffer grown by a label", func(g *eng.Graph, e ast.Expr) bool { return strings.HasPrefix(nodeText(e), "append(b, ") })
	if !f.Has("R3", newDigest, 1) {
		return
	}
	f.Has("R3", bufAppend, 4)
	nAssign := len(f.Find(eng.AssignVar("h")))
	c.Check("R3", f.Where(), "the digest variable is assigned once besides its declaration (it never becomes nil again)", nAssign <= 2, p.Pos(f.Body.Pos()), "")
	f.GivenBranch("h != nil", true).NoPath("R3", newDigest, bufAppend)
	// and the copy of what the buffer held happens when the digest is created
	f.Dom("R3", newDigest, eng.Node("h.Write(b)", func(g *eng.Graph, n ast.Node) bool {
		call, ok := n.(*ast.CallExpr)
		return ok && nodeText(call) == "h.Write(b)"
	}))
}

// C39.R4 (finding F58): the size classes of the stringlabels length encoding agree with what encodeSize writes.  The
// long form is a marker byte followed by k little-endian bytes (counted from the stores `data[offset+i] = byte(v >> …)`),
// so it represents lengths below 1<<(8k); sizeWhenEncoded may hand out that form only for x < 1<<(8k), and the short
// form only below the marker value.
func runC39Sizes(c *eng.Ctx) {
	p := c.P
	if p.Tags != "" {
		return
	}
	es := c.Fn("model/labels:encodeSize")
	k := 0
	marker := ""
	ast.Inspect(es.Body, func(n ast.Node) bool {
		as, ok := n.(*ast.AssignStmt)
		if !ok || len(as.Lhs) != 1 {
			return true
		}
		l, r := nodeText(as.Lhs[0]), nodeText(as.Rhs[0])
		if strings.HasPrefix(l, "data[offset+") && strings.HasPrefix(r, "byte(") {
			k++
		}
		if l == "data[offset]" && !strings.Contains(r, "v") {
			marker = r
		}
		return true
	})
	c.Check("R4", es.Where(), "the long form is a marker byte 255 followed by 3 length bytes", k == 3 && marker == "255", p.Pos(es.Body.Pos()), fmt.Sprintf("%d bytes, marker %s", k, marker))
	sw := c.Fn("model/labels:sizeWhenEncoded")
	var conds []string
	ast.Inspect(sw.Body, func(n ast.Node) bool {
		if is, ok := n.(*ast.IfStmt); ok {
			if nf, ok := eng.LinearCmp(sw.Info, is.Cond); ok {
				conds = append(conds, nf)
			} else {
				conds = append(conds, "?"+nodeText(is.Cond))
			}
		}
		return true
	})
	want := []string{"+1*x -255 < 0", fmt.Sprintf("+1*x -%d < 0", 1<<(8*uint(k)))}
	c.Check("R4", sw.Where(), fmt.Sprintf("the one-byte form is chosen below the marker value and the long form strictly below 1<<%d", 8*k), len(conds) == 2 && conds[0] == want[0] && conds[1] == want[1], p.Pos(sw.Body.Pos()),
		"normal forms "+strings.Join(conds, " ; ")+", wanted "+strings.Join(want, " ; ")+": a length of exactly 1<<24 is written as 0 and the label set cannot be read back")
}
