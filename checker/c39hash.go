package main

import (
	"go/ast"
	"strings"

	"promverif/eng"
)

// C39.R3 (added for seed C39-b): StableHash of the default label implementation hashes short label sets from a
// 1 KB buffer and switches to the streaming digest when the next label does not fit.  Every label has to reach
// exactly one of the two: once the digest exists (it is assigned once and never reset), no label may be appended
// to the buffer any more — the buffer was already copied into the digest, so that label would not be hashed and
// the result would differ from the other two implementations.
func runC39Hash(c *eng.Ctx) {
	p := c.P
	if p.Tags != "" {
		return
	}
	f := c.Fn("model/labels:StableHash")
	newDigest := eng.AssignVarVal("h", "a new digest", func(g *eng.Graph, e ast.Expr) bool { return strings.HasPrefix(nodeText(e), "xxhash.New(") })
	bufAppend := eng.AssignVarVal("b", "the buffer grown by a label", func(g *eng.Graph, e ast.Expr) bool { return strings.HasPrefix(nodeText(e), "append(b, ") })
	if !f.Has("R3", newDigest, 1) {
		return
	}
	f.Has("R3", bufAppend, 4)
	nAssign := len(f.Find(eng.AssignVar("h")))
	c.Check("R3", f.Where(), "the digest variable is assigned once besides its declaration (it never becomes nil again)", nAssign <= 2, p.Pos(f.Body.Pos()), "")
	f.GivenBranch("h != nil", true).NoPath("R3", newDigest, bufAppend)
	// and the copy of what the buffer held happens when the digest is created
	f.Dom("R3", newDigest, eng.Node("h.Write(b)", func(g *eng.Graph, n ast.Node) bool {
		call, ok := n.(*ast.CallExpr)
		return ok && nodeText(call) == "h.Write(b)"
	}))
}
