package main

import (
	"fmt"
	"go/ast"
	"strings"

	"promverif/eng"
)

func init() {
	register(&Property{
		ID:        "C51",
		Title:     "API JSON encodes query values exactly",
		Technique: "registration-table rule for the jsoniter type encoders (each key string names an existing named type of the imported package and the registered function casts its unsafe pointer to exactly that type); every-path rule that floats are formatted by strconv.AppendFloat with shortest round-trip precision (no other number formatter on any path); family rule that every float of a sample, point, histogram and exemplar goes through MarshalFloat and every timestamp through MarshalTimestamp",
		DesignRef: "DESIGN.md §5 C51",
		Level: "Decides that the eight custom encoders are registered under type names that exist (a renamed type would silently fall back to reflection, which cannot encode NaN/Inf) and cast to the type they are registered for, that MarshalFloat writes every value with strconv.AppendFloat(…, -1, 64) between quotes on every path (the only formatter that keeps −0, NaN payload class, infinities and all 17 significant digits), " +
			"and that the value, histogram bounds/counts/sum and exemplar encoders delegate to MarshalFloat / MarshalTimestamp / MarshalHistogram rather than formatting numbers themselves.",
		Note:           "Trusted: go/packages, go/types, go/cfg; rule tables in checker/c51.go.",
		Covers:         "web/api/v1/json_codec.go registrations and encoders; util/jsonutil MarshalFloat, MarshalTimestamp, MarshalHistogram.",
		NotCover:       "that the decimal text decodes to the same bits (property of strconv), millisecond arithmetic of MarshalTimestamp, bucket boundary values.",
		Run:            runC51,
		MinObligations: 20,
	})
}

func runC51(c *eng.Ctx) {
	p := c.P
	// ---- R1 registrations ----
	initFn := p.Pkg("web/api/v1")
	n := 0
	for _, file := range initFn.Syntax {
		ast.Inspect(file, func(x ast.Node) bool {
			call, ok := x.(*ast.CallExpr)
			if !ok || eng.ExprString(call.Fun) != "jsoniter.RegisterTypeEncoderFunc" || len(call.Args) < 2 {
				return true
			}
			lit, ok := call.Args[0].(*ast.BasicLit)
			if !ok {
				return true
			}
			n++
			key := strings.Trim(lit.Value, `"`)
			parts := strings.SplitN(key, ".", 2)
			// the package short name must be an import of the file and the type must exist in it
			var typeOK bool
			var fullPkg string
			for _, imp := range file.Imports {
				path := strings.Trim(imp.Path.Value, `"`)
				short := path[strings.LastIndex(path, "/")+1:]
				if imp.Name != nil {
					short = imp.Name.Name
				}
				if short == parts[0] {
					fullPkg = path
				}
			}
			if fullPkg != "" && len(parts) == 2 {
				for _, tp := range initFn.Types.Imports() {
					if tp.Path() == fullPkg && tp.Scope().Lookup(parts[1]) != nil {
						typeOK = true
					}
				}
			}
			c.Check("R1", "web/api/v1:encoder for "+key, "the registration key names an existing type of an imported package", typeOK, p.Pos(call.Pos()), "no type "+key+" reachable through this file's imports: jsoniter would fall back to reflection for the real type")
			// the registered function casts to that type
			fnName := eng.ExprString(call.Args[1])
			if f := p.TryFunc("web/api/v1:" + fnName); f != nil {
				fn := c.Fn("web/api/v1:" + fnName)
				cast := eng.Node("(*T)(ptr)", func(g *eng.Graph, y ast.Node) bool {
					cl, ok := y.(*ast.CallExpr)
					if !ok || len(cl.Args) != 1 || eng.ExprString(cl.Args[0]) != "ptr" {
						return false
					}
					_, isParen := cl.Fun.(*ast.ParenExpr)
					return isParen
				})
				fn.Only("R1", cast, "casts the pointer to the type it is registered for ("+key+")", func(l eng.Loc) bool {
					return eng.ExprString(l.Node.(*ast.CallExpr).Fun) == "(*"+key+")"
				})
			} else {
				c.Fail("R1", "web/api/v1:"+fnName, "registered encoder is a declared function", p.Pos(call.Pos()), "")
			}
			return true
		})
	}
	c.Check("R1", "web/api/v1", "custom encoders registered (≥8)", n >= 8, "", fmt.Sprint(n))
	// ---- R2 float formatting ----
	mf := c.Fn("util/jsonutil:MarshalFloat")
	af := p.Call("strconv:AppendFloat")
	mf.DomOK("R2", af)
	mf.Only("R2", af, "formats the value itself with shortest round-trip precision as a 64-bit float", func(l eng.Loc) bool {
		a := eng.CallArgsText(l)
		return len(a) == 5 && a[1] == "f" && a[3] == "-1" && a[4] == "64"
	})
	mf.AstEvery("R2", "number formatter other than AppendFloat", func(n ast.Node) bool {
		call, ok := n.(*ast.CallExpr)
		if !ok {
			return false
		}
		t := eng.ExprString(call.Fun)
		return strings.HasPrefix(t, "strconv.Append") && t != "strconv.AppendFloat" || strings.HasPrefix(t, "strconv.Format") || strings.HasPrefix(t, "stream.WriteInt") || strings.HasPrefix(t, "stream.WriteFloat") || strings.HasPrefix(t, "fmt.")
	}, "exists (none may)", func(ast.Node) bool { return false }, 0)
	mf.CountOnPaths("R2", `stream.WriteRaw("\"")`, []eng.Matcher{eng.Node("quote", func(g *eng.Graph, n ast.Node) bool {
		_, isCall := n.(*ast.CallExpr)
		return isCall && nodeText(n) == "stream.WriteRaw(`\"`)"
	})}, 2, eng.AnyExit)
	// ---- R3 delegation ----
	mfCall, mtCall, mhCall := p.Call("util/jsonutil:MarshalFloat"), p.Call("util/jsonutil:MarshalTimestamp"), p.Call("util/jsonutil:MarshalHistogram")
	for _, s := range []struct {
		fn string
		ms []eng.Matcher
	}{
		{"web/api/v1:marshalSampleJSON", []eng.Matcher{mtCall, mfCall, mhCall}},
		{"web/api/v1:marshalFPointJSON", []eng.Matcher{mtCall, mfCall}},
		{"web/api/v1:marshalHPointJSON", []eng.Matcher{mtCall, mhCall}},
		{"web/api/v1:marshalExemplarJSON", []eng.Matcher{mtCall, mfCall}},
	} {
		f := c.Fn(s.fn)
		for _, m := range s.ms {
			f.Has("R3", m, 1)
		}
		f.AstEvery("R3", "direct number formatting", func(n ast.Node) bool {
			call, ok := n.(*ast.CallExpr)
			if !ok {
				return false
			}
			t := eng.ExprString(call.Fun)
			return strings.HasPrefix(t, "stream.WriteFloat") || strings.HasPrefix(t, "stream.WriteInt") || strings.HasPrefix(t, "strconv.")
		}, "exists (none may: numbers go through jsonutil)", func(ast.Node) bool { return false }, 0)
	}
	mh := c.Fn("util/jsonutil:MarshalHistogram")
	mh.Has("R3", mfCall, 3)
	mh.AstEvery("R3", "direct float formatting in MarshalHistogram", func(n ast.Node) bool {
		call, ok := n.(*ast.CallExpr)
		return ok && (strings.HasPrefix(eng.ExprString(call.Fun), "stream.WriteFloat") || strings.HasPrefix(eng.ExprString(call.Fun), "strconv."))
	}, "exists (none may)", func(ast.Node) bool { return false }, 0)
}
