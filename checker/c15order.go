package main

import (
	"fmt"
	"go/ast"
	"go/types"
	"strings"

	"promverif/eng"
)

// C15.R6 (added for seed C15-d): when the replay deletes a series for an eviction tombstone, the series record has to stay in
// checkpoints until the series' last sample time (updateWALExpiry(ref, series.maxTime())), because samples of that
// reference may still follow in the log.  maxTime() is computed from the series' head and m-mapped chunks, and the
// same loop body clears the m-mapped chunks; so in deleteSeriesByID every statement that reads the series' chunk
// state — a call of a memSeries method that reads mmappedChunks/headChunks, or a direct read of those fields — comes
// before the statement that clears it.
func runC15Order(c *eng.Ctx) {
	p := c.P
	f := c.Fn("tsdb:Head.deleteSeriesByID")
	var loop *ast.RangeStmt
	ast.Inspect(f.Body, func(x ast.Node) bool {
		if rs, ok := x.(*ast.RangeStmt); ok && nodeText(rs.X) == "refs" {
			loop = rs
		}
		return true
	})
	if loop == nil {
		c.Fail("R6", f.Where(), "the loop over the series to delete found", p.Pos(f.Body.Pos()), "")
		return
	}
	// methods of memSeries that read the chunk state
	readsChunks := map[string]bool{}
	ms := p.Named("tsdb:memSeries")
	for i := 0; i < ms.NumMethods(); i++ {
		m := ms.Method(i)
		src := p.SrcOf(m)
		if src == nil || src.Decl.Body == nil {
			continue
		}
		t := nodeText(src.Decl.Body)
		if strings.Contains(t, ".mmappedChunks") || strings.Contains(t, ".headChunks") {
			readsChunks[m.Name()] = true
		}
	}
	clearAt := -1
	for i, st := range loop.Body.List {
		if as, ok := st.(*ast.AssignStmt); ok && len(as.Lhs) == 1 && as.Tok.String() == "=" {
			l := nodeText(as.Lhs[0])
			if (l == "series.mmappedChunks" || l == "series.headChunks") && nodeText(as.Rhs[0]) == "nil" && clearAt < 0 {
				clearAt = i
			}
		}
		if es, ok := st.(*ast.ExprStmt); ok && strings.HasPrefix(nodeText(es.X), "series.setHeadChunks(nil") && clearAt < 0 {
			clearAt = i
		}
	}
	if clearAt < 0 {
		c.Pass("R6", f.Where(), "the loop body does not clear the series' chunk state", "")
		return
	}
	readers := 0
	for i, st := range loop.Body.List {
		var late []string
		ast.Inspect(st, func(x ast.Node) bool {
			switch e := x.(type) {
			case *ast.CallExpr:
				if sel, ok := e.Fun.(*ast.SelectorExpr); ok && nodeText(sel.X) == "series" && readsChunks[sel.Sel.Name] {
					if fn, ok := f.Info.Uses[sel.Sel].(*types.Func); ok && fn != nil {
						readers++
						if i > clearAt {
							late = append(late, nodeText(e))
						}
					}
				}
			case *ast.SelectorExpr:
				if t := nodeText(e); (t == "series.mmappedChunks" || t == "series.headChunks") && i != clearAt {
					readers++
					if i > clearAt {
						late = append(late, t)
					}
				}
			}
			return true
		})
		if len(late) > 0 {
			c.Fail("R6", f.Where(), "every read of the series' chunk state comes before the statement that clears it", p.Pos(st.Pos()),
				strings.Join(late, ", ")+" after "+nodeText(loop.Body.List[clearAt])+" — a series with only m-mapped chunks reports no last sample time, its series record gets no WAL expiry and a checkpoint drops it while its samples stay in the log")
		}
	}
	c.Check("R6", f.Where(), "reads of the series' chunk state found in the loop body (maxTime for the WAL expiry, the chunk counts)", readers >= 2, p.Pos(loop.Pos()), fmt.Sprint(readers))
	c.Pass("R6", f.Where(), "every read of the series' chunk state comes before the statement that clears it (checked per statement)", "")
	_ = eng.SortedKeys[bool]
}
