package main

import (
	"fmt"
	"go/ast"
	"strings"

	"promverif/eng"
)

func init() {
	register(&Property{
		ID:        "C14",
		Title:     "WAL record encoding round-trips",
		Technique: "wire-grammar inclusion (engine E5): finite automata over primitive wire tokens built from the syntax of each encoder and decoder (helpers inlined, first-iteration flags and tag-byte dispatch tracked exactly, other guards abstracted), decided by subset construction: L(encoder) ⊆ L(decoder); go/types enum tables for the record type byte; sibling rule for the histogram batch split",
		DesignRef: "DESIGN.md §5 C14",
		Level: "Decides, for every record kind, that every sequence of primitive wire tokens (tag byte by constant name, fixed 32/64-bit, unsigned/signed varint, length-prefixed bytes) the encoder can emit is a sequence its decoder reads completely and accepts, including the dispatch on the record type byte and on the start-timestamp marker byte; " +
			"that every record type is named and recognised; that delta-encoded fields use the same base (first or previous element) on both sides; and that the exponential/custom-bucket split hands back exactly the histograms it skipped.",
		Note:           "Trusted: go/packages, go/types; engine checker/eng/codec.go (abstraction of data-dependent guards enlarges both languages: necessary, not sufficient).",
		Covers:         "Encoder.{Series,Metadata,Samples,Tombstones,Exemplars,MmapMarkers,HistogramSamples,CustomBucketsHistogramSamples,FloatHistogramSamples,CustomBucketsFloatHistogramSamples} against the matching Decoder methods, with EncodeLabels/DecodeLabels, EncodeHistogram/DecodeHistogram, EncodeFloatHistogram/DecodeFloatHistogram, writeSTMarker/readSTMarker inlined.",
		NotCover:       "the values carried by the tokens (delta arithmetic, float bit patterns, label contents).",
		Run:            runC14,
		MinObligations: 10,
	})
}

func runC14(c *eng.Ctx) {
	pk := []string{"tsdb/record", "tsdb/tombstones"}
	R := "tsdb/record:"
	for _, pr := range [][2]string{
		{"Encoder.Series", "Decoder.Series"},
		{"Encoder.Metadata", "Decoder.Metadata"},
		{"Encoder.Samples", "Decoder.Samples"},
		{"Encoder.Tombstones", "Decoder.Tombstones"},
		{"Encoder.Exemplars", "Decoder.Exemplars"},
		{"Encoder.MmapMarkers", "Decoder.MmapMarkers"},
		{"Encoder.HistogramSamples", "Decoder.HistogramSamples"},
		{"Encoder.CustomBucketsHistogramSamples", "Decoder.HistogramSamples"},
		{"Encoder.FloatHistogramSamples", "Decoder.FloatHistogramSamples"},
		{"Encoder.CustomBucketsFloatHistogramSamples", "Decoder.FloatHistogramSamples"},
	} {
		c.Codec("R1", R+pr[0], R+pr[1], pk)
	}
	// ---- R2 the record type byte ----
	c.Fn(R+"Type.String").SwitchCovers("R2", R+"Type", 1, map[string]string{"Unknown": "default arm"})
	c.Fn(R+"Decoder.Type").SwitchCovers("R2", R+"Type", 1, map[string]string{"Unknown": "the result for anything else"})
	// ---- R3 delta bases: the "previous element" carried across iterations is refreshed on every path ----
	n := 0
	for _, fn := range []struct{ name, side string }{
		{"Encoder.samplesV1", "enc"}, {"Encoder.samplesV2", "enc"}, {"Encoder.histogramSamplesV1", "enc"}, {"Encoder.histogramSamplesV2", "enc"},
		{"Encoder.customBucketsHistogramSamplesV1", "enc"}, {"Encoder.floatHistogramSamplesV1", "enc"}, {"Encoder.floatHistogramSamplesV2", "enc"},
		{"Encoder.customBucketsFloatHistogramSamplesV1", "enc"}, {"Encoder.EncodeExemplarsIntoBuffer", "enc"},
		{"Decoder.samplesV1", "dec"}, {"Decoder.samplesV2", "dec"}, {"Decoder.histogramSamplesV1", "dec"}, {"Decoder.histogramSamplesV2", "dec"},
		{"Decoder.floatHistogramSamplesV1", "dec"}, {"Decoder.floatHistogramSamplesV2", "dec"}, {"Decoder.ExemplarsFromBuffer", "dec"},
	} {
		n += c.PrevStateUpdated("R3", R+fn.name, fn.side)
	}
	c.Check("R3", "tsdb/record", "loop-carried prev* variables found in the V2 histogram codecs (≥4)", n >= 4, "", fmt.Sprintf("%d found", n))
	// the marker helpers are given (value, first, previous) resp. (previous, first) of the same field
	for _, fn := range []string{"Encoder.samplesV2", "Encoder.histogramSamplesV2", "Encoder.floatHistogramSamplesV2"} {
		f := c.Fn(R + fn)
		f.Only("R3", c.P.Call(R+"writeSTMarker"), "passes the element's ST, the first element's ST and the previous element's ST", func(l eng.Loc) bool {
			a := eng.CallArgsText(l)
			return len(a) == 4 && strings.HasSuffix(a[1], ".ST") && a[2] == "first.ST" && a[3] == "prev.ST"
		})
	}
	for _, fn := range []string{"Decoder.samplesV2", "Decoder.histogramSamplesV2", "Decoder.floatHistogramSamplesV2"} {
		f := c.Fn(R + fn)
		f.Only("R3", c.P.Call(R+"readSTMarker"), "passes the previous element's ST and the first element's ST", func(l eng.Loc) bool {
			a := eng.CallArgsText(l)
			return len(a) == 3 && (a[1] == "prev.ST" || a[1] == "prevST") && a[2] == "firstST"
		})
	}
	// integer and float histogram codecs are near-copies: they stay in step
	c.SiblingsEqual("R3", R+"Encoder.histogramSamplesV2", R+"Encoder.floatHistogramSamplesV2", sibRenames, nil)
	c.SiblingsEqual("R3", R+"Encoder.histogramSamplesV1", R+"Encoder.floatHistogramSamplesV1", sibRenames, nil)
	c.SiblingsEqual("R3", R+"Encoder.customBucketsHistogramSamplesV1", R+"Encoder.customBucketsFloatHistogramSamplesV1", sibRenames, nil)
	c.SiblingsEqual("R3", R+"Decoder.histogramSamplesV1", R+"Decoder.floatHistogramSamplesV1", sibRenames, nil)
	c.SiblingsEqual("R3", R+"Decoder.histogramSamplesV2", R+"Decoder.floatHistogramSamplesV2", append([][2]string{{`\brfh\b`, "rh"}}, sibRenames...), []eng.SiblingDiff{
		{A: "var (", B: "", Why: "declaration style"}, {A: ")", B: "", Why: "declaration style"},
		{A: "prevRef\tchunks.HeadSeriesRef", B: "var prevRef chunks.HeadSeriesRef", Why: "declaration style"},
		{A: "prevST\tint64", B: "var prevST int64", Why: "declaration style"},
	})
	// ---- R4 the exponential / custom-bucket split loses nothing ----
	for _, fn := range []string{"Encoder.histogramSamplesV1", "Encoder.floatHistogramSamplesV1"} {
		f := c.Fn(R + fn)
		f.AstEvery("R4", "arm skipping a custom-bucket histogram", func(n ast.Node) bool {
			is, ok := n.(*ast.IfStmt)
			return ok && strings.Contains(eng.ExprString(is.Cond), "UsesCustomBuckets()")
		}, "hands the skipped histogram back to the caller", func(n ast.Node) bool {
			t := nodeText(n.(*ast.IfStmt).Body)
			return strings.Contains(t, "= append(") && strings.Contains(t, ", h)") && strings.Contains(t, "continue")
		}, 1)
	}
	for _, fn := range []string{"Encoder.customBucketsHistogramSamplesV1", "Encoder.customBucketsFloatHistogramSamplesV1"} {
		f := c.Fn(R + fn)
		f.Hasnt("R4", eng.Node("continue", func(g *eng.Graph, n ast.Node) bool { return false }))
		f.AstEvery("R4", "`continue`/`break` in the custom-bucket encoder", func(n ast.Node) bool {
			_, ok := n.(*ast.BranchStmt)
			return ok
		}, "exists (none may: every histogram handed over is written)", func(ast.Node) bool { return false }, 0)
	}
}
