package main

import (
	"fmt"
	"go/ast"
	"strings"

	"promverif/eng"
)

// C23.R6 (added for seed C23-c): a tombstone restored at start-up — from the WAL or from the chunk snapshot — may be
// discarded only if its interval lies entirely below minValidTime (its Maxt is below it): an interval that straddles
// the last block boundary still covers head samples.  Both restore paths are held to the same test.
func runC23Tombstones(c *eng.Ctx) {
	p := c.P
	n := 0
	for _, fn := range []string{"tsdb:Head.loadWAL", "tsdb:Head.loadChunkSnapshot"} {
		f := c.Fn(fn)
		ast.Inspect(f.Body, func(x ast.Node) bool {
			is, ok := x.(*ast.IfStmt)
			if !ok {
				return true
			}
			t := nodeText(is.Cond)
			if !strings.Contains(t, "minValidTime") || !(strings.Contains(t, ".Mint") || strings.Contains(t, ".Maxt")) {
				return true
			}
			n++
			sq := strings.ReplaceAll(t, " ", "")
			ok2 := (strings.Contains(sq, ".Maxt<h.minValidTime.Load()") || strings.Contains(sq, ".Maxt<minValidTime")) && !strings.Contains(sq, ".Mint") && strings.HasSuffix(nodeText(is.Body), "continue }")
			c.Check("R6", f.Where(), fmt.Sprintf("the restored tombstone interval tested at %s is skipped only if it ends before minValidTime", p.Pos(is.Pos())), ok2, p.Pos(is.Pos()),
				"condition "+t+": an interval that starts below minValidTime but ends above it still covers samples of the head; dropping it on one restore path makes the two kinds of restart disagree")
			return true
		})
	}
	c.Check("R6", "tsdb", "minValidTime filters on restored tombstones found (≥ 1)", n >= 1, "", fmt.Sprint(n))
}
