package main

import (
	"go/ast"
	"strings"

	"promverif/eng"
)

func init() {
	register(&Property{
		ID:        "C02",
		Title:     "Append admission and commit apply the documented ordering rules",
		Technique: "decision-table extraction (all paths of loop-free go/cfg graphs) and sibling comparison; go/cfg reachability under error assumptions; who-may-write for the appender's admission window",
		DesignRef: "DESIGN.md §5 C02",
		Level: "Decides that the three admission functions (float, histogram, float histogram) implement the same decision table over the same comparisons up to the declared value-equality leaf, " +
			"that commit re-validates with them and never writes a sample whose validation failed, that the admission window is snapshotted once per appender, that v1 and v2 appenders mark a series " +
			"pending only after a successful validation, and that the per-batch commit order float → histogram → float histogram holds.",
		Note:           "Trusted: go/packages, go/cfg; the normalisation table (which comparisons are the value-equality leaf) in checker/c02.go.",
		Covers:         "decision tables of memSeries.appendable{,Histogram,FloatHistogram}; validation gates and argument provenance in commitFloats/commitHistograms/commitFloatHistograms and the v1/v2 append paths; writers of headAppenderBase.{minValidTime,headMaxt,oooTimeWindow}; commit order.",
		NotCover:       "that the decision table itself is the documented one beyond the extracted rows recorded in the evidence (comparisons on runtime timestamps and values).",
		Run:            runC02,
		MinObligations: 30,
	})
}

func runC02(c *eng.Ctx) {
	defer runC02Admit(c)
	// ---- R6 integer / float histogram siblings stay in step ----
	c.SiblingsEqual("R6", "tsdb:memSeries.appendableHistogram", "tsdb:memSeries.appendableFloatHistogram", sibRenames, nil)
	c.SiblingsEqual("R6", "tsdb:headAppenderBase.commitHistograms", "tsdb:headAppenderBase.commitFloatHistograms", sibRenames, []eng.SiblingDiff{
		{A: "ok, chunkCreated, mmapRefs = series.insert(s.ST, s.T, 0, s.H, nil, acc.appendChunkOpts, acc.oooCapMax, a.head.logger)",
			B: "ok, chunkCreated, mmapRefs = series.insert(s.ST, s.T, 0, nil, s.H, acc.appendChunkOpts, acc.oooCapMax, a.head.logger)", Why: "the histogram goes into the integer resp. the float parameter of insert"},
	})
	p := c.P
	// ---- R1 sibling decision tables ----
	normCond := func(s string) string {
		// the value-equality leaf differs by sample type: dropped from the table
		for _, leaf := range []string{"lastHistogramValue", "lastFloatHistogramValue", "lastValue", ".Equals("} {
			if strings.Contains(s, leaf) {
				return ""
			}
		}
		return s
	}
	normRet := func(s string) string {
		if strings.Contains(s, "Duplicate") {
			parts := strings.SplitN(s, ", ", 3)
			return parts[0] + ", " + parts[1] + ", <duplicate-sample error>"
		}
		return s
	}
	var ref []string
	for i, fn := range []string{"tsdb:memSeries.appendable", "tsdb:memSeries.appendableHistogram", "tsdb:memSeries.appendableFloatHistogram"} {
		f := c.Fn(fn)
		rows := f.DecisionTable(normCond, normRet)
		key := eng.TableKey(rows)
		if i == 0 {
			ref = key
			// the reference table has the documented shape: 9 distinct rows, exactly one OOO-accept row, in-order accept rows return (false, 0, nil)
			c.Check("R1", f.Where(), "decision table extracted (≥ 9 distinct rows)", len(key) >= 9, p.Pos(f.Body.Pos()), "rows: "+strings.Join(key, " ;; "))
			nOOO := 0
			for _, r := range key {
				if strings.HasSuffix(r, "→ true, headMaxt - t, nil") {
					nOOO++
					ok := strings.Contains(r, "oooTimeWindow > 0 && t >= headMaxt - oooTimeWindow=T")
					c.Check("R1", f.Where(), "the out-of-order accept row requires the OOO window test", ok, p.Pos(f.Body.Pos()), r)
				}
				if strings.HasSuffix(r, "→ false, 0, nil") {
					ok := strings.Contains(r, "t >= minValidTime=T")
					c.Check("R1", f.Where(), "every in-order accept row requires t >= minValidTime", ok, p.Pos(f.Body.Pos()), r)
				}
			}
			c.Check("R1", f.Where(), "an out-of-order accept row exists", nOOO >= 1, p.Pos(f.Body.Pos()), strings.Join(key, " ;; "))
			// every row that rejects is a row on which neither an in-order accept nor the OOO window test succeeded
			for _, r := range key {
				if strings.Contains(r, "storage.Err") && !strings.Contains(r, "duplicate") {
					ok := strings.Contains(r, "oooTimeWindow > 0 && t >= headMaxt - oooTimeWindow=F")
					c.Check("R1", f.Where(), "every out-of-bounds / too-old / out-of-order rejection follows a failed OOO window test", ok, p.Pos(f.Body.Pos()), r)
				}
			}
			continue
		}
		same := strings.Join(key, "\n") == strings.Join(ref, "\n")
		diff := ""
		if !same {
			diff = "rows only here: " + strings.Join(eng.SetDiff(key, ref), " ;; ") + " — rows only in appendable: " + strings.Join(eng.SetDiff(ref, key), " ;; ")
		}
		c.Check("R1", f.Where(), "decision table equals that of memSeries.appendable (up to the value-equality leaf)", same, p.Pos(f.Body.Pos()), diff)
	}
	// ---- R2 commit re-validates and never writes a rejected sample ----
	window := func(f *eng.Fn) func(l eng.Loc) bool {
		return func(l eng.Loc) bool {
			a := l.Node.(*ast.CallExpr).Args
			n := len(a)
			return n >= 5 && p.IsFieldExpr("tsdb:headAppenderBase.headMaxt")(f.Graph, a[n-3]) &&
				p.IsFieldExpr("tsdb:headAppenderBase.minValidTime")(f.Graph, a[n-2]) && p.IsFieldExpr("tsdb:headAppenderBase.oooTimeWindow")(f.Graph, a[n-1])
		}
	}
	for _, s := range []struct{ fn, adm, app string }{
		{"tsdb:headAppenderBase.commitFloats", "tsdb:memSeries.appendable", "tsdb:memSeries.append"},
		{"tsdb:headAppenderBase.commitHistograms", "tsdb:memSeries.appendableHistogram", "tsdb:memSeries.appendHistogram"},
		{"tsdb:headAppenderBase.commitFloatHistograms", "tsdb:memSeries.appendableFloatHistogram", "tsdb:memSeries.appendFloatHistogram"},
	} {
		f := c.Fn(s.fn)
		adm, app, ins := p.Call(s.adm), p.Call(s.app), p.Call("tsdb:memSeries.insert")
		f.Dom("R2", adm, app)
		f.Dom("R2", adm, ins)
		rej := f.GivenBranch("err != nil", true)
		rej.Unreachable("R2", app)
		rej.Unreachable("R2", ins)
		f.GivenBranch("err != nil", false).GivenBranch("oooSample", true).Unreachable("R2", app) // an OOO sample never enters the in-order chunk
		f.GivenBranch("err != nil", false).GivenBranch("oooSample", false).Unreachable("R2", ins)
		f.Only("R2", adm, "is called with the appender's snapshotted window (a.headMaxt, a.minValidTime, a.oooTimeWindow)", window(f))
	}
	// ---- R3 the window is snapshotted once ----
	for _, fld := range []string{"minValidTime", "headMaxt", "oooTimeWindow"} {
		c.WritersSubset("R3", "tsdb:headAppenderBase."+fld, 2, "tsdb:Head.appender", "tsdb:Head.appenderV2")
	}
	// ---- R4 append paths validate with the same functions and mark pending only on success ----
	pend := p.StoreVal("tsdb:memSeries.pendingCommit", "true", eng.IsIdent("true"))
	for _, s := range []struct{ fn, adm string }{
		{"tsdb:headAppender.Append", "tsdb:memSeries.appendable"},
		{"tsdb:headAppenderV2.appendFloat", "tsdb:memSeries.appendable"},
		{"tsdb:headAppenderV2.appendHistogram", "tsdb:memSeries.appendableHistogram"},
		{"tsdb:headAppenderV2.appendFloatHistogram", "tsdb:memSeries.appendableFloatHistogram"},
	} {
		f := c.Fn(s.fn)
		f.Dom("R4", p.Call(s.adm), pend)
		f.GivenBranch("err == nil", false).Unreachable("R4", pend)
		f.Only("R4", p.Call(s.adm), "is called with the appender's snapshotted window", window(f))
		// a rejected sample is not queued
		f.GivenBranch("err != nil", true).GivenBranch("err == nil", false).Unreachable("R4", p.Call("tsdb:headAppenderBase.getCurrentBatch"))
	}
	{
		f := c.Fn("tsdb:headAppender.AppendHistogram")
		f.Has("R4", p.Call("tsdb:memSeries.appendableHistogram"), 1)
		f.Has("R4", p.Call("tsdb:memSeries.appendableFloatHistogram"), 1)
		f.GivenBranch("err == nil", false).Unreachable("R4", pend)
	}
	{
		// v2 re-dispatches a float staleness marker as a histogram marker by calling itself: the option
		// that affects admission must be forwarded
		f := c.Fn("tsdb:headAppenderV2.Append")
		f.Only("R4", p.Call("tsdb:headAppenderV2.Append"), "forwards opts.RejectOutOfOrder", func(l eng.Loc) bool {
			a := l.Node.(*ast.CallExpr).Args
			last := eng.ExprString(a[len(a)-1])
			if last == "opts" {
				return true
			}
			cl, ok := a[len(a)-1].(*ast.CompositeLit)
			if !ok {
				return false
			}
			for _, el := range cl.Elts {
				if kv, ok := el.(*ast.KeyValueExpr); ok && eng.ExprString(kv.Key) == "RejectOutOfOrder" && eng.ExprString(kv.Value) == "opts.RejectOutOfOrder" {
					return true
				}
			}
			return false
		})
	}
	// ---- R5 commit order inside a batch ----
	cm := c.Fn("tsdb:headAppenderBase.Commit")
	cm.Chain("R5", p.Call("tsdb:headAppenderBase.commitFloats"), p.Call("tsdb:headAppenderBase.commitHistograms"), p.Call("tsdb:headAppenderBase.commitFloatHistograms"))
	cm.NoPath("R5", p.Call("tsdb:headAppenderBase.unmarkCreatedSeriesAsPendingCommit"), p.Call("tsdb:headAppenderBase.commitFloats"))
}
