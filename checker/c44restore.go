package main

import (
	"fmt"
	"go/ast"
	"strings"

	"promverif/eng"
)

// C44.R4 (added for seed C44-c): the 'for' state is restored from the *last* sample of the ALERTS_FOR_STATE series, and
// a staleness marker as that last sample means the previous occurrence of the alert had ended — a new occurrence
// starts its own pending period.  In RestoreForState: the loop over the series' samples takes every sample (the
// assignment from it.At() is under no condition inside the loop, so the marker is not skipped), and between the loop
// and the first use of the restored value there is a test IsStaleNaN(<that value>) that leaves without restoring.
func runC44Restore(c *eng.Ctx) {
	p := c.P
	g := c.Fn("rules:Group.RestoreForState")
	loops := 0
	ast.Inspect(g.Body, func(x ast.Node) bool {
		fs, ok := x.(*ast.ForStmt)
		if !ok || fs.Cond == nil || !strings.Contains(nodeText(fs.Cond), ".Next()") || !strings.Contains(nodeText(fs.Cond), "chunkenc.Val") { // the loop over a series' samples
			return true
		}
		loops++
		var takes []*ast.AssignStmt
		ast.Inspect(fs.Body, func(y ast.Node) bool {
			if as, ok := y.(*ast.AssignStmt); ok && len(as.Rhs) == 1 && strings.HasSuffix(nodeText(as.Rhs[0]), ".At()") {
				takes = append(takes, as)
			}
			return true
		})
		ok = len(takes) == 1 && len(fs.Body.List) == 1 && fs.Body.List[0] == ast.Stmt(takes[0]) && takes[0].Tok.String() == "=" && len(takes[0].Lhs) == 2
		detail := ""
		if !ok {
			detail = nodeText(fs.Body) + " — a sample skipped here (e.g. the staleness marker that ends an occurrence) lets an older activation time be restored for a new occurrence of the alert"
		}
		c.Check("R4", g.Where(), "the loop that finds the last stored 'for'-state sample takes every sample (its body is the one assignment from it.At())", ok, p.Pos(fs.Pos()), detail)
		if !ok {
			return true
		}
		val := nodeText(takes[0].Lhs[1])
		// the stale test on that value, leaving the closure, before the value is used
		stale := eng.Node("if value.IsStaleNaN("+val+") { return }", func(gr *eng.Graph, n ast.Node) bool {
			call, ok := n.(*ast.CallExpr)
			return ok && strings.HasSuffix(nodeText(call.Fun), "IsStaleNaN") && len(call.Args) == 1 && nodeText(call.Args[0]) == val
		})
		hasStale := false
		ast.Inspect(g.Body, func(y ast.Node) bool {
			if call, ok := y.(*ast.CallExpr); ok && strings.HasSuffix(nodeText(call.Fun), "IsStaleNaN") && len(call.Args) == 1 && nodeText(call.Args[0]) == val {
				hasStale = true
			}
			return true
		})
		var cl *eng.Fn
		if hasStale {
			cl = g.InnerClosure("restore", stale)
		}
		if cl == nil {
			c.Fail("R4", g.Where(), "the last sample being a staleness marker ends the restoration for that alert", p.Pos(fs.Pos()), "no IsStaleNaN("+val+") test")
			return true
		}
		use := eng.Node("use of "+val+" as the activation time", func(gr *eng.Graph, n ast.Node) bool {
			call, ok := n.(*ast.CallExpr)
			return ok && nodeText(call.Fun) == "time.Unix" && len(call.Args) >= 1 && strings.Contains(nodeText(call.Args[0]), val)
		})
		cl.Has("R4", use, 1)
		cl.Only("R4", use, "runs only when the last sample is not a staleness marker", func(l eng.Loc) bool {
			return cl.UnderCondFalse(l, "IsStaleNaN("+val+")") || cl.UnderCond(l, "!", "IsStaleNaN("+val+")")
		})
		return true
	})
	c.Check("R4", g.Where(), "sample loop of the restoration found", loops == 1, p.Pos(g.Body.Pos()), fmt.Sprint(loops))
}
