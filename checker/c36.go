package main

import (
	"fmt"
	"go/ast"
	"sort"
	"strings"

	"promverif/eng"
)

func init() {
	register(&Property{
		ID:        "C36",
		Title:     "Classic histograms convert to custom-bucket histograms without loss",
		Technique: "typestate rules over NHCBParser.state: the transition relation is extracted from every store to the state field with its controlling test (go/cfg branch arms, enum-switch clauses) and compared with the collect/emit protocol; def-use rule between what the accessors return while emitting and what processNHCB stores before entering that state; go/cfg all-paths rules for the flush points; field-reset completeness of the temporary histogram",
		DesignRef: "DESIGN.md §5 C36",
		Level: "Decides the collect/emit protocol only: which tests control each state transition; that a classic series is collected into the temporary histogram through the setter matching its suffix (bucket, count, sum) with the series' own value and that `true` (series converted) is returned only after it was collected; that collection of a new histogram starts by recording its labels, start timestamp and base label set; " +
			"that everything the accessors hand out in the emitting state was stored by processNHCB before it entered that state; that the temporary state is cleared whenever the state machine leaves collecting; that a pending histogram is flushed before any other entry or a series of a different metric is processed and at end of input; " +
			"that the classic series is swallowed only under `converted && !keepClassicHistograms`; that an exponential histogram inhibits conversion until a different metric arrives.",
		Note:           "Trusted: go/packages, go/types, go/cfg; rule tables in checker/c36.go.",
		Covers:         "model/textparse: NHCBParser.{Next,processNHCB,handleClassicHistogramSeries,processClassicHistogramSeries,differentMetric,Histogram,Labels,Exemplar,StartTimestamp}; util/convertnhcb: TempHistogram.Reset, GetHistogramMetricBaseName.",
		NotCover:       "bucket de-cumulation arithmetic, integer/float choice, compaction of the converted histogram, label hashing collisions, exemplar ordering (values computed at run time).",
		Run:            runC36,
		MinObligations: 40,
	})
}

func runC36(c *eng.Ctx) {
	p := c.P
	N := "model/textparse:NHCBParser"
	state := N + ".state"
	store := func(val string) eng.Matcher { return p.StoreVal(state, val, eng.IsIdent(val)) }
	stmt := func(text string) eng.Matcher {
		return eng.Node(text, func(g *eng.Graph, n ast.Node) bool { return nodeText(n) == text })
	}
	callText := func(text string) eng.Matcher {
		return eng.Node(text, func(g *eng.Graph, n ast.Node) bool {
			call, ok := n.(*ast.CallExpr)
			return ok && nodeText(call) == text
		})
	}
	nx := c.Fn(N + ".Next")
	pn := c.Fn(N + ".processNHCB")
	pc := c.Fn(N + ".processClassicHistogramSeries")
	hc := c.Fn(N + ".handleClassicHistogramSeries")

	// ---- R1 transition relation ----
	c.WritersSubset("R1", state, 6, N+".Next", N+".processNHCB", N+".processClassicHistogramSeries")
	var rel []string
	edge := func(f *eng.Fn, to, desc string, pred func(l eng.Loc) bool, n int) {
		f.Has("R1", store(to), n)
		f.Only("R1", store(to), desc, pred)
		for range f.Find(store(to)) {
			rel = append(rel, eng.Short(f.Name)+": "+desc+" → "+to)
		}
	}
	// Next: emitting → start (replay of the cached entry); inhibiting ∧ different metric → start; histogram entry → inhibiting
	sws := nx.EnumSwitches("model/textparse:collectionState")
	inhibitArmOK := false
	inhibitText := ""
	if len(sws) == 1 && sws[0].Clauses["stateInhibiting"] != nil {
		t := ""
		for _, s := range sws[0].Clauses["stateInhibiting"].Body {
			t += nodeText(s) + "\n"
		}
		inhibitText = t
		inhibitArmOK = strings.HasPrefix(t, "if p.differentMetric() {") && strings.Contains(t, "p.state = stateStart isNHCB = p.handleClassicHistogramSeries(p.lset) } else {") && strings.Contains(t, "isNHCB = false")
	}
	c.Check("R1", nx.Where(), "in the inhibiting state a series restarts collection only when it belongs to a different metric; otherwise it is not converted", inhibitArmOK, p.Pos(nx.Body.Pos()), inhibitText)
	edge(nx, "stateStart", "happens when leaving the emitting state or, in the inhibiting state, on a different metric", func(l eng.Loc) bool {
		return nx.UnderCond(l, "p.state == stateEmitting") || nx.UnderCond(l, "p.differentMetric()")
	}, 2)
	entrySws := nx.EnumSwitches("model/textparse:Entry")
	histArmOK := false
	if len(entrySws) == 1 && entrySws[0].Clauses["EntryHistogram"] != nil {
		t := ""
		for _, s := range entrySws[0].Clauses["EntryHistogram"].Body {
			t += nodeText(s) + "\n"
		}
		histArmOK = strings.HasPrefix(t, "p.state = stateInhibiting\n") && strings.Contains(t, "p.parser.Histogram()") && strings.Contains(t, "p.parser.Labels(&p.lset)\np.storeExponentialLabels()")
	}
	c.Check("R1", nx.Where(), "an exponential histogram entry inhibits conversion and records its labels", histArmOK, p.Pos(nx.Body.Pos()), "")
	edge(nx, "stateInhibiting", "happens for an exponential histogram entry", func(l eng.Loc) bool { return histArmOK }, 1)
	edge(pc, "stateCollecting", "is entered from any other state when a classic series is collected", func(l eng.Loc) bool { return pc.UnderCond(l, "p.state != stateCollecting") }, 1)
	edge(pn, "stateEmitting", "requires a successful conversion", func(l eng.Loc) bool { return pn.UnderCond(l, "err == nil") }, 1)
	edge(pn, "stateStart", "follows a failed conversion", func(l eng.Loc) bool { return pn.UnderCondFalse(l, "err == nil") }, 1)
	sort.Strings(rel)
	c.Check("R1", N, "stores to NHCBParser.state form exactly the six guarded transitions", len(rel) == 6, "", strings.Join(rel, "; "))
	pn.GivenBranch("p.state != stateCollecting", true).Unreachable("R1", p.Store(state)) // conversion only out of the collecting state
	pn.GivenBranch("p.state != stateCollecting", true).Unreachable("R1", callText("p.tempNHCB.Convert()"))

	// ---- R2 what is handed out while emitting was stored on entering that state ----
	emitted := map[string]bool{}
	for _, acc := range []string{"Histogram", "Labels", "Exemplar", "StartTimestamp"} {
		f := c.Fn(N + "." + acc)
		n := 0
		ast.Inspect(f.Body, func(x ast.Node) bool {
			var body []ast.Stmt
			switch s := x.(type) {
			case *ast.IfStmt:
				if eng.ExprString(s.Cond) == "p.state == stateEmitting" {
					body = s.Body.List
				}
			case *ast.CaseClause:
				if len(s.List) == 1 && eng.ExprString(s.List[0]) == "stateEmitting" {
					body = s.Body
				}
			}
			for _, st := range body {
				ast.Inspect(st, func(y ast.Node) bool {
					if se, ok := y.(*ast.SelectorExpr); ok && eng.ExprString(se.X) == "p" {
						if v := f.Info.Selections[se]; v != nil {
							if name := se.Sel.Name; name != "state" && name != "parser" {
								emitted[name] = true
								n++
							}
						}
					}
					return true
				})
			}
			return true
		})
		c.Check("R2", f.Where(), "accessor "+acc+" has an emitting arm that reads parser fields", n > 0, p.Pos(f.Body.Pos()), fmt.Sprintf("%d field reads", n))
	}
	names := eng.SortedKeys(emitted)
	c.Check("R2", N, "the emitting arms of the accessors read at least the histogram, its labels, text, exemplars, timestamp and start timestamp (≥ 7 fields)", len(names) >= 7, "", strings.Join(names, ","))
	// what is emitted is built from what was recorded while collecting, never from the cache of the entry that triggered the flush
	for _, cur := range []string{"bytes", "ts", "value", "h", "fh", "lset"} {
		pn.Hasnt("R2", p.FieldUse(N+"."+cur))
	}
	for _, name := range names {
		st := p.Store(N + "." + name)
		if name == "exemplars" {
			st = p.Call(N + ".swapExemplars")
		}
		if name == "hNHCB" || name == "fhNHCB" {
			// Convert returns one of the two histograms when it returns no error (a run-time fact): decided given either is non-nil
			pn.GivenBranch("fh != nil", true).Dom("R2", st, store("stateEmitting"))
			continue
		}
		pn.Dom("R2", st, store("stateEmitting"))
	}
	sw := c.Fn(N + ".swapExemplars")
	sw.Only("R2", p.Store(N+".exemplars"), "hands over exactly the exemplars collected for this histogram", func(l eng.Loc) bool {
		return nodeText(l.Node) == "p.exemplars = p.tempExemplars[:p.tempExemplarCount]"
	})
	pn.Only("R2", p.Store(N+".lsetNHCB"), "takes the labels recorded when collection started", func(l eng.Loc) bool { return nodeText(l.Node) == "p.lsetNHCB = p.tempLsetNHCB" })
	pn.Only("R2", p.Store(N+".tsNHCB"), "is nil or points to a copy of the timestamp recorded when collection started", func(l eng.Loc) bool {
		t := nodeText(l.Node)
		return t == "p.tsNHCB = nil" || (t == "p.tsNHCB = &ts" && pn.UnderCond(l, "p.tempHasTS"))
	})
	pn.Only("R2", eng.AssignVar("ts"), "copies the recorded timestamp", func(l eng.Loc) bool { return nodeText(l.Node) == "ts := p.tempTS" })
	pn.Only("R2", p.Store(N+".stNHCB"), "takes the start timestamp recorded when collection started", func(l eng.Loc) bool { return nodeText(l.Node) == "p.stNHCB = p.tempST" })
	pn.Only("R2", p.Store(N+".hNHCB"), "stores the converted integer histogram or clears it", func(l eng.Loc) bool {
		t := nodeText(l.Node)
		return (t == "p.hNHCB = h" && pn.UnderCond(l, "h != nil")) || (t == "p.hNHCB = nil" && pn.UnderCond(l, "fh != nil"))
	})
	pn.Only("R2", p.Store(N+".fhNHCB"), "stores the converted float histogram or clears it", func(l eng.Loc) bool {
		t := nodeText(l.Node)
		return (t == "p.fhNHCB = fh" && pn.UnderCond(l, "fh != nil")) || (t == "p.fhNHCB = nil" && pn.UnderCond(l, "h != nil"))
	})
	pn.Only("R2", eng.AssignVar("h"), "is the result of converting the collected histogram", func(l eng.Loc) bool { return nodeText(l.Node) == "h, fh, err := p.tempNHCB.Convert()" })
	// the temporary state is cleared whenever the machine leaves collecting
	for _, st := range []eng.Matcher{store("stateEmitting"), store("stateStart")} {
		pn.AllPaths("R2", st, callText("p.tempNHCB.Reset()"), eng.AnyExit)
		pn.AllPaths("R2", st, stmt("p.tempExemplarCount = 0"), eng.AnyExit)
		pn.AllPaths("R2", st, stmt("p.tempST = 0"), eng.AnyExit)
	}
	// a conversion attempt always ends the collection: whatever Convert or Validate say, the state is decided and the temporary histogram cleared
	pn.AllPaths("R2", callText("p.tempNHCB.Convert()"), p.Store(state), eng.AnyExit)
	pn.AllPaths("R2", callText("p.tempNHCB.Convert()"), callText("p.tempNHCB.Reset()"), eng.AnyExit)
	pn.NoPath("R2", callText("p.tempNHCB.Reset()"), callText("p.tempNHCB.Convert()"))
	pn.NoPath("R2", stmt("p.tempExemplarCount = 0"), p.Call(N+".swapExemplars"))
	c.AssignsAllFields("R2", "util/convertnhcb:TempHistogram.Reset", "util/convertnhcb:TempHistogram", nil)

	// ---- R3 collecting ----
	{
		begin := []eng.Matcher{p.Call(N + ".storeClassicLabels"), p.Store(N + ".tempST"), p.Store(N + ".tempLsetNHCB"), p.Store(N + ".tempHasTS")}
		for _, b := range begin {
			pc.Has("R3", b, 1)
			pc.Only("R3", b, "happens exactly when a new collection starts", func(l eng.Loc) bool { return pc.UnderCond(l, "p.state != stateCollecting") })
			pc.GivenBranch("p.state != stateCollecting", true).DomOK("R3", b)
		}
		pc.Only("R3", p.Store(N+".tempLsetNHCB"), "is the series' label set reduced to the histogram's base name", func(l eng.Loc) bool {
			return nodeText(l.Node) == "p.tempLsetNHCB = convertnhcb.GetHistogramMetricBase(lset, name)"
		})
		pc.Only("R3", p.Store(N+".tempST"), "is the series' start timestamp when start timestamps are parsed, else 0", func(l eng.Loc) bool {
			t := nodeText(l.Node)
			return (t == "p.tempST = p.parser.StartTimestamp()" && pc.UnderCond(l, "p.parseST")) || (t == "p.tempST = 0" && pc.UnderCondFalse(l, "p.parseST"))
		})
		pc.Only("R3", p.Store(N+".tempHasTS"), "records whether the collected series has a timestamp", func(l eng.Loc) bool { return nodeText(l.Node) == "p.tempHasTS = p.ts != nil" })
		pc.Only("R3", p.Store(N+".tempTS"), "copies the collected series' timestamp by value", func(l eng.Loc) bool {
			return nodeText(l.Node) == "p.tempTS = *p.ts" && pc.UnderCond(l, "p.tempHasTS")
		})
		pc.Has("R3", p.Store(N+".tempTS"), 1)
		pc.DomOK("R3", p.Call(N+".storeExemplars"))
		pc.DomOK("R3", callText("updateHist(&p.tempNHCB)"))
		// suffix → setter, each with the value of this series
		hsw := hc.EnumSwitches("util/convertnhcb:SuffixType")
		want := map[string]string{"SuffixBucket": "hist.SetBucketCount(le, p.value)", "SuffixCount": "hist.SetCount(p.value)", "SuffixSum": "hist.SetSum(p.value)"}
		for _, k := range eng.SortedKeys(want) {
			ok := false
			if len(hsw) == 1 && hsw[0].Clauses[k] != nil {
				t := ""
				for _, s := range hsw[0].Clauses[k].Body {
					t += nodeText(s) + "\n"
				}
				ok = strings.Contains(t, want[k]) && strings.Contains(t, "p.processClassicHistogramSeries(lset, name, func(hist *convertnhcb.TempHistogram) {") && strings.Count(t, "hist.Set") == 1
			}
			c.Check("R3", hc.Where(), "a series with suffix "+k+" is collected with "+want[k], ok, p.Pos(hc.Body.Pos()), "")
		}
		hc.SwitchCovers("R3", "util/convertnhcb:SuffixType", 1, map[string]string{"SuffixNone": "not a classic histogram series: passes through (returns false)"})
		retTrue := eng.Return("return true (series converted)", func(g *eng.Graph, rs *ast.ReturnStmt) bool {
			return len(rs.Results) == 1 && eng.ExprString(rs.Results[0]) == "true"
		})
		hc.Has("R3", retTrue, 3)
		hc.Dom("R3", p.Call(N+".processClassicHistogramSeries"), retTrue) // a series is reported as converted only after it was collected
		hc.NoPath("R3", p.Call(N+".processClassicHistogramSeries"), eng.Return("return false", func(g *eng.Graph, rs *ast.ReturnStmt) bool {
			return len(rs.Results) == 1 && eng.ExprString(rs.Results[0]) == "false"
		})) // and a collected series is never also passed through as unconverted
		hc.GivenBranch("p.typ != model.MetricTypeHistogram", true).Unreachable("R3", p.Call(N+".processClassicHistogramSeries"))
		hc.GivenBranch("name != string(p.bName)", true).Unreachable("R3", p.Call(N+".processClassicHistogramSeries"))
		hc.Only("R3", eng.AssignVar("suffixType"), "splits the series' own metric name", func(l eng.Loc) bool {
			return nodeText(l.Node) == "suffixType, name := convertnhcb.GetHistogramMetricBaseName(mName)"
		})
		hc.Only("R3", eng.AssignVar("le"), "parses the series' le label", func(l eng.Loc) bool {
			return nodeText(l.Node) == "le, err := strconv.ParseFloat(lset.Get(labels.BucketLabel), 64)"
		})
		// suffix table
		gb := c.Fn("util/convertnhcb:GetHistogramMetricBaseName")
		for suf, k := range map[string]string{"_bucket": "SuffixBucket", "_sum": "SuffixSum", "_count": "SuffixCount"} {
			suf, k := suf, k
			gb.Only("R3", eng.Return("return "+k, func(g *eng.Graph, rs *ast.ReturnStmt) bool {
				return len(rs.Results) == 2 && eng.ExprString(rs.Results[0]) == k
			}), "follows the cut of suffix "+suf, func(l eng.Loc) bool {
				return gb.UnderCond(l, "ok") && eng.ExprString(l.Node.(*ast.ReturnStmt).Results[1]) == "r" && strings.Contains(nodeTextOfEnclosingIf(gb, l), `strings.CutSuffix(s, "`+suf+`")`)
			})
		}
	}
	// ---- R6 exemplars ----
	{
		// The wrapped parsers fill an exemplar in place and set HasTs/Ts only when the exemplar has a timestamp
		// (derived below), so every slot handed to them must be zero.
		cond := 0
		for _, filler := range []string{"model/textparse:OpenMetricsParser.Exemplar", "model/textparse:ProtobufParser.Exemplar"} {
			f := c.Fn(filler)
			for _, l := range f.Find(p.Store("model/exemplar:Exemplar.HasTs")) {
				if len(f.CondsOf(l.Node)) > 0 {
					cond++
				}
			}
		}
		c.Check("R6", N, "the wrapped parsers' Exemplar() set HasTs only conditionally (callers must pass a zeroed exemplar)", cond == 2, "", fmt.Sprintf("%d conditional stores", cond))
		ne := c.Fn(N + ".nextExemplarPtr")
		zero := eng.Node("a zero exemplar.Exemplar{} written to the slot", func(g *eng.Graph, n ast.Node) bool {
			as, ok := n.(*ast.AssignStmt)
			if !ok || len(as.Rhs) != 1 {
				return false
			}
			r := eng.ExprString(as.Rhs[0])
			return (r == "exemplar.Exemplar{}" && strings.HasPrefix(eng.ExprString(as.Lhs[0]), "*")) || (r == "exemplar.Exemplar{}" && strings.HasPrefix(eng.ExprString(as.Lhs[0]), "p.tempExemplars[")) || r == "append(p.tempExemplars, exemplar.Exemplar{})"
		})
		ne.DomOK("R6", zero)
		// tempExemplarCount counts the filled slots at the front of tempExemplars and nextExemplarPtr extends the slice
		// by at most one beyond it: the two are reset together
		resetCount := stmt("p.tempExemplarCount = 0")
		pn.Has("R6", resetCount, 1)
		pn.Only("R6", resetCount, "is paired with the truncation of tempExemplars in the same block", func(l eng.Loc) bool {
			for _, t := range pn.Find(stmt("p.tempExemplars = p.tempExemplars[:0]")) {
				if t.Blk == l.Blk {
					return true
				}
			}
			return false
		})
		// a kept classic series is returned to the caller after its exemplars were taken from the wrapped parser:
		// Exemplar() must serve them from what was stored
		ex := c.Fn(N + ".Exemplar")
		drains := len(pc.Find(p.Call(N+".storeExemplars"))) > 0 && len(pc.CondsOf(pc.Find(p.Call(N + ".storeExemplars"))[0].Node)) == 0
		replays := len(ex.Find(p.FieldUse(N+".tempExemplars"))) > 0
		if replays {
			// the window served is exactly what storeExemplars added for this series, and it is closed when the cursor moves
			pc.PassesBetween("R6", p.Store(N+".seriesExemplarPos"), p.Call(N+".storeExemplars"), p.Store(N+".seriesExemplarEnd"))
			pc.Only("R6", p.Store(N+".seriesExemplarPos"), "opens the window at the number of exemplars stored so far", func(l eng.Loc) bool {
				return nodeText(l.Node) == "p.seriesExemplarPos = p.tempExemplarCount"
			})
			pc.Only("R6", p.Store(N+".seriesExemplarEnd"), "closes the window at the number of exemplars stored so far", func(l eng.Loc) bool {
				return nodeText(l.Node) == "p.seriesExemplarEnd = p.tempExemplarCount"
			})
			nx.Dom("R6", stmt("p.seriesExemplarPos, p.seriesExemplarEnd = 0, 0"), eng.Or(callText("p.parser.Next()"), p.Call(N+".handleClassicHistogramSeries")))
			ex.Only("R6", eng.Return("return true", func(g *eng.Graph, rs *ast.ReturnStmt) bool {
				return len(rs.Results) == 1 && eng.ExprString(rs.Results[0]) == "true"
			}),
				"serves the emitted histogram's exemplars while emitting, else the window of the series under the cursor", func(l eng.Loc) bool {
					return ex.UnderCond(l, "p.state == stateEmitting") || ex.UnderCond(l, "p.seriesExemplarPos < p.seriesExemplarEnd")
				})
		}
		c.Check("R6", ex.Where(), "a kept classic series' exemplars, drained from the wrapped parser while collecting, are served by Exemplar() from the stored copies", !drains || replays, p.Pos(ex.Body.Pos()),
			"processClassicHistogramSeries drains the wrapped parser's exemplars unconditionally; Exemplar() outside the emitting state only delegates to the drained parser")
	}
	// ---- R4 flush points in Next ----
	{
		flush := p.Call(N + ".processNHCB")
		handle := p.Call(N + ".handleClassicHistogramSeries")
		nx.Has("R4", flush, 3)
		// end of input
		nx.Only("R4", eng.Return("return EntryInvalid, p.err", func(g *eng.Graph, rs *ast.ReturnStmt) bool {
			return len(rs.Results) == 2 && eng.ExprString(rs.Results[0]) == "EntryInvalid" && eng.ExprString(rs.Results[1]) == "p.err"
		}), "is preceded by a flush attempt when the error is io.EOF", func(l eng.Loc) bool { return nx.UnderCond(l, "p.err != nil") })
		nx.AstEvery("R4", "error arm of the wrapped parser's Next", func(n ast.Node) bool {
			is, ok := n.(*ast.IfStmt)
			return ok && eng.ExprString(is.Cond) == "p.err != nil"
		}, "flushes a pending histogram at io.EOF before reporting the end", func(n ast.Node) bool {
			t := nodeText(n.(*ast.IfStmt).Body)
			return strings.Contains(t, "if errors.Is(p.err, io.EOF) && p.processNHCB() {") && strings.Contains(t, "return EntryHistogram, nil") && strings.Contains(t, "return EntryInvalid, p.err")
		}, 1)
		// a series of a different metric while collecting
		collectArmOK := false
		if len(sws) == 1 && sws[0].Clauses["stateCollecting"] != nil {
			t := ""
			for _, s := range sws[0].Clauses["stateCollecting"].Body {
				t += nodeText(s) + "\n"
			}
			collectArmOK = strings.HasPrefix(t, "if p.differentMetric() && p.processNHCB() {") && strings.Contains(t, "return EntryHistogram, nil") && strings.HasSuffix(strings.TrimSpace(t), "isNHCB = p.handleClassicHistogramSeries(p.lset)")
		}
		c.Check("R4", nx.Where(), "while collecting, a series of a different metric flushes the pending histogram before it is handled", collectArmOK, p.Pos(nx.Body.Pos()), "")
		nx.SwitchCovers("R4", "model/textparse:collectionState", 1, map[string]string{"stateEmitting": "handled before the wrapped parser is advanced (top of the loop)"})
		// every other entry flushes before it is returned
		finalRet := eng.Return("return p.entry, p.err", func(g *eng.Graph, rs *ast.ReturnStmt) bool {
			return len(rs.Results) == 2 && eng.ExprString(rs.Results[0]) == "p.entry" && eng.ExprString(rs.Results[1]) == "p.err"
		})
		nx.Has("R4", finalRet, 3)
		var last eng.Loc
		for _, l := range nx.Find(finalRet) {
			if last.Node == nil || l.Node.Pos() > last.Node.Pos() {
				last = l
			}
		}
		lastRet := eng.Node("the final return p.entry, p.err", func(g *eng.Graph, n ast.Node) bool { return n == last.Node })
		nx.PassesBetween("R4", eng.Or(stmt("p.bName, p.typ = p.parser.Type()"), p.Call(N+".storeExponentialLabels")), flush, lastRet)
		nx.Dom("R4", eng.CondTest("p.processNHCB()"), lastRet)
		// the classic series is swallowed only when it was converted and classic series are not kept
		conts := nx.Branches("continue")
		okc := len(conts) == 2
		for _, b := range conts {
			if len(b.Conds) == 0 || b.Conds[len(b.Conds)-1] != "isNHCB && !p.keepClassicHistograms=T" {
				okc = false
			}
		}
		c.Check("R4", nx.Where(), "a series is swallowed (`continue`) only under isNHCB && !p.keepClassicHistograms (2 sites)", okc, p.Pos(nx.Body.Pos()), fmt.Sprintf("%d continue(s)", len(conts)))
		nx.Only("R4", eng.AssignVar("isNHCB"), "is false or the result of collecting this series", func(l eng.Loc) bool {
			t := nodeText(l.Node)
			if _, ok := l.Node.(*ast.AssignStmt); !ok {
				return true // the declaration
			}
			return t == "isNHCB = false" || t == "isNHCB = p.handleClassicHistogramSeries(p.lset)" || t == "isNHCB := p.handleClassicHistogramSeries(p.lset)" || t == "var isNHCB bool"
		})
		// replay after emitting: the cached series is collected, then returned (or swallowed)
		nx.GivenBranch("p.state == stateEmitting", true).Dom("R4", store("stateStart"), handle)
		replay := 0
		for _, l := range nx.Find(handle) {
			if cs := strings.Join(nx.CondsOf(l.Node), " ; "); strings.HasPrefix(cs, "p.state == stateEmitting=T") {
				replay++
				c.Check("R4", nx.Where(), "after an emit the cached entry is collected exactly when it is a series", cs == "p.state == stateEmitting=T ; p.entry == EntrySeries=T", nx.At(l), cs)
			}
		}
		c.Check("R4", nx.Where(), "the emitting arm replays the cached series through handleClassicHistogramSeries", replay == 1, p.Pos(nx.Body.Pos()), "")
		nx.Only("R4", handle, "collects the series most recently read from the wrapped parser", func(l eng.Loc) bool {
			a := eng.CallArgsText(l)
			return len(a) == 1 && a[0] == "p.lset"
		})
		// series values are cached before they are collected
		nx.Dom("R4", stmt("p.bytes, p.ts, p.value = p.parser.Series()"), eng.CondTest("p.differentMetric()"))
		nx.Dom("R4", callText("p.parser.Labels(&p.lset)"), eng.CondTest("p.differentMetric()"))
	}
	// ---- R5 "different metric" ----
	{
		dm := c.Fn(N + ".differentMetric")
		retTrue := eng.Return("return true", func(g *eng.Graph, rs *ast.ReturnStmt) bool {
			return len(rs.Results) == 1 && eng.ExprString(rs.Results[0]) == "true"
		})
		dm.Has("R5", retTrue, 2)
		dm.Only("R5", retTrue, "follows a type other than histogram or a different base name", func(l eng.Loc) bool {
			return dm.UnderCond(l, "p.typ != model.MetricTypeHistogram") || dm.UnderCond(l, "p.lastHistogramName != name")
		})
		dm.Only("R5", eng.Return("final return", func(g *eng.Graph, rs *ast.ReturnStmt) bool {
			return len(rs.Results) == 1 && eng.ExprString(rs.Results[0]) != "true"
		}), "compares the label hash (without le) recorded when collection started", func(l eng.Loc) bool {
			return nodeText(l.Node) == "return p.lastHistogramLabelsHash != nextHash"
		})
		dm.Only("R5", eng.AssignVar("nextHash"), "hashes the current series' labels without the le label", func(l eng.Loc) bool {
			return nodeText(l.Node) == "nextHash, hBuffer := p.lset.HashWithoutLabels(p.hBuffer, labels.BucketLabel)"
		})
		sl := c.Fn(N + ".storeClassicLabels")
		sl.Only("R5", p.Store(N+".lastHistogramLabelsHash"), "uses the same hash as differentMetric", func(l eng.Loc) bool {
			return nodeText(l.Node) == "p.lastHistogramLabelsHash, p.hBuffer = p.lset.HashWithoutLabels(p.hBuffer, labels.BucketLabel)"
		})
		sl.Has("R5", stmt("p.lastHistogramName = name"), 1)
	}
}

// nodeTextOfEnclosingIf returns the text of the innermost if statement (with its init) around l.
func nodeTextOfEnclosingIf(f *eng.Fn, l eng.Loc) string {
	var best *ast.IfStmt
	ast.Inspect(f.Body, func(n ast.Node) bool {
		if is, ok := n.(*ast.IfStmt); ok && is.Pos() <= l.Node.Pos() && l.Node.End() <= is.End() {
			best = is
		}
		return true
	})
	if best == nil {
		return ""
	}
	return nodeText(best)
}
