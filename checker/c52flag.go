package main

import (
	"fmt"
	"go/ast"
	"go/types"
	"strings"

	"promverif/eng"
)

// C52.R6 (finding F83): the chunk gauge and the created-chunks counter are bumped per sample from a flag the append
// returns (`if chunkCreated { onChunkCreated(…) }`).  A flag that lives across iterations of the sample loop and is
// assigned only in the arms that actually append keeps the previous sample's answer for a sample that is rejected —
// the gauge is bumped twice for one chunk.  For every bool variable of package tsdb that is tested by a bare
// `if v {` at the top level of a loop body and assigned inside that body: it is declared inside the body, or every
// path from the body's first statement to the test passes an assignment to it.
func runC52Flag(c *eng.Ctx) {
	p := c.P
	sites, perIter := 0, 0
	for _, fs := range p.AllFuncs() {
		if fs.Decl.Body == nil || !strings.HasSuffix(fs.Pkg.PkgPath, "/tsdb") || strings.Contains(p.Pos(fs.Decl.Pos()), "_test.go:") {
			continue
		}
		name := eng.FuncName(fs.Obj)
		var f *eng.Fn
		ast.Inspect(fs.Decl.Body, func(x ast.Node) bool {
			var body *ast.BlockStmt
			switch l := x.(type) {
			case *ast.RangeStmt:
				body = l.Body
			case *ast.ForStmt:
				body = l.Body
			}
			if body == nil || len(body.List) < 2 {
				return true
			}
			for _, st := range body.List[1:] {
				is, ok := st.(*ast.IfStmt)
				if !ok || is.Init != nil {
					continue
				}
				id, ok := is.Cond.(*ast.Ident)
				if !ok {
					continue
				}
				v, ok := fs.Pkg.TypesInfo.Uses[id].(*types.Var)
				if !ok || v.IsField() || v.Type().String() != "bool" {
					continue
				}
				// assigned inside the body?
				assigned := false
				ast.Inspect(body, func(y ast.Node) bool {
					if as, ok := y.(*ast.AssignStmt); ok {
						for _, l := range as.Lhs {
							if lid, ok := l.(*ast.Ident); ok && fs.Pkg.TypesInfo.ObjectOf(lid) == v {
								assigned = true
							}
						}
					}
					return true
				})
				if !assigned {
					continue
				}
				sites++
				if v.Pos() >= body.Pos() && v.Pos() < body.End() {
					perIter++
					c.FnsAnalysed[name] = true
					c.Pass("R6", name, "the per-sample flag "+id.Name+" tested at the end of the loop body is declared inside it", p.Pos(is.Pos()))
					continue
				}
				if f == nil {
					f = c.Fn(name)
				}
				first, test := body.List[0], is
				a := eng.Node("start of the loop body", func(g *eng.Graph, n ast.Node) bool { return n == ast.Node(first) || firstNodeOf(first) == n })
				b := eng.Node("if "+id.Name, func(g *eng.Graph, n ast.Node) bool { return n == ast.Node(test.Cond) })
				f.PassesBetween("R6", a, eng.AssignVar(id.Name), b)
			}
			return true
		})
	}
	c.Check("R6", "tsdb", "per-sample flags tested in loops found (the three commit loops at least)", sites >= 3, "", fmt.Sprintf("%d sites, %d declared per iteration", sites, perIter))
}

// firstNodeOf returns the node go/cfg records for a simple statement (the statement itself for assignments and
// expression statements, the declaration statement for a var declaration).
func firstNodeOf(s ast.Stmt) ast.Node {
	switch x := s.(type) {
	case *ast.ExprStmt:
		return x
	case *ast.DeclStmt:
		return x
	}
	return s
}
