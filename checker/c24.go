package main

import (
	"go/ast"
	"strings"

	"promverif/eng"
)

func init() {
	register(&Property{
		ID:        "C24",
		Title:     "Persistent blocks round-trip and detect corruption",
		Technique: "integrity-gate rules (go/cfg): the checksum comparison dominates the hand-out of a chunk / of a series entry's bytes and its mismatch arm only errors; error-gate rule at every series-entry read site; wire-grammar inclusion (engine E5) between index.Writer.AddSeries and index.Decoder.Series; who-writes rule for the writer's running checksum; all-paths rule for the sampled postings-offset table state",
		DesignRef: "DESIGN.md §5 C24",
		Level: "Decides that a chunk record is handed out only after its CRC32 was verified over exactly the encoding byte and data, that a series entry is decoded only from a buffer whose CRC32 over the whole entry was compared (NewDecbufUvarintAt) and whose error was tested at each of its read sites before the decoder consumes it, " +
			"that every token sequence AddSeries can write into a series entry is one Decoder.Series reads, that the chunks of a series are written (and get their references) before its index entry, and that the reader's in-memory sample of the postings offset table refreshes its 'last value seen' state on every entry so the last value of every label name is kept.",
		Note:           "Trusted: go/packages, go/types, go/cfg; engine checker/eng/codec.go; rule tables in checker/c24.go.",
		Covers:         "chunks.Reader.ChunkOrIterable, chunks.Writer.writeChunks (CRC over what is written), encoding.NewDecbufUvarintAt, index.Reader.Series/LabelNamesFor, index.Writer.AddSeries vs index.Decoder.Series, index.newReader postings-offset sampling.",
		NotCover:       "that CRC32 detects a given alteration; symbol table and postings list contents; equality of what is read with what was written.",
		Run:            runC24,
		MinObligations: 18,
	})
}

func runC24(c *eng.Ctx) {
	defer runC24Cursor(c)
	p := c.P
	// ---- R1 integrity gates ----
	{
		r := c.Fn("tsdb/chunks:Reader.ChunkOrIterable")
		check := p.Call("tsdb/chunks:checkCRC32")
		r.Gate("R1", check, p.Call("tsdb/chunkenc:Pool.Get"))
		r.ErrPropagates("R1", check, 1)
		r.Only("R1", check, "covers the record from its encoding byte to the end of its data, against the stored sum", func(l eng.Loc) bool {
			a := eng.CallArgsText(l)
			return len(a) == 2 && a[0] == "sgmBytes.Range(chkEncStart, chkDataEnd)" && a[1] == "sum"
		})
		d := c.Fn("tsdb/encoding:NewDecbufUvarintAt")
		retDec := eng.Return("dec", func(g *eng.Graph, rs *ast.ReturnStmt) bool {
			return len(rs.Results) == 1 && eng.ExprString(rs.Results[0]) == "dec"
		})
		d.Dom("R1", eng.CondTest("dec.Crc32(castagnoliTable) != "), retDec)
		crcCond := ""
		for _, e := range d.CondExprs() {
			if t := eng.ExprString(e); strings.Contains(t, "Crc32(") {
				crcCond = t
			}
		}
		c.Check("R1", d.Where(), "the checksum over the entry is compared with the stored one (`… != …`)", strings.Contains(crcCond, " != ") && strings.Contains(crcCond, "binary.BigEndian.Uint32("), p.Pos(d.Body.Pos()), crcCond)
		if crcCond != "" {
			d.GivenBranch(crcCond, true).Unreachable("R1", retDec)
		}
		d.Only("R1", eng.Return("", nil), "returns either the verified buffer or a buffer carrying an error", func(l eng.Loc) bool {
			t := nodeText(l.Node)
			return t == "return dec" || strings.HasPrefix(t, "return Decbuf{E: ")
		})
		d.Only("R1", eng.CallNamed("Crc32"), "sums the whole entry (everything but the trailing four bytes)", func(l eng.Loc) bool {
			ok := false
			for _, a := range d.Find(eng.AssignVar("dec")) {
				if as, isAs := a.Node.(*ast.AssignStmt); isAs && nodeText(as.Rhs[0]) == "Decbuf{B: b[:len(b)-4]}" {
					ok = true
				}
			}
			return ok
		})
		// read sites of series entries
		newDec := p.Call("tsdb/encoding:NewDecbufUvarintAt")
		c.OnlyIn("R1", newDec, 2, "tsdb/index:Reader.Series", "tsdb/index:Reader.LabelNamesFor")
		s := c.Fn("tsdb/index:Reader.Series")
		s.Only("R1", newDec, "verifies with the Castagnoli table (never nil)", func(l eng.Loc) bool { a := eng.CallArgsText(l); return len(a) == 3 && a[2] == "castagnoliTable" })
		s.PassesBetween("R1", newDec, eng.CondTest("d.Err() != nil"), eng.CallNamed("Series"))
		s.GivenBranch("d.Err() != nil", true).Unreachable("R1", eng.CallNamed("Series"))
		s.ErrPropagates("R1", eng.CallNamed("Series"), 1)
		for _, fn := range []struct{ name, use string }{{"tsdb/index:Reader.LabelNamesFor", "LabelNamesOffsetsFor"}} {
			f := c.Fn(fn.name)
			f.Only("R1", newDec, "verifies with the Castagnoli table (never nil)", func(l eng.Loc) bool { a := eng.CallArgsText(l); return len(a) == 3 && a[2] == "castagnoliTable" })
			f.PassesBetween("R1", newDec, eng.CondTest("d.Err() != nil"), eng.CallNamed(fn.use))
			f.GivenBranch("d.Err() != nil", true).Unreachable("R1", eng.CallNamed(fn.use))
		}
	}
	// ---- R2 series entry grammar; chunk record checksum on the write side ----
	c.Codec("R2", "tsdb/index:Writer.AddSeries", "tsdb/index:Decoder.Series", []string{"tsdb/index"}, eng.CodecOpts{EncRecv: "buf2", Ignore: []string{"PutHash"}, Opaque: []string{"ensureStage", "addPadding", "write"}})
	{
		w := c.Fn("tsdb/index:Writer.AddSeries")
		w.Dom("R2", p.MethodOn("tsdb/index:Writer.buf2", "Reset"), p.MethodOn("tsdb/index:Writer.buf2", "PutUvarint"))
		hash := p.MethodOn("tsdb/index:Writer.buf2", "PutHash")
		w.Has("R2", hash, 1)
		w.NoPath("R2", hash, p.MethodOn("tsdb/index:Writer.buf2", "PutUvarint", "PutUvarint32", "PutUvarint64", "PutVarint64")) // the checksum covers everything written
		w.Dom("R2", hash, eng.CallNamed("write"))
		w.Only("R2", p.MethodOn("tsdb/index:Writer.buf1", "PutUvarint"), "prefixes the entry with the length of its content (before the checksum is appended)", func(l eng.Loc) bool {
			a := eng.CallArgsText(l)
			return len(a) == 1 && a[0] == "w.buf2.Len()"
		})
		w.Dom("R2", p.MethodOn("tsdb/index:Writer.buf1", "PutUvarint"), hash)
		cw := c.Fn("tsdb/chunks:Writer.writeChunks")
		cw.Has("R2", eng.CallNamed("Sum"), 1)
		cw.Has("R2", eng.CallNamed("Reset"), 1)
	}
	// ---- R3 chunk references before the index entry (shared with C07) ----
	{
		f := c.Fn("tsdb:DefaultBlockPopulator.PopulateBlock")
		f.Gate("R3", eng.OnVar("chunkw", "WriteChunks"), eng.OnVar("indexw", "AddSeries"))
	}
	// ---- R4 sampled postings offset table: the 'last value' state is refreshed on every entry ----
	{
		f := c.Fn("tsdb/index:newReader")
		cl := f.InnerClosure("offsetTableV2", eng.AssignVar("lastName"))
		cl.DomOK("R4", eng.AssignVar("lastName"))
		cl.DomOK("R4", eng.AssignVar("lastValue"))
		cl.AllPaths("R4", eng.CondTest("symbolFactor == 0"), eng.IncVar("valueCount"), eng.AnyExit)
		// the last value of a name is flushed when the next name starts and once more after the table
		flush := eng.Node("append last value", func(g *eng.Graph, n ast.Node) bool {
			as, ok := n.(*ast.AssignStmt)
			return ok && strings.Contains(nodeText(as), "postingOffset{value: string(lastValue), off: lastOff}")
		})
		cl.Has("R4", flush, 1)
		cl.Only("R4", flush, "is guarded by a pending last value", func(l eng.Loc) bool { return cl.UnderCond(l, "lastName != nil") })
		f.Has("R4", flush, 1)
		f.Dom("R4", p.Call("tsdb/index:ReadPostingsOffsetTable"), flush)
	}
}
