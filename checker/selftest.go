package main

import (
	"encoding/json"
	"fmt"
	"os"
	"os/exec"
	"path/filepath"
	"sort"
	"strings"
	"sync"
)

// Mutant is a registered single-fragment change of /repo that compiles and must make
// the named rule fire.  It is applied through packages.Config.Overlay: nothing is written
// into /repo.
type Mutant struct {
	ID       string `json:"id"`
	Property string `json:"property"`
	File     string `json:"file"` // relative to the repository root
	Old      string `json:"old"`
	New      string `json:"new"`
	Expect   string `json:"expect"` // rule id that must fire, e.g. C03.R4
	Note     string `json:"note"`
	// Files allows multi-fragment mutants (two cooperating sites).
	More []struct {
		File string `json:"file"`
		Old  string `json:"old"`
		New  string `json:"new"`
	} `json:"more,omitempty"`
}

type MutantResult struct {
	ID     string `json:"id"`
	Expect string `json:"expect"`
	Status string `json:"status"` // detected | MISSED | not-applicable | error
	Detail string `json:"detail,omitempty"`
}

func loadMutants() []Mutant {
	var out []Mutant
	files, _ := filepath.Glob(filepath.Join(verifDir, "selftest", "mutants", "*.json"))
	sort.Strings(files)
	for _, f := range files {
		b, err := os.ReadFile(f)
		if err != nil {
			continue
		}
		var ms []Mutant
		if err := json.Unmarshal(b, &ms); err != nil {
			fmt.Fprintf(os.Stderr, "%s: %v\n", f, err)
			os.Exit(2)
		}
		out = append(out, ms...)
	}
	return out
}

func runMutants(prop, repo string) []MutantResult {
	var ms []Mutant
	for _, m := range loadMutants() {
		if m.Property == prop {
			ms = append(ms, m)
		}
	}
	res := make([]MutantResult, len(ms))
	self, _ := os.Executable()
	tmp, err := os.MkdirTemp("", "promverif-mut")
	if err != nil {
		panic(err)
	}
	defer os.RemoveAll(tmp)
	sem := make(chan struct{}, 4)
	var wg sync.WaitGroup
	for i, m := range ms {
		res[i] = MutantResult{ID: m.ID, Expect: m.Expect}
		type frag struct{ file, old, new string }
		frags := []frag{{m.File, m.Old, m.New}}
		for _, x := range m.More {
			frags = append(frags, frag{x.File, x.Old, x.New})
		}
		byFile := map[string]string{}
		ok := true
		for _, fr := range frags {
			src, have := byFile[fr.file]
			if !have {
				b, err := os.ReadFile(filepath.Join(repo, fr.file))
				if err != nil {
					res[i].Status, res[i].Detail = "not-applicable", "file missing: "+fr.file
					ok = false
					break
				}
				src = string(b)
			}
			if strings.Count(src, fr.old) != 1 {
				res[i].Status, res[i].Detail = "not-applicable", fmt.Sprintf("fragment occurs %d times in %s", strings.Count(src, fr.old), fr.file)
				ok = false
				break
			}
			byFile[fr.file] = strings.Replace(src, fr.old, fr.new, 1)
		}
		if !ok {
			continue
		}
		args := []string{"check", prop, "quick", "-repo", repo, "-no-evidence", "-quiet"}
		n := 0
		for file, content := range byFile {
			tf := filepath.Join(tmp, fmt.Sprintf("m%d_%d.go", i, n))
			n++
			if err := os.WriteFile(tf, []byte(content), 0o644); err != nil {
				panic(err)
			}
			args = append(args, "-overlay", filepath.Join(repo, file)+"="+tf)
		}
		wg.Add(1)
		go func(i int, m Mutant, args []string) {
			defer wg.Done()
			sem <- struct{}{}
			defer func() { <-sem }()
			out, err := exec.Command(self, args...).CombinedOutput()
			code := 0
			if ee, ok := err.(*exec.ExitError); ok {
				code = ee.ExitCode()
			} else if err != nil {
				res[i].Status, res[i].Detail = "error", err.Error()
				return
			}
			s := string(out)
			switch {
			case code == 1 && strings.Contains(s, "FAIL "+m.Expect+" "):
				res[i].Status = "detected"
				for _, l := range strings.Split(s, "\n") {
					if strings.HasPrefix(l, "FAIL "+m.Expect+" ") {
						res[i].Detail = l
						break
					}
				}
			case code == 2:
				res[i].Status, res[i].Detail = "error", "undecided: "+lastLine(s)
			default:
				res[i].Status, res[i].Detail = "MISSED", fmt.Sprintf("exit %d; %s", code, lastLine(s))
			}
		}(i, m, args)
	}
	wg.Wait()
	return res
}

func lastLine(s string) string {
	ls := strings.Split(strings.TrimSpace(s), "\n")
	return ls[len(ls)-1]
}

func runSelftest(args []string) int {
	repo := "/repo"
	var props []string
	for i := 0; i < len(args); i++ {
		if args[i] == "-repo" {
			i++
			repo = args[i]
			continue
		}
		props = append(props, args[i])
	}
	if len(props) == 0 {
		seen := map[string]bool{}
		for _, m := range loadMutants() {
			if !seen[m.Property] {
				seen[m.Property] = true
				props = append(props, m.Property)
			}
		}
	}
	bad := 0
	for _, p := range props {
		for _, r := range runMutants(p, repo) {
			fmt.Printf("%-14s %-10s expect=%s %s\n", r.Status, r.ID, r.Expect, r.Detail)
			if r.Status == "MISSED" || r.Status == "error" {
				bad++
			}
		}
	}
	if bad > 0 {
		fmt.Printf("selftest: %d mutant(s) not detected\n", bad)
		return 2
	}
	return 0
}
