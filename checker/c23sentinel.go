package main

import (
	"fmt"
	"go/ast"
	"go/types"
	"sort"
	"strings"

	"promverif/eng"
)

// C23.R7 (finding F84): WAL replay skips a sample with `s.T <= ms.<field>` before it even tries to append it (the field
// caches the max time of the series' m-mapped chunks).  Series are created during replay by the WAL's series records
// *and* by the chunk snapshot; whatever path creates the series, a field used as such a lower bound must not be left
// at Go's zero value, which is a valid timestamp: the constructor's literal sets every int64 field of memSeries that
// guards a `continue` by `<=`/`<` in package tsdb to math.MinInt64 ("nothing to skip").
func runC23Sentinel(c *eng.Ctx) {
	p := c.P
	ms := p.Named("tsdb:memSeries")
	bounds := map[string]string{}
	for _, fs := range p.AllFuncs() {
		if fs.Decl.Body == nil || !strings.HasSuffix(fs.Pkg.PkgPath, "/tsdb") || strings.Contains(p.Pos(fs.Decl.Pos()), "_test.go:") {
			continue
		}
		ast.Inspect(fs.Decl.Body, func(x ast.Node) bool {
			is, ok := x.(*ast.IfStmt)
			if !ok || len(is.Body.List) != 1 {
				return true
			}
			if br, ok := is.Body.List[0].(*ast.BranchStmt); !ok || br.Tok.String() != "continue" {
				return true
			}
			be, ok := is.Cond.(*ast.BinaryExpr)
			if !ok || be.Op.String() != "<=" && be.Op.String() != "<" {
				return true
			}
			sel, ok := be.Y.(*ast.SelectorExpr)
			if !ok {
				return true
			}
			s, ok := fs.Pkg.TypesInfo.Selections[sel]
			if !ok || s.Kind() != types.FieldVal || s.Obj().Type().String() != "int64" {
				return true
			}
			recv := s.Recv()
			if ptr, ok := recv.(*types.Pointer); ok {
				recv = ptr.Elem()
			}
			if !types.Identical(recv, ms) {
				return true
			}
			bounds[s.Obj().Name()] = p.Pos(is.Pos()) + " in " + eng.FuncName(fs.Obj) + ": " + nodeText(is.Cond)
			return true
		})
	}
	var names []string
	for n := range bounds {
		names = append(names, n)
	}
	sort.Strings(names)
	c.Check("R7", "tsdb", "fields of memSeries used as skip bounds during replay found (mmMaxTime)", len(names) >= 1, "", strings.Join(names, ", "))
	nm := c.Fn("tsdb:newMemSeries")
	lits := nm.LitTexts("tsdb:memSeries")
	for _, n := range names {
		ok := len(lits) == 1 && lits[0][n] == "math.MinInt64"
		got := "unset (zero)"
		if len(lits) == 1 && lits[0][n] != "" {
			got = lits[0][n]
		}
		c.Check("R7", nm.Where(), "the constructor sets the skip bound "+n+" to math.MinInt64", ok, p.Pos(nm.Body.Pos()),
			fmt.Sprintf("%s is %s; used at %s — a series created from the chunk snapshot keeps it, and WAL samples with a timestamp at or below it that were appended after the snapshot are skipped on restart", n, got, bounds[n]))
	}
}
