package main

import (
	"go/ast"
	"go/types"
	"strings"

	"promverif/eng"
)

func init() {
	register(&Property{
		ID:        "C04",
		Title:     "Damaged on-disk data never yields wrong samples",
		Technique: "go/cfg integrity-gate analysis (checksum comparison dominates every use, mismatch arm only reaches error returns); sibling obligations over decode-error arms; order rules of the repair path",
		DesignRef: "DESIGN.md §5 C04",
		Level: "Decides that no WAL record, head chunk or tombstone file content leaves its reader before the checksum comparison that guards it, that every decode error during replay is turned " +
			"into a positioned corruption error, that repair is only entered from a failed replay and only deletes what lies after the damage, and that a failed m-map/snapshot load discards " +
			"everything derived from it before the WAL is replayed.",
		Note:           "Trusted: go/packages, go/cfg; CRC32 as integrity function; rule tables in checker/c04.go.",
		Covers:         "CRC gates in wlog.Reader/LiveReader, ChunkDiskMapper.Chunk/IterateAllChunks, tombstones.ReadTombstones; CorruptionErr construction in all decode-error arms of Head.loadWAL/loadWBL/agent loadWAL; repair entry conditions in open(); WL.Repair deletion guard; Head.Init recovery path.",
		NotCover:       "that CRC32 detects every alteration; equality of the recovered content with the undamaged prefix.",
		Run:            runC04,
		MinObligations: 40,
	})
}

func runC04(c *eng.Ctx) {
	p := c.P
	crc := p.Call("hash/crc32:Checksum")
	// ---- R1 no record leaves a reader unchecked ----
	{
		f := c.Fn("tsdb/wlog:Reader.nextNew")
		app := p.Store("tsdb/wlog:Reader.precomprBuf").Named("r.precomprBuf = append(…record bytes…)")
		appendOnly := eng.Node("r.precomprBuf = append(r.precomprBuf, …)", func(g *eng.Graph, n ast.Node) bool {
			as, ok := n.(*ast.AssignStmt)
			return ok && app.F(g, n, eng.Plain) && len(as.Rhs) == 1 && strings.HasPrefix(eng.ExprString(as.Rhs[0]), "append(")
		})
		f.CheckGate("R1", crc, appendOnly)
		f.Gate("R1", p.Call("tsdb/wlog:validateRecord"), appendOnly)
		f.Dom("R1", appendOnly, p.Store("tsdb/wlog:Reader.rec"))
		g := c.Fn("tsdb/wlog:LiveReader.readRecord")
		g.CheckGate("R1", crc, eng.Return("rec, n, nil", func(g *eng.Graph, rs *ast.ReturnStmt) bool {
			return len(rs.Results) == 3 && eng.ExprString(rs.Results[0]) == "rec"
		}))
		b := c.Fn("tsdb/wlog:LiveReader.buildRecord")
		b.Gate("R1", p.Call("tsdb/wlog:LiveReader.readRecord"), p.Store("tsdb/wlog:LiveReader.precomprBuf"))
		b.Gate("R1", p.Call("tsdb/wlog:validateRecord"), p.Store("tsdb/wlog:LiveReader.rec"))
		c.CallersSubset("R1", "tsdb/wlog:LiveReader.readRecord", 1, "tsdb/wlog:LiveReader.buildRecord")
		c.WritersSubset("R1", "tsdb/wlog:Reader.rec", 1, "tsdb/wlog:Reader.nextNew")
		c.WritersSubset("R1", "tsdb/wlog:LiveReader.rec", 1, "tsdb/wlog:LiveReader.buildRecord")

		ck := c.Fn("tsdb/chunks:ChunkDiskMapper.Chunk")
		check := p.Call("tsdb/chunks:checkCRC32")
		ck.Gate("R1", check, p.Call("tsdb/chunkenc:Pool.Get"))
		it := c.Fn("tsdb/chunks:ChunkDiskMapper.IterateAllChunks")
		it.Gate("R1", check, eng.CallNamed("f"))
		cc := c.Fn("tsdb/chunks:checkCRC32")
		cc.CheckGate("R1", crc, eng.Return("nil", func(g *eng.Graph, rs *ast.ReturnStmt) bool {
			return len(rs.Results) == 1 && eng.IsIdent("nil")(g, rs.Results[0])
		}))
		// the only un-checksummed way out of the per-chunk loop is the zero tail of a preallocated file,
		// recognised by all three header fields being zero
		n := 0
		ast.Inspect(it.Body, func(x ast.Node) bool {
			be, ok := x.(ast.Expr)
			if !ok || !it.IsCondOperand(be) {
				return true
			}
			id, ok := be.(*ast.Ident)
			if !ok || id.Name != "seriesRef" {
				return true
			}
			n++
			// the whole condition this identifier belongs to
			var cond ast.Expr
			for _, bl := range it.CondExprs() {
				if bl.Pos() <= id.Pos() && id.End() <= bl.End() {
					cond = bl
				}
			}
			txt := ""
			if cond != nil {
				txt = eng.ExprString(cond)
			}
			ok2 := strings.Contains(txt, "mint == 0") && strings.Contains(txt, "maxt == 0") && strings.Contains(txt, "seriesRef == 0") && !strings.Contains(txt, "||")
			c.Check("R1", it.Where(), "the end-of-data test before the CRC check requires seriesRef, mint and maxt to be zero", ok2, p.Pos(id.Pos()),
				"condition `"+txt+"` lets a chunk whose header was damaged pass as end of data without a checksum")
			return true
		})
		if n == 0 {
			c.Fail("R1", it.Where(), "the end-of-data test before the CRC check requires seriesRef, mint and maxt to be zero", p.Pos(it.Body.Pos()), "no test of seriesRef found")
		}

		t := c.Fn("tsdb/tombstones:ReadTombstones")
		t.CheckGate("R1", eng.CallNamed("Sum32"), p.Call("tsdb/tombstones:Decode"))
		// block chunks
		r := c.Fn("tsdb/chunks:Reader.ChunkOrIterable")
		r.Gate("R1", check, p.Call("tsdb/chunkenc:Pool.Get"))
	}
	// ---- R2 decode errors become positioned corruption errors ----
	for _, s := range []struct {
		fn  string
		min int
	}{{"tsdb:Head.loadWAL", 7}, {"tsdb:Head.loadWBL", 4}, {"tsdb/agent:DB.loadWAL", 4}} {
		f := c.Fn(s.fn)
		g := f.InnerClosure("decode", p.Call("tsdb/record:Decoder.Type"))
		dec := eng.Node("dec.<Kind>(…)", func(gr *eng.Graph, n ast.Node) bool {
			call, ok := n.(*ast.CallExpr)
			if !ok {
				return false
			}
			fo := gr.Callee(call)
			if fo == nil || fo.Name() == "Type" {
				return false
			}
			sig := fo.Type().(*types.Signature)
			if sig.Recv() == nil {
				return false
			}
			return strings.HasSuffix(types.TypeString(sig.Recv().Type(), nil), "tsdb/record.Decoder")
		})
		corr := eng.Node("&wlog.CorruptionErr{Err, Segment: r.Segment(), Offset: r.Offset()}", func(gr *eng.Graph, n ast.Node) bool {
			cl, ok := n.(*ast.CompositeLit)
			if !ok {
				return false
			}
			t := gr.Info.TypeOf(cl)
			if t == nil || !strings.HasSuffix(types.TypeString(t, nil), "wlog.CorruptionErr") {
				return false
			}
			keys := map[string]string{}
			for _, el := range cl.Elts {
				if kv, ok := el.(*ast.KeyValueExpr); ok {
					keys[eng.ExprString(kv.Key)] = eng.ExprString(kv.Value)
				}
			}
			return strings.HasSuffix(keys["Segment"], ".Segment()") && strings.HasSuffix(keys["Offset"], ".Offset()") && keys["Err"] != ""
		})
		g.Has("R2", dec, s.min)
		g.FailLeadsTo("R2", dec, corr, nil)
	}
	// ---- R3 repair only from a failed replay, deleting only what lies after the damage ----
	{
		o := c.Fn("tsdb:open")
		init := p.Call("tsdb:Head.Init")
		for _, rep := range []eng.Matcher{eng.OnVar("wal", "Repair"), eng.OnVar("wbl", "Repair")} {
			o.Dom("R3", init, rep)
			// not reachable when Init returned nil
			o.Only("R3", rep, "lies in the initErr != nil arm", func(l eng.Loc) bool { return o.InNonNilArmOf("initErr", l) })
		}
		o.Only("R3", eng.OnVar("wbl", "Repair"), "is called with the error unwrapped from *errLoadWbl", func(l eng.Loc) bool {
			return eng.ExprString(l.Node.(*ast.CallExpr).Args[0]) == "e.err"
		})
		o.GivenBranch("errors.As(initErr, &e)", true).Unreachable("R3", eng.OnVar("wal", "Repair"))
		o.GivenBranch("errors.As(initErr, &e)", false).Unreachable("R3", eng.OnVar("wbl", "Repair"))
		c.CallersSubset("R3", "tsdb/wlog:WL.Repair", 3, "tsdb:open", "tsdb/agent:Open", "tsdb/agent:DB.replayWAL")

		r := c.Fn("tsdb/wlog:WL.Repair")
		rm := p.Call("os:Remove").WithArg(0, "a segment file", func(g *eng.Graph, e ast.Expr) bool { return strings.Contains(eng.ExprString(e), "s.name") })
		r.GivenBranch("s.index <= cerr.Segment", false).Reachable("R3", rm)
		r.GivenBranch("s.index <= cerr.Segment", true).Unreachable("R3", rm)
		r.GivenBranch("r.Offset() >= cerr.Offset", true).Unreachable("R3", p.Call("tsdb/wlog:WL.Log"))
		r.Dom("R3", p.Call("tsdb/fileutil:Rename"), p.Call("tsdb/wlog:CreateSegment"))
		r.Dom("R3", p.Call("errors:As"), rm)
	}
	// ---- R4 Head.Init recovery: a failed load discards what was derived from it before the WAL is replayed ----
	{
		f := c.Fn("tsdb:Head.Init")
		resetSnap := eng.Node("snapIdx, snapOffset = -1, 0", func(g *eng.Graph, n ast.Node) bool {
			as, ok := n.(*ast.AssignStmt)
			return ok && len(as.Lhs) == 2 && len(as.Rhs) == 2 && eng.ExprString(as.Lhs[0]) == "snapIdx" && eng.ExprString(as.Lhs[1]) == "snapOffset" &&
				eng.ExprString(as.Rhs[0]) == "-1" && eng.ExprString(as.Rhs[1]) == "0"
		})
		replay := p.Call("tsdb:Head.loadWAL")
		f.FailLeadsTo("R4", p.Call("tsdb:Head.loadChunkSnapshot"), resetSnap, &replay)
		f.FailLeadsTo("R4", p.Call("tsdb:Head.loadChunkSnapshot"), p.Call("tsdb:Head.resetInMemoryState"), &replay)
		f.FailLeadsTo("R4", p.Call("tsdb:Head.loadMmappedChunks"), resetSnap, &replay)
		f.FailLeadsTo("R4", p.Call("tsdb:Head.loadMmappedChunks"), p.Call("tsdb:Head.removeCorruptedMmappedChunks"), &replay)
		// the recovery result replaces every result of the failed load (sibling assignment)
		lhsOf := func(m eng.Matcher) string {
			ls := f.Find(m)
			if len(ls) != 1 {
				return "?"
			}
			as, ok := ls[0].Blk.Nodes[ls[0].Idx].(*ast.AssignStmt)
			if !ok {
				return "?"
			}
			var s []string
			for _, l := range as.Lhs {
				s = append(s, eng.ExprString(l))
			}
			return strings.Join(s, ",")
		}
		a, b := lhsOf(p.Call("tsdb:Head.loadMmappedChunks")), lhsOf(p.Call("tsdb:Head.removeCorruptedMmappedChunks"))
		c.Check("R4", f.Where(), "removeCorruptedMmappedChunks assigns the same variables as loadMmappedChunks", a == b && a != "?", p.Pos(f.Body.Pos()),
			"loadMmappedChunks → ("+a+"), removeCorruptedMmappedChunks → ("+b+"): a value of the failed load (e.g. the last m-map ref) survives the repair")
		rc := c.Fn("tsdb:Head.removeCorruptedMmappedChunks")
		rc.Dom("R4", p.Call("tsdb:Head.resetInMemoryState"), p.Call("tsdb/chunks:ChunkDiskMapper.DeleteCorrupted"))
		rc.Dom("R4", p.Call("tsdb/chunks:ChunkDiskMapper.DeleteCorrupted"), p.Call("tsdb:Head.loadMmappedChunks"))
	}
}
