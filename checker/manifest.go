package main

import (
	"bufio"
	"encoding/json"
	"fmt"
	"os"
	"path/filepath"

	"promverif/eng"
)

// notApplicable: properties that static analysis cannot address here (DESIGN.md §6).
var notApplicable = map[string]string{}

func writeManifest() {
	type level struct {
		Category  string `json:"category"`
		Text      string `json:"text"`
		DesignRef string `json:"design_ref,omitempty"`
	}
	type check struct {
		PropertyID   string `json:"property_id"`
		QuickCmd     string `json:"quick_cmd"`
		ThoroughCmd  string `json:"thorough_cmd"`
		EvidenceFile string `json:"evidence_file"`
		ReplayCmd    string `json:"replay_cmd_template"`
		Engine       string `json:"engine"`
		Level        level  `json:"level_claimed"`
		LevelNote    string `json:"level_note"`
		Technique    string `json:"technique"`
	}
	type na struct {
		PropertyID string `json:"property_id"`
		Reason     string `json:"reason"`
	}
	var checks []check
	nas := []na{}
	var claimed []string
	// all property ids from properties.jsonl
	f, err := os.Open(filepath.Join(verifDir, "properties.jsonl"))
	if err != nil {
		panic(err)
	}
	defer f.Close()
	sc := bufio.NewScanner(f)
	sc.Buffer(make([]byte, 1<<20), 1<<24)
	for sc.Scan() {
		var p struct {
			ID string `json:"id"`
		}
		if json.Unmarshal(sc.Bytes(), &p) != nil || p.ID == "" {
			continue
		}
		if pr := registry[p.ID]; pr != nil {
			claimed = append(claimed, p.ID)
			checks = append(checks, check{
				PropertyID:   p.ID,
				QuickCmd:     fmt.Sprintf("bin/check %s quick", p.ID),
				ThoroughCmd:  fmt.Sprintf("bin/check %s thorough", p.ID),
				EvidenceFile: fmt.Sprintf("/verif/evidence/%s.json", p.ID),
				ReplayCmd:    fmt.Sprintf("bin/check %s quick  # violations are listed in {path}", p.ID),
				Engine:       "promverif",
				Level: level{Category: "other", DesignRef: pr.DesignRef,
					Text: "Static analysis, structural necessary conditions only. " + pr.Level + " Not decided: " + pr.NotCover},
				LevelNote: pr.Note,
				Technique: pr.Technique,
			})
			continue
		}
		r, ok := notApplicable[p.ID]
		if !ok {
			r = "No check built yet for this property in this round; see DESIGN.md §5 for the planned structural clauses."
		}
		nas = append(nas, na{p.ID, r})
	}
	m := map[string]any{
		"version":   1,
		"setup_cmd": "bin/setup",
		"hooks": map[string]any{
			"guard":            "verif",
			"enable":           "none needed: the checks analyse the source of /repo statically and never build or run it; no hook was added to /repo",
			"baseline_off_cmd": "for m in $(cat /w/out/gomods.txt); do MF=$(cd /repo/$m && . /w/out/goenv.sh && gomodflag); (cd /repo/$m && go test $MF -json -vet=off -count=1 -timeout 25m ./...); done",
			"source_commits":   []string{},
			"add_only":         true,
		},
		"engines": []map[string]any{{
			"name": "promverif", "path": "/verif/checker", "serves_properties": claimed,
			"kind_free_text": "custom static analyser over go/packages + go/types + go/cfg (+ go/ssa, VTA call graph for reachability rules); rule tables per property in checker/c*.go",
		}},
		"checks":         checks,
		"not_applicable": nas,
		"notes":          "All checks are static: they load and type-check /repo's working tree on every run and report a specific construct. Exit 2 + 'UNDECIDED' means the analysis could not decide (type error, vanished anchor); it is never reported as a pass. Known findings: /verif/known_findings.json.",
	}
	b, _ := json.MarshalIndent(m, "", " ")
	if err := os.WriteFile(filepath.Join(verifDir, "MANIFEST.json"), append(b, '\n'), 0o644); err != nil {
		panic(err)
	}
	fmt.Printf("MANIFEST.json: %d checks, %d not applicable (%v)\n", len(checks), len(nas), eng.SortedKeys(registry))
}
