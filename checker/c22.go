package main

import (
	"promverif/eng"
	"strings"
)

func init() {
	register(&Property{
		ID:        "C22",
		Title:     "Samples are never attributed to the wrong series",
		Technique: "who-may-write + guard analysis (go/cfg) for the series id counter; contradiction rule over the sibling Append methods; label-equality checks in the hash map",
		DesignRef: "DESIGN.md §5 C22",
		Level: "Decides that series ids are issued from one monotonic counter that is only incremented or raised (never reset), that replay raises it past every id it meets in series and tombstone records, " +
			"that every append method which looks a series up by a caller-supplied reference falls back to the label set when the reference is unknown, that hash lookups compare label sets, " +
			"and that evicted refs are tombstoned in the WAL.",
		Note:           "Trusted: go/packages, go/cfg, rule tables in checker/c22.go.",
		Covers:         "writers of Head.lastSeriesID and their guards; replay siblings (series / tombstone records, snapshot); getByID fallbacks in 8 append methods; labels.Equal in seriesHashmap get/set; immutability of memSeries.ref; tombstone record for evicted series.",
		NotCover:       "the scrape cache and remote-write reference use after restart (runtime histories).",
		Run:            runC22,
		MinObligations: 25,
	})
}

func runC22(c *eng.Ctx) {
	defer runC22Ref(c)
	p := c.P
	wr := p.MethodOn("tsdb:Head.lastSeriesID", "Store", "Inc", "Add", "Dec", "Sub", "Swap", "CompareAndSwap")
	// ---- R1 one monotonic source of series ids ----
	c.OnlyIn("R1", wr, 7, "tsdb:Head.getOrCreateWithOptionalID", "tsdb:Head.loadWAL", "tsdb:Head.loadChunkSnapshot", "tsdb:Head.Init", "tsdb:Head.loadMmappedChunks")
	{
		// references met in the head-chunk files only raise the counter (finding F62, repaired)
		if lmf := c.Fn("tsdb:Head.loadMmappedChunks"); strings.Contains(nodeText(lmf.Body), "h.lastSeriesID.Store(") { // absent: reported by R7
			lm := lmf.InnerClosure("iterate", wr)
			lm.Only("R1", wr, "is a Store guarded by lastSeriesID.Load() < ref (only raised)", func(l eng.Loc) bool {
				return eng.CallMethodName(l) == "Store" && lm.UnderCond(l, "lastSeriesID.Load()", "<")
			})
		}
	}
	c.Fn("tsdb:Head.getOrCreateWithOptionalID").Only("R1", wr, "is an Inc()", func(l eng.Loc) bool { return eng.CallMethodName(l) == "Inc" })
	{
		f := c.Fn("tsdb:Head.loadWAL")
		f.Only("R1", wr, "is a Store guarded by lastSeriesID.Load() < ref (only raised)", func(l eng.Loc) bool {
			return eng.CallMethodName(l) == "Store" && f.UnderCond(l, "lastSeriesID.Load()", "<")
		})
		f.Has("R2", wr, 2) // the series-record case and the tombstone-record case
		// a duplicate series record (created == false) raises the counter just like a new one: its ref was issued once
		f.Only("R2", wr, "does not depend on whether the record created a series", func(l eng.Loc) bool { return !f.UnderAnyArm(l, "created") })
		f.Only("R2", wr, "stores the ref found in the record", func(l eng.Loc) bool {
			a := eng.CallArgsText(l)
			return len(a) == 1 && (a[0] == "uint64(walSeries.Ref)" || a[0] == "uint64(s.Ref)")
		})
		s := c.Fn("tsdb:Head.loadChunkSnapshot").InnerClosure("restore", wr)
		s.Only("R1", wr, "is a CompareAndSwap from the loaded value", func(l eng.Loc) bool { return eng.CallMethodName(l) == "CompareAndSwap" })
		// fast start-up restores the counter before any series exists
		i := c.Fn("tsdb:Head.Init")
		i.NoPath("R1", p.Call("tsdb:Head.loadWAL"), wr)
		i.Only("R1", wr, "happens under EnableFastStartup", func(l eng.Loc) bool { return i.UnderCond(l, "EnableFastStartup") })
		// the state file also covers series that were evicted before the snapshot was taken, so it is consulted whether or not a snapshot was loaded
		i.Only("R1", wr, "does not depend on snapshotLoaded", func(l eng.Loc) bool { return !i.UnderAnyArm(l, "snapshotLoaded") })
		// … and only raises it: a memory snapshot loaded earlier in Init may already have restored a higher id (finding F10, repaired)
		i.Only("R1", wr, "is a Store guarded by lastSeriesID.Load() < x (only raised)", func(l eng.Loc) bool {
			return eng.CallMethodName(l) == "Store" && i.UnderCond(l, "lastSeriesID.Load()", "<")
		})
	}
	c.WritersSubset("R1", "tsdb:memSeries.ref", 1, "tsdb:newMemSeries")
	c.CallersSubset("R1", "tsdb:newMemSeries", 1, "tsdb:Head.getOrCreateWithOptionalID")
	// ---- R3 unknown reference ⇒ fall back to the labels ----
	byID := p.Call("tsdb:stripeSeries.getByID")
	fallback := eng.Or(p.Call("tsdb:headAppenderBase.getOrCreate"), p.Call("tsdb:stripeSeries.getByHash"))
	for _, fn := range []string{"tsdb:headAppender.Append", "tsdb:headAppender.AppendSTZeroSample", "tsdb:headAppender.AppendExemplar", "tsdb:headAppender.AppendHistogram",
		"tsdb:headAppender.AppendHistogramSTZeroSample", "tsdb:headAppender.UpdateMetadata", "tsdb:headAppenderV2.Append"} {
		f := c.Fn(fn)
		f.Has("R3", byID, 1)
		f.GivenBranch("s == nil", true).Reachable("R3", fallback)
	}
	c.CallersSubset("R3", "tsdb:headAppenderBase.getOrCreate", 5, "tsdb:headAppender.Append", "tsdb:headAppender.AppendSTZeroSample", "tsdb:headAppender.AppendHistogram",
		"tsdb:headAppender.AppendHistogramSTZeroSample", "tsdb:headAppenderV2.Append")
	// hash collisions: lookups and insertions compare the label sets
	eq := p.Call("model/labels:Equal")
	c.Fn("tsdb:seriesHashmap.get").Has("R3", eq, 2)
	c.Fn("tsdb:seriesHashmap.set").Has("R3", eq, 2)
	g := c.Fn("tsdb:seriesHashmap.get")
	g.Only("R3", eng.Return("s", nil), "returns a series only after labels.Equal, or nil", func(l eng.Loc) bool {
		return eng.ReturnText(l) == "nil" || g.UnderCond(l, "labels.Equal(")
	})
	// ---- R4 evicted refs are tombstoned in the WAL ----
	t := c.Fn("tsdb:Head.truncateSeries").Given("h.wal != nil", true).Given("h.MinTime() > maxt", false)
	t.Chain("R4", p.Call("tsdb:Head.gcSeries"), p.Call("tsdb/record:Encoder.Tombstones"), p.MethodOn("tsdb:Head.wal", "Log"))
	t.DomOK("R4", p.MethodOn("tsdb:Head.wal", "Log"))
}
