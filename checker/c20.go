package main

import (
	"go/ast"
	"strings"

	"promverif/eng"
)

func init() {
	register(&Property{
		ID:        "C20",
		Title:     "Deleted data stays deleted",
		Technique: "lock-bracket and go/cfg order rules for DB.Delete / CleanTombstones / Head.Delete / Block.Delete; who-may-call rules for the tombstone mutators; checksum gate and write/hash pairing of the tombstones file; def-use rules for how the per-series intervals reach the sample and chunk iterators",
		DesignRef: "DESIGN.md §5 C20",
		Level: "Decides that a delete is serialised with compaction (DB.Delete and CleanTombstones hold the compaction mutex for their whole body), reaches every overlapping block and the head, reports any failure, " +
			"is durable before it is acknowledged (WAL record before the in-memory tombstone in the head; tombstones file written, with the previously stored tombstones merged in, before Block.Delete returns), " +
			"that the tombstones file is checksummed over the bytes it stores and verified before it is decoded, that the head forgets tombstones only of series it deletes, and that the intervals a block querier fetched for a series are the ones " +
			"handed to its sample and chunk iterators, which bypass the deleting iterator only when no interval overlaps the chunk.",
		Note:           "Trusted: go/packages, go/types, go/cfg; rule tables in checker/c20.go.  Interval arithmetic (Intervals.Add, IsSubrange, DeletedIterator.Next) is value-level and not decided.",
		Covers:         "DB.Delete, DB.CleanTombstones, Head.Delete, Block.Delete, Head.gc tombstone pruning, tombstones.WriteFile/ReadTombstones/Encode/Decode pairing, blockBaseSeriesSet.Next, blockSeriesEntry/chunkSeriesEntry.Iterator, populateWithDelGenericSeriesIterator.next.",
		NotCover:       "Intervals.Add normal form; which samples an interval hides; clamping arithmetic.",
		Run:            runC20,
		MinObligations: 45,
	})
}

func runC20(c *eng.Ctx) {
	defer runC20OOO(c)
	p := c.P
	// ---- R1 serialisation with compaction, fan-out to all holders of the data, durability before ack ----
	{
		f := c.Fn("tsdb:DB.Delete")
		cLock := p.MethodOn("tsdb:DB.cmtx", "Lock")
		blkDel := p.Call("tsdb:Block.Delete").InClosures()
		headDel := p.Call("tsdb:Head.Delete").InClosures()
		f.Dom("R1", cLock, blkDel)
		f.Dom("R1", cLock, headDel)
		f.Has("R1", eng.Deferred(p.MethodOn("tsdb:DB.cmtx", "Unlock")), 1)
		f.Hasnt("R1", p.MethodOn("tsdb:DB.cmtx", "Unlock")) // held to the end: only the deferred unlock
		f.Dom("R1", p.MethodOn("tsdb:DB.mtx", "RLock"), p.FieldUse("tsdb:DB.blocks"))
		f.Has("R1", eng.Deferred(p.MethodOn("tsdb:DB.mtx", "RUnlock")), 1)
		f.AstEvery("R1", "loop containing Block.Delete", f.RangeLoopWith(blkDel), "ranges over db.blocks", func(n ast.Node) bool {
			return eng.ExprIsField(f.Info, n.(*ast.RangeStmt).X, p.Field("tsdb:DB.blocks"))
		}, 1)
		f.DomOK("R1", eng.LoopOver(blkDel))
		f.Only("R1", blkDel, "is guarded only by the block overlapping the range", func(l eng.Loc) bool { return f.UnderCond(l, "b.OverlapsClosedInterval(mint, maxt)") })
		f.Only("R1", headDel, "is guarded only by the head overlapping the range", func(l eng.Loc) bool { return f.UnderCond(l, "db.head.OverlapsClosedInterval(mint, maxt)") })
		f.Only("R1", eng.Return("", nil), "returns the errgroup's Wait()", func(l eng.Loc) bool { return eng.ReturnText(l) == "g.Wait()" })
		// both deletes run through the errgroup whose error is returned
		f.AstEvery("R1", "closure calling Block.Delete/Head.Delete", func(n ast.Node) bool {
			call, ok := n.(*ast.CallExpr)
			if !ok || eng.ExprString(call.Fun) != "g.Go" {
				return false
			}
			return true
		}, "is started on the errgroup g and returns the delete's error", func(n ast.Node) bool {
			call := n.(*ast.CallExpr)
			return f.Contains(call.Args[0], eng.Or(p.Call("tsdb:Block.Delete"), p.Call("tsdb:Head.Delete")))
		}, 2)

		ct := c.Fn("tsdb:DB.CleanTombstones")
		ct.Dom("R1", cLock, p.Call("tsdb:Block.CleanTombstones"))
		ct.Has("R1", eng.Deferred(p.MethodOn("tsdb:DB.cmtx", "Unlock")), 1)
		ct.Hasnt("R1", p.MethodOn("tsdb:DB.cmtx", "Unlock"))
		ct.Gate("R1", p.Call("tsdb:Block.CleanTombstones"), p.Store("tsdb:BlockMetaCompaction.Deletable"))
		ct.Dom("R1", p.Store("tsdb:BlockMetaCompaction.Deletable"), p.Call("tsdb:DB.reloadBlocks"))

		c.CallersSubset("R1", "tsdb:Head.Delete", 1, "tsdb:DB.Delete")
		c.CallersSubset("R1", "tsdb:Block.Delete", 1, "tsdb:DB.Delete")
		c.CallersSubset("R1", "tsdb:Block.CleanTombstones", 1, "tsdb:DB.CleanTombstones")
	}
	{
		h := c.Fn("tsdb:Head.Delete")
		walLog := p.MethodOn("tsdb:Head.wal", "Log")
		add := p.MethodOn("tsdb:Head.tombstones", "AddInterval")
		hw := h.Given("h.wal != nil", true)
		hw.Gate("R1", walLog, add)
		hw.DomOK("R1", walLog)
		h.DomOK("R1", eng.LoopOver(add))
		h.Only("R1", walLog, "logs the tombstones of `stones`", func(l eng.Loc) bool {
			a := eng.CallArgsText(l)
			return len(a) == 1 && strings.Contains(a[0], "Tombstones(stones")
		})
		h.AstEvery("R1", "loop containing tombstones.AddInterval", h.RangeLoopWith(add), "ranges over the logged `stones`", func(n ast.Node) bool {
			return eng.ExprString(n.(*ast.RangeStmt).X) == "stones"
		}, 1)

		b := c.Fn("tsdb:Block.Delete")
		write := p.Call("tsdb/tombstones:WriteFile")
		b.Dom("R1", p.MethodOn("tsdb:Block.mtx", "Lock"), p.FieldUse("tsdb:Block.closing"))
		b.Has("R1", eng.Deferred(p.MethodOn("tsdb:Block.mtx", "Unlock")), 1)
		b.Dom("R1", p.FieldUse("tsdb:Block.closing"), write)
		store := p.Store("tsdb:Block.tombstones")
		iter := eng.Node("pb.tombstones.Iter(…)", func(g *eng.Graph, n ast.Node) bool {
			call, ok := n.(*ast.CallExpr)
			if !ok {
				return false
			}
			s, ok := call.Fun.(*ast.SelectorExpr)
			return ok && s.Sel.Name == "Iter" && eng.ExprIsField(g.Info, s.X, p.Field("tsdb:Block.tombstones"))
		})
		b.Gate("R1", iter, store) // the tombstones already stored are merged in before the set is replaced
		b.Has("R1", eng.OnVar("stones", "AddInterval").InClosures(), 2)
		b.Chain("R1", store, write)
		b.DomOK("R1", write)
		b.ErrPropagates("R1", write, 1)
		b.Only("R1", write, "writes pb.tombstones into pb.dir", func(l eng.Loc) bool {
			a := eng.CallArgsText(l)
			return len(a) == 3 && a[1] == "pb.dir" && a[2] == "pb.tombstones"
		})
		b.Only("R1", store, "installs the merged set `stones`", func(l eng.Loc) bool {
			as, ok := l.Node.(*ast.AssignStmt)
			return ok && len(as.Rhs) == 1 && eng.ExprString(as.Rhs[0]) == "stones"
		})
		b.CountOnPaths("R1", "tombstones.WriteFile", []eng.Matcher{write}, 1, eng.OKExit) // unconditional: no "nothing changed" shortcut
		c.WritersSubset("R1", "tsdb:Block.tombstones", 2, "tsdb:Block.Delete", "tsdb:OpenBlock")
	}
	{
		// the head forgets tombstones only for the series it removes, and for times it no longer holds
		g := c.Fn("tsdb:Head.gc")
		g.Only("R1", p.MethodOn("tsdb:Head.tombstones", "DeleteTombstones"), "is given the set of deleted series", func(l eng.Loc) bool {
			a := eng.CallArgsText(l)
			return len(a) == 1 && a[0] == "deleted"
		})
		g.Only("R1", p.MethodOn("tsdb:Head.tombstones", "TruncateBefore"), "is given the head's min time", func(l eng.Loc) bool {
			a := eng.CallArgsText(l)
			return len(a) == 1 && a[0] == "mint"
		})
		c.OnlyIn("R1", p.MethodOn("tsdb:Head.tombstones", "DeleteTombstones", "TruncateBefore"), 2, "tsdb:Head.gc", "tsdb:Head.gcSeries", "tsdb:Head.deleteSeriesByID")
	}
	// ---- R2 the tombstones file ----
	{
		w := c.Fn("tsdb/tombstones:WriteFile")
		encode := p.Call("tsdb/tombstones:Encode")
		hashW := eng.OnVar("hash", "Write")
		w.Gate("R2", encode, hashW)
		w.Only("R2", hashW, "hashes the encoded bytes", func(l eng.Loc) bool {
			a := eng.CallArgsText(l)
			return len(a) == 1 && strings.HasPrefix(a[0], "bytes[")
		})
		fwrite := eng.OnVar("f", "Write")
		w.Has("R2", fwrite, 3)
		w.Has("R2", fwrite.WithArg(0, "bytes", eng.ExprText("bytes")), 1)
		w.Has("R2", fwrite.WithArg(0, "hash.Sum(nil)", eng.ExprText("hash.Sum(nil)")), 1)
		w.Chain("R2", fwrite.WithArg(0, "bytes", eng.ExprText("bytes")), fwrite.WithArg(0, "hash.Sum(nil)", eng.ExprText("hash.Sum(nil)")), eng.OnVar("f", "Sync"), p.Call("tsdb/fileutil:Replace"))
		w.Dom("R2", hashW, fwrite.WithArg(0, "hash.Sum(nil)", eng.ExprText("hash.Sum(nil)")))
		r := c.Fn("tsdb/tombstones:ReadTombstones")
		r.CheckGate("R2", eng.CallNamed("Sum32"), p.Call("tsdb/tombstones:Decode"))
		r.CheckGate("R2", eng.OnVar("d", "Be32"), p.Call("tsdb/tombstones:Decode"))
		// both sides skip the same prefix when hashing
		sk := func(f *eng.Fn) string {
			out := ""
			for _, l := range f.Find(eng.OnVar("hash", "Write")) {
				a := eng.CallArgsText(l)
				if len(a) == 1 {
					if i := strings.Index(a[0], "["); i >= 0 {
						out = a[0][i:]
					}
				}
			}
			return out
		}
		c.Check("R2", "tsdb/tombstones:WriteFile+ReadTombstones", "writer and reader hash the same sub-slice of the encoded bytes", sk(w) == sk(r) && sk(w) != "", p.Pos(r.Body.Pos()), "writer hashes "+sk(w)+", reader hashes "+sk(r))
		c.Codec("R2", "tsdb/tombstones:Encode", "tsdb/tombstones:Decode", []string{"tsdb/tombstones"})
		c.CallersSubset("R2", "tsdb/tombstones:Encode", 2, "tsdb/tombstones:WriteFile", "tsdb:encodeTombstonesToSnapshotRecord")
		c.CallersSubset("R2", "tsdb/tombstones:Decode", 2, "tsdb/tombstones:ReadTombstones", "tsdb:decodeTombstonesSnapshotRecord")
	}
	// ---- R3 the intervals reach the iterators ----
	{
		n := c.Fn("tsdb:blockBaseSeriesSet.Next")
		get := eng.Node("b.tombstones.Get(b.p.At())", func(g *eng.Graph, x ast.Node) bool {
			call, ok := x.(*ast.CallExpr)
			if !ok {
				return false
			}
			s, ok := call.Fun.(*ast.SelectorExpr)
			return ok && s.Sel.Name == "Get" && eng.ExprIsField(g.Info, s.X, p.Field("tsdb:blockBaseSeriesSet.tombstones")) && len(call.Args) == 1 && eng.ExprString(call.Args[0]) == "b.p.At()"
		})
		store := p.Store("tsdb:seriesData.intervals")
		n.Dom("R3", get, store)
		n.Only("R3", store, "stores the fetched `intervals`", func(l eng.Loc) bool {
			as, ok := l.Node.(*ast.AssignStmt)
			return ok && len(as.Rhs) == 1 && eng.ExprString(as.Rhs[0]) == "intervals"
		})
		n.Only("R3", eng.AssignVar("intervals"), "is the fetched set or an extension of it (intervals.Add)", func(l eng.Loc) bool {
			as, ok := l.Node.(*ast.AssignStmt)
			if !ok || len(as.Rhs) != 1 {
				return false
			}
			return n.Contains(as.Rhs[0], get) || strings.HasPrefix(eng.ExprString(as.Rhs[0]), "intervals.Add(")
		})
		// a failing Get stops the iteration with the error recorded
		n.FailLeadsTo("R3", get, p.Store("tsdb:blockBaseSeriesSet.err"), nil)
		n.FailStops("R3", get, store)
		n.Only("R3", eng.Return("true", func(g *eng.Graph, rs *ast.ReturnStmt) bool {
			return len(rs.Results) == 1 && eng.ExprString(rs.Results[0]) == "true"
		}),
			"follows the store of the intervals", func(l eng.Loc) bool {
				for _, s := range n.Find(store) {
					if n.Graph.Dom(s, l) {
						return true
					}
				}
				return false
			})
		for _, fn := range []string{"tsdb:blockSeriesEntry.Iterator", "tsdb:chunkSeriesEntry.Iterator"} {
			f := c.Fn(fn)
			f.Only("R3", eng.OnVar("pi", "reset"), "passes the series' intervals", func(l eng.Loc) bool {
				a := eng.CallArgsText(l)
				return len(a) == 4 && a[3] == "s.intervals"
			})
			f.DomOK("R3", eng.OnVar("pi", "reset"))
		}
		rs := c.Fn("tsdb:populateWithDelGenericSeriesIterator.reset")
		rs.Only("R3", p.Store("tsdb:populateWithDelGenericSeriesIterator.intervals"), "stores the parameter", func(l eng.Loc) bool {
			as, ok := l.Node.(*ast.AssignStmt)
			return ok && eng.ExprString(as.Rhs[0]) == "intervals"
		})
		c.WritersSubset("R3", "tsdb:populateWithDelGenericSeriesIterator.intervals", 1, "tsdb:populateWithDelGenericSeriesIterator.reset")
		nx := c.Fn("tsdb:populateWithDelGenericSeriesIterator.next")
		nx.AstEvery("R3", "loop filling bufIter.Intervals", func(x ast.Node) bool {
			r, ok := x.(*ast.RangeStmt)
			return ok && strings.Contains(nodeText(r.Body), "p.bufIter.Intervals = p.bufIter.Intervals.Add(interval)")
		}, "ranges over p.intervals", func(x ast.Node) bool {
			return eng.ExprIsField(nx.Info, x.(*ast.RangeStmt).X, p.Field("tsdb:populateWithDelGenericSeriesIterator.intervals"))
		}, 1)
		noDel := p.StoreVal("tsdb:populateWithDelGenericSeriesIterator.currDelIter", "nil", eng.IsIdent("nil"))
		nx.GivenBranch("len(p.bufIter.Intervals) == 0", false).Unreachable("R3", noDel)
		nx.Has("R3", noDel, 1)
		nx.Has("R3", p.StoreVal("tsdb:populateWithDelGenericSeriesIterator.currDelIter", "&p.bufIter", eng.ExprText("&p.bufIter")), 2)
		// the copy shortcut for head chunks is taken only when nothing is deleted from the chunk
		nx.GivenBranch("len(p.bufIter.Intervals) == 0", false).Unreachable("R3", eng.CallNamed("ChunkOrIterableWithCopy"))
	}
	// ---- R4 interval merging: the two ways `maxi` gets its value use the same unit ----
	// Intervals.Add computes maxi with sort.Search over a domain of size (len(in) − mini), i.e. relative to mini, and
	// later indexes in[maxi+mini−1] and in[maxi+mini:].  The value it has when the search is skipped (open-ended
	// interval) must be the size of that same domain (finding F14/F27).
	{
		f := c.Fn("tsdb/tombstones:Intervals.Add")
		def, dom := "", ""
		ast.Inspect(f.Body, func(n ast.Node) bool {
			as, ok := n.(*ast.AssignStmt)
			if !ok || len(as.Lhs) != 1 || nodeText(as.Lhs[0]) != "maxi" {
				return true
			}
			if call, ok := as.Rhs[0].(*ast.CallExpr); ok && nodeText(call.Fun) == "sort.Search" && len(call.Args) == 2 {
				if l, ok := eng.Linear(f.Info, call.Args[0]); ok {
					dom = l.String()
				}
			} else if l, ok := eng.Linear(f.Info, as.Rhs[0]); ok {
				def = l.String()
			}
			return true
		})
		c.Check("R4", f.Where(), "the value of maxi when the upper search is skipped is the size of the domain the search ranges over (both relative to mini)", def != "" && def == dom, p.Pos(f.Body.Pos()), "default "+def+" vs search domain "+dom)
	}
}
