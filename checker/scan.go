package main

import (
	"fmt"
	"go/ast"
	"go/types"
	"sort"
	"strings"

	"promverif/eng"
)

// scanResets is a discovery aid (Engler-style candidate finder, never an armed check): it lists
// methods named reset/Reset of struct receivers together with the receiver fields they do not assign.
func scanResets(p *eng.Prog) {
	for _, fs := range p.AllFuncs() {
		d := fs.Decl
		if d.Recv == nil || d.Body == nil || !strings.EqualFold(d.Name.Name, "reset") {
			continue
		}
		if strings.Contains(p.Pos(d.Pos()), ".pb.go") {
			continue
		}
		sig := fs.Obj.Type().(*types.Signature)
		rt := sig.Recv().Type()
		if pt, ok := rt.(*types.Pointer); ok {
			rt = pt.Elem()
		}
		nt, ok := rt.(*types.Named)
		if !ok {
			continue
		}
		st, ok := nt.Underlying().(*types.Struct)
		if !ok {
			continue
		}
		recv := ""
		if len(d.Recv.List[0].Names) > 0 {
			recv = d.Recv.List[0].Names[0].Name
		}
		assigned := map[string]bool{}
		whole := false
		ast.Inspect(d.Body, func(n ast.Node) bool {
			switch s := n.(type) {
			case *ast.AssignStmt:
				for _, l := range s.Lhs {
					t := types.ExprString(l)
					if t == "*"+recv {
						whole = true
					}
					if strings.HasPrefix(t, recv+".") {
						assigned[strings.SplitN(strings.TrimPrefix(t, recv+"."), ".", 2)[0]] = true
						assigned[strings.SplitN(strings.SplitN(strings.TrimPrefix(t, recv+"."), ".", 2)[0], "[", 2)[0]] = true
					}
				}
			case *ast.IncDecStmt:
			case *ast.CallExpr:
				// x.f.Reset(...) / clear(x.f) count as re-initialisation of f
				t := types.ExprString(s.Fun)
				if strings.HasPrefix(t, recv+".") {
					parts := strings.Split(strings.TrimPrefix(t, recv+"."), ".")
					if len(parts) >= 2 {
						assigned[parts[0]] = true
					}
				}
				if t == "clear" && len(s.Args) == 1 {
					a := types.ExprString(s.Args[0])
					if strings.HasPrefix(a, recv+".") {
						assigned[strings.TrimPrefix(a, recv+".")] = true
					}
				}
			}
			return true
		})
		if whole {
			continue
		}
		var missing []string
		for i := 0; i < st.NumFields(); i++ {
			if !assigned[st.Field(i).Name()] {
				missing = append(missing, st.Field(i).Name())
			}
		}
		sort.Strings(missing)
		if len(missing) > 0 && len(missing) < st.NumFields() {
			fmt.Printf("%s  %s: not assigned: %s\n", p.Pos(d.Pos()), eng.FuncName(fs.Obj), strings.Join(missing, ", "))
		}
	}
}
