package main

import (
	"go/ast"

	"promverif/eng"
)

func init() {
	register(&Property{
		ID:        "C03",
		Title:     "Acknowledged writes survive a process crash at any point",
		Technique: "go/cfg dominance and error-gate analysis of the durable-before-ack / write-sync-close-rename / truncate-after-supersede protocols; who-may-call for truncation entry points",
		DesignRef: "DESIGN.md §5 C03",
		Level: "The crash quantifier is replaced by its static counterpart: on every CFG path the durable step precedes the step that depends on it " +
			"(WAL record before memory and before success return; write→sync→close→rename for every published artefact; checkpoint/block durable before WAL/head truncation; " +
			"rename-aside before recursive delete), and every rename site in the module is either in the rule table or a reasoned exception.",
		Note:           "Trusted: go/packages, go/cfg; kernel/filesystem semantics of fsync and rename; rule instances frozen in checker/c03.go.",
		Covers:         "Commit/log order and error propagation, WL.log flush, Head.Delete/Block.Delete durability, 10 rename sites (atomic publish idiom), flush-sync-close of block/head-chunk files, truncation-after-checkpoint/compaction order in head, db and agent, delete-after-rename in deleteBlocks, tmp cleanup before reload, owners of WL.Truncate/DeleteCheckpoints/truncateMemory/ChunkDiskMapper.Truncate.",
		NotCover:       "torn writes inside a page, kernel/filesystem semantics, the content of what is written, recovery behaviour at actual crash points.",
		Run:            runC03,
		MinObligations: 70,
	})
}

// nonNilFirstResult: `return x, …` with x not the nil literal.
func retNonNilFirst(g *eng.Graph, rs *ast.ReturnStmt) bool {
	return len(rs.Results) >= 1 && !eng.IsIdent("nil")(g, rs.Results[0])
}

func runC03(c *eng.Ctx) {
	defer runC03Marker(c)
	p := c.P
	walLog := p.MethodOn("tsdb:Head.wal", "Log")
	// ---- R1 durable before ack: Commit ----
	{
		f := c.Fn("tsdb:headAppenderBase.Commit")
		log := p.Call("tsdb:headAppenderBase.log")
		for _, cm := range []string{"tsdb:headAppenderBase.commitFloats", "tsdb:headAppenderBase.commitHistograms", "tsdb:headAppenderBase.commitFloatHistograms", "tsdb:headAppenderBase.commitExemplars"} {
			f.Gate("R1", log, p.Call(cm))
		}
		f.DomOK("R1", log)
		f.ErrPropagates("R1", log, 1)
		// nothing writes sample memory before the log call: the commit* calls are the only writers (C01.R2) and are gated above
		l := c.Fn("tsdb:headAppenderBase.log")
		l.ErrPropagates("R1", walLog, 8)
		// every pending kind is logged: series, metadata, floats, histograms (+custom), float histograms (+custom), exemplars
		for _, fld := range []string{"tsdb:headAppenderBase.seriesRefs", "tsdb:appendBatch.metadata", "tsdb:appendBatch.floats", "tsdb:appendBatch.histograms", "tsdb:appendBatch.floatHistograms", "tsdb:appendBatch.exemplars"} {
			l.Has("R1", p.FieldUse(fld), 2) // tested for emptiness and encoded
		}
		w := c.Fn("tsdb/wlog:WL.Log")
		w.DomOK("R1", eng.LoopOver(p.Call("tsdb/wlog:WL.log"))) // every record of the batch
		w.ErrPropagates("R1", p.Call("tsdb/wlog:WL.log"), 1)
		wl := c.Fn("tsdb/wlog:WL.log").Given("final", true)
		// final record of a batch with data in the page: flushed before success
		wl.Given("w.page.alloc > 0", true).DomOK("R1", p.Call("tsdb/wlog:WL.flushPage"))
		c.Fn("tsdb/wlog:WL.log").ErrPropagates("R1", p.Call("tsdb/wlog:WL.flushPage"), 2)
		// agent
		ac := c.Fn("tsdb/agent:appenderBase.commit")
		ac.Gate("R1", p.Call("tsdb/agent:appenderBase.log"), p.Call("tsdb/agent:appenderBase.clearData"))
		ac.DomOK("R1", p.Call("tsdb/agent:appenderBase.log"))
		c.Fn("tsdb/agent:appenderBase.log").ErrPropagates("R1", p.MethodOn("tsdb/agent:DB.wal", "Log"), 7)
		ar := c.Fn("tsdb/agent:appenderBase.rollback")
		ar.Gate("R1", p.Call("tsdb/agent:appenderBase.logSeries"), p.Call("tsdb/agent:appenderBase.clearData"))
	}
	// ---- R2 deletions durable before they take effect / are acknowledged ----
	{
		f := c.Fn("tsdb:Head.Delete").Given("h.wal != nil", true)
		f.Gate("R2", walLog, p.MethodOn("tsdb:Head.tombstones", "AddInterval"))
		f.DomOK("R2", walLog)
		b := c.Fn("tsdb:Block.Delete")
		b.DomOK("R2", p.Call("tsdb/tombstones:WriteFile"))
		b.ErrPropagates("R2", p.Call("tsdb/tombstones:WriteFile"), 1)
	}
	// ---- R3 atomic publish: write → sync → close → rename ----
	replace := p.Call("tsdb/fileutil:Replace")
	{
		// every rename site of the module is known
		c.CallersSubset("R3", "tsdb/fileutil:Replace", 8,
			"tsdb/wlog:Checkpoint", "tsdb:repairBadIndexVersion", "tsdb:writeMetaFile", "tsdb/agent:Checkpoint", "tsdb:DB.deleteBlocks",
			"tsdb:Head.ChunkSnapshot", "tsdb:LeveledCompactor.write", "tsdb/tombstones:WriteFile")
		c.CallersSubset("R3", "tsdb/fileutil:Rename", 2, "tsdb/fileutil:Replace", "tsdb/wlog:WL.Repair")
		c.CallersSubset("R3", "os:Rename", 2, "tsdb/fileutil:Rename", "tsdb:Head.writeSeriesState",
			"documentation/examples/custom-sd/adapter:Adapter.writeOutput")

		for _, fn := range []string{"tsdb/tombstones:WriteFile", "tsdb:writeMetaFile"} {
			f := c.Fn(fn)
			f.Chain("R3", eng.OnVar("f", "Write"), eng.OnVar("f", "Sync"), eng.OnVar("f", "Close"), replace)
			f.DomOK("R3", replace)
			f.ErrPropagates("R3", eng.OnVar("f", "Sync"), 1)
		}
		{
			f := c.Fn("tsdb:LeveledCompactor.write").Given("meta.Stats.NumSamples == 0", false)
			closeAll := eng.LoopOver(eng.OnVar("w", "Close"))
			f.Chain("R3", p.Call("tsdb:BlockPopulator.PopulateBlock"), closeAll, p.Call("tsdb:writeMetaFile"), p.Call("tsdb/tombstones:WriteFile"),
				eng.OnVar("df", "Sync"), replace)
			f.DomOK("R3", replace)
			for _, m := range []eng.Matcher{p.Call("tsdb:BlockPopulator.PopulateBlock"), p.Call("tsdb:writeMetaFile"), p.Call("tsdb/tombstones:WriteFile"), eng.OnVar("df", "Sync"), replace} {
				f.ErrPropagates("R3", m, 1)
			}
			// the closers' errors are joined and returned
			g := c.Fn("tsdb:LeveledCompactor.write")
			g.Dom("R3", closeAll, eng.Node("if errors.Join(errs...) != nil return", func(g *eng.Graph, n ast.Node) bool {
				as, ok := n.(*ast.AssignStmt)
				return ok && len(as.Rhs) == 1 && g.Contains(as.Rhs[0], p.Call("errors:Join")) && g.Contains(as.Rhs[0], eng.Node("errs", func(g *eng.Graph, n ast.Node) bool {
					id, ok := n.(*ast.Ident)
					return ok && id.Name == "errs"
				}))
			}))
		}
		for _, s := range []struct{ fn, log string }{
			{"tsdb/wlog:Checkpoint", "cp"}, {"tsdb/agent:Checkpoint", "cp"},
		} {
			f := c.Fn(s.fn)
			if s.fn == "tsdb/agent:Checkpoint" {
				f = f.Given("idx >= atIndex", false) // a checkpoint at or beyond the index already exists: nothing to publish
			}
			f.Chain("R3", eng.OnVar(s.log, "Close"), eng.OnVar("df", "Sync"), replace)
			f.DomOK("R3", replace)
			f.ErrPropagates("R3", eng.OnVar(s.log, "Close"), 1)
			f.ErrPropagates("R3", eng.OnVar("df", "Sync"), 1)
			f.ErrPropagates("R3", replace, 1)
		}
		{
			f := c.Fn("tsdb/wlog:Checkpoint")
			f.Dom("R3", eng.OnVar("cp", "Log"), eng.OnVar("cp", "Close"))
			f.ErrPropagates("R3", eng.OnVar("cp", "Log"), 2)
			// the checkpoint WL's Close flushes and fsyncs its segment before closing it
			w := c.Fn("tsdb/wlog:WL.Close")
			ws := w.Given("w.segment == nil", false)
			ws.Chain("R3", p.Call("tsdb/wlog:WL.fsync"), p.MethodOn("tsdb/wlog:WL.segment", "Close"))
			ws.DomOK("R3", p.Call("tsdb/wlog:WL.fsync"))
			w.Given("w.page.alloc > 0", true).Dom("R3", p.Call("tsdb/wlog:WL.flushPage"), p.Call("tsdb/wlog:WL.fsync"))
			fs := c.Fn("tsdb/wlog:WL.fsync")
			fs.DomOK("R3", eng.OnVar("f", "Sync"))
		}
		{
			f := c.Fn("tsdb/fileutil:Rename")
			f.Dom("R3", p.Call("os:Rename"), eng.OnVar("pdir", "Sync"))
			f.DomOK("R3", eng.OnVar("pdir", "Sync"))
			f.ErrPropagates("R3", p.Call("os:Rename"), 1)
			f.ErrPropagates("R3", eng.OnVar("pdir", "Sync"), 1)
			r := c.Fn("tsdb/fileutil:Replace")
			r.DomOK("R3", p.Call("tsdb/fileutil:Rename"))
		}
		// flush – sync – close of the files that go into a block or the head-chunk directory
		{
			f := c.Fn("tsdb/chunks:Writer.finalizeTail").Given("tf == nil", false)
			f.Chain("R3", eng.OnVar("tf", "Sync"), eng.OnVar("tf", "Close"))
			f.DomOK("R3", eng.OnVar("tf", "Sync"))
			f.Given("w.wbuf != nil", true).Dom("R3", p.MethodOn("tsdb/chunks:Writer.wbuf", "Flush"), eng.OnVar("tf", "Sync"))
			f.ErrPropagates("R3", eng.OnVar("tf", "Sync"), 1)
			g := c.Fn("tsdb/index:FileWriter.Close")
			g.Chain("R3", p.Call("tsdb/index:FileWriter.Flush"), p.MethodOn("tsdb/index:FileWriter.f", "Sync"), p.MethodOn("tsdb/index:FileWriter.f", "Close"))
			g.DomOK("R3", p.MethodOn("tsdb/index:FileWriter.f", "Sync"))
			g.ErrPropagates("R3", p.MethodOn("tsdb/index:FileWriter.f", "Sync"), 1)
			g.ErrPropagates("R3", p.Call("tsdb/index:FileWriter.Flush"), 1)
			h := c.Fn("tsdb/chunks:ChunkDiskMapper.finalizeCurFile").Given("cdm.curFile == nil", false)
			h.Chain("R3", p.Call("tsdb/chunks:ChunkDiskMapper.flushBuffer"), p.MethodOn("tsdb/chunks:ChunkDiskMapper.curFile", "Sync"), p.MethodOn("tsdb/chunks:ChunkDiskMapper.curFile", "Close"))
			h.DomOK("R3", p.MethodOn("tsdb/chunks:ChunkDiskMapper.curFile", "Sync"))
			h.ErrPropagates("R3", p.MethodOn("tsdb/chunks:ChunkDiskMapper.curFile", "Sync"), 1)
			// chunk segment and index writers are closed through these
			cw := c.Fn("tsdb/chunks:Writer.Close")
			cw.DomOK("R3", p.Call("tsdb/chunks:Writer.finalizeTail"))
			iw := c.Fn("tsdb/index:Writer.Close")
			iw.DomOK("R3", p.MethodOn("tsdb/index:Writer.f", "Close"))
		}
		// Exceptions (advisory artefacts validated on read, with fallback to the WAL) — DESIGN §4 F3:
		//   Head.ChunkSnapshot (no dir sync), Head.writeSeriesState (no file sync, bare os.Rename),
		//   WL.Repair (rename-aside of a corrupt segment), repairBadIndexVersion (one-off format fix).
		// They are kept to the order close ≺ rename only.
		cs := c.Fn("tsdb:Head.ChunkSnapshot")
		cs.Chain("R3", eng.OnVar("cp", "Close"), p.Call("tsdb/fileutil:Replace"), p.Call("tsdb:DeleteChunkSnapshots"))
		cs.ErrPropagates("R3", eng.OnVar("cp", "Close"), 1)
		ws := c.Fn("tsdb:Head.writeSeriesState")
		ws.Dom("R3", eng.OnVar("f", "Close"), p.Call("os:Rename"))
	}
	// ---- R4 truncation only after the superseding artefact is durable ----
	{
		f := c.Fn("tsdb:Head.truncateWAL")
		cp := p.Call("tsdb/wlog:Checkpoint")
		f.Gate("R4", cp, p.MethodOn("tsdb:Head.wal", "Truncate"))
		f.Gate("R4", cp, p.Call("tsdb/wlog:DeleteCheckpoints"))
		f.Dom("R4", p.MethodOn("tsdb:Head.wal", "Truncate"), p.Call("tsdb/wlog:DeleteCheckpoints"))
		f.Dom("R4", p.MethodOn("tsdb:Head.chunkSnapshotMtx", "Lock"), cp)

		a := c.Fn("tsdb/agent:DB.truncate")
		acp := eng.Or(p.Call("tsdb/agent:Checkpoint"), p.Call("tsdb/wlog:Checkpoint"))
		a.Gate("R4", acp, p.MethodOn("tsdb/agent:DB.wal", "Truncate"))
		a.Gate("R4", acp, p.Call("tsdb/wlog:DeleteCheckpoints"))
		a.Dom("R4", p.MethodOn("tsdb/agent:DB.wal", "Truncate"), p.Call("tsdb/wlog:DeleteCheckpoints"))

		ch := c.Fn("tsdb:DB.compactHead")
		write := p.Call("tsdb:Compactor.Write")
		reload := p.Call("tsdb:DB.reloadBlocks")
		ch.Gate("R4", write, reload)
		ch.Gate("R4", reload, p.Call("tsdb:Head.truncateMemory"))
		ch.DomOK("R4", p.Call("tsdb:Head.truncateMemory"))

		cm := c.Fn("tsdb:DB.Compact")
		// every non-constant value of lastBlockMaxt is assigned after a nil-error compactHead
		cm.Gate("R4", p.Call("tsdb:DB.compactHead"), eng.AssignVarVal("lastBlockMaxt", "maxt", eng.IsIdent("maxt")))
		cm.Only("R4", eng.AssignVar("lastBlockMaxt"), "either the MinInt64 initialiser or `= maxt`", func(l eng.Loc) bool {
			as, ok := l.Node.(*ast.AssignStmt)
			if !ok || len(as.Rhs) != 1 {
				return false
			}
			t := eng.ExprString(as.Rhs[0])
			return t == "maxt" || t == "int64(math.MinInt64)"
		})
		cm.Only("R4", p.Call("tsdb:Head.truncateWAL").Any().InClosures(), "called with lastBlockMaxt", func(l eng.Loc) bool {
			call := l.Node.(*ast.CallExpr)
			return len(call.Args) == 1 && eng.ExprString(call.Args[0]) == "lastBlockMaxt"
		})
		// maxt itself is the block range end computed from the head's min time
		cm.Only("R4", eng.AssignVar("maxt"), "rangeForTimestamp(mint, chunkRange)", func(l eng.Loc) bool {
			as, ok := l.Node.(*ast.AssignStmt)
			return ok && len(as.Rhs) == 1 && cm.Contains(as.Rhs[0], p.Call("tsdb:rangeForTimestamp"))
		})

		cH := c.Fn("tsdb:DB.CompactHead")
		cH.Gate("R4", p.Call("tsdb:DB.compactHead"), p.Call("tsdb:Head.truncateWAL"))

		o := c.Fn("tsdb:DB.compactOOOHead")
		o.Gate("R4", p.Call("tsdb:DB.compactOOO"), reload)
		o.Gate("R4", reload, p.Call("tsdb:Head.truncateOOO"))
		co := c.Fn("tsdb:DB.compactOOO")
		co.ErrPropagates("R4", write, 1)
		to := c.Fn("tsdb:Head.truncateOOO")
		to.FailStops("R4", p.Call("tsdb:Head.truncateSeriesAndChunkDiskMapper"), p.MethodOn("tsdb:Head.wbl", "Truncate"))
		to.NoPath("R4", p.MethodOn("tsdb:Head.wbl", "Truncate"), p.Call("tsdb:Head.truncateSeriesAndChunkDiskMapper"))

		v := c.Fn("tsdb:DB.compactHeadViewLocked")
		v.FailStops("R4", write, eng.CallNamed("evict"))
		v.FailStops("R4", reload, eng.CallNamed("evict"))
		v.NoPath("R4", eng.CallNamed("evict"), write)

		// head Truncate at start-up: memory first, WAL only after
		t := c.Fn("tsdb:Head.Truncate")
		t.Gate("R4", p.Call("tsdb:Head.truncateMemory"), p.Call("tsdb:Head.truncateWAL"))

		// The WBL segment that truncateOOO later removes up to is cut BEFORE the out-of-order head
		// chunks are handed to the compaction: whatever is appended after the cut lands in a segment
		// that survives, whether or not it made it into the compaction (seed C03-b swaps the two).
		oc := c.Fn("tsdb:NewOOOCompactionHead")
		cutWBL := p.MethodOn("tsdb:Head.wbl", "NextSegmentSync")
		oc.Given("head.wbl != nil", true).Dom("R4", cutWBL, p.Call("tsdb:OOOCompactionHead.mmapOOOSeriesChunk"))
		oc.Gate("R4", cutWBL, p.Store("tsdb:OOOCompactionHead.lastWBLFile"))
		c.WritersSubset("R4", "tsdb:OOOCompactionHead.lastWBLFile", 1, "tsdb:NewOOOCompactionHead")
		c.CallersSubset("R4", "tsdb:OOOCompactionHead.mmapOOOSeriesChunk", 1, "tsdb:NewOOOCompactionHead")
		// what compactOOOHead passes to truncateOOO is that cut point
		o.ArgDerivesOnlyFrom("R4", p.Call("tsdb:Head.truncateOOO"), 0, "oooHead.LastWBLFile()", p.IsCallTo("tsdb:OOOCompactionHead.LastWBLFile"))

		// Head compaction waits for every appender that may still hold samples below the block's end:
		// the time an appender registers with the isolation bookkeeping (what WaitForAppendersOverlapping
		// compares against) is the lowest timestamp it accepts, not the head's max time (seed C03-a).
		for _, fn := range []string{"tsdb:Head.appender", "tsdb:Head.appenderV2"} {
			c.Fn(fn).ArgDerivesOnlyFrom("R4", p.Call("tsdb:isolation.newAppendID"), 0, "appendableMinValidTime()", p.IsCallTo("tsdb:Head.appendableMinValidTime"))
		}
		cm.Dom("R4", p.Call("tsdb:Head.WaitForAppendersOverlapping"), p.Call("tsdb:DB.compactHead"))
		c.Fn("tsdb:Head.WaitForAppendersOverlapping").Has("R4", p.Call("tsdb:isolation.lowestAppendTime"), 1)
	}
	// ---- R5 delete-after-rename, tmp cleanup before reload ----
	{
		d := c.Fn("tsdb:DB.deleteBlocks")
		d.Gate("R5", replace, p.Call("os:RemoveAll"))
		d.Only("R5", p.Call("os:RemoveAll"), "removes only the renamed-aside directory", func(l eng.Loc) bool {
			return eng.ExprString(l.Node.(*ast.CallExpr).Args[0]) == "tmpToDelete"
		})
		d.Only("R5", replace, "renames toDelete to tmpToDelete", func(l eng.Loc) bool {
			a := l.Node.(*ast.CallExpr).Args
			return eng.ExprString(a[0]) == "toDelete" && eng.ExprString(a[1]) == "tmpToDelete"
		})
		o := c.Fn("tsdb:open")
		o.Dom("R5", eng.LoopOver(p.Call("tsdb/tsdbutil:RemoveTmpDirs")), p.Call("tsdb:DB.reload"))
		o.Dom("R5", eng.LoopOver(p.Call("tsdb/wlog:DeleteTempCheckpoints")), p.Call("tsdb:DB.reload"))
		o.Dom("R5", eng.LoopOver(p.Call("tsdb/wlog:DeleteTempCheckpoints")), p.Call("tsdb:Head.Init"))
		o.ErrPropagates("R5", p.Call("tsdb/tsdbutil:RemoveTmpDirs"), 1)
	}
	// ---- R6 ownership of the destructive entry points ----
	c.OnlyIn("R6", p.Call("tsdb/wlog:WL.Truncate"), 3, "tsdb:Head.truncateWAL", "tsdb:Head.truncateOOO", "tsdb/agent:DB.truncate")
	c.CallersSubset("R6", "tsdb/wlog:DeleteCheckpoints", 2, "tsdb:Head.truncateWAL", "tsdb/agent:DB.truncate")
	c.CallersSubset("R6", "tsdb:Head.truncateMemory", 2, "tsdb:Head.Truncate", "tsdb:DB.compactHead")
	c.CallersSubset("R6", "tsdb:Head.truncateWAL", 4, "tsdb:Head.Truncate", "tsdb:DB.Compact", "tsdb:DB.CompactHead")
	// removeCorruptedMmappedChunks is the recovery path of Head.Init (drops what failed its checksum)
	c.CallersSubset("R6", "tsdb/chunks:ChunkDiskMapper.Truncate", 1, "tsdb:Head.truncateSeriesAndChunkDiskMapper", "tsdb:Head.removeCorruptedMmappedChunks")
	c.CallersSubset("R6", "tsdb:Head.Truncate", 1, "tsdb:DB.reload")
	c.CallersSubset("R6", "tsdb:DB.reload", 1, "tsdb:open")
}
