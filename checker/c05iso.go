package main

import (
	"go/ast"
	"strings"

	"promverif/eng"
)

// C05.R7 (added for seed C05-c): HeadAndOOOChunkReader.chunkOrIterable serves plain in-order chunks, out-of-order
// chunks and composites of both under one meta whose ref is that of the first member.  The isolation state bounds
// what is read from in-order head chunks, so it has to be handed on whenever the reader has one — a condition on
// the top-level ref (isOOO) would drop it for a composite that merely starts with an out-of-order chunk.
func runC05Iso(c *eng.Ctx) {
	p := c.P
	f := c.Fn("tsdb:HeadAndOOOChunkReader.chunkOrIterable")
	n := 0
	ast.Inspect(f.Body, func(x ast.Node) bool {
		as, ok := x.(*ast.AssignStmt)
		if !ok || len(as.Lhs) != 1 || nodeText(as.Lhs[0]) != "isoState" || !strings.Contains(nodeText(as.Rhs[0]), "isoState") {
			return true
		}
		n++
		conds := f.CondsOf(as)
		c.Check("R7", f.Where(), "the reader's isolation state is used whenever the reader has one (no condition on the kind of the top-level ref)", len(conds) == 1 && conds[0] == "cr.cr != nil=T", p.Pos(as.Pos()),
			"conditions: "+strings.Join(conds, " ; ")+" — in-order head chunks inside a merged meta would be read without isolation: a querier sees samples of a transaction that is still committing")
		return true
	})
	c.Check("R7", f.Where(), "assignment of the isolation state found", n == 1, p.Pos(f.Body.Pos()), "")
	f.Has("R7", eng.Node("use of isoState", func(g *eng.Graph, n ast.Node) bool {
		call, ok := n.(*ast.CallExpr)
		if !ok {
			return false
		}
		for _, a := range call.Args {
			if nodeText(a) == "isoState" {
				return true
			}
		}
		return false
	}), 1)
}
