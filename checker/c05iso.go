package main

import (
	"fmt"
	"go/ast"
	"go/types"
	"sort"
	"strings"

	"promverif/eng"
)

// C05.R7 (added for seed C05-c): HeadAndOOOChunkReader.chunkOrIterable serves plain in-order chunks, out-of-order
// chunks and composites of both under one meta whose ref is that of the first member.  The isolation state bounds
// what is read from in-order head chunks, so it has to be handed on whenever the reader has one — a condition on
// the top-level ref (isOOO) would drop it for a composite that merely starts with an out-of-order chunk.
func runC05Iso(c *eng.Ctx) {
	p := c.P
	defer runC05Wrappers(c)
	defer runC05Visible(c)
	defer runC05Partial(c)
	f := c.Fn("tsdb:HeadAndOOOChunkReader.chunkOrIterable")
	n := 0
	ast.Inspect(f.Body, func(x ast.Node) bool {
		as, ok := x.(*ast.AssignStmt)
		if !ok || len(as.Lhs) != 1 || nodeText(as.Lhs[0]) != "isoState" || !strings.Contains(nodeText(as.Rhs[0]), "isoState") {
			return true
		}
		n++
		conds := f.CondsOf(as)
		c.Check("R7", f.Where(), "the reader's isolation state is used whenever the reader has one (no condition on the kind of the top-level ref)", len(conds) == 1 && conds[0] == "cr.cr != nil=T", p.Pos(as.Pos()),
			"conditions: "+strings.Join(conds, " ; ")+" — in-order head chunks inside a merged meta would be read without isolation: a querier sees samples of a transaction that is still committing")
		return true
	})
	c.Check("R7", f.Where(), "assignment of the isolation state found", n == 1, p.Pos(f.Body.Pos()), "")
	f.Has("R7", eng.Node("use of isoState", func(g *eng.Graph, n ast.Node) bool {
		call, ok := n.(*ast.CallExpr)
		if !ok {
			return false
		}
		for _, a := range call.Args {
			if nodeText(a) == "isoState" {
				return true
			}
		}
		return false
	}), 1)
}

// C05.R8 (finding F66): the uncommitted tail of a head chunk is hidden from a reader by a wrapper around the chunk's
// iterator (stopIterator: only the first stopAfter samples).  A wrapper that embeds chunkenc.Iterator and declares
// its own Next restricts or transforms the sequence of samples; every other method of the interface that advances
// the iterator (those returning a chunkenc.ValueType: Seek) is promoted from the wrapped iterator unless the wrapper
// declares it too, and the promoted one advances with the wrapped iterator's own Next — past the restriction.
func runC05Wrappers(c *eng.Ctx) {
	p := c.P
	itf, ok := p.Named("tsdb/chunkenc:Iterator").Underlying().(*types.Interface)
	if !ok {
		c.Fail("R8", "tsdb/chunkenc:Iterator", "interface resolved", "", "")
		return
	}
	var advancing []string
	for i := 0; i < itf.NumMethods(); i++ {
		sig := itf.Method(i).Type().(*types.Signature)
		if sig.Results().Len() == 1 && strings.HasSuffix(sig.Results().At(0).Type().String(), "chunkenc.ValueType") {
			advancing = append(advancing, itf.Method(i).Name())
		}
	}
	sort.Strings(advancing)
	c.Check("R8", "tsdb/chunkenc:Iterator", "advancing methods of the interface found (Next, Seek)", len(advancing) >= 2, p.Pos(p.Named("tsdb/chunkenc:Iterator").Obj().Pos()), strings.Join(advancing, ", "))
	wrappers := 0
	for _, rel := range []string{"tsdb", "storage", "tsdb/chunkenc", "promql"} {
		if !p.HasPkg(rel) {
			continue
		}
		scope := p.Pkg(rel).Types.Scope()
		for _, name := range scope.Names() {
			tn, ok := scope.Lookup(name).(*types.TypeName)
			if !ok {
				continue
			}
			named, ok := tn.Type().(*types.Named)
			if !ok {
				continue
			}
			st, ok := named.Underlying().(*types.Struct)
			if !ok {
				continue
			}
			embeds := false
			for i := 0; i < st.NumFields(); i++ {
				if f := st.Field(i); f.Embedded() && types.Identical(f.Type(), p.Named("tsdb/chunkenc:Iterator")) {
					embeds = true
				}
			}
			if !embeds {
				continue
			}
			own := map[string]bool{}
			for i := 0; i < named.NumMethods(); i++ {
				own[named.Method(i).Name()] = true
			}
			var declared, missing []string
			for _, m := range advancing {
				if own[m] {
					declared = append(declared, m)
				} else {
					missing = append(missing, m)
				}
			}
			if len(declared) == 0 {
				continue // forwards the whole sequence unchanged
			}
			wrappers++
			c.Check("R8", rel+":"+name, fmt.Sprintf("a wrapper that declares one advancing method of chunkenc.Iterator declares all of them (%s)", strings.Join(advancing, ", ")),
				len(missing) == 0, p.Pos(tn.Pos()),
				"promoted from the wrapped iterator: "+strings.Join(missing, ", ")+" — it advances with the wrapped iterator's own Next, past what the wrapper hides: a querier created while a transaction is committing reads its samples through Seek")
			for _, m := range declared {
				if m == "Next" || !own["Next"] || rel != "tsdb" { // elsewhere the wrappers transform values and keep the sequence
					continue
				}
				f := c.Fn(rel + ":" + name + "." + m)
				f.Hasnt("R8", eng.Node("the wrapped iterator's own "+m, func(g *eng.Graph, n ast.Node) bool {
					call, ok := n.(*ast.CallExpr)
					if !ok {
						return false
					}
					sel, ok := call.Fun.(*ast.SelectorExpr)
					if !ok || sel.Sel.Name != m {
						return false
					}
					inner, ok := sel.X.(*ast.SelectorExpr)
					return ok && inner.Sel.Name == "Iterator"
				}))
			}
		}
	}
	c.Check("R8", "tsdb", "the wrapper that hides the uncommitted tail of a head chunk was found", wrappers >= 1, "", fmt.Sprint(wrappers))
}

// C05.R9 (finding F67): a head chunk is handed to readers wrapped in safeHeadChunk, and of that wrapper only Iterator
// applies the isolation bound — Bytes, NumSamples and the rest are promoted from the raw chunk.  A chunk querier's
// consumers (remote read, the chunk merge) use the bytes, so a head chunk may leave a ChunkOrIterable-style function as
// the *chunk* result only after a visibility test; otherwise it has to leave as the iterable.  The rule finds the
// producers of safeHeadChunk values (a composite literal, then functions that return a producer's result) and requires
// that no function with results (chunkenc.Chunk, chunkenc.Iterable, …) returns a producer's result as its chunk
// directly.  It also states what the visibility test rests on: the flag is computed under the series lock from the
// same count the iterator uses (visibleSamples), and the test returns no chunk when the flag is set.
func runC05Visible(c *eng.Ctx) {
	p := c.P
	type fn struct {
		fs   *eng.FuncSrc
		name string
	}
	var fns []fn
	for _, fs := range p.AllFuncs() {
		if fs.Decl.Body == nil || !strings.HasSuffix(fs.Pkg.PkgPath, "/tsdb") || strings.HasSuffix(p.Pos(fs.Decl.Pos()), "_test.go") || strings.Contains(p.Pos(fs.Decl.Pos()), "_test.go:") {
			continue
		}
		fns = append(fns, fn{fs, eng.FuncName(fs.Obj)})
	}
	isChunk := func(t types.Type) bool { return strings.HasSuffix(t.String(), "tsdb/chunkenc.Chunk") }
	isIterable := func(t types.Type) bool { return strings.HasSuffix(t.String(), "tsdb/chunkenc.Iterable") }
	producers := map[*types.Func]bool{}
	calleeOf := func(fs *eng.FuncSrc, e ast.Expr) *types.Func {
		call, ok := ast.Unparen(e).(*ast.CallExpr)
		if !ok {
			return nil
		}
		var id *ast.Ident
		switch x := ast.Unparen(call.Fun).(type) {
		case *ast.Ident:
			id = x
		case *ast.SelectorExpr:
			id = x.Sel
		}
		if id == nil {
			return nil
		}
		f, _ := fs.Pkg.TypesInfo.Uses[id].(*types.Func)
		return f
	}
	for changed := true; changed; {
		changed = false
		for _, f := range fns {
			sig := f.fs.Obj.Type().(*types.Signature)
			if producers[f.fs.Obj] || sig.Results().Len() == 0 || !isChunk(sig.Results().At(0).Type()) || sig.Results().Len() > 1 && isIterable(sig.Results().At(1).Type()) {
				continue
			}
			ast.Inspect(f.fs.Decl.Body, func(x ast.Node) bool {
				rs, ok := x.(*ast.ReturnStmt)
				if !ok || len(rs.Results) == 0 {
					return true
				}
				r0 := nodeText(rs.Results[0])
				if strings.HasPrefix(r0, "&safeHeadChunk{") || producers[calleeOf(f.fs, rs.Results[0])] {
					producers[f.fs.Obj] = true
					changed = true
				}
				return true
			})
		}
	}
	var pn []string
	for f := range producers {
		pn = append(pn, eng.FuncName(f))
	}
	sort.Strings(pn)
	c.Check("R9", "tsdb", "producers of isolation-wrapped head chunks found (the literal and what returns it)", len(pn) >= 2, "", strings.Join(pn, ", "))
	sites := 0
	tests := map[*types.Func]bool{} // functions a producer's result is passed through before it is returned
	for _, f := range fns {
		sig := f.fs.Obj.Type().(*types.Signature)
		if sig.Results().Len() < 2 || !isChunk(sig.Results().At(0).Type()) || !isIterable(sig.Results().At(1).Type()) {
			continue
		}
		fromProducer := map[types.Object]string{}
		ast.Inspect(f.fs.Decl.Body, func(x ast.Node) bool {
			as, ok := x.(*ast.AssignStmt)
			if !ok || len(as.Rhs) != 1 || len(as.Lhs) == 0 {
				return true
			}
			if cal := calleeOf(f.fs, as.Rhs[0]); cal != nil && producers[cal] {
				if id, ok := as.Lhs[0].(*ast.Ident); ok {
					if o := f.fs.Pkg.TypesInfo.ObjectOf(id); o != nil {
						fromProducer[o] = eng.FuncName(cal)
					}
				}
			}
			return true
		})
		if len(fromProducer) == 0 {
			continue
		}
		ast.Inspect(f.fs.Decl.Body, func(x ast.Node) bool {
			call, ok := x.(*ast.CallExpr)
			if !ok {
				return true
			}
			for _, a := range call.Args {
				if id, ok := ast.Unparen(a).(*ast.Ident); ok {
					if _, ok := fromProducer[f.fs.Pkg.TypesInfo.ObjectOf(id)]; ok {
						if g := calleeOf(f.fs, call); g != nil && !producers[g] && g.Pkg() == f.fs.Obj.Pkg() {
							tests[g] = true
						}
					}
				}
			}
			return true
		})
		var bad []string
		badPos := f.fs.Decl.Pos()
		ast.Inspect(f.fs.Decl.Body, func(x ast.Node) bool {
			rs, ok := x.(*ast.ReturnStmt)
			if !ok || len(rs.Results) == 0 {
				return true
			}
			if cal := calleeOf(f.fs, rs.Results[0]); cal != nil && producers[cal] {
				bad = append(bad, nodeText(rs))
				badPos = rs.Pos()
			}
			if id, ok := ast.Unparen(rs.Results[0]).(*ast.Ident); ok {
				if src, ok := fromProducer[f.fs.Pkg.TypesInfo.ObjectOf(id)]; ok {
					bad = append(bad, nodeText(rs)+" ("+id.Name+" from "+src+")")
					badPos = rs.Pos()
				}
			}
			return true
		})
		sites++
		c.FnsAnalysed[f.name] = true
		c.Check("R9", f.name, "a head chunk obtained under isolation is not returned as the chunk result without a visibility test", len(bad) == 0, p.Pos(badPos),
			strings.Join(bad, " ; ")+" — the chunk's bytes and sample count include the samples of a transaction that is still committing; only Iterator hides them")
	}
	c.Check("R9", "tsdb", "functions handing out head chunks as (chunk, iterable) found", sites >= 3, "", fmt.Sprint(sites))

	cfs := c.Fn("tsdb:Head.chunkFromSeries")
	lits := cfs.LitTexts("tsdb:safeHeadChunk")
	okLit := len(lits) == 1
	var flagField string
	for _, l := range lits {
		found := false
		for k, v := range l {
			if strings.Contains(v, "visibleSamples(") && strings.Contains(v, "isoState") && strings.Contains(v, "<") && strings.Contains(v, "NumSamples()") {
				found = true
				flagField = k
			}
		}
		okLit = okLit && found
	}
	c.Check("R9", cfs.Where(), "the wrapper records, under the series lock, whether the reader's isolation state hides samples of the chunk (visibleSamples(…, isoState) < NumSamples())", okLit, p.Pos(cfs.Body.Pos()), fmt.Sprint(lits))
	if len(tests) == 0 || flagField == "" {
		c.Fail("R9", "tsdb", "the visibility test exists (a function the producers' results are passed through before they are returned)", "", "no function tests the wrapper's flag")
		return
	}
	for g := range tests {
		vt := c.Fn(eng.FuncName(g))
		n := 0
		ast.Inspect(vt.Body, func(x ast.Node) bool {
			rs, ok := x.(*ast.ReturnStmt)
			if !ok || len(rs.Results) != 2 || nodeText(rs.Results[0]) != "nil" {
				return true
			}
			// the only conditions: the value is a wrapper (type assertion ok) and its flag is set
			flagged, other := 0, 0
			for _, cd := range vt.CondsOf(rs) {
				for _, part := range strings.Split(strings.TrimSuffix(cd, "=T"), "&&") {
					part = strings.TrimSpace(part)
					switch {
					case !strings.HasSuffix(cd, "=T"):
						other++
					case part == "ok":
					case strings.HasSuffix(part, "."+flagField) && !strings.Contains(part, "!"):
						flagged++
					default:
						other++
					}
				}
			}
			if flagged == 1 && other == 0 {
				n++
			}
			return true
		})
		c.Check("R9", vt.Where(), "a wrapper whose flag is set leaves as the iterable, with no chunk", n == 1, p.Pos(vt.Body.Pos()), fmt.Sprint(n))
	}
	it := c.Fn("tsdb:memSeries.iterator")
	it.Has("R9", p.Call("tsdb:memSeries.visibleSamples"), 1)
}

// C05.R10 (finding F69, open): "the samples of one transaction become visible together or not at all".  Append accepts
// a sample against the series' state at that moment; Commit re-checks it under the series lock and, if another
// transaction has moved the series on meanwhile, drops it (counted in the commit context's …Rejected fields) while
// the transaction's other samples are stored.  For the transaction not to be reported as applied whole, something
// Commit counted as rejected has to reach what it returns; the rule looks for a return of a non-nil error under a
// condition that reads one of those counters.
func runC05Partial(c *eng.Ctx) {
	p := c.P
	f := c.Fn("tsdb:headAppenderBase.Commit")
	st, ok := p.Named("tsdb:appenderCommitContext").Underlying().(*types.Struct)
	if !ok {
		c.Fail("R10", f.Where(), "commit context resolved", "", "")
		return
	}
	var rejected []string
	for i := 0; i < st.NumFields(); i++ {
		if strings.HasSuffix(st.Field(i).Name(), "Rejected") {
			rejected = append(rejected, st.Field(i).Name())
		}
	}
	c.Check("R10", f.Where(), "the commit context counts the samples dropped at commit time (…Rejected)", len(rejected) >= 3, p.Pos(f.Body.Pos()), strings.Join(rejected, ", "))
	reported := 0
	ast.Inspect(f.Body, func(x ast.Node) bool {
		rs, ok := x.(*ast.ReturnStmt)
		if !ok || len(rs.Results) != 1 || nodeText(rs.Results[0]) == "nil" {
			return true
		}
		for _, cd := range f.CondsOf(rs) {
			for _, r := range rejected {
				if strings.Contains(cd, "."+r) {
					reported++
				}
			}
		}
		if strings.Contains(nodeText(rs.Results[0]), "Rejected") {
			reported++
		}
		return true
	})
	c.Check("R10", f.Where(), "a transaction of which Commit dropped a part is not reported as committed whole (a non-nil return that depends on a …Rejected count)", reported >= 1, p.Pos(f.Body.Rbrace),
		"Commit returns nil whatever it dropped: the transaction's other samples stay, the dropped ones are gone for good and the caller is told nothing")
}
