package main

import (
	"fmt"
	"go/ast"
	"go/types"
	"sort"
	"strings"

	"promverif/eng"
)

// C05.R7 (added for seed C05-c): HeadAndOOOChunkReader.chunkOrIterable serves plain in-order chunks, out-of-order
// chunks and composites of both under one meta whose ref is that of the first member.  The isolation state bounds
// what is read from in-order head chunks, so it has to be handed on whenever the reader has one — a condition on
// the top-level ref (isOOO) would drop it for a composite that merely starts with an out-of-order chunk.
func runC05Iso(c *eng.Ctx) {
	p := c.P
	defer runC05Wrappers(c)
	f := c.Fn("tsdb:HeadAndOOOChunkReader.chunkOrIterable")
	n := 0
	ast.Inspect(f.Body, func(x ast.Node) bool {
		as, ok := x.(*ast.AssignStmt)
		if !ok || len(as.Lhs) != 1 || nodeText(as.Lhs[0]) != "isoState" || !strings.Contains(nodeText(as.Rhs[0]), "isoState") {
			return true
		}
		n++
		conds := f.CondsOf(as)
		c.Check("R7", f.Where(), "the reader's isolation state is used whenever the reader has one (no condition on the kind of the top-level ref)", len(conds) == 1 && conds[0] == "cr.cr != nil=T", p.Pos(as.Pos()),
			"conditions: "+strings.Join(conds, " ; ")+" — in-order head chunks inside a merged meta would be read without isolation: a querier sees samples of a transaction that is still committing")
		return true
	})
	c.Check("R7", f.Where(), "assignment of the isolation state found", n == 1, p.Pos(f.Body.Pos()), "")
	f.Has("R7", eng.Node("use of isoState", func(g *eng.Graph, n ast.Node) bool {
		call, ok := n.(*ast.CallExpr)
		if !ok {
			return false
		}
		for _, a := range call.Args {
			if nodeText(a) == "isoState" {
				return true
			}
		}
		return false
	}), 1)
}

// C05.R8 (finding F66): the uncommitted tail of a head chunk is hidden from a reader by a wrapper around the chunk's
// iterator (stopIterator: only the first stopAfter samples).  A wrapper that embeds chunkenc.Iterator and declares
// its own Next restricts or transforms the sequence of samples; every other method of the interface that advances
// the iterator (those returning a chunkenc.ValueType: Seek) is promoted from the wrapped iterator unless the wrapper
// declares it too, and the promoted one advances with the wrapped iterator's own Next — past the restriction.
func runC05Wrappers(c *eng.Ctx) {
	p := c.P
	itf, ok := p.Named("tsdb/chunkenc:Iterator").Underlying().(*types.Interface)
	if !ok {
		c.Fail("R8", "tsdb/chunkenc:Iterator", "interface resolved", "", "")
		return
	}
	var advancing []string
	for i := 0; i < itf.NumMethods(); i++ {
		sig := itf.Method(i).Type().(*types.Signature)
		if sig.Results().Len() == 1 && strings.HasSuffix(sig.Results().At(0).Type().String(), "chunkenc.ValueType") {
			advancing = append(advancing, itf.Method(i).Name())
		}
	}
	sort.Strings(advancing)
	c.Check("R8", "tsdb/chunkenc:Iterator", "advancing methods of the interface found (Next, Seek)", len(advancing) >= 2, p.Pos(p.Named("tsdb/chunkenc:Iterator").Obj().Pos()), strings.Join(advancing, ", "))
	wrappers := 0
	for _, rel := range []string{"tsdb", "storage", "tsdb/chunkenc", "promql"} {
		if !p.HasPkg(rel) {
			continue
		}
		scope := p.Pkg(rel).Types.Scope()
		for _, name := range scope.Names() {
			tn, ok := scope.Lookup(name).(*types.TypeName)
			if !ok {
				continue
			}
			named, ok := tn.Type().(*types.Named)
			if !ok {
				continue
			}
			st, ok := named.Underlying().(*types.Struct)
			if !ok {
				continue
			}
			embeds := false
			for i := 0; i < st.NumFields(); i++ {
				if f := st.Field(i); f.Embedded() && types.Identical(f.Type(), p.Named("tsdb/chunkenc:Iterator")) {
					embeds = true
				}
			}
			if !embeds {
				continue
			}
			own := map[string]bool{}
			for i := 0; i < named.NumMethods(); i++ {
				own[named.Method(i).Name()] = true
			}
			var declared, missing []string
			for _, m := range advancing {
				if own[m] {
					declared = append(declared, m)
				} else {
					missing = append(missing, m)
				}
			}
			if len(declared) == 0 {
				continue // forwards the whole sequence unchanged
			}
			wrappers++
			c.Check("R8", rel+":"+name, fmt.Sprintf("a wrapper that declares one advancing method of chunkenc.Iterator declares all of them (%s)", strings.Join(advancing, ", ")),
				len(missing) == 0, p.Pos(tn.Pos()),
				"promoted from the wrapped iterator: "+strings.Join(missing, ", ")+" — it advances with the wrapped iterator's own Next, past what the wrapper hides: a querier created while a transaction is committing reads its samples through Seek")
			for _, m := range declared {
				if m == "Next" || !own["Next"] || rel != "tsdb" { // elsewhere the wrappers transform values and keep the sequence
					continue
				}
				f := c.Fn(rel + ":" + name + "." + m)
				f.Hasnt("R8", eng.Node("the wrapped iterator's own "+m, func(g *eng.Graph, n ast.Node) bool {
					call, ok := n.(*ast.CallExpr)
					if !ok {
						return false
					}
					sel, ok := call.Fun.(*ast.SelectorExpr)
					if !ok || sel.Sel.Name != m {
						return false
					}
					inner, ok := sel.X.(*ast.SelectorExpr)
					return ok && inner.Sel.Name == "Iterator"
				}))
			}
		}
	}
	c.Check("R8", "tsdb", "the wrapper that hides the uncommitted tail of a head chunk was found", wrappers >= 1, "", fmt.Sprint(wrappers))
}
