package main

import (
	"go/ast"
	"strings"

	"promverif/eng"
)

func init() {
	register(&Property{
		ID:        "C46",
		Title:     "The notifier delivers queued alerts in order and accounts for every drop",
		Technique: "must-hold lockset and who-may-write rule for the per-Alertmanager queue; aliasing rule for what nextBatch hands out (a fresh copy, never a sub-slice of the shared queue); go/cfg all-paths rules that every statement discarding queued alerts reaches the dropped counter; order/arm rules for stop (drain vs. count) and for the single-slot work signal",
		DesignRef: "DESIGN.md §5 C46",
		Level: "Decides that the queue is only touched under the send loop's mutex and only written by the constructor, add and nextBatch, that a batch handed to the sender is a new slice that shares no storage with the queue (alerts are taken from the front, in order), that every place that discards alerts (oversized input, overflow of the queue, a failed send, a stop without drain) adds the number discarded to the dropped counter, " +
			"that stop drains the queue when configured to and counts what is left otherwise, that add never enqueues after stop, and that add always raises the work signal after enqueueing.",
		Note:           "Trusted: go/packages, go/types, go/cfg; rule tables in checker/c46.go.",
		Covers:         "sendLoop.add, nextBatch, sendOneBatch, stop, drainQueue, notifyWork, loop.",
		NotCover:       "batch contents and sizes at run time, HTTP delivery, retries, relabelling of alerts.",
		Run:            runC46,
		MinObligations: 18,
	})
}

func runC46(c *eng.Ctx) {
	p := c.P
	S := "notifier:sendLoop"
	// ---- R1 lockset / writers ----
	c.GuardedBy("R1", S+".queue", S+".mtx", eng.GuardOpts{Min: 10, Unlocked: map[string]string{"notifier:newSendLoop": "constructor"}})
	c.WritersSubset("R1", S+".queue", 5, S+".add", S+".nextBatch", "notifier:newSendLoop")
	// ---- R1b what nextBatch hands out ----
	nb := c.Fn(S + ".nextBatch")
	nb.Only("R1", eng.AssignVar("alerts"), "is a freshly allocated copy of a prefix of the queue (append(make(…), s.queue[…]...)), never the queue's own storage", func(l eng.Loc) bool {
		switch x := l.Node.(type) {
		case *ast.ValueSpec:
			return len(x.Values) == 0
		case *ast.AssignStmt:
			if len(x.Lhs) != 1 || len(x.Rhs) != 1 {
				return false
			}
			t := nodeText(x.Rhs[0])
			return strings.HasPrefix(t, "append(make([]*Alert, 0, ") && (strings.HasSuffix(t, "s.queue...)") || strings.HasSuffix(t, "s.queue[:maxBatchSize]...)"))
		}
		return false
	})
	nb.Only("R1", eng.Return("", nil), "returns the copy", func(l eng.Loc) bool { return eng.ReturnText(l) == "alerts" })
	nb.Only("R1", p.Store(S+".queue"), "removes exactly what was copied, from the front", func(l eng.Loc) bool {
		as, ok := l.Node.(*ast.AssignStmt)
		if !ok || len(as.Lhs) != 1 {
			return false
		}
		t := eng.ExprString(as.Rhs[0])
		return t == "s.queue[maxBatchSize:]" || t == "s.queue[:0]"
	})
	nb.Dom("R1", eng.AssignVar("alerts"), p.Store(S+".queue"))
	// ---- R2 every discard is counted ----
	dropped := eng.Node("metrics.dropped…Add(…)", func(g *eng.Graph, n ast.Node) bool {
		call, ok := n.(*ast.CallExpr)
		return ok && strings.HasPrefix(nodeText(call), "s.metrics.dropped.WithLabelValues(s.alertmanagerURL).Add(")
	})
	add := c.Fn(S + ".add")
	discard := eng.Node("alerts = alerts[d:] / s.queue = s.queue[d:]", func(g *eng.Graph, n ast.Node) bool {
		t := nodeText(n)
		return t == "alerts = alerts[d:]" || t == "s.queue = s.queue[d:]"
	})
	add.Has("R2", discard, 2)
	// each discard is counted in the same basic block, and the count reaches the metric whenever it is positive
	tally := eng.Node("dropped += d", func(g *eng.Graph, n ast.Node) bool { return nodeText(n) == "dropped += d" })
	add.Only("R2", discard, "is paired with `dropped += d` in the same block", func(l eng.Loc) bool {
		for _, t := range add.Find(tally) {
			if t.Blk == l.Blk {
				return true
			}
		}
		return false
	})
	add.AllPaths("R2", discard, eng.CondTest("dropped > 0"), eng.AnyExit)
	add.Only("R2", dropped, "is guarded by `dropped > 0` only", func(l eng.Loc) bool {
		gs := add.GuardsOf(l)
		return len(gs) == 1 && gs[0] == "-1*dropped < 0"
	})
	add.Only("R2", dropped, "adds the number of alerts discarded", func(l eng.Loc) bool { a := eng.CallArgsText(l); return len(a) == 1 && a[0] == "float64(dropped)" })
	add.Only("R2", discard, "discards exactly the excess d > 0", func(l eng.Loc) bool { return add.UnderCond(l, "d > 0") })
	enq := eng.Node("s.queue = append(s.queue, alerts...)", func(g *eng.Graph, n ast.Node) bool { return nodeText(n) == "s.queue = append(s.queue, alerts...)" })
	add.Has("R2", enq, 1)
	add.AllPaths("R2", enq, p.Call(S+".notifyWork"), eng.AnyExit)
	add.Dom("R2", eng.Node("<-s.stopped", func(g *eng.Graph, n ast.Node) bool { return nodeText(n) == "<-s.stopped" }), enq)
	sb := c.Fn(S + ".sendOneBatch")
	sb.GivenBranch("!s.sendAll(alerts)", true).DomOK("R2", dropped)
	sb.Only("R2", dropped, "counts the whole failed batch", func(l eng.Loc) bool { a := eng.CallArgsText(l); return len(a) == 1 && a[0] == "float64(len(alerts))" })
	sb.Only("R2", p.Call(S+".sendAll"), "sends the batch just taken", func(l eng.Loc) bool { a := eng.CallArgsText(l); return len(a) == 1 && a[0] == "alerts" })
	c.CallersSubset("R2", S+".nextBatch", 1, S+".sendOneBatch")
	// ---- R3 stop ----
	st := c.Fn(S+".stop").Closure("once", p.Call(S+".drainQueue"))
	st.GivenBranch("s.opts.DrainOnShutdown", true).Reachable("R3", p.Call(S+".drainQueue"))
	st.GivenBranch("s.opts.DrainOnShutdown", true).Unreachable("R3", dropped)
	st.GivenBranch("s.opts.DrainOnShutdown", false).Reachable("R3", dropped)
	st.GivenBranch("s.opts.DrainOnShutdown", false).Unreachable("R3", p.Call(S+".drainQueue"))
	st.Dom("R3", eng.Node("close(s.stopped)", func(g *eng.Graph, n ast.Node) bool { return nodeText(n) == "close(s.stopped)" }), eng.Or(p.Call(S+".drainQueue"), dropped))
	dq := c.Fn(S + ".drainQueue")
	dq.AstEvery("R3", "drain loop", func(n ast.Node) bool { _, ok := n.(*ast.ForStmt); return ok }, "runs until the queue is empty", func(n ast.Node) bool {
		fs := n.(*ast.ForStmt)
		return fs.Cond != nil && eng.ExprString(fs.Cond) == "s.queueLen() > 0" && strings.Contains(nodeText(fs.Body), "s.sendOneBatch()")
	}, 1)
	// ---- R4 (added for seed C46-b) one send loop per Alertmanager URL at any time ----
	// A loop is removed from the set only after it has stopped (its queue drained or dropped), synchronously: a loop that
	// is still draining while the same URL is registered again would let newer alerts overtake queued ones.
	{
		A := "notifier:alertmanagerSet"
		del := p.DeleteElem(A + ".sendLoops")
		c.OnlyIn("R4", del, 1, A+".cleanSendLoops")
		cl := c.Fn(A + ".cleanSendLoops")
		stop := p.Call(S + ".stop")
		cl.Has("R4", stop, 1)
		cl.Dom("R4", stop, del)
		cl.Hasnt("R4", eng.GoStarted(stop))
		// nobody stops a send loop asynchronously
		n := 0
		for _, o := range p.FindAll(eng.Node("go ….stop()", func(g *eng.Graph, nd ast.Node) bool {
			gs, ok := nd.(*ast.GoStmt)
			return ok && g.Pkg.PkgPath == "github.com/prometheus/prometheus/notifier" && strings.HasSuffix(nodeText(gs.Call.Fun), ".stop")
		})) {
			n++
			c.Fail("R4", o.In, "no send loop is stopped in a goroutine", p.Pos(o.Node.Pos()), nodeText(o.Node))
		}
		if n == 0 {
			c.Pass("R4", "notifier", "no send loop is stopped in a goroutine", "")
		}
		// a loop for a URL is started only when none is registered
		st := c.Fn(A + ".addSendLoops")
		st.Only("R4", p.StoreElem(A+".sendLoops"), "registers a new loop only for a URL that has none", func(l eng.Loc) bool {
			return nodeText(l.Node) == "s.sendLoops[us] = sendLoop"
		})
		conts := st.Branches("continue")
		c.Check("R4", st.Where(), "a URL that already has a send loop is skipped", len(conts) == 1 && len(conts[0].Conds) == 1 && conts[0].Conds[0] == "exists=T", p.Pos(st.Body.Pos()), "")
	}
}
