package main

import (
	"go/ast"
	"go/types"
	"sort"
	"strings"

	"promverif/eng"
)

func init() {
	register(&Property{
		ID:        "C13",
		Title:     "The write-ahead log returns exactly the records written",
		Technique: "table agreement between the fragment types and compression flags the writer emits and what both readers validate/test (go/types constants, switch case lists); def-use rule that the CRC covers the bytes copied into the page and fixed-offset agreement of the 7-byte header; linear normal form of the size comparisons ('not enough buffered yet' ⇔ available < needed; maximum fragment size equal in writer, reader and live reader), which is stable under restyling and changes with an off-by-one",
		DesignRef: "DESIGN.md §5 C13",
		Level: "Decides that the four fragment types the writer can emit are exactly those validateRecord accepts (both readers call it before accepting a fragment), that the compression bits the writer sets are the ones both readers test and that the writer handles every compression type, " +
			"that the checksum is computed over the same slice that is copied into the page and the header fields sit at the offsets both readers read, that the writer always makes one pass (empty records), and — over integer linear arithmetic — that the live reader answers 'wait for more data' exactly when fewer bytes are buffered than the item needs and that writer, reader and live reader agree on the maximum fragment length.",
		Note:           "Trusted: go/packages, go/types, go/cfg; linear normaliser checker/eng/linear.go; rule tables in checker/c13.go.",
		Covers:         "WL.log, validateRecord, recTypeFromHeader, Reader.nextNew, LiveReader.readRecord/buildRecord.",
		NotCover:       "fragment reassembly over real page/segment sequences, segment switching, schedules of a live reader against a writer, the compression codecs.",
		Run:            runC13,
		MinObligations: 28,
	})
}

func runC13(c *eng.Ctx) {
	defer runC13Frag(c)
	p := c.P
	W := "tsdb/wlog"
	w := c.Fn(W + ":WL.log")
	rd := c.Fn(W + ":Reader.nextNew")
	lr := c.Fn(W + ":LiveReader.readRecord")
	br := c.Fn(W + ":LiveReader.buildRecord")
	// ---- R1 tables ----
	{
		// fragment types assigned by the writer
		emit := map[string]bool{}
		for _, l := range w.Find(eng.AssignVar("typ")) {
			if as, ok := l.Node.(*ast.AssignStmt); ok && as.Tok.String() == "=" {
				emit[eng.ExprString(as.Rhs[0])] = true
			}
		}
		v := c.Fn(W + ":validateRecord")
		sws := v.EnumSwitches(W + ":recType")
		acc := map[string]bool{}
		if len(sws) == 1 {
			for k := range sws[0].Cases {
				acc[k] = true
			}
		}
		a, b := strings.Join(eng.SortedKeys(emit), ","), strings.Join(eng.SortedKeys(acc), ",")
		c.Check("R1", W+":WL.log/validateRecord", "fragment types emitted by the writer = fragment types accepted by validateRecord", a == b && len(emit) == 4, p.Pos(v.Body.Pos()), "writer: {"+a+"} validateRecord: {"+b+"}")
		v.SwitchCovers("R1", W+":recType", 1, map[string]string{"recPageTerm": "padding marker, consumed by the readers before validation"})
		rd.Gate("R1", p.Call(W+":validateRecord"), p.StoreVal(W+":Reader.precomprBuf", "append(…)", func(g *eng.Graph, e ast.Expr) bool { return strings.HasPrefix(eng.ExprString(e), "append(") }))
		br.Has("R1", p.Call(W+":validateRecord"), 1)
		br.FailStops("R1", p.Call(W+":validateRecord"), p.Call("util/compression:Decode"))
		// compression bits
		masks := func(f *eng.Fn) string {
			m := map[string]bool{}
			ast.Inspect(f.Body, func(x ast.Node) bool {
				if id, ok := x.(*ast.Ident); ok && (id.Name == "snappyMask" || id.Name == "zstdMask") {
					m[id.Name] = true
				}
				return true
			})
			return strings.Join(eng.SortedKeys(m), ",")
		}
		c.Check("R1", W+":WL.log", "the writer sets exactly the snappy and zstd bits", masks(w) == "snappyMask,zstdMask", p.Pos(w.Body.Pos()), masks(w))
		for _, f := range []*eng.Fn{rd, br} {
			c.Check("R1", f.Where(), "the reader tests the same compression bits the writer sets", masks(f) == masks(w), p.Pos(f.Body.Pos()), "reader: "+masks(f)+" writer: "+masks(w))
			f.AstEvery("R1", "compression bit test", func(n ast.Node) bool {
				be, ok := n.(*ast.BinaryExpr)
				return ok && be.Op.String() == "==" && strings.Contains(eng.ExprString(be.X), "Mask")
			}, "has the form hdr[0]&mask == mask", func(n ast.Node) bool {
				be := n.(*ast.BinaryExpr)
				x, ok := be.X.(*ast.BinaryExpr)
				return ok && x.Op.String() == "&" && eng.ExprString(x.Y) == eng.ExprString(be.Y) && strings.HasSuffix(eng.ExprString(x.X), "hdr[0]")
			}, 2)
		}
		{
			// compression.Type is an alias of string: enumerate the package's string constants
			var all []string
			sc := p.Global("util/compression:None").Pkg().Scope()
			for _, n := range sc.Names() {
				if k, ok := sc.Lookup(n).(*types.Const); ok && k.Exported() {
					all = append(all, n)
				}
			}
			handled := map[string]bool{}
			ast.Inspect(w.Body, func(x ast.Node) bool {
				sw, ok := x.(*ast.SwitchStmt)
				if !ok || sw.Tag == nil || eng.ExprString(sw.Tag) != "finalCompression" {
					return true
				}
				for _, cl := range sw.Body.List {
					for _, e := range cl.(*ast.CaseClause).List {
						handled[strings.TrimPrefix(eng.ExprString(e), "compression.")] = true
					}
				}
				return true
			})
			var missing []string
			for _, n := range all {
				if n != "None" && !handled[n] {
					missing = append(missing, n)
				}
			}
			c.Check("R1", w.Where(), "the writer's flag switch handles every compression type except None", len(missing) == 0 && len(all) >= 3, p.Pos(w.Body.Pos()), "types: "+strings.Join(all, ",")+" missing: "+strings.Join(missing, ","))
		}
		// the type bits and the compression bits do not overlap: recTypeMask = snappyMask - 1
		c.Fn(W+":recTypeFromHeader").Has("R1", eng.Node("header & recTypeMask", func(g *eng.Graph, n ast.Node) bool {
			be, ok := n.(*ast.BinaryExpr)
			return ok && be.Op.String() == "&" && eng.ExprString(be.Y) == "recTypeMask"
		}), 1)
	}
	// ---- R2 checksum and header layout ----
	{
		crc := p.Call("hash/crc32:Checksum")
		cp := eng.Node("copy(buf[recordHeaderSize:], part)", func(g *eng.Graph, n ast.Node) bool {
			call, ok := n.(*ast.CallExpr)
			return ok && eng.ExprString(call.Fun) == "copy"
		})
		w.Has("R2", crc, 1)
		var crcArg, cpArg, cpDst string
		for _, l := range w.Find(crc) {
			crcArg = eng.CallArgsText(l)[0]
		}
		for _, l := range w.Find(cp) {
			a := eng.CallArgsText(l)
			cpDst, cpArg = a[0], a[1]
		}
		c.Check("R2", w.Where(), "the checksum covers the slice that is copied into the page, placed right after the header", crcArg != "" && crcArg == cpArg && cpDst == "buf[recordHeaderSize:]", p.Pos(w.Body.Pos()), "crc over "+crcArg+", copy("+cpDst+", "+cpArg+")")
		w.Only("R2", eng.AssignVar("part"), "is the prefix of the remaining bytes that fits", func(l eng.Loc) bool {
			vs, ok := l.Node.(*ast.ValueSpec)
			if !ok {
				return false
			}
			for i, n := range vs.Names {
				if n.Name == "part" {
					return eng.ExprString(vs.Values[i]) == "enc[:l]"
				}
			}
			return false
		})
		// header offsets
		offs := func(f *eng.Fn, name string) string {
			m := map[string]bool{}
			ast.Inspect(f.Body, func(x ast.Node) bool {
				call, ok := x.(*ast.CallExpr)
				if !ok {
					return true
				}
				fn := eng.ExprString(call.Fun)
				if !strings.HasPrefix(fn, "binary.BigEndian.") || len(call.Args) == 0 {
					return true
				}
				if se, ok := call.Args[0].(*ast.SliceExpr); ok && strings.HasSuffix(eng.ExprString(se.X), name) && se.Low != nil {
					m[strings.TrimPrefix(strings.TrimPrefix(fn, "binary.BigEndian.Put"), "binary.BigEndian.")+"@"+eng.ExprString(se.Low)] = true
				}
				return true
			})
			return strings.Join(eng.SortedKeys(m), ",")
		}
		wo := offs(w, "buf")
		c.Check("R2", w.Where(), "the writer puts the length (16 bit) at offset 1 and the checksum (32 bit) at offset 3", wo == "Uint16@1,Uint32@3", p.Pos(w.Body.Pos()), wo)
		for _, f := range []*eng.Fn{rd, lr} {
			c.Check("R2", f.Where(), "the reader takes length and checksum from the offsets the writer uses", offs(f, "hdr") == wo, p.Pos(f.Body.Pos()), "reader: "+offs(f, "hdr")+" writer: "+wo)
		}
		lr.CheckGate("R2", crc, eng.Return("rec", func(g *eng.Graph, rs *ast.ReturnStmt) bool {
			return len(rs.Results) == 3 && eng.ExprString(rs.Results[0]) == "rec"
		}))
	}
	// ---- R3 size comparisons in linear normal form ----
	{
		// live reader: "wait for more data" ⇔ buffered < needed
		eof := eng.Return("io.EOF", func(g *eng.Graph, rs *ast.ReturnStmt) bool {
			return len(rs.Results) == 3 && eng.ExprString(rs.Results[2]) == "io.EOF"
		})
		lr.Has("R3", eof, 3)
		lr.Only("R3", eof, "is answered exactly when fewer bytes are buffered (writeIndex-readIndex) than the item needs", func(l eng.Loc) bool {
			gs := lr.GuardsOf(l)
			for _, g := range gs {
				if strings.Contains(g, "+1*r.writeIndex") && strings.Contains(g, "-1*r.readIndex") && strings.HasSuffix(g, " < 0") && !strings.Contains(g, "*r.writeIndex +") {
					// no constant slack: the only other terms are what is needed, all negative
					rest := strings.NewReplacer("+1*r.writeIndex", "", "-1*r.readIndex", "", " < 0", "").Replace(g)
					ok := true
					for _, t := range strings.Fields(rest) {
						if !strings.HasPrefix(t, "-1*") {
							ok = false
						}
					}
					if ok {
						return true
					}
				}
			}
			return false
		})
		// maximum fragment size: writer, reader, live reader
		wmax := ""
		for _, l := range w.Find(eng.Node("min(len(enc), …)", func(g *eng.Graph, n ast.Node) bool {
			call, ok := n.(*ast.CallExpr)
			return ok && eng.ExprString(call.Fun) == "min" && len(call.Args) == 2 && eng.ExprString(call.Args[0]) == "len(enc)"
		})) {
			if lf, ok := eng.Linear(w.Info, l.Node.(*ast.CallExpr).Args[1]); ok {
				wmax = lf.String()
			}
		}
		c.Check("R3", w.Where(), "a fragment takes at most pageSize - p.alloc - recordHeaderSize bytes", wmax == "-1*p.alloc +1*pageSize -1*recordHeaderSize", p.Pos(w.Body.Pos()), wmax)
		sizeGuard := func(f *eng.Fn, errText string) string {
			var out []string
			for _, l := range f.Find(eng.Return("size error", func(g *eng.Graph, rs *ast.ReturnStmt) bool {
				return strings.Contains(nodeText(rs), errText)
			})) {
				out = append(out, f.GuardsOf(l)...)
			}
			sort.Strings(out)
			return strings.Join(out, " ; ")
		}
		rg := sizeGuard(rd, "invalid record size")
		lg := sizeGuard(lr, "record length greater than a single page")
		want := "-1*length +1*pageSize -1*recordHeaderSize < 0"
		c.Check("R3", rd.Where(), "rejects a fragment iff its length exceeds pageSize - recordHeaderSize (the writer's maximum at the start of a page)", rg == want, p.Pos(rd.Body.Pos()), rg)
		c.Check("R3", lr.Where(), "rejects a fragment iff its length exceeds pageSize - recordHeaderSize (same bound as Reader)", lg == want, p.Pos(lr.Body.Pos()), lg)
		// the size test precedes the read of that many bytes
		rd.Dom("R3", eng.CondTest("length >"), eng.Node("io.ReadFull(r.rdr, buf[:length])", func(g *eng.Graph, n ast.Node) bool {
			call, ok := n.(*ast.CallExpr)
			return ok && eng.ExprString(call.Fun) == "io.ReadFull" && len(call.Args) == 2 && eng.ExprString(call.Args[1]) == "buf[:length]"
		}))
		// "no data buffered" test of the live reader
		noData := eng.Return("false, nil", func(g *eng.Graph, rs *ast.ReturnStmt) bool {
			return len(rs.Results) == 2 && eng.ExprString(rs.Results[0]) == "false" && eng.ExprString(rs.Results[1]) == "nil"
		})
		ok := false
		seen := ""
		for _, l := range br.Find(noData) {
			gs := br.GuardsOf(l)
			seen += strings.Join(gs, ",") + " | "
			if len(gs) == 1 && gs[0] == "-1*r.readIndex +1*r.writeIndex -1 < 0" {
				ok = true
			}
		}
		c.Check("R3", br.Where(), "answers 'no record yet' when nothing is buffered, i.e. writeIndex - readIndex < 1", ok, p.Pos(br.Body.Pos()), seen)
		// the consumed count advances both cursors
		br.Dom("R3", p.Call(W+":LiveReader.readRecord"), p.Store(W+":LiveReader.readIndex"))
	}
	// ---- R4 writer: one pass even for an empty record; segment switch when the record does not fit ----
	{
		w.AstEvery("R4", "fragment loop", func(n ast.Node) bool {
			fs, ok := n.(*ast.ForStmt)
			return ok && fs.Cond != nil && strings.Contains(eng.ExprString(fs.Cond), "len(enc) > 0")
		}, "runs at least once (i == 0 || …)", func(n ast.Node) bool {
			return eng.ExprString(n.(*ast.ForStmt).Cond) == "i == 0 || len(enc) > 0"
		}, 1)
		ns := p.Call(W + ":WL.nextSegment")
		w.Only("R4", ns, "is taken when the compressed record exceeds the space left in the segment", func(l eng.Loc) bool {
			gs := w.GuardsOf(l)
			return len(gs) == 1 && gs[0] == "+1*left -1*len(enc) < 0"
		})
		w.ErrPropagates("R4", ns, 1)
		w.Dom("R4", p.Call("util/compression:Encode"), ns)
		w.NoPath("R4", eng.Node("buf[0] = byte(typ)", func(g *eng.Graph, n ast.Node) bool { return nodeText(n) == "buf[0] = byte(typ)" }), ns)
	}
}
