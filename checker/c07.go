package main

import (
	"go/ast"
	"strings"

	"promverif/eng"
)

func init() {
	register(&Property{
		ID:        "C07",
		Title:     "Compaction preserves the union of its inputs",
		Technique: "go/cfg order, error-gate and all-paths rules for DefaultBlockPopulator.PopulateBlock (readers of every input, chunk refs before index entry, statistics on every written series); enum exhaustiveness of the per-encoding sample statistics; AST rule for the only place where an overlapping chunk may be dropped without merging (byte-identical duplicate); def-use rule for the trimming bounds",
		DesignRef: "DESIGN.md §5 C07",
		Level: "Decides that the populator opens index, chunk and tombstone readers of EVERY input block (closing all of them on every exit), builds one tombstone-applying, range-trimming series set per input with the output block's [MinTime, MaxTime-1], merges them all, " +
			"writes the chunks of a series before its index entry (chunk references), propagates every write/iterate error, updates series/chunk/sample statistics for every series it wrote with every chunk encoding classified, and that the vertical chunk merger drops an overlapping chunk without re-encoding only when it is byte-identical to its predecessor.",
		Note:           "Trusted: go/packages, go/types, go/cfg; rule tables in checker/c07.go.",
		Covers:         "DefaultBlockPopulator.PopulateBlock, compactChunkIterator.Next (duplicate shortcut), LeveledCompactor.write (empty-block shortcut after the statistics are final).",
		NotCover:       "the merged sample content, ordering of output chunks, the arithmetic of the statistics.",
		Run:            runC07,
		MinObligations: 30,
	})
}

func runC07(c *eng.Ctx) {
	defer runC07OOO(c)
	p := c.P
	f := c.Fn("tsdb:DefaultBlockPopulator.PopulateBlock")
	// ---- R2 every input is read through its three readers, which are always released ----
	idx, chk, tmb := eng.OnVar("b", "Index"), eng.OnVar("b", "Chunks"), eng.OnVar("b", "Tombstones")
	newSet := p.Call("tsdb:NewBlockChunkSeriesSet")
	f.Chain("R2", idx, chk, tmb, newSet)
	for _, m := range []eng.Matcher{idx, chk, tmb} {
		f.ErrPropagates("R2", m, 1)
	}
	f.AstEvery("R2", "loop creating the per-block series sets", f.RangeLoopWith(newSet), "ranges over all input blocks", func(n ast.Node) bool {
		return eng.ExprString(n.(*ast.RangeStmt).X) == "blocks"
	}, 1)
	f.Has("R2", eng.Deferred(p.Call("tsdb:closeAll")), 1)
	f.Dom("R2", eng.Deferred(p.Call("tsdb:closeAll")), idx)
	for _, r := range []string{"indexr", "chunkr", "tombsr"} {
		r := r
		reg := eng.Node("closers = append(closers, "+r+")", func(g *eng.Graph, n ast.Node) bool {
			as, ok := n.(*ast.AssignStmt)
			return ok && len(as.Rhs) == 1 && eng.ExprString(as.Rhs[0]) == "append(closers, "+r+")"
		})
		f.Has("R2", reg, 1)
	}
	f.Only("R2", newSet, "applies this block's tombstones and trims to [meta.MinTime, meta.MaxTime-1]", func(l eng.Loc) bool {
		a := eng.CallArgsText(l)
		return len(a) == 8 && a[1] == "indexr" && a[2] == "chunkr" && a[3] == "tombsr" && a[5] == "meta.MinTime" && a[6] == "meta.MaxTime - 1" && a[7] == "false"
	})
	f.Only("R2", eng.AssignVar("sets"), "collects every per-block set", func(l eng.Loc) bool {
		switch x := l.Node.(type) {
		case *ast.AssignStmt:
			return strings.HasPrefix(eng.ExprString(x.Rhs[0]), "append(sets, NewBlockChunkSeriesSet(")
		case *ast.ValueSpec:
			return len(x.Values) == 0
		}
		return false
	})
	merge := p.Call("storage:NewMergeChunkSeriesSet")
	f.Only("R2", merge, "merges all sets with the configured merge function", func(l eng.Loc) bool {
		a := eng.CallArgsText(l)
		return len(a) == 3 && a[0] == "sets" && a[2] == "mergeFunc"
	})
	f.GivenBranch("len(sets) > 1", true).Dom("R2", merge, eng.OnVar("set", "Next"))
	// ---- R1 per series: chunks, then index entry, then statistics ----
	wc := eng.OnVar("chunkw", "WriteChunks")
	as := eng.OnVar("indexw", "AddSeries")
	f.Gate("R1", wc, as)
	f.ErrPropagates("R1", wc, 1)
	f.ErrPropagates("R1", as, 1)
	f.Only("R1", wc, "writes the collected chunks of the series", func(l eng.Loc) bool { a := eng.CallArgsText(l); return len(a) == 1 && a[0] == "chks" })
	f.Only("R1", as, "indexes the same chunks under the series' labels", func(l eng.Loc) bool {
		a := eng.CallArgsText(l)
		return len(a) == 3 && a[0] == "ref" && a[1] == "s.Labels()" && a[2] == "chks"
	})
	for _, fld := range []string{"NumChunks", "NumSeries", "NumSamples"} {
		st := p.Store("tsdb:BlockStats." + fld)
		f.Gate("R1", as, st)
		// from a successful AddSeries, the next series (or the end) is not reached without the update
		if fld != "NumSamples" {
			f.PassesBetween("R1", as, st, eng.OnVar("set", "Next"))
		}
	}
	f.PassesBetween("R1", as, eng.IncVar("ref"), eng.OnVar("set", "Next"))
	f.SwitchCovers("R1", "tsdb/chunkenc:Encoding", 1, map[string]string{"EncNone": "not a chunk encoding"})
	f.Only("R1", eng.Node("chks = append(chks, …)", func(g *eng.Graph, n ast.Node) bool {
		asg, ok := n.(*ast.AssignStmt)
		return ok && len(asg.Lhs) == 1 && eng.ExprString(asg.Lhs[0]) == "chks" && strings.HasPrefix(eng.ExprString(asg.Rhs[0]), "append(")
	}), "takes every chunk the merged iterator yields", func(l eng.Loc) bool {
		return eng.ExprString(l.Node.(*ast.AssignStmt).Rhs[0]) == "append(chks, chksIter.At())"
	})
	f.ErrPropagates("R1", eng.OnVar("chksIter", "Err"), 1)
	f.ErrPropagates("R1", eng.OnVar("set", "Err"), 1)
	f.DomOK("R1", eng.OnVar("set", "Err"))
	// only a series without chunks is skipped
	f.AstEvery("R1", "`continue` in the series loop", func(n ast.Node) bool {
		is, ok := n.(*ast.IfStmt)
		if !ok || len(is.Body.List) != 1 {
			return false
		}
		br, ok := is.Body.List[0].(*ast.BranchStmt)
		return ok && br.Tok.String() == "continue" && strings.Contains(eng.ExprString(is.Cond), "chks")
	}, "skips only series whose chunks are all deleted", func(n ast.Node) bool {
		return eng.ExprString(n.(*ast.IfStmt).Cond) == "len(chks) == 0"
	}, 1)
	// ---- R3 vertical merge: an overlapping chunk is dropped unmerged only if byte-identical ----
	{
		m := c.Fn("storage:compactChunkIterator.Next")
		m.AstEvery("R3", "test that keeps an overlapping chunk for merging", func(n ast.Node) bool {
			is, ok := n.(*ast.IfStmt)
			return ok && strings.Contains(nodeText(is.Body), "overlapping = append(overlapping,")
		}, "treats a chunk as duplicate only if min time, max time and the chunk bytes are all equal", func(n ast.Node) bool {
			t := eng.ExprString(n.(*ast.IfStmt).Cond)
			return strings.Contains(t, "next.MinTime != prev.MinTime") && strings.Contains(t, "next.MaxTime != prev.MaxTime") &&
				strings.Contains(t, "!bytes.Equal(next.Chunk.Bytes(), prev.Chunk.Bytes())") && strings.Count(t, "||") == 2 && !strings.Contains(t, "&&")
		}, 1)
		m.Has("R3", eng.CallNamed("mergeFunc"), 1)
		m.GivenBranch("len(overlapping) == 0", false).AllPaths("R3", eng.CondTest("len(overlapping) == 0"), eng.CallNamed("mergeFunc"), eng.AnyExit)
	}
	// ---- R5 iterators re-used across series start clean (PopulateBlock hands the previous series' iterator to the next) ----
	c.AssignsAllFields("R5", "tsdb:populateWithDelGenericSeriesIterator.reset", "tsdb:populateWithDelGenericSeriesIterator", map[string]string{
		"bufIter": "kept for memory re-use; its Intervals are truncated by reset and its Iter is replaced in next()"})
	{
		rs := c.Fn("tsdb:populateWithDelGenericSeriesIterator.reset")
		rs.Has("R5", eng.Node("p.bufIter.Intervals = p.bufIter.Intervals[:0]", func(g *eng.Graph, n ast.Node) bool {
			return nodeText(n) == "p.bufIter.Intervals = p.bufIter.Intervals[:0]"
		}), 1)
		for _, t := range []string{"populateWithDelSeriesIterator", "populateWithDelChunkSeriesIterator"} {
			f := c.Fn("tsdb:" + t + ".reset")
			f.DomOK("R5", p.Call("tsdb:populateWithDelGenericSeriesIterator.reset"))
		}
		f := c.Fn("tsdb:DefaultBlockPopulator.PopulateBlock")
		f.Only("R5", eng.OnVar("s", "Iterator"), "re-uses the previous iterator (which is why reset must be complete)", func(l eng.Loc) bool { a := eng.CallArgsText(l); return len(a) == 1 && a[0] == "chksIter" })
	}
	// ---- R4 the empty-block shortcut is taken only after population finished ----
	{
		w := c.Fn("tsdb:LeveledCompactor.write")
		pop := eng.CallNamed("PopulateBlock")
		w.Gate("R4", pop, eng.CondTest("meta.Stats.NumSamples == 0"))
		w.Gate("R4", pop, p.Call("tsdb:writeMetaFile"))
	}
}
