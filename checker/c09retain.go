package main

import (
	"go/ast"
	"strings"

	"promverif/eng"
)

// C09.R5 (finding F89): "retention removes only expired blocks".  Right after a compaction (and after a crash between
// writing the result and deleting the sources) the directory holds the sources *and* the block that replaced them.
// The sources are deleted by the same reload in any case; if they also count towards the size limit, the data is
// counted twice and the replacement — or blocks older than it — is deleted although the limit is not reached.  In
// reloadBlocks: what is handed to the retention computation (db.blocksToDelete) is not the list of all opened blocks
// but a list filled in a loop over it that appends a block only if it is not in a set, and that set is filled from
// the Compaction.Parents of the opened blocks before the filter runs.
func runC09Retain(c *eng.Ctx) {
	p := c.P
	f := c.Fn("tsdb:DB.reloadBlocks")
	var opened, arg string
	var call *ast.CallExpr
	ast.Inspect(f.Body, func(x ast.Node) bool {
		switch s := x.(type) {
		case *ast.AssignStmt:
			if len(s.Rhs) == 1 && strings.HasPrefix(nodeText(s.Rhs[0]), "openBlocks(") && len(s.Lhs) >= 1 {
				opened = nodeText(s.Lhs[0])
			}
		case *ast.CallExpr:
			if strings.HasSuffix(nodeText(s.Fun), ".blocksToDelete") && len(s.Args) == 1 {
				call, arg = s, nodeText(s.Args[0])
			}
		}
		return true
	})
	if opened == "" || call == nil {
		c.Fail("R5", f.Where(), "openBlocks and blocksToDelete calls found", p.Pos(f.Body.Pos()), "")
		return
	}
	c.Check("R5", f.Where(), "the retention computation does not receive the list of all opened blocks", arg != opened, p.Pos(call.Pos()),
		"db.blocksToDelete("+arg+") — compaction sources still on disk count towards the size limit together with the block that replaced them: blocks are deleted although the limit is not reached")
	if arg == opened {
		return
	}
	// the filter: arg = append(arg, b) in a loop over opened, under !ok with ok from a lookup in a set
	var set string
	okFilter := false
	var filterPos ast.Node
	ast.Inspect(f.Body, func(x ast.Node) bool {
		rs, ok := x.(*ast.RangeStmt)
		if !ok || nodeText(rs.X) != opened {
			return true
		}
		ast.Inspect(rs.Body, func(y ast.Node) bool {
			as, ok := y.(*ast.AssignStmt)
			if !ok || len(as.Lhs) != 1 || nodeText(as.Lhs[0]) != arg || !strings.HasPrefix(nodeText(as.Rhs[0]), "append("+arg+",") {
				return true
			}
			filterPos = rs
			for _, cd := range f.CondsOf(as) {
				if cd == "!ok=T" {
					okFilter = true
				}
			}
			return true
		})
		// the lookup that defines ok
		ast.Inspect(rs.Body, func(y ast.Node) bool {
			if is, ok := y.(*ast.IfStmt); ok && is.Init != nil {
				if as, ok := is.Init.(*ast.AssignStmt); ok && len(as.Lhs) == 2 && nodeText(as.Lhs[1]) == "ok" {
					if ix, ok := as.Rhs[0].(*ast.IndexExpr); ok && filterPos == ast.Node(rs) {
						set = nodeText(ix.X)
					}
				}
			}
			return true
		})
		return true
	})
	c.Check("R5", f.Where(), "the list handed to the retention computation is filled from the opened blocks, a block only if it is not in a set (`_, ok := set[…]; !ok`)", okFilter && set != "", p.Pos(call.Pos()), "set: "+set)
	if set == "" {
		return
	}
	// the set is filled from Compaction.Parents of the opened blocks, before the filter
	filled := false
	ast.Inspect(f.Body, func(x ast.Node) bool {
		rs, ok := x.(*ast.RangeStmt)
		if !ok || nodeText(rs.X) != opened || filterPos == nil || rs.Pos() >= filterPos.Pos() {
			return true
		}
		ast.Inspect(rs.Body, func(y ast.Node) bool {
			in, ok := y.(*ast.RangeStmt)
			if !ok || !strings.HasSuffix(nodeText(in.X), ".Compaction.Parents") {
				return true
			}
			ast.Inspect(in.Body, func(z ast.Node) bool {
				if as, ok := z.(*ast.AssignStmt); ok && len(as.Lhs) == 1 && strings.HasPrefix(nodeText(as.Lhs[0]), set+"[") && len(f.CondsOf(as)) == 0 {
					filled = true
				}
				return true
			})
			return true
		})
		return true
	})
	c.Check("R5", f.Where(), "that set holds the Compaction.Parents of every opened block (filled unconditionally before the filter)", filled, p.Pos(call.Pos()), "")
	_ = eng.SortedKeys[bool]
}
