package main

import (
	"go/ast"
	"strings"

	"promverif/eng"
)

func init() {
	register(&Property{
		ID:        "C45",
		Title:     "Recording rules store their results and mark vanished series stale",
		Technique: "go/cfg all-paths and branch-arm rules for the per-rule appender in Group.Eval's closure and in cleanupStaleSeries (acquire/commit pairing, what is recorded only after a successful commit); AST loop-source rules for the stale-marker loops; order rules for sequential / batched evaluation (wait-group barrier); def-use rules for the staleness state carried across reloads in CopyState and on group stop",
		DesignRef: "DESIGN.md §5 C45",
		Level: "Decides that every rule evaluation obtains one appender and commits it on every path, that the set of series remembered as 'produced by the previous successful evaluation' is replaced only after a nil-error commit and only contains series whose append succeeded, " +
			"that stale markers are appended for the series of that remembered set which were not produced now, that rules are evaluated in index order (sequentially, or batch by batch with a wait-group barrier after every batch and before clean-up), " +
			"that a reload carries over both the per-rule sets of matched rules and the not-yet-written stale series of earlier reloads and adds the sets of unmatched rules, that a stopped group marked stale queues all its series, and that the queued series are forgotten only after their stale markers were committed.",
		Note:           "Trusted: go/packages, go/types, go/cfg; rule tables in checker/c45.go.",
		Covers:         "Group.Eval (eval closure, commit defer, batches), Group.cleanupStaleSeries, Group.CopyState, Group.run (stop path).",
		NotCover:       "the evaluated vectors, timestamps and query offsets; dependency analysis that forms the batches.",
		Run:            runC45,
		MinObligations: 35,
	})
}

func runC45(c *eng.Ctx) {
	defer runC45Offset(c)
	p := c.P
	G := "rules:Group"
	appender := eng.Node("g.opts.Appendable.Appender(ctx)", func(g *eng.Graph, n ast.Node) bool {
		call, ok := n.(*ast.CallExpr)
		return ok && eng.ExprString(call.Fun) == "g.opts.Appendable.Appender"
	})
	commit := eng.OnVar("app", "Commit")
	prevStore := p.StoreElem(G + ".seriesInPreviousEval")
	staleAppend := eng.Node("app.Append(…StaleNaN…)", func(g *eng.Graph, n ast.Node) bool {
		call, ok := n.(*ast.CallExpr)
		if !ok {
			return false
		}
		s, ok := call.Fun.(*ast.SelectorExpr)
		return ok && s.Sel.Name == "Append" && eng.ExprString(s.X) == "app" && strings.Contains(nodeText(call), "value.StaleNaN")
	})
	// ---- R1 the per-rule transaction ----
	{
		f := c.Fn(G + ".Eval")
		ev := f.Closure("eval", appender)
		ev.Has("R1", appender, 1)
		ev.AllPaths("R1", appender, commit, eng.AnyExit)
		ev.Dom("R1", eng.CallNamed("Eval"), appender)
		ev.FailStops("R1", eng.CallNamed("Eval"), appender)
		ev.Hasnt("R1", prevStore) // not outside the commit defer
		cd := ev.InnerClosure("commitDefer", commit)
		cd.Has("R1", prevStore, 1)
		cd.Dom("R1", commit, prevStore)
		cd.Given("err != nil", true).Unreachable("R1", prevStore)
		cd.Only("R1", prevStore, "stores seriesReturned at index i", func(l eng.Loc) bool {
			as, ok := l.Node.(*ast.AssignStmt)
			return ok && eng.ExprString(as.Lhs[0]) == "g.seriesInPreviousEval[i]" && eng.ExprString(as.Rhs[0]) == "seriesReturned"
		})
		cd.Only("R1", eng.AssignVar("err"), "is the result of app.Commit()", func(l eng.Loc) bool {
			as, ok := l.Node.(*ast.AssignStmt)
			return ok && eng.ExprString(as.Rhs[0]) == "app.Commit()"
		})
		// only successfully appended series are remembered
		retStore := eng.Node("seriesReturned[…] = …", func(g *eng.Graph, n ast.Node) bool {
			as, ok := n.(*ast.AssignStmt)
			if !ok || len(as.Lhs) != 1 {
				return false
			}
			ix, ok := as.Lhs[0].(*ast.IndexExpr)
			return ok && eng.ExprString(ix.X) == "seriesReturned"
		})
		ev.Has("R1", retStore, 1)
		ev.Only("R1", retStore, "lies in the else arm of the append's `err != nil`", func(l eng.Loc) bool {
			return ev.UnderCondArmAfter(l, false, eng.Or(eng.OnVar("app", "Append"), eng.OnVar("app", "AppendHistogram")), "err != nil")
		})
		ev.Dom("R1", eng.Or(eng.OnVar("app", "Append"), eng.OnVar("app", "AppendHistogram")), retStore)
		// stale markers for what the previous successful evaluation produced and this one did not
		ev.AllPaths("R1", appender, eng.LoopOver(staleAppend), eng.AnyExit)
		ev.AstEvery("R1", "loop appending stale markers", ev.RangeLoopWith(staleAppend), "ranges over g.seriesInPreviousEval[i]", func(n ast.Node) bool {
			return eng.ExprString(n.(*ast.RangeStmt).X) == "g.seriesInPreviousEval[i]"
		}, 1)
		ev.Only("R1", staleAppend, "is for series absent from seriesReturned", func(l eng.Loc) bool { return ev.UnderCond(l, "!ok") })
		ev.NoPath("R1", eng.LoopOver(staleAppend), retStore) // the result set is complete before it is compared
		// ---- R2 order of evaluation ----
		evalCall := eng.CallNamed("eval")
		f.AstEvery("R2", "sequential loop calling eval", func(n ast.Node) bool {
			rs, ok := n.(*ast.RangeStmt)
			return ok && eng.ExprString(rs.X) == "g.rules"
		}, "calls eval(i, rule, nil) synchronously for each rule in order", func(n ast.Node) bool {
			t := nodeText(n.(*ast.RangeStmt).Body)
			return strings.Contains(t, "eval(i, rule, nil)") && !strings.Contains(t, "go eval")
		}, 1)
		wait := eng.OnVar("wg", "Wait")
		goEval := eng.GoStarted(evalCall)
		f.Has("R2", goEval, 1)
		f.AllPaths("R2", goEval, wait, eng.AnyExit)
		f.PassesBetween("R2", goEval, wait, p.Call(G+".cleanupStaleSeries"))
		f.Only("R2", goEval, "is used only for batches with more than one rule that the controller allows", func(l eng.Loc) bool {
			return f.UnderCond(l, "len(batch) > 1", "ctrl.Allow(")
		})
		f.AstEvery("R2", "batch loop", func(n ast.Node) bool {
			rs, ok := n.(*ast.RangeStmt)
			return ok && eng.ExprString(rs.X) == "batches"
		}, "ends every batch with wg.Wait()", func(n ast.Node) bool {
			b := n.(*ast.RangeStmt).Body.List
			return len(b) > 0 && nodeText(b[len(b)-1]) == "wg.Wait()"
		}, 1)
		f.DomOK("R2", eng.CallNamed("SplitGroupIntoBatches"))
	}
	// ---- R3 stale series of removed rules / groups ----
	{
		cs := c.Fn(G + ".cleanupStaleSeries")
		cs.AllPaths("R3", appender, commit, eng.AnyExit)
		forget := p.StoreVal(G+".staleSeries", "nil", eng.IsIdent("nil"))
		cs.Has("R3", forget, 1)
		cs.Dom("R3", commit, forget)
		cs.GivenBranch("err != nil", true).Unreachable("R3", forget)
		cs.AstEvery("R3", "loop appending stale markers", cs.RangeLoopWith(staleAppend), "ranges over g.staleSeries", func(n ast.Node) bool {
			return eng.ExprIsField(cs.Info, n.(*ast.RangeStmt).X, p.Field(G+".staleSeries"))
		}, 1)
		cs.Dom("R3", eng.LoopOver(staleAppend), commit)
		c.CallersSubset("R3", G+".cleanupStaleSeries", 2, G+".Eval", G+".run")

		cp := c.Fn(G + ".CopyState")
		carry := p.StoreVal(G+".staleSeries", "from.staleSeries", eng.ExprText("from.staleSeries"))
		cp.DomOK("R3", carry) // stale series still pending from an earlier reload are not lost
		cp.Only("R3", p.Store(G+".staleSeries"), "either carries over from.staleSeries or appends to g.staleSeries", func(l eng.Loc) bool {
			as, ok := l.Node.(*ast.AssignStmt)
			if !ok {
				return false
			}
			t := eng.ExprString(as.Rhs[0])
			return t == "from.staleSeries" || strings.HasPrefix(t, "append(g.staleSeries, ")
		})
		cp.NoPath("R3", eng.Node("g.staleSeries = append(…)", func(g *eng.Graph, n ast.Node) bool {
			as, ok := n.(*ast.AssignStmt)
			return ok && strings.HasPrefix(eng.ExprString(as.Rhs[0]), "append(g.staleSeries, ")
		}), carry)
		cp.AstEvery("R3", "loop appending to g.staleSeries", func(n ast.Node) bool {
			rs, ok := n.(*ast.RangeStmt)
			return ok && strings.Contains(nodeText(rs.Body), "g.staleSeries = append(g.staleSeries, series)") && !strings.Contains(nodeText(rs.Body), "range from.seriesInPreviousEval")
		}, "ranges over the previous results of an unmatched rule of the old group", func(n ast.Node) bool {
			return eng.ExprString(n.(*ast.RangeStmt).X) == "from.seriesInPreviousEval[fi]"
		}, 1)
		cp.Has("R3", eng.Node("g.seriesInPreviousEval[i] = from.seriesInPreviousEval[fi]", func(g *eng.Graph, n ast.Node) bool {
			as, ok := n.(*ast.AssignStmt)
			return ok && len(as.Lhs) == 1 && eng.ExprString(as.Lhs[0]) == "g.seriesInPreviousEval[i]" && eng.ExprString(as.Rhs[0]) == "from.seriesInPreviousEval[fi]"
		}), 1)

		// a stopped group that was marked stale queues all its series and writes the markers
		r := c.Fn(G + ".run")
		sd := r.Closure("stopDefer", p.Call(G+".cleanupStaleSeries"))
		sd.Has("R3", eng.GoStarted(p.Call(G+".cleanupStaleSeries")), 1)
		sd.Only("R3", eng.GoStarted(p.Call(G+".cleanupStaleSeries")), "is skipped only when the group is not marked stale", func(l eng.Loc) bool { return true })
		sd.GivenBranch("!g.markStale", false).Reachable("R3", eng.GoStarted(p.Call(G+".cleanupStaleSeries")))
		gf := sd.InnerClosure("staleWriter", p.Call(G+".cleanupStaleSeries"))
		gf.Dom("R3", eng.LoopOver(p.Store(G+".staleSeries")), p.Call(G+".cleanupStaleSeries"))
		gf.AstEvery("R3", "outer loop queueing series", func(n ast.Node) bool {
			rs, ok := n.(*ast.RangeStmt)
			return ok && strings.Contains(nodeText(rs.Body), "g.staleSeries = append(g.staleSeries, r)") && strings.Contains(nodeText(rs.Body), "range rule")
		}, "ranges over g.seriesInPreviousEval", func(n ast.Node) bool {
			return eng.ExprIsField(gf.Info, n.(*ast.RangeStmt).X, p.Field(G+".seriesInPreviousEval"))
		}, 1)
		c.WritersSubset("R3", G+".staleSeries", 4, G+".CopyState", G+".cleanupStaleSeries", G+".run")
		c.WritersSubset("R3", G+".seriesInPreviousEval", 3, G+".CopyState", G+".Eval", G+".run", "rules:NewGroup")
	}
}
