package main

import (
	"fmt"
	"go/ast"
	"sort"
	"strings"

	"promverif/eng"
)

func init() {
	register(&Property{
		ID:        "C08",
		Title:     "Compaction planning never mixes block classes",
		Technique: "family/table agreement over the block-class hint predicates (which From* predicates the WAL cutoff consults, the planner partitions on, CompactBlockMetas and LeveledCompactor.Write propagate, each paired with its own Set*); go/cfg branch-arm and who-may-call rules for plan/planClass; order rules inside planClass (overlap selection, newest block excluded, failed ranges skipped)",
		DesignRef: "DESIGN.md §5 C08",
		Level: "Decides the class-segregation part: the set of hint predicates that keep a block out of the WAL replay cutoff is exactly the set that metadata merging and head-block writing propagate (each From* with its own Set*, the out-of-order hint only if every source has it), the planner partitions on exactly the two partial-view hints, " +
			"hands planClass either one of the partitions or — only on the arm where at most one partition is non-empty — the whole input, nobody else calls planClass, and planClass looks for overlaps first, then drops the newest block before choosing a range group and skips groups with a failed block. Also decides that range groups respect their window: splitByRange lets a block join the group of an aligned window only while it ends inside the window (the break and skip tests in linear normal form), and the window start is the aligned start containing the first block (rounded down for negative times).",
		Note:           "Trusted: go/packages, go/types, go/cfg; rule tables in checker/c08.go.",
		Covers:         "LeveledCompactor.plan/planClass/selectDirs, CompactBlockMetas, LeveledCompactor.Write (hint copy from base), inOrderBlocksMaxTime.",
		NotCover:       "the alignment arithmetic itself (t0 is checked by form, not evaluated), the tombstone ratio rule, convergence of the plan/compact loop.",
		Run:            runC08,
		MinObligations: 20,
	})
}

func runC08(c *eng.Ctx) {
	defer runC08OOO(c)
	p := c.P
	preds := func(f *eng.Fn) string {
		m := map[string]bool{}
		ast.Inspect(f.Body, func(x ast.Node) bool {
			if call, ok := x.(*ast.CallExpr); ok {
				if s, ok := call.Fun.(*ast.SelectorExpr); ok && strings.HasPrefix(s.Sel.Name, "From") && strings.HasSuffix(eng.ExprString(s.X), "Compaction") {
					m[s.Sel.Name] = true
				}
			}
			return true
		})
		return strings.Join(eng.SortedKeys(m), ",")
	}
	// ---- R1 hint family ----
	all := "FromOutOfOrder,FromSelectedSeries,FromStaleSeries"
	cut := c.Fn("tsdb:inOrderBlocksMaxTime")
	c.Check("R1", cut.Where(), "the WAL cutoff ignores blocks of exactly the three hinted classes", preds(cut) == all, p.Pos(cut.Body.Pos()), preds(cut))
	cbm := c.Fn("tsdb:CompactBlockMetas")
	c.Check("R1", cbm.Where(), "metadata merging consults the same three hints", preds(cbm) == all, p.Pos(cbm.Body.Pos()), preds(cbm))
	wr := c.Fn("tsdb:LeveledCompactor.Write")
	c.Check("R1", wr.Where(), "a head block inherits the same three hints from its base", preds(wr) == all, p.Pos(wr.Body.Pos()), preds(wr))
	pl := c.Fn("tsdb:LeveledCompactor.plan")
	c.Check("R1", pl.Where(), "the planner partitions on exactly the two partial-view hints", preds(pl) == "FromSelectedSeries,FromStaleSeries", p.Pos(pl.Body.Pos()), preds(pl))
	// each From* is paired with its own Set*
	pair := func(f *eng.Fn, recv string) {
		f.AstEvery("R1", "hint propagation `if x.FromH() { y.SetH() }`", func(n ast.Node) bool {
			is, ok := n.(*ast.IfStmt)
			return ok && strings.Contains(nodeText(is.Body), ".Compaction.Set") && strings.Contains(eng.ExprString(is.Cond), ".Compaction.From")
		}, "sets the hint it tested", func(n ast.Node) bool {
			is := n.(*ast.IfStmt)
			cond := eng.ExprString(is.Cond)
			i := strings.Index(cond, ".Compaction.From")
			h := strings.TrimSuffix(cond[i+len(".Compaction.From"):], "()")
			if strings.HasPrefix(cond, "!") {
				return false
			}
			return len(is.Body.List) == 1 && nodeText(is.Body.List[0]) == recv+".Compaction.Set"+h+"()"
		}, 2)
	}
	pair(cbm, "res")
	pair(wr, "meta")
	// the out-of-order hint survives a merge only if every source carries it
	cbm.Only("R1", eng.AssignVarVal("allOutOfOrder", "false", eng.IsIdent("false")), "is cleared by a source without the out-of-order hint", func(l eng.Loc) bool {
		return cbm.UnderCond(l, "!b.Compaction.FromOutOfOrder()")
	})
	cbm.Has("R1", eng.AssignVarVal("allOutOfOrder", "false", eng.IsIdent("false")), 1)
	cbm.Only("R1", eng.Node("res.Compaction.SetOutOfOrder()", func(g *eng.Graph, n ast.Node) bool {
		call, ok := n.(*ast.CallExpr)
		return ok && eng.ExprString(call.Fun) == "res.Compaction.SetOutOfOrder"
	}), "is guarded by allOutOfOrder", func(l eng.Loc) bool { return cbm.UnderCond(l, "allOutOfOrder") })
	cbm.Only("R1", eng.AssignVar("allOutOfOrder"), "starts true and is only ever cleared", func(l eng.Loc) bool {
		as, ok := l.Node.(*ast.AssignStmt)
		if !ok {
			return false
		}
		t := eng.ExprString(as.Rhs[0])
		return t == "true" || t == "false"
	})
	// ---- R2 planClass only sees one class ----
	planClass := p.Call("tsdb:LeveledCompactor.planClass")
	c.CallersSubset("R2", "tsdb:LeveledCompactor.planClass", 4, "tsdb:LeveledCompactor.plan")
	var args []string
	for _, l := range pl.Find(planClass) {
		args = append(args, eng.CallArgsText(l)[0])
	}
	sort.Strings(args)
	c.Check("R2", pl.Where(), "planClass is called with each partition and with the whole input, nothing else", strings.Join(args, ",") == "dms,nonHint,selected,stale", p.Pos(pl.Body.Pos()), strings.Join(args, ","))
	// the partitions are built by one switch over the two predicates with a default arm
	pl.AstEvery("R2", "partition switch", func(n ast.Node) bool {
		sw, ok := n.(*ast.SwitchStmt)
		return ok && sw.Tag == nil && strings.Contains(nodeText(sw), "FromStaleSeries")
	}, "sends every block to exactly one of stale / selected / nonHint", func(n ast.Node) bool {
		sw := n.(*ast.SwitchStmt)
		if len(sw.Body.List) != 3 {
			return false
		}
		want := map[string]string{"dm.meta.Compaction.FromStaleSeries()": "stale = append(stale, dm)", "dm.meta.Compaction.FromSelectedSeries()": "selected = append(selected, dm)", "": "nonHint = append(nonHint, dm)"}
		for _, cl := range sw.Body.List {
			cc := cl.(*ast.CaseClause)
			k := ""
			if len(cc.List) == 1 {
				k = eng.ExprString(cc.List[0])
			}
			if len(cc.Body) != 1 || want[k] != nodeText(cc.Body[0]) {
				return false
			}
			delete(want, k)
		}
		return len(want) == 0
	}, 1)
	pl.AstEvery("R2", "loop filling the partitions", func(n ast.Node) bool {
		rs, ok := n.(*ast.RangeStmt)
		return ok && strings.Contains(nodeText(rs.Body), "nonHint = append(nonHint, dm)")
	}, "ranges over the whole input", func(n ast.Node) bool { return eng.ExprString(n.(*ast.RangeStmt).X) == "dms" }, 1)
	// the whole input goes to planClass only where at most one partition is non-empty:
	// `classes` counts the non-empty partitions (all three), and planClass(dms) sits on the arm `classes > 1` is false
	pl.AstEvery("R2", "loop counting non-empty partitions", func(n ast.Node) bool {
		rs, ok := n.(*ast.RangeStmt)
		return ok && strings.Contains(nodeText(rs.Body), "classes++")
	}, "ranges over all three partitions and counts the non-empty ones", func(n ast.Node) bool {
		rs := n.(*ast.RangeStmt)
		cl, ok := rs.X.(*ast.CompositeLit)
		if !ok || len(cl.Elts) != 3 {
			return false
		}
		var el []string
		for _, e := range cl.Elts {
			el = append(el, eng.ExprString(e))
		}
		sort.Strings(el)
		if strings.Join(el, ",") != "nonHint,selected,stale" {
			return false
		}
		is, ok := rs.Body.List[0].(*ast.IfStmt)
		return ok && len(rs.Body.List) == 1 && eng.ExprString(is.Cond) == "len("+eng.ExprString(rs.Value)+") > 0" && nodeText(is.Body) == "{ classes++ }"
	}, 1)
	whole := planClass.WithArg(0, "dms", eng.ExprText("dms"))
	pl.Only("R2", whole, "is reached only when fewer than two partitions are non-empty", func(l eng.Loc) bool {
		for _, b := range pl.CondExprs() {
			if s, ok := eng.LinearCmp(pl.Info, b); ok && s == "-1*classes +1 < 0" {
				return !pl.UnderCond(l, "classes") && pl.GivenBranch(eng.ExprString(b), true).Unreachable("R2", whole)
			}
		}
		return false
	})
	pl.Only("R2", eng.AssignVar("classes"), "starts at zero and is only incremented", func(l eng.Loc) bool {
		switch x := l.Node.(type) {
		case *ast.AssignStmt:
			return eng.ExprString(x.Rhs[0]) == "0"
		case *ast.IncDecStmt:
			return x.Tok.String() == "++"
		}
		return false
	})
	// regular blocks are planned first
	pl.Dom("R2", planClass.WithArg(0, "nonHint", eng.ExprText("nonHint")), planClass.WithArg(0, "stale", eng.ExprText("stale")))
	pl.Dom("R2", planClass.WithArg(0, "stale", eng.ExprText("stale")), planClass.WithArg(0, "selected", eng.ExprText("selected")))
	// ---- R3 inside one class ----
	pc := c.Fn("tsdb:LeveledCompactor.planClass")
	overlap := p.Call("tsdb:LeveledCompactor.selectOverlappingDirs")
	sel := p.Call("tsdb:LeveledCompactor.selectDirs")
	dropNewest := eng.AssignVarVal("dms", "dms[:len(dms)-1]", func(g *eng.Graph, e ast.Expr) bool {
		return strings.ReplaceAll(eng.ExprString(e), " ", "") == "dms[:len(dms)-1]"
	})
	pc.Chain("R3", p.Call("slices:SortFunc"), overlap, dropNewest, sel)
	pc.Only("R3", sel, "chooses among the blocks without the newest one", func(l eng.Loc) bool { a := eng.CallArgsText(l); return len(a) == 1 && a[0] == "dms" })
	sd := c.Fn("tsdb:LeveledCompactor.selectDirs")
	sd.AstEvery("R3", "test for a failed block in a range group", func(n ast.Node) bool {
		is, ok := n.(*ast.IfStmt)
		return ok && strings.Contains(eng.ExprString(is.Cond), "Compaction.Failed")
	}, "skips the whole group", func(n ast.Node) bool {
		return strings.HasPrefix(nodeText(n.(*ast.IfStmt).Body), "{ continue ")
	}, 1)
	c.CallersSubset("R3", "tsdb:LeveledCompactor.selectOverlappingDirs", 1, "tsdb:LeveledCompactor.planClass")
	c.Fn("tsdb:LeveledCompactor.selectOverlappingDirs").Has("R3", p.FieldUse("tsdb:LeveledCompactor.enableOverlappingCompaction"), 1)
	// ---- R4 range groups: a block joins the group of an aligned window only if it ends inside it ----
	sr := c.Fn("tsdb:splitByRange")
	join := eng.Node("group = append(group, ds[i])", func(g *eng.Graph, n ast.Node) bool { return nodeText(n) == "group = append(group, ds[i])" })
	sr.Has("R4", join, 1)
	brk := sr.Branches("break")
	c.Check("R4", sr.Where(), "the group loop stops at the first block that ends beyond the window (MaxTime > t0+tr)", len(brk) == 1 && len(brk[0].Lin) == 1 && brk[0].Lin[0] == "-1*ds[i].meta.MaxTime +1*t0 +1*tr < 0", p.Pos(sr.Body.Pos()), fmt.Sprintf("%v", brk))
	if len(brk) == 1 {
		// the break test is evaluated for the very block that is about to join
		sr.AstEvery("R4", "group loop", func(n ast.Node) bool {
			fs, ok := n.(*ast.ForStmt)
			return ok && strings.Contains(nodeText(fs.Body), "group = append(group, ds[i])") && !strings.Contains(nodeText(fs.Body), "splitDirs = append")
		}, "tests the block before it joins, and advances by one", func(n ast.Node) bool {
			fs := n.(*ast.ForStmt)
			b := fs.Body.List
			return len(b) == 2 && strings.HasPrefix(nodeText(b[0]), "if ds[i].meta.MaxTime > t0+tr {") && nodeText(b[1]) == "group = append(group, ds[i])" && fs.Post != nil && nodeText(fs.Post) == "i++" && nodeText(fs.Cond) == "i < len(ds)"
		}, 1)
	}
	cont := sr.Branches("continue")
	c.Check("R4", sr.Where(), "a first block that does not fit its own aligned window is skipped (MaxTime > t0+tr)", len(cont) == 1 && len(cont[0].Lin) == 1 && cont[0].Lin[0] == "-1*m.MaxTime +1*t0 +1*tr < 0", p.Pos(sr.Body.Pos()), fmt.Sprintf("%v", cont))
	sr.Only("R4", eng.AssignVar("t0"), "is the start of the aligned window containing the first block's MinTime (rounded down, also for negative times)", func(l eng.Loc) bool {
		if _, ok := l.Node.(*ast.AssignStmt); !ok {
			return true
		}
		t := nodeText(l.Node)
		return (t == "t0 = tr * (m.MinTime / tr)" && sr.UnderCond(l, "m.MinTime >= 0")) || (t == "t0 = tr * ((m.MinTime - tr + 1) / tr)" && sr.UnderCondFalse(l, "m.MinTime >= 0"))
	})
	sr.Only("R4", eng.AssignVar("m"), "is the first block not yet grouped", func(l eng.Loc) bool { return true })
}
