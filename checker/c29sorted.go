package main

import (
	"go/ast"

	"promverif/eng"
)

// C29.R5 (added for seed C29-b): the grouping label names reach generateGroupingKey / the aggregation evaluators
// sorted.  Labels.HashForLabels / HashWithoutLabels walk the series' labels and the names in step, so an unsorted name
// list silently leaves names out of the group key.  In evaluator.eval the list lives in one variable; every
// definition of it (initial copy, append of the count_values label) must be followed by a sort of that variable
// before the variable is used for anything else.
func runC29Sorted(c *eng.Ctx) {
	sortedBeforeUse(c, "promql:evaluator.eval", "sortedGrouping", 2)
	// the join signature of vector matching: BytesWithLabels / BytesWithoutLabels need sorted names as well
	sortedBeforeUse(c, "promql:evaluator.rangeEval", "names", 2)
}

func sortedBeforeUse(c *eng.Ctx, fnRef, v string, minDefs int) {
	ev := c.Fn(fnRef)
	def := eng.AssignVar(v)
	isSort := func(n ast.Node) bool {
		es, ok := n.(*ast.ExprStmt)
		if !ok {
			return false
		}
		call, ok := es.X.(*ast.CallExpr)
		if !ok || len(call.Args) != 1 || eng.ExprString(call.Args[0]) != v {
			return false
		}
		f := ev.Callee(call)
		return f != nil && f.Pkg() != nil && (f.Pkg().Path() == "slices" && f.Name() == "Sort" || f.Pkg().Path() == "sort" && f.Name() == "Strings")
	}
	sortM := eng.Node("sort of "+v, func(g *eng.Graph, n ast.Node) bool { return isSort(n) })
	mentions := func(n ast.Node) bool {
		found := false
		ast.Inspect(n, func(x ast.Node) bool {
			if id, ok := x.(*ast.Ident); ok && id.Name == v {
				found = true
			}
			return !found
		})
		return found
	}
	use := eng.Node("use of "+v, func(g *eng.Graph, n ast.Node) bool {
		switch s := n.(type) {
		case *ast.AssignStmt:
			// a definition of the variable itself (`x = append(x, …)`) is not a use of its order
			for _, l := range s.Lhs {
				if eng.ExprString(l) == v {
					return false
				}
			}
			return mentions(n)
		case *ast.ExprStmt:
			return !isSort(n) && mentions(n)
		case *ast.ReturnStmt, *ast.IfStmt, *ast.RangeStmt, *ast.SwitchStmt:
			return mentions(n)
		case ast.Expr:
			// go/cfg keeps conditions as bare expressions
			// only whole branch conditions, not sub-expressions of the statements handled above
			return g.IsCondOperand(n) && mentions(n)
		}
		return false
	})
	ev.Has("R5", def, minDefs)
	ev.Has("R5", sortM, 1)
	ev.NoPathAvoid("R5", def, use, "sort of the grouping names", ev.Find(sortM))
}
