package main

import (
	"go/ast"
	"strings"

	"promverif/eng"
)

func init() {
	register(&Property{
		ID:        "C01",
		Title:     "Queries return exactly the committed, undeleted samples",
		Technique: "call-graph no-reach (go/ssa + VTA) and who-may-call for the only writers of sample memory; go/cfg order and sibling rules for querier construction and replay cutoffs",
		DesignRef: "DESIGN.md §5 C01",
		Level: "Decides that samples can enter head memory only through commit or replay (never from Append* or Rollback), that both querier constructors merge every overlapping block, the " +
			"in-order head and the out-of-order head, and that restart derives the replay cutoff from the in-order blocks and applies it to every sample kind before replay starts.",
		Note:           "Trusted: go/packages, go/ssa + VTA (module-internal), go/cfg; rule tables in checker/c01.go.",
		Covers:         "no-reach from Rollback and the Append* methods to memSeries.{append,appendHistogram,appendFloatHistogram,insert}; their caller set; source completeness of DB.Querier / blockChunkQuerierForRange; Head.Init cutoff order; per-kind replay cutoff tests and which field they compare.",
		NotCover:       "value equality, time order, one-sample-per-timestamp, tombstone arithmetic (runtime values).",
		Run:            runC01,
		MinObligations: 35,
	})
}

func runC01(c *eng.Ctx) {
	p := c.P
	writers := []string{"tsdb:memSeries.append", "tsdb:memSeries.appendHistogram", "tsdb:memSeries.appendFloatHistogram", "tsdb:memSeries.insert"}
	// ---- R1 appended-but-uncommitted and rolled-back samples never reach chunk memory ----
	for _, from := range []string{"tsdb:headAppenderBase.Rollback", "tsdb:headAppender.Append", "tsdb:headAppender.AppendHistogram", "tsdb:headAppender.AppendSTZeroSample",
		"tsdb:headAppender.AppendHistogramSTZeroSample", "tsdb:headAppender.AppendExemplar", "tsdb:headAppender.UpdateMetadata", "tsdb:headAppenderV2.Append",
		"tsdb:initAppender.Append", "tsdb:initAppenderV2.Append"} {
		c.NoReachSSA("R1", from, writers)
	}
	c.MustReachSSA("R1", "tsdb:headAppenderBase.Commit", "tsdb:memSeries.append")
	c.MustReachSSA("R1", "tsdb:headAppenderBase.Commit", "tsdb:memSeries.insert")
	c.MustReachSSA("R1", "tsdb:Head.loadWAL", "tsdb:memSeries.append")
	// ---- R2 who may write sample memory ----
	c.CallersSubset("R2", "tsdb:memSeries.append", 2, "tsdb:headAppenderBase.commitFloats", "tsdb:Head.appendWALFloat")
	c.CallersSubset("R2", "tsdb:memSeries.appendHistogram", 2, "tsdb:headAppenderBase.commitHistograms", "tsdb:Head.appendWALHistogram")
	c.CallersSubset("R2", "tsdb:memSeries.appendFloatHistogram", 2, "tsdb:headAppenderBase.commitFloatHistograms", "tsdb:Head.appendWALHistogram")
	c.CallersSubset("R2", "tsdb:memSeries.insert", 6, "tsdb:headAppenderBase.commitFloats", "tsdb:headAppenderBase.commitHistograms", "tsdb:headAppenderBase.commitFloatHistograms",
		"tsdb:wblSubsetProcessor.processWBLSamples")
	c.CallersSubset("R2", "tsdb:Head.appendWALFloat", 1, "tsdb:walSubsetProcessor.processWALSamples")
	c.CallersSubset("R2", "tsdb:Head.appendWALHistogram", 1, "tsdb:walSubsetProcessor.processWALSamples", "tsdb:Head.appendWALFloat")
	// ---- R3 queriers are built from all three sources ----
	for _, s := range []struct{ fn, mk, wrap string }{
		{"tsdb:DB.Querier", "tsdb:DB.blockQuerierFunc", "tsdb:NewHeadAndOOOQuerier"},
		{"tsdb:DB.blockChunkQuerierForRange", "tsdb:DB.blockChunkQuerierFunc", "tsdb:NewHeadAndOOOChunkQuerier"},
	} {
		f := c.Fn(s.fn)
		overl := p.Call("tsdb:Block.OverlapsClosedInterval")
		f.Has("R3", eng.LoopOver(overl), 1)
		f.Only("R3", eng.LoopOver(overl), "ranges over db.blocks", func(l eng.Loc) bool { return p.IsFieldExpr("tsdb:DB.blocks")(f.Graph, l.Node.(ast.Expr)) })
		appendTo := func(v, elem string) eng.Matcher {
			return eng.Node(v+" = append("+v+", "+elem+")", func(g *eng.Graph, n ast.Node) bool {
				as, ok := n.(*ast.AssignStmt)
				return ok && len(as.Lhs) == 1 && len(as.Rhs) == 1 && eng.ExprString(as.Lhs[0]) == v && eng.ExprString(as.Rhs[0]) == "append("+v+", "+elem+")"
			})
		}
		f.Has("R3", appendTo("blocks", "b"), 1)
		f.Has("R3", appendTo("blockQueriers", "headQuerier"), 1)
		f.Has("R3", eng.LoopOver(appendTo("blockQueriers", "q")), 1)
		f.Only("R3", eng.LoopOver(appendTo("blockQueriers", "q")), "ranges over the overlapping blocks", func(l eng.Loc) bool { return eng.ExprString(l.Node.(ast.Expr)) == "blocks" })
		f.GivenBranch("overlapsOOO", true).Dom("R3", p.Call(s.wrap), appendTo("blockQueriers", "headQuerier"))
		f.GivenBranch("headQuerier != nil", true).DomOK("R3", appendTo("blockQueriers", "headQuerier"))
		f.DomOK("R3", eng.LoopOver(appendTo("blockQueriers", "q")))
		// the head is consulted whenever the range touches it
		f.GivenBranch("maxt >= db.head.MinTime() || overlapsOOO", true).Reachable("R3", eng.Node("db."+eng.Short(s.mk)+"(rh, …)", func(g *eng.Graph, n ast.Node) bool {
			call, ok := n.(*ast.CallExpr)
			return ok && len(call.Args) > 0 && eng.ExprIsField(g.Info, call.Fun, p.Field(s.mk)) && eng.IsIdent("rh")(g, call.Args[0])
		}))
	}
	{
		f := c.Fn("tsdb:DB.Querier")
		f.Only("R3", p.Call("storage:NewMergeQuerier"), "merges blockQueriers", func(l eng.Loc) bool {
			return eng.ExprString(l.Node.(*ast.CallExpr).Args[0]) == "blockQueriers"
		})
		g := c.Fn("tsdb:DB.ChunkQuerier")
		g.Has("R3", p.Call("tsdb:DB.blockChunkQuerierForRange"), 1)
		g.Only("R3", p.Call("storage:NewMergeChunkQuerier"), "merges the queriers returned by blockChunkQuerierForRange", func(l eng.Loc) bool {
			return eng.ExprString(l.Node.(*ast.CallExpr).Args[0]) == "blockQueriers"
		})
	}
	// ---- R4 restart: cutoff first, applied to every kind ----
	{
		o := c.Fn("tsdb:open")
		src := eng.AnyOf(p.IsCallTo("tsdb:DB.inOrderBlocksMaxTime", "tsdb:inOrderBlocksMaxTime"), eng.ExprText("int64(math.MinInt64)"))
		o.ArgDerivesOnlyFrom("R4", p.Call("tsdb:Head.Init"), 0, "inOrderBlocksMaxTime", src)
		o.Dom("R4", p.Call("tsdb:DB.reload"), p.Call("tsdb:Head.Init")) // blocks are loaded before the cutoff is computed
		i := c.Fn("tsdb:Head.Init")
		store := p.MethodOn("tsdb:Head.minValidTime", "Store").WithArg(0, "minValidTime", eng.IsIdent("minValidTime"))
		i.Dom("R4", store, p.Call("tsdb:Head.loadWAL"))
		i.Dom("R4", store, p.Call("tsdb:Head.loadWBL"))
		i.Dom("R4", store, p.Call("tsdb:Head.loadChunkSnapshot"))
		// every comparison against the cutoff during replay uses a sample time or the END of a deleted interval
		for _, fn := range []string{"tsdb:Head.loadWAL", "tsdb:walSubsetProcessor.processWALSamples"} {
			f := c.Fn(fn)
			n := 0
			kinds := map[string]bool{}
			ast.Inspect(f.Body, func(x ast.Node) bool {
				be, ok := x.(*ast.BinaryExpr)
				if !ok || be.Op.String() != "<" {
					return true
				}
				r := eng.ExprString(be.Y)
				if r != "minValidTime" && r != "h.minValidTime.Load()" {
					return true
				}
				n++
				l := eng.ExprString(be.X)
				kinds[l] = true
				ok2 := strings.HasSuffix(l, ".T") || strings.HasSuffix(l, ".t") || l == "itv.Maxt"
				c.Check("R4", f.Where(), "replay cutoff test `"+l+" < minValidTime` compares a sample time or the end of a deleted interval", ok2, p.Pos(be.Pos()),
					"a tombstone that only starts below the cutoff (or another quantity) is discarded on replay")
				return true
			})
			min := 5
			if fn != "tsdb:Head.loadWAL" {
				min = 1
			}
			c.Check("R4", f.Where(), "has the per-kind replay cutoff tests", n >= min, p.Pos(f.Body.Pos()), "found "+strings.Join(eng.SortedKeys(kinds), ", "))
		}
	}
}
