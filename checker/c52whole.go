package main

import (
	"go/ast"
	"sort"
	"strings"

	"promverif/eng"
)

// C52.R5 (added for seed C52-c): when a series leaves the head whole, the chunk gauge goes down by the number of chunks
// the series holds: the m-mapped ones and the *list* of head chunks, whose length is kept in headChunkCount (all
// mutations of the list go through pushHeadChunk/setHeadChunks, C52's writer rules).  In each function that removes
// whole series, the counter that accumulates len(series.mmappedChunks) is changed only by += and also accumulates
// series.headChunkCount.Load() (directly or through a local assigned from it) — not a constant per series.
func runC52Whole(c *eng.Ctx) {
	p := c.P
	n := 0
	for _, fn := range []string{"tsdb:stripeSeries.gcSeries", "tsdb:Head.deleteSeriesByID"} {
		f := c.Fn(fn)
		// locals assigned from headChunkCount.Load()
		fromCount := map[string]bool{}
		ast.Inspect(f.Body, func(x ast.Node) bool {
			if as, ok := x.(*ast.AssignStmt); ok && len(as.Lhs) == 1 && len(as.Rhs) == 1 && strings.HasSuffix(nodeText(as.Rhs[0]), ".headChunkCount.Load()") {
				fromCount[nodeText(as.Lhs[0])] = true
			}
			return true
		})
		counter := ""
		ast.Inspect(f.Body, func(x ast.Node) bool {
			if as, ok := x.(*ast.AssignStmt); ok && as.Tok.String() == "+=" && strings.HasSuffix(nodeText(as.Rhs[0]), ".mmappedChunks)") && strings.HasPrefix(nodeText(as.Rhs[0]), "len(") {
				counter = nodeText(as.Lhs[0])
			}
			return true
		})
		if counter == "" {
			c.Fail("R5", f.Where(), "the counter of removed chunks found (accumulates len(series.mmappedChunks))", p.Pos(f.Body.Pos()), "")
			continue
		}
		n++
		var terms, other []string
		ast.Inspect(f.Body, func(x ast.Node) bool {
			switch s := x.(type) {
			case *ast.AssignStmt:
				if len(s.Lhs) == 1 && nodeText(s.Lhs[0]) == counter {
					if s.Tok.String() == "+=" {
						terms = append(terms, nodeText(s.Rhs[0]))
					} else if s.Tok.String() != ":=" && !(s.Tok.String() == "=" && nodeText(s.Rhs[0]) == "0") {
						other = append(other, nodeText(s))
					}
				}
			case *ast.IncDecStmt:
				if nodeText(s.X) == counter {
					other = append(other, nodeText(s))
				}
			}
			return true
		})
		sort.Strings(terms)
		hasList := false
		for _, t := range terms {
			inner := strings.TrimSuffix(strings.TrimPrefix(t, "int("), ")")
			if strings.HasSuffix(inner, ".headChunkCount.Load()") || fromCount[inner] {
				hasList = true
			}
		}
		c.Check("R5", f.Where(), "the removed-chunk counter "+counter+" is changed only by += of chunk counts", len(other) == 0, p.Pos(f.Body.Pos()),
			strings.Join(other, " ; ")+" — a constant per series counts the list of head chunks as one chunk: the chunk gauge stays too high after evicting a series with several un-m-mapped head chunks")
		c.Check("R5", f.Where(), "for a series removed whole, "+counter+" accumulates the length of the head-chunk list (headChunkCount) as well as len(mmappedChunks)", hasList, p.Pos(f.Body.Pos()), strings.Join(terms, " ; "))
	}
	c.Check("R5", "tsdb", "both whole-series removers checked", n == 2, "", "")
	_ = eng.SortedKeys[bool]
}
