package main

import (
	"fmt"
	"go/ast"
	"go/token"
	"strings"

	"promverif/eng"
)

// C07.R5 / C20.R5–R6 (findings F50–F52): the out-of-order part of the head in compaction and deletion.
func runC07OOO(c *eng.Ctx) {
	p := c.P
	defer runC07Encode(c)
	// ---- C07.R5 downward alignment of a timestamp to a block boundary is a floor also for negative timestamps ----
	n := 0
	for _, fs := range p.AllFuncs() {
		if fs.Decl.Body == nil || !strings.HasSuffix(fs.Pkg.PkgPath, "/tsdb") {
			continue
		}
		name := eng.FuncName(fs.Obj)
		var f *eng.Fn
		ast.Inspect(fs.Decl.Body, func(x ast.Node) bool {
			be, ok := x.(*ast.BinaryExpr)
			if !ok || be.Op != token.MUL {
				return true
			}
			w, q := be.X, ast.Unparen(be.Y)
			div, ok := q.(*ast.BinaryExpr)
			if !ok || div.Op != token.QUO {
				w, q = be.Y, ast.Unparen(be.X)
				if div, ok = q.(*ast.BinaryExpr); !ok || div.Op != token.QUO {
					return true
				}
			}
			if nodeText(w) != nodeText(div.Y) {
				return true
			}
			// w * (t / w): is it an upper bound computation (… + w) — then truncation is on the safe side
			t := nodeText(div.X)
			if f == nil {
				f = c.Fn(name)
			}
			// find the statement and what follows
			var stmtText, after string
			ast.Inspect(f.Body, func(y ast.Node) bool {
				blk, ok := y.(*ast.BlockStmt)
				if !ok {
					return true
				}
				for i, st := range blk.List {
					if st.Pos() <= be.Pos() && be.End() <= st.End() {
						if _, isBlock := st.(*ast.BlockStmt); isBlock {
							continue
						}
						stmtText = nodeText(st)
						after = ""
						if i+1 < len(blk.List) {
							after = nodeText(blk.List[i+1])
						}
					}
				}
				return true
			})
			squeeze := func(x string) string { return strings.ReplaceAll(x, " ", "") }
			if strings.Contains(squeeze(stmtText), squeeze(nodeText(be))+"+"+squeeze(nodeText(w))) {
				return true // end of the range that contains t: never below t
			}
			// the floor form for negative values: w * ((t - w + 1) / w), taken where t is known to be negative
			if strings.HasSuffix(squeeze(t), "-"+squeeze(nodeText(w))+"+1)") || strings.HasSuffix(squeeze(t), "-"+squeeze(nodeText(w))+"+1") {
				base := strings.TrimPrefix(strings.TrimSuffix(strings.TrimSuffix(squeeze(t), ")"), "-"+squeeze(nodeText(w))+"+1"), "(")
				neg := false
				for _, cd := range f.CondsOf(be) {
					if squeeze(cd) == base+">=0=F" || squeeze(cd) == base+"<0=T" {
						neg = true
					}
				}
				n++
				c.Check("R5", name, fmt.Sprintf("the alignment %s (floor for negative values) is taken only where %s < 0", nodeText(be), base), neg, p.Pos(be.Pos()), "")
				return true
			}
			n++
			nonNeg := false
			for _, cd := range f.CondsOf(be) {
				if cd == t+" >= 0=T" {
					nonNeg = true
				}
			}
			corrected := strings.Contains(after, " > "+t) && strings.Contains(after, "-= "+nodeText(w))
			c.Check("R5", name, fmt.Sprintf("the alignment %s is a floor: taken only for %s ≥ 0, or corrected downwards when it lands above %s", nodeText(be), t, t), nonNeg || corrected, p.Pos(be.Pos()),
				"integer division truncates towards zero: for a negative timestamp that is not a multiple of the width the result lies above it and the first range misses the oldest samples")
			return true
		})
	}
	c.Check("R5", "tsdb", "downward alignments found (≥ 2)", n >= 2, "", fmt.Sprint(n))
}

func runC20OOO(c *eng.Ctx) {
	p := c.P
	// ---- C20.R5 deletion reaches the out-of-order samples of the head ----
	dd := c.Fn("tsdb:DB.Delete")
	gate := false
	ast.Inspect(dd.Body, func(x ast.Node) bool {
		is, ok := x.(*ast.IfStmt)
		if ok && strings.Contains(nodeText(is.Body), "db.head.Delete(") {
			t := nodeText(is.Cond)
			gate = strings.Contains(t, "db.head.OverlapsClosedInterval(mint, maxt)") && strings.Contains(t, "MinOOOTime()") && strings.Contains(t, "MaxOOOTime()") && strings.Contains(t, " || ")
		}
		return true
	})
	c.Check("R5", dd.Where(), "the head is asked to delete when the interval overlaps its in-order range or its out-of-order range", gate, p.Pos(dd.Body.Pos()),
		"only the in-order range is tested: out-of-order samples older than the oldest in-order sample are never tombstoned")
	hd := c.Fn("tsdb:Head.Delete")
	var clamps []string
	ast.Inspect(hd.Body, func(x ast.Node) bool {
		if call, ok := x.(*ast.CallExpr); ok && nodeText(call.Fun) == "clampInterval" {
			clamps = append(clamps, nodeText(call))
		}
		return true
	})
	okHead := len(clamps) >= 1 && strings.Contains(clamps[0], "MinOOOTime()") && strings.Contains(clamps[0], "MaxOOOTime()")
	c.Check("R5", hd.Where(), "the requested interval is clamped to the head's valid range including out-of-order data", okHead, p.Pos(hd.Body.Pos()), strings.Join(clamps, " ; "))
	c.Check("R5", hd.Where(), "the per-series interval covers the series' out-of-order chunks (oooTimeRange)", len(hd.Find(p.Call("tsdb:memSeries.oooTimeRange"))) >= 1, p.Pos(hd.Body.Pos()),
		"series.minTime()/maxTime() are the in-order bounds only")
	// ---- C20.R6 no reader handed to the compactor hides the head's tombstones ----
	n := 0
	for _, typ := range []string{"Head", "RangeHead", "OOOCompactionHead", "Block"} {
		if p.TryFunc("tsdb:"+typ+".Tombstones") == nil {
			continue
		}
		f := c.Fn("tsdb:" + typ + ".Tombstones")
		n++
		fresh := strings.Contains(nodeText(f.Body), "tombstones.NewMemTombstones()")
		c.Check("R6", f.Where(), "returns the tombstones of the data it serves, not a fresh empty set", !fresh, p.Pos(f.Body.Pos()),
			"the compactor applies the reader's tombstones while it writes the block: with an empty set samples deleted from the head come back with the block")
	}
	c.Check("R6", "tsdb", "Tombstones() implementations examined (4)", n == 4, "", fmt.Sprint(n))
}

// C07.R6 (added for seed C07-c): OOOChunk.ToEncodedChunks re-encodes the out-of-order samples into chunks.  The chunk
// appenders may hand back a new chunk (a cut, or a re-encoding of the same samples with a wider bucket layout); from
// then on the appender writes into that chunk, so it must replace the current chunk whenever it is non-nil —
// re-encoded or not — and only a genuine cut (not a re-encoding) closes the previous chunk.  The integer and float
// histogram arms are the same code up to the sample field and the append method.
func runC07Encode(c *eng.Ctx) {
	p := c.P
	f := c.Fn("tsdb:OOOChunk.ToEncodedChunks")
	arms := map[string]*ast.CaseClause{}
	ast.Inspect(f.Body, func(x ast.Node) bool {
		cc, ok := x.(*ast.CaseClause)
		if !ok || len(cc.List) == 0 {
			return true
		}
		switch nodeText(cc.List[0]) {
		case "chunkenc.EncHistogram":
			arms["h"] = cc
		case "chunkenc.EncFloatHistogram":
			arms["fh"] = cc
		}
		return true
	})
	if arms["h"] == nil || arms["fh"] == nil {
		c.Fail("R6", f.Where(), "histogram and float histogram arms found", p.Pos(f.Body.Pos()), "")
		return
	}
	ht := nodeText(&ast.BlockStmt{List: arms["h"].Body})
	ft := nodeText(&ast.BlockStmt{List: arms["fh"].Body})
	ft2 := strings.ReplaceAll(strings.ReplaceAll(ft, "AppendFloatHistogram", "AppendHistogram"), "s.fh", "s.h")
	c.Check("R6", f.Where(), "the float histogram arm equals the integer histogram arm up to the sample field and the append method", ht == ft2, p.Pos(arms["fh"].Pos()), "integer: "+ht+" | float: "+ft)
	for name, cc := range arms {
		ok, closes := false, false
		ast.Inspect(&ast.BlockStmt{List: cc.Body}, func(x ast.Node) bool {
			is, isIf := x.(*ast.IfStmt)
			if !isIf || nodeText(is.Cond) != "newChunk != nil" {
				return true
			}
			for _, st := range is.Body.List {
				if nodeText(st) == "chunk = newChunk" {
					ok = true // directly in the arm of newChunk != nil
				}
				if in, isIn := st.(*ast.IfStmt); isIn && nodeText(in.Cond) == "!recoded" && strings.Contains(nodeText(in.Body), "chks = append(chks, memChunk{chunk, cmint, cmaxt, nil})") {
					closes = true
				}
			}
			return true
		})
		c.Check("R6", f.Where(), "arm "+name+": a chunk handed back by the appender replaces the current chunk whether or not it is a re-encoding", ok, p.Pos(cc.Pos()),
			"after a re-encoding the appender writes into the new chunk; keeping the old one drops every later sample of that chunk")
		c.Check("R6", f.Where(), "arm "+name+": the previous chunk is closed only on a genuine cut (not on a re-encoding)", closes, p.Pos(cc.Pos()), "")
	}
}
