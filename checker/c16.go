package main

import (
	"fmt"
	"go/ast"
	"go/token"
	"sort"
	"strings"

	"promverif/eng"
)

func init() {
	register(&Property{
		ID:        "C16",
		Title:     "Series selection and label queries follow matcher semantics",
		Technique: "abstract interpretation of PostingsForMatchers over a finite abstraction of matchers: for every class of matcher (type × value shape × matches-empty × 'label must be set') the arm the switch takes is found by evaluating its conditions, the contribution of that arm (which list, which postings function, matcher or inverse) is interpreted in a three-region model of the series (label unset / set and matching / set and not matching) and compared with the matcher's meaning; the same for the fast paths of postingsForMatcher / inversePostingsForMatcher; go/cfg and AST rules for the surrounding plumbing (base of subtraction, sort, limit after filtering, label values/names)",
		DesignRef: "DESIGN.md §5 C16",
		Level: "Decides, per matcher class, that PostingsForMatchers combines the right postings in the right way: an intersecting contribution equals the matcher's series within the domain left by the other matchers, a subtracted contribution equals its complement, `do nothing` only for matchers that match everything in the domain, `empty result` only for matchers that match nothing; a matcher that cannot match the empty string always contributes an intersecting set (so the subtraction has a base), and the all-postings base is added when nothing intersects; " +
			"the fast paths of postingsForMatcher / inversePostingsForMatcher return 'label set ∧ matches' / 'label set ∧ does not match'; select sorts the postings iff asked and shards before sorting; label values are filtered by the matchers on that label, intersected with the other matchers' postings, and limited only after filtering; label names come from the matchers' postings.",
		Note:           "Trusted: go/packages, go/types, go/cfg; the region model and the matcher classes in checker/c16.go.",
		Covers:         "tsdb: PostingsForMatchers, postingsForMatcher, inversePostingsForMatcher, selectSeriesSet, labelValuesWithMatchers, labelNamesWithMatchers; storage: truncateToLimit, mergeGenericQuerier.mergeResults.",
		NotCover:       "the postings combinators themselves (Intersect/Without/Merge with Seek: iterator state over runtime data), the index readers' Postings/LabelValues, regular-expression semantics of Matches (C17), sample presence in the time range.",
		Run:            runC16,
		MinObligations: 70,
	})
}

// ---- the finite abstraction ----

type mClass struct {
	typ          string // MatchEqual, MatchNotEqual, MatchRegexp, MatchNotRegexp
	value        string // "", ".*", ".+", "x"
	matchesEmpty bool
	mustBeSet    bool
}

func (k mClass) String() string {
	return fmt.Sprintf("%s %q matchesEmpty=%v mustBeSet=%v", strings.TrimPrefix(k.typ, "Match"), k.value, k.matchesEmpty, k.mustBeSet)
}

// regions: "U" label unset, "P" set and the matcher's predicate holds for the value, "N" set and it does not.
// sat: the regions of the series the matcher selects; live: the regions that can be non-empty for this class.
func (k mClass) model() (sat, live map[string]bool) {
	sat = map[string]bool{"P": true}
	if k.matchesEmpty {
		sat["U"] = true
	}
	live = map[string]bool{"U": true, "P": true, "N": true}
	isRe := k.typ == "MatchRegexp" || k.typ == "MatchNotRegexp"
	if isRe && (k.value == ".*" || k.value == ".+") {
		// on series that have the label (a non-empty value) `.*` and `.+` hold: the positive regex matches all of them
		if k.typ == "MatchRegexp" {
			delete(live, "N")
		} else {
			delete(live, "P")
		}
	}
	if !isRe && k.value == "" {
		// the value of a set label is never "": l="" holds for none of them, l!="" for all
		if k.typ == "MatchEqual" {
			delete(live, "P")
		} else {
			delete(live, "N")
		}
	}
	if isRe && k.value == "" {
		if k.typ == "MatchRegexp" {
			delete(live, "P")
		} else {
			delete(live, "N")
		}
	}
	if k.mustBeSet {
		delete(live, "U")
	}
	return
}

func allClasses() []mClass {
	var out []mClass
	for _, typ := range []string{"MatchEqual", "MatchNotEqual", "MatchRegexp", "MatchNotRegexp"} {
		for _, v := range []string{"", ".*", ".+", "x"} {
			var mes []bool
			isRe := typ == "MatchRegexp" || typ == "MatchNotRegexp"
			neg := typ == "MatchNotEqual" || typ == "MatchNotRegexp"
			switch {
			case !isRe:
				mes = []bool{(v == "") != neg}
			case v == "" || v == ".*":
				mes = []bool{!neg}
			case v == ".+":
				mes = []bool{neg}
			default:
				mes = []bool{true, false} // a|  vs  a
			}
			for _, me := range mes {
				for _, mbs := range []bool{true, false} {
					if !me && !mbs {
						continue // a matcher that does not match "" forces the label to be set
					}
					out = append(out, mClass{typ, v, me, mbs})
				}
			}
		}
	}
	return out
}

// ---- evaluation of the switch conditions under a class ----

type absEval struct {
	k      mClass
	mvar   string          // name of the matcher variable ("m")
	locals map[string]bool // boolean locals defined on the way
	err    string
}

func (e *absEval) eval(x ast.Expr) bool {
	x = ast.Unparen(x)
	switch v := x.(type) {
	case *ast.UnaryExpr:
		if v.Op == token.NOT {
			return !e.eval(v.X)
		}
	case *ast.BinaryExpr:
		switch v.Op {
		case token.LAND:
			return e.eval(v.X) && e.eval(v.Y)
		case token.LOR:
			return e.eval(v.X) || e.eval(v.Y)
		case token.EQL, token.NEQ:
			l, r := eng.ExprString(v.X), eng.ExprString(v.Y)
			var res bool
			switch {
			case l == e.mvar+".Type" && strings.HasPrefix(r, "labels.Match"):
				res = strings.TrimPrefix(r, "labels.") == e.k.typ
			case l == e.mvar+".Value" && strings.HasPrefix(r, `"`):
				lit := strings.Trim(r, `"`)
				res = e.k.value == lit
			case l == e.mvar+".Name" && r == `""`:
				res = false // matchers with an empty name are the all-postings case handled before the loop
			default:
				e.err = "cannot evaluate " + eng.ExprString(x)
				return false
			}
			if v.Op == token.NEQ {
				return !res
			}
			return res
		}
	case *ast.Ident:
		if b, ok := e.locals[v.Name]; ok {
			return b
		}
	case *ast.IndexExpr:
		if eng.ExprString(v) == "labelMustBeSet["+e.mvar+".Name]" {
			return e.k.mustBeSet
		}
	case *ast.CallExpr:
		if eng.ExprString(v) == e.mvar+`.Matches("")` {
			return e.k.matchesEmpty
		}
	}
	e.err = "cannot evaluate " + eng.ExprString(x)
	return false
}

// contribution of one loop iteration
type contrib struct {
	kind  string // its, notIts, none, empty, error
	set   string // regions, e.g. "P", "N", "NP"
	short bool   // an is-empty shortcut guards the contribution
	pos   token.Pos
}

// callRegions interprets a postings-producing call in the region model.
func callRegions(text string, inverseVars map[string]bool, mvar string) (string, bool) {
	arg := func(prefix string) (string, bool) {
		if !strings.HasPrefix(text, prefix) {
			return "", false
		}
		return strings.TrimSuffix(strings.TrimPrefix(text, prefix), ")"), true
	}
	if a, ok := arg("postingsForMatcher(ctx, ix, "); ok {
		if a == mvar {
			return "P", true
		}
		if inverseVars[a] {
			return "N", true
		}
	}
	if a, ok := arg("inversePostingsForMatcher(ctx, ix, "); ok {
		if a == mvar {
			return "N", true
		}
		if inverseVars[a] {
			return "P", true
		}
	}
	if text == "ix.PostingsForAllLabelValues(ctx, "+mvar+".Name)" {
		return "NP", true
	}
	return "", false
}

func (e *absEval) runStmts(list []ast.Stmt, its map[string]string, inv map[string]bool, shortcut map[string]bool) *contrib {
	for _, st := range list {
		switch s := st.(type) {
		case *ast.AssignStmt:
			lhs0 := eng.ExprString(s.Lhs[0])
			rhs := nodeText(s.Rhs[0])
			switch {
			case lhs0 == "its" || lhs0 == "notIts":
				call, ok := s.Rhs[0].(*ast.CallExpr)
				if !ok || eng.ExprString(call.Fun) != "append" || len(call.Args) != 2 {
					e.err = "unrecognised update of " + lhs0
					return nil
				}
				a := nodeText(call.Args[1])
				set, ok := its[a]
				if !ok {
					set, ok = callRegions(a, inv, e.mvar)
				}
				if !ok {
					e.err = "unrecognised postings source " + a
					return nil
				}
				return &contrib{kind: lhs0, set: set, short: shortcut[a], pos: s.Pos()}
			case rhs == e.mvar+".Inverse()":
				inv[lhs0] = true
			case s.Tok == token.DEFINE && len(s.Lhs) == 1:
				// boolean local or a postings value
				if set, ok := callRegions(rhs, inv, e.mvar); ok {
					its[lhs0] = set
				} else {
					sub := &absEval{k: e.k, mvar: e.mvar, locals: e.locals}
					b := sub.eval(s.Rhs[0])
					if sub.err == "" {
						e.locals[lhs0] = b
					}
				}
			case s.Tok == token.DEFINE && len(s.Lhs) == 2:
				if set, ok := callRegions(rhs, inv, e.mvar); ok {
					its[lhs0] = set
				}
			}
		case *ast.IfStmt:
			c := nodeText(s.Cond)
			switch {
			case c == "err != nil" || c == "ctx.Err() != nil":
				// error propagation: not part of the model
			case strings.HasPrefix(c, "index.IsEmptyPostingsType("):
				v := strings.TrimSuffix(strings.TrimPrefix(c, "index.IsEmptyPostingsType("), ")")
				if strings.Contains(nodeText(s.Body), "return index.EmptyPostings(), nil") {
					shortcut[v] = true
				}
			default:
				e.err = "unrecognised test " + c
				return nil
			}
		case *ast.SwitchStmt:
			if s.Tag != nil {
				e.err = "tagged switch"
				return nil
			}
			return e.runSwitch(s, its, inv, shortcut)
		case *ast.ReturnStmt:
			t := nodeText(s)
			if t == "return index.EmptyPostings(), nil" {
				return &contrib{kind: "empty", pos: s.Pos()}
			}
			if strings.HasPrefix(t, "return nil, ") {
				return &contrib{kind: "error", pos: s.Pos()}
			}
			e.err = "unrecognised " + t
			return nil
		}
	}
	return &contrib{kind: "none"}
}

func (e *absEval) runSwitch(sw *ast.SwitchStmt, its map[string]string, inv map[string]bool, shortcut map[string]bool) *contrib {
	var def *ast.CaseClause
	for _, cl := range sw.Body.List {
		cc := cl.(*ast.CaseClause)
		if cc.List == nil {
			def = cc
			continue
		}
		if len(cc.List) != 1 {
			e.err = "case with several expressions"
			return nil
		}
		if e.eval(cc.List[0]) {
			if e.err != "" {
				return nil
			}
			r := e.runStmts(cc.Body, its, inv, shortcut)
			if r != nil && r.pos == token.NoPos {
				r.pos = cc.Pos()
			}
			return r
		}
		if e.err != "" {
			return nil
		}
	}
	if def != nil {
		r := e.runStmts(def.Body, its, inv, shortcut)
		if r != nil && r.pos == token.NoPos {
			r.pos = def.Pos()
		}
		return r
	}
	return &contrib{kind: "none", pos: sw.Pos()}
}

func regionsOf(s string) map[string]bool {
	m := map[string]bool{}
	for _, r := range s {
		m[string(r)] = true
	}
	return m
}

var c16Extra []func(*eng.Ctx)

func runC16(c *eng.Ctx) {
	p := c.P
	T := "tsdb:"
	pm := c.Fn(T + "PostingsForMatchers")
	// ---- R1 the per-matcher switch, class by class ----
	var loop *ast.RangeStmt
	ast.Inspect(pm.Body, func(n ast.Node) bool {
		if rs, ok := n.(*ast.RangeStmt); ok && eng.ExprString(rs.X) == "ms" && strings.Contains(nodeText(rs.Body), "notIts = append(notIts") {
			loop = rs
		}
		return true
	})
	if loop == nil {
		c.Fail("R1", pm.Where(), "the loop that turns each matcher into postings exists", p.Pos(pm.Body.Pos()), "not found")
		return
	}
	mvar := eng.ExprString(loop.Value)
	var sw *ast.SwitchStmt
	for _, st := range loop.Body.List {
		if s, ok := st.(*ast.SwitchStmt); ok && s.Tag == nil {
			sw = s
		}
	}
	if sw == nil {
		c.Fail("R1", pm.Where(), "the matcher loop dispatches with a tagless switch", p.Pos(loop.Pos()), "not found")
		return
	}
	// isSubtractingMatcher, as a predicate over classes
	var isSub *ast.FuncLit
	ast.Inspect(pm.Body, func(n ast.Node) bool {
		if as, ok := n.(*ast.AssignStmt); ok && len(as.Lhs) == 1 && eng.ExprString(as.Lhs[0]) == "isSubtractingMatcher" {
			isSub, _ = as.Rhs[0].(*ast.FuncLit)
		}
		return true
	})
	evalIsSub := func(k mClass) (bool, string) {
		if isSub == nil {
			return false, "isSubtractingMatcher not found"
		}
		e := &absEval{k: k, mvar: isSub.Type.Params.List[0].Names[0].Name, locals: map[string]bool{}}
		for _, st := range isSub.Body.List {
			switch s := st.(type) {
			case *ast.IfStmt:
				if e.eval(s.Cond) {
					if len(s.Body.List) == 1 {
						if rs, ok := s.Body.List[0].(*ast.ReturnStmt); ok && len(rs.Results) == 1 {
							return eng.ExprString(rs.Results[0]) == "true", e.err
						}
					}
					return false, "unrecognised body in isSubtractingMatcher"
				}
			case *ast.ReturnStmt:
				return e.eval(s.Results[0]), e.err
			}
		}
		return false, "isSubtractingMatcher: no return reached"
	}
	classes := allClasses()
	nOK := 0
	for _, k := range classes {
		e := &absEval{k: k, mvar: mvar, locals: map[string]bool{}}
		r := e.runSwitch(sw, map[string]string{}, map[string]bool{}, map[string]bool{})
		what := "matcher class [" + k.String() + "] contributes exactly its meaning"
		if e.err != "" || r == nil {
			undecidedC16(c, pm, what, e.err)
			continue
		}
		sat, live := k.model()
		set := regionsOf(r.set)
		var bad []string
		for _, reg := range []string{"U", "P", "N"} {
			if !live[reg] {
				continue
			}
			switch r.kind {
			case "its":
				if sat[reg] != set[reg] {
					bad = append(bad, fmt.Sprintf("intersects with {%s} but region %s selected=%v", r.set, reg, sat[reg]))
				}
			case "notIts":
				if sat[reg] == set[reg] {
					bad = append(bad, fmt.Sprintf("subtracts {%s} but region %s selected=%v", r.set, reg, sat[reg]))
				}
			case "none":
				if !sat[reg] {
					bad = append(bad, "does nothing but region "+reg+" is not selected")
				}
			case "empty":
				if sat[reg] {
					bad = append(bad, "returns the empty result but region "+reg+" is selected")
				}
			case "error":
				bad = append(bad, "returns an error")
			}
		}
		if r.short && r.kind != "its" {
			bad = append(bad, "an is-empty shortcut guards a contribution that is not intersected")
		}
		if !k.matchesEmpty && r.kind != "its" && r.kind != "empty" {
			bad = append(bad, "a matcher that cannot match the empty string must provide an intersecting set (the base of all subtractions), got "+r.kind)
		}
		sub, why := evalIsSub(k)
		if why != "" {
			undecidedC16(c, pm, what, why)
			continue
		}
		if !sub && r.kind != "its" && r.kind != "empty" && !k.mustBeSet {
			bad = append(bad, "classified as intersecting although it contributes "+r.kind)
		}
		if sub && !k.matchesEmpty {
			bad = append(bad, "classified as subtracting although it cannot match the empty string")
		}
		if len(bad) > 0 {
			c.Fail("R1", pm.Where(), what, p.Pos(r.pos), strings.Join(bad, "; "))
		} else {
			nOK++
			c.Pass("R1", pm.Where(), what, r.kind+" {"+r.set+"}")
		}
	}
	c.Check("R1", pm.Where(), "all matcher classes were interpreted", nOK == len(classes) && len(classes) >= 25, p.Pos(sw.Pos()), fmt.Sprintf("%d of %d", nOK, len(classes)))
	// plumbing around the switch
	stmt := func(text string) eng.Matcher {
		return eng.Node(text, func(g *eng.Graph, n ast.Node) bool { return nodeText(n) == text })
	}
	callText := func(text string) eng.Matcher {
		return eng.Node(text, func(g *eng.Graph, n ast.Node) bool {
			call, ok := n.(*ast.CallExpr)
			return ok && nodeText(call) == text
		})
	}
	pm.Only("R1", stmt("its = append(its, allPostings)"), "adds the all-postings base exactly when nothing intersects", func(l eng.Loc) bool {
		return pm.UnderCond(l, "hasSubtractingMatchers && !hasIntersectingMatchers")
	})
	pm.Has("R1", stmt("its = append(its, allPostings)"), 1)
	pm.Only("R1", eng.AssignVar("hasIntersectingMatchers"), "is set for matchers that are not subtracting", func(l eng.Loc) bool {
		if _, ok := l.Node.(*ast.AssignStmt); !ok {
			return true
		}
		t := nodeText(l.Node)
		return t == "hasSubtractingMatchers, hasIntersectingMatchers := false, false" || (t == "hasIntersectingMatchers = true" && pm.UnderCondFalse(l, "isSubtractingMatcher(m)"))
	})
	pm.Only("R1", eng.Return("final return", func(g *eng.Graph, rs *ast.ReturnStmt) bool { return nodeText(rs) == "return it, nil" }), "returns the intersection minus every subtracted set", func(l eng.Loc) bool { return true })
	pm.Dom("R1", stmt("it := index.Intersect(its...)"), eng.Return("final return", func(g *eng.Graph, rs *ast.ReturnStmt) bool { return nodeText(rs) == "return it, nil" }))
	pm.AstEvery("R1", "subtraction loop", func(n ast.Node) bool {
		rs, ok := n.(*ast.RangeStmt)
		return ok && eng.ExprString(rs.X) == "notIts"
	}, "removes every subtracted set from the intersection", func(n ast.Node) bool {
		return nodeText(n.(*ast.RangeStmt).Body) == "{ it = index.Without(it, n) }"
	}, 1)
	pm.Dom("R1", stmt("it := index.Intersect(its...)"), stmt("it = index.Without(it, n)"))
	// label must be set: derived from every matcher that does not match the empty string
	pm.AstEvery("R1", "loop filling labelMustBeSet", func(n ast.Node) bool {
		rs, ok := n.(*ast.RangeStmt)
		return ok && strings.Contains(nodeText(rs.Body), "labelMustBeSet[m.Name] = true")
	}, "marks a label exactly when a matcher on it does not match the empty string", func(n ast.Node) bool {
		rs := n.(*ast.RangeStmt)
		return eng.ExprString(rs.X) == "ms" && nodeText(rs.Body) == `{ if !m.Matches("") { labelMustBeSet[m.Name] = true } }`
	}, 1)
	// the all-postings shortcut
	pm.Only("R1", callText("index.AllPostingsKey()"), "is used for the single empty matcher or as the base of pure subtraction", func(l eng.Loc) bool {
		return pm.UnderCond(l, `len(ms) == 1 && ms[0].Name == "" && ms[0].Value == ""`) || pm.UnderCond(l, "hasSubtractingMatchers && !hasIntersectingMatchers")
	})

	// ---- R2 fast paths: postingsForMatcher(m) = set ∧ matches, inversePostingsForMatcher(m) = set ∧ ¬matches ----
	fastPaths := func(fnRef string, positive bool) {
		f := c.Fn(fnRef)
		type row struct{ guard, ret string }
		var rows []row
		for _, st := range f.Body.List {
			switch s := st.(type) {
			case *ast.IfStmt:
				g := nodeText(s.Cond)
				var inner []string
				for _, b := range s.Body.List {
					switch bs := b.(type) {
					case *ast.ReturnStmt:
						inner = append(inner, nodeText(bs))
					case *ast.IfStmt:
						for _, bb := range bs.Body.List {
							if r, ok := bb.(*ast.ReturnStmt); ok {
								inner = append(inner, nodeText(bs.Cond)+" ⇒ "+nodeText(r))
							}
						}
					case *ast.AssignStmt:
						inner = append(inner, nodeText(bs))
					}
				}
				rows = append(rows, row{g, strings.Join(inner, " ; ")})
			case *ast.AssignStmt:
				rows = append(rows, row{"", nodeText(s)})
			case *ast.ReturnStmt:
				rows = append(rows, row{"", nodeText(s)})
			}
		}
		var got []string
		for _, r := range rows {
			got = append(got, "["+r.guard+"] "+r.ret)
		}
		// semantic reading of each row: which matcher types it serves and what it returns
		typeEq, typeSet := "labels.MatchEqual", "labels.MatchRegexp"
		fallback := "it := ix.PostingsForLabelMatching(ctx, m.Name, m.Matches)"
		if !positive {
			typeEq, typeSet = "labels.MatchNotEqual", "labels.MatchNotRegexp"
			fallback = "it := ix.PostingsForLabelMatching(ctx, m.Name, func(s string) bool { return !m.Matches(s) })"
		}
		want := map[string]bool{
			"[m.Type == " + typeEq + "] return ix.Postings(ctx, m.Name, m.Value)":                                                             false,
			"[m.Type == " + typeSet + "] setMatches := m.SetMatches() ; len(setMatches) > 0 ⇒ return ix.Postings(ctx, m.Name, setMatches...)": false,
			"[] " + fallback:         false,
			"[] return it, it.Err()": false,
		}
		if !positive {
			want[`[m.Value == "" && (m.Type == labels.MatchRegexp || m.Type == labels.MatchEqual)] it := ix.PostingsForAllLabelValues(ctx, m.Name) ; return it, it.Err()`] = false
		}
		var extra []string
		for _, g := range got {
			if _, ok := want[g]; ok {
				want[g] = true
			} else {
				extra = append(extra, g)
			}
		}
		var missing []string
		for w, seen := range want {
			if !seen {
				missing = append(missing, w)
			}
		}
		sort.Strings(missing)
		desc := "label set ∧ matches"
		if !positive {
			desc = "label set ∧ does not match"
		}
		c.Check("R2", f.Where(), eng.Short(fnRef)+" returns "+desc+" on every path (equality → the value's postings, set regex → the set's postings, otherwise a scan with the (negated) predicate)", len(extra) == 0 && len(missing) == 0, p.Pos(f.Body.Pos()),
			"unexpected: "+strings.Join(extra, " | ")+"; missing: "+strings.Join(missing, " | "))
	}
	fastPaths(T+"postingsForMatcher", true)
	fastPaths(T+"inversePostingsForMatcher", false)

	// ---- R3 select (sample and chunk variant) ----
	for _, v := range [][4]string{{"selectSeriesSet", "return storage.ErrSeriesSet(err)", "newBlockSeriesSet", "0"}, {"selectChunkSeriesSet", "return storage.ErrChunkSeriesSet(err)", "NewBlockChunkSeriesSet", "1"}} {
		v := v
		ss := c.Fn(T + v[0])
		ss.FailLeadsTo("R3", p.Call(T+"PostingsForMatchers"), eng.Return(v[1], func(g *eng.Graph, rs *ast.ReturnStmt) bool {
			return nodeText(rs) == v[1]
		}), nil)
		ss.Only("R3", p.Call(T+"PostingsForMatchers"), "resolves the caller's matchers against this block's index", func(l eng.Loc) bool {
			a := eng.CallArgsText(l)
			return len(a) == 3 && a[1] == "index" && a[2] == "ms"
		})
		sorted := stmt("p = index.SortedPostings(p)")
		build := p.Call(T + v[2])
		ss.GivenBranch("sortSeries", true).Dom("R3", sorted, build)
		ss.Only("R3", sorted, "happens exactly when sorting is requested", func(l eng.Loc) bool { return ss.UnderCond(l, "sortSeries") })
		ss.NoPath("R3", sorted, stmt("p = index.ShardedPostings(p, hints.ShardIndex, hints.ShardCount)")) // shard, then sort
		off := 0
		if v[3] == "1" {
			off = 1
		}
		ss.Only("R3", build, "iterates the selected postings over the requested range", func(l eng.Loc) bool {
			a := eng.CallArgsText(l)
			return len(a) == 7+off && a[off] == "index" && a[3+off] == "p" && a[4+off] == "mint" && a[5+off] == "maxt"
		})
	}
	// ---- R4 label values / names ----
	{
		lv := c.Fn(T + "labelValuesWithMatchers")
		// limit only after filtering
		for _, nw := range lv.Narrowings("allValues") {
			ok := strings.HasSuffix(nw.Text, "[:hints.Limit]") && strings.Join(nw.Guards, ";") != ""
			c.Check("R4", lv.Where(), "the value list is cut only by the limit, after filtering ("+nw.Text+")", ok || nw.Text == "filteredValues := allValues[:0]", nw.Pos, strings.Join(nw.Guards, " ; "))
		}
		limitCut := stmt("allValues = allValues[:hints.Limit]")
		lv.Has("R4", limitCut, 1)
		lv.Only("R4", limitCut, "is taken only when no other label's matchers remain and the limit is exceeded", func(l eng.Loc) bool {
			return lv.UnderCond(l, "!hasMatchersForOtherLabels") && lv.UnderCond(l, "hints != nil && hints.Limit > 0 && len(allValues) > hints.Limit")
		})
		lv.NoPath("R4", limitCut, p.Call(T+"PostingsForMatchers"))
		lv.Only("R4", eng.Node("filteredValues = append(filteredValues, v)", func(g *eng.Graph, n ast.Node) bool {
			return nodeText(n) == "filteredValues = append(filteredValues, v)"
		}), "keeps a value exactly when the matcher on this label accepts it", func(l eng.Loc) bool { return lv.UnderCond(l, "m.Matches(v)") })
		conts := lv.Branches("continue")
		c.Check("R4", lv.Where(), "a matcher is skipped by the value filter only when it is on another label", len(conts) == 1 && len(conts[0].Conds) > 0 && conts[0].Conds[len(conts[0].Conds)-1] == "m.Name != name=T", p.Pos(lv.Body.Pos()), "")
		lv.Only("R4", p.Call(T+"PostingsForMatchers"), "intersects with the postings of all matchers", func(l eng.Loc) bool {
			a := eng.CallArgsText(l)
			return len(a) == 3 && a[1] == "r" && a[2] == "matchers"
		})
		lv.ErrPropagates("R4", p.Call(T+"PostingsForMatchers"), 1)
		lv.Only("R4", eng.Node("values = append(values, allValues[idx])", func(g *eng.Graph, n ast.Node) bool {
			return nodeText(n) == "values = append(values, allValues[idx])"
		}), "returns the values whose postings intersect", func(l eng.Loc) bool { return true })
		lv.AstEvery("R4", "result loop", func(n ast.Node) bool {
			rs, ok := n.(*ast.RangeStmt)
			return ok && eng.ExprString(rs.X) == "indexes"
		}, "appends before testing the limit (min(N, size) entries)", func(n ast.Node) bool {
			t := nodeText(n.(*ast.RangeStmt).Body)
			return strings.HasPrefix(t, "{ values = append(values, allValues[idx]) if hints != nil && hints.Limit > 0 && len(values) >= hints.Limit { break }")
		}, 1)
		lv.AstEvery("R4", "postings-per-value loop", func(n ast.Node) bool {
			rs, ok := n.(*ast.RangeStmt)
			return ok && eng.ExprString(rs.X) == "allValues" && strings.Contains(nodeText(rs.Body), "r.Postings(")
		}, "fetches the postings of (name, value) into slot i", func(n ast.Node) bool {
			return strings.Contains(nodeText(n.(*ast.RangeStmt).Body), "valuesPostings[i], err = r.Postings(ctx, name, value)")
		}, 1)
		ln := c.Fn(T + "labelNamesWithMatchers")
		ln.ErrPropagates("R4", p.Call(T+"PostingsForMatchers"), 1)
		ln.Only("R4", eng.Return("success return", func(g *eng.Graph, rs *ast.ReturnStmt) bool { return len(rs.Results) == 1 }), "returns the label names of the matching postings", func(l eng.Loc) bool {
			return nodeText(l.Node) == "return r.LabelNamesFor(ctx, p)"
		})
		tl := c.Fn("storage:truncateToLimit")
		for _, nw := range tl.Narrowings("s") {
			c.Check("R4", tl.Where(), "truncateToLimit keeps the first Limit entries only when the list is longer", nw.Text == "s = s[:hints.Limit]" && strings.Join(nw.Guards, ";") != "", nw.Pos, nw.Text+" under "+strings.Join(nw.Guards, " ; "))
		}
		c.Check("R4", tl.Where(), "truncateToLimit has one cut", len(tl.Narrowings("s")) == 1, p.Pos(tl.Body.Pos()), "")
	}
	for _, f := range c16Extra {
		f(c)
	}
}

func init() { c16Extra = append(c16Extra, runC16Range) }

func undecidedC16(c *eng.Ctx, f *eng.Fn, what, why string) {
	c.Fail("R1", f.Where(), what, c.P.Pos(f.Body.Pos()), "the abstract interpreter does not understand the code: "+why+" (not a pass)")
}
