package main

import (
	"fmt"
	"go/ast"
	"go/constant"
	"go/token"
	"go/types"
	"reflect"
	"strings"

	"golang.org/x/tools/go/packages"

	"promverif/eng"
)

func init() {
	register(&Property{
		ID:        "C49",
		Title:     "A loaded configuration prints to text that loads to the same configuration",
		Technique: "struct-tag table rule over every struct of package config (go/types): a field hidden from YAML must be re-emitted by the type's MarshalYAML; go/cfg order rule for defaults that are filled in after a cross-field validation (the default has to respect the validated relation, otherwise the printed text fails the same validation); default-literal versus struct-tag rule (a scalar field with a non-zero default may be `omitempty` only if the loader rejects or normalises its zero value, derived from the if/switch tests on the field); rewrite-after-decoding rule (os.Expand needs a re-escaping marshaller)",
		DesignRef: "DESIGN.md §5 C49",
		Level: "Decides that no field of a configuration struct is hidden from YAML (`yaml:\"-\"`) unless its type has a MarshalYAML that re-emits it (the two service-discovery holders), that every type with such a MarshalYAML also has the UnmarshalYAML that reads the inline form, " +
			"and that the global scrape timeout, which is validated against the scrape interval before its default is filled in, gets a default that is bounded by the interval (so the printed global section passes the validation it was loaded with), that no scalar field of package config or model/relabel whose default is non-zero is omitted from the printed text when zero unless that zero cannot result from loading, and whether the environment expansion of external labels is undone on print (it is not: known finding).",
		Note:           "Trusted: go/packages, go/types, go/cfg; rule tables in checker/c49.go.",
		Covers:         "struct tags of all structs in package config; ScrapeConfig / AlertmanagerConfig MarshalYAML/UnmarshalYAML; GlobalConfig.UnmarshalYAML order of interval default, timeout validation and timeout default.",
		NotCover:       "equality of the reloaded configuration (values), secrets, discovery-specific config types.",
		Run:            runC49,
		MinObligations: 40,
	})
}

func runC49(c *eng.Ctx) {
	p := c.P
	pk := p.Pkg("config")
	// ---- R1 hidden fields ----
	sc := pk.Types.Scope()
	nStructs, nHidden := 0, 0
	for _, name := range sc.Names() {
		tn, ok := sc.Lookup(name).(*types.TypeName)
		if !ok {
			continue
		}
		st, ok := tn.Type().Underlying().(*types.Struct)
		if !ok {
			continue
		}
		nStructs++
		for i := 0; i < st.NumFields(); i++ {
			tag := reflect.StructTag(st.Tag(i)).Get("yaml")
			if tag != "-" || !st.Field(i).Exported() {
				continue
			}
			nHidden++
			m := p.TryFunc("config:" + name + ".MarshalYAML")
			u := p.TryFunc("config:" + name + ".UnmarshalYAML")
			ok := m != nil && u != nil
			if ok {
				mf := c.Fn("config:" + name + ".MarshalYAML")
				ok = len(mf.Find(p.Call("discovery:MarshalYAMLWithInlineConfigs"))) > 0
				uf := c.Fn("config:" + name + ".UnmarshalYAML")
				ok = ok && len(uf.Find(p.Call("discovery:UnmarshalYAMLWithInlineConfigs"))) > 0
			}
			c.Check("R1", "config:"+name+"."+st.Field(i).Name(), "a field hidden from YAML is re-emitted by MarshalYAML and read back by UnmarshalYAML (inline configs)", ok, p.Pos(st.Field(i).Pos()),
				"the field carries yaml:\"-\" but the type has no MarshalYAML/UnmarshalYAML pair that writes and reads it: it is lost when the configuration is printed")
		}
	}
	c.Check("R1", "config", "structs examined ≥ 15, hidden fields = 2 (both service-discovery holders)", nStructs >= 15 && nHidden == 2, "", "")
	// ---- R2 default after validation respects the validated relation ----
	g := c.Fn("config:GlobalConfig.UnmarshalYAML")
	intervalDefault := p.StoreVal("config:GlobalConfig.ScrapeInterval", "default", func(gr *eng.Graph, e ast.Expr) bool { return eng.ExprString(e) == "DefaultGlobalConfig.ScrapeInterval" })
	check := eng.CondTest("gc.ScrapeTimeout > gc.ScrapeInterval")
	timeoutDefault := p.Store("config:GlobalConfig.ScrapeTimeout")
	g.Has("R2", intervalDefault, 1)
	g.Dom("R2", eng.CondTest("gc.ScrapeInterval == 0"), check) // the interval is final before the timeout is validated against it
	g.NoPath("R2", check, intervalDefault)
	g.Dom("R2", check, timeoutDefault)
	g.Only("R2", timeoutDefault, "fills in a default bounded by the scrape interval", func(l eng.Loc) bool {
		as, ok := l.Node.(*ast.AssignStmt)
		if !ok {
			return false
		}
		call, ok := as.Rhs[0].(*ast.CallExpr)
		if !ok || eng.ExprString(call.Fun) != "min" {
			return false
		}
		has := false
		for _, a := range call.Args {
			if eng.ExprString(a) == "gc.ScrapeInterval" {
				has = true
			}
		}
		return has && g.UnderCond(l, "gc.ScrapeTimeout == 0")
	})
	g.GivenBranch("gc.ScrapeTimeout > gc.ScrapeInterval", true).Unreachable("R2", timeoutDefault)
	runC49Omitted(c)
	runC49Expand(c)
}

// c49ZeroNotLoadable lists omitempty fields with a non-zero default whose zero value cannot be the result of
// loading a valid configuration (so dropping it on print loses nothing); one line of reason each.
var c49ZeroNotLoadable = map[string]string{
	"config:RuntimeConfig.GoGC":                "Config.UnmarshalYAML replaces a runtime section whose gogc is 0 (RuntimeConfig.isZero) by DefaultRuntimeConfig",
	"config:RemoteWriteConfig.ProtobufMessage": "RemoteWriteConfig.UnmarshalYAML rejects an empty message type through ProtobufMessage.Validate",
}

// c49ZeroGuarded reports whether some function of the package tests the field against its zero value (if
// condition `x.F == 0`, `<= 0`, `== ""`, or a switch on `x.F`) and, under that test, either assigns the field
// (the zero is normalised to a default while loading) or returns (the zero is rejected).
func c49ZeroGuarded(p *eng.Prog, pk *packages.Package, fld *types.Var) string {
	isF := func(e ast.Expr) bool {
		se, ok := ast.Unparen(e).(*ast.SelectorExpr)
		return ok && pk.TypesInfo.Uses[se.Sel] == fld
	}
	zeroTest := func(e ast.Expr) bool {
		found := false
		ast.Inspect(e, func(n ast.Node) bool {
			be, ok := n.(*ast.BinaryExpr)
			if !ok || !isF(be.X) {
				return true
			}
			y := eng.ExprString(be.Y)
			if (be.Op == token.EQL || be.Op == token.LEQ) && (y == "0" || y == `""`) {
				found = true
			}
			return true
		})
		return found
	}
	handles := func(body ast.Node) string {
		res := ""
		ast.Inspect(body, func(n ast.Node) bool {
			switch x := n.(type) {
			case *ast.AssignStmt:
				for _, l := range x.Lhs {
					if isF(l) {
						res = "normalised"
					}
				}
			case *ast.ReturnStmt:
				if len(x.Results) > 0 && res == "" {
					last := eng.ExprString(x.Results[len(x.Results)-1])
					if last != "nil" {
						res = "rejected"
					}
				}
			}
			return true
		})
		return res
	}
	out := ""
	for _, fs := range p.AllFuncs() {
		if fs.Pkg != pk || out != "" {
			continue
		}
		ast.Inspect(fs.Decl.Body, func(n ast.Node) bool {
			switch x := n.(type) {
			case *ast.IfStmt:
				if zeroTest(x.Cond) {
					if h := handles(x.Body); h != "" {
						out = h + " in " + eng.FuncName(fs.Obj)
					}
				}
			case *ast.SwitchStmt:
				if x.Tag != nil && isF(x.Tag) {
					// the clause that takes the zero value: one listing a zero constant, else default
					var zeroCl, defCl *ast.CaseClause
					for _, st := range x.Body.List {
						cc := st.(*ast.CaseClause)
						if cc.List == nil {
							defCl = cc
						}
						for _, e := range cc.List {
							if tv := pk.TypesInfo.Types[e]; tv.Value != nil && isZeroConst(tv.Value) {
								zeroCl = cc
							}
						}
					}
					if zeroCl == nil {
						zeroCl = defCl
					}
					if zeroCl != nil {
						if h := handles(&ast.BlockStmt{List: zeroCl.Body}); h != "" {
							out = h + " in " + eng.FuncName(fs.Obj)
						}
					}
				}
			}
			return out == ""
		})
	}
	return out
}

// runC49Omitted (R3): a scalar field that is left out of the printed text when zero (`omitempty`) must have the
// zero value as its default; otherwise an explicit zero loads, is dropped on print and reloads as the default.
// The defaults are read from the composite literals of the package-level Default* variables that the
// UnmarshalYAML methods assign before decoding.
func runC49Omitted(c *eng.Ctx) {
	nLits, nFields, nGuarded := c49OmittedIn(c, c.P.Pkg("config"))
	c.Check("R3", "config", "default literals applied while loading ≥ 10, scalar fields with non-zero default ≥ 25, of which omitted-when-zero but never zero after loading ≥ 8", nLits >= 10 && nFields >= 25 && nGuarded >= 8, "", fmt.Sprintf("%d literals, %d fields, %d guarded", nLits, nFields, nGuarded))
	// the same rule over relabelling (the property's second anchor).  The service-discovery packages are outside
	// the property's anchors; run over them the rule lists 35 untriaged candidates (DESIGN.md §4, observation F35).
	l, f, _ := c49OmittedIn(c, c.P.Pkg("model/relabel"))
	c.Check("R3", "model/relabel", "default literals applied while loading ≥ 1, scalar fields with non-zero default ≥ 3", l >= 1 && f >= 3, "", fmt.Sprintf("%d literals, %d fields", l, f))
}

func c49OmittedIn(c *eng.Ctx, pk *packages.Package) (nLits, nFields, nGuarded int) {
	p := c.P
	prel := strings.TrimPrefix(pk.PkgPath, eng.ModPath+"/")
	type defLit struct {
		name string
		lit  *ast.CompositeLit
		st   *types.Struct
		tn   string
	}
	lits := map[types.Object]*defLit{}
	for _, f := range pk.Syntax {
		for _, d := range f.Decls {
			gd, ok := d.(*ast.GenDecl)
			if !ok {
				continue
			}
			for _, sp := range gd.Specs {
				vs, ok := sp.(*ast.ValueSpec)
				if !ok {
					continue
				}
				for i, n := range vs.Names {
					if i >= len(vs.Values) {
						continue
					}
					cl, ok := vs.Values[i].(*ast.CompositeLit)
					if !ok {
						continue
					}
					nt, ok := pk.TypesInfo.TypeOf(cl).(*types.Named)
					if !ok || nt.Obj().Pkg() != pk.Types {
						continue
					}
					st, ok := nt.Underlying().(*types.Struct)
					if !ok {
						continue
					}
					lits[pk.TypesInfo.Defs[n]] = &defLit{name: n.Name, lit: cl, st: st, tn: nt.Obj().Name()}
				}
			}
		}
	}
	// which of them are applied while loading: assigned inside a function, or nested in an applied literal
	applied := map[types.Object]bool{}
	for _, fs := range p.AllFuncs() {
		if fs.Pkg != pk {
			continue
		}
		ast.Inspect(fs.Decl.Body, func(n ast.Node) bool {
			as, ok := n.(*ast.AssignStmt)
			if !ok {
				return true
			}
			for _, r := range as.Rhs {
				if id, ok := r.(*ast.Ident); ok {
					if o := pk.TypesInfo.Uses[id]; o != nil && lits[o] != nil {
						applied[o] = true
					}
				}
			}
			return true
		})
	}
	for changed := true; changed; {
		changed = false
		for o, dl := range lits {
			if !applied[o] {
				continue
			}
			ast.Inspect(dl.lit, func(n ast.Node) bool {
				if id, ok := n.(*ast.Ident); ok {
					if u := pk.TypesInfo.Uses[id]; u != nil && lits[u] != nil && !applied[u] {
						applied[u] = true
						changed = true
					}
				}
				return true
			})
		}
	}
	seen := map[string]bool{}
	for o, dl := range lits {
		if !applied[o] {
			continue
		}
		nLits++
		for _, el := range dl.lit.Elts {
			kv, ok := el.(*ast.KeyValueExpr)
			if !ok {
				continue
			}
			fname := eng.ExprString(kv.Key)
			var tag string
			var fld *types.Var
			for i := 0; i < dl.st.NumFields(); i++ {
				if dl.st.Field(i).Name() == fname {
					fld, tag = dl.st.Field(i), reflect.StructTag(dl.st.Tag(i)).Get("yaml")
				}
			}
			if fld == nil {
				continue
			}
			if _, basic := fld.Type().Underlying().(*types.Basic); !basic {
				continue
			}
			tv := pk.TypesInfo.Types[kv.Value]
			nonZero := tv.Value == nil || !isZeroConst(tv.Value) // a non-constant default is taken as non-zero
			if !nonZero {
				continue
			}
			nFields++
			where := prel + ":" + dl.tn + "." + fname
			if seen[where] {
				continue
			}
			seen[where] = true
			omit := strings.Contains(tag, ",omitempty")
			why, exc := c49ZeroNotLoadable[where]
			if !exc && omit {
				if why = c49ZeroGuarded(p, pk, fld); why != "" {
					exc = true
				}
			}
			if exc && omit {
				nGuarded++
			}
			c.Check("R3", where, "a scalar field with a non-zero default is printed even when zero (no omitempty), or its zero value cannot result from loading (normalised or rejected)", !omit || exc, p.Pos(fld.Pos()),
				"the field is tagged `"+tag+"` and defaults to "+eng.ExprString(kv.Value)+": an explicit zero value loads, is left out of the printed text and reloads as the default")
		}
	}
	return
}

// runC49Expand (R4): a rewrite applied after decoding is undone when printing.
func runC49Expand(c *eng.Ctx) {
	p := c.P
	ld := c.Fn("config:Load")
	nExpand := 0
	ast.Inspect(ld.Body, func(n ast.Node) bool {
		call, ok := n.(*ast.CallExpr)
		if !ok {
			return true
		}
		if f := ld.Callee(call); f == nil || f.Pkg() == nil || f.Pkg().Path() != "os" || f.Name() != "Expand" {
			return true
		}
		nExpand++
		m := p.TryFunc("config:GlobalConfig.MarshalYAML")
		c.Check("R4", ld.Where(), "environment expansion of external label values (os.Expand turns `$$` into `$`) is undone when the configuration is printed (GlobalConfig.MarshalYAML re-escapes `$`)", m != nil, p.Pos(call.Pos()),
			"the expanded value is stored in GlobalConfig.ExternalLabels and printed as is; loading the printed text expands it a second time")
		return true
	})
	c.Check("R4", ld.Where(), "expansion sites examined = 1", nExpand == 1, p.Pos(ld.Body.Pos()), "")
}

func isZeroConst(v constant.Value) bool {
	switch v.Kind() {
	case constant.Bool:
		return !constant.BoolVal(v)
	case constant.String:
		return constant.StringVal(v) == ""
	case constant.Int, constant.Float, constant.Complex:
		return constant.Sign(v) == 0
	}
	return false
}
