package main

import (
	"go/ast"
	"go/types"
	"reflect"
	"strings"

	"promverif/eng"
)

func init() {
	register(&Property{
		ID:        "C49",
		Title:     "A loaded configuration prints to text that loads to the same configuration",
		Technique: "struct-tag table rule over every struct of package config (go/types): a field hidden from YAML must be re-emitted by the type's MarshalYAML; go/cfg order rule for defaults that are filled in after a cross-field validation (the default has to respect the validated relation, otherwise the printed text fails the same validation)",
		DesignRef: "DESIGN.md §5 C49",
		Level: "Decides that no field of a configuration struct is hidden from YAML (`yaml:\"-\"`) unless its type has a MarshalYAML that re-emits it (the two service-discovery holders), that every type with such a MarshalYAML also has the UnmarshalYAML that reads the inline form, " +
			"and that the global scrape timeout, which is validated against the scrape interval before its default is filled in, gets a default that is bounded by the interval (so the printed global section passes the validation it was loaded with).",
		Note:           "Trusted: go/packages, go/types, go/cfg; rule tables in checker/c49.go.",
		Covers:         "struct tags of all structs in package config; ScrapeConfig / AlertmanagerConfig MarshalYAML/UnmarshalYAML; GlobalConfig.UnmarshalYAML order of interval default, timeout validation and timeout default.",
		NotCover:       "equality of the reloaded configuration (values), secrets, discovery-specific config types.",
		Run:            runC49,
		MinObligations: 8,
	})
}

func runC49(c *eng.Ctx) {
	p := c.P
	pk := p.Pkg("config")
	// ---- R1 hidden fields ----
	sc := pk.Types.Scope()
	nStructs, nHidden := 0, 0
	for _, name := range sc.Names() {
		tn, ok := sc.Lookup(name).(*types.TypeName)
		if !ok {
			continue
		}
		st, ok := tn.Type().Underlying().(*types.Struct)
		if !ok {
			continue
		}
		nStructs++
		for i := 0; i < st.NumFields(); i++ {
			tag := reflect.StructTag(st.Tag(i)).Get("yaml")
			if tag != "-" || !st.Field(i).Exported() {
				continue
			}
			nHidden++
			m := p.TryFunc("config:" + name + ".MarshalYAML")
			u := p.TryFunc("config:" + name + ".UnmarshalYAML")
			ok := m != nil && u != nil
			if ok {
				mf := c.Fn("config:" + name + ".MarshalYAML")
				ok = len(mf.Find(p.Call("discovery:MarshalYAMLWithInlineConfigs"))) > 0
				uf := c.Fn("config:" + name + ".UnmarshalYAML")
				ok = ok && len(uf.Find(p.Call("discovery:UnmarshalYAMLWithInlineConfigs"))) > 0
			}
			c.Check("R1", "config:"+name+"."+st.Field(i).Name(), "a field hidden from YAML is re-emitted by MarshalYAML and read back by UnmarshalYAML (inline configs)", ok, p.Pos(st.Field(i).Pos()),
				"the field carries yaml:\"-\" but the type has no MarshalYAML/UnmarshalYAML pair that writes and reads it: it is lost when the configuration is printed")
		}
	}
	c.Check("R1", "config", "structs examined ≥ 15, hidden fields = 2 (both service-discovery holders)", nStructs >= 15 && nHidden == 2, "", "")
	// ---- R2 default after validation respects the validated relation ----
	g := c.Fn("config:GlobalConfig.UnmarshalYAML")
	intervalDefault := p.StoreVal("config:GlobalConfig.ScrapeInterval", "default", func(gr *eng.Graph, e ast.Expr) bool { return eng.ExprString(e) == "DefaultGlobalConfig.ScrapeInterval" })
	check := eng.CondTest("gc.ScrapeTimeout > gc.ScrapeInterval")
	timeoutDefault := p.Store("config:GlobalConfig.ScrapeTimeout")
	g.Has("R2", intervalDefault, 1)
	g.Dom("R2", eng.CondTest("gc.ScrapeInterval == 0"), check) // the interval is final before the timeout is validated against it
	g.NoPath("R2", check, intervalDefault)
	g.Dom("R2", check, timeoutDefault)
	g.Only("R2", timeoutDefault, "fills in a default bounded by the scrape interval", func(l eng.Loc) bool {
		as, ok := l.Node.(*ast.AssignStmt)
		if !ok {
			return false
		}
		call, ok := as.Rhs[0].(*ast.CallExpr)
		if !ok || eng.ExprString(call.Fun) != "min" {
			return false
		}
		has := false
		for _, a := range call.Args {
			if eng.ExprString(a) == "gc.ScrapeInterval" {
				has = true
			}
		}
		return has && g.UnderCond(l, "gc.ScrapeTimeout == 0")
	})
	g.GivenBranch("gc.ScrapeTimeout > gc.ScrapeInterval", true).Unreachable("R2", timeoutDefault)
	_ = strings.Contains
}
