package main

import (
	"fmt"
	"go/ast"
	"go/types"
	"regexp"
	"sort"
	"strings"

	"promverif/eng"
)

// encodingTable extracts, for each dispatch function over chunkenc.Encoding, the concrete chunk
// type each case produces, and checks that all tables agree with each type's own Encoding() method.
func encodingTable(c *eng.Ctx, rule string, floatOnly bool) {
	p := c.P
	E := "tsdb/chunkenc:Encoding"
	none := map[string]string{"EncNone": "not a chunk encoding"}
	// ground truth: constant returned by (*T).Encoding()
	truth := map[string]string{} // const → type
	pk := p.Pkg("tsdb/chunkenc")
	sc := pk.Types.Scope()
	for _, n := range sc.Names() {
		tn, ok := sc.Lookup(n).(*types.TypeName)
		if !ok || !strings.HasSuffix(n, "Chunk") {
			continue
		}
		if f := p.TryFunc("tsdb/chunkenc:" + n + ".Encoding"); f != nil {
			if fs := p.SrcOf(f); fs != nil && fs.Decl.Body != nil && len(fs.Decl.Body.List) == 1 {
				if rs, ok := fs.Decl.Body.List[0].(*ast.ReturnStmt); ok && len(rs.Results) == 1 {
					truth[eng.ExprString(rs.Results[0])] = tn.Name()
				}
			}
		}
	}
	consts := p.EnumConsts(E)
	var names []string
	for _, k := range consts {
		if k.Name() != "EncNone" {
			names = append(names, k.Name())
		}
	}
	sort.Strings(names)
	var missing []string
	for _, n := range names {
		if truth[n] == "" {
			missing = append(missing, n)
		}
	}
	c.Check(rule, "tsdb/chunkenc:Encoding", "every encoding constant is the Encoding() of exactly one chunk type", len(missing) == 0 && len(truth) == len(names), "", fmt.Sprintf("%v; without a chunk type: %v", truth, missing))
	tyRe := regexp.MustCompile(`\*?&?(\w+Chunk)\b`)
	ctorRe := regexp.MustCompile(`New(\w+Chunk)\(`)
	for _, fn := range []string{"tsdb/chunkenc:pool.Get", "tsdb/chunkenc:pool.Put", "tsdb/chunkenc:FromData", "tsdb/chunkenc:NewEmptyChunk"} {
		f := c.Fn(fn)
		f.SwitchCovers(rule, E, 1, none)
		for _, sw := range f.EnumSwitches(E) {
			var bad []string
			for k, cl := range sw.Clauses {
				t := nodeText(&ast.BlockStmt{List: cl.Body})
				got := ""
				if m := ctorRe.FindStringSubmatch(t); m != nil {
					got = m[1]
				} else if m := tyRe.FindStringSubmatch(t); m != nil {
					got = m[1]
				}
				if got != truth[k] {
					bad = append(bad, k+"→"+got+" (its Encoding() belongs to "+truth[k]+")")
				}
			}
			sort.Strings(bad)
			c.Check(rule, f.Where(), "each case produces / accepts the chunk type whose Encoding() is the case constant", len(bad) == 0, p.Pos(sw.Stmt.Pos()), strings.Join(bad, "; "))
		}
	}
	// IsValidEncoding accepts exactly the constants
	iv := c.Fn("tsdb/chunkenc:IsValidEncoding")
	acc := map[string]bool{}
	ast.Inspect(iv.Body, func(x ast.Node) bool {
		if be, ok := x.(*ast.BinaryExpr); ok && be.Op.String() == "==" {
			acc[eng.ExprString(be.Y)] = true
		}
		return true
	})
	a := eng.SortedKeys(acc)
	c.Check(rule, iv.Where(), "accepts exactly the chunk encodings", strings.Join(a, ",") == strings.Join(names, ","), p.Pos(iv.Body.Pos()), fmt.Sprintf("accepts %v, encodings %v", a, names))
	c.Fn("tsdb/chunkenc:Encoding.String").SwitchCovers(rule, E, 1, nil)
	// value type → encoding
	ce := c.Fn("tsdb/chunkenc:ValueType.ChunkEncoding")
	ce.SwitchCovers(rule, "tsdb/chunkenc:ValueType", 1, map[string]string{"ValNone": "no sample"})
	ce.Only(rule, eng.Return("", nil), "returns an encoding constant", func(l eng.Loc) bool {
		t := eng.ReturnText(l)
		return strings.HasPrefix(t, "Enc")
	})
	_ = floatOnly
}

func init() {
	register(&Property{
		ID:             "C10",
		Title:          "Float chunks return exactly what was appended",
		Technique:      "cross-table agreement over go/types constants: every chunkenc.Encoding is dispatched to the same concrete chunk type by Pool.Get, Pool.Put, FromData and NewEmptyChunk, that type's Encoding() returns the constant, IsValidEncoding accepts exactly the constants; structural sibling rule between the XOR and XOR2 chunk wrappers' shared shape is NOT attempted (different bit formats); field-transfer map (E11) of Appender(): writer state resumed from the reader's state field by field, role pairing of the XOR base derived from the math.Float64bits operands",
		DesignRef:      "DESIGN.md §5 C10/C11",
		Level:          "Decides only the dispatch layer: bytes written under an encoding are reopened as the chunk type that wrote them (Get/FromData/NewEmptyChunk/Put agree with each type's Encoding()), every encoding is accepted by IsValidEncoding and named, and a value type maps to an existing encoding; and that an appender re-opened on existing bytes takes every piece of its codec state from the reader field that plays the same role (XOR base, last timestamp and delta, leading/trailing window, start-timestamp state). The bit-level round trip and Seek are value-level and not decided.",
		Note:           "Trusted: go/packages, go/types.",
		Covers:         "tsdb/chunkenc: pool.Get, pool.Put, FromData, NewEmptyChunk, IsValidEncoding, Encoding.String, ValueType.ChunkEncoding, (*T).Encoding() of the six chunk types; XORChunk.Appender, XOR2Chunk.Appender (state and bit position resumed from the reader); xorIterator.Next, xor2Iterator.Next (every sample handed out was decoded on the way).",
		NotCover:       "the bit widths and value arithmetic of the encodings (bit-exact round trip as such); Seek; chunk capacity.",
		Run:            runC10,
		MinObligations: 34,
	})
	register(&Property{
		ID:        "C11",
		Title:     "Native histograms are stored and read back faithfully",
		Technique: "cross-table agreement over chunkenc.Encoding (as C10); structural sibling equality (engine E6): the integer and float variants, and the plain and start-timestamp variants, of the histogram append decision have the same body after renaming up to declared differences; go/cfg sibling obligations for memSeries.appendHistogram / appendFloatHistogram",
		DesignRef: "DESIGN.md §5 C10/C11",
		Level: "Decides the dispatch layer (as C10) and that the near-copies implementing the same step stay in step: expandIntSpansAndBuckets / expandFloatSpansAndBuckets (bucket-by-bucket reset detection), the appendable decision of the plain and the start-timestamp appenders (integer and float), the gauge variants, and the head's appendHistogram / appendFloatHistogram, " +
			"each pair equal after renaming except for the declared lines (delta vs. absolute bucket encoding, which last-value field is kept). A re-check dropped or an update moved in one sibling only is reported. The four histogram Appender() functions resume every codec-state field of the appender (and of the start-timestamp encoder) from the iterator field of the same name.",
		Note:           "Trusted: go/packages, go/types; engine checker/eng/siblings.go; difference tables in checker/c10.go.",
		Covers:         "dispatch tables as C10; expand{Int,Float}SpansAndBuckets; {Histogram,FloatHistogram}{,ST}Appender.appendable; appendableGauge; memSeries.appendHistogram/appendFloatHistogram; the four histogram Appender() functions (state and bit position); every running-sum decoder of tsdb/chunkenc and model/histogram (reset between bucket arrays).",
		NotCover:       "that the decision itself is right (value-level): bucket arithmetic, recoding, schema changes; the iterators beyond the running-sum rule.",
		Run:            runC11,
		MinObligations: 60,
	})
}

var histRenames = [][2]string{{"FloatHistogram", "Histogram"}, {"Float", "Int"}, {"float64", "int64"}, {`\bfh\b`, "h"}, {"xorValue", "int64"}}

// sibRenames maps the float-histogram sibling's vocabulary onto the integer sibling's.
var sibRenames = [][2]string{{"FloatHistograms", "Histograms"}, {"floatHistograms", "histograms"}, {"floatHistogramSeries", "histogramSeries"}, {"FloatHistogram", "Histogram"},
	{"floatHistogram", "histogram"}, {`\.FH\b`, ".H"}, {`\bFH:`, "H:"}, {"float native", "native"}, {"customBucketsHistograms", "customBucketHistograms"}, {"Float", "Int"}, {"float64", "int64"}, {`\bfh\b`, "h"}}

// resumePosition: an Appender() that rebuilds the writer's state by iterating the chunk's existing bytes also
// has to restore where writing continues: bstream.count (free bits in the last byte) is not part of the bytes, a
// chunk made by FromData has count 0.  The reader knows it: after the last sample its remaining valid bits are
// exactly the unused bits of the last byte.
func resumePosition(c *eng.Ctx, rule, fnRef string) {
	p := c.P
	f := c.Fn(fnRef)
	next := eng.CallNamed("Next")
	store := p.StoreVal("tsdb/chunkenc:bstream.count", "the reader's remaining valid bits", func(g *eng.Graph, e ast.Expr) bool {
		se, ok := ast.Unparen(e).(*ast.SelectorExpr)
		if !ok {
			return false
		}
		v, _ := g.Info.Uses[se.Sel].(*types.Var)
		return v != nil && v == p.Field("tsdb/chunkenc:bstreamReader.valid")
	})
	if !f.Has(rule, next, 1) {
		return
	}
	f.Has(rule, store, 1)
	f.Dom(rule, next, store)    // the position is taken after the bytes were read to the end
	f.NoPath(rule, store, next) // and not overwritten by reading on
}

func runC10(c *eng.Ctx) {
	encodingTable(c, "R1", true)
	resumePosition(c, "R3", "tsdb/chunkenc:XORChunk.Appender")
	resumePosition(c, "R3", "tsdb/chunkenc:XOR2Chunk.Appender")
	// ---- R4 every sample handed out was decoded by this call ----
	isFloat := func(s string) bool { return s == "ValFloat" }
	// classic XOR: "value unchanged" means unchanged against it.val itself, so a path that leaves val alone is right;
	// XOR2 XORs against a separate baseline (stale markers do not move it), so every sample has to define val.
	decodeComplete(c, "R4", "tsdb/chunkenc:xorIterator", map[string][]string{"the timestamp": {"t"}, "the sample count": {"numRead"}}, isFloat)
	decodeComplete(c, "R4", "tsdb/chunkenc:xor2Iterator", map[string][]string{"the timestamp": {"t"}, "the value": {"val"}, "the sample count": {"numRead"}}, isFloat)
	// ---- R2 resuming an appender on existing bytes: writer state := reader state, role by role ----
	K := "tsdb/chunkenc:"
	c.ResumeState("R2", K+"XORChunk.Appender", K+"xorAppender", K+"xorIterator", map[string]string{
		"v": "val", // xorWrite's current value is what xorRead leaves in the iterator's val
	}, nil)
	c.ResumeState("R2", K+"XOR2Chunk.Appender", K+"xor2Appender", K+"xor2Iterator", map[string]string{
		"v": "baselineV", // the appender XORs new values against a.v; the iterator XORs against it.baselineV (stale markers do not move it)
	}, nil)
	// the role pairing of XOR2 is read off the code: the only reader field used as XOR base is baselineV, the only writer field is v
	for _, side := range [][3]string{{K + "xor2Appender", "a", "v"}, {K + "xor2Iterator", "it", "baselineV"}} {
		bases := map[string]bool{}
		for _, f := range c.MethodsOf(side[0]) {
			ast.Inspect(f.Body, func(n ast.Node) bool {
				call, ok := n.(*ast.CallExpr)
				if !ok || eng.ExprString(call.Fun) != "math.Float64bits" || len(call.Args) != 1 {
					return true
				}
				if se, ok := call.Args[0].(*ast.SelectorExpr); ok && eng.ExprString(se.X) == side[1] {
					bases[se.Sel.Name] = true
				}
				return true
			})
		}
		what := "the only field of " + eng.Short(side[0]) + " whose bits enter the XOR is " + side[2]
		if got := strings.Join(eng.SortedKeys(bases), ","); got == side[2] {
			c.Pass("R2", side[0], what, "")
		} else {
			c.Fail("R2", side[0], what, "", "fields passed to math.Float64bits: {"+got+"}")
		}
	}
}

func runC11(c *eng.Ctx) {
	encodingTable(c, "R1", false)
	// ---- R3 resuming an appender on existing bytes ----
	{
		K := "tsdb/chunkenc:"
		c.ResumeState("R3", K+"HistogramChunk.Appender", K+"HistogramAppender", K+"histogramIterator", nil, nil)
		c.ResumeState("R3", K+"HistogramSTChunk.Appender", K+"HistogramAppender", K+"histogramSTIterator", nil, nil)
		c.ResumeState("R3", K+"HistogramSTChunk.Appender", K+"stEncoder", K+"histogramSTIterator", nil, nil)
		c.ResumeState("R3", K+"FloatHistogramChunk.Appender", K+"FloatHistogramAppender", K+"floatHistogramIterator", nil, nil)
		c.ResumeState("R3", K+"FloatHistogramSTChunk.Appender", K+"FloatHistogramAppender", K+"floatHistogramSTIterator", nil, nil)
		c.ResumeState("R3", K+"FloatHistogramSTChunk.Appender", K+"stEncoder", K+"floatHistogramSTIterator", nil, nil)
		for _, t := range []string{"HistogramChunk", "HistogramSTChunk", "FloatHistogramChunk", "FloatHistogramSTChunk"} {
			resumePosition(c, "R3", K+t+".Appender")
		}
	}
	// ---- R4 delta decoding: a running sum is not carried from one bucket array into the next ----
	{
		n := 0
		for _, fs := range c.P.AllFuncs() {
			rel := strings.TrimPrefix(fs.Pkg.PkgPath, eng.ModPath+"/")
			if fs.Decl.Body == nil || rel != "tsdb/chunkenc" && rel != "model/histogram" {
				continue
			}
			seen := map[string]int{}
			for _, ps := range eng.PrefixSums(fs.Pkg.TypesInfo, fs.Decl.Body) {
				n++
				ok := true
				for _, r := range ps.ResetBefore {
					ok = ok && r
				}
				seen[ps.Var.Name()]++
				name := ps.Var.Name()
				if seen[name] > 1 {
					name = fmt.Sprintf("%s#%d", name, seen[name])
				}
				c.Check("R4", eng.FuncName(fs.Obj), fmt.Sprintf("the running sum %s, stored element by element, restarts before each further array it decodes (%d loop(s))", name, len(ps.Loops)), ok, c.P.Pos(ps.Var.Pos()),
					"the accumulator is advanced in two loops without being reset in between: the second array starts from the last total of the first")
			}
		}
		c.Check("R4", "tsdb/chunkenc, model/histogram", "running-sum decoders found (≥ 12)", n >= 12, "", fmt.Sprint(n))
	}
	// ---- R2 siblings ----
	c.SiblingsEqual("R2", "tsdb/chunkenc:expandIntSpansAndBuckets", "tsdb/chunkenc:expandFloatSpansAndBuckets", histRenames, []eng.SiblingDiff{
		{A: "aCount = aBuckets[aCountIdx]", B: "aCount = aBuckets[aCountIdx].value", Why: "float buckets are stored as xor values"},
		{A: "aCount += aBuckets[aCountIdx]", B: "aCount = aBuckets[aCountIdx].value", Why: "integer buckets are deltas, float buckets absolute"},
		{A: "bCount += bBuckets[bCountIdx]", B: "bCount = bBuckets[bCountIdx]", Why: "integer buckets are deltas, float buckets absolute"},
	})
	c.SiblingsEqual("R2", "tsdb/chunkenc:HistogramAppender.appendable", "tsdb/chunkenc:HistogramSTAppender.appendable", histRenames, nil)
	c.SiblingsEqual("R2", "tsdb/chunkenc:FloatHistogramAppender.appendable", "tsdb/chunkenc:FloatHistogramSTAppender.appendable", histRenames, nil)
	// recode: the chunk is rewritten sample by sample into the new layout; integer and float variants differ only in the bucket encoding
	insertDiffs := []eng.SiblingDiff{
		{A: "hOld.PositiveBuckets = insert(hOld.PositiveBuckets, positiveBuckets, positiveInserts, true)", B: "hOld.PositiveBuckets = insert(hOld.PositiveBuckets, positiveBuckets, positiveInserts, false)", Why: "integer buckets are deltas, float buckets absolute"},
		{A: "hOld.NegativeBuckets = insert(hOld.NegativeBuckets, negativeBuckets, negativeInserts, true)", B: "hOld.NegativeBuckets = insert(hOld.NegativeBuckets, negativeBuckets, negativeInserts, false)", Why: "integer buckets are deltas, float buckets absolute"},
	}
	recRenames := append([][2]string{{`\bfhOld\b`, "hOld"}}, histRenames...)
	c.SiblingsEqual("R2", "tsdb/chunkenc:HistogramAppender.recode", "tsdb/chunkenc:FloatHistogramAppender.recode", recRenames, insertDiffs)
	c.SiblingsEqual("R2", "tsdb/chunkenc:HistogramSTAppender.recodeST", "tsdb/chunkenc:FloatHistogramSTAppender.recodeST", recRenames, insertDiffs)
	c.SiblingsEqual("R2", "tsdb/chunkenc:HistogramSTAppender.appendHistogramST", "tsdb/chunkenc:FloatHistogramSTAppender.appendFloatHistogramST", histRenames, nil)
	c.SiblingsEqual("R2", "tsdb/chunkenc:HistogramAppender.appendableGauge", "tsdb/chunkenc:HistogramSTAppender.appendableGauge", histRenames, nil)
	c.SiblingsEqual("R2", "tsdb/chunkenc:HistogramSTAppender.appendableGauge", "tsdb/chunkenc:FloatHistogramSTAppender.appendableGauge", histRenames, []eng.SiblingDiff{
		{A: "if value.IsStaleNaN(a.sum) {", B: "if value.IsStaleNaN(a.sum.value) {", Why: "float appender keeps the sum as an xor value"},
	})
	c.SiblingsEqual("R2", "tsdb/chunkenc:HistogramAppender.appendableGauge", "tsdb/chunkenc:FloatHistogramAppender.appendableGauge", histRenames, []eng.SiblingDiff{
		{A: "if value.IsStaleNaN(a.sum) {", B: "if value.IsStaleNaN(a.sum.value) {", Why: "float appender keeps the sum as an xor value"},
	})
	c.SiblingsEqual("R2", "tsdb:memSeries.appendHistogram", "tsdb:memSeries.appendFloatHistogram", histRenames, []eng.SiblingDiff{
		{A: "s.lastHistogramValue = h", B: "", Why: "integer sibling keeps lastHistogramValue and clears lastFloatHistogramValue (order of the two stores differs after renaming)"},
		{A: "", B: "s.lastHistogramValue = h", Why: "float sibling keeps lastFloatHistogramValue and clears lastHistogramValue"},
	})
	// the two last-value fields are a complementary pair in both
	p := c.P
	for _, s := range []struct{ fn, keep, clear string }{
		{"tsdb:memSeries.appendHistogram", "lastHistogramValue", "lastFloatHistogramValue"},
		{"tsdb:memSeries.appendFloatHistogram", "lastFloatHistogramValue", "lastHistogramValue"},
	} {
		f := c.Fn(s.fn)
		f.Has("R2", p.StoreVal("tsdb:memSeries."+s.clear, "nil", eng.IsIdent("nil")), 1)
		f.Has("R2", p.Store("tsdb:memSeries."+s.keep), 1)
		f.Only("R2", p.Store("tsdb:memSeries."+s.clear), "clears the other type's last value", func(l eng.Loc) bool {
			as, ok := l.Node.(*ast.AssignStmt)
			return ok && eng.ExprString(as.Rhs[0]) == "nil"
		})
	}
}

// decodeComplete (C10.R4 / C11.R4): a sample-decoding Next() hands out a sample (returns a value type other than
// ValNone) only after this call has produced each of the iterator's output fields on the way: stored it directly, or
// called a method of the iterator that stores it (found by reading the methods, transitively).  outputs maps a
// description to the iterator fields that make it up; any of them counts.
func decodeComplete(c *eng.Ctx, rule, iterRef string, outputs map[string][]string, isSampleReturn func(string) bool) {
	p := c.P
	next := c.Fn(iterRef + ".Next")
	methods := c.MethodsOf(iterRef)
	for desc, fields := range outputs {
		// methods that (transitively) store one of the fields
		producers := map[string]bool{}
		for changed := true; changed; {
			changed = false
			for _, m := range methods {
				name := m.Decl.Name.Name
				if producers[name] || name == "Next" || name == "Reset" || name == "Seek" {
					continue
				}
				hit := false
				for _, fld := range fields {
					if len(m.Find(p.Store(iterRef+"."+fld))) > 0 {
						hit = true
					}
				}
				ast.Inspect(m.Body, func(n ast.Node) bool {
					if call, ok := n.(*ast.CallExpr); ok {
						if se, ok := call.Fun.(*ast.SelectorExpr); ok && producers[se.Sel.Name] {
							if callee := m.Callee(call); callee != nil && strings.HasSuffix(eng.FuncName(callee), eng.Short(iterRef)+"."+se.Sel.Name) {
								hit = true
							}
						}
					}
					return true
				})
				if hit {
					producers[name] = true
					changed = true
				}
			}
		}
		var ms []eng.Matcher
		for _, fld := range fields {
			ms = append(ms, p.Store(iterRef+"."+fld))
		}
		var pn []string
		for n := range producers {
			pn = append(pn, n)
			ms = append(ms, p.Call(iterRef+"."+n))
		}
		sort.Strings(pn)
		via := eng.Or(ms...)
		via.Desc = "a definition of " + desc + " (store to " + strings.Join(fields, "/") + " or call of " + strings.Join(pn, "/") + ")"
		ret := eng.Return("a sample", func(g *eng.Graph, rs *ast.ReturnStmt) bool {
			return len(rs.Results) == 1 && isSampleReturn(eng.ExprString(rs.Results[0]))
		})
		next.MustPassBefore(rule, ret, via)
	}
}
