package main

import (
	"fmt"
	"go/ast"
	"go/types"
	"regexp"
	"sort"
	"strings"

	"promverif/eng"
)

// encodingTable extracts, for each dispatch function over chunkenc.Encoding, the concrete chunk
// type each case produces, and checks that all tables agree with each type's own Encoding() method.
func encodingTable(c *eng.Ctx, rule string, floatOnly bool) {
	p := c.P
	E := "tsdb/chunkenc:Encoding"
	none := map[string]string{"EncNone": "not a chunk encoding"}
	// ground truth: constant returned by (*T).Encoding()
	truth := map[string]string{} // const → type
	pk := p.Pkg("tsdb/chunkenc")
	sc := pk.Types.Scope()
	for _, n := range sc.Names() {
		tn, ok := sc.Lookup(n).(*types.TypeName)
		if !ok || !strings.HasSuffix(n, "Chunk") {
			continue
		}
		if f := p.TryFunc("tsdb/chunkenc:" + n + ".Encoding"); f != nil {
			if fs := p.SrcOf(f); fs != nil && fs.Decl.Body != nil && len(fs.Decl.Body.List) == 1 {
				if rs, ok := fs.Decl.Body.List[0].(*ast.ReturnStmt); ok && len(rs.Results) == 1 {
					truth[eng.ExprString(rs.Results[0])] = tn.Name()
				}
			}
		}
	}
	consts := p.EnumConsts(E)
	var names []string
	for _, k := range consts {
		if k.Name() != "EncNone" {
			names = append(names, k.Name())
		}
	}
	sort.Strings(names)
	var missing []string
	for _, n := range names {
		if truth[n] == "" {
			missing = append(missing, n)
		}
	}
	c.Check(rule, "tsdb/chunkenc:Encoding", "every encoding constant is the Encoding() of exactly one chunk type", len(missing) == 0 && len(truth) == len(names), "", fmt.Sprintf("%v; without a chunk type: %v", truth, missing))
	tyRe := regexp.MustCompile(`\*?&?(\w+Chunk)\b`)
	ctorRe := regexp.MustCompile(`New(\w+Chunk)\(`)
	for _, fn := range []string{"tsdb/chunkenc:pool.Get", "tsdb/chunkenc:pool.Put", "tsdb/chunkenc:FromData", "tsdb/chunkenc:NewEmptyChunk"} {
		f := c.Fn(fn)
		f.SwitchCovers(rule, E, 1, none)
		for _, sw := range f.EnumSwitches(E) {
			var bad []string
			for k, cl := range sw.Clauses {
				t := nodeText(&ast.BlockStmt{List: cl.Body})
				got := ""
				if m := ctorRe.FindStringSubmatch(t); m != nil {
					got = m[1]
				} else if m := tyRe.FindStringSubmatch(t); m != nil {
					got = m[1]
				}
				if got != truth[k] {
					bad = append(bad, k+"→"+got+" (its Encoding() belongs to "+truth[k]+")")
				}
			}
			sort.Strings(bad)
			c.Check(rule, f.Where(), "each case produces / accepts the chunk type whose Encoding() is the case constant", len(bad) == 0, p.Pos(sw.Stmt.Pos()), strings.Join(bad, "; "))
		}
	}
	// IsValidEncoding accepts exactly the constants
	iv := c.Fn("tsdb/chunkenc:IsValidEncoding")
	acc := map[string]bool{}
	ast.Inspect(iv.Body, func(x ast.Node) bool {
		if be, ok := x.(*ast.BinaryExpr); ok && be.Op.String() == "==" {
			acc[eng.ExprString(be.Y)] = true
		}
		return true
	})
	a := eng.SortedKeys(acc)
	c.Check(rule, iv.Where(), "accepts exactly the chunk encodings", strings.Join(a, ",") == strings.Join(names, ","), p.Pos(iv.Body.Pos()), fmt.Sprintf("accepts %v, encodings %v", a, names))
	c.Fn("tsdb/chunkenc:Encoding.String").SwitchCovers(rule, E, 1, nil)
	// value type → encoding
	ce := c.Fn("tsdb/chunkenc:ValueType.ChunkEncoding")
	ce.SwitchCovers(rule, "tsdb/chunkenc:ValueType", 1, map[string]string{"ValNone": "no sample"})
	ce.Only(rule, eng.Return("", nil), "returns an encoding constant", func(l eng.Loc) bool {
		t := eng.ReturnText(l)
		return strings.HasPrefix(t, "Enc")
	})
	_ = floatOnly
}

func init() {
	register(&Property{
		ID:             "C10",
		Title:          "Float chunks return exactly what was appended",
		Technique:      "cross-table agreement over go/types constants: every chunkenc.Encoding is dispatched to the same concrete chunk type by Pool.Get, Pool.Put, FromData and NewEmptyChunk, that type's Encoding() returns the constant, IsValidEncoding accepts exactly the constants; structural sibling rule between the XOR and XOR2 chunk wrappers' shared shape is NOT attempted (different bit formats); field-transfer map (E11) of Appender(): writer state resumed from the reader's state field by field, role pairing of the XOR base derived from the math.Float64bits operands",
		DesignRef:      "DESIGN.md §5 C10/C11",
		Level:          "Decides only the dispatch layer: bytes written under an encoding are reopened as the chunk type that wrote them (Get/FromData/NewEmptyChunk/Put agree with each type's Encoding()), every encoding is accepted by IsValidEncoding and named, and a value type maps to an existing encoding; and that an appender re-opened on existing bytes takes every piece of its codec state from the reader field that plays the same role (XOR base, last timestamp and delta, leading/trailing window, start-timestamp state). The bit-level round trip and Seek are value-level and not decided.",
		Note:           "Trusted: go/packages, go/types.",
		Covers:         "tsdb/chunkenc: pool.Get, pool.Put, FromData, NewEmptyChunk, IsValidEncoding, Encoding.String, ValueType.ChunkEncoding, (*T).Encoding() of the six chunk types.",
		NotCover:       "bit-exact round trip of timestamps, start timestamps and values; Seek; chunk capacity.",
		Run:            runC10,
		MinObligations: 14,
	})
	register(&Property{
		ID:        "C11",
		Title:     "Native histograms are stored and read back faithfully",
		Technique: "cross-table agreement over chunkenc.Encoding (as C10); structural sibling equality (engine E6): the integer and float variants, and the plain and start-timestamp variants, of the histogram append decision have the same body after renaming up to declared differences; go/cfg sibling obligations for memSeries.appendHistogram / appendFloatHistogram",
		DesignRef: "DESIGN.md §5 C10/C11",
		Level: "Decides the dispatch layer (as C10) and that the near-copies implementing the same step stay in step: expandIntSpansAndBuckets / expandFloatSpansAndBuckets (bucket-by-bucket reset detection), the appendable decision of the plain and the start-timestamp appenders (integer and float), the gauge variants, and the head's appendHistogram / appendFloatHistogram, " +
			"each pair equal after renaming except for the declared lines (delta vs. absolute bucket encoding, which last-value field is kept). A re-check dropped or an update moved in one sibling only is reported. The four histogram Appender() functions resume every codec-state field of the appender (and of the start-timestamp encoder) from the iterator field of the same name.",
		Note:           "Trusted: go/packages, go/types; engine checker/eng/siblings.go; difference tables in checker/c10.go.",
		Covers:         "dispatch tables as C10; expand{Int,Float}SpansAndBuckets; {Histogram,FloatHistogram}{,ST}Appender.appendable; appendableGauge; memSeries.appendHistogram/appendFloatHistogram.",
		NotCover:       "that the decision itself is right (value-level): bucket arithmetic, recoding, schema changes; reading back through iterators.",
		Run:            runC11,
		MinObligations: 18,
	})
}

var histRenames = [][2]string{{"FloatHistogram", "Histogram"}, {"Float", "Int"}, {"float64", "int64"}, {`\bfh\b`, "h"}, {"xorValue", "int64"}}

// sibRenames maps the float-histogram sibling's vocabulary onto the integer sibling's.
var sibRenames = [][2]string{{"FloatHistograms", "Histograms"}, {"floatHistograms", "histograms"}, {"floatHistogramSeries", "histogramSeries"}, {"FloatHistogram", "Histogram"},
	{"floatHistogram", "histogram"}, {`\.FH\b`, ".H"}, {`\bFH:`, "H:"}, {"float native", "native"}, {"customBucketsHistograms", "customBucketHistograms"}, {"Float", "Int"}, {"float64", "int64"}, {`\bfh\b`, "h"}}

func runC10(c *eng.Ctx) {
	encodingTable(c, "R1", true)
	// ---- R2 resuming an appender on existing bytes: writer state := reader state, role by role ----
	K := "tsdb/chunkenc:"
	c.ResumeState("R2", K+"XORChunk.Appender", K+"xorAppender", K+"xorIterator", map[string]string{
		"v": "val", // xorWrite's current value is what xorRead leaves in the iterator's val
	}, nil)
	c.ResumeState("R2", K+"XOR2Chunk.Appender", K+"xor2Appender", K+"xor2Iterator", map[string]string{
		"v": "baselineV", // the appender XORs new values against a.v; the iterator XORs against it.baselineV (stale markers do not move it)
	}, nil)
	// the role pairing of XOR2 is read off the code: the only reader field used as XOR base is baselineV, the only writer field is v
	for _, side := range [][3]string{{K + "xor2Appender", "a", "v"}, {K + "xor2Iterator", "it", "baselineV"}} {
		bases := map[string]bool{}
		for _, f := range c.MethodsOf(side[0]) {
			ast.Inspect(f.Body, func(n ast.Node) bool {
				call, ok := n.(*ast.CallExpr)
				if !ok || eng.ExprString(call.Fun) != "math.Float64bits" || len(call.Args) != 1 {
					return true
				}
				if se, ok := call.Args[0].(*ast.SelectorExpr); ok && eng.ExprString(se.X) == side[1] {
					bases[se.Sel.Name] = true
				}
				return true
			})
		}
		what := "the only field of " + eng.Short(side[0]) + " whose bits enter the XOR is " + side[2]
		if got := strings.Join(eng.SortedKeys(bases), ","); got == side[2] {
			c.Pass("R2", side[0], what, "")
		} else {
			c.Fail("R2", side[0], what, "", "fields passed to math.Float64bits: {"+got+"}")
		}
	}
}

func runC11(c *eng.Ctx) {
	encodingTable(c, "R1", false)
	// ---- R3 resuming an appender on existing bytes ----
	{
		K := "tsdb/chunkenc:"
		c.ResumeState("R3", K+"HistogramChunk.Appender", K+"HistogramAppender", K+"histogramIterator", nil, nil)
		c.ResumeState("R3", K+"HistogramSTChunk.Appender", K+"HistogramAppender", K+"histogramSTIterator", nil, nil)
		c.ResumeState("R3", K+"HistogramSTChunk.Appender", K+"stEncoder", K+"histogramSTIterator", nil, nil)
		c.ResumeState("R3", K+"FloatHistogramChunk.Appender", K+"FloatHistogramAppender", K+"floatHistogramIterator", nil, nil)
		c.ResumeState("R3", K+"FloatHistogramSTChunk.Appender", K+"FloatHistogramAppender", K+"floatHistogramSTIterator", nil, nil)
		c.ResumeState("R3", K+"FloatHistogramSTChunk.Appender", K+"stEncoder", K+"floatHistogramSTIterator", nil, nil)
	}
	// ---- R2 siblings ----
	c.SiblingsEqual("R2", "tsdb/chunkenc:expandIntSpansAndBuckets", "tsdb/chunkenc:expandFloatSpansAndBuckets", histRenames, []eng.SiblingDiff{
		{A: "aCount = aBuckets[aCountIdx]", B: "aCount = aBuckets[aCountIdx].value", Why: "float buckets are stored as xor values"},
		{A: "aCount += aBuckets[aCountIdx]", B: "aCount = aBuckets[aCountIdx].value", Why: "integer buckets are deltas, float buckets absolute"},
		{A: "bCount += bBuckets[bCountIdx]", B: "bCount = bBuckets[bCountIdx]", Why: "integer buckets are deltas, float buckets absolute"},
	})
	c.SiblingsEqual("R2", "tsdb/chunkenc:HistogramAppender.appendable", "tsdb/chunkenc:HistogramSTAppender.appendable", histRenames, nil)
	c.SiblingsEqual("R2", "tsdb/chunkenc:FloatHistogramAppender.appendable", "tsdb/chunkenc:FloatHistogramSTAppender.appendable", histRenames, nil)
	// recode: the chunk is rewritten sample by sample into the new layout; integer and float variants differ only in the bucket encoding
	insertDiffs := []eng.SiblingDiff{
		{A: "hOld.PositiveBuckets = insert(hOld.PositiveBuckets, positiveBuckets, positiveInserts, true)", B: "hOld.PositiveBuckets = insert(hOld.PositiveBuckets, positiveBuckets, positiveInserts, false)", Why: "integer buckets are deltas, float buckets absolute"},
		{A: "hOld.NegativeBuckets = insert(hOld.NegativeBuckets, negativeBuckets, negativeInserts, true)", B: "hOld.NegativeBuckets = insert(hOld.NegativeBuckets, negativeBuckets, negativeInserts, false)", Why: "integer buckets are deltas, float buckets absolute"},
	}
	recRenames := append([][2]string{{`\bfhOld\b`, "hOld"}}, histRenames...)
	c.SiblingsEqual("R2", "tsdb/chunkenc:HistogramAppender.recode", "tsdb/chunkenc:FloatHistogramAppender.recode", recRenames, insertDiffs)
	c.SiblingsEqual("R2", "tsdb/chunkenc:HistogramSTAppender.recodeST", "tsdb/chunkenc:FloatHistogramSTAppender.recodeST", recRenames, insertDiffs)
	c.SiblingsEqual("R2", "tsdb/chunkenc:HistogramSTAppender.appendHistogramST", "tsdb/chunkenc:FloatHistogramSTAppender.appendFloatHistogramST", histRenames, nil)
	c.SiblingsEqual("R2", "tsdb/chunkenc:HistogramAppender.appendableGauge", "tsdb/chunkenc:HistogramSTAppender.appendableGauge", histRenames, nil)
	c.SiblingsEqual("R2", "tsdb/chunkenc:HistogramSTAppender.appendableGauge", "tsdb/chunkenc:FloatHistogramSTAppender.appendableGauge", histRenames, []eng.SiblingDiff{
		{A: "if value.IsStaleNaN(a.sum) {", B: "if value.IsStaleNaN(a.sum.value) {", Why: "float appender keeps the sum as an xor value"},
	})
	c.SiblingsEqual("R2", "tsdb/chunkenc:HistogramAppender.appendableGauge", "tsdb/chunkenc:FloatHistogramAppender.appendableGauge", histRenames, []eng.SiblingDiff{
		{A: "if value.IsStaleNaN(a.sum) {", B: "if value.IsStaleNaN(a.sum.value) {", Why: "float appender keeps the sum as an xor value"},
	})
	c.SiblingsEqual("R2", "tsdb:memSeries.appendHistogram", "tsdb:memSeries.appendFloatHistogram", histRenames, []eng.SiblingDiff{
		{A: "s.lastHistogramValue = h", B: "", Why: "integer sibling keeps lastHistogramValue and clears lastFloatHistogramValue (order of the two stores differs after renaming)"},
		{A: "", B: "s.lastHistogramValue = h", Why: "float sibling keeps lastFloatHistogramValue and clears lastHistogramValue"},
	})
	// the two last-value fields are a complementary pair in both
	p := c.P
	for _, s := range []struct{ fn, keep, clear string }{
		{"tsdb:memSeries.appendHistogram", "lastHistogramValue", "lastFloatHistogramValue"},
		{"tsdb:memSeries.appendFloatHistogram", "lastFloatHistogramValue", "lastHistogramValue"},
	} {
		f := c.Fn(s.fn)
		f.Has("R2", p.StoreVal("tsdb:memSeries."+s.clear, "nil", eng.IsIdent("nil")), 1)
		f.Has("R2", p.Store("tsdb:memSeries."+s.keep), 1)
		f.Only("R2", p.Store("tsdb:memSeries."+s.clear), "clears the other type's last value", func(l eng.Loc) bool {
			as, ok := l.Node.(*ast.AssignStmt)
			return ok && eng.ExprString(as.Rhs[0]) == "nil"
		})
	}
}
