package main

import (
	"go/ast"
	"sort"
	"strings"

	"promverif/eng"
)

func init() {
	register(&Property{
		ID:        "C48",
		Title:     "Agent mode: samples follow their series record and survive truncation",
		Technique: "go/cfg order and error-gate rules for the agent appender (log before clear, series before samples, rollback still logs series) and for truncation (checkpoint before segment removal); def-use rule that WAL replay tells loadWAL the index of the very segment it reads; sibling obligation over the record arms of loadWAL that remap a duplicate ref (each extends the kept-until segment); every-path rule that the three queriers refuse",
		DesignRef: "DESIGN.md §5 C48",
		Level: "Decides that the agent's Querier, ChunkQuerier and ExemplarQuerier return ErrUnsupported on every path, that an appender's pending data is cleared only after it was logged without error (on rollback: after its series records were logged), that series records are written before any record that refers to them, that float and histogram appends are refused when not newer than the series' last timestamp minus the window before anything is queued, " +
			"that truncation removes WAL segments only after a successful checkpoint and forgets deleted refs only after that, that the checkpoint keeps a deleted or duplicate series record while a later segment may still refer to it, that replay hands loadWAL the index of the segment it is reading, and that every arm of loadWAL that remaps a duplicate ref records that segment for it.",
		Note:           "Trusted: go/packages, go/types, go/cfg; rule tables in checker/c48.go (truncation and series-first rules are shared with C03.R4 / C15.R3 / C15.R5).",
		Covers:         "agent.DB.Querier/ChunkQuerier/ExemplarQuerier, appenderBase.commit/rollback/log/logSeries, appender.Append/AppendHistogram, DB.truncate, keepSeriesInWALCheckpointFn, DB.replayWAL, DB.loadWAL.",
		NotCover:       "the timestamp comparison itself, contents of the WAL, which segments a truncation covers (runtime values).",
		Run:            runC48,
		MinObligations: 25,
	})
}

func runC48(c *eng.Ctx) {
	p := c.P
	A := "tsdb/agent:"
	// ---- R1 no queries ----
	for _, m := range []string{"Querier", "ChunkQuerier", "ExemplarQuerier"} {
		f := c.Fn(A + "DB." + m)
		f.Only("R1", eng.Return("", nil), "returns ErrUnsupported", func(l eng.Loc) bool { return strings.HasSuffix(eng.ReturnText(l), ", ErrUnsupported") })
	}
	// ---- R2 appender ----
	cm := c.Fn(A + "appenderBase.commit")
	cm.Gate("R2", p.Call(A+"appenderBase.log"), p.Call(A+"appenderBase.clearData"))
	cm.ErrPropagates("R2", p.Call(A+"appenderBase.log"), 1)
	rb := c.Fn(A + "appenderBase.rollback")
	rb.Gate("R2", p.Call(A+"appenderBase.logSeries"), p.Call(A+"appenderBase.clearData"))
	rb.ErrPropagates("R2", p.Call(A+"appenderBase.logSeries"), 1)
	c.CallersSubset("R2", A+"appenderBase.clearData", 2, A+"appenderBase.commit", A+"appenderBase.rollback")
	lg := c.Fn(A + "appenderBase.log")
	walLog := p.MethodOn(A+"DB.wal", "Log")
	encSeries := p.Call("tsdb/record:Encoder.Series")
	encOther := p.Call("tsdb/record:Encoder.Samples", "tsdb/record:Encoder.HistogramSamples", "tsdb/record:Encoder.FloatHistogramSamples",
		"tsdb/record:Encoder.CustomBucketsHistogramSamples", "tsdb/record:Encoder.CustomBucketsFloatHistogramSamples", "tsdb/record:Encoder.Exemplars")
	lg.Given("len(a.pendingSeries) > 0", true).Chain("R2", encSeries, walLog, encOther)
	lg.NoPath("R2", encOther, encSeries)
	lg.ErrPropagates("R2", walLog, 4)
	for _, fn := range []struct{ name, store string }{{"appender.Append", "pendingSamples"}, {"appender.AppendHistogram", "pendingHistograms"}} {
		f := c.Fn(A + fn.name)
		mv := p.Call(A + "appenderBase.minValidTime")
		f.Has("R2", mv, 1)
		f.Dom("R2", mv, eng.Or(p.Store(A+"appenderBase.pendingSamples"), p.Store(A+"appenderBase.pendingHistograms"), p.Store(A+"appenderBase.pendingFloatHistograms")))
		f.Only("R2", mv, "is compared with the sample's timestamp, relative to the series' last written timestamp", func(l eng.Loc) bool {
			a := eng.CallArgsText(l)
			return len(a) == 1 && a[0] == "series.lastTs"
		})
		f.AstEvery("R2", "out-of-order test", func(n ast.Node) bool {
			is, ok := n.(*ast.IfStmt)
			return ok && strings.Contains(eng.ExprString(is.Cond), "a.minValidTime(series.lastTs)")
		}, "rejects with ErrOutOfOrderSample", func(n ast.Node) bool {
			return strings.Contains(nodeText(n.(*ast.IfStmt).Body), "storage.ErrOutOfOrderSample")
		}, 1)
	}
	// ---- R3 truncation ----
	tr := c.Fn(A + "DB.truncate")
	cp := eng.Or(p.Call(A+"Checkpoint"), p.Call("tsdb/wlog:Checkpoint"))
	tr.Gate("R3", cp, p.MethodOn(A+"DB.wal", "Truncate"))
	tr.Gate("R3", cp, p.DeleteElem(A+"DB.deleted"))
	tr.Dom("R3", p.Call(A+"DB.gc"), cp)
	k := c.Fn(A+"DB.keepSeriesInWALCheckpointFn").InnerClosure("keep", eng.CallNamed("GetByID"))
	k.Has("R3", eng.CallNamed("GetByID"), 1)
	k.Has("R3", p.FieldUse(A+"DB.deleted"), 1)
	k.Only("R3", eng.Return("", nil), "keeps existing series, and deleted ones while a later segment may refer to them", func(l eng.Loc) bool {
		t := eng.ReturnText(l)
		return t == "true" || t == "ok && meta.lastSegment > last"
	})
	// ---- R4 replay ----
	rp := c.Fn(A + "DB.replayWAL")
	load := p.Call(A + "DB.loadWAL")
	rp.Has("R4", load, 2)
	rp.AstEvery("R4", "segment replay loop", func(n ast.Node) bool {
		fs, ok := n.(*ast.ForStmt)
		return ok && rp.Contains(fs.Body, load)
	}, "opens segment i and tells loadWAL that it reads segment i, for every i from the checkpoint to the last segment", func(n ast.Node) bool {
		fs := n.(*ast.ForStmt)
		as, ok := fs.Init.(*ast.AssignStmt)
		if !ok || len(as.Lhs) != 1 {
			return false
		}
		iv := eng.ExprString(as.Lhs[0])
		if eng.ExprString(as.Rhs[0]) != "startFrom" || fs.Cond == nil || eng.ExprString(fs.Cond) != iv+" <= last" {
			return false
		}
		body := nodeText(fs.Body)
		return strings.Contains(body, "wlog.SegmentName(db.wal.Dir(), "+iv+")") && strings.Contains(body, "db.loadWAL(wlog.NewReader(sr), duplicateRefToValidRef, "+iv+")")
	}, 1)
	rp.AllPaths("R4", load, eng.CondTest("err != nil"), eng.AnyExit) // the replay error is tested on every way on
	rp.Only("R4", load, "shares one duplicate-ref table across checkpoint and segments", func(l eng.Loc) bool {
		a := eng.CallArgsText(l)
		return len(a) == 3 && a[1] == "duplicateRefToValidRef"
	})
	lw := c.Fn(A + "DB.loadWAL")
	nRemap := 0
	ast.Inspect(lw.Body, func(x ast.Node) bool {
		is, ok := x.(*ast.IfStmt)
		if !ok || is.Init == nil || !strings.Contains(nodeText(is.Init), "duplicateRefToValidRef[entry.Ref]") {
			return true
		}
		nRemap++
		t := nodeText(is.Body)
		ok2 := strings.Contains(t, "meta.lastSegment <= currentSegmentOrCheckpoint") && strings.Contains(t, "meta.lastSegment = currentSegmentOrCheckpoint") && strings.Contains(t, "db.deleted[entry.Ref] = meta")
		c.Check("R4", lw.Where(), "arm remapping a duplicate ref (at "+p.Pos(is.Pos())+") records the segment being read for that ref", ok2, p.Pos(is.Pos()),
			"the arm remaps entry.Ref to the surviving series without extending db.deleted[entry.Ref].lastSegment: a later checkpoint may drop the duplicate's series record while samples still refer to it")
		return true
	})
	c.Check("R4", lw.Where(), "arms remapping duplicate refs (samples, histograms, float histograms: ≥3)", nRemap >= 3, p.Pos(lw.Body.Pos()), "")
	runC48Visibility(c)
}

// runC48Visibility decides three structural necessary conditions of "every accepted sample follows a series
// record of its ref and survives checkpoints" that involve more than one appender or the checkpoint writer.
func runC48Visibility(c *eng.Ctx) {
	p := c.P
	A := "tsdb/agent:"
	// ---- R5: a series other appenders can find has its record in the WAL ----
	// A lookup in getOrCreate (GetByID, GetByHash, lost SetUnlessAlreadySet race) returns the series without
	// queueing a series record, so the record must be in the WAL by the time the series can be found.
	gc := c.Fn(A + "appenderBase.getOrCreate")
	pubs := gc.Find(p.MethodOn(A+"DB.series", "SetUnlessAlreadySet"))
	logs := gc.Find(p.MethodOn(A+"DB.wal", "Log"))
	c.Check("R5", gc.Where(), "publishes new series through stripeSeries.SetUnlessAlreadySet (≥1 site)", len(pubs) >= 1, p.Pos(gc.Body.Pos()), "")
	for _, pub := range pubs {
		ok := false
		for _, l := range logs {
			if gc.Graph.Dom(l, pub) {
				ok = true
			}
		}
		c.Check("R5", gc.Where(), "the record of a new series is logged before the series is published to other appenders (their lookups queue no series record)", ok, gc.At(pub),
			"the series is inserted into db.series here while its record waits in this appender's pendingSeries until Commit/Rollback; another appender that finds it commits samples for the ref first")
	}
	// ---- R6: garbage collection knows about uncommitted appends ----
	ms := p.Named(A + "memSeries")
	held := eng.Or(p.Store(A+"appenderBase.sampleSeries"), p.Store(A+"appenderBase.histogramSeries"), p.Store(A+"appenderBase.floatHistogramSeries"))
	holders := map[string]bool{}
	for _, o := range p.FindAll(held) {
		if !strings.HasSuffix(o.In, "clearData") {
			holders[o.In] = true
		}
	}
	c.Check("R6", "tsdb/agent", "functions that keep a *memSeries for a pending sample until Commit (≥3)", len(holders) >= 3, "", "")
	gcf := c.Fn(A + "stripeSeries.GC")
	chk := gcf.InnerClosure("check", eng.CallNamed("delete"))
	stores := map[string]map[string]bool{} // memSeries field read by the staleness test -> functions storing it
	for _, f := range eng.StructFields(ms) {
		if len(chk.Find(p.FieldUse(A+"memSeries."+f))) == 0 {
			continue
		}
		stores[f] = map[string]bool{}
		for _, o := range p.FindAll(p.Store(A + "memSeries." + f)) {
			stores[f][o.In] = true
		}
	}
	var unmarked []string
	for h := range holders {
		ok := false
		for _, in := range stores {
			ok = ok || in[h]
		}
		if !ok {
			unmarked = append(unmarked, h)
		}
	}
	sort.Strings(unmarked)
	c.Check("R6", gcf.Where(), "the staleness test reads a memSeries field that every append sets while its sample is uncommitted", len(unmarked) == 0, p.Pos(chk.Body.Pos()),
		"these appends keep the *memSeries in the appender and write no memSeries field before Commit (lastTs is updated after logging): "+strings.Join(unmarked, ", ")+"; GC drops a series with a pending sample, the sample is then logged for a ref whose series record later checkpoints discard")
	// ---- R7: every checkpoint writer is told the truncation time ----
	tr := c.Fn(A + "DB.truncate")
	for _, l := range tr.Find(eng.Or(p.Call(A+"Checkpoint"), p.Call("tsdb/wlog:Checkpoint"))) {
		call := l.Node.(*ast.CallExpr)
		callee := eng.FuncName(tr.Callee(call))
		has := false
		for _, a := range call.Args {
			ast.Inspect(a, func(n ast.Node) bool {
				if id, ok := n.(*ast.Ident); ok && id.Name == "mint" {
					if tr.Info.Uses[id] != nil {
						has = true
					}
				}
				return true
			})
		}
		c.Check("R7", tr.Where(), "checkpoint writer "+callee+" is given the truncation time mint (needed to retain the samples at or after it)", has, tr.At(l),
			"this writer sees neither mint nor the old segments: it writes one synthetic sample (last timestamp, value 0) per live series instead of the accepted samples ≥ mint")
	}
}
