package main

import (
	"fmt"
	"go/ast"
	"strings"

	"promverif/eng"
)

// C24.R5 (added for seed C24-c): Reader.Postings steps through the on-disk postings offset table and the requested
// values in one pass, which is only right if the values are walked in the table's order.  The cursor into the values
// (the variable used as index and compared with a len) therefore indexes exactly one slice — in the loop and in the
// table-walking callback alike — and that slice is sorted, by a slices.Sort call at the top level of the function,
// before its first use through the cursor.
func runC24Cursor(c *eng.Ctx) {
	p := c.P
	f := c.Fn("tsdb/index:Reader.Postings")
	// the cursor: an int variable that indexes a slice and is incremented
	incs := map[string]int{}
	ast.Inspect(f.Body, func(x ast.Node) bool {
		if id, ok := x.(*ast.IncDecStmt); ok && id.Tok.String() == "++" {
			if n, ok := id.X.(*ast.Ident); ok {
				incs[n.Name]++
			}
		}
		return true
	})
	slicesBy := map[string]map[string]ast.Node{} // cursor -> slice text -> first use
	note := func(cur, sl string, n ast.Node) {
		if slicesBy[cur] == nil {
			slicesBy[cur] = map[string]ast.Node{}
		}
		if old, ok := slicesBy[cur][sl]; !ok || n.Pos() < old.Pos() {
			slicesBy[cur][sl] = n
		}
	}
	ast.Inspect(f.Body, func(x ast.Node) bool {
		switch e := x.(type) {
		case *ast.IndexExpr:
			if id, ok := e.Index.(*ast.Ident); ok && incs[id.Name] > 0 {
				if tv, ok := f.Info.Types[e.X]; ok && strings.HasPrefix(tv.Type.Underlying().String(), "[]string") {
					note(id.Name, nodeText(e.X), e)
				}
			}
		case *ast.BinaryExpr:
			for _, pr := range [][2]ast.Expr{{e.X, e.Y}, {e.Y, e.X}} {
				id, ok := pr[0].(*ast.Ident)
				call, ok2 := pr[1].(*ast.CallExpr)
				if ok && ok2 && incs[id.Name] > 0 && nodeText(call.Fun) == "len" && len(call.Args) == 1 {
					if tv, ok := f.Info.Types[call.Args[0]]; ok && strings.HasPrefix(tv.Type.Underlying().String(), "[]string") {
						note(id.Name, nodeText(call.Args[0]), e)
					}
				}
			}
		}
		return true
	})
	cursors := 0
	for cur, sl := range slicesBy {
		cursors++
		var names []string
		for s := range sl {
			names = append(names, s)
		}
		names = eng.SortedKeys(map[string]bool(func() map[string]bool {
			m := map[string]bool{}
			for _, n := range names {
				m[n] = true
			}
			return m
		}()))
		one := len(names) == 1
		pos := p.Pos(f.Body.Pos())
		if len(names) > 0 {
			pos = p.Pos(sl[names[len(names)-1]].Pos())
		}
		c.Check("R5", f.Where(), "the cursor "+cur+" into the requested values indexes one slice only", one, pos,
			cur+" indexes "+strings.Join(names, " and ")+" — the table is walked in the order of one slice and the values are read from another: values are skipped and their postings dropped without an error")
		if !one {
			continue
		}
		// sorted at the top level before the first use
		var sortPos ast.Node
		for _, st := range f.Body.List {
			if es, ok := st.(*ast.ExprStmt); ok {
				if call, ok := es.X.(*ast.CallExpr); ok && (nodeText(call.Fun) == "slices.Sort" || nodeText(call.Fun) == "sort.Strings") && len(call.Args) == 1 && nodeText(call.Args[0]) == names[0] {
					sortPos = st
				}
			}
		}
		first := sl[names[0]]
		c.Check("R5", f.Where(), "the slice the cursor walks ("+names[0]+") is sorted, unconditionally, before its first use through the cursor", sortPos != nil && sortPos.Pos() < first.Pos(), p.Pos(first.Pos()), "")
		// and nothing assigns to the slice or its elements afterwards
		writes := 0
		ast.Inspect(f.Body, func(x ast.Node) bool {
			if as, ok := x.(*ast.AssignStmt); ok && sortPos != nil && as.Pos() > sortPos.Pos() {
				for _, l := range as.Lhs {
					t := nodeText(l)
					if t == names[0] || strings.HasPrefix(t, names[0]+"[") {
						writes++
					}
				}
			}
			return true
		})
		c.Check("R5", f.Where(), "the sorted slice is not written after the sort", writes == 0, p.Pos(f.Body.Pos()), fmt.Sprint(writes))
	}
	c.Check("R5", f.Where(), "the cursor into the requested values found", cursors == 1, p.Pos(f.Body.Pos()), fmt.Sprint(cursors))
}
