package main

import (
	"go/ast"
	"regexp"
	"strings"

	"promverif/eng"
)

func init() {
	register(&Property{
		ID:        "C32",
		Title:     "Histogram query functions agree with the histograms they describe",
		Technique: "accessor rules for histogram_count/sum/avg; real linear normal form of the domain tests of the quantile and fraction functions; symmetry rule inside HistogramFraction (the statements handling the lower bound equal those handling the upper bound after renaming); same-condition pairing in HistogramQuantile (iterator direction and rank formula are chosen by one and the same test); go/cfg rules for the order of the steps in BucketQuantile",
		DesignRef: "DESIGN.md §5 C32",
		Level: "Decides only the frame around the interpolation: histogram_count, histogram_sum and histogram_avg return h.Count, h.Sum and h.Sum / h.Count of histogram samples only; quantiles below 0 / above 1 / NaN and empty histograms give −Inf / +Inf / NaN before anything else; the direction of the bucket walk and the rank it looks for are chosen by the same test in both places; the fraction function treats its lower and its upper bound by the same statements, gives 0 for lower ≥ upper and NaN for an empty histogram or NaN bounds, clamps both ranks to the count and returns (upperRank − lowerRank) / h.Count; " +
			"the classic quantile forces monotonic buckets before it searches the rank.",
		Note:           "Trusted: go/packages, go/types, go/cfg; rule tables in checker/c32.go.",
		Covers:         "promql: funcHistogramCount, funcHistogramSum, funcHistogramAvg, simpleHistogramFunc, HistogramQuantile, HistogramFraction, BucketQuantile.",
		NotCover:       "the interpolation inside a bucket, monotonicity of the results in q or in the interval (value-level), ensureMonotonicAndIgnoreSmallDeltas itself.",
		Run:            runC32,
		MinObligations: 15,
	})
}

func runC32(c *eng.Ctx) {
	defer runC32Repeatable(c)
	p := c.P
	Q := "promql:"
	// ---- R1 accessors ----
	for _, k := range [][2]string{{"funcHistogramCount", "return h.Count"}, {"funcHistogramSum", "return h.Sum"}, {"funcHistogramAvg", "return h.Sum / h.Count"}} {
		f := c.Fn(Q + k[0])
		want := k[1]
		ok := false
		ast.Inspect(f.Body, func(n ast.Node) bool {
			if fl, isF := n.(*ast.FuncLit); isF && len(fl.Body.List) == 1 && nodeText(fl.Body.List[0]) == want {
				ok = true
			}
			return true
		})
		c.Check("R1", f.Where(), k[0]+" maps a histogram to `"+strings.TrimPrefix(want, "return ")+"`", ok && strings.Contains(nodeText(f.Body), "return simpleHistogramFunc(vectorVals, enh, func(h *histogram.FloatHistogram) float64 {"), p.Pos(f.Body.Pos()), "")
	}
	sh := c.Fn(Q + "simpleHistogramFunc")
	app := eng.Node("enh.Out = append(enh.Out, Sample{…})", func(g *eng.Graph, n ast.Node) bool {
		return strings.HasPrefix(nodeText(n), "enh.Out = append(enh.Out, Sample{")
	})
	sh.Has("R1", app, 1)
	sh.Only("R1", app, "emits f(el.H) for histogram samples only", func(l eng.Loc) bool {
		return sh.UnderCond(l, "el.H != nil") && strings.Contains(nodeText(l.Node), "F: f(el.H)")
	})
	// ---- R2 quantile domain and direction ----
	hq := c.Fn(Q + "HistogramQuantile")
	type dom = c32dom
	var doms []dom
	for _, st := range hq.Body.List {
		is, ok := st.(*ast.IfStmt)
		if !ok {
			break
		}
		if len(is.Body.List) == 1 {
			doms = append(doms, dom{realForm(hq, is.Cond), nodeText(is.Body.List[0])})
		}
	}
	okDom := len(doms) == 3 && doms[0] == dom{"+1*q < 0", "return math.Inf(-1), nil"} && doms[1] == dom{"-1*q +1 < 0", "return math.Inf(+1), nil"} &&
		doms[2] == dom{"?h.Count == 0 || math.IsNaN(q)", "return math.NaN(), nil"}
	c.Check("R2", hq.Where(), "the quantile function answers q < 0, q > 1, NaN and the empty histogram before it looks at buckets", okDom, p.Pos(hq.Body.Pos()), sprintDoms(doms))
	// the same test chooses the iterator and, later, how the rank is converted
	var dirConds []string
	ast.Inspect(hq.Body, func(n ast.Node) bool {
		if is, ok := n.(*ast.IfStmt); ok {
			b := nodeText(is.Body)
			if strings.Contains(b, "it = h.AllBucketIterator()") || strings.Contains(b, "rank -= count - bucket.Count") {
				dirConds = append(dirConds, nodeText(is.Cond))
			}
		}
		return true
	})
	c.Check("R2", hq.Where(), "the direction of the bucket walk and the conversion of the rank are chosen by the same test", len(dirConds) == 2 && dirConds[0] == dirConds[1] && dirConds[0] == "math.IsNaN(h.Sum) || q < 0.5", p.Pos(hq.Body.Pos()), strings.Join(dirConds, " vs "))
	for _, pair := range [][2]string{{"it = h.AllBucketIterator()", "rank = q * h.Count"}, {"it = h.AllReverseBucketIterator()", "rank = (1 - q) * h.Count"}} {
		pair := pair
		a := eng.Node(pair[0], func(g *eng.Graph, n ast.Node) bool { return nodeText(n) == pair[0] })
		b := eng.Node(pair[1], func(g *eng.Graph, n ast.Node) bool { return nodeText(n) == pair[1] })
		hq.Has("R2", a, 1)
		hq.Only("R2", a, "is paired with `"+pair[1]+"` in the same block", func(l eng.Loc) bool {
			for _, x := range hq.Find(b) {
				if x.Blk == l.Blk {
					return true
				}
			}
			return false
		})
	}
	// ---- R3 fraction: lower and upper are handled by the same statements ----
	hf := c.Fn(Q + "HistogramFraction")
	var lows, ups []string
	ren := []*regexp.Regexp{regexp.MustCompile(`\blowerRank\b`), regexp.MustCompile(`\blowerSet\b`), regexp.MustCompile(`\blower\b`)}
	rep := []string{"upperRank", "upperSet", "upper"}
	ast.Inspect(hf.Body, func(n ast.Node) bool {
		is, ok := n.(*ast.IfStmt)
		if !ok {
			return true
		}
		t := nodeText(is)
		hasL := strings.Contains(t, "lowerSet") || strings.Contains(t, "lowerRank")
		hasU := strings.Contains(t, "upperSet") || strings.Contains(t, "upperRank")
		switch {
		case hasL && !hasU:
			for i, r := range ren {
				t = r.ReplaceAllString(t, rep[i])
			}
			lows = append(lows, t)
			return false
		case hasU && !hasL:
			ups = append(ups, t)
			return false
		}
		return true
	})
	c.Check("R3", hf.Where(), "the statements that handle the lower bound equal, after renaming lower→upper, the statements that handle the upper bound (3 pairs)", len(lows) == 3 && strings.Join(lows, "\n") == strings.Join(ups, "\n"), p.Pos(hf.Body.Pos()),
		"lower: "+strings.Join(lows, " || ")+" ;; upper: "+strings.Join(ups, " || "))
	var fdoms []dom
	for _, st := range hf.Body.List {
		is, ok := st.(*ast.IfStmt)
		if !ok {
			break
		}
		if len(is.Body.List) == 1 {
			fdoms = append(fdoms, dom{realForm(hf, is.Cond), nodeText(is.Body.List[0])})
		}
	}
	c.Check("R3", hf.Where(), "the fraction of an empty histogram or NaN bounds is NaN, of an empty interval (lower ≥ upper) 0", len(fdoms) == 2 && fdoms[0] == dom{"?h.Count == 0 || math.IsNaN(lower) || math.IsNaN(upper)", "return math.NaN(), nil"} && fdoms[1] == dom{"-1*lower +1*upper <= 0", "return 0, nil"}, p.Pos(hf.Body.Pos()), sprintDoms(fdoms))
	hf.Only("R3", eng.Return("final return", func(g *eng.Graph, rs *ast.ReturnStmt) bool { return len(hf.CondsOf(rs)) == 0 }), "is (upperRank − lowerRank) / h.Count", func(l eng.Loc) bool {
		return nodeText(l.Node) == "return (upperRank - lowerRank) / h.Count, annos"
	})
	// ---- R4 classic quantile: monotonic first ----
	bq := c.Fn(Q + "BucketQuantile")
	bq.Dom("R4", p.Call(Q+"ensureMonotonicAndIgnoreSmallDeltas"), eng.Node("the rank search", func(g *eng.Graph, n ast.Node) bool {
		call, ok := n.(*ast.CallExpr)
		return ok && eng.ExprString(call.Fun) == "sort.Search"
	}))
	pred := ""
	ast.Inspect(bq.Body, func(n ast.Node) bool {
		if call, ok := n.(*ast.CallExpr); ok && eng.ExprString(call.Fun) == "sort.Search" && len(call.Args) == 2 {
			if fl, ok := call.Args[1].(*ast.FuncLit); ok && len(fl.Body.List) == 1 {
				if rs, ok := fl.Body.List[0].(*ast.ReturnStmt); ok && len(rs.Results) == 1 {
					pred = realForm(bq, rs.Results[0])
				}
			}
		}
		return true
	})
	c.Check("R4", bq.Where(), "the bucket holding the rank is the first whose cumulative count reaches it (count ≥ rank)", pred == "-1*buckets[i].Count +1*rank <= 0", p.Pos(bq.Body.Pos()), pred)
	// ---- R5 (added for seed C32-a) the rank walk looks at populated buckets only ----
	hq.AstEvery("R5", "bucket walk that stops when the cumulative count reaches the rank", func(n ast.Node) bool {
		fs, ok := n.(*ast.ForStmt)
		return ok && fs.Cond != nil && nodeText(fs.Cond) == "it.Next()" && strings.Contains(nodeText(fs.Body), "count >= rank")
	}, "skips empty buckets before it tests the rank (a rank of 0 must not stop in an empty bucket)", func(n ast.Node) bool {
		b := n.(*ast.ForStmt).Body.List
		return len(b) >= 3 && nodeText(b[0]) == "bucket = it.At()" && nodeText(b[1]) == "if bucket.Count == 0 { continue }"
	}, 1)
}

type c32dom struct{ cond, ret string }

func sprintDoms(ds []c32dom) string {
	var out []string
	for _, d := range ds {
		out = append(out, "["+d.cond+"] "+d.ret)
	}
	return strings.Join(out, " ; ")
}

func realForm(f *eng.Fn, e ast.Expr) string {
	if l, op, ok := eng.LinearCmpReal(f.Info, e); ok {
		return l.String() + " " + op + " 0"
	}
	return "?" + nodeText(e)
}
