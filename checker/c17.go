package main

import (
	"go/ast"
	"strings"

	"promverif/eng"
)

func init() {
	register(&Property{
		ID:             "C17",
		Title:          "Optimized regex matching equals regular-expression semantics",
		Technique:      "shape rules for the frame in which the optimisations run: how the reference regexp is built (anchors, dot-all, same parse flags as the tree that is optimised), that pre-filters can only reject and every accepting answer comes from a complete matcher or the reference regexp, when the finite value set is exposed, and that it is handed out as a copy",
		DesignRef:      "DESIGN.md §5 C17",
		Level:          "Decides only the frame, not the optimisations: the reference expression is compiled as ^(?s:…)$ from the tree parsed with Perl|DotNL (the same tree the optimisers inspect); in the compiled match function the prefix/suffix/contains pre-filters return only `false`, and every other return is the single set value's equality, the complete string matcher, or the reference regexp; the case-insensitive prefix path ends in the reference regexp; the set of matching values is stored only for case-sensitive sets and SetMatches returns a copy of it; the literal-alternation fast path is used only when it produced a matcher.",
		Note:           "Trusted: go/packages, go/types, go/cfg; rule tables in checker/c17.go.",
		Covers:         "model/labels: NewFastRegexMatcher, FastRegexMatcher.compileMatchStringFunction, FastRegexMatcher.MatchString, FastRegexMatcher.SetMatches, containsStringMatcher.Matches, isSimpleConcatenationPattern and its element predicates, the contains loop of optimizeConcatRegex, every construction of trueMatcher.",
		NotCover:       "that each optimiser (optimizeAlternatingLiterals, findSetMatches, optimizeConcatRegex, stringMatcherFromRegexp, equalMultiStringMapMatcher, toNormalisedLower) accepts exactly the language of its sub-expression — a language-equivalence question over runtime patterns, which is the substance of this property.",
		Run:            runC17,
		MinObligations: 28,
	})
}

func runC17(c *eng.Ctx) {
	p := c.P
	L := "model/labels:"
	nf := c.Fn(L + "NewFastRegexMatcher")
	callText := func(text string) eng.Matcher {
		return eng.Node(text, func(g *eng.Graph, n ast.Node) bool {
			call, ok := n.(*ast.CallExpr)
			return ok && nodeText(call) == text
		})
	}
	// ---- R1 the reference regexp ----
	parse := callText("syntax.Parse(v, syntax.Perl|syntax.DotNL)")
	compile := callText(`regexp.Compile("^(?s:" + parsed.String() + ")$")`)
	nf.Has("R1", parse, 1)
	nf.Has("R1", compile, 1)
	nf.Dom("R1", parse, compile)
	nf.ErrPropagates("R1", parse, 1)
	nf.ErrPropagates("R1", compile, 1)
	nf.Only("R1", p.Store(L+"FastRegexMatcher.re"), "is the anchored, dot-all compilation of the parsed expression", func(l eng.Loc) bool {
		return strings.HasPrefix(nodeText(l.Node), `m.re, err = regexp.Compile("^(?s:" + parsed.String() + ")$")`)
	})
	// the tree is compiled before captures are stripped and before the optimisers look at it
	nf.Dom("R1", compile, callText("clearCapture(parsed)"))
	nf.Dom("R1", compile, p.Call(L+"findSetMatches"))
	nf.Dom("R1", compile, p.Call(L+"FastRegexMatcher.compileMatchStringFunction"))
	// the literal fast path replaces everything only when it produced a matcher
	nf.Only("R1", eng.Node("m.matchString = m.stringMatcher.Matches", func(g *eng.Graph, n ast.Node) bool { return nodeText(n) == "m.matchString = m.stringMatcher.Matches" }),
		"is taken only when the literal-alternation fast path produced a matcher", func(l eng.Loc) bool { return nf.UnderCond(l, "m.stringMatcher != nil") })
	// ---- R2 value sets ----
	nf.Only("R2", p.Store(L+"FastRegexMatcher.setMatches"), "exposes a finite value set only from the literal fast path or for a case-sensitive set", func(l eng.Loc) bool {
		t := nodeText(l.Node)
		return t == "m.stringMatcher, m.setMatches = optimizeAlternatingLiterals(v)" || (t == "m.setMatches = matches" && nf.UnderCond(l, "caseSensitive"))
	})
	sm := c.Fn(L + "FastRegexMatcher.SetMatches")
	sm.Only("R2", eng.Return("return", func(g *eng.Graph, rs *ast.ReturnStmt) bool { return true }), "returns a copy of the set", func(l eng.Loc) bool {
		return nodeText(l.Node) == "return slices.Clone(m.setMatches)"
	})
	// ---- R3 the compiled match function: filters reject, complete matchers accept ----
	cm := c.Fn(L + "FastRegexMatcher.compileMatchStringFunction")
	var rets []string
	ast.Inspect(cm.Body, func(n ast.Node) bool {
		fl, ok := n.(*ast.FuncLit)
		if !ok {
			return true
		}
		ast.Inspect(fl.Body, func(m ast.Node) bool {
			if rs, ok := m.(*ast.ReturnStmt); ok && len(rs.Results) == 1 {
				rets = append(rets, nodeText(rs.Results[0]))
			}
			return true
		})
		return false
	})
	allowed := map[string]bool{"false": true, "s == m.setMatches[0]": true, "m.re.MatchString(s)": true, "m.stringMatcher.Matches(s)": true}
	okRets := len(rets) >= 6
	for _, r := range rets {
		if !allowed[r] {
			okRets = false
		}
	}
	c.Check("R3", cm.Where(), "inside the compiled match closures a pre-filter only ever returns false; every other answer is the single value's equality, the complete string matcher, or the reference regexp", okRets, p.Pos(cm.Body.Pos()), strings.Join(rets, " | "))
	// the closures that are returned directly
	cm.Only("R3", eng.Return("return of a matcher function value", func(g *eng.Graph, rs *ast.ReturnStmt) bool {
		if len(rs.Results) != 1 {
			return false
		}
		_, isLit := rs.Results[0].(*ast.FuncLit)
		return !isLit
	}), "is the complete string matcher, when it is the only optimisation", func(l eng.Loc) bool {
		return nodeText(l.Node) == "return m.stringMatcher.Matches" && cm.UnderCond(l, `m.prefix == "" && m.suffix == "" && len(m.contains) == 0 && m.stringMatcher != nil`)
	})
	cm.Only("R3", eng.Return("return of the single-value closure", func(g *eng.Graph, rs *ast.ReturnStmt) bool {
		return strings.Contains(nodeText(rs), "s == m.setMatches[0]")
	}), "is used exactly for a one-element value set", func(l eng.Loc) bool { return cm.UnderCond(l, "len(m.setMatches) == 1") })
	ms := c.Fn(L + "FastRegexMatcher.MatchString")
	ms.Only("R3", eng.Return("return", func(g *eng.Graph, rs *ast.ReturnStmt) bool { return true }), "delegates to the compiled function", func(l eng.Loc) bool { return nodeText(l.Node) == "return m.matchString(s)" })
	c.WritersSubset("R3", L+"FastRegexMatcher.matchString", 2, L+"NewFastRegexMatcher")
	// ---- R4 (added for seed C17-a) the contains matcher tries every occurrence of the literal, overlapping ones included ----
	csm := c.Fn(L + "containsStringMatcher.Matches")
	adv := eng.AssignVar("searchStartPos")
	csm.Has("R4", adv, 2)
	csm.Only("R4", adv, "restarts the search one position after the occurrence just rejected (or at 0)", func(l eng.Loc) bool {
		as, ok := l.Node.(*ast.AssignStmt)
		if !ok || len(as.Rhs) != 1 {
			return true
		}
		lf, okL := eng.Linear(csm.Info, as.Rhs[0])
		return okL && (lf.String() == "+0" || lf.String() == "+1*pos +1")
	})
	runC17Concat(c)
	runC17Fold(c)
}
