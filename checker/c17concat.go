package main

import (
	"go/ast"
	"sort"
	"strings"

	"promverif/eng"
)

// C17.R5: where the optimised matcher stops looking at the string.  trueMatcher accepts every string, so once it is
// installed the pre-filters (prefix, suffix, literals in order) are the whole decision; that is sound only for a
// concatenation whose every element is either a case-sensitive literal (which optimizeConcatRegex turns into a
// prefix/suffix/contains entry) or `.*` with dot matching newline (which imposes nothing).  Any other element form
// needs its own argument and is not on the list.
func runC17Concat(c *eng.Ctx) {
	p := c.P
	L := "model/labels:"
	// (a) who hands out trueMatcher, and under which tests
	type site struct{ fn, conds string }
	var sites []site
	for _, o := range p.FindAll(eng.Node("trueMatcher{}", func(g *eng.Graph, n ast.Node) bool {
		cl, ok := n.(*ast.CompositeLit)
		return ok && eng.ExprString(cl.Type) == "trueMatcher"
	})) {
		f := c.Fn(o.In)
		conds := f.CondsOf(o.Node)
		// enclosing case clause of a switch over re.Op
		var stack []ast.Node
		ast.Inspect(f.Body, func(x ast.Node) bool {
			if x == nil {
				stack = stack[:len(stack)-1]
				return true
			}
			stack = append(stack, x)
			if x == o.Node {
				for _, s := range stack {
					if cc, ok := s.(*ast.CaseClause); ok && cc.List != nil {
						conds = append(conds, "case "+nodeText(cc.List[0]))
					}
				}
			}
			return true
		})
		sort.Strings(conds)
		sites = append(sites, site{o.In, strings.Join(conds, " ; ")})
	}
	c.Check("R5", "model/labels", "trueMatcher{} is constructed at two sites", len(sites) == 2, "", "")
	for _, s := range sites {
		switch eng.Short(s.fn) {
		case "NewFastRegexMatcher":
			c.Check("R5", s.fn, "accept-everything is installed only for a simple concatenation pattern and only when no other string matcher was found", strings.Contains(s.conds, "isSimpleConcatenationPattern(parsed)=T") && strings.Contains(s.conds, "m.stringMatcher == nil=T"), "", s.conds)
		case "stringMatcherFromRegexpInternal":
			c.Check("R5", s.fn, "accept-everything stands for `.*` only: star of any-char-including-newline", strings.Contains(s.conds, "case syntax.OpStar") && strings.Contains(s.conds, "re.Sub[0].Op == syntax.OpAnyChar=T"), "", s.conds)
		default:
			c.Fail("R5", s.fn, "trueMatcher{} constructed in a function the rule knows", "", s.conds)
		}
	}
	// (b) the pattern predicate admits only the two element forms
	sp := c.Fn(L + "isSimpleConcatenationPattern")
	preds := map[string]int{}
	ast.Inspect(sp.Body, func(n ast.Node) bool {
		call, ok := n.(*ast.CallExpr)
		if !ok || len(call.Args) != 1 {
			return true
		}
		if f := sp.Callee(call); f != nil && f.Pkg() != nil && strings.HasSuffix(f.Pkg().Path(), "model/labels") {
			preds[f.Name()]++
		}
		return true
	})
	var extra []string
	for n := range preds {
		if n != "isMatchAny" && n != "isCaseSensitiveLiteral" {
			extra = append(extra, n)
		}
	}
	sort.Strings(extra)
	c.Check("R5", sp.Where(), "the element predicates used are isMatchAny (first, last, middle) and isCaseSensitiveLiteral (middle) and no other", len(extra) == 0 && preds["isMatchAny"] == 3 && preds["isCaseSensitiveLiteral"] == 1, p.Pos(sp.Body.Pos()),
		"other element forms admitted: "+strings.Join(extra, ", ")+" — the pre-filters do not model them (e.g. `.+` needs a non-empty gap, which literals-in-order does not test)")
	sp.AstEvery("R5", "test of the first and last element", func(n ast.Node) bool {
		is, ok := n.(*ast.IfStmt)
		return ok && strings.Contains(nodeText(is.Cond), "first") && strings.Contains(nodeText(is.Cond), "last")
	}, "rejects unless both are `.*`", func(n ast.Node) bool {
		is := n.(*ast.IfStmt)
		return nodeText(is.Cond) == "!isMatchAny(first) || !isMatchAny(last)" && nodeText(is.Body) == "{ return false }"
	}, 1)
	sp.AstEvery("R5", "loop over the middle elements", func(n ast.Node) bool {
		_, ok := n.(*ast.RangeStmt)
		return ok
	}, "covers every element between the first and the last and rejects any that is neither form", func(n ast.Node) bool {
		rs := n.(*ast.RangeStmt)
		if nodeText(rs.X) != "re.Sub[1 : len(re.Sub)-1]" && nodeText(rs.X) != "re.Sub[1:len(re.Sub)-1]" {
			return false
		}
		if len(rs.Body.List) != 1 {
			return false
		}
		is, ok := rs.Body.List[0].(*ast.IfStmt)
		if !ok || nodeText(is.Body) != "{ return false }" {
			return false
		}
		conj := map[string]bool{}
		for _, cj := range strings.Split(nodeText(is.Cond), " && ") {
			conj[strings.TrimSpace(cj)] = true
		}
		v := eng.ExprString(rs.Value)
		return len(conj) == 2 && conj["!isMatchAny("+v+")"] && conj["!isCaseSensitiveLiteral("+v+")"]
	}, 1)
	// (c) what the two forms are
	bodyIs := func(fn string, conjuncts ...string) {
		f := c.Fn(L + fn)
		ok := len(f.Body.List) == 1
		if ok {
			rs, isR := f.Body.List[0].(*ast.ReturnStmt)
			ok = isR && len(rs.Results) == 1
			if ok {
				conj := map[string]bool{}
				for _, cj := range strings.Split(nodeText(rs.Results[0]), " && ") {
					conj[strings.TrimSpace(cj)] = true
				}
				ok = len(conj) == len(conjuncts)
				for _, w := range conjuncts {
					ok = ok && conj[w]
				}
			}
		}
		c.Check("R5", f.Where(), "is exactly the conjunction "+strings.Join(conjuncts, " && "), ok, p.Pos(f.Body.Pos()), "")
	}
	prm := func(fn string) string { return c.Fn(L + fn).Decl.Type.Params.List[0].Names[0].Name }
	r := prm("isMatchAny")
	bodyIs("isMatchAny", r+".Op == syntax.OpStar", r+".Sub[0].Op == syntax.OpAnyChar")
	r = prm("isCaseSensitiveLiteral")
	bodyIs("isCaseSensitiveLiteral", r+".Op == syntax.OpLiteral", "isCaseSensitive("+r+")")
	r = prm("isCaseSensitive")
	bodyIs("isCaseSensitive", "!isCaseInsensitive("+r+")")
	r = prm("isCaseInsensitive")
	bodyIs("isCaseInsensitive", "("+r+".Flags & syntax.FoldCase) != 0")
	// (d) the literals the pre-filter looks for are the same middle elements, by the same test
	oc := c.Fn(L + "optimizeConcatRegex")
	oc.AstEvery("R5", "loop collecting the contains literals", func(n ast.Node) bool {
		fs, ok := n.(*ast.ForStmt)
		return ok && strings.Contains(nodeText(fs.Body), "contains = append(contains")
	}, "visits every middle element and keeps exactly the case-sensitive literals, in order", func(n ast.Node) bool {
		fs := n.(*ast.ForStmt)
		if nodeText(fs.Init) != "i := 1" || nodeText(fs.Cond) != "i < len(sub)-1" || nodeText(fs.Post) != "i++" || len(fs.Body.List) != 1 {
			return false
		}
		is, ok := fs.Body.List[0].(*ast.IfStmt)
		return ok && nodeText(is.Cond) == "sub[i].Op == syntax.OpLiteral && (sub[i].Flags&syntax.FoldCase) == 0" && nodeText(is.Body) == "{ contains = append(contains, string(sub[i].Rune)) }"
	}, 1)
}
