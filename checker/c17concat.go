package main

import (
	"go/ast"
	"sort"
	"strings"

	"promverif/eng"
)

// C17.R5: where the optimised matcher stops looking at the string.  trueMatcher accepts every string, so once it is
// installed the pre-filters (prefix, suffix, literals in order) are the whole decision; that is sound only for a
// concatenation whose every element is either a case-sensitive literal (which optimizeConcatRegex turns into a
// prefix/suffix/contains entry) or `.*` with dot matching newline (which imposes nothing).  Any other element form
// needs its own argument and is not on the list.
func runC17Concat(c *eng.Ctx) {
	p := c.P
	L := "model/labels:"
	// (a) who hands out trueMatcher, and under which tests
	type site struct{ fn, conds string }
	var sites []site
	for _, o := range p.FindAll(eng.Node("trueMatcher{}", func(g *eng.Graph, n ast.Node) bool {
		cl, ok := n.(*ast.CompositeLit)
		return ok && eng.ExprString(cl.Type) == "trueMatcher"
	})) {
		f := c.Fn(o.In)
		conds := f.CondsOf(o.Node)
		// enclosing case clause of a switch over re.Op
		var stack []ast.Node
		ast.Inspect(f.Body, func(x ast.Node) bool {
			if x == nil {
				stack = stack[:len(stack)-1]
				return true
			}
			stack = append(stack, x)
			if x == o.Node {
				for _, s := range stack {
					if cc, ok := s.(*ast.CaseClause); ok && cc.List != nil {
						conds = append(conds, "case "+nodeText(cc.List[0]))
					}
				}
			}
			return true
		})
		sort.Strings(conds)
		sites = append(sites, site{o.In, strings.Join(conds, " ; ")})
	}
	c.Check("R5", "model/labels", "trueMatcher{} is constructed at two sites", len(sites) == 2, "", "")
	for _, s := range sites {
		switch eng.Short(s.fn) {
		case "NewFastRegexMatcher":
			c.Check("R5", s.fn, "accept-everything is installed only for a simple concatenation pattern and only when no other string matcher was found", strings.Contains(s.conds, "isSimpleConcatenationPattern(parsed)=T") && strings.Contains(s.conds, "m.stringMatcher == nil=T"), "", s.conds)
		case "stringMatcherFromRegexpInternal":
			c.Check("R5", s.fn, "accept-everything stands for `.*` only: star of any-char-including-newline", strings.Contains(s.conds, "case syntax.OpStar") && strings.Contains(s.conds, "re.Sub[0].Op == syntax.OpAnyChar=T"), "", s.conds)
		default:
			c.Fail("R5", s.fn, "trueMatcher{} constructed in a function the rule knows", "", s.conds)
		}
	}
	// (b) the pattern predicate admits only the two element forms
	sp := c.Fn(L + "isSimpleConcatenationPattern")
	preds := map[string]int{}
	ast.Inspect(sp.Body, func(n ast.Node) bool {
		call, ok := n.(*ast.CallExpr)
		if !ok || len(call.Args) != 1 {
			return true
		}
		if f := sp.Callee(call); f != nil && f.Pkg() != nil && strings.HasSuffix(f.Pkg().Path(), "model/labels") {
			preds[f.Name()]++
		}
		return true
	})
	var extra []string
	for n := range preds {
		if n != "isMatchAny" && n != "isCaseSensitiveLiteral" {
			extra = append(extra, n)
		}
	}
	sort.Strings(extra)
	c.Check("R5", sp.Where(), "the element predicates used are isMatchAny (first, last, middle) and isCaseSensitiveLiteral (middle) and no other", len(extra) == 0 && preds["isMatchAny"] == 3 && preds["isCaseSensitiveLiteral"] == 1, p.Pos(sp.Body.Pos()),
		"other element forms admitted: "+strings.Join(extra, ", ")+" — the pre-filters do not model them (e.g. `.+` needs a non-empty gap, which literals-in-order does not test)")
	sp.AstEvery("R5", "test of the first and last element", func(n ast.Node) bool {
		is, ok := n.(*ast.IfStmt)
		return ok && strings.Contains(nodeText(is.Cond), "first") && strings.Contains(nodeText(is.Cond), "last")
	}, "rejects unless both are `.*`", func(n ast.Node) bool {
		is := n.(*ast.IfStmt)
		return nodeText(is.Cond) == "!isMatchAny(first) || !isMatchAny(last)" && nodeText(is.Body) == "{ return false }"
	}, 1)
	sp.AstEvery("R5", "loop over the middle elements", func(n ast.Node) bool {
		_, ok := n.(*ast.RangeStmt)
		return ok
	}, "covers every element between the first and the last and rejects any that is neither form", func(n ast.Node) bool {
		rs := n.(*ast.RangeStmt)
		if nodeText(rs.X) != "re.Sub[1 : len(re.Sub)-1]" && nodeText(rs.X) != "re.Sub[1:len(re.Sub)-1]" {
			return false
		}
		if len(rs.Body.List) != 1 {
			return false
		}
		is, ok := rs.Body.List[0].(*ast.IfStmt)
		if !ok || nodeText(is.Body) != "{ return false }" {
			return false
		}
		conj := map[string]bool{}
		for _, cj := range strings.Split(nodeText(is.Cond), " && ") {
			conj[strings.TrimSpace(cj)] = true
		}
		v := eng.ExprString(rs.Value)
		return len(conj) == 2 && conj["!isMatchAny("+v+")"] && conj["!isCaseSensitiveLiteral("+v+")"]
	}, 1)
	// (c) what the two forms are
	bodyIs := func(fn string, conjuncts ...string) {
		f := c.Fn(L + fn)
		ok := len(f.Body.List) == 1
		if ok {
			rs, isR := f.Body.List[0].(*ast.ReturnStmt)
			ok = isR && len(rs.Results) == 1
			if ok {
				conj := map[string]bool{}
				for _, cj := range strings.Split(nodeText(rs.Results[0]), " && ") {
					conj[strings.TrimSpace(cj)] = true
				}
				ok = len(conj) == len(conjuncts)
				for _, w := range conjuncts {
					ok = ok && conj[w]
				}
			}
		}
		c.Check("R5", f.Where(), "is exactly the conjunction "+strings.Join(conjuncts, " && "), ok, p.Pos(f.Body.Pos()), "")
	}
	prm := func(fn string) string { return c.Fn(L + fn).Decl.Type.Params.List[0].Names[0].Name }
	r := prm("isMatchAny")
	bodyIs("isMatchAny", r+".Op == syntax.OpStar", r+".Sub[0].Op == syntax.OpAnyChar")
	r = prm("isCaseSensitiveLiteral")
	bodyIs("isCaseSensitiveLiteral", r+".Op == syntax.OpLiteral", "isCaseSensitive("+r+")")
	r = prm("isCaseSensitive")
	bodyIs("isCaseSensitive", "!isCaseInsensitive("+r+")")
	r = prm("isCaseInsensitive")
	bodyIs("isCaseInsensitive", "("+r+".Flags & syntax.FoldCase) != 0")
	// (d) the literals the pre-filter looks for are the same middle elements, by the same test
	oc := c.Fn(L + "optimizeConcatRegex")
	oc.AstEvery("R5", "loop collecting the contains literals", func(n ast.Node) bool {
		fs, ok := n.(*ast.ForStmt)
		return ok && strings.Contains(nodeText(fs.Body), "contains = append(contains")
	}, "visits every middle element and keeps exactly the case-sensitive literals, in order", func(n ast.Node) bool {
		fs := n.(*ast.ForStmt)
		if nodeText(fs.Init) != "i := 1" || nodeText(fs.Cond) != "i < len(sub)-1" || nodeText(fs.Post) != "i++" || len(fs.Body.List) != 1 {
			return false
		}
		is, ok := fs.Body.List[0].(*ast.IfStmt)
		return ok && nodeText(is.Cond) == "sub[i].Op == syntax.OpLiteral && (sub[i].Flags&syntax.FoldCase) == 0" && nodeText(is.Body) == "{ contains = append(contains, string(sub[i].Rune)) }"
	}, 1)
}

// C17.R6 / R7: how the large case-insensitive alternation matcher canonicalises strings.  (?i) in the reference engine
// is simple case folding: two strings are equal iff they are rune-wise in the same folding orbit.
func runC17Fold(c *eng.Ctx) {
	p := c.P
	L := "model/labels:"
	// ---- R6 the canonical form is a case folding, nothing more, nothing less ----
	for _, fn := range []string{"toNormalisedLower", "toNormalisedLowerSlow"} {
		f := c.Fn(L + fn)
		var normCalls, mappers []string
		foldOK := true
		ast.Inspect(f.Body, func(n ast.Node) bool {
			call, ok := n.(*ast.CallExpr)
			if !ok {
				return true
			}
			if callee := f.Callee(call); callee != nil && callee.Pkg() != nil {
				if strings.HasSuffix(callee.Pkg().Path(), "unicode/norm") {
					normCalls = append(normCalls, nodeText(call.Fun))
				}
				if callee.Pkg().Path() == "strings" && callee.Name() == "Map" && len(call.Args) == 2 {
					m := nodeText(call.Args[0])
					mappers = append(mappers, m)
					// the mapper must be a function of this package that walks the folding orbit
					ok := false
					if id, isID := call.Args[0].(*ast.Ident); isID {
						if mf := p.TryFunc(L + id.Name); mf != nil {
							if src := p.SrcOf(mf); src != nil {
								ast.Inspect(src.Decl.Body, func(y ast.Node) bool {
									if sc, isC := y.(*ast.CallExpr); isC && nodeText(sc.Fun) == "unicode.SimpleFold" {
										ok = true
									}
									return true
								})
							}
						}
					}
					foldOK = foldOK && ok
				}
			}
			return true
		})
		c.Check("R6", f.Where(), "the case-insensitive canonical form applies no Unicode normalisation (the reference engine compares code points up to case folding only)", len(normCalls) == 0, p.Pos(f.Body.Pos()),
			"calls "+strings.Join(normCalls, ", ")+": compatibility decomposition equates strings the regexp keeps apart (the ligature U+FB01 and `fi`, `é` and `e`+U+0301)")
		c.Check("R6", f.Where(), "non-ASCII runes are mapped rune by rune to a representative of their simple-folding orbit (a mapper built on unicode.SimpleFold)", len(mappers) >= 1 && foldOK, p.Pos(f.Body.Pos()),
			"mapper(s) "+strings.Join(mappers, ", ")+": unicode.ToLower leaves orbits with two lower-case members split (σ/ς) and does not merge K with U+212A")
	}
	// ---- R7 prefix keys: writer and reader of equalMultiStringMapMatcher.prefixes agree, and fold before cutting ----
	canon := func(fnRef string) (fns []string, cutFirst bool, pos string) {
		f := c.Fn(fnRef)
		pos = p.Pos(f.Body.Pos())
		ast.Inspect(f.Body, func(n ast.Node) bool {
			call, ok := n.(*ast.CallExpr)
			if !ok || len(call.Args) == 0 {
				return true
			}
			name := nodeText(call.Fun)
			if name != "strings.ToLower" && name != "toNormalisedLower" {
				return true
			}
			under := false
			for _, cd := range f.CondsOf(call) {
				under = under || cd == "!m.caseSensitive=T"
			}
			if !under {
				return true
			}
			// only the key of the prefixes map: the argument involves minPrefixLen, or its result is cut by it
			arg := nodeText(call.Args[0])
			if !strings.Contains(arg, "minPrefixLen") && !strings.Contains(arg, "prefix") && arg != "s" {
				return true
			}
			if strings.Contains(fnRef, "Matches") && !strings.Contains(arg, "minPrefixLen") {
				return true // the whole-value key of m.values
			}
			fns = append(fns, name)
			if _, isSlice := ast.Unparen(call.Args[0]).(*ast.SliceExpr); isSlice {
				cutFirst = true
			}
			if id, isID := call.Args[0].(*ast.Ident); isID {
				// s = prefix[:m.minPrefixLen] before the call
				ast.Inspect(f.Body, func(y ast.Node) bool {
					as, ok := y.(*ast.AssignStmt)
					if ok && len(as.Lhs) == 1 && nodeText(as.Lhs[0]) == id.Name && as.Pos() < call.Pos() {
						if _, isSlice := ast.Unparen(as.Rhs[0]).(*ast.SliceExpr); isSlice {
							cutFirst = true
						}
					}
					return true
				})
			}
			return true
		})
		return
	}
	wf, wcut, wpos := canon(L + "equalMultiStringMapMatcher.addPrefix")
	rf, rcut, _ := canon(L + "equalMultiStringMapMatcher.Matches")
	c.Check("R7", L+"equalMultiStringMapMatcher.addPrefix", "the key stored in the prefix map and the key looked up by Matches are canonicalised by the same function", len(wf) == 1 && len(rf) == 1 && wf[0] == rf[0], wpos,
		"addPrefix uses "+strings.Join(wf, ",")+", Matches uses "+strings.Join(rf, ",")+": a prefix such as `ſ` is stored unfolded and never found")
	c.Check("R7", L+"equalMultiStringMapMatcher.Matches", "the value is canonicalised as a whole before it is cut to the prefix length (a byte length taken from another pattern's prefix)", !wcut && !rcut, wpos,
		"s[:m.minPrefixLen] / prefix[:m.minPrefixLen] cut bytes first: a multi-byte rune that folds to a shorter one (U+212A → k, U+017F → s) is split and the key cannot match")
}
