package main

import (
	"fmt"
	"go/ast"

	"promverif/eng"
)

func init() {
	register(&Property{
		ID:        "C15",
		Title:     "WAL truncation keeps everything replay still needs",
		Technique: "exhaustiveness of record-type switches over go/types constants; decode/encode pairing per case; go/cfg order rules (series before dependants, expiries recorded before pruning); lockset for the expiry map",
		DesignRef: "DESIGN.md §5 C15",
		Level: "Decides that every record type the encoders can write has a case in every replay / checkpoint / tailing switch (or is in the table of types that legitimately do not occur there), " +
			"that each checkpoint case re-encodes with the matching encoder, that series records are logged before records that refer to them, and that every function deleting series records " +
			"their WAL expiry under the expiry lock before a checkpoint may drop the series record.",
		Note:           "Trusted: go/packages, go/types, go/cfg; the exception tables in checker/c15.go.",
		Covers:         "record.Type exhaustiveness in wlog.Checkpoint, Head.loadWAL, Head.loadWBL, agent.DB.loadWAL, Watcher.readSegment; decode/encode pair table of Checkpoint; series-first order in headAppenderBase.log and agent appenderBase.log; walExpiries discipline of gc/gcSeries/deleteSeriesByID/truncateWAL/keepSeriesInWALCheckpointFn; agent db.deleted discipline.",
		NotCover:       "the mint / segment comparisons that decide which record is kept (runtime values).",
		Run:            runC15,
		MinObligations: 45,
	})
}

func runC15(c *eng.Ctx) {
	defer runC15Order(c)
	p := c.P
	T := "tsdb/record:Type"
	// ---- R1 exhaustiveness ----
	c.Fn("tsdb/wlog:Checkpoint").SwitchCovers("R1", T, 1, map[string]string{
		"Unknown":     "not a record type: result of Decoder.Type for an unrecognised first byte",
		"MmapMarkers": "WBL only: never written to the WAL that is checkpointed",
	})
	c.Fn("tsdb:Head.loadWAL").SwitchCovers("R1", T, 1, map[string]string{
		"Unknown":     "not a record type",
		"MmapMarkers": "WBL only",
	})
	c.Fn("tsdb:Head.loadWBL").SwitchCovers("R1", T, 1, map[string]string{
		"Unknown": "not a record type", "Series": "the WBL holds samples and m-map markers only (series come from the WAL)",
		"Tombstones": "WAL only", "Exemplars": "WAL only", "Metadata": "WAL only",
	})
	c.Fn("tsdb/agent:DB.loadWAL").SwitchCovers("R1", T, 1, map[string]string{
		"Unknown": "not a record type", "MmapMarkers": "WBL only", "Metadata": "the agent never writes metadata records and ignores them",
	})
	c.Fn("tsdb/wlog:Watcher.readSegment").SwitchCovers("R1", T, 1, map[string]string{
		"MmapMarkers": "WBL only", "Tombstones": "remote write does not forward deletions",
	})
	// the encoder side: every type the encoders emit as first byte is a constant of the enum and is named by Type.String
	c.Fn("tsdb/record:Type.String").SwitchCovers("R1", T, 1, map[string]string{"Unknown": "default arm"})
	c.Fn("tsdb/record:Decoder.Type").SwitchCovers("R1", T, 1, map[string]string{"Unknown": "the result for anything else"})

	// ---- R2 checkpoint: decode/encode pair per case ----
	{
		f := c.Fn("tsdb/wlog:Checkpoint")
		sws := f.EnumSwitches(T)
		if len(sws) == 1 {
			pairs := []struct{ typ, dec, enc string }{
				{"Series", "Series", "Series"}, {"Samples", "Samples", "Samples"}, {"SamplesV2", "Samples", "Samples"},
				{"HistogramSamples", "HistogramSamples", "HistogramSamples"}, {"HistogramSamplesV2", "HistogramSamples", "HistogramSamples"},
				{"CustomBucketsHistogramSamples", "HistogramSamples", "CustomBucketsHistogramSamples"},
				{"FloatHistogramSamples", "FloatHistogramSamples", "FloatHistogramSamples"}, {"FloatHistogramSamplesV2", "FloatHistogramSamples", "FloatHistogramSamples"},
				{"CustomBucketsFloatHistogramSamples", "FloatHistogramSamples", "CustomBucketsFloatHistogramSamples"},
				{"Tombstones", "Tombstones", "Tombstones"}, {"Exemplars", "Exemplars", "Exemplars"},
			}
			for _, pr := range pairs {
				cl := sws[0].Clauses[pr.typ]
				ok := cl != nil
				pos := p.Pos(sws[0].Stmt.Pos())
				if ok {
					pos = p.Pos(cl.Pos())
					body := &ast.BlockStmt{List: cl.Body}
					ok = f.Contains(body, p.Call("tsdb/record:Decoder."+pr.dec)) && f.Contains(body, p.Call("tsdb/record:Encoder."+pr.enc))
				}
				c.Check("R2", f.Where(), "case "+pr.typ+": decodes with Decoder."+pr.dec+" and re-encodes with Encoder."+pr.enc, ok, pos,
					"a record of this type is dropped or rewritten with the wrong codec at the next checkpoint")
			}
			// custom-bucket leftovers of a mixed record are re-encoded
			for _, t := range []string{"HistogramSamples", "FloatHistogramSamples"} {
				cl := sws[0].Clauses[t]
				enc := "CustomBuckets" + t
				ok := cl != nil && f.Contains(&ast.BlockStmt{List: cl.Body}, p.Call("tsdb/record:Encoder."+enc))
				c.Check("R2", f.Where(), "case "+t+": custom-bucket leftovers are re-encoded with Encoder."+enc, ok, p.Pos(sws[0].Stmt.Pos()), "leftover custom-bucket histograms would be dropped")
			}
			// metadata: latest per series flushed after the loop
			f.Has("R2", p.Call("tsdb/record:Decoder.Metadata"), 1)
			f.NoPath("R2", p.Call("tsdb/record:Encoder.Metadata"), p.Call("tsdb/record:Decoder.Metadata"))
			f.Given("len(latestMetadataMap) > 0", true).Dom("R2", p.Call("tsdb/record:Encoder.Metadata"), eng.OnVar("cp", "Close"))
			// the default arm skips the record: nothing of an unknown type is kept — but nothing known may reach it (R1)
		} else {
			c.Fail("R2", f.Where(), "one switch over record.Type", p.Pos(f.Body.Pos()), "expected exactly one")
		}
	}
	// ---- R3 series records precede their dependants ----
	{
		f := c.Fn("tsdb:headAppenderBase.log").Given("len(a.seriesRefs) > 0", true)
		encSeries := p.Call("tsdb/record:Encoder.Series")
		others := p.Call("tsdb/record:Encoder.Metadata", "tsdb/record:Encoder.Samples", "tsdb/record:Encoder.HistogramSamples", "tsdb/record:Encoder.FloatHistogramSamples",
			"tsdb/record:Encoder.CustomBucketsHistogramSamples", "tsdb/record:Encoder.CustomBucketsFloatHistogramSamples", "tsdb/record:Encoder.Exemplars")
		walLog := p.MethodOn("tsdb:Head.wal", "Log")
		f.Chain("R3", encSeries, walLog, others)
		c.Fn("tsdb:headAppenderBase.log").NoPath("R3", others, encSeries)
		c.Fn("tsdb:headAppenderBase.Rollback").DomOK("R3", p.Call("tsdb:headAppenderBase.log")) // series created in memory are logged even on rollback
		g := c.Fn("tsdb/agent:appenderBase.log").Given("len(a.pendingSeries) > 0", true)
		aLog := p.MethodOn("tsdb/agent:DB.wal", "Log")
		g.Chain("R3", encSeries, aLog, p.Call("tsdb/record:Encoder.Samples", "tsdb/record:Encoder.HistogramSamples", "tsdb/record:Encoder.FloatHistogramSamples",
			"tsdb/record:Encoder.CustomBucketsHistogramSamples", "tsdb/record:Encoder.CustomBucketsFloatHistogramSamples", "tsdb/record:Encoder.Exemplars"))
		c.Fn("tsdb/agent:appenderBase.rollback").DomOK("R3", p.Call("tsdb/agent:appenderBase.logSeries"))
	}
	// ---- R4 WAL expiries of deleted series ----
	{
		storeExp := eng.Node("walExpiries[ref] = …", func(g *eng.Graph, n ast.Node) bool {
			as, ok := n.(*ast.AssignStmt)
			if !ok || len(as.Lhs) != 1 {
				return false
			}
			ix, ok := as.Lhs[0].(*ast.IndexExpr)
			return ok && eng.ExprIsField(g.Info, ix.X, p.Field("tsdb:Head.walExpiries"))
		})
		for _, fn := range []string{"tsdb:Head.gc", "tsdb:Head.gcSeries"} {
			f := c.Fn(fn).Given("h.wal != nil", true)
			f.DomOK("R4", eng.LoopOver(storeExp)) // for every deleted ref
			f.Only("R4", eng.LoopOver(storeExp), "ranges over the deleted set", func(l eng.Loc) bool {
				return eng.ExprString(l.Node.(ast.Expr)) == "deleted"
			})
		}
		d := c.Fn("tsdb:Head.deleteSeriesByID")
		d.Has("R4", p.Call("tsdb:Head.updateWALExpiry"), 1)
		c.GuardedBy("R4", "tsdb:Head.walExpiries", "tsdb:Head.walExpiriesMtx", eng.GuardOpts{Min: 6,
			Unlocked: map[string]string{"tsdb:Head.resetInMemoryState": "re-initialisation before the head is shared (NewHead / Head.Init)"}})
		c.WritersSubset("R4", "tsdb:Head.walExpiries", 5, "tsdb:Head.gc", "tsdb:Head.gcSeries", "tsdb:Head.updateWALExpiry", "tsdb:Head.truncateWAL", "tsdb:Head.resetInMemoryState")
		t := c.Fn("tsdb:Head.truncateWAL")
		prune := eng.Node("delete(h.walExpiries, ref)", func(g *eng.Graph, n ast.Node) bool {
			call, ok := n.(*ast.CallExpr)
			if !ok || len(call.Args) != 2 {
				return false
			}
			id, ok := call.Fun.(*ast.Ident)
			return ok && id.Name == "delete" && eng.ExprIsField(g.Info, call.Args[0], p.Field("tsdb:Head.walExpiries"))
		})
		t.Gate("R4", p.Call("tsdb/wlog:Checkpoint"), prune)
		t.Only("R4", p.Call("tsdb/wlog:Checkpoint"), "passes h.keepSeriesInWALCheckpointFn(mint) as keep", func(l eng.Loc) bool {
			a := l.Node.(*ast.CallExpr).Args
			return len(a) >= 5 && t.Contains(a[4], p.Call("tsdb:Head.keepSeriesInWALCheckpointFn"))
		})
		k := c.Fn("tsdb:Head.keepSeriesInWALCheckpointFn").Closure("keep", p.Call("tsdb:Head.getWALExpiry"))
		k.Has("R4", p.Call("tsdb:stripeSeries.getByID"), 1)
		k.Has("R4", p.Call("tsdb:Head.getWALExpiry"), 1)
		// serialisation between checkpointing and series deletion (doc comment of wlog.Checkpoint)
		lock := p.MethodOn("tsdb:Head.chunkSnapshotMtx", "Lock")
		t.Dom("R4", lock, p.Call("tsdb/wlog:Checkpoint"))
		c.Fn("tsdb:Head.truncateMemory").Dom("R4", lock, p.Call("tsdb:Head.truncateSeriesAndChunkDiskMapper"))
		c.Fn("tsdb:Head.truncateSeries").Dom("R4", lock, p.Call("tsdb:Head.gcSeries"))
		for _, fn := range []string{"tsdb:Head.truncateWAL", "tsdb:Head.truncateMemory", "tsdb:Head.truncateSeries"} {
			c.Fn(fn).Has("R4", eng.Deferred(p.MethodOn("tsdb:Head.chunkSnapshotMtx", "Unlock")), 1)
		}
		// replay: samples / tombstones / exemplars for a ref that is no longer in the head extend its expiry
		lw := c.Fn("tsdb:Head.loadWAL")
		lw.Has("R4", p.Call("tsdb:Head.updateWALExpiry").InClosures(), 5)
		// sibling rule over the record arms of the replay loop: wherever a record's ref is remapped
		// through multiRef (`if r, ok := multiRef[K]; ok {…}`), the duplicate series record's expiry is
		// extended for that very K in the same arm — except in the arms that carry no timestamp.
		{
			noTS := map[string]string{
				"m.Ref": "metadata records carry no timestamp; the series record is kept by the samples",
				"ref":   "full-deletion tombstone of a stale series: the series is removed, nothing to keep",
			}
			exp := p.Call("tsdb:Head.updateWALExpiry")
			n, nEx := 0, 0
			ast.Inspect(lw.Body, func(x ast.Node) bool {
				is, ok := x.(*ast.IfStmt)
				if !ok || is.Init == nil {
					return true
				}
				as, ok := is.Init.(*ast.AssignStmt)
				if !ok || len(as.Rhs) != 1 {
					return true
				}
				ix, ok := as.Rhs[0].(*ast.IndexExpr)
				if !ok || eng.ExprString(ix.X) != "multiRef" {
					return true
				}
				k := eng.ExprString(ix.Index)
				if _, ex := noTS[k]; ex {
					nEx++
					return true
				}
				n++
				found := false
				ast.Inspect(is.Body, func(y ast.Node) bool {
					if call, ok := y.(*ast.CallExpr); ok && exp.F(lw.Graph, call, eng.Plain) && len(call.Args) == 2 && eng.ExprString(call.Args[0]) == k {
						if _, isSel := call.Args[1].(*ast.SelectorExpr); isSel {
							found = true
						}
					}
					return true
				})
				c.Check("R4", "tsdb:Head.loadWAL", "remap of "+k+" through multiRef extends the WAL expiry of that ref in the same arm (arm at "+p.Pos(is.Pos())+")", found, p.Pos(is.Pos()),
					"the arm that remaps "+k+" to the live series does not call updateWALExpiry("+k+", <timestamp of the same record element>): the duplicate series record can be dropped by a checkpoint that keeps the sample")
				return true
			})
			c.Check("R4", "tsdb:Head.loadWAL", "multiRef remap arms: ≥5 with a timestamp, 2 declared without", n >= 5 && nEx == 2, p.Pos(lw.Body.Pos()), fmt.Sprintf("found %d with timestamp, %d declared exceptions", n, nEx))
		}
	}
	// ---- R5 agent ----
	{
		g := c.Fn("tsdb/agent:DB.gc")
		g.DomOK("R5", eng.LoopOver(p.StoreElem("tsdb/agent:DB.deleted")))
		// a deleted series is tagged with the WAL's current last segment as reported by wlog.Segments
		// (not with a number that was adjusted for checkpointing)
		{
			what := "deletedRefMeta.lastSegment derives only from wlog.Segments()"
			n := 0
			ast.Inspect(g.Body, func(x ast.Node) bool {
				kv, ok := x.(*ast.KeyValueExpr)
				if !ok {
					return true
				}
				id, ok := kv.Key.(*ast.Ident)
				if !ok || g.Info.Uses[id] != p.Field("tsdb/agent:deletedRefMeta.lastSegment") {
					return true
				}
				n++
				ok, bad, why := g.ValueDerivesOnlyFrom(kv.Value, p.IsCallTo("tsdb/wlog:Segments"))
				pos := p.Pos(kv.Pos())
				if bad != nil {
					pos = p.Pos(bad.Pos())
				}
				c.Check("R5", g.Where(), what, ok, pos, why)
				return true
			})
			if n == 0 {
				c.Fail("R5", g.Where(), what, p.Pos(g.Body.Pos()), "no deletedRefMeta{lastSegment: …} literal in DB.gc")
			}
		}
		t := c.Fn("tsdb/agent:DB.truncate")
		cp := eng.Or(p.Call("tsdb/agent:Checkpoint"), p.Call("tsdb/wlog:Checkpoint"))
		t.Dom("R5", p.Call("tsdb/agent:DB.gc"), cp)
		prune := eng.Node("delete(db.deleted, ref)", func(g *eng.Graph, n ast.Node) bool {
			call, ok := n.(*ast.CallExpr)
			if !ok || len(call.Args) != 2 {
				return false
			}
			id, ok := call.Fun.(*ast.Ident)
			return ok && id.Name == "delete" && eng.ExprIsField(g.Info, call.Args[0], p.Field("tsdb/agent:DB.deleted"))
		})
		t.Gate("R5", cp, prune)
		k := c.Fn("tsdb/agent:DB.keepSeriesInWALCheckpointFn").Closure("keep", p.FieldUse("tsdb/agent:DB.deleted"))
		k.Has("R5", p.Call("tsdb/agent:stripeSeries.GetByID"), 1)
		k.Has("R5", p.FieldUse("tsdb/agent:DB.deleted"), 1)
		// replay extends the retention of duplicate/deleted refs for every sample kind (sibling cases)
		lw := c.Fn("tsdb/agent:DB.loadWAL")
		lw.Has("R5", p.StoreElem("tsdb/agent:DB.deleted").InClosures(), 4)
	}
}
