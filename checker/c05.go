package main

import (
	"go/ast"
	"strings"

	"promverif/eng"
)

func init() {
	register(&Property{
		ID:        "C05",
		Title:     "Readers see whole transactions only",
		Technique: "who-may-call + go/cfg order for the append-id bracket; must-hold lockset (go/cfg dataflow, caller-holds summaries) for the isolation tables and the per-series transaction ring; lock-order check",
		DesignRef: "DESIGN.md §5 C05",
		Level: "Decides the structural bracket that isolation relies on: an append id is opened only when an appender is created and closed only by a deferred call in Commit/Rollback registered before " +
			"any sample is committed; every in-order append that succeeds records its append id; the isolation tables are only touched under their mutexes, in a fixed lock order, and a reader's " +
			"snapshot of open appends is taken in one critical section; the per-series ring is only touched under the series lock; every isolation state handed to a chunk reader is closed by it.",
		Note:           "Trusted: go/packages, go/cfg, receiver-insensitive lock identification (one isolation / series object per function), the caller-holds and start-up exception tables in checker/c05.go.",
		Covers:         "owners of newAppendID/closeAppend; defer order in Commit; txs.add before success return in the three append siblings and the appendID argument at the commit sites; lockset of isolation.{appendsOpen,appendsOpenList,readsOpen} and memSeries.txs; appendMtx→readMtx order; isolation.State single critical section; isoState creation/closing in head chunk readers; which end of the open-reads list is written and which is read.",
		NotCover:       "the transaction-id ring itself (txRing) and how ids map to samples beyond the chunk-index convention decided in R6; schedules.",
		Run:            runC05,
		MinObligations: 35,
	})
}

func runC05(c *eng.Ctx) {
	defer runC05Iso(c)
	p := c.P
	// ---- R1 the append-id bracket ----
	c.CallersSubset("R1", "tsdb:isolation.newAppendID", 2, "tsdb:Head.appender", "tsdb:Head.appenderV2")
	c.CallersSubset("R1", "tsdb:isolation.closeAppend", 2, "tsdb:headAppenderBase.Commit", "tsdb:headAppenderBase.Rollback")
	closeApp := p.Call("tsdb:isolation.closeAppend").WithArg(0, "a.appendID", p.IsFieldExpr("tsdb:headAppenderBase.appendID"))
	{
		f := c.Fn("tsdb:headAppenderBase.Commit")
		f.Hasnt("R1", p.Call("tsdb:isolation.closeAppend")) // only deferred: it runs after the last sample is in memory
		for _, cm := range []string{"tsdb:headAppenderBase.commitFloats", "tsdb:headAppenderBase.commitHistograms", "tsdb:headAppenderBase.commitFloatHistograms"} {
			f.Dom("R1", eng.Deferred(closeApp), p.Call(cm))
		}
		f.Given("a.closed", false).CountOnPaths("R1", "closeAppend (deferred, or via Rollback)", []eng.Matcher{closeApp, p.Call("tsdb:headAppenderBase.Rollback")}, 1, eng.AnyExit)
		r := c.Fn("tsdb:headAppenderBase.Rollback")
		r.Given("a.closed", false).CountOnPaths("R1", "closeAppend (deferred)", []eng.Matcher{closeApp}, 1, eng.AnyExit)
	}
	for _, fn := range []string{"tsdb:Head.appender", "tsdb:Head.appenderV2"} {
		f := c.Fn(fn)
		f.DomOK("R1", p.Call("tsdb:isolation.newAppendID"))
		f.ArgDerivesOnlyFrom("R1", p.Call("tsdb:isolation.newAppendID"), 0, "appendableMinValidTime()", p.IsCallTo("tsdb:Head.appendableMinValidTime"))
	}
	// ---- R2 every successful append records its id ----
	for _, fn := range []string{"tsdb:memSeries.append", "tsdb:memSeries.appendHistogram", "tsdb:memSeries.appendFloatHistogram"} {
		f := c.Fn(fn).Given("appendID > 0", true)
		add := p.MethodOn("tsdb:memSeries.txs", "add").WithArg(0, "appendID", eng.IsIdent("appendID"))
		f.Dom("R2", add, eng.ReturnResultText(0, "true"))
		f.Has("R2", eng.ReturnResultText(0, "true"), 1)
	}
	for _, s := range []struct{ fn, app string }{
		{"tsdb:headAppenderBase.commitFloats", "tsdb:memSeries.append"},
		{"tsdb:headAppenderBase.commitHistograms", "tsdb:memSeries.appendHistogram"},
		{"tsdb:headAppenderBase.commitFloatHistograms", "tsdb:memSeries.appendFloatHistogram"},
	} {
		f := c.Fn(s.fn)
		f.Only("R2", p.Call(s.app), "passes the appender's own a.appendID", func(l eng.Loc) bool {
			for _, a := range l.Node.(*ast.CallExpr).Args {
				if p.IsFieldExpr("tsdb:headAppenderBase.appendID")(f.Graph, a) {
					return true
				}
			}
			return false
		})
	}
	c.WritersSubset("R2", "tsdb:headAppenderBase.appendID", 2, "tsdb:Head.appender", "tsdb:Head.appenderV2")
	// ---- R3 lockset of the isolation tables ----
	startup := map[string]string{"tsdb:newIsolation": "constructor"}
	c.GuardedBy("R3", "tsdb:isolation.appendsOpen", "tsdb:isolation.appendMtx", eng.GuardOpts{Min: 4, Unlocked: startup})
	c.GuardedBy("R3", "tsdb:isolation.appendsOpenList", "tsdb:isolation.appendMtx", eng.GuardOpts{Min: 10, Unlocked: startup,
		CallerHolds: []string{"tsdb:isolation.lowWatermarkLocked"}})
	c.GuardedBy("R3", "tsdb:isolation.readsOpen", "tsdb:isolation.readMtx", eng.GuardOpts{Min: 5, Unlocked: startup})
	c.LockOrder("R3", "tsdb:isolation.appendMtx", "tsdb:isolation.readMtx")
	{
		// a reader's snapshot: maxAppendID and the copy of appendsOpen are taken in one critical section
		f := c.Fn("tsdb:isolation.State")
		f.Has("R3", eng.Deferred(p.MethodOn("tsdb:isolation.appendMtx", "RUnlock")), 1)
		f.Hasnt("R3", p.MethodOn("tsdb:isolation.appendMtx", "RUnlock", "Unlock"))
		f.Dom("R3", p.MethodOn("tsdb:isolation.appendMtx", "RLock"), p.FieldUse("tsdb:isolation.appendsOpen"))
		// new reads are linked next to the sentinel (readsOpen.next); the low watermark is taken from
		// the other end (readsOpen.prev), i.e. from the oldest open read
		f.Has("R3", eng.Node("readsOpen.next = isoState", func(g *eng.Graph, n ast.Node) bool {
			as, ok := n.(*ast.AssignStmt)
			if !ok || len(as.Lhs) != 1 {
				return false
			}
			s, ok := as.Lhs[0].(*ast.SelectorExpr)
			return ok && s.Sel.Name == "next" && eng.ExprIsField(g.Info, s.X, p.Field("tsdb:isolation.readsOpen")) && eng.ExprString(as.Rhs[0]) == "isoState"
		}), 1)
		f.Hasnt("R3", eng.Node("readsOpen.prev = …", func(g *eng.Graph, n ast.Node) bool {
			as, ok := n.(*ast.AssignStmt)
			if !ok {
				return false
			}
			for _, l := range as.Lhs {
				if s, ok := l.(*ast.SelectorExpr); ok && s.Sel.Name == "prev" && eng.ExprIsField(g.Info, s.X, p.Field("tsdb:isolation.readsOpen")) {
					return true
				}
			}
			return false
		}))
		w := c.Fn("tsdb:isolation.lowWatermarkLocked")
		w.Has("R3", eng.Node("readsOpen.prev.lowWatermark", func(g *eng.Graph, n ast.Node) bool {
			s, ok := n.(*ast.SelectorExpr)
			if !ok || s.Sel.Name != "lowWatermark" {
				return false
			}
			in, ok := s.X.(*ast.SelectorExpr)
			return ok && in.Sel.Name == "prev" && eng.ExprIsField(g.Info, in.X, p.Field("tsdb:isolation.readsOpen"))
		}), 1)
	}
	// ---- R4 the per-series ring is touched only under the series lock ----
	replay := "WAL/WBL replay and snapshot loading: series are partitioned by ref across workers and the head is not yet shared"
	c.GuardedBy("R4", "tsdb:memSeries.txs", "tsdb:memSeries.Mutex", eng.GuardOpts{Min: 8,
		Unlocked: map[string]string{
			"tsdb:newMemSeries":            "constructor",
			"tsdb:Head.appendWALFloat":     replay,
			"tsdb:Head.appendWALHistogram": replay,
			// the closures built here are the shouldEvict callback, invoked by stripeSeries.gcSeries
			// with the series lock held (checked right below)
			"tsdb:Head.truncateStaleSeries":    "shouldEvict callback, runs under the series lock in stripeSeries.gcSeries",
			"tsdb:Head.truncateSelectedSeries": "shouldEvict callback, runs under the series lock in stripeSeries.gcSeries",
		},
		CallerHolds: []string{"tsdb:memSeries.append", "tsdb:memSeries.appendHistogram", "tsdb:memSeries.appendFloatHistogram",
			"tsdb:memSeries.iterator", "tsdb:memSeries.visibleSamples", "tsdb:Head.chunkFromSeries", "tsdb:memSeries.cleanupAppendIDsBelow", "tsdb:hasAppendIDAbove"}})
	{
		g := c.Fn("tsdb:stripeSeries.gcSeries").InnerClosure("check", eng.CallNamed("shouldEvict"))
		g.Dom("R4", p.Call("sync:Mutex.Lock").WithRecv("series", eng.IsIdent("series")), eng.CallNamed("shouldEvict"))
		g.Has("R4", eng.Deferred(p.Call("sync:Mutex.Unlock").WithRecv("series", eng.IsIdent("series"))), 1)
	}
	{
		f := c.Fn("tsdb:safeHeadChunk.Iterator")
		f.Chain("R4", p.Call("sync:Mutex.Lock"), p.Call("tsdb:memSeries.iterator"), p.Call("sync:Mutex.Unlock"))
		c.CallersSubset("R4", "tsdb:memSeries.iterator", 1, "tsdb:safeHeadChunk.Iterator")
		// visibleSamples reads the ring: from iterator (above) and from chunkFromSeries, whose callers hold the lock
		c.CallersSubset("R4", "tsdb:memSeries.visibleSamples", 2, "tsdb:memSeries.iterator", "tsdb:Head.chunkFromSeries")
		c.CallersSubset("R4", "tsdb:Head.chunkFromSeries", 3, "tsdb:headChunkReader.chunk", "tsdb:HeadAndOOOChunkReader.chunkOrIterable")
		for _, fn := range []string{"tsdb:headChunkReader.chunk", "tsdb:HeadAndOOOChunkReader.chunkOrIterable"} {
			g := c.Fn(fn)
			g.Dom("R4", p.Call("sync:Mutex.Lock"), p.Call("tsdb:Head.chunkFromSeries"))
			g.Has("R4", eng.Deferred(p.Call("sync:Mutex.Unlock")), 1)
			g.Hasnt("R4", p.Call("sync:Mutex.Unlock")) // only deferred: held until the chunk is wrapped
		}
	}
	// ---- R5 isolation states handed to chunk readers are created and closed ----
	{
		f := c.Fn("tsdb:RangeHead.Chunks").Given("h.isolationOff", false)
		f.Dom("R5", p.Call("tsdb:isolation.State"), p.Call("tsdb:Head.chunksRange"))
		g := c.Fn("tsdb:Head.Chunks")
		g.Has("R5", p.Call("tsdb:isolation.State"), 1)
		cl := c.Fn("tsdb:headChunkReader.Close").Given("h.isoState != nil", true)
		cl.DomOK("R5", p.MethodOn("tsdb:headChunkReader.isoState", "Close"))
		c.WritersSubset("R5", "tsdb:headChunkReader.isoState", 3, "tsdb:Head.chunksRange", "tsdb:NewHeadAndOOOQuerier", "tsdb:NewHeadAndOOOChunkQuerier")
		// the OOO wrappers create their own in-order isolation state and own the reader that closes it
		for _, s := range []struct{ fn, typ string }{{"tsdb:NewHeadAndOOOQuerier", "HeadAndOOOQuerier"}, {"tsdb:NewHeadAndOOOChunkQuerier", "HeadAndOOOChunkQuerier"}} {
			c.Fn(s.fn).Has("R5", p.Call("tsdb:isolation.State"), 1)
			c.Fn("tsdb:"+s.typ+".Close").Has("R5", p.MethodOn("tsdb:"+s.typ+".chunkr", "Close"), 1)
		}
		oc := c.Fn("tsdb:HeadAndOOOChunkReader.Close")
		oc.Has("R5", p.MethodOn("tsdb:HeadAndOOOChunkReader.cr", "Close"), 1)
	}
	// ---- R6 how many of the series' samples precede the chunk being read (added for seed C05-b) ----
	// The number of append ids to consider is derived from the samples in chunks *before* chunk ix; head chunks
	// are indexed oldest-first but walked newest-first, so the newest has index count−1 — the same convention
	// memSeries.chunk uses to look a chunk up.
	{
		it := c.Fn("tsdb:memSeries.visibleSamples")
		lin := func(f *eng.Fn, e ast.Expr) string {
			l, ok := eng.Linear(f.Info, e)
			if !ok {
				return "?" + nodeText(e)
			}
			return l.String()
		}
		jInit := ""
		ast.Inspect(it.Body, func(n ast.Node) bool {
			if as, ok := n.(*ast.AssignStmt); ok && len(as.Lhs) == 1 && nodeText(as.Lhs[0]) == "j" && as.Tok.String() == ":=" {
				jInit = lin(it, as.Rhs[0])
			}
			return true
		})
		c.Check("R6", it.Where(), "walking the head chunks newest-first, the index starts at headChunkCount − 1", jInit == "+1*s.headChunkCount.Load() -1", p.Pos(it.Body.Pos()), jInit)
		it.AstEvery("R6", "newest-first walk of the head chunks", func(n ast.Node) bool {
			fs, ok := n.(*ast.ForStmt)
			return ok && fs.Init != nil && nodeText(fs.Init) == "elem := s.headChunks"
		}, "counts a chunk as preceding exactly when its index is below ix, and steps the index down once per element", func(n ast.Node) bool {
			b := n.(*ast.ForStmt).Body.List
			if len(b) < 3 || nodeText(b[len(b)-1]) != "j--" {
				return false
			}
			for _, st := range b {
				if is, ok := st.(*ast.IfStmt); ok {
					l, okL := eng.LinearCmp(it.Info, is.Cond)
					return okL && l == "-1*ix +1*j < 0" && nodeText(is.Body) == "{ previousSamples += chkSamples }"
				}
			}
			return false
		}, 1)
		it.AstEvery("R6", "walk of the m-mapped chunks", func(n ast.Node) bool {
			rs, ok := n.(*ast.RangeStmt)
			return ok && nodeText(rs.X) == "s.mmappedChunks" && strings.Contains(nodeText(rs.Body), "previousSamples")
		}, "counts a chunk as preceding exactly when its index is below ix", func(n ast.Node) bool {
			for _, st := range n.(*ast.RangeStmt).Body.List {
				if is, ok := st.(*ast.IfStmt); ok {
					l, okL := eng.LinearCmp(it.Info, is.Cond)
					return okL && l == "-1*ix +1*j < 0"
				}
			}
			return false
		}, 1)
		ck := c.Fn("tsdb:memSeries.chunk")
		off := ""
		ast.Inspect(ck.Body, func(n ast.Node) bool {
			if as, ok := n.(*ast.AssignStmt); ok && len(as.Lhs) == 1 && nodeText(as.Lhs[0]) == "offset" && as.Tok.String() == ":=" {
				off = lin(ck, as.Rhs[0])
			}
			return true
		})
		c.Check("R6", ck.Where(), "chunk lookup uses the same convention: steps from the newest = count − ix − 1", off == "+1*headChunksLen -1*ix -1", p.Pos(ck.Body.Pos()), off)
	}
}
