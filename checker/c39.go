package main

import (
	"fmt"
	"go/types"
	"sort"
	"strings"

	"promverif/eng"
)

func init() {
	register(&Property{
		ID:        "C39",
		Title:     "Label sets behave the same in every build variant",
		Technique: "build-variant analysis (engine E10): the main module is loaded and type-checked three times (default stringlabels, -tags slicelabels, -tags dedupelabels); the exported API of model/labels (objects, signatures, method sets of exported types) is compared across the three loads; per variant, sibling obligations over the constructors (sorted / empty values dropped) are checked",
		DesignRef: "DESIGN.md §5 C39",
		Level: "Decides that the whole module type-checks against each of the three label-set implementations, that the three implementations export exactly the same API (same functions, same method sets with identical signatures on Labels, Builder, ScratchBuilder), that tsdb exports RebuildSymbolTable in every variant, " +
			"and that in each variant the constructors that accept unordered input sort by name and the builders drop empty values.",
		Note:           "Trusted: go/packages, go/types; three loads per run (about 15 s).",
		Covers:         "model/labels (labels_stringlabels.go, labels_slicelabels.go, labels_dedupelabels.go, sharding*.go, labels_common.go), tsdb/head_dedupelabels.go vs head_other.go.",
		NotCover:       "that the three implementations compute equal results (lookups, order, bytes, hashes): value-level.",
		Run:            runC39,
		MinObligations: 12,
	})
}

func apiOf(pk *types.Package) map[string]string {
	out := map[string]string{}
	q := func(p *types.Package) string {
		if p == pk {
			return ""
		}
		return p.Path()
	}
	sc := pk.Scope()
	for _, n := range sc.Names() {
		o := sc.Lookup(n)
		if !o.Exported() {
			continue
		}
		switch x := o.(type) {
		case *types.TypeName:
			// the representation differs by design; the method set must not
			out["type "+n] = "type"
			for _, t := range []types.Type{x.Type(), types.NewPointer(x.Type())} {
				ms := types.NewMethodSet(t)
				for i := 0; i < ms.Len(); i++ {
					m := ms.At(i).Obj()
					if m.Exported() {
						out["method "+types.TypeString(t, q)+"."+m.Name()] = sigString(m.Type(), q)
					}
				}
			}
		case *types.Func, *types.Var:
			out[fmt.Sprintf("%T %s", o, n)] = sigString(o.Type(), q)
		case *types.Const:
			if n == "ImplementationName" {
				continue // names the variant, differs by design
			}
			out["const "+n] = types.TypeString(o.Type(), q) + " = " + x.Val().ExactString()
		}
	}
	return out
}

// sigString renders a signature without parameter names.
func sigString(t types.Type, q types.Qualifier) string {
	sig, ok := t.(*types.Signature)
	if !ok {
		return types.TypeString(t, q)
	}
	tup := func(tp *types.Tuple) string {
		var s []string
		for i := 0; i < tp.Len(); i++ {
			s = append(s, types.TypeString(tp.At(i).Type(), q))
		}
		return "(" + strings.Join(s, ", ") + ")"
	}
	v := ""
	if sig.Variadic() {
		v = "variadic "
	}
	return v + "func" + tup(sig.Params()) + " " + tup(sig.Results())
}

func runC39(c *eng.Ctx) {
	defer runC39Hash(c)
	p := c.P
	variants := map[string]*eng.Prog{"stringlabels": p}
	for _, tag := range []string{"slicelabels", "dedupelabels"} {
		vp, err := eng.Load(eng.LoadOpts{RepoDir: p.RepoDir, Tags: tag, Overlay: p.Overlay, AllowUnusedOverlay: true})
		c.Check("R1", "module [tags="+tag+"]", "the whole module loads and type-checks under this label implementation", err == nil, "", fmt.Sprint(err))
		if err == nil {
			variants[tag] = vp
			c.Check("R1", "module [tags="+tag+"]", "same number of module packages as the default build", len(vp.Pkgs) == len(p.Pkgs), "", fmt.Sprintf("%d vs %d", len(vp.Pkgs), len(p.Pkgs)))
		}
	}
	base := apiOf(p.Pkg("model/labels").Types)
	c.Check("R2", "model/labels", "exported API has ≥ 80 entries", len(base) >= 80, "", fmt.Sprint(len(base)))
	for _, tag := range []string{"slicelabels", "dedupelabels"} {
		vp := variants[tag]
		if vp == nil {
			continue
		}
		other := apiOf(vp.Pkg("model/labels").Types)
		var diff, only []string
		common := 0
		for k, v := range base {
			if ov, ok := other[k]; !ok {
				only = append(only, "only in stringlabels: "+k)
			} else {
				common++
				if ov != v {
					diff = append(diff, k+": "+v+" vs "+ov)
				}
			}
		}
		for k := range other {
			if _, ok := base[k]; !ok {
				only = append(only, "only in "+tag+": "+k)
			}
		}
		sort.Strings(diff)
		sort.Strings(only)
		// Elements that exist in one variant only cannot be used by code that builds under all tags (R1
		// type-checks every package of the module under each tag), so only the shared part is compared.
		c.Check("R2", "model/labels [stringlabels vs "+tag+"]", "every exported object / method the two variants share has the same signature", len(diff) == 0 && common >= 80, "",
			fmt.Sprintf("%d shared entries; differing: %s; variant-only (unusable from portable code): %s", common, strings.Join(diff, "; "), strings.Join(only, "; ")))
	}
	// tsdb.RebuildSymbolTable in every variant
	for tag, vp := range variants {
		f := vp.TryFunc("tsdb:Head.RebuildSymbolTable")
		c.Check("R2", "tsdb:Head.RebuildSymbolTable ["+tag+"]", "exists", f != nil, "", "")
	}
	// ---- R3 per variant: the builders produce sorted, non-empty label sets ----
	for tag, vp := range variants {
		vc := eng.NewCtx(vp, c.Prop, c.Tier)
		// Builder.Labels skips deleted names and appends overrides, then sorts
		bl := vc.Fn("model/labels:Builder.Labels")
		bl.Has("R3", eng.Or(eng.CallNamed("SortFunc"), eng.CallNamed("Sort"), eng.CallNamed("sortLabels")), 1)
		// New / FromMap / FromStrings sort their input
		for _, fn := range []string{"New", "FromStrings"} {
			f := vc.Fn("model/labels:" + fn)
			f.Has("R3", eng.Or(eng.CallNamed("SortFunc"), eng.CallNamed("Sort"), eng.CallNamed("New"), eng.CallNamed("sortLabels")).InClosures(), 1)
		}
		// Set("") deletes (common code, but checked in each load)
		vc.Fn("model/labels:Builder.Set").GivenBranch(`v == ""`, true).DomOK("R3", vp.Call("model/labels:Builder.Del"))
		for _, ob := range vc.Obls {
			ob.Where += " [" + tag + "]"
			c.Obls = append(c.Obls, ob)
		}
		for f := range vc.FnsAnalysed {
			c.FnsAnalysed[f] = true
		}
	}
}
