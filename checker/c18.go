package main

import (
	"go/ast"
	"strings"

	"promverif/eng"
)

func init() {
	register(&Property{
		ID:        "C18",
		Title:     "Query sharding partitions series by a stable hash of their labels",
		Technique: "who-computes rule for the shard hash (callers and def-use: blocks hash the series' labels with labels.StableHash, the head stores StableHash(lset) of the very label set the series is created with and never rewrites it); decision-shape rule for both ShardedPostings (hash % count compared with the index, nothing else filters); per-build-variant rule that StableHash feeds every label name and value, each followed by the separator, into the digest (no label skipped when switching to the streaming digest); variants type-checked under all three label build tags in the thorough tier",
		DesignRef: "DESIGN.md §5 C18",
		Level: "Decides that the block index reader and the head index reader keep exactly the series whose stable label hash modulo the shard count equals the shard index, that the head's per-series shard hash is StableHash of the label set the series was created with (written once, in newMemSeries), that neither path uses the process-local Labels.Hash, " +
			"and that StableHash in the loaded build variant consumes every decoded label (name, separator, value, separator) on both its buffered and its streaming path.",
		Note:           "Trusted: go/packages, go/types, go/cfg; rule tables in checker/c18.go; thorough tier repeats the hash rules under -tags slicelabels and dedupelabels.",
		Covers:         "index.Reader.ShardedPostings, headIndexReader.ShardedPostings, Head.getOrCreateWithOptionalID → newMemSeries(shardHash), memSeries.shardHash writers, labels.StableHash (variant in the build).",
		NotCover:       "equality of the hash values across variants and versions (value-level), the postings the shards are computed from.",
		Run:            runC18,
		Tags:           []string{"slicelabels", "dedupelabels"},
		MinObligations: 10,
	})
}

func runC18(c *eng.Ctx) {
	p := c.P
	stable := p.Call("model/labels:StableHash")
	// ---- R1 who computes the shard ----
	br := c.Fn("tsdb/index:Reader.ShardedPostings")
	br.Has("R1", stable, 1)
	br.Only("R1", stable, "hashes the labels just read for this series", func(l eng.Loc) bool { a := eng.CallArgsText(l); return len(a) == 1 && a[0] == "bufLbls.Labels()" })
	br.Dom("R1", eng.CallNamed("Series"), stable)
	br.FailStops("R1", eng.CallNamed("Series"), stable)
	shardTest := func(f *eng.Fn, hashText string) {
		f.AstEvery("R1", "shard membership test", func(n ast.Node) bool {
			is, ok := n.(*ast.IfStmt)
			return ok && strings.Contains(eng.ExprString(is.Cond), "shardCount")
		}, "skips exactly the series whose hash % shardCount differs from shardIndex", func(n ast.Node) bool {
			is := n.(*ast.IfStmt)
			return strings.ReplaceAll(eng.ExprString(is.Cond), " ", "") == hashText+"%shardCount!=shardIndex" && nodeText(is.Body) == "{ continue }"
		}, 1)
		f.AstEvery("R1", "`continue` in the postings loop", func(n ast.Node) bool {
			br, ok := n.(*ast.BranchStmt)
			return ok && br.Tok.String() == "continue"
		}, "belongs to the shard test or to a series that no longer exists", func(n ast.Node) bool { return true }, 1)
	}
	shardTest(br, "labels.StableHash(bufLbls.Labels())")
	hr := c.Fn("tsdb:headIndexReader.ShardedPostings")
	shardTest(hr, "s.shardHash")
	hr.Has("R1", p.FieldUse("tsdb:memSeries.shardHash"), 1)
	hr.Dom("R1", p.FieldUse("tsdb:HeadOptions.EnableSharding"), p.FieldUse("tsdb:memSeries.shardHash"))
	c.WritersSubset("R1", "tsdb:memSeries.shardHash", 1, "tsdb:newMemSeries")
	c.CallersSubset("R1", "tsdb:newMemSeries", 1, "tsdb:Head.getOrCreateWithOptionalID")
	g := c.Fn("tsdb:Head.getOrCreateWithOptionalID")
	g.Only("R1", p.Call("tsdb:newMemSeries"), "creates the series with (lset, id, shardHash)", func(l eng.Loc) bool {
		a := eng.CallArgsText(l)
		return len(a) >= 3 && a[0] == "lset" && a[2] == "shardHash"
	})
	g.Only("R1", eng.AssignVar("shardHash"), "is zero (sharding disabled) or StableHash of the same label set", func(l eng.Loc) bool {
		as, ok := l.Node.(*ast.AssignStmt)
		if !ok {
			return false
		}
		t := eng.ExprString(as.Rhs[0])
		return t == "uint64(0)" || t == "labels.StableHash(lset)"
	})
	g.GivenBranch("h.opts.EnableSharding", true).Dom("R1", stable, p.Call("tsdb:newMemSeries"))
	for _, from := range []string{"tsdb/index:Reader.ShardedPostings", "tsdb:headIndexReader.ShardedPostings"} {
		c.NoReach("R1", from, []string{"model/labels:Labels.Hash"})
	}
	// ---- R3 StableHash consumes every label (variant in this build) ----
	f := c.Fn("model/labels:StableHash")
	seps := eng.Node("h.Write(seps)", func(g *eng.Graph, n ast.Node) bool { return nodeText(n) == "h.Write(seps)" })
	sepb := eng.Node("b = append(b, sep)", func(g *eng.Graph, n ast.Node) bool { return nodeText(n) == "b = append(b, sep)" })
	f.Has("R3", seps, 2)
	f.Has("R3", sepb, 2)
	f.DomOK("R3", eng.Or(eng.CallNamed("Sum64")))
	switch p.Tags {
	case "":
		decName := eng.Node("v.Name, i = decodeString(…)", func(g *eng.Graph, n ast.Node) bool {
			as, ok := n.(*ast.AssignStmt)
			return ok && len(as.Lhs) == 2 && eng.ExprString(as.Lhs[0]) == "v.Name" && strings.HasPrefix(eng.ExprString(as.Rhs[0]), "decodeString(")
		})
		decVal := eng.Node("v.Value, i = decodeString(…)", func(g *eng.Graph, n ast.Node) bool {
			as, ok := n.(*ast.AssignStmt)
			return ok && len(as.Lhs) == 2 && eng.ExprString(as.Lhs[0]) == "v.Value" && strings.HasPrefix(eng.ExprString(as.Rhs[0]), "decodeString(")
		})
		useOf := func(field string) eng.Matcher {
			return eng.Node("hash input "+field, func(g *eng.Graph, n ast.Node) bool {
				t := nodeText(n)
				return t == "h.WriteString("+field+")" || t == "b = append(b, "+field+"...)"
			})
		}
		f.ConsumedBefore("R3", decName, useOf("v.Name"), decName)
		f.ConsumedBefore("R3", decVal, useOf("v.Value"), decVal)
		f.PassesBetween("R3", useOf("v.Name"), eng.Or(seps, sepb), useOf("v.Value"))
		// once the digest has taken over, nothing is written to the abandoned buffer any more (h is never
		// reset, so after the switch every `h != nil` test takes its true arm: those false edges are excluded)
		takeover := eng.Node("h = xxhash.New()", func(g *eng.Graph, n ast.Node) bool { return nodeText(n) == "h = xxhash.New()" })
		f.Has("R3", takeover, 1)
		f.Only("R3", eng.AssignVar("h"), "is assigned only by the switch to the digest", func(l eng.Loc) bool {
			_, isAssign := l.Node.(*ast.AssignStmt)
			return !isAssign || nodeText(l.Node) == "h = xxhash.New()"
		})
		f.GivenBranch("h != nil", true).NoPath("R3", takeover, eng.Node("b = append(b, …)", func(g *eng.Graph, n ast.Node) bool {
			return strings.HasPrefix(nodeText(n), "b = append(b, ")
		}))
		f.PassesBetween("R3", takeover, eng.Node("h.Write(b)", func(g *eng.Graph, n ast.Node) bool {
			c, ok := n.(*ast.CallExpr)
			return ok && nodeText(c) == "h.Write(b)"
		}), useOf("v.Name"))
	case "slicelabels":
		f.AstEvery("R3", "streaming loop after the buffer overflowed", func(n ast.Node) bool {
			rs, ok := n.(*ast.RangeStmt)
			return ok && strings.Contains(nodeText(rs.Body), "h.WriteString(v.Name)") && !strings.Contains(nodeText(rs.Body), "range ")
		}, "continues with the label that did not fit (ls[i:], i being the outer index)", func(n ast.Node) bool {
			return eng.ExprString(n.(*ast.RangeStmt).X) == "ls[i:]"
		}, 1)
		f.AstEvery("R3", "outer loop", func(n ast.Node) bool {
			rs, ok := n.(*ast.RangeStmt)
			return ok && eng.ExprString(rs.X) == "ls"
		}, "binds i as the index", func(n ast.Node) bool {
			rs := n.(*ast.RangeStmt)
			return rs.Key != nil && eng.ExprString(rs.Key) == "i"
		}, 1)
	case "dedupelabels":
		adv := eng.AssignVarVal("pos", "newPos", eng.IsIdent("newPos"))
		f.Dom("R3", eng.Node("b = append(b, value...)", func(g *eng.Graph, n ast.Node) bool { return nodeText(n) == "b = append(b, value...)" }), adv)
		// the streaming loop re-reads from the cursor, which was not advanced past the label that did not fit
		f.AstEvery("R3", "streaming loop after the buffer overflowed", func(n ast.Node) bool {
			fs, ok := n.(*ast.ForStmt)
			return ok && strings.Contains(nodeText(fs.Body), "h.WriteString(name)")
		}, "decodes from `pos`", func(n ast.Node) bool {
			return strings.Contains(nodeText(n.(*ast.ForStmt).Body), "name, pos = decodeString(ls.syms, ls.data, pos)")
		}, 1)
		f.Has("R3", adv, 1)
	}
}
