package main

import (
	"fmt"
	"go/ast"
	"go/token"
	"go/types"
	"sort"
	"strings"

	"promverif/eng"
)

// C35.R8 (added for seed C35-b): a parser whose StartTimestamp() peeks ahead by calling its own Next() overwrites the
// per-entry fields; an accessor that hands out the *address* of such a field (instead of a copy) gives the caller a
// value that changes under it.  Derived per parser type: fields stored by Next (and the methods it calls), methods
// reachable from StartTimestamp, address-of expressions in the accessors.
func runC35Pointers(c *eng.Ctx) {
	p := c.P
	defer runC35Text(c)
	T := "model/textparse:"
	nPeek := 0
	for _, typ := range []string{"PromParser", "OpenMetricsParser", "ProtobufParser", "NHCBParser"} {
		named := p.Named(T + typ)
		methods := map[string]*eng.Fn{}
		for i := 0; i < named.NumMethods(); i++ {
			methods[named.Method(i).Name()] = c.Fn(T + typ + "." + named.Method(i).Name())
		}
		calls := func(f *eng.Fn) []string {
			var out []string
			recv := ""
			if f.Decl.Recv != nil && len(f.Decl.Recv.List[0].Names) == 1 {
				recv = f.Decl.Recv.List[0].Names[0].Name
			}
			ast.Inspect(f.Body, func(n ast.Node) bool {
				if call, ok := n.(*ast.CallExpr); ok {
					if se, ok := call.Fun.(*ast.SelectorExpr); ok && eng.ExprString(se.X) == recv && methods[se.Sel.Name] != nil {
						out = append(out, se.Sel.Name)
					}
				}
				return true
			})
			return out
		}
		reach := func(from string) map[string]bool {
			seen := map[string]bool{}
			var walk func(string)
			walk = func(m string) {
				if seen[m] || methods[m] == nil {
					return
				}
				seen[m] = true
				for _, cal := range calls(methods[m]) {
					walk(cal)
				}
			}
			walk(from)
			return seen
		}
		if methods["StartTimestamp"] == nil || methods["Next"] == nil {
			continue
		}
		peeks := reach("StartTimestamp")["Next"]
		if !peeks {
			c.Pass("R8", T+typ, "StartTimestamp does not re-enter Next (accessors may expose entry state by reference)", "")
			continue
		}
		nPeek++
		// fields stored by Next and what it calls
		stored := map[string]bool{}
		st, _ := named.Underlying().(*types.Struct)
		for m := range reach("Next") {
			for i := 0; i < st.NumFields(); i++ {
				if len(methods[m].Find(p.Store(T+typ+"."+st.Field(i).Name()))) > 0 {
					stored[st.Field(i).Name()] = true
				}
			}
		}
		for name, f := range methods {
			if !ast.IsExported(name) || name == "Next" || name == "StartTimestamp" {
				continue
			}
			recv := ""
			if len(f.Decl.Recv.List[0].Names) == 1 {
				recv = f.Decl.Recv.List[0].Names[0].Name
			}
			var leaked []string
			ast.Inspect(f.Body, func(n ast.Node) bool {
				rs, ok := n.(*ast.ReturnStmt)
				if !ok {
					return true
				}
				for _, r := range rs.Results {
					if u, ok := ast.Unparen(r).(*ast.UnaryExpr); ok && u.Op == token.AND {
						if se, ok := u.X.(*ast.SelectorExpr); ok && eng.ExprString(se.X) == recv && stored[se.Sel.Name] {
							leaked = append(leaked, se.Sel.Name)
						}
					}
				}
				return true
			})
			sort.Strings(leaked)
			c.Check("R8", f.Where(), "hands out no address of a field that the StartTimestamp peek overwrites", len(leaked) == 0, p.Pos(f.Body.Pos()),
				"returns &"+recv+"."+strings.Join(leaked, ", &"+recv+".")+": StartTimestamp calls Next to look ahead and restores only the lexer position, so the pointed-to value becomes the one of a later line")
		}
	}
	c.Check("R8", "model/textparse", "parsers whose StartTimestamp peeks through Next (≥ 1)", nPeek >= 1, "", fmt.Sprint(nPeek))
}

// C35.R9–R13: clauses of "parsing yields exactly the encoded labels, timestamps, exemplars and metadata" that are
// visible in the shape of the two text parsers (findings F43–F47).
func runC35Text(c *eng.Ctx) {
	p := c.P
	T := "model/textparse:"
	// ---- R9 every label name/value cut out of the input goes through the escape decoder ----
	nAdd := 0
	for _, fn := range []string{"OpenMetricsParser.Labels", "OpenMetricsParser.Exemplar", "PromParser.Labels"} {
		f := c.Fn(T + fn)
		ast.Inspect(f.Body, func(n ast.Node) bool {
			call, ok := n.(*ast.CallExpr)
			if !ok || nodeText(call.Fun) != "p.builder.Add" || len(call.Args) != 2 {
				return true
			}
			for i, a := range call.Args {
				t := nodeText(a)
				if id, isID := a.(*ast.Ident); isID {
					// a local computed before: look at its definition
					ast.Inspect(f.Body, func(y ast.Node) bool {
						if as, ok := y.(*ast.AssignStmt); ok && len(as.Lhs) == 1 && nodeText(as.Lhs[0]) == id.Name && as.Pos() < call.Pos() {
							t = nodeText(as.Rhs[0])
						}
						return true
					})
				}
				if !strings.Contains(t, "s[") {
					continue // not a substring of the input (a constant name)
				}
				nAdd++
				c.Check("R9", f.Where(), fmt.Sprintf("argument %d of %s is decoded with unreplace", i+1, nodeText(call)), strings.HasPrefix(t, "unreplace(") || strings.Contains(t, "unreplace("), p.Pos(a.Pos()),
					"the raw text between the quotes still carries the exposition format's escapes (\\\\, \\\", \\n)")
			}
			return true
		})
	}
	c.Check("R9", "model/textparse", "label texts added from the input (≥ 4)", nAdd >= 4, "", fmt.Sprint(nAdd))
	// ---- R10 the series hash that pairs a series with its _created line keeps names and values apart ----
	sh := c.Fn(T + "OpenMetricsParser.seriesHash")
	var loop *ast.ForStmt
	ast.Inspect(sh.Body, func(n ast.Node) bool {
		if fs, ok := n.(*ast.ForStmt); ok && loop == nil {
			loop = fs
		}
		return true
	})
	okSep := false
	if loop != nil {
		// sequence of appends in the loop body: name, separator, value, separator
		var seq []string
		for _, st := range loop.Body.List {
			t := nodeText(st)
			switch {
			case strings.HasPrefix(t, "*offsetsArr = append(*offsetsArr, p.series[lStart:lEnd]..."):
				seq = append(seq, "name")
			case strings.HasPrefix(t, "*offsetsArr = append(*offsetsArr, p.series[vStart:vEnd]..."):
				seq = append(seq, "value")
			case strings.HasPrefix(t, "*offsetsArr = append(*offsetsArr, '"), strings.HasPrefix(t, "*offsetsArr = append(*offsetsArr, sep"), strings.HasPrefix(t, "*offsetsArr = append(*offsetsArr, seps"):
				seq = append(seq, "sep")
			}
		}
		okSep = strings.Join(seq, " ") == "name sep value sep"
	}
	c.Check("R10", sh.Where(), "label names and values enter the hash input separated (name, separator, value, separator)", okSep, p.Pos(sh.Body.Pos()),
		"without separators {a=\"bc\"} and {ab=\"c\"} hash alike and the _created line of one series is taken for the other's")
	// ---- R11 per-family metadata state ----
	nx := c.Fn(T + "OpenMetricsParser.Next")
	cleared := false
	ast.Inspect(nx.Body, func(n ast.Node) bool {
		is, ok := n.(*ast.IfStmt)
		if ok && strings.Contains(nodeText(is.Cond), "p.unitMFName") && strings.Contains(nodeText(is.Body), `p.unit = ""`) {
			cleared = true
		}
		return true
	})
	c.Check("R11", nx.Where(), "the unit is forgotten when a metadata line names another metric family", cleared, p.Pos(nx.Body.Pos()),
		"p.unit is only ever set by a UNIT line: the next family without one inherits it (__unit__ label)")
	stf := c.Fn(T + "OpenMetricsParser.StartTimestamp")
	var restored []string
	ast.Inspect(stf.Body, func(n ast.Node) bool {
		ds, ok := n.(*ast.DeferStmt)
		if !ok {
			return true
		}
		ast.Inspect(ds, func(m ast.Node) bool {
			if as, ok := m.(*ast.AssignStmt); ok {
				for _, l := range as.Lhs {
					restored = append(restored, strings.TrimPrefix(nodeText(l), "p."))
				}
			}
			return true
		})
		return true
	})
	sort.Strings(restored)
	has := func(f string) bool {
		for _, r := range restored {
			if r == f {
				return true
			}
		}
		return false
	}
	c.Check("R11", stf.Where(), "the look-ahead restores the family state that metadata lines change (mtype, unit, unitMFName) besides the lexer", has("mtype") && has("unit") && has("unitMFName") && has("l"), p.Pos(stf.Body.Pos()), "restored: "+strings.Join(restored, ", "))
	// ---- R12 metric names in metadata entries read like in Labels ----
	for _, fn := range []string{"OpenMetricsParser.Help", "OpenMetricsParser.Type", "OpenMetricsParser.Unit", "PromParser.Help", "PromParser.Type"} {
		f := c.Fn(T + fn)
		raw := false
		n := 0
		ast.Inspect(f.Body, func(x ast.Node) bool {
			se, ok := x.(*ast.SliceExpr)
			if !ok || nodeText(se) != "p.l.b[p.offsets[0]:p.offsets[1]]" {
				return true
			}
			n++
			// the slice must be the argument of unreplaceBytes
			wrapped := false
			ast.Inspect(f.Body, func(y ast.Node) bool {
				if call, ok := y.(*ast.CallExpr); ok && nodeText(call.Fun) == "unreplaceBytes" && len(call.Args) == 1 && call.Args[0] == ast.Expr(se) {
					wrapped = true
				}
				return true
			})
			raw = raw || !wrapped
			return true
		})
		c.Check("R12", f.Where(), "returns the metric name decoded (unreplaceBytes), as Labels does for the same family", n >= 1 && !raw, p.Pos(f.Body.Pos()),
			"a quoted name with escapes is returned raw here and decoded in Labels: metadata and samples of the family do not match up")
	}
	// ---- R13 seconds (float) to milliseconds ----
	// no raw truncating conversion int64(x * 1000) anywhere in the OpenMetrics parser; the conversions go through
	// secondsToMilliseconds, which rounds (to microseconds) before it cuts
	nConv, nRaw := 0, 0
	for _, f := range c.MethodsOf(T + "OpenMetricsParser") {
		f := f
		ast.Inspect(f.Body, func(x ast.Node) bool {
			call, ok := x.(*ast.CallExpr)
			if !ok || len(call.Args) != 1 {
				return true
			}
			if nodeText(call.Fun) == "secondsToMilliseconds" {
				nConv++
				return true
			}
			if nodeText(call.Fun) != "int64" {
				return true
			}
			be, ok := ast.Unparen(call.Args[0]).(*ast.BinaryExpr)
			if !ok || be.Op != token.MUL || !strings.HasPrefix(nodeText(be.Y), "1000") {
				return true
			}
			nRaw++
			c.Check("R13", f.Where(), "the conversion "+nodeText(call)+" of seconds to milliseconds rounds to the nearest millisecond", false, p.Pos(call.Pos()),
				"int64() truncates: 1.001 s is 1000.9999999999999 after the multiplication and becomes 1000 ms, although the encoder writes milliseconds exactly as sec.mmm")
			return true
		})
	}
	helperOK := false
	if p.TryFunc(T+"secondsToMilliseconds") != nil {
		h := c.Fn(T + "secondsToMilliseconds")
		helperOK = strings.Contains(nodeText(h.Body), "math.Round(")
	}
	c.Check("R13", "model/textparse:OpenMetricsParser", "sample, exemplar and _created timestamps (≥ 3 conversions) go through a rounding conversion, none is truncated raw", nRaw == 0 && nConv >= 3 && helperOK, "", fmt.Sprintf("%d through secondsToMilliseconds, %d raw, helper rounds: %v", nConv, nRaw, helperOK))
}
